/-
  Rngs.Lib.PoolMeasure — bijectivity of the pool-update steps and their propagation through the
  timer monad of `Rngs.Model.Jitter` (`measureJitter`, `collect`, `genEntropy`).
-/
import Rngs.Cert.PoolCheck

namespace Rngs
namespace PoolJitter
open PoolLinear Jitter

/-! ## the four steps -/

theorem lfsr_bijective_in_pool (t : U64) : Function.Bijective (fun d => lfsr d t) := by
  have h : (fun d => lfsr d t) = fun d => lfsr 0 t ^^^ (fun d => lfsr d 0) d := by
    funext d
    rw [lfsr_split d t, BitVec.xor_comm]
  rw [h]
  exact bijective_xor_const _ (bijective_of_inverse_on_basis lfsr_pool_isAdd PoolCert.lfsrPool_inverse)

theorem lfsr_bijective_in_time (d : U64) : Function.Bijective (fun t => lfsr d t) := by
  have h : (fun t => lfsr d t) = fun t => lfsr d 0 ^^^ (fun t => lfsr 0 t) t := by
    funext t
    rw [lfsr_split d t]
  rw [h]
  exact bijective_xor_const _ (bijective_of_inverse_on_basis lfsr_time_isAdd PoolCert.lfsrTime_inverse)

theorem rotate7_bijective : Function.Bijective (fun d : U64 => d.rotateLeft 7) :=
  ⟨fun a b h => by
      have := congrArg (fun x : U64 => x.rotateRight 7) h
      simpa only [rotateRight_rotateLeft_7] using this,
   fun y => ⟨y.rotateRight 7, rotateLeft_rotateRight_7 y⟩⟩

theorem stir_bijective : Function.Bijective stir := by
  have h : stir = fun d => stir 0 ^^^ stirLin d := funext stir_affine
  rw [h]
  exact bijective_xor_const _ (bijective_of_inverse_on_basis stirLin_isAdd PoolCert.stirLin_inverse)

/-! ## the timer monad, one reading at a time -/

theorem tick_nil : tick [] = none := rfl
theorem tick_cons (r : U64) (rs : List U64) : tick (r :: rs) = some (r, rs) := rfl

/-- the value `random_loop_cnt(n_bits)` computes from the reading `r` -/
def loopCnt (j : Rng) (nBits : Nat) (r : U64) : U32 :=
  let time := r ^^^ j.data
  let folds := (64 + nBits - 1) / nBits
  let mask : U64 := (1#64 <<< nBits) - 1
  let (rounds, _) := (List.range folds).foldl
    (fun (p : U64 × U64) _ => (p.1 ^^^ (p.2 &&& mask), p.2 >>> nBits)) (0#64, time)
  rounds.setWidth 32

theorem randomLoopCnt_nil (j : Rng) (n : Nat) : randomLoopCnt j n [] = none := rfl
theorem randomLoopCnt_cons (j : Rng) (n : Nat) (r : U64) (rs : List U64) :
    randomLoopCnt j n (r :: rs) = some (loopCnt j n r, rs) := rfl

/-- `mem_prev_index` after `memaccess(var_rounds = true)` reading `r` — the only place where the
    pool-dependent loop count goes -/
def memIdx (j : Rng) (r : U64) : Nat :=
  ((List.range (128 + (loopCnt j 4 r).toNat)).foldl
    (fun index _ => (index + MEMORY_BLOCKSIZE - 1) % MEMORY_SIZE) j.memPrevIndex) % 65536

theorem memaccess_nil (j : Rng) : memaccess j true [] = none := rfl
theorem memaccess_cons (j : Rng) (r : U64) (rs : List U64) :
    memaccess j true (r :: rs) = some ({ j with memPrevIndex := memIdx j r }, rs) := by
  unfold memaccess
  simp only [bind, StateT.bind, if_true, randomLoopCnt_cons, Option.bind]
  rfl

theorem lfsrTime_nil (j : Rng) (t : U64) : lfsrTime j t true [] = none := rfl
theorem lfsrTime_cons (j : Rng) (t r : U64) (rs : List U64) :
    lfsrTime j t true (r :: rs) = some ({ j with data := lfsr j.data t }, rs) := rfl

/-! ## one measurement -/

/-- `current_delta` of a measurement: depends on the reading and `prev_time` only -/
def deltaOf (ec : Ec) (t : U64) : U32 := (t - ec.prevTime).setWidth 32

/-- stuck verdict and the next `EcState`: independent of the pool -/
def stuckOf (ec : Ec) (t : U64) : Bool × Ec := stuck { ec with prevTime := t } (deltaOf ec t)

/-- what one `measure_jitter` does to the pool when the middle reading is `t` -/
def poolStep (ec : Ec) (t : U64) (d : U64) : U64 :=
  if (stuckOf ec t).1 then lfsr d ((deltaOf ec t).signExtend 64)
  else (lfsr d ((deltaOf ec t).signExtend 64)).rotateLeft 7

theorem poolStep_bijective (ec : Ec) (t : U64) : Function.Bijective (poolStep ec t) := by
  unfold poolStep
  cases (stuckOf ec t).1
  · exact rotate7_bijective.comp (lfsr_bijective_in_pool _)
  · exact lfsr_bijective_in_pool _

theorem measureJitter_nil (j : Rng) (ec : Ec) : measureJitter j ec [] = none := rfl
theorem measureJitter_one (j : Rng) (ec : Ec) (a : U64) : measureJitter j ec [a] = none := rfl
theorem measureJitter_two (j : Rng) (ec : Ec) (a b : U64) : measureJitter j ec [a, b] = none := rfl

/-- a measurement consumes exactly three readings `r0, t, r2`; only `t` reaches the pool -/
theorem measureJitter_cons3 (j : Rng) (ec : Ec) (r0 t r2 : U64) (rest : List U64) :
    measureJitter j ec (r0 :: t :: r2 :: rest) =
      some ((!(stuckOf ec t).1,
             { data := poolStep ec t j.data, rounds := j.rounds, memPrevIndex := memIdx j r0,
               halfUsed := j.halfUsed },
             (stuckOf ec t).2), rest) := by
  unfold measureJitter
  simp only [bind, StateT.bind, memaccess_cons, tick_cons, lfsrTime_cons, Option.bind]
  unfold poolStep stuckOf deltaOf
  split <;> simp_all [pure, StateT.pure]

/-- the start state with another pool value -/
def withPool (j : Rng) (d : U64) : Rng := { j with data := d }

/-- For the given `EcState` and readings, a measurement either blocks for every start state or
    succeeds for every start state, with the same verdict, `EcState` and remaining readings, and
    with pool `φ (start pool)` for one bijection `φ` that does not depend on the start state. -/
theorem measureJitter_spec (ec : Ec) (rs : List U64) :
    (∀ j, measureJitter j ec rs = none) ∨
    ∃ (φ : U64 → U64) (ok : Bool) (ec' : Ec) (rs' : List U64), Function.Bijective φ ∧
      ∀ j, ∃ idx, measureJitter j ec rs =
        some ((ok, { data := φ j.data, rounds := j.rounds, memPrevIndex := idx,
                     halfUsed := j.halfUsed }, ec'), rs') := by
  match rs with
  | [] => exact .inl fun j => rfl
  | [_] => exact .inl fun j => rfl
  | [_, _] => exact .inl fun j => rfl
  | r0 :: t :: r2 :: rest =>
    exact .inr ⟨poolStep ec t, _, _, rest, poolStep_bijective ec t,
      fun j => ⟨memIdx j r0, measureJitter_cons3 j ec r0 t r2 rest⟩⟩

/-! ## a whole collection -/

theorem collect_zero (fuel : Nat) (j : Rng) (ec : Ec) (rs : List U64) :
    collect fuel 0 j ec rs = some ((j, ec), rs) := by
  cases fuel <;> rfl

theorem collect_nofuel (need : Nat) (j : Rng) (ec : Ec) (rs : List U64) :
    collect 0 (need + 1) j ec rs = none := rfl

theorem collect_succ (fuel need : Nat) (j : Rng) (ec : Ec) (rs : List U64) :
    collect (fuel + 1) (need + 1) j ec rs =
      (measureJitter j ec rs).bind fun p =>
        if p.1.1 then collect fuel need p.1.2.1 p.1.2.2 p.2
        else collect fuel (need + 1) p.1.2.1 p.1.2.2 p.2 := by
  rw [collect]
  simp only [bind, StateT.bind]
  congr 1
  funext p
  obtain ⟨⟨ok, j', ec'⟩, rs'⟩ := p
  cases ok <;> rfl

/-- The accepted-measurement loop: blocking depends on the readings only, and the final pool is a
    bijective function of the initial pool that depends on the readings only. -/
theorem collect_spec (fuel need : Nat) (ec : Ec) (rs : List U64) :
    (∀ j, collect fuel need j ec rs = none) ∨
    ∃ (φ : U64 → U64) (ec' : Ec) (rs' : List U64), Function.Bijective φ ∧
      ∀ j, ∃ idx, collect fuel need j ec rs =
        some (({ data := φ j.data, rounds := j.rounds, memPrevIndex := idx,
                 halfUsed := j.halfUsed }, ec'), rs') := by
  induction fuel generalizing need ec rs with
  | zero =>
    cases need with
    | zero => exact .inr ⟨id, ec, rs, Function.bijective_id, fun j => ⟨j.memPrevIndex, collect_zero 0 j ec rs⟩⟩
    | succ need => exact .inl fun j => rfl
  | succ fuel ih =>
    cases need with
    | zero => exact .inr ⟨id, ec, rs, Function.bijective_id, fun j => ⟨j.memPrevIndex, collect_zero _ j ec rs⟩⟩
    | succ need =>
      rcases measureJitter_spec ec rs with hnone | ⟨φ, ok, ec', rs', hφ, hrun⟩
      · refine .inl fun j => ?_
        rw [collect_succ, hnone j]; rfl
      · have key : ∀ j : Rng,
            ∃ idx, collect (fuel + 1) (need + 1) j ec rs =
              collect fuel (if ok then need else need + 1)
                { data := φ j.data, rounds := j.rounds, memPrevIndex := idx, halfUsed := j.halfUsed }
                ec' rs' := by
          intro j
          obtain ⟨idx, h⟩ := hrun j
          refine ⟨idx, ?_⟩
          rw [collect_succ, h]
          cases ok <;> rfl
        rcases ih (if ok then need else need + 1) ec' rs' with hnone | ⟨ψ, ec'', rs'', hψ, hrun'⟩
        · refine .inl fun j => ?_
          obtain ⟨idx, h⟩ := key j
          rw [h]; exact hnone _
        · refine .inr ⟨ψ ∘ φ, ec'', rs'', hψ.comp hφ, fun j => ?_⟩
          obtain ⟨idx, h⟩ := key j
          obtain ⟨idx', h'⟩ := hrun' ⟨φ j.data, j.rounds, idx, j.halfUsed⟩
          exact ⟨idx', by rw [h, h']; rfl⟩

/-! ## `gen_entropy` -/

theorem genEntropy_nil (j : Rng) : genEntropy j [] = none := rfl

theorem genEntropy_cons (j : Rng) (r : U64) (rs : List U64) :
    genEntropy j (r :: rs) =
      (measureJitter j { prevTime := r, lastDelta := 0, lastDelta2 := 0 } rs).bind fun p =>
        (collect (p.2.length + 1) p.1.2.1.rounds p.1.2.1 p.1.2.2 p.2).bind fun q =>
          some ((stir q.1.1.data, { q.1.1 with data := stir q.1.1.data }), q.2) := by
  rfl

/-- `gen_entropy` for start states with `rounds` rounds: whether it blocks depends on the readings
    only, and the returned value (= the new pool) is `φ (start pool)` for a bijection `φ` that
    depends on the readings (and `rounds`) only. -/
theorem genEntropy_spec (rounds : Nat) (rs : List U64) :
    (∀ j : Rng, j.rounds = rounds → genEntropy j rs = none) ∨
    ∃ (φ : U64 → U64) (rs' : List U64), Function.Bijective φ ∧
      ∀ j : Rng, j.rounds = rounds → ∃ idx, genEntropy j rs =
        some ((φ j.data, { data := φ j.data, rounds := j.rounds, memPrevIndex := idx,
                           halfUsed := j.halfUsed }), rs') := by
  cases rs with
  | nil => exact .inl fun j _ => rfl
  | cons r rs =>
    rcases measureJitter_spec { prevTime := r, lastDelta := 0, lastDelta2 := 0 } rs with
      hnone | ⟨φ, ok, ec', rs', hφ, hrun⟩
    · refine .inl fun j _ => ?_
      rw [genEntropy_cons, hnone j]; rfl
    · rcases collect_spec (rs'.length + 1) rounds ec' rs' with hnone | ⟨ψ, ec'', rs'', hψ, hrun'⟩
      · refine .inl fun j hj => ?_
        obtain ⟨idx, h⟩ := hrun j
        rw [genEntropy_cons, h]
        subst hj
        show (collect (rs'.length + 1) j.rounds _ ec' rs').bind _ = none
        rw [hnone]; rfl
      · refine .inr ⟨stir ∘ ψ ∘ φ, rs'', stir_bijective.comp (hψ.comp hφ), fun j hj => ?_⟩
        subst hj
        obtain ⟨idx, h⟩ := hrun j
        obtain ⟨idx', h'⟩ := hrun' ⟨φ j.data, j.rounds, idx, j.halfUsed⟩
        refine ⟨idx', ?_⟩
        rw [genEntropy_cons, h]
        show (collect (rs'.length + 1) j.rounds ⟨φ j.data, j.rounds, idx, j.halfUsed⟩ ec' rs').bind _ = _
        rw [h']; rfl

end PoolJitter
end Rngs
