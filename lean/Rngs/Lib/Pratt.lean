/-
Pratt primality certificates, checkable by kernel evaluation.

`powMod` is a binary modular exponentiation defined by *structural* recursion on a
fuel argument, so the kernel can evaluate it on literals (using its GMP-accelerated
`Nat.mul` / `Nat.mod` / `Nat.div`).  `pratt` turns a successful run of the Boolean
checker `prattCheck` plus primality of the listed prime factors of `p - 1` into
`Nat.Prime p`, via Mathlib's `lucas_primality`.
-/
import Mathlib.NumberTheory.LucasPrimality
import Mathlib.Data.List.Prime

namespace Rngs.Pratt

/-- Square-and-multiply loop: returns a number congruent to `acc * a ^ e` modulo `m`,
provided `e < 2 ^ fuel`. -/
def powModAux : Nat → Nat → Nat → Nat → Nat → Nat
  | 0, _, _, _, acc => acc
  | fuel + 1, a, e, m, acc =>
    if e = 0 then acc
    else powModAux fuel (a * a % m) (e / 2) m (if e % 2 = 1 then acc * a % m else acc)

/-- Modular exponentiation `a ^ e % m`, computable by the kernel. -/
def powMod (a e m : Nat) : Nat :=
  powModAux e a e m 1 % m

theorem powModAux_eq (fuel : Nat) :
    ∀ a e m acc : Nat, e < 2 ^ fuel → powModAux fuel a e m acc % m = acc * a ^ e % m := by
  induction fuel with
  | zero =>
    intro a e m acc h
    have he : e = 0 := by simpa using h
    subst he
    simp [powModAux]
  | succ fuel ih =>
    intro a e m acc h
    unfold powModAux
    by_cases he : e = 0
    · subst he; simp
    · rw [if_neg he]
      have h2 : e / 2 < 2 ^ fuel := by
        rw [Nat.div_lt_iff_lt_mul (by decide : 0 < 2)]
        simpa [Nat.pow_succ] using h
      rw [ih _ _ _ _ h2]
      have hsq : (a * a % m) ^ (e / 2) ≡ (a * a) ^ (e / 2) [MOD m] :=
        (Nat.mod_modEq _ _).pow _
      have hsplit : e = 2 * (e / 2) + e % 2 := (Nat.div_add_mod e 2).symm
      by_cases hodd : e % 2 = 1
      · rw [if_pos hodd]
        have hpow : a ^ e = a * (a * a) ^ (e / 2) := by
          conv_lhs => rw [hsplit, hodd]
          rw [pow_succ, pow_mul, pow_two, mul_comm]
        have : acc * a % m * (a * a % m) ^ (e / 2) ≡ acc * a * (a * a) ^ (e / 2) [MOD m] :=
          (Nat.mod_modEq _ _).mul hsq
        rw [hpow, ← mul_assoc]
        exact this
      · rw [if_neg hodd]
        have hev : e % 2 = 0 := by omega
        have hpow : a ^ e = (a * a) ^ (e / 2) := by
          conv_lhs => rw [hsplit, hev]
          rw [Nat.add_zero, pow_mul, pow_two]
        rw [hpow]
        exact Nat.ModEq.mul_left acc hsq

theorem powMod_eq (a e m : Nat) : powMod a e m = a ^ e % m := by
  unfold powMod
  rw [powModAux_eq e a e m 1 Nat.lt_two_pow_self, Nat.one_mul]

/-- Boolean Pratt-certificate check for `p` with witness `a`, where `fs` lists
`(q, k)` pairs with `p - 1 = ∏ q ^ k`. -/
def prattCheck (p a : Nat) (fs : List (Nat × Nat)) : Bool :=
  decide (1 < p) &&
  (powMod a (p - 1) p == 1) &&
  (p - 1 == (fs.map fun f => f.1 ^ f.2).prod) &&
  fs.all fun f => powMod a ((p - 1) / f.1) p != 1

/-- Pratt / Lucas primality criterion in kernel-checkable form. -/
theorem pratt (p a : Nat) (fs : List (Nat × Nat))
    (hq : ∀ f ∈ fs, Nat.Prime f.1)
    (hc : prattCheck p a fs = true) : Nat.Prime p := by
  simp only [prattCheck, Bool.and_eq_true, decide_eq_true_eq, beq_iff_eq, List.all_eq_true,
    bne_iff_ne, ne_eq] at hc
  obtain ⟨⟨⟨hp, h1⟩, hfac⟩, hne⟩ := hc
  have cast_pow : ∀ e : Nat, ((a : ZMod p) ^ e = 1) ↔ powMod a e p = 1 := by
    intro e
    rw [powMod_eq, ← Nat.cast_pow, ← Nat.cast_one (R := ZMod p),
      ZMod.natCast_eq_natCast_iff', Nat.mod_eq_of_lt hp]
  refine lucas_primality p (a : ZMod p) ((cast_pow _).2 h1) ?_
  intro q hqp hqd
  rw [hfac, (Nat.Prime.prime hqp).dvd_prod_iff] at hqd
  obtain ⟨x, hx, hqx⟩ := hqd
  obtain ⟨f, hf, rfl⟩ := List.mem_map.1 hx
  have hqf : q = f.1 :=
    (Nat.prime_dvd_prime_iff_eq hqp (hq f hf)).1 (hqp.dvd_of_dvd_pow hqx)
  rw [Ne, cast_pow, hqf]
  exact hne f hf

end Rngs.Pratt
