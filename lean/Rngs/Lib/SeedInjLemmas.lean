/-
  Rngs.Lib.SeedInjLemmas — helper lemmas for `Extra/SeedInjective` (xoshiro family, XorShiftRng):

  * all-zero byte strings are `List.replicate n 0`;
  * the abstract collision lemma `canon_eq_iff`: a constructor of the form
    `seed ↦ d (if seed is all zero then Z else seed)` with an injective decoder `d` identifies
    exactly the two seeds `0…0` and `Z` and nothing else;
  * `from_seed` of a xoshiro-family generator has that form (`fromSeed?_eq`);
  * the SplitMix64 expansion `expansion x k` (C09) is injective in `x` (k ≥ 1), is never all zero
    for k ≥ 2, and for k = 1 is all zero exactly for `x = −PHI`;
  * `XorShiftRng::from_seed` has the same form with `Z` = the bytes that spell `0x0BAD5EED` four times.
-/
import Rngs.Props.C08
import Rngs.Props.C09
import Rngs.Extra.SplitMixBij
import Rngs.Lib.BitInj
namespace Rngs.SeedInj
open Rngs Rngs.Codec Rngs.Seed
open Rngs.C09 (expansion)
open Rngs.Extra.SplitMix (mix64 mix64_injective)

/-! ## all-zero byte strings -/

theorem isAllZero_iff_replicate (a : List U8) : isAllZero a = true ↔ a = List.replicate a.length 0 := by
  simp only [isAllZero, List.all_eq_true, beq_iff_eq]
  rw [List.eq_replicate_iff]
  simp

theorem isAllZero_replicate (n : Nat) : isAllZero (List.replicate n (0 : U8)) = true :=
  (isAllZero_iff_replicate _).mpr (by simp)

theorem eq_replicate_of_allZero {a : List U8} {n : Nat} (hl : a.length = n) (hz : isAllZero a = true) :
    a = List.replicate n 0 := by
  have h := (isAllZero_iff_replicate a).mp hz
  rw [hl] at h
  exact h

theorem isAllZero_append (l1 l2 : List U8) : isAllZero (l1 ++ l2) = (isAllZero l1 && isAllZero l2) := by
  simp [isAllZero]

/-! ## the abstract collision lemma -/

/-- the two seeds that a zero-remapping constructor identifies: the all-zero seed of length `n`
    and the replacement `Z` -/
def Special (n : Nat) (Z a : List U8) : Prop := a = List.replicate n 0 ∨ a = Z

theorem canon_eq_iff {τ : Type} (n : Nat) (Z : List U8)
    (d : List U8 → τ) (hZl : Z.length = n)
    (hd : ∀ a b : List U8, a.length = n → b.length = n → d a = d b → a = b)
    (a b : List U8) (ha : a.length = n) (hb : b.length = n) :
    d (if isAllZero a = true then Z else a) = d (if isAllZero b = true then Z else b) ↔
      a = b ∨ (Special n Z a ∧ Special n Z b) := by
  have notz : ∀ c : List U8, isAllZero c = false → c ≠ List.replicate n 0 := by
    intro c hc h
    rw [h, isAllZero_replicate] at hc
    cases hc
  by_cases hza : isAllZero a = true <;> by_cases hzb : isAllZero b = true
  · have ea := eq_replicate_of_allZero ha hza
    have eb := eq_replicate_of_allZero hb hzb
    rw [if_pos hza, if_pos hzb]
    exact ⟨fun _ => Or.inl (ea.trans eb.symm), fun _ => rfl⟩
  · have ea := eq_replicate_of_allZero ha hza
    have hzb' : isAllZero b = false := by simpa using hzb
    rw [if_pos hza, if_neg hzb]
    constructor
    · intro h
      exact Or.inr ⟨Or.inl ea, Or.inr (hd _ _ hZl hb h).symm⟩
    · rintro (h | ⟨_, h | h⟩)
      · rw [← h, hza] at hzb'; cases hzb'
      · exact absurd h (notz b hzb')
      · rw [h]
  · have eb := eq_replicate_of_allZero hb hzb
    have hza' : isAllZero a = false := by simpa using hza
    rw [if_neg hza, if_pos hzb]
    constructor
    · intro h
      exact Or.inr ⟨Or.inr (hd _ _ ha hZl h), Or.inl eb⟩
    · rintro (h | ⟨h | h, _⟩)
      · rw [h, hzb] at hza'; cases hza'
      · exact absurd h (notz a hza')
      · rw [h]
  · have hza' : isAllZero a = false := by simpa using hza
    have hzb' : isAllZero b = false := by simpa using hzb
    rw [if_neg hza, if_neg hzb]
    constructor
    · intro h
      exact Or.inl (hd _ _ ha hb h)
    · rintro (h | ⟨h1 | h1, h2 | h2⟩)
      · rw [h]
      · exact absurd h1 (notz a hza')
      · exact absurd h1 (notz a hza')
      · exact absurd h2 (notz b hzb')
      · rw [h1, h2]

/-! ## xoshiro family: `from_seed` -/

/-- the byte string that replaces the all-zero seed: the SplitMix64 expansion of 0
    (`seed_from_u64(0)`) -/
def zeroExpansion (n : Nat) : List U8 := (SplitMix64.fill n (SplitMix64.seedFromU64 0)).1

/-- a generator's decoder is injective on seeds of its seed length -/
def DecodeInj {σ : Type} (g : XoGen σ) : Prop :=
  ∀ a b : List U8, a.length = g.seedLen → b.length = g.seedLen → g.decode a = g.decode b → a = b

theorem zeroExpansion_length (n : Nat) : (zeroExpansion n).length = n := C08.splitmix_fill_length _ _

theorem fromSeed?_eq {σ : Type} (g : XoGen σ) (sh : C08.Shape σ g) (a : List U8) :
    g.fromSeed? a = some (g.decode (if isAllZero a = true then zeroExpansion g.seedLen else a)) := by
  by_cases hz : isAllZero a = true
  · rw [if_pos hz]
    exact C08.fromSeedFuel_zero g sh 1 a hz
  · rw [if_neg hz]
    exact C08.fromSeed_verbatim g a (by simpa using hz)

theorem fromSeed_eq_iff {σ : Type} (g : XoGen σ) (sh : C08.Shape σ g) (hinj : DecodeInj g)
    (a b : List U8) (ha : a.length = g.seedLen) (hb : b.length = g.seedLen) :
    g.fromSeed? a = g.fromSeed? b ↔
      a = b ∨ (Special g.seedLen (zeroExpansion g.seedLen) a ∧ Special g.seedLen (zeroExpansion g.seedLen) b) := by
  rw [fromSeed?_eq g sh a, fromSeed?_eq g sh b]
  simp only [Option.some.injEq]
  exact canon_eq_iff g.seedLen _ g.decode (zeroExpansion_length _) hinj a b ha hb

/-! ## the SplitMix64 expansion -/

theorem toLE64_injective {a b : U64} (h : U64.toLE a = U64.toLE b) : a = b := by
  have := congrArg (fun l => le64At l 0) h
  simpa only [le64At_toLE] using this

theorem toLE64_allZero {v : U64} (h : isAllZero (U64.toLE v) = true) : v = 0 := by
  have h1 := eq_replicate_of_allZero (toLE64_length v) h
  have e : List.replicate 8 (0 : U8) = U64.toLE 0 := by decide
  exact toLE64_injective (h1.trans e)

theorem expansion_succ (x : U64) (k : Nat) :
    expansion x (k + 1) = U64.toLE (mix64 (x + SplitMix64.PHI)) ++ expansion (x + SplitMix64.PHI) k := rfl

/-- distinct `u64` seeds have distinct expansions (already their first 8 bytes differ) -/
theorem expansion_injective (k : Nat) (x y : U64) (h : expansion x (k + 1) = expansion y (k + 1)) : x = y := by
  rw [expansion_succ, expansion_succ] at h
  have h1 := List.append_inj_left h (by rw [toLE64_length, toLE64_length])
  exact BitInj.add_right_cancel' (mix64_injective (toLE64_injective h1))

theorem PHI_ne_zero : SplitMix64.PHI ≠ 0 := by decide

/-- an expansion of 16 bytes or more is never all zero: two consecutive SplitMix64 outputs differ -/
theorem expansion_not_allZero (x : U64) (k : Nat) : isAllZero (expansion x (k + 2)) = false := by
  cases hz : isAllZero (expansion x (k + 2)) with
  | false => rfl
  | true =>
    exfalso
    rw [expansion_succ, expansion_succ, isAllZero_append, isAllZero_append] at hz
    simp only [Bool.and_eq_true] at hz
    have h1 := toLE64_allZero hz.1
    have h2 := toLE64_allZero hz.2.1
    have h3 := mix64_injective (h1.trans h2.symm)
    apply PHI_ne_zero
    apply BitInj.add_left_cancel' (c := x + SplitMix64.PHI)
    exact h3.symm.trans (BitVec.add_zero _).symm

theorem zeroExpansion_eq (k : Nat) : zeroExpansion (8 * k) = expansion 0 k := by
  unfold zeroExpansion
  rw [C09.SplitMix64_seedFromU64, C09.splitmix_fill_eq_expansion]

/-- `−PHI`, the one `u64` whose 8-byte SplitMix64 expansion is all zero -/
def negPHI : U64 := 0x61c8864680b583eb#64

theorem negPHI_eq : negPHI = -SplitMix64.PHI := by decide

theorem mix64_zero : mix64 0 = 0 := by decide +kernel

theorem expansion_one (x : U64) : expansion x 1 = U64.toLE (mix64 (x + SplitMix64.PHI)) := by
  rw [expansion_succ]
  exact List.append_nil _

/-- the 8-byte expansion of `x` is all zero iff `x = −PHI` -/
theorem expansion_one_allZero_iff (x : U64) : isAllZero (expansion x 1) = true ↔ x = negPHI := by
  rw [expansion_one]
  constructor
  · intro h
    have h1 := toLE64_allZero h
    rw [← mix64_zero] at h1
    have h2 := mix64_injective h1
    have h3 := congrArg (· - SplitMix64.PHI) h2
    simp only [BitInj.add_sub_cancel_right] at h3
    rw [negPHI_eq]
    exact h3
  · rintro rfl
    decide +kernel

/-! ## xoshiro family: `seed_from_u64` -/

theorem seedFromU64_injective {σ : Type} (g : XoGen σ) (sh : C08.Shape σ g) (hinj : DecodeInj g)
    (k : Nat) (hk : g.seedLen = 8 * (k + 2)) (x y : U64)
    (h : g.seedFromU64? x = g.seedFromU64? y) : x = y := by
  rw [C09.seedFromU64_eq_fromSeed_expansion g _ hk, C09.seedFromU64_eq_fromSeed_expansion g _ hk,
    fromSeed_eq_iff g sh hinj _ _ (by rw [C09.expansion_length, hk]) (by rw [C09.expansion_length, hk])] at h
  have sp : ∀ z : U64, Special g.seedLen (zeroExpansion g.seedLen) (expansion z (k + 2)) → z = 0 := by
    intro z hz
    rcases hz with hz | hz
    · have := expansion_not_allZero z k
      rw [hz, isAllZero_replicate] at this
      cases this
    · rw [hk, zeroExpansion_eq] at hz
      exact expansion_injective _ _ _ hz
  rcases h with h | ⟨hx, hy⟩
  · exact expansion_injective _ _ _ h
  · rw [sp x hx, sp y hy]

theorem seedFromU64_eq_iff_8 {σ : Type} (g : XoGen σ) (sh : C08.Shape σ g) (hinj : DecodeInj g)
    (hk : g.seedLen = 8 * 1) (x y : U64) :
    g.seedFromU64? x = g.seedFromU64? y ↔
      x = y ∨ ((x = 0 ∨ x = negPHI) ∧ (y = 0 ∨ y = negPHI)) := by
  rw [C09.seedFromU64_eq_fromSeed_expansion g _ hk, C09.seedFromU64_eq_fromSeed_expansion g _ hk,
    fromSeed_eq_iff g sh hinj _ _ (by rw [C09.expansion_length, hk]) (by rw [C09.expansion_length, hk])]
  have sp : ∀ z : U64, Special g.seedLen (zeroExpansion g.seedLen) (expansion z 1) ↔ (z = 0 ∨ z = negPHI) := by
    intro z
    constructor
    · rintro (hz | hz)
      · right
        apply (expansion_one_allZero_iff z).mp
        rw [hz]
        exact isAllZero_replicate _
      · left
        rw [hk, zeroExpansion_eq] at hz
        exact expansion_injective _ _ _ hz
    · rintro (rfl | rfl)
      · right
        rw [hk, zeroExpansion_eq]
      · left
        have := eq_replicate_of_allZero (C09.expansion_length negPHI 1) ((expansion_one_allZero_iff negPHI).mpr rfl)
        rw [hk]
        exact this
  rw [sp x, sp y]
  constructor
  · rintro (h | h)
    · exact Or.inl (expansion_injective _ _ _ h)
    · exact Or.inr h
  · rintro (h | h)
    · exact Or.inl (by rw [h])
    · exact Or.inr h

/-! ## XorShiftRng -/

/-- the 16 bytes that spell `0x0BAD5EED` four times (little-endian) -/
def badBytes : List U8 :=
  [0xED, 0x5E, 0xAD, 0x0B, 0xED, 0x5E, 0xAD, 0x0B, 0xED, 0x5E, 0xAD, 0x0B, 0xED, 0x5E, 0xAD, 0x0B]

theorem decode_badBytes : S4.decode32 badBytes = XorShift.BAD_SEED := by decide

theorem XorShift_fromSeed_eq (a : List U8) (ha : a.length = 16) :
    XorShift.fromSeed a = S4.decode32 (if isAllZero a = true then badBytes else a) := by
  unfold XorShift.fromSeed
  by_cases hz : isAllZero a = true
  · have ea := eq_replicate_of_allZero ha hz
    have e0 : S4.decode32 (List.replicate 16 0) = S4.zero := by decide
    rw [if_pos hz, ea, e0]
    simp only [if_true, decode_badBytes]
  · have := S4_decode32_ne_zero a ha (by simpa using hz)
    rw [if_neg hz]
    simp only [this, if_false]

theorem XorShift_fromSeed_eq_iff (a b : List U8) (ha : a.length = 16) (hb : b.length = 16) :
    XorShift.fromSeed a = XorShift.fromSeed b ↔
      a = b ∨ (Special 16 badBytes a ∧ Special 16 badBytes b) := by
  rw [XorShift_fromSeed_eq a ha, XorShift_fromSeed_eq b hb]
  exact canon_eq_iff 16 badBytes S4.decode32 rfl C08.decode_injective.2.2.1 a b ha hb

end Rngs.SeedInj
