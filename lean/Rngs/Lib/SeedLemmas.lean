/-
  Rngs.Lib.SeedLemmas — seed decoding facts used by C08/C09: lengths of filled buffers,
  "decoded words all zero ⇒ seed bytes all zero", injectivity of the decoders.
-/
import Rngs.Model.Xoshiro
import Rngs.Model.XorShift
import Rngs.Lib.Codec
namespace Rngs.Seed
open Rngs Rngs.Codec

/-! ### length of `fill_bytes_via_next` output -/
theorem fillLoop_length {σ : Type} (n64 : σ → U64 × σ) (k : Nat) (s : σ) :
    (fillLoop n64 k s).1.length = 8 * k := by
  induction k generalizing s with
  | zero => simp [fillLoop]
  | succ k ih =>
    simp only [fillLoop, List.length_append, toLE64_length]
    rw [ih]; omega

theorem fillBytesViaNext_length {σ : Type} (d : Direct σ) (n : Nat) (s : σ) :
    (fillBytesViaNext d n s).1.length = n := by
  unfold fillBytesViaNext
  simp only
  split <;> rename_i h
  · simp only [List.length_append, List.length_take, toLE64_length, fillLoop_length]; omega
  · split <;> rename_i h2
    · simp only [List.length_append, List.length_take, toLE32_length, fillLoop_length]; omega
    · simp only [fillLoop_length]; omega

/-! ### words zero ⇒ bytes zero -/
theorem byteAt_of_le32At_zero (bs : List U8) (k : Nat) (h : le32At bs k = 0) (r : Nat) (hr : r < 4) :
    byteAt bs (4 * k + r) = 0 := by
  obtain ⟨h0, h1, h2, h3⟩ := ofLE32_eq_zero h
  match r, hr with
  | 0, _ => simpa using h0
  | 1, _ => exact h1
  | 2, _ => exact h2
  | 3, _ => exact h3

theorem byteAt_of_le64At_zero (bs : List U8) (k : Nat) (h : le64At bs k = 0) (r : Nat) (hr : r < 8) :
    byteAt bs (8 * k + r) = 0 := by
  obtain ⟨h0, h1, h2, h3, h4, h5, h6, h7⟩ := ofLE64_eq_zero h
  match r, hr with
  | 0, _ => simpa using h0
  | 1, _ => exact h1
  | 2, _ => exact h2
  | 3, _ => exact h3
  | 4, _ => exact h4
  | 5, _ => exact h5
  | 6, _ => exact h6
  | 7, _ => exact h7

theorem allZero_of_words32 (bs : List U8) (n : Nat) (hlen : bs.length = 4 * n)
    (h : ∀ k, k < n → le32At bs k = 0) : isAllZero bs = true := by
  apply isAllZero_of_byteAt
  intro i hi
  have := byteAt_of_le32At_zero bs (i / 4) (h _ (by omega)) (i % 4) (Nat.mod_lt _ (by decide))
  rwa [Nat.div_add_mod] at this

theorem allZero_of_words64 (bs : List U8) (n : Nat) (hlen : bs.length = 8 * n)
    (h : ∀ k, k < n → le64At bs k = 0) : isAllZero bs = true := by
  apply isAllZero_of_byteAt
  intro i hi
  have := byteAt_of_le64At_zero bs (i / 8) (h _ (by omega)) (i % 8) (Nat.mod_lt _ (by decide))
  rwa [Nat.div_add_mod] at this

/-! ### the five decoders: a seed of the right length that is not all zero decodes to a non-zero state -/
theorem S2_decode32_ne_zero (seed : List U8) (hl : seed.length = 8) (hz : isAllZero seed = false) :
    S2.decode32 seed ≠ S2.zero := by
  intro h
  have h' : le32At seed 0 = 0 ∧ le32At seed 1 = 0 := by
    simpa [S2.decode32, S2.zero, S2.mk.injEq] using h
  have := allZero_of_words32 seed 2 (by omega) (by
    intro k hk
    match k, hk with
    | 0, _ => exact h'.1
    | 1, _ => exact h'.2)
  simp [this] at hz

theorem S2_decode64_ne_zero (seed : List U8) (hl : seed.length = 16) (hz : isAllZero seed = false) :
    S2.decode64 seed ≠ S2.zero := by
  intro h
  have h' : le64At seed 0 = 0 ∧ le64At seed 1 = 0 := by
    simpa [S2.decode64, S2.zero, S2.mk.injEq] using h
  have := allZero_of_words64 seed 2 (by omega) (by
    intro k hk
    match k, hk with
    | 0, _ => exact h'.1
    | 1, _ => exact h'.2)
  simp [this] at hz

theorem S4_decode32_ne_zero (seed : List U8) (hl : seed.length = 16) (hz : isAllZero seed = false) :
    S4.decode32 seed ≠ S4.zero := by
  intro h
  have h' : le32At seed 0 = 0 ∧ le32At seed 1 = 0 ∧ le32At seed 2 = 0 ∧ le32At seed 3 = 0 := by
    simpa [S4.decode32, S4.zero, S4.mk.injEq] using h
  have := allZero_of_words32 seed 4 (by omega) (by
    intro k hk
    match k, hk with
    | 0, _ => exact h'.1
    | 1, _ => exact h'.2.1
    | 2, _ => exact h'.2.2.1
    | 3, _ => exact h'.2.2.2)
  simp [this] at hz

theorem S4_decode64_ne_zero (seed : List U8) (hl : seed.length = 32) (hz : isAllZero seed = false) :
    S4.decode64 seed ≠ S4.zero := by
  intro h
  have h' : le64At seed 0 = 0 ∧ le64At seed 1 = 0 ∧ le64At seed 2 = 0 ∧ le64At seed 3 = 0 := by
    simpa [S4.decode64, S4.zero, S4.mk.injEq] using h
  have := allZero_of_words64 seed 4 (by omega) (by
    intro k hk
    match k, hk with
    | 0, _ => exact h'.1
    | 1, _ => exact h'.2.1
    | 2, _ => exact h'.2.2.1
    | 3, _ => exact h'.2.2.2)
  simp [this] at hz

theorem S8_decode_ne_zero (seed : List U8) (hl : seed.length = 64) (hz : isAllZero seed = false) :
    S8.decode seed ≠ S8.zero := by
  intro h
  have h' : le64At seed 0 = 0 ∧ le64At seed 1 = 0 ∧ le64At seed 2 = 0 ∧ le64At seed 3 = 0 ∧
      le64At seed 4 = 0 ∧ le64At seed 5 = 0 ∧ le64At seed 6 = 0 ∧ le64At seed 7 = 0 := by
    simpa [S8.decode, S8.zero, S8.mk.injEq] using h
  have := allZero_of_words64 seed 8 (by omega) (by
    intro k hk
    match k, hk with
    | 0, _ => exact h'.1
    | 1, _ => exact h'.2.1
    | 2, _ => exact h'.2.2.1
    | 3, _ => exact h'.2.2.2.1
    | 4, _ => exact h'.2.2.2.2.1
    | 5, _ => exact h'.2.2.2.2.2.1
    | 6, _ => exact h'.2.2.2.2.2.2.1
    | 7, _ => exact h'.2.2.2.2.2.2.2)
  simp [this] at hz

/-! ### injectivity of decoding on seeds of the right length -/
theorem byteAt_eq_of_le32At_eq (a b : List U8) (k : Nat) (h : le32At a k = le32At b k) (r : Nat) (hr : r < 4) :
    byteAt a (4 * k + r) = byteAt b (4 * k + r) := by
  have := congrArg U32.toLE h
  simp only [le32At, toLE_ofLE32, List.cons.injEq, and_true] at this
  obtain ⟨h0, h1, h2, h3⟩ := this
  match r, hr with
  | 0, _ => simpa using h0
  | 1, _ => exact h1
  | 2, _ => exact h2
  | 3, _ => exact h3

theorem byteAt_eq_of_le64At_eq (a b : List U8) (k : Nat) (h : le64At a k = le64At b k) (r : Nat) (hr : r < 8) :
    byteAt a (8 * k + r) = byteAt b (8 * k + r) := by
  have := congrArg U64.toLE h
  simp only [le64At, toLE_ofLE64, List.cons.injEq, and_true] at this
  obtain ⟨h0, h1, h2, h3, h4, h5, h6, h7⟩ := this
  match r, hr with
  | 0, _ => simpa using h0
  | 1, _ => exact h1
  | 2, _ => exact h2
  | 3, _ => exact h3
  | 4, _ => exact h4
  | 5, _ => exact h5
  | 6, _ => exact h6
  | 7, _ => exact h7

theorem eq_of_byteAt_eq (a b : List U8) (hl : a.length = b.length) (h : ∀ i, i < a.length → byteAt a i = byteAt b i) :
    a = b := by
  apply List.ext_getElem hl
  intro i h1 h2
  have := h i h1
  simpa [byteAt, List.getD_eq_getElem?_getD, List.getElem?_eq_getElem h1, List.getElem?_eq_getElem h2] using this

theorem eq_of_words32 (a b : List U8) (n : Nat) (ha : a.length = 4 * n) (hb : b.length = 4 * n)
    (h : ∀ k, k < n → le32At a k = le32At b k) : a = b := by
  apply eq_of_byteAt_eq a b (by omega)
  intro i hi
  have := byteAt_eq_of_le32At_eq a b (i / 4) (h _ (by omega)) (i % 4) (Nat.mod_lt _ (by decide))
  rwa [Nat.div_add_mod] at this

theorem eq_of_words64 (a b : List U8) (n : Nat) (ha : a.length = 8 * n) (hb : b.length = 8 * n)
    (h : ∀ k, k < n → le64At a k = le64At b k) : a = b := by
  apply eq_of_byteAt_eq a b (by omega)
  intro i hi
  have := byteAt_eq_of_le64At_eq a b (i / 8) (h _ (by omega)) (i % 8) (Nat.mod_lt _ (by decide))
  rwa [Nat.div_add_mod] at this

end Rngs.Seed
