/-
  Rngs.Lib.SerdeLemmas — the bincode image functions of `Rngs.Model.Serde` are inverted by
  their deserialisers, for any trailing input; short inputs are rejected; the size / index
  invariants of `BlockRng<IsaacCore>` and `BlockRng64<Isaac64Core>` hold in every state
  reachable from a constructor through `next_u32`, `next_u64`, `fill_bytes`.
-/
import Rngs.Model.Serde
import Rngs.Lib.Codec
namespace Rngs.SerdeLemmas
open Rngs Rngs.Serde

/-! ## generic: round trip ⇒ injective image ⇒ identical future -/

/-- `de` inverts `ser` on the states satisfying `P`, whatever follows the image -/
def RoundTrip {σ : Type} (ser : σ → List U8) (de : De σ) (P : σ → Prop) : Prop :=
  ∀ s, P s → ∀ rest, de (ser s ++ rest) = some (s, rest)

theorem RoundTrip.exact {σ : Type} {ser : σ → List U8} {de : De σ} {P : σ → Prop}
    (h : RoundTrip ser de P) (s : σ) (hs : P s) : de (ser s) = some (s, []) := by
  have := h s hs []
  rwa [List.append_nil] at this

/-- the image determines the state -/
theorem RoundTrip.inj {σ : Type} {ser : σ → List U8} {de : De σ} {P : σ → Prop}
    (h : RoundTrip ser de P) (a b : σ) (ha : P a) (hb : P b) (e : ser a = ser b) : a = b := by
  have h1 := h.exact a ha
  have h2 := h.exact b hb
  rw [e, h2] at h1
  exact ((Prod.mk.inj (Option.some.inj h1)).1).symm

/-- whatever the deserialiser returns on the image of `s` is `s`; hence every function of the
    state (every operation sequence, every comparison) gives the same result on both -/
theorem RoundTrip.future {σ β : Type} {ser : σ → List U8} {de : De σ} {P : σ → Prop}
    (h : RoundTrip ser de P) (s s' : σ) (hs : P s) (rest : List U8)
    (hd : de (ser s) = some (s', rest)) (f : σ → β) : s' = s ∧ rest = [] ∧ f s' = f s := by
  rw [h.exact s hs] at hd
  obtain ⟨h1, h2⟩ := Prod.mk.inj (Option.some.inj hd)
  subst h1 h2
  exact ⟨rfl, rfl, rfl⟩

/-! ## primitive codecs -/

theorem deU32_ser (w : U32) (rest : List U8) : deU32 (U32.toLE w ++ rest) = some (w, rest) := by
  simp only [U32.toLE, List.cons_append, List.nil_append, deU32, Codec.ofLE_toLE32]

theorem deU64_ser (w : U64) (rest : List U8) : deU64 (U64.toLE w ++ rest) = some (w, rest) := by
  simp only [U64.toLE, List.cons_append, List.nil_append, deU64, Codec.ofLE_toLE64]

theorem deBool_ser (b : Bool) (rest : List U8) : deBool (serBool b ++ rest) = some (b, rest) := by
  cases b <;> simp [serBool, deBool]

theorem deUsize_ser (n : Nat) (h : n < 2 ^ 64) (rest : List U8) :
    deU64 (serUsize n ++ rest) = some (BitVec.ofNat 64 n, rest) ∧ (BitVec.ofNat 64 n).toNat = n := by
  refine ⟨deU64_ser _ rest, ?_⟩
  rw [BitVec.toNat_ofNat]
  exact Nat.mod_eq_of_lt h

theorem deMany_ser {α : Type} (d : De α) (enc : α → List U8)
    (h : ∀ x rest, d (enc x ++ rest) = some (x, rest)) :
    ∀ (xs : List α) (rest : List U8), deMany d xs.length (xs.flatMap enc ++ rest) = some (xs, rest)
  | [], rest => by simp [deMany]
  | x :: xs, rest => by
    simp only [List.flatMap_cons, List.append_assoc, List.length_cons, deMany, h,
      deMany_ser d enc h xs rest]

theorem deU32s_ser (xs : List U32) (n : Nat) (hn : xs.length = n) (rest : List U8) :
    deMany deU32 n (serU32s xs ++ rest) = some (xs, rest) := by
  subst hn; exact deMany_ser deU32 U32.toLE deU32_ser xs rest

theorem deU64s_ser (xs : List U64) (n : Nat) (hn : xs.length = n) (rest : List U8) :
    deMany deU64 n (serU64s xs ++ rest) = some (xs, rest) := by
  subst hn; exact deMany_ser deU64 U64.toLE deU64_ser xs rest

/-! ## rand_xoshiro / rand_xorshift -/

theorem rt_splitMix : RoundTrip serSplitMix deSplitMix (fun _ => True) :=
  fun s _ rest => deU64_ser s rest

theorem rt_S2_32 : RoundTrip serS2_32 deS2_32 (fun _ => True) := by
  intro s _ rest
  simp only [serS2_32, deS2_32, deU32s_ser [s.s0, s.s1] 2 rfl]

theorem rt_S2_64 : RoundTrip serS2_64 deS2_64 (fun _ => True) := by
  intro s _ rest
  simp only [serS2_64, deS2_64, deU64s_ser [s.s0, s.s1] 2 rfl]

theorem rt_S4_32 : RoundTrip serS4_32 deS4_32 (fun _ => True) := by
  intro s _ rest
  simp only [serS4_32, deS4_32, deU32s_ser [s.s0, s.s1, s.s2, s.s3] 4 rfl]

theorem rt_S4_64 : RoundTrip serS4_64 deS4_64 (fun _ => True) := by
  intro s _ rest
  simp only [serS4_64, deS4_64, deU64s_ser [s.s0, s.s1, s.s2, s.s3] 4 rfl]

theorem rt_S8 : RoundTrip serS8 deS8 (fun _ => True) := by
  intro s _ rest
  simp only [serS8, deS8, deU64s_ser [s.s0, s.s1, s.s2, s.s3, s.s4, s.s5, s.s6, s.s7] 8 rfl]

/-! ## rand_isaac -/

/-- what bincode needs: the two arrays have their Rust lengths, the index fits a u64 -/
def Fits32 (r : Isaac.Rng32) : Prop :=
  r.results.size = 256 ∧ r.core.mem.size = 256 ∧ r.index < 2 ^ 64

def Fits64 (r : Isaac.Rng64) : Prop :=
  r.results.size = 256 ∧ r.core.mem.size = 256 ∧ r.index < 2 ^ 64

theorem rt_isaac32 : RoundTrip serIsaac32 deIsaac32 Fits32 := by
  intro r ⟨h1, h2, h3⟩ rest
  obtain ⟨results, index, ⟨mem, a, b, c⟩⟩ := r
  simp only at h1 h2 h3
  have hi := fun rest => (deUsize_ser index h3 rest).1
  have hn := (deUsize_ser index h3 []).2
  simp only [serIsaac32, deIsaac32, List.append_assoc,
    deU32s_ser results.toList 256 (by simpa using h1),
    deU32s_ser mem.toList 256 (by simpa using h2), deU32s_ser [a, b, c] 3 rfl, hi, hn, Array.toArray_toList]

theorem rt_isaac64 : RoundTrip serIsaac64 deIsaac64 Fits64 := by
  intro r ⟨h1, h2, h3⟩ rest
  obtain ⟨results, index, half, ⟨mem, a, b, c⟩⟩ := r
  simp only at h1 h2 h3
  have hi := fun rest => (deUsize_ser index h3 rest).1
  have hn := (deUsize_ser index h3 []).2
  simp only [serIsaac64, deIsaac64, List.append_assoc,
    deU64s_ser results.toList 256 (by simpa using h1),
    deU64s_ser mem.toList 256 (by simpa using h2), deU64s_ser [a, b, c] 3 rfl, hi, hn, deBool_ser,
    Array.toArray_toList]

/-! ## the invariants hold in every reachable state -/

theorem foldl_inv {α β : Type} (P : β → Prop) (f : β → α → β) (l : List α) (init : β)
    (h0 : P init) (hstep : ∀ b a, P b → P (f b a)) : P (l.foldl f init) := by
  induction l generalizing init with
  | nil => exact h0
  | cons a l ih => exact ih _ (hstep _ _ h0)

section isaac
open Isaac
variable {w : Nat} (p : Params w)

def GenSized (n m : Nat) (s : GenSt w) : Prop := s.mem.size = n ∧ s.results.size = m

theorem rngstep_sized {n m : Nat} (st : GenSt w) (mix : BitVec w) (base k k2 : Nat)
    (h : GenSized n m st) : GenSized n m (rngstep p st mix base k k2) := by
  obtain ⟨h1, h2⟩ := h
  simp [GenSized, rngstep, wr, h1, h2]

theorem halfLoop_sized {n m : Nat} (st : GenSt w) (k k2 : Nat) (h : GenSized n m st) :
    GenSized n m (halfLoop p st k k2) := by
  unfold halfLoop
  apply foldl_inv (GenSized n m) _ _ _ h
  intro s j hs
  exact rngstep_sized p _ _ _ _ _ (rngstep_sized p _ _ _ _ _ (rngstep_sized p _ _ _ _ _
    (rngstep_sized p _ _ _ _ _ hs)))

/-- `generate` changes neither the length of `mem` nor that of the results buffer -/
theorem generate_sized (core : Core w) (res : Array (BitVec w)) :
    (generate p core res).2.mem.size = core.mem.size ∧ (generate p core res).1.size = res.size := by
  have h := halfLoop_sized p _ MIDPOINT 0
    (halfLoop_sized p { mem := core.mem, results := res, a := core.a, b := core.b + (core.c + 1) }
      0 MIDPOINT ⟨rfl, rfl⟩)
  simp only [GenSized] at h
  simp only [generate]
  exact h

theorem init_mem_size (mem : Array (BitVec w)) (rounds : Nat) :
    (init p mem rounds).mem.size = mem.size := by
  unfold init
  apply foldl_inv (fun acc : Array (BitVec w) × Oct w => acc.1.size = mem.size) _ _ _ rfl
  intro acc _ hacc
  apply foldl_inv (fun acc : Array (BitVec w) × Oct w => acc.1.size = mem.size) _ _ _ hacc
  intro acc j hacc
  simp [wr, hacc]

theorem extend_size (ws : List (BitVec w)) : (extend ws).size = 256 := by
  simp [extend, RAND_SIZE]
  omega

end isaac

/-- `fill_via_chunks` never consumes more words than the source holds -/
theorem fillViaChunks_consumed {w : Nat} (size : Nat) (toLE : BitVec w → List U8)
    (src : List (BitVec w)) (n : Nat) : (fillViaChunks size toLE src n).1 ≤ src.length := by
  unfold fillViaChunks
  simp only
  generalize hk : min (n / size) src.length = k
  have hk' : k ≤ src.length := by omega
  split
  · rename_i x xs hx
    have : (src.drop k).length = src.length - k := List.length_drop
    rw [hx] at this
    simp only [List.length_cons] at this
    split <;> simp only <;> omega
  · exact hk'

/-- the invariant of `BlockRng<IsaacCore>`: the two arrays have their Rust lengths
    (`[u32; 256]`), `index ≤ 256` -/
def Inv32 (r : Isaac.Rng32) : Prop :=
  r.results.size = 256 ∧ r.core.mem.size = 256 ∧ r.index ≤ 256

def Inv64 (r : Isaac.Rng64) : Prop :=
  r.results.size = 256 ∧ r.core.mem.size = 256 ∧ r.index ≤ 256

theorem Inv32.fits {r : Isaac.Rng32} (h : Inv32 r) : Fits32 r :=
  ⟨h.1, h.2.1, Nat.lt_of_le_of_lt h.2.2 (by decide)⟩

theorem Inv64.fits {r : Isaac.Rng64} (h : Inv64 r) : Fits64 r :=
  ⟨h.1, h.2.1, Nat.lt_of_le_of_lt h.2.2 (by decide)⟩

open Isaac in
theorem inv32_new (core : Core 32) (h : core.mem.size = 256) : Inv32 (BlockRng.new blockCore32 core) :=
  ⟨by simp [BlockRng.new, blockCore32, RAND_SIZE], h, Nat.le_refl _⟩

open Isaac in
theorem inv64_new (core : Core 64) (h : core.mem.size = 256) : Inv64 (BlockRng64.new blockCore64 core) :=
  ⟨by simp [BlockRng64.new, blockCore64, RAND_SIZE], h, Nat.le_refl _⟩

open Isaac in
theorem inv32_fromSeed (seed : List U8) : Inv32 (fromSeed32 seed) :=
  inv32_new _ ((init_mem_size _ _ _).trans (extend_size _))

open Isaac in
theorem inv32_seedFromU64 (x : U64) : Inv32 (seedFromU64_32 x) :=
  inv32_new _ ((init_mem_size _ _ _).trans (extend_size _))

open Isaac in
theorem inv64_fromSeed (seed : List U8) : Inv64 (fromSeed64 seed) :=
  inv64_new _ ((init_mem_size _ _ _).trans (extend_size _))

open Isaac in
theorem inv64_seedFromU64 (x : U64) : Inv64 (seedFromU64_64 x) :=
  inv64_new _ ((init_mem_size _ _ _).trans (extend_size _))

section ops32
open Isaac

theorem gen32_sized (r : Rng32) (h : Inv32 r) :
    (blockCore32.generate r.core r.results).1.size = 256 ∧
      (blockCore32.generate r.core r.results).2.mem.size = 256 := by
  have hg := generate_sized params32 r.core r.results
  exact ⟨hg.2.trans h.1, hg.1.trans h.2.1⟩

theorem inv32_generateAndSet (r : Rng32) (h : Inv32 r) (i : Nat) (hi : i ≤ 256) :
    Inv32 (r.generateAndSet blockCore32 i) := by
  have hg := gen32_sized r h
  unfold BlockRng.generateAndSet
  generalize blockCore32.generate r.core r.results = g at hg
  obtain ⟨res, core⟩ := g
  exact ⟨hg.1, hg.2, hi⟩

theorem generateAndSet_index {σ : Type} (c : BlockCore σ 32) (r : BlockRng σ) (i : Nat) :
    (r.generateAndSet c i).index = i := rfl

theorem inv32_nextU32 (r : Rng32) (h : Inv32 r) : Inv32 (BlockRng.nextU32 blockCore32 r).2 := by
  have hlen : blockCore32.len = 256 := rfl
  unfold BlockRng.nextU32
  simp only [hlen]
  by_cases hc : r.index ≥ 256
  · simp only [hc, if_true]
    have h' := inv32_generateAndSet r h 0 (by omega)
    have hi := generateAndSet_index blockCore32 r 0
    generalize r.generateAndSet blockCore32 0 = r' at h' hi
    exact ⟨h'.1, h'.2.1, by simp only [hi]; omega⟩
  · simp only [hc, if_false]
    have hlt : r.index < 256 := Nat.lt_of_not_le hc
    exact ⟨h.1, h.2.1, hlt⟩

theorem inv32_nextU64 (r : Rng32) (h : Inv32 r) : Inv32 (BlockRng.nextU64 blockCore32 r).2 := by
  have hlen : blockCore32.len = 256 := rfl
  unfold BlockRng.nextU64
  simp only [hlen]
  split
  · rename_i hc
    exact ⟨h.1, h.2.1, by simp only; omega⟩
  · split
    · exact inv32_generateAndSet r h 2 (by omega)
    · exact inv32_generateAndSet r h 1 (by omega)

theorem inv32_fillLoop (n : Nat) : ∀ (fuel readLen : Nat) (acc : List U8) (r : Rng32), Inv32 r →
    Inv32 (BlockRng.fillLoop blockCore32 n fuel readLen acc r).2
  | 0, _, _, r, h => h
  | fuel + 1, readLen, acc, r, h => by
    unfold BlockRng.fillLoop
    split
    · simp only
      have hr' : Inv32 (if r.index ≥ blockCore32.len then r.generateAndSet blockCore32 0 else r) := by
        split
        · exact inv32_generateAndSet r h 0 (by omega)
        · exact h
      generalize (if r.index ≥ blockCore32.len then r.generateAndSet blockCore32 0 else r) = r' at hr'
      apply inv32_fillLoop n fuel
      have hc := fillViaChunks_consumed 4 U32.toLE (r'.results.toList.drop r'.index) (n - readLen)
      rw [List.length_drop, Array.length_toList, hr'.1] at hc
      exact ⟨hr'.1, hr'.2.1, by simp only; have := hr'.2.2; omega⟩
    · exact h

theorem inv32_fillBytes (n : Nat) (r : Rng32) (h : Inv32 r) :
    Inv32 (BlockRng.fillBytes blockCore32 n r).2 :=
  inv32_fillLoop n _ _ _ r h

end ops32

section ops64
open Isaac

theorem gen64_sized (r : Rng64) (h : Inv64 r) :
    (blockCore64.generate r.core r.results).1.size = 256 ∧
      (blockCore64.generate r.core r.results).2.mem.size = 256 := by
  have hg := generate_sized params64 r.core r.results
  exact ⟨hg.2.trans h.1, hg.1.trans h.2.1⟩

theorem inv64_nextU32 (r : Rng64) (h : Inv64 r) : Inv64 (BlockRng64.nextU32 blockCore64 r).2 := by
  have hg := gen64_sized r h
  have hlen : blockCore64.len = 256 := rfl
  unfold BlockRng64.nextU32
  generalize blockCore64.generate r.core r.results = g at hg ⊢
  obtain ⟨res, core'⟩ := g
  obtain ⟨results, index, half, core⟩ := r
  obtain ⟨h1, h2, h3⟩ := h
  simp only at h1 h2 h3 hg
  simp only [hlen]
  by_cases hc : index - half.toNat ≥ 256
  · simp only [hc, if_true]
    exact ⟨hg.1, hg.2, by simp⟩
  · simp only [hc, if_false]
    refine ⟨h1, h2, ?_⟩
    cases half <;> simp at hc ⊢ <;> omega

theorem inv64_nextU64 (r : Rng64) (h : Inv64 r) : Inv64 (BlockRng64.nextU64 blockCore64 r).2 := by
  have hg := gen64_sized r h
  have hlen : blockCore64.len = 256 := rfl
  unfold BlockRng64.nextU64
  generalize blockCore64.generate r.core r.results = g at hg ⊢
  obtain ⟨res, core'⟩ := g
  obtain ⟨results, index, half, core⟩ := r
  obtain ⟨h1, h2, h3⟩ := h
  simp only at h1 h2 h3 hg
  simp only [hlen]
  by_cases hc : index ≥ 256
  · simp only [hc, if_true]
    exact ⟨hg.1, hg.2, by simp⟩
  · simp only [hc, if_false]
    exact ⟨h1, h2, by simp only; omega⟩

theorem inv64_refill (r : Rng64) (h : Inv64 r) :
    Inv64 (if r.index ≥ blockCore64.len then
      let (res, core) := blockCore64.generate r.core r.results
      { r with results := res, core := core, index := 0 } else r) := by
  have hg := gen64_sized r h
  generalize blockCore64.generate r.core r.results = g at hg
  obtain ⟨res, core'⟩ := g
  split
  · exact ⟨hg.1, hg.2, Nat.zero_le _⟩
  · exact h

theorem inv64_fillLoop (n : Nat) : ∀ (fuel readLen : Nat) (acc : List U8) (r : Rng64), Inv64 r →
    Inv64 (BlockRng64.fillLoop blockCore64 n fuel readLen acc r).2
  | 0, _, _, r, h => h
  | fuel + 1, readLen, acc, r, h => by
    unfold BlockRng64.fillLoop
    split
    · simp only
      have hr' := inv64_refill r h
      generalize (if r.index ≥ blockCore64.len then
        let (res, core) := blockCore64.generate r.core r.results
        { r with results := res, core := core, index := 0 } else r) = r' at hr'
      apply inv64_fillLoop n fuel
      have hc := fillViaChunks_consumed 8 U64.toLE (r'.results.toList.drop r'.index) (n - readLen)
      rw [List.length_drop, Array.length_toList, hr'.1] at hc
      exact ⟨hr'.1, hr'.2.1, by simp only; have := hr'.2.2; omega⟩
    · exact h

theorem inv64_fillBytes (n : Nat) (r : Rng64) (h : Inv64 r) :
    Inv64 (BlockRng64.fillBytes blockCore64 n r).2 :=
  inv64_fillLoop n _ _ _ _ h

end ops64

/-! ## malformed input -/

/-- `d` rejects every input shorter than `k` bytes and consumes exactly `k` bytes otherwise -/
def Exact {α : Type} (d : De α) (k : Nat) : Prop :=
  ∀ bs, (bs.length < k → d bs = none) ∧ ∀ x r, d bs = some (x, r) → r.length + k = bs.length

theorem exact_deU32 : Exact deU32 4 := by
  intro bs
  match bs with
  | [] | [_] | [_, _] | [_, _, _] => simp [deU32]
  | _ :: _ :: _ :: _ :: rest =>
    refine ⟨fun h => absurd h (by simp only [List.length_cons]; omega), ?_⟩
    intro x r h
    simp only [deU32, Option.some.injEq, Prod.mk.injEq] at h
    simp only [List.length_cons, ← h.2]

theorem exact_deU64 : Exact deU64 8 := by
  intro bs
  match bs with
  | [] | [_] | [_, _] | [_, _, _] | [_, _, _, _] | [_, _, _, _, _] | [_, _, _, _, _, _]
  | [_, _, _, _, _, _, _] => simp [deU64]
  | _ :: _ :: _ :: _ :: _ :: _ :: _ :: _ :: rest =>
    refine ⟨fun h => absurd h (by simp only [List.length_cons]; omega), ?_⟩
    intro x r h
    simp only [deU64, Option.some.injEq, Prod.mk.injEq] at h
    simp only [List.length_cons, ← h.2]

theorem exact_deBool : Exact deBool 1 := by
  intro bs
  match bs with
  | [] => simp [deBool]
  | b :: rest =>
    refine ⟨fun h => absurd h (by simp only [List.length_cons]; omega), ?_⟩
    intro x r h
    simp only [deBool] at h
    split at h
    · simp only [Option.some.injEq, Prod.mk.injEq] at h; simp only [List.length_cons, ← h.2]
    · split at h
      · simp only [Option.some.injEq, Prod.mk.injEq] at h; simp only [List.length_cons, ← h.2]
      · exact absurd h (by simp)

theorem exact_deMany {α : Type} {d : De α} {k : Nat} (hd : Exact d k) :
    ∀ n, Exact (deMany d n) (n * k)
  | 0 => by
    intro bs
    refine ⟨fun h => absurd h (by omega), ?_⟩
    intro x r h
    simp only [deMany, Option.some.injEq, Prod.mk.injEq] at h
    simp only [Nat.zero_mul, Nat.add_zero, ← h.2]
  | n + 1 => by
    intro bs
    have e : (n + 1) * k = n * k + k := Nat.succ_mul n k
    constructor
    · intro hlt
      unfold deMany
      split
      · rfl
      · rename_i x bs1 h1
        have l1 := (hd bs).2 _ _ h1
        have := (exact_deMany hd n bs1).1 (by omega)
        simp only [this]
    · intro xs r h
      unfold deMany at h
      split at h
      · exact absurd h (by simp)
      · rename_i x bs1 h1
        have l1 := (hd bs).2 _ _ h1
        split at h
        · exact absurd h (by simp)
        · rename_i ys bs2 h2
          have l2 := (exact_deMany hd n bs1).2 _ _ h2
          simp only [Option.some.injEq, Prod.mk.injEq] at h
          rw [← h.2]
          omega

theorem serU32s_length (ws : List U32) : (serU32s ws).length = 4 * ws.length := by
  induction ws with
  | nil => rfl
  | cons x xs ih =>
    simp only [serU32s, List.flatMap_cons, List.length_append, List.length_cons] at ih ⊢
    rw [ih, Codec.toLE32_length]; omega

theorem serU64s_length (ws : List U64) : (serU64s ws).length = 8 * ws.length := by
  induction ws with
  | nil => rfl
  | cons x xs ih =>
    simp only [serU64s, List.flatMap_cons, List.length_append, List.length_cons] at ih ⊢
    rw [ih, Codec.toLE64_length]; omega

theorem serIsaac32_length (r : Isaac.Rng32) (h : Fits32 r) : (serIsaac32 r).length = 2068 := by
  obtain ⟨h1, h2, _⟩ := h
  simp only [serIsaac32, List.length_append, serU32s_length, serUsize, Codec.toLE64_length,
    Array.length_toList, h1, h2, List.length_cons, List.length_nil]

theorem serIsaac64_length (r : Isaac.Rng64) (h : Fits64 r) : (serIsaac64 r).length = 4129 := by
  obtain ⟨h1, h2, _⟩ := h
  simp only [serIsaac64, List.length_append, serU64s_length, serUsize, Codec.toLE64_length,
    Array.length_toList, h1, h2, List.length_cons, List.length_nil, serBool]

theorem deS2_32_short (bs : List U8) (h : bs.length < 8) : deS2_32 bs = none := by
  have := (exact_deMany exact_deU32 2 bs).1 h
  simp only [deS2_32, this]

theorem deS2_64_short (bs : List U8) (h : bs.length < 16) : deS2_64 bs = none := by
  have := (exact_deMany exact_deU64 2 bs).1 h
  simp only [deS2_64, this]

theorem deS4_32_short (bs : List U8) (h : bs.length < 16) : deS4_32 bs = none := by
  have := (exact_deMany exact_deU32 4 bs).1 h
  simp only [deS4_32, this]

theorem deS4_64_short (bs : List U8) (h : bs.length < 32) : deS4_64 bs = none := by
  have := (exact_deMany exact_deU64 4 bs).1 h
  simp only [deS4_64, this]

theorem deS8_short (bs : List U8) (h : bs.length < 64) : deS8 bs = none := by
  have := (exact_deMany exact_deU64 8 bs).1 h
  simp only [deS8, this]

theorem deIsaac32_short (bs : List U8) (h : bs.length < 2068) : deIsaac32 bs = none := by
  have E := exact_deMany exact_deU32
  unfold deIsaac32
  split
  · rfl
  · rename_i results bs1 h1
    have l1 := (E 256 bs).2 _ _ h1
    split
    · rfl
    · rename_i idx bs2 h2
      have l2 := (exact_deU64 bs1).2 _ _ h2
      split
      · rfl
      · rename_i mem bs3 h3
        have l3 := (E 256 bs2).2 _ _ h3
        have := (E 3 bs3).1 (by omega)
        simp only [this]

theorem deIsaac64_short (bs : List U8) (h : bs.length < 4129) : deIsaac64 bs = none := by
  have E := exact_deMany exact_deU64
  unfold deIsaac64
  split
  · rfl
  · rename_i results bs1 h1
    have l1 := (E 256 bs).2 _ _ h1
    split
    · rfl
    · rename_i idx bs2 h2
      have l2 := (exact_deU64 bs1).2 _ _ h2
      split
      · rfl
      · rename_i half bs3 h3
        have l3 := (exact_deBool bs2).2 _ _ h3
        split
        · rfl
        · rename_i mem bs4 h4
          have l4 := (E 256 bs3).2 _ _ h4
          have := (E 3 bs4).1 (by omega)
          simp only [this]

/-- an ISAAC-64 image in which the `half_used` byte is neither 0 nor 1 is rejected -/
theorem deIsaac64_badBool (results : List U64) (hres : results.length = 256) (index : Nat)
    (hidx : index < 2 ^ 64) (b : U8) (h0 : b ≠ 0) (h1 : b ≠ 1) (tail : List U8) :
    deIsaac64 (serU64s results ++ serUsize index ++ [b] ++ tail) = none := by
  have hi := fun rest => (deUsize_ser index hidx rest).1
  simp only [deIsaac64, List.append_assoc, deU64s_ser results 256 hres, hi, List.cons_append,
    List.nil_append, deBool, h0, h1, if_false]

end Rngs.SerdeLemmas
