/-
  Rngs.Lib.StreamRefine — generic part of property C05 for the non-buffered generators:
  a `Direct σ` generator whose `fill_bytes` is `fill_bytes_via_next` refines the abstract
  machine `Spec.Stream.step32` / `step64` over its own native word stream.
-/
import Rngs.Spec.Stream
import Rngs.Model.Xoshiro
namespace Rngs
namespace StreamRefine
open Rngs.Spec.Stream

/-! ## `iter` -/

theorem iter_add {α : Type} (f : α → α) (a b : Nat) (s : α) :
    iter f (a + b) s = iter f b (iter f a s) := by
  induction b with
  | zero => rfl
  | succ b ih => show f (iter f (a + b) s) = f (iter f b (iter f a s)); rw [ih]

theorem iter_succ' {α : Type} (f : α → α) (k : Nat) (s : α) :
    iter f (k + 1) s = iter f k (f s) := by
  rw [Nat.add_comm, iter_add]; rfl

/-! ## little-endian bytes -/

theorem toLE_join (x y : U32) : U64.toLE (join x y) = U32.toLE x ++ U32.toLE y := by
  simp only [U64.toLE, U32.toLE, join, List.cons_append, List.nil_append, List.cons.injEq, and_true]
  refine ⟨?_, ?_, ?_, ?_, ?_, ?_, ?_, ?_⟩
  all_goals
    apply BitVec.eq_of_getLsbD_eq
    intro i hi
    have h : i = 0 ∨ i = 1 ∨ i = 2 ∨ i = 3 ∨ i = 4 ∨ i = 5 ∨ i = 6 ∨ i = 7 := by omega
    rcases h with h | h | h | h | h | h | h | h <;> subst h <;> simp

theorem U32.toLE_length (w : U32) : (U32.toLE w).length = 4 := rfl
theorem U64.toLE_length (w : U64) : (U64.toLE w).length = 8 := rfl

/-! ## `wordBytes` -/

section wordBytes
variable {α : Type} (toLE : α → List U8) (W : Nat → α)

@[simp] theorem wordBytes_zero (p : Nat) : wordBytes toLE W p 0 = [] := rfl

theorem wordBytes_succ (p k : Nat) :
    wordBytes toLE W p (k + 1) = wordBytes toLE W p k ++ toLE (W (p + k)) := by
  simp [wordBytes, List.range_succ]

theorem wordBytes_succ_left (p k : Nat) :
    wordBytes toLE W p (k + 1) = toLE (W p) ++ wordBytes toLE W (p + 1) k := by
  induction k with
  | zero => simp [wordBytes]
  | succ k ih =>
    rw [wordBytes_succ, ih, wordBytes_succ, List.append_assoc, Nat.add_assoc, Nat.add_comm 1 k]

theorem wordBytes_add (p a b : Nat) :
    wordBytes toLE W p (a + b) = wordBytes toLE W p a ++ wordBytes toLE W (p + a) b := by
  induction b with
  | zero => simp
  | succ b ih => rw [← Nat.add_assoc, wordBytes_succ, ih, wordBytes_succ, List.append_assoc, Nat.add_assoc]

theorem wordBytes_one (p : Nat) : wordBytes toLE W p 1 = toLE (W p) := by
  simp [wordBytes]

theorem wordBytes_two (p : Nat) : wordBytes toLE W p 2 = toLE (W p) ++ toLE (W (p + 1)) := by
  simp [wordBytes, List.range_succ]

theorem wordBytes_length (c : Nat) (h : ∀ a, (toLE a).length = c) (p k : Nat) :
    (wordBytes toLE W p k).length = k * c := by
  induction k with
  | zero => simp
  | succ k ih => rw [wordBytes_succ, List.length_append, ih, h, Nat.succ_mul]

theorem wordBytes_congr {W W' : Nat → α} (p k : Nat) (h : ∀ i, i < k → W (p + i) = W' (p + i)) :
    wordBytes toLE W p k = wordBytes toLE W' p k := by
  induction k with
  | zero => rfl
  | succ k ih =>
    rw [wordBytes_succ, wordBytes_succ, ih (fun i hi => h i (by omega)), h k (by omega)]

end wordBytes

/-! ## simulation of `run` -/

theorem run_nil {σ : Type} (step : σ → Op → Out × σ) (s : σ) : run step s [] = ([], s) := rfl

theorem run_cons {σ : Type} (step : σ → Op → Out × σ) (s : σ) (op : Op) (ops : List Op) :
    run step s (op :: ops) =
      ((step s op).1 :: (run step (step s op).2 ops).1, (run step (step s op).2 ops).2) := rfl

/-- A step-wise simulation lifts to whole histories: equal outputs, related final states. -/
theorem run_sim {α β : Type} (R : α → β → Prop)
    (f : α → Op → Out × α) (g : β → Op → Out × β)
    (h : ∀ a b op, R a b → (f a op).1 = (g b op).1 ∧ R (f a op).2 (g b op).2) :
    ∀ (ops : List Op) (a : α) (b : β), R a b →
      (run f a ops).1 = (run g b ops).1 ∧ R (run f a ops).2 (run g b ops).2 := by
  intro ops
  induction ops with
  | nil => intro a b hab; exact ⟨rfl, hab⟩
  | cons op ops ih =>
    intro a b hab
    obtain ⟨h1, h2⟩ := h a b op hab
    obtain ⟨h3, h4⟩ := ih _ _ h2
    rw [run_cons, run_cons]
    exact ⟨by simp only [h1, h3], h4⟩

/-! ## the model side: one op of a `Direct` generator -/

/-- the three calls of `RngCore` for a non-buffered generator whose `fill_bytes` is
    `impls::fill_bytes_via_next` -/
def opDirect {σ : Type} (d : Direct σ) (s : σ) : Op → Out × σ
  | .u32 => (.w32 (d.nextU32 s).1, (d.nextU32 s).2)
  | .u64 => (.w64 (d.nextU64 s).1, (d.nextU64 s).2)
  | .fill n => (.bytes (fillBytesViaNext d n s).1, (fillBytesViaNext d n s).2)

/-! ## 64-bit-word generators -/

section W64
variable {σ : Type} (n64 : σ → U64 × σ) (n32 : σ → U32 × σ)

/-- the state transition of the native call -/
def next64 (s : σ) : σ := (n64 s).2

/-- the native stream from state `s`: word `k` is what the `k+1`-st `next_u64` returns,
    paired with what `next_u32` would return *instead* at that position -/
def stream64 (s : σ) (k : Nat) : U64 × U32 :=
  ((n64 (iter (next64 n64) k s)).1, (n32 (iter (next64 n64) k s)).1)

theorem fillLoop_eq (k p : Nat) (s : σ) :
    fillLoop n64 k (iter (next64 n64) p s) =
      (wordBytes (fun w : U64 × U32 => U64.toLE w.1) (stream64 n64 n32 s) p k,
       iter (next64 n64) (p + k) s) := by
  induction k generalizing p with
  | zero => rfl
  | succ k ih =>
    have e : (n64 (iter (next64 n64) p s)).2 = iter (next64 n64) (p + 1) s := rfl
    simp only [fillLoop, e, ih, wordBytes_succ_left]
    refine Prod.ext rfl ?_
    dsimp only
    congr 1; omega

/-- One op from stream position `c.pos`: same output, cursor advanced by exactly the words used. -/
theorem step64_sim (hstate : ∀ s, (n32 s).2 = (n64 s).2) (s : σ) (c : Cursor) (op : Op) :
    (opDirect ⟨n32, n64⟩ (iter (next64 n64) c.pos s) op).1
        = (step64 (stream64 n64 n32 s) c op).1
    ∧ (opDirect ⟨n32, n64⟩ (iter (next64 n64) c.pos s) op).2
        = iter (next64 n64) (step64 (stream64 n64 n32 s) c op).2.pos s
    ∧ (step64 (stream64 n64 n32 s) c op).2.pending = false := by
  cases op with
  | u32 => exact ⟨rfl, hstate _, rfl⟩
  | u64 => exact ⟨rfl, rfl, rfl⟩
  | fill n =>
    simp only [opDirect, fillBytesViaNext, fillLoop_eq n64 n32, step64]
    by_cases h1 : n % 8 > 4
    · simp only [h1, if_true]
      refine ⟨?_, ?_, ?_⟩ <;> first | trivial | rfl
    · by_cases h2 : n % 8 > 0
      · simp only [h1, h2, if_true, if_false]
        refine ⟨?_, ?_, ?_⟩ <;> first | trivial | rfl | exact hstate _
      · simp only [h1, h2, if_false]
        refine ⟨?_, ?_, ?_⟩ <;> first | trivial | rfl

/-- **Generic C05 for 64-bit-word generators.**  Any interleaving of calls, from any state:
    the outputs are those of the abstract machine over the native stream, and the final
    state is the native transition applied exactly `pos` times. -/
theorem direct64_refines (hstate : ∀ s, (n32 s).2 = (n64 s).2) (s : σ) (ops : List Op) :
    (run (opDirect ⟨n32, n64⟩) s ops).1 = (run (step64 (stream64 n64 n32 s)) ⟨0, false⟩ ops).1
    ∧ (run (opDirect ⟨n32, n64⟩) s ops).2
        = iter (next64 n64) (run (step64 (stream64 n64 n32 s)) ⟨0, false⟩ ops).2.pos s
    ∧ (run (step64 (stream64 n64 n32 s)) ⟨0, false⟩ ops).2.pending = false := by
  have := run_sim (fun (m : σ) (c : Cursor) => m = iter (next64 n64) c.pos s ∧ c.pending = false)
    (opDirect ⟨n32, n64⟩) (step64 (stream64 n64 n32 s))
    (by
      rintro a b op ⟨rfl, _⟩
      obtain ⟨h1, h2, h3⟩ := step64_sim n64 n32 hstate s b op
      exact ⟨h1, h2, h3⟩)
    ops s ⟨0, false⟩ ⟨rfl, rfl⟩
  exact ⟨this.1, this.2.1, this.2.2⟩

theorem upperHalf_state (s : σ) : (upperHalf n64 s).2 = (n64 s).2 := rfl
theorem lowerHalf_state (s : σ) : (lowerHalf n64 s).2 = (n64 s).2 := rfl
theorem upperHalf_val (s : σ) : (upperHalf n64 s).1 = highHalf (n64 s).1 := rfl
theorem lowerHalf_val (s : σ) : (lowerHalf n64 s).1 = lowHalf (n64 s).1 := rfl

end W64

/-! ## 32-bit-word generators -/

section W32
variable {σ : Type} (n32 : σ → U32 × σ)

def next32 (s : σ) : σ := (n32 s).2

/-- the native stream from state `s`: word `k` is what the `k+1`-st `next_u32` returns -/
def stream32 (s : σ) (k : Nat) : U32 := (n32 (iter (next32 n32) k s)).1

theorem nextU64ViaU32_eq (p : Nat) (s : σ) :
    nextU64ViaU32 n32 (iter (next32 n32) p s) =
      (join (stream32 n32 s p) (stream32 n32 s (p + 1)), iter (next32 n32) (p + 2) s) := rfl

theorem fillLoop32_eq (k p : Nat) (s : σ) :
    fillLoop (nextU64ViaU32 n32) k (iter (next32 n32) p s) =
      (wordBytes U32.toLE (stream32 n32 s) p (2 * k), iter (next32 n32) (p + 2 * k) s) := by
  induction k generalizing p with
  | zero => rfl
  | succ k ih =>
    simp only [fillLoop, nextU64ViaU32_eq, ih, toLE_join]
    refine Prod.ext ?_ ?_
    · show _ = wordBytes _ _ p (2 * (k + 1))
      rw [show 2 * (k + 1) = 2 + 2 * k by omega, wordBytes_add, wordBytes_two]
    · dsimp only
      congr 1; omega

theorem step32_sim (s : σ) (c : Cursor) (op : Op) :
    (opDirect ⟨n32, nextU64ViaU32 n32⟩ (iter (next32 n32) c.pos s) op).1
        = (step32 (stream32 n32 s) c op).1
    ∧ (opDirect ⟨n32, nextU64ViaU32 n32⟩ (iter (next32 n32) c.pos s) op).2
        = iter (next32 n32) (step32 (stream32 n32 s) c op).2.pos s
    ∧ (step32 (stream32 n32 s) c op).2.pending = false := by
  cases op with
  | u32 => exact ⟨rfl, rfl, rfl⟩
  | u64 => exact ⟨rfl, rfl, rfl⟩
  | fill n =>
    simp only [opDirect, fillBytesViaNext, fillLoop32_eq, step32, nextU64ViaU32_eq]
    by_cases h1 : n % 8 > 4
    · simp only [h1, if_true, toLE_join, wordBytes_two]
      refine ⟨?_, ?_, ?_⟩ <;> first | trivial | rfl
    · by_cases h2 : n % 8 > 0
      · simp only [h1, h2, if_true, if_false]
        refine ⟨?_, ?_, ?_⟩ <;> first | trivial | rfl
      · simp only [h1, h2, if_false]
        refine ⟨?_, ?_, ?_⟩ <;> first | trivial | rfl

/-- **Generic C05 for 32-bit-word generators** (`next_u64 = next_u64_via_u32`,
    `fill_bytes = fill_bytes_via_next`). -/
theorem direct32_refines (s : σ) (ops : List Op) :
    (run (opDirect ⟨n32, nextU64ViaU32 n32⟩) s ops).1
        = (run (step32 (stream32 n32 s)) ⟨0, false⟩ ops).1
    ∧ (run (opDirect ⟨n32, nextU64ViaU32 n32⟩) s ops).2
        = iter (next32 n32) (run (step32 (stream32 n32 s)) ⟨0, false⟩ ops).2.pos s
    ∧ (run (step32 (stream32 n32 s)) ⟨0, false⟩ ops).2.pending = false := by
  have := run_sim (fun (m : σ) (c : Cursor) => m = iter (next32 n32) c.pos s ∧ c.pending = false)
    (opDirect ⟨n32, nextU64ViaU32 n32⟩) (step32 (stream32 n32 s))
    (by
      rintro a b op ⟨rfl, _⟩
      obtain ⟨h1, h2, h3⟩ := step32_sim n32 s b op
      exact ⟨h1, h2, h3⟩)
    ops s ⟨0, false⟩ ⟨rfl, rfl⟩
  exact ⟨this.1, this.2.1, this.2.2⟩

end W32

end StreamRefine
end Rngs
