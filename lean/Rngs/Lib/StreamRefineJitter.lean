/-
  Rngs.Lib.StreamRefineJitter — property C05 for JitterRng: `next_u32`, `next_u64` and
  `fill_bytes` in the timer monad refine `Spec.Stream.stepJitter` over the stream of values
  successive `next_u64` calls return for the given timer script, as long as the script
  does not run out.
-/
import Rngs.Lib.StreamRefine
import Rngs.Model.Jitter
namespace Rngs
namespace JitterRefine
open Rngs.Spec.Stream Rngs.StreamRefine Rngs.Jitter

/-! ## the timer monad -/

theorem TM.bind_eq_some {α β : Type} (x : TM α) (f : α → TM β) (rs : List U64) (b : β) (rs' : List U64) :
    (x >>= f) rs = some (b, rs') ↔ ∃ a rs1, x rs = some (a, rs1) ∧ f a rs1 = some (b, rs') := by
  show (x rs >>= fun p => f p.1 p.2) = _ ↔ _
  cases x rs with
  | none => simp
  | some p =>
    obtain ⟨a, rs1⟩ := p
    show f a rs1 = _ ↔ _
    constructor
    · intro h; exact ⟨a, rs1, rfl, h⟩
    · rintro ⟨a', rs1', h1, h2⟩
      cases h1; exact h2

theorem TM.pure_eq_some {α : Type} (a b : α) (rs rs' : List U64) :
    (pure a : TM α) rs = some (b, rs') ↔ a = b ∧ rs = rs' := by
  show some (a, rs) = some (b, rs') ↔ _
  simp

/-- partial-correctness triple for the timer monad: whenever the computation returns, `P` holds -/
def Post {α : Type} (x : TM α) (P : α → Prop) : Prop :=
  ∀ rs a rs', x rs = some (a, rs') → P a

theorem Post.pure {α : Type} {a : α} {P : α → Prop} (h : P a) : Post (pure a : TM α) P := by
  intro rs b rs' hb
  rw [TM.pure_eq_some] at hb
  exact hb.1 ▸ h

theorem Post.bind {α β : Type} {x : TM α} {f : α → TM β} {P : α → Prop} {Q : β → Prop}
    (hx : Post x P) (hf : ∀ a, P a → Post (f a) Q) : Post (x >>= f) Q := by
  intro rs b rs' hb
  rw [TM.bind_eq_some] at hb
  obtain ⟨a, rs1, h1, h2⟩ := hb
  exact hf a (hx rs a rs1 h1) rs1 b rs' h2

theorem Post.trivial {α : Type} (x : TM α) : Post x (fun _ => True) := fun _ _ _ _ => True.intro

theorem Post.ite {α : Type} {c : Prop} [Decidable c] {x y : TM α} {P : α → Prop}
    (hx : Post x P) (hy : Post y P) : Post (if c then x else y) P := by
  split <;> assumption

theorem memaccess_half (j : Rng) (vr : Bool) :
    Post (memaccess j vr) (fun j' => j'.halfUsed = j.halfUsed) := by
  unfold memaccess
  dsimp only
  refine Post.ite (Post.bind (Post.trivial _) (fun _ _ => Post.pure rfl))
    (Post.bind (Post.trivial _) (fun _ _ => Post.pure rfl))

theorem lfsrTime_half (j : Rng) (t : U64) (vr : Bool) :
    Post (lfsrTime j t vr) (fun j' => j'.halfUsed = j.halfUsed) := by
  unfold lfsrTime
  dsimp only
  refine Post.ite (Post.bind (Post.trivial _) (fun _ _ => Post.pure rfl)) (Post.pure rfl)

theorem measureJitter_half (j : Rng) (ec : Ec) :
    Post (measureJitter j ec) (fun r => r.2.1.halfUsed = j.halfUsed) := by
  unfold measureJitter
  refine Post.bind (memaccess_half j true) (fun j1 h1 => ?_)
  refine Post.bind (Post.trivial _) (fun time _ => ?_)
  refine Post.bind (lfsrTime_half j1 _ true) (fun j2 h2 => ?_)
  dsimp only
  split <;> exact Post.pure (h2.trans h1)

theorem collect_half : ∀ (fuel need : Nat) (j : Rng) (ec : Ec),
    Post (collect fuel need j ec) (fun r => r.1.halfUsed = j.halfUsed) := by
  intro fuel
  induction fuel with
  | zero =>
    intro need j ec
    cases need with
    | zero => unfold collect; exact Post.pure rfl
    | succ need => unfold collect; intro rs a rs' h; cases h
  | succ fuel ih =>
    intro need j ec
    cases need with
    | zero => unfold collect; exact Post.pure rfl
    | succ need =>
      unfold collect
      refine Post.bind (measureJitter_half j ec) (fun r hr => ?_)
      obtain ⟨ok, j1, ec1⟩ := r
      dsimp only at hr ⊢
      refine Post.ite ?_ ?_
      · intro rs a rs' h; exact (ih _ _ _ rs a rs' h).trans hr
      · intro rs a rs' h; exact (ih _ _ _ rs a rs' h).trans hr

theorem genEntropy_post (j : Rng) :
    Post (genEntropy j) (fun r => r.2.halfUsed = j.halfUsed ∧ r.1 = r.2.data) := by
  unfold genEntropy
  refine Post.bind (Post.trivial _) (fun t _ => ?_)
  refine Post.bind (measureJitter_half j _) (fun r hr => ?_)
  obtain ⟨ok, j1, ec1⟩ := r
  dsimp only at hr ⊢
  refine Post.bind (Post.trivial _) (fun rs0 _ => ?_)
  refine Post.bind (collect_half _ _ j1 ec1) (fun r hr2 => ?_)
  exact Post.pure ⟨hr2.trans hr, rfl⟩

/-- `next_u64` returns the new pool value and leaves no half pending -/
theorem nextU64_post (j : Rng) :
    Post (Jitter.nextU64 j) (fun r => r.2.halfUsed = false ∧ r.1 = r.2.data) :=
  genEntropy_post { j with halfUsed := false }

/-- `next_u64` ignores `half_used` -/
theorem nextU64_half (j : Rng) (b : Bool) :
    Jitter.nextU64 { j with halfUsed := b } = Jitter.nextU64 j := rfl

theorem rng_eta (j : Rng) (h : j.halfUsed = false) : { j with halfUsed := false } = j := by
  cases j; cases h; rfl

/-! ## the model side -/

/-- the three `RngCore` calls of JitterRng -/
def opJitter (j : Rng) : Op → TM (Out × Rng)
  | .u32 => do let r ← Jitter.nextU32 j; pure (.w32 r.1, r.2)
  | .u64 => do let r ← Jitter.nextU64 j; pure (.w64 r.1, r.2)
  | .fill n => do let r ← Jitter.fill n j; pure (.bytes r.1, r.2)

/-- a whole history in the timer monad; `none` = the timer script ran out -/
def runJitter : Rng → List Op → TM (List Out × Rng)
  | j, [] => pure ([], j)
  | j, op :: ops => do
    let r ← opJitter j op
    let rest ← runJitter r.2 ops
    pure (r.1 :: rest.1, rest.2)

/-! ## the native stream -/

/-- generator state and remaining timer script after `k` native (`next_u64`) calls;
    `none` if the script runs out before -/
def natState (j : Rng) (rs : List U64) : Nat → Option (Rng × List U64)
  | 0 => some (j, rs)
  | k + 1 =>
    match natState j rs k with
    | some (jk, rsk) =>
      match Jitter.nextU64 jk rsk with
      | some (r, rs') => some (r.2, rs')
      | none => none
    | none => none

/-- word `k` of the native stream: the value the `k+1`-st `next_u64` returns (the default 0
    past the end of the script is never observed by a run that returns) -/
def jitterStream (j : Rng) (rs : List U64) (k : Nat) : U64 :=
  match natState j rs k with
  | some (jk, rsk) =>
    match Jitter.nextU64 jk rsk with
    | some (r, _) => r.1
    | none => 0
  | none => 0

theorem natState_succ {j : Rng} {rs : List U64} {k : Nat} {jk : Rng} {rsk : List U64}
    {v : U64} {j1 : Rng} {rs1 : List U64}
    (h1 : natState j rs k = some (jk, rsk)) (h2 : Jitter.nextU64 jk rsk = some ((v, j1), rs1)) :
    natState j rs (k + 1) = some (j1, rs1) ∧ jitterStream j rs k = v := by
  simp [natState, jitterStream, h1, h2]

/-! ## simulation -/

section sim
variable (j₀ : Rng) (rs₀ : List U64)

/-- model state `(j, rs)` vs cursor: `(j, rs)` is the native state after `pos` native calls,
    up to the `half_used` flag, which is the cursor's `pending`; while pending, the pool
    still holds the word whose high half is owed -/
def Rel (j : Rng) (rs : List U64) (cur : Cursor) : Prop :=
  ∃ jn, natState j₀ rs₀ cur.pos = some (jn, rs) ∧ jn.halfUsed = false
    ∧ j = { jn with halfUsed := cur.pending }
    ∧ (cur.pending = true → 1 ≤ cur.pos ∧ jn.data = jitterStream j₀ rs₀ (cur.pos - 1))

variable {j₀ rs₀}

theorem nextU64_rel {j : Rng} {rs : List U64} {cur : Cursor} (h : Rel j₀ rs₀ j rs cur)
    {v : U64} {j1 : Rng} {rs1 : List U64} (hr : Jitter.nextU64 j rs = some ((v, j1), rs1)) :
    v = jitterStream j₀ rs₀ cur.pos ∧ Rel j₀ rs₀ j1 rs1 ⟨cur.pos + 1, false⟩
    ∧ v = j1.data := by
  obtain ⟨jn, hn, hh, rfl, -⟩ := h
  rw [nextU64_half] at hr
  obtain ⟨hs, hw⟩ := natState_succ hn hr
  obtain ⟨hp1, hp2⟩ := nextU64_post jn rs _ rs1 hr
  exact ⟨hw.symm, ⟨j1, hs, hp1, (rng_eta j1 hp1).symm, fun hf => by cases hf⟩, hp2⟩

theorem nextU32_rel {j : Rng} {rs : List U64} {cur : Cursor} (h : Rel j₀ rs₀ j rs cur)
    {x : U32} {j1 : Rng} {rs1 : List U64} (hr : Jitter.nextU32 j rs = some ((x, j1), rs1)) :
    Out.w32 x = (stepJitter (jitterStream j₀ rs₀) cur .u32).1
    ∧ Rel j₀ rs₀ j1 rs1 (stepJitter (jitterStream j₀ rs₀) cur .u32).2 := by
  by_cases hp : cur.pending = true
  · -- the high half of the previous word, no timer reading
    obtain ⟨jn, hn, hh, rfl, hd⟩ := h
    obtain ⟨hpos, hdata⟩ := hd hp
    unfold Jitter.nextU32 at hr
    simp only [hp, if_true] at hr
    rw [TM.pure_eq_some] at hr
    obtain ⟨hr1, rfl⟩ := hr
    cases hr1
    simp only [stepJitter, hp, if_true]
    refine ⟨?_, jn, hn, hh, rfl, fun hf => by cases hf⟩
    show Out.w32 ((jn.data >>> 32).setWidth 32) = _
    rw [hdata]; rfl
  · have hp' : cur.pending = false := by simpa using hp
    obtain ⟨pos, pend⟩ := cur
    dsimp only at hp'
    subst hp'
    have h' := h
    obtain ⟨jn, hn, hh, hj, -⟩ := h
    dsimp only at hj hn
    rw [rng_eta jn hh] at hj
    subst hj
    unfold Jitter.nextU32 at hr
    simp only [hh, Bool.false_eq_true, if_false] at hr
    rw [TM.bind_eq_some] at hr
    obtain ⟨⟨v, j2⟩, rs2, h1, h2⟩ := hr
    dsimp only at h2
    rw [TM.pure_eq_some] at h2
    obtain ⟨h2, rfl⟩ := h2
    cases h2
    obtain ⟨hv, ⟨jm, hm1, hm2, hm3, -⟩, hvd⟩ := nextU64_rel h' h1
    dsimp only at hm1 hm3 hv
    rw [rng_eta jm hm2] at hm3
    subst hm3
    simp only [stepJitter, Bool.false_eq_true, if_false]
    refine ⟨by rw [← hv]; rfl, j2, hm1, hm2, ?_, fun _ => ⟨Nat.le_add_left _ _, ?_⟩⟩
    · rw [hvd]
    · dsimp only
      rw [Nat.add_sub_cancel, ← hv, hvd]

theorem fillLoop_rel : ∀ (k : Nat) {j : Rng} {rs : List U64} {cur : Cursor}
    (_ : Rel j₀ rs₀ j rs cur) {bytes : List U8} {j1 : Rng} {rs1 : List U64}
    (_ : Jitter.fillLoop k j rs = some ((bytes, j1), rs1)),
    bytes = wordBytes U64.toLE (jitterStream j₀ rs₀) cur.pos k
    ∧ Rel j₀ rs₀ j1 rs1 ⟨cur.pos + k, if k == 0 then cur.pending else false⟩ := by
  intro k
  induction k with
  | zero =>
    intro j rs cur h bytes j1 rs1 hr
    unfold Jitter.fillLoop at hr
    rw [TM.pure_eq_some] at hr
    obtain ⟨hr1, rfl⟩ := hr
    cases hr1
    exact ⟨rfl, h⟩
  | succ k ih =>
    intro j rs cur h bytes j1 rs1 hr
    unfold Jitter.fillLoop at hr
    rw [TM.bind_eq_some] at hr
    obtain ⟨⟨v, j2⟩, rs2, h1, hr⟩ := hr
    dsimp only at hr
    rw [TM.bind_eq_some] at hr
    obtain ⟨⟨rest, j3⟩, rs3, h2, hr⟩ := hr
    dsimp only at hr
    rw [TM.pure_eq_some] at hr
    obtain ⟨hr1, rfl⟩ := hr
    cases hr1
    obtain ⟨hv, hrel, -⟩ := nextU64_rel h h1
    obtain ⟨hb, hrel2⟩ := ih hrel h2
    refine ⟨by rw [wordBytes_succ_left, hb, hv], ?_⟩
    have e : cur.pos + 1 + k = cur.pos + (k + 1) := by omega
    simpa [e] using hrel2

theorem fill_rel (n : Nat) {j : Rng} {rs : List U64} {cur : Cursor} (h : Rel j₀ rs₀ j rs cur)
    {bytes : List U8} {j1 : Rng} {rs1 : List U64}
    (hr : Jitter.fill n j rs = some ((bytes, j1), rs1)) :
    Out.bytes bytes = (stepJitter (jitterStream j₀ rs₀) cur (.fill n)).1
    ∧ Rel j₀ rs₀ j1 rs1 (stepJitter (jitterStream j₀ rs₀) cur (.fill n)).2 := by
  unfold Jitter.fill at hr
  rw [TM.bind_eq_some] at hr
  obtain ⟨⟨pre, j2⟩, rs2, h1, hr⟩ := hr
  dsimp only at hr
  obtain ⟨hpre, hrel⟩ := fillLoop_rel (n / 8) h h1
  by_cases c1 : n % 8 > 4
  · simp only [c1, if_true] at hr
    rw [TM.bind_eq_some] at hr
    obtain ⟨⟨v, j3⟩, rs3, h2, hr⟩ := hr
    dsimp only at hr
    rw [TM.pure_eq_some] at hr
    obtain ⟨hr1, rfl⟩ := hr
    cases hr1
    obtain ⟨hv, hrel2, -⟩ := nextU64_rel hrel h2
    simp only [stepJitter, c1, if_true]
    exact ⟨by rw [hpre, hv], hrel2⟩
  · by_cases c2 : n % 8 > 0
    · simp only [c1, c2, if_true, if_false] at hr
      rw [TM.bind_eq_some] at hr
      obtain ⟨⟨x, j3⟩, rs3, h2, hr⟩ := hr
      dsimp only at hr
      rw [TM.pure_eq_some] at hr
      obtain ⟨hr1, rfl⟩ := hr
      cases hr1
      obtain ⟨hx, hrel2⟩ := nextU32_rel hrel h2
      simp only [stepJitter, c1, c2, if_true, if_false]
      by_cases hk : n / 8 = 0
      · simp only [hk, beq_self_eq_true, if_true, Nat.add_zero, Bool.and_true,
          wordBytes_zero, List.nil_append] at hx hrel2 hpre ⊢
        subst hpre
        by_cases hp : cur.pending = true
        · simp only [stepJitter, hp, if_true, Out.w32.injEq] at hx hrel2 ⊢
          exact ⟨by rw [hx]; rfl, hrel2⟩
        · have hp' : cur.pending = false := by simpa using hp
          simp only [stepJitter, hp', Bool.false_eq_true, if_false, Out.w32.injEq,
            List.nil_append] at hx hrel2 ⊢
          exact ⟨by rw [hx], hrel2⟩
      · have hk' : (n / 8 == 0) = false := by simpa using hk
        simp only [hk', Bool.and_false, Bool.false_eq_true, if_false, stepJitter,
          Out.w32.injEq] at hx hrel2 ⊢
        exact ⟨by rw [hpre, hx], hrel2⟩
    · simp only [c1, c2, if_false] at hr
      rw [TM.pure_eq_some] at hr
      obtain ⟨hr1, rfl⟩ := hr
      cases hr1
      simp only [stepJitter, c1, c2, if_false]
      exact ⟨by rw [hpre], hrel⟩

theorem opJitter_rel (op : Op) {j : Rng} {rs : List U64} {cur : Cursor} (h : Rel j₀ rs₀ j rs cur)
    {o : Out} {j1 : Rng} {rs1 : List U64} (hr : opJitter j op rs = some ((o, j1), rs1)) :
    o = (stepJitter (jitterStream j₀ rs₀) cur op).1
    ∧ Rel j₀ rs₀ j1 rs1 (stepJitter (jitterStream j₀ rs₀) cur op).2 := by
  cases op with
  | u32 =>
    unfold opJitter at hr
    rw [TM.bind_eq_some] at hr
    obtain ⟨⟨x, j2⟩, rs2, h1, hr⟩ := hr
    rw [TM.pure_eq_some] at hr
    obtain ⟨hr1, rfl⟩ := hr
    cases hr1
    exact nextU32_rel h h1
  | u64 =>
    unfold opJitter at hr
    rw [TM.bind_eq_some] at hr
    obtain ⟨⟨x, j2⟩, rs2, h1, hr⟩ := hr
    rw [TM.pure_eq_some] at hr
    obtain ⟨hr1, rfl⟩ := hr
    cases hr1
    obtain ⟨hv, hrel, -⟩ := nextU64_rel h h1
    exact ⟨by rw [hv]; rfl, hrel⟩
  | fill n =>
    unfold opJitter at hr
    rw [TM.bind_eq_some] at hr
    obtain ⟨⟨x, j2⟩, rs2, h1, hr⟩ := hr
    rw [TM.pure_eq_some] at hr
    obtain ⟨hr1, rfl⟩ := hr
    cases hr1
    exact fill_rel n h h1

theorem runJitter_rel : ∀ (ops : List Op) {j : Rng} {rs : List U64} {cur : Cursor}
    (_ : Rel j₀ rs₀ j rs cur) {outs : List Out} {j1 : Rng} {rs1 : List U64}
    (_ : runJitter j ops rs = some ((outs, j1), rs1)),
    outs = (run (stepJitter (jitterStream j₀ rs₀)) cur ops).1
    ∧ Rel j₀ rs₀ j1 rs1 (run (stepJitter (jitterStream j₀ rs₀)) cur ops).2 := by
  intro ops
  induction ops with
  | nil =>
    intro j rs cur h outs j1 rs1 hr
    unfold runJitter at hr
    rw [TM.pure_eq_some] at hr
    obtain ⟨hr1, rfl⟩ := hr
    cases hr1
    exact ⟨rfl, h⟩
  | cons op ops ih =>
    intro j rs cur h outs j1 rs1 hr
    unfold runJitter at hr
    rw [TM.bind_eq_some] at hr
    obtain ⟨⟨o, j2⟩, rs2, h1, hr⟩ := hr
    rw [TM.bind_eq_some] at hr
    obtain ⟨⟨os, j3⟩, rs3, h2, hr⟩ := hr
    rw [TM.pure_eq_some] at hr
    obtain ⟨hr1, rfl⟩ := hr
    cases hr1
    obtain ⟨ho, hrel⟩ := opJitter_rel op h h1
    obtain ⟨hos, hrel2⟩ := ih hrel h2
    rw [run_cons]
    exact ⟨by rw [ho, hos], hrel2⟩

end sim

/-- **C05 for JitterRng.**  From any state with no half pending and any timer script: if the
    history returns (the script does not run out), its outputs are those of `stepJitter`
    over the native stream, and the final generator state and the remaining script are
    exactly those after `pos` native `next_u64` calls (`half_used` = `pending`). -/
theorem jitter_refines (j : Rng) (hj : j.halfUsed = false) (rs : List U64) (ops : List Op)
    (outs : List Out) (j' : Rng) (rs' : List U64)
    (hr : runJitter j ops rs = some ((outs, j'), rs')) :
    outs = (run (stepJitter (jitterStream j rs)) ⟨0, false⟩ ops).1
    ∧ ∃ jn, natState j rs (run (stepJitter (jitterStream j rs)) ⟨0, false⟩ ops).2.pos = some (jn, rs')
        ∧ j' = { jn with halfUsed := (run (stepJitter (jitterStream j rs)) ⟨0, false⟩ ops).2.pending } := by
  have h0 : Rel j rs j rs ⟨0, false⟩ :=
    ⟨j, rfl, hj, (rng_eta j hj).symm, fun hf => by cases hf⟩
  obtain ⟨h1, jn, h2, -, h3, -⟩ := runJitter_rel ops h0 hr
  exact ⟨h1, jn, h2, h3⟩

end JitterRefine
end Rngs
