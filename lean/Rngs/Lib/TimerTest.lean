/-
  Rngs.Lib.TimerTest — lemmas for C13: `Jitter.testTimer` against `Rngs.Spec.TimerTest`.
-/
import Rngs.Spec.TimerTest
import Rngs.Lib.JitterRefine
namespace Rngs.TimerTestLib
open Rngs Rngs.Spec Rngs.Spec.TimerTest

/-! ## the rounds estimate -/

theorem bitlen_spec (m : Nat) (h : 0 < m) : 2 ^ (bitlen m - 1) ≤ m ∧ m < 2 ^ bitlen m := by
  unfold bitlen
  exact ⟨(Nat.le_log2 (by omega)).mp (by simp), Nat.lt_log2_self⟩

/-- rows 2..15 of the lookup table -/
theorem roundsOf_table (m : Nat) (h2 : 2 ≤ m) (h16 : m < 16) :
    1 ≤ Jitter.LOG2_LOOKUP.getD m 0 ∧ Jitter.LOG2_LOOKUP.getD m 0 ≤ 128 ∧
      128 ≤ Jitter.LOG2_LOOKUP.getD m 0 * bitlen m := by
  have : m = 2 ∨ m = 3 ∨ m = 4 ∨ m = 5 ∨ m = 6 ∨ m = 7 ∨ m = 8 ∨ m = 9 ∨ m = 10 ∨ m = 11 ∨
      m = 12 ∨ m = 13 ∨ m = 14 ∨ m = 15 := by omega
  rcases this with h | h | h | h | h | h | h | h | h | h | h | h | h | h <;> subst h <;> decide

/-- the formula `roundup(128 / bitlen)` for a mean of at least 16 -/
theorem roundsOf_formula (L : Nat) (h5 : 5 ≤ L) :
    1 ≤ ((64 * 2 + L - 1) / L) % 256 ∧ ((64 * 2 + L - 1) / L) % 256 ≤ 26 ∧
      128 ≤ ((64 * 2 + L - 1) / L) % 256 * L := by
  have hL : 0 < L := by omega
  have ha : 64 * 2 + L - 1 = 127 + L := by omega
  rw [ha]
  have hdm := Nat.div_add_mod (127 + L) L
  have hml := Nat.mod_lt (127 + L) hL
  generalize (127 + L) / L = q at *
  generalize (127 + L) % L = m at *
  have hq26 : q ≤ 26 := by
    rcases Nat.lt_or_ge q 27 with h | h
    · omega
    · have := Nat.mul_le_mul_left L h
      omega
  have hq1 : 1 ≤ q := by
    rcases Nat.eq_zero_or_pos q with h | h
    · subst h; rw [Nat.mul_zero] at hdm; omega
    · exact h
  have : q % 256 = q := Nat.mod_eq_of_lt (by omega)
  rw [this]
  refine ⟨hq1, hq26, ?_⟩
  rw [Nat.mul_comm]; omega

/-- **The rounds estimate is usable.**  For every `delta_sum` that passes the `TinyVariations`
    check: `1 ≤ r ≤ 128` and `r · bitlen(mean) ≥ 128`. -/
theorem roundsOf_sound (deltaSum : Nat) (h : 2 * Jitter.TESTLOOPCOUNT ≤ deltaSum) :
    1 ≤ Jitter.roundsOf deltaSum ∧ Jitter.roundsOf deltaSum ≤ 128 ∧
      128 ≤ Jitter.roundsOf deltaSum * bitlen (deltaSum / Jitter.TESTLOOPCOUNT) := by
  have hm : 2 ≤ deltaSum / Jitter.TESTLOOPCOUNT := by
    rw [Nat.le_div_iff_mul_le (by decide)]; exact h
  unfold Jitter.roundsOf
  generalize deltaSum / Jitter.TESTLOOPCOUNT = m at *
  by_cases h16 : m ≥ 16
  · simp only [h16, if_true]
    have hl : 4 ≤ Nat.log2 m := (Nat.le_log2 (by omega)).mpr (by simpa using h16)
    have := roundsOf_formula (Nat.log2 m + 1) (by omega)
    unfold bitlen
    omega
  · simp only [h16, if_false]
    exact roundsOf_table m hm (by omega)

/-! ## the checks after the loop -/

theorem verdict_ok (p : Jitter.Probe) (r : Nat) (h : Jitter.verdict p = .ok r) :
    ¬ p.timeBackwards > 3 ∧ ¬ p.deltaSum < 2 * Jitter.TESTLOOPCOUNT ∧
      ¬ p.countMod > Jitter.TESTLOOPCOUNT * 9 / 10 ∧ ¬ p.countStuck > Jitter.TESTLOOPCOUNT * 9 / 10 ∧
      r = Jitter.roundsOf p.deltaSum := by
  unfold Jitter.verdict at h
  split at h
  · cases h
  · split at h
    · cases h
    · split at h
      · cases h
      · split at h
        · cases h
        · simp only [Except.ok.injEq] at h
          exact ⟨by assumption, by assumption, by assumption, by assumption, h.symm⟩

theorem verdict_error (p : Jitter.Probe) (e : Jitter.TimerError) (h : Jitter.verdict p = .error e) :
    match e with
    | .NoTimer => False
    | .CoarseTimer => p.countMod > Jitter.TESTLOOPCOUNT * 9 / 10
    | .NotMonotonic => p.timeBackwards > 3
    | .TinyVariations => p.deltaSum < 2 * Jitter.TESTLOOPCOUNT
    | .TooManyStuck => p.countStuck > Jitter.TESTLOOPCOUNT * 9 / 10 := by
  unfold Jitter.verdict at h
  split at h
  · cases h; assumption
  · split at h
    · cases h; assumption
    · split at h
      · cases h; assumption
      · split at h
        · cases h; assumption
        · cases h

/-- `verdict` is total with these five outcomes, in this order of precedence -/
theorem verdict_ok_iff (p : Jitter.Probe) :
    (∃ r, Jitter.verdict p = .ok r) ↔
      (¬ p.timeBackwards > 3 ∧ ¬ p.deltaSum < 2 * Jitter.TESTLOOPCOUNT ∧
        ¬ p.countMod > Jitter.TESTLOOPCOUNT * 9 / 10 ∧ ¬ p.countStuck > Jitter.TESTLOOPCOUNT * 9 / 10) := by
  constructor
  · rintro ⟨r, h⟩
    obtain ⟨a, b, c, d, _⟩ := verdict_ok p r h
    exact ⟨a, b, c, d⟩
  · rintro ⟨a, b, c, d⟩
    exact ⟨Jitter.roundsOf p.deltaSum, by simp only [Jitter.verdict, a, b, c, d, if_false]⟩

/-! ## the probe loop -/

open Rngs.JitterRefine

/-- the accumulator update of one counted probe, as the model writes it -/
def upd (ec : Jitter.Ec) (p : Jitter.Probe) (t t2 : U64) : Jitter.Probe :=
  let delta : U32 := (t2 - t).setWidth 32
  let st := (Jitter.stuck ec delta).1
  let p := if st then { p with countStuck := p.countStuck + 1 } else p
  let p := if t2 ≤ t then { p with timeBackwards := p.timeBackwards + 1 } else p
  let p := if delta.toInt % 100 == 0 then { p with countMod := p.countMod + 1 } else p
  { p with deltaSum := p.deltaSum + (delta.toInt - p.oldDelta.toInt).natAbs, oldDelta := delta }

theorem ite_pure_apply' {α : Type} (c : Prop) [Decidable c] (x : α) (y : Jitter.TM α) (rs : List U64) :
    (if c then (pure x : Jitter.TM α) else y) rs = if c then some (x, rs) else y rs := by
  split <;> rfl

theorem probeLoop_cons (n i : Nat) (j : Jitter.Rng) (ec : Jitter.Ec) (p : Jitter.Probe)
    (t a b t2 : U64) (rest : List U64) :
    ∃ j' : Jitter.Rng, Jitter.probeLoop (n + 1) i j ec p (t :: a :: b :: t2 :: rest) =
      if (t == 0 || t2 == 0) = true then some ((.error .NoTimer, j'), rest)
      else if ((t2 - t).setWidth 32 == (0 : U32)) = true then some ((.error .CoarseTimer, j'), rest)
      else if i < Jitter.CLEARCACHE then Jitter.probeLoop n (i + 1) j' ec p rest
      else Jitter.probeLoop n (i + 1) j' (Jitter.stuck ec ((t2 - t).setWidth 32)).2 (upd ec p t t2) rest := by
  obtain ⟨mp, hm⟩ := memaccess_true_cons j a (b :: t2 :: rest)
  refine ⟨{ j with data := Jitter.lfsr j.data t, memPrevIndex := mp }, ?_⟩
  rw [Jitter.probeLoop]
  simp only [bind, StateT.bind, tick_cons, Option.bind_some, hm, lfsrTime_true_cons]
  rw [ite_pure_apply']
  split
  · rfl
  · rw [ite_pure_apply']
    split
    · rfl
    · split <;> rfl

theorem probeLoop_zero (i : Nat) (j : Jitter.Rng) (ec : Jitter.Ec) (p : Jitter.Probe) (rs : List U64) :
    Jitter.probeLoop 0 i j ec p rs = some ((.ok p, j), rs) := rfl

theorem probeLoop_short (n i : Nat) (j : Jitter.Rng) (ec : Jitter.Ec) (p : Jitter.Probe) (rs : List U64)
    (h : rs.length < 4) : Jitter.probeLoop (n + 1) i j ec p rs = none := by
  rw [Jitter.probeLoop]
  match rs, h with
  | [], _ => rfl
  | [t], _ => simp only [bind, StateT.bind, tick_cons, Option.bind_some, memaccess_true_nil]; rfl
  | [t, a], _ =>
    obtain ⟨mp, hm⟩ := memaccess_true_cons j a []
    simp only [bind, StateT.bind, tick_cons, Option.bind_some, hm, lfsrTime_true_nil]; rfl
  | [t, a, b], _ =>
    obtain ⟨mp, hm⟩ := memaccess_true_cons j a [b]
    simp only [bind, StateT.bind, tick_cons, Option.bind_some, hm, lfsrTime_true_cons, tick_nil]; rfl

/-- the probe loop as a function of the probes alone -/
def scan : Nat → Jitter.Ec → Jitter.Probe → List (U64 × U64) → Except Jitter.TimerError Jitter.Probe
  | _, _, p, [] => .ok p
  | i, ec, p, pr :: ps =>
    if (pr.1 == 0 || pr.2 == 0) = true then .error .NoTimer
    else if (delta32 pr == (0 : U32)) = true then .error .CoarseTimer
    else if i < Jitter.CLEARCACHE then scan (i + 1) ec p ps
    else scan (i + 1) (Jitter.stuck ec (delta32 pr)).2 (upd ec p pr.1 pr.2) ps

theorem probeLoop_eq : ∀ (n i : Nat) (j : Jitter.Rng) (ec : Jitter.Ec) (p : Jitter.Probe) (rs : List U64)
    (r : Except Jitter.TimerError Jitter.Probe) (j' : Jitter.Rng) (rs' : List U64),
    Jitter.probeLoop n i j ec p rs = some ((r, j'), rs') →
    r = scan i ec p (probesFrom n rs) ∧
      (∀ P, r = .ok P → (probesFrom n rs).length = n ∧ rs.length = rs'.length + 4 * n)
  | 0, i, j, ec, p, rs, r, j', rs', h => by
    rw [probeLoop_zero] at h
    simp only [Option.some.injEq, Prod.mk.injEq] at h
    obtain ⟨⟨h1, _⟩, h3⟩ := h
    subst h1 h3
    have : probesFrom 0 rs = [] := by unfold probesFrom; rfl
    rw [this]
    exact ⟨rfl, fun _ _ => ⟨rfl, rfl⟩⟩
  | n + 1, i, j, ec, p, rs, r, j', rs', h => by
    match rs, h with
    | [], h => rw [probeLoop_short _ _ _ _ _ _ (by simp)] at h; cases h
    | [_], h => rw [probeLoop_short _ _ _ _ _ _ (by simp)] at h; cases h
    | [_, _], h => rw [probeLoop_short _ _ _ _ _ _ (by simp)] at h; cases h
    | [_, _, _], h => rw [probeLoop_short _ _ _ _ _ _ (by simp)] at h; cases h
    | t :: a :: b :: t2 :: rest, h =>
      obtain ⟨j1, hj⟩ := probeLoop_cons n i j ec p t a b t2 rest
      rw [hj] at h
      have hp : probesFrom (n + 1) (t :: a :: b :: t2 :: rest) = (t, t2) :: probesFrom n rest := by
        rw [probesFrom]
      rw [hp, scan]
      show r = (if (t == 0 || t2 == 0) = true then _ else if ((t2 - t).setWidth 32 == (0 : U32)) = true then _
        else if i < Jitter.CLEARCACHE then _ else _) ∧ _
      split at h
      · rename_i c1
        simp only [Option.some.injEq, Prod.mk.injEq] at h
        rw [if_pos c1, ← h.1.1]
        exact ⟨rfl, fun _ hP => by cases hP⟩
      · rename_i c1
        rw [if_neg c1]
        split at h
        · rename_i c2
          simp only [Option.some.injEq, Prod.mk.injEq] at h
          rw [if_pos c2, ← h.1.1]
          exact ⟨rfl, fun _ hP => by cases hP⟩
        · rename_i c2
          rw [if_neg c2]
          split at h
          · rename_i c3
            rw [if_pos c3]
            obtain ⟨e1, e2⟩ := probeLoop_eq n (i + 1) j1 ec p rest r j' rs' h
            refine ⟨e1, fun P hP => ?_⟩
            obtain ⟨l1, l2⟩ := e2 P hP
            simp only [List.length_cons]; omega
          · rename_i c3
            rw [if_neg c3]
            obtain ⟨e1, e2⟩ := probeLoop_eq n (i + 1) j1 _ _ rest r j' rs' h
            refine ⟨e1, fun P hP => ?_⟩
            obtain ⟨l1, l2⟩ := e2 P hP
            simp only [List.length_cons]; omega

/-! ## what the loop accumulates -/

theorem upd_timeBackwards (ec : Jitter.Ec) (p : Jitter.Probe) (t t2 : U64) :
    (upd ec p t t2).timeBackwards = p.timeBackwards + if t2 ≤ t then 1 else 0 := by
  unfold upd; dsimp only
  split <;> split <;> split <;> simp_all

theorem upd_countMod (ec : Jitter.Ec) (p : Jitter.Probe) (t t2 : U64) :
    (upd ec p t t2).countMod = p.countMod + if (delta (t, t2) % 100 = 0) then 1 else 0 := by
  unfold upd delta delta32; dsimp only
  split <;> split <;> split <;> simp_all

theorem upd_countStuck (ec : Jitter.Ec) (p : Jitter.Probe) (t t2 : U64) :
    (upd ec p t t2).countStuck = p.countStuck + if (Jitter.stuck ec (delta32 (t, t2))).1 then 1 else 0 := by
  unfold upd delta32; dsimp only
  split <;> split <;> split <;> simp_all

theorem upd_deltaSum (ec : Jitter.Ec) (p : Jitter.Probe) (t t2 : U64) :
    (upd ec p t t2).deltaSum = p.deltaSum + (delta (t, t2) - p.oldDelta.toInt).natAbs := by
  unfold upd delta delta32; dsimp only
  split <;> split <;> split <;> simp_all

theorem upd_oldDelta (ec : Jitter.Ec) (p : Jitter.Probe) (t t2 : U64) :
    (upd ec p t t2).oldDelta = delta32 (t, t2) := by
  unfold upd delta32; rfl

/-- the counted phase -/
def acc : Jitter.Ec → Jitter.Probe → List (U64 × U64) → Jitter.Probe
  | _, p, [] => p
  | ec, p, pr :: ps => acc (Jitter.stuck ec (delta32 pr)).2 (upd ec p pr.1 pr.2) ps

theorem scan_error : ∀ (ps : List (U64 × U64)) (i : Nat) (ec : Jitter.Ec) (p : Jitter.Probe)
    (e : Jitter.TimerError), scan i ec p ps = .error e →
    (e = .NoTimer ∧ ∃ pr ∈ ps, pr.1 = 0 ∨ pr.2 = 0) ∨ (e = .CoarseTimer ∧ ∃ pr ∈ ps, delta32 pr = 0)
  | [], i, ec, p, e, h => by simp [scan] at h
  | pr :: ps, i, ec, p, e, h => by
    rw [scan] at h
    split at h
    · rename_i c1
      simp only [Except.error.injEq] at h
      refine Or.inl ⟨h.symm, pr, by simp, ?_⟩
      simpa using c1
    · split at h
      · rename_i c2
        simp only [Except.error.injEq] at h
        refine Or.inr ⟨h.symm, pr, by simp, ?_⟩
        simpa using c2
      · split at h
        · rcases scan_error ps _ _ _ e h with ⟨h1, q, hq, hz⟩ | ⟨h1, q, hq, hz⟩
          · exact Or.inl ⟨h1, q, by simp [hq], hz⟩
          · exact Or.inr ⟨h1, q, by simp [hq], hz⟩
        · rcases scan_error ps _ _ _ e h with ⟨h1, q, hq, hz⟩ | ⟨h1, q, hq, hz⟩
          · exact Or.inl ⟨h1, q, by simp [hq], hz⟩
          · exact Or.inr ⟨h1, q, by simp [hq], hz⟩

theorem scan_ok : ∀ (ps : List (U64 × U64)) (i : Nat) (ec : Jitter.Ec) (p P : Jitter.Probe),
    scan i ec p ps = .ok P →
    (∀ pr ∈ ps, pr.1 ≠ 0 ∧ pr.2 ≠ 0 ∧ delta32 pr ≠ 0) ∧ P = acc ec p (ps.drop (Jitter.CLEARCACHE - i))
  | [], i, ec, p, P, h => by
    simp only [scan, Except.ok.injEq] at h
    subst h
    simp [acc]
  | pr :: ps, i, ec, p, P, h => by
    rw [scan] at h
    split at h
    · cases h
    · rename_i c1
      split at h
      · cases h
      · rename_i c2
        have hpr : pr.1 ≠ 0 ∧ pr.2 ≠ 0 ∧ delta32 pr ≠ 0 := by
          simp only [Bool.or_eq_true, beq_iff_eq, not_or] at c1 c2
          exact ⟨c1.1, c1.2, c2⟩
        split at h
        · rename_i c3
          obtain ⟨h1, h2⟩ := scan_ok ps _ _ _ P h
          refine ⟨?_, ?_⟩
          · intro q hq
            rcases List.mem_cons.mp hq with rfl | hq
            · exact hpr
            · exact h1 q hq
          · have : Jitter.CLEARCACHE - i = (Jitter.CLEARCACHE - (i + 1)) + 1 := by omega
            rw [this, List.drop_succ_cons]; exact h2
        · rename_i c3
          obtain ⟨h1, h2⟩ := scan_ok ps _ _ _ P h
          refine ⟨?_, ?_⟩
          · intro q hq
            rcases List.mem_cons.mp hq with rfl | hq
            · exact hpr
            · exact h1 q hq
          · have e0 : Jitter.CLEARCACHE - i = 0 := by omega
            have e1 : Jitter.CLEARCACHE - (i + 1) = 0 := by omega
            rw [e1, List.drop_zero] at h2
            rw [e0, List.drop_zero, acc]; exact h2

theorem acc_timeBackwards : ∀ (ps : List (U64 × U64)) (ec : Jitter.Ec) (p : Jitter.Probe),
    (acc ec p ps).timeBackwards = p.timeBackwards + ps.countP fun pr => decide (pr.2 ≤ pr.1)
  | [], _, _ => by simp [acc]
  | pr :: ps, ec, p => by
    rw [acc, acc_timeBackwards ps, upd_timeBackwards, List.countP_cons]
    by_cases h : pr.2 ≤ pr.1 <;> simp [h] <;> omega

theorem acc_countMod : ∀ (ps : List (U64 × U64)) (ec : Jitter.Ec) (p : Jitter.Probe),
    (acc ec p ps).countMod = p.countMod + ps.countP fun pr => decide (delta pr % 100 = 0)
  | [], _, _ => by simp [acc]
  | pr :: ps, ec, p => by
    rw [acc, acc_countMod ps, upd_countMod, List.countP_cons]
    by_cases h : delta pr % 100 = 0 <;> simp [h] <;> omega

/-- Σ |δᵢ − δᵢ₋₁| with an arbitrary previous delta -/
def absDiffs (prev : Int) (ds : List Int) : Nat :=
  (List.zipWith (fun prev cur => (cur - prev).natAbs) (prev :: ds) ds).sum

theorem absDiffs_cons (prev d : Int) (ds : List Int) :
    absDiffs prev (d :: ds) = (d - prev).natAbs + absDiffs d ds := by
  simp [absDiffs, List.zipWith_cons_cons]

theorem acc_deltaSum : ∀ (ps : List (U64 × U64)) (ec : Jitter.Ec) (p : Jitter.Probe),
    (acc ec p ps).deltaSum = p.deltaSum + absDiffs p.oldDelta.toInt (ps.map delta)
  | [], _, _ => by simp [acc, absDiffs]
  | pr :: ps, ec, p => by
    rw [acc, acc_deltaSum ps, upd_deltaSum, upd_oldDelta, List.map_cons, absDiffs_cons]
    simp only [delta, Nat.add_assoc]

/-- the stuck flags of a delta list from arbitrary `last_delta`, `last_delta2` -/
def flagsFrom (d1 e1 : U32) (ds : List U32) : List Bool :=
  let es := List.zipWith (fun prev cur => prev - cur) (d1 :: ds) ds
  let fs := List.zipWith (fun prev cur => cur - prev) (e1 :: es) es
  List.zipWith (fun d ef => d == 0#32 || ef.1 == 0#32 || ef.2 == 0#32) ds (List.zip es fs)

theorem flagsFrom_cons (d1 e1 d : U32) (ds : List U32) :
    flagsFrom d1 e1 (d :: ds) =
      (d == 0#32 || d1 - d == 0#32 || d1 - d - e1 == 0#32) :: flagsFrom d (d1 - d) ds := by
  simp only [flagsFrom, List.zipWith_cons_cons, List.zip_cons_cons]

theorem stuckFlags_eq (ds : List U32) : JitterProc.stuckFlags ds = flagsFrom 0 0 ds := rfl

theorem acc_countStuck : ∀ (ps : List (U64 × U64)) (ec : Jitter.Ec) (p : Jitter.Probe),
    (acc ec p ps).countStuck =
      p.countStuck + (flagsFrom ec.lastDelta ec.lastDelta2 (ps.map delta32)).countP id
  | [], _, _ => by simp [acc, flagsFrom]
  | pr :: ps, ec, p => by
    rw [acc, acc_countStuck ps, upd_countStuck, List.map_cons, flagsFrom_cons, List.countP_cons]
    show _ + _ + List.countP id (flagsFrom (delta32 pr) (ec.lastDelta - delta32 pr) _) = _
    have : (Jitter.stuck ec (delta32 (pr.1, pr.2))).1 =
        (delta32 pr == 0#32 || ec.lastDelta - delta32 pr == 0#32 ||
          ec.lastDelta - delta32 pr - ec.lastDelta2 == 0#32) := rfl
    rw [this]
    simp only [id]
    omega

/-! ## `test_timer` -/

theorem testTimer_nil (j : Jitter.Rng) : Jitter.testTimer j [] = none := rfl

theorem testTimer_cons (j : Jitter.Rng) (t0 : U64) (rs : List U64) :
    Jitter.testTimer j (t0 :: rs) =
      (Jitter.probeLoop 400 0 j ⟨t0, 0, 0⟩ {} rs).bind fun x =>
        match x.1.1 with
        | .error e => some ((.error e, x.1.2), x.2)
        | .ok p => some ((Jitter.verdict p, x.1.2), x.2) := by
  unfold Jitter.testTimer
  simp only [bind, StateT.bind, tick_cons, Option.bind_some]
  show (Jitter.probeLoop 400 0 j ⟨t0, 0, 0⟩ {} rs).bind _ = _
  congr 1
  funext x
  rcases x with ⟨⟨r, j1⟩, rs1⟩
  cases r <;> rfl

/-- the initial collector state and accumulators of `test_timer` -/
def ec0 (t0 : U64) : Jitter.Ec := ⟨t0, 0, 0⟩

/-- `test_timer`, when the script does not run out, is `scan` over the probes followed by
    `verdict`; a run that reaches `verdict` has read all 1 + 4·400 values -/
theorem testTimer_some (j : Jitter.Rng) (rs : List U64) (res : Except Jitter.TimerError Nat)
    (j' : Jitter.Rng) (rs' : List U64) (h : Jitter.testTimer j rs = some ((res, j'), rs')) :
    ∃ t0 rest, rs = t0 :: rest ∧
      ((∃ e, scan 0 (ec0 t0) {} (probes rs) = .error e ∧ res = .error e) ∨
       (∃ P, scan 0 (ec0 t0) {} (probes rs) = .ok P ∧ res = Jitter.verdict P ∧
          (probes rs).length = 400 ∧ rs.length = rs'.length + 1601)) := by
  rcases rs with _ | ⟨t0, rest⟩
  · rw [testTimer_nil] at h; cases h
  · refine ⟨t0, rest, rfl, ?_⟩
    rw [testTimer_cons] at h
    rcases hp : Jitter.probeLoop 400 0 j ⟨t0, 0, 0⟩ {} rest with _ | ⟨⟨r, j1⟩, rs1⟩
    · rw [hp] at h; cases h
    · rw [hp, Option.bind_some] at h
      obtain ⟨e1, e2⟩ := probeLoop_eq 400 0 j ⟨t0, 0, 0⟩ {} rest r j1 rs1 hp
      have hpr : probes (t0 :: rest) = probesFrom 400 rest := rfl
      rcases r with e | P
      · simp only [Option.some.injEq, Prod.mk.injEq] at h
        exact Or.inl ⟨e, by rw [hpr]; exact e1.symm, h.1.1.symm⟩
      · simp only [Option.some.injEq, Prod.mk.injEq] at h
        obtain ⟨l1, l2⟩ := e2 P rfl
        refine Or.inr ⟨P, by rw [hpr]; exact e1.symm, h.1.1.symm, by rw [hpr, l1], ?_⟩
        rw [← h.2]; simp only [List.length_cons]; omega

theorem delta_zero_iff (pr : U64 × U64) : delta pr = 0 ↔ delta32 pr = 0 := by
  unfold delta
  rw [← BitVec.toInt_zero (w := 32), BitVec.toInt_inj]; rfl

theorem scan_ok_spec (t0 : U64) (rs : List U64) (P : Jitter.Probe)
    (h : scan 0 (ec0 t0) {} (probes rs) = .ok P) :
    ¬ ZeroReading rs ∧ ¬ ZeroDelta rs ∧ P.timeBackwards = backwards rs ∧ P.countMod = mod100 rs ∧
      P.deltaSum = deltaSum rs ∧ P.countStuck = stuckCount rs := by
  obtain ⟨h1, h2⟩ := scan_ok _ _ _ _ _ h
  have hc : List.drop (Jitter.CLEARCACHE - 0) (probes rs) = counted rs := rfl
  rw [hc] at h2
  refine ⟨?_, ?_, ?_, ?_, ?_, ?_⟩
  · rintro ⟨pr, hpr, hz⟩
    obtain ⟨a, b, _⟩ := h1 pr hpr
    rcases hz with hz | hz
    · exact a hz
    · exact b hz
  · rintro ⟨pr, hpr, hz⟩
    exact (h1 pr hpr).2.2 ((delta_zero_iff pr).mp hz)
  · rw [h2, acc_timeBackwards]; simp [backwards]
  · rw [h2, acc_countMod]; simp [mod100]
  · rw [h2, acc_deltaSum]
    show 0 + absDiffs (BitVec.toInt 0#32) _ = _
    rw [BitVec.toInt_zero, Nat.zero_add]; rfl
  · rw [h2, acc_countStuck]
    show 0 + _ = _
    rw [Nat.zero_add]; rfl

theorem scan_error_spec (t0 : U64) (rs : List U64) (e : Jitter.TimerError)
    (h : scan 0 (ec0 t0) {} (probes rs) = .error e) : holds e rs := by
  rcases scan_error _ _ _ _ _ h with ⟨he, pr, hpr, hz⟩ | ⟨he, pr, hpr, hz⟩
  · subst he; exact ⟨pr, hpr, hz⟩
  · subst he; exact Or.inl ⟨pr, hpr, (delta_zero_iff pr).mpr hz⟩

end Rngs.TimerTestLib
