/-
  Rngs.Lib.XorLinear — the GF(2)-vector-space structure of the xoshiro/xoroshiro/XorShift state
  types, additive maps, "an additive map that vanishes on the one-bit states vanishes
  everywhere", and additivity of the seven engines.  Core Lean only.
-/
import Rngs.Model.XorShift
namespace Rngs

/-- An abstract GF(2) vector space: `xor` is an abelian group law of exponent 2. -/
class XorSpace (σ : Type) where
  xor : σ → σ → σ
  zero : σ
  xor_assoc : ∀ a b c, xor (xor a b) c = xor a (xor b c)
  xor_comm : ∀ a b, xor a b = xor b a
  xor_zero : ∀ a, xor a zero = a
  xor_self : ∀ a, xor a a = zero

namespace XorSpace
variable {σ : Type} [XorSpace σ]

theorem zero_xor (a : σ) : xor zero a = a := by rw [xor_comm, xor_zero]

theorem xor_left_comm (a b c : σ) : xor a (xor b c) = xor b (xor a c) := by
  rw [← xor_assoc, xor_comm a b, xor_assoc]

theorem xor_xor_cancel_left (a b : σ) : xor a (xor a b) = b := by
  rw [← xor_assoc, xor_self, zero_xor]

theorem xor_eq_zero_iff {a b : σ} : xor a b = zero ↔ a = b := by
  constructor
  · intro h
    have : xor a (xor a b) = xor a zero := by rw [h]
    rw [xor_xor_cancel_left, xor_zero] at this
    exact this.symm
  · intro h; rw [h, xor_self]

/-- the four-term exchange `(a+b)+(c+d) = (a+c)+(b+d)` -/
theorem xor_xor_xor_comm (a b c d : σ) : xor (xor a b) (xor c d) = xor (xor a c) (xor b d) := by
  rw [xor_assoc, xor_assoc, xor_left_comm b c d]

end XorSpace

open XorSpace

/-- `T` is additive (GF(2)-linear). -/
def IsAdd {σ τ : Type} [XorSpace σ] [XorSpace τ] (T : σ → τ) : Prop :=
  ∀ a b, T (xor a b) = xor (T a) (T b)

namespace IsAdd
variable {σ τ υ : Type} [XorSpace σ] [XorSpace τ] [XorSpace υ]

theorem map_zero {T : σ → τ} (h : IsAdd T) : T zero = zero := by
  have h1 : T zero = xor (T zero) (T zero) := by
    have := h zero zero
    rwa [xor_zero] at this
  exact (xor_xor_cancel_left (T zero) (T zero)).symm.trans (xor_eq_zero_iff.mpr h1)

theorem comp {T : τ → υ} {U : σ → τ} (hT : IsAdd T) (hU : IsAdd U) : IsAdd (fun s => T (U s)) :=
  fun a b => by show T (U (xor a b)) = _; rw [hU, hT]

theorem id : IsAdd (fun s : σ => s) := fun _ _ => rfl

theorem xor' {T U : σ → τ} (hT : IsAdd T) (hU : IsAdd U) : IsAdd (fun s => xor (T s) (U s)) :=
  fun a b => by
    show xor (T (xor a b)) (U (xor a b)) = _
    rw [hT, hU, xor_xor_xor_comm]

theorem const_zero : IsAdd (fun _ : σ => (zero : τ)) := fun _ _ => by rw [xor_zero]

end IsAdd

/-! ## instances -/

instance instXorSpaceBitVec (w : Nat) : XorSpace (BitVec w) where
  xor a b := a ^^^ b
  zero := 0
  xor_assoc := BitVec.xor_assoc
  xor_comm := BitVec.xor_comm
  xor_zero _ := BitVec.xor_zero
  xor_self _ := BitVec.xor_self

instance instXorSpaceS2 (w : Nat) : XorSpace (S2 w) where
  xor := S2.xor
  zero := S2.zero
  xor_assoc a b c := by simp [S2.xor, BitVec.xor_assoc]
  xor_comm a b := by simp [S2.xor, BitVec.xor_comm]
  xor_zero a := by simp [S2.xor, S2.zero]
  xor_self a := by simp [S2.xor, S2.zero]

instance instXorSpaceS4 (w : Nat) : XorSpace (S4 w) where
  xor := S4.xor
  zero := S4.zero
  xor_assoc a b c := by simp [S4.xor, BitVec.xor_assoc]
  xor_comm a b := by simp [S4.xor, BitVec.xor_comm]
  xor_zero a := by simp [S4.xor, S4.zero]
  xor_self a := by simp [S4.xor, S4.zero]

instance instXorSpaceS8 : XorSpace S8 where
  xor := S8.xor
  zero := S8.zero
  xor_assoc a b c := by simp [S8.xor, BitVec.xor_assoc]
  xor_comm a b := by simp [S8.xor, BitVec.xor_comm]
  xor_zero a := by simp [S8.xor, S8.zero]
  xor_self a := by simp [S8.xor, S8.zero]

/-! ## the one-bit basis of `BitVec w` -/

/-- the part of `x` below bit `k`, as an explicit xor of one-bit pieces -/
def lowPart {w : Nat} (x : BitVec w) : Nat → BitVec w
  | 0 => 0
  | k + 1 => lowPart x k ^^^ (x &&& BitVec.twoPow w k)

theorem getLsbD_lowPart {w : Nat} (x : BitVec w) (k j : Nat) :
    (lowPart x k).getLsbD j = (x.getLsbD j && decide (j < k)) := by
  induction k with
  | zero => simp [lowPart]
  | succ k ih =>
    simp only [lowPart, BitVec.getLsbD_xor, ih, BitVec.getLsbD_and, BitVec.getLsbD_twoPow]
    by_cases hjk : j < k
    · have : k ≠ j := by omega
      have h2 : j < k + 1 := by omega
      simp [hjk, this, h2]
    · by_cases hj : k = j
      · subst hj
        by_cases hw : k < w
        · simp [hw]
        · have : x.getLsbD k = false := BitVec.getLsbD_of_ge x k (by omega)
          simp [this]
      · have h2 : ¬ j < k + 1 := by omega
        simp [hjk, hj, h2]

theorem lowPart_full {w : Nat} (x : BitVec w) : lowPart x w = x := by
  apply BitVec.eq_of_getLsbD_eq
  intro i hi
  rw [getLsbD_lowPart]
  simp [hi]

/-- An additive map on `BitVec w` that vanishes on every `twoPow w i` (`i < w`) is zero. -/
theorem IsAdd.eq_zero_of_basis {w : Nat} {τ : Type} [XorSpace τ] {f : BitVec w → τ}
    (hf : IsAdd f) (hb : ∀ i, i < w → f (BitVec.twoPow w i) = zero) (x : BitVec w) :
    f x = zero := by
  have key : ∀ k, k ≤ w → f (lowPart x k) = zero := by
    intro k
    induction k with
    | zero => intro _; exact hf.map_zero
    | succ k ih =>
      intro hk
      have h1 : lowPart x (k + 1) = XorSpace.xor (lowPart x k) (x &&& BitVec.twoPow w k) := rfl
      rw [h1, hf, ih (by omega), zero_xor, BitVec.and_twoPow]
      split
      · exact hb k (by omega)
      · exact hf.map_zero
  have := key w (Nat.le_refl w)
  rwa [lowPart_full] at this

/-! ## basis statements for the state shapes -/

theorem S2.eq_zero_of_basis {w : Nat} {τ : Type} [XorSpace τ] {f : S2 w → τ} (hf : IsAdd f)
    (h0 : ∀ i, i < w → f ⟨BitVec.twoPow w i, 0⟩ = XorSpace.zero)
    (h1 : ∀ i, i < w → f ⟨0, BitVec.twoPow w i⟩ = XorSpace.zero) (s : S2 w) : f s = XorSpace.zero := by
  have e : s = XorSpace.xor (⟨s.s0, 0⟩ : S2 w) ⟨0, s.s1⟩ := by
    cases s; simp [XorSpace.xor, S2.xor]
  rw [e, hf]
  have a0 : f ⟨s.s0, 0⟩ = XorSpace.zero :=
    IsAdd.eq_zero_of_basis (f := fun a => f ⟨a, 0⟩)
      (fun a b => by rw [← hf]; simp [XorSpace.xor, S2.xor]) h0 s.s0
  have a1 : f ⟨0, s.s1⟩ = XorSpace.zero :=
    IsAdd.eq_zero_of_basis (f := fun a => f ⟨0, a⟩)
      (fun a b => by rw [← hf]; simp [XorSpace.xor, S2.xor]) h1 s.s1
  rw [a0, a1, xor_zero]

theorem S4.eq_zero_of_basis {w : Nat} {τ : Type} [XorSpace τ] {f : S4 w → τ} (hf : IsAdd f)
    (h0 : ∀ i, i < w → f ⟨BitVec.twoPow w i, 0, 0, 0⟩ = XorSpace.zero)
    (h1 : ∀ i, i < w → f ⟨0, BitVec.twoPow w i, 0, 0⟩ = XorSpace.zero)
    (h2 : ∀ i, i < w → f ⟨0, 0, BitVec.twoPow w i, 0⟩ = XorSpace.zero)
    (h3 : ∀ i, i < w → f ⟨0, 0, 0, BitVec.twoPow w i⟩ = XorSpace.zero) (s : S4 w) : f s = XorSpace.zero := by
  have e : s = XorSpace.xor (XorSpace.xor (⟨s.s0, 0, 0, 0⟩ : S4 w) ⟨0, s.s1, 0, 0⟩)
      (XorSpace.xor (⟨0, 0, s.s2, 0⟩ : S4 w) ⟨0, 0, 0, s.s3⟩) := by
    cases s; simp [XorSpace.xor, S4.xor]
  rw [e, hf, hf, hf]
  have a0 : f ⟨s.s0, 0, 0, 0⟩ = XorSpace.zero :=
    IsAdd.eq_zero_of_basis (f := fun a => f ⟨a, 0, 0, 0⟩)
      (fun a b => by rw [← hf]; simp [XorSpace.xor, S4.xor]) h0 s.s0
  have a1 : f ⟨0, s.s1, 0, 0⟩ = XorSpace.zero :=
    IsAdd.eq_zero_of_basis (f := fun a => f ⟨0, a, 0, 0⟩)
      (fun a b => by rw [← hf]; simp [XorSpace.xor, S4.xor]) h1 s.s1
  have a2 : f ⟨0, 0, s.s2, 0⟩ = XorSpace.zero :=
    IsAdd.eq_zero_of_basis (f := fun a => f ⟨0, 0, a, 0⟩)
      (fun a b => by rw [← hf]; simp [XorSpace.xor, S4.xor]) h2 s.s2
  have a3 : f ⟨0, 0, 0, s.s3⟩ = XorSpace.zero :=
    IsAdd.eq_zero_of_basis (f := fun a => f ⟨0, 0, 0, a⟩)
      (fun a b => by rw [← hf]; simp [XorSpace.xor, S4.xor]) h3 s.s3
  rw [a0, a1, a2, a3, xor_zero, xor_zero]

/-- the state of `S8` with word `k` (0 ≤ k < 8) equal to `a` and all other words zero -/
def S8.single (k : Nat) (a : U64) : S8 :=
  match k with
  | 0 => ⟨a, 0, 0, 0, 0, 0, 0, 0⟩
  | 1 => ⟨0, a, 0, 0, 0, 0, 0, 0⟩
  | 2 => ⟨0, 0, a, 0, 0, 0, 0, 0⟩
  | 3 => ⟨0, 0, 0, a, 0, 0, 0, 0⟩
  | 4 => ⟨0, 0, 0, 0, a, 0, 0, 0⟩
  | 5 => ⟨0, 0, 0, 0, 0, a, 0, 0⟩
  | 6 => ⟨0, 0, 0, 0, 0, 0, a, 0⟩
  | _ => ⟨0, 0, 0, 0, 0, 0, 0, a⟩

theorem S8.single_add (k : Nat) : IsAdd (S8.single k) := by
  intro a b
  unfold S8.single
  split <;> simp [XorSpace.xor, S8.xor]

theorem S8.eq_zero_of_basis {τ : Type} [XorSpace τ] {f : S8 → τ} (hf : IsAdd f)
    (h : ∀ k, k < 8 → ∀ i, i < 64 → f (S8.single k (BitVec.twoPow 64 i)) = XorSpace.zero) (s : S8) :
    f s = XorSpace.zero := by
  have e : s =
      XorSpace.xor
        (XorSpace.xor (XorSpace.xor (S8.single 0 s.s0) (S8.single 1 s.s1))
          (XorSpace.xor (S8.single 2 s.s2) (S8.single 3 s.s3)))
        (XorSpace.xor (XorSpace.xor (S8.single 4 s.s4) (S8.single 5 s.s5))
          (XorSpace.xor (S8.single 6 s.s6) (S8.single 7 s.s7))) := by
    cases s; simp [XorSpace.xor, S8.xor, S8.single]
  have a : ∀ k, k < 8 → ∀ x, f (S8.single k x) = XorSpace.zero := fun k hk x =>
    IsAdd.eq_zero_of_basis (f := fun a => f (S8.single k a))
      (IsAdd.comp hf (S8.single_add k)) (h k hk) x
  rw [e]
  simp only [hf _ _]
  rw [a 0 (by omega), a 1 (by omega), a 2 (by omega), a 3 (by omega), a 4 (by omega),
    a 5 (by omega), a 6 (by omega), a 7 (by omega)]
  simp only [xor_zero]

/-! ## additivity of the seven engines -/

theorem BitVec.rotateLeft_xor' {w : Nat} (x y : BitVec w) (r : Nat) :
    (x ^^^ y).rotateLeft r = x.rotateLeft r ^^^ y.rotateLeft r := by
  apply BitVec.eq_of_getLsbD_eq
  intro i hi
  simp only [BitVec.getLsbD_rotateLeft, BitVec.getLsbD_xor]
  cases decide (i < r % w) <;> simp [hi]

theorem BitVec.xor_left_comm' {w : Nat} (a b c : BitVec w) : a ^^^ (b ^^^ c) = b ^^^ (a ^^^ c) := by
  rw [← BitVec.xor_assoc, BitVec.xor_comm a b, BitVec.xor_assoc]

theorem xoroshiroU32_add : IsAdd xoroshiroU32 := by
  intro a b
  simp only [xoroshiroU32, XorSpace.xor, S2.xor, BitVec.rotateLeft_xor',
    BitVec.shiftLeft_xor_distrib, S2.mk.injEq]
  refine ⟨?_, ?_⟩ <;>
    simp only [BitVec.xor_comm, BitVec.xor_left_comm']

theorem xoroshiroU64_add : IsAdd xoroshiroU64 := by
  intro a b
  simp only [xoroshiroU64, XorSpace.xor, S2.xor, BitVec.rotateLeft_xor',
    BitVec.shiftLeft_xor_distrib, S2.mk.injEq]
  refine ⟨?_, ?_⟩ <;>
    simp only [BitVec.xor_comm, BitVec.xor_left_comm']

theorem xoroshiroU64pp_add : IsAdd xoroshiroU64pp := by
  intro a b
  simp only [xoroshiroU64pp, XorSpace.xor, S2.xor, BitVec.rotateLeft_xor',
    BitVec.shiftLeft_xor_distrib, S2.mk.injEq]
  refine ⟨?_, ?_⟩ <;>
    simp only [BitVec.xor_comm, BitVec.xor_left_comm']

theorem xoshiroU32_add : IsAdd xoshiroU32 := by
  intro a b
  simp only [xoshiroU32, XorSpace.xor, S4.xor, BitVec.rotateLeft_xor',
    BitVec.shiftLeft_xor_distrib, S4.mk.injEq]
  refine ⟨?_, ?_, ?_, ?_⟩ <;>
    simp only [BitVec.xor_comm, BitVec.xor_left_comm']

theorem xoshiroU64_add : IsAdd xoshiroU64 := by
  intro a b
  simp only [xoshiroU64, XorSpace.xor, S4.xor, BitVec.rotateLeft_xor',
    BitVec.shiftLeft_xor_distrib, S4.mk.injEq]
  refine ⟨?_, ?_, ?_, ?_⟩ <;>
    simp only [BitVec.xor_comm, BitVec.xor_left_comm']

theorem xoshiroLarge_add : IsAdd xoshiroLarge := by
  intro a b
  simp only [xoshiroLarge, XorSpace.xor, S8.xor, BitVec.rotateLeft_xor',
    BitVec.shiftLeft_xor_distrib, S8.mk.injEq]
  refine ⟨?_, ?_, ?_, ?_, ?_, ?_, ?_, ?_⟩ <;>
    simp only [BitVec.xor_comm, BitVec.xor_left_comm']

theorem XorShift.step_add : IsAdd XorShift.step := by
  intro a b
  simp only [XorShift.step, XorShift.nextU32, XorSpace.xor, S4.xor,
    BitVec.shiftLeft_xor_distrib, BitVec.ushiftRight_xor_distrib, S4.mk.injEq]
  refine ⟨trivial, trivial, trivial, ?_⟩
  simp only [BitVec.xor_comm, BitVec.xor_left_comm']

end Rngs
