/-
  Rngs.Model.Hc128 — rand_hc/src/hc128.rs: Hc128Core (init, generate, sixteen_steps,
  step_p, step_q) and Hc128Rng = BlockRng<Hc128Core> with its hand-written PartialEq.
-/
import Rngs.Model.RandCore
namespace Rngs
namespace Hc128

structure Core where
  t : Array U32          -- `[u32; 1024]`: P = t[0..512], Q = t[512..1024]
  counter : Nat          -- `counter1024: usize` (64-bit)

def USIZE : Nat := 2 ^ 64

inductive Base | cc | dd | ee
  deriving DecidableEq, Repr

/-- The unrolled index table shared (textually four times) by `generate` and
    `sixteen_steps`: row k is the argument list `(i, i511, i3, i10, i12)` of step k. -/
def TABLE : List ((Base × Nat) × (Base × Nat) × (Base × Nat) × (Base × Nat) × (Base × Nat)) :=
  open Base in
  [ ((cc, 0),  (cc, 1),  (ee, 13), (ee, 6),  (ee, 4)),
    ((cc, 1),  (cc, 2),  (ee, 14), (ee, 7),  (ee, 5)),
    ((cc, 2),  (cc, 3),  (ee, 15), (ee, 8),  (ee, 6)),
    ((cc, 3),  (cc, 4),  (cc, 0),  (ee, 9),  (ee, 7)),
    ((cc, 4),  (cc, 5),  (cc, 1),  (ee, 10), (ee, 8)),
    ((cc, 5),  (cc, 6),  (cc, 2),  (ee, 11), (ee, 9)),
    ((cc, 6),  (cc, 7),  (cc, 3),  (ee, 12), (ee, 10)),
    ((cc, 7),  (cc, 8),  (cc, 4),  (ee, 13), (ee, 11)),
    ((cc, 8),  (cc, 9),  (cc, 5),  (ee, 14), (ee, 12)),
    ((cc, 9),  (cc, 10), (cc, 6),  (ee, 15), (ee, 13)),
    ((cc, 10), (cc, 11), (cc, 7),  (cc, 0),  (ee, 14)),
    ((cc, 11), (cc, 12), (cc, 8),  (cc, 1),  (ee, 15)),
    ((cc, 12), (cc, 13), (cc, 9),  (cc, 2),  (cc, 0)),
    ((cc, 13), (cc, 14), (cc, 10), (cc, 3),  (cc, 1)),
    ((cc, 14), (cc, 15), (cc, 11), (cc, 4),  (cc, 2)),
    ((cc, 15), (dd, 0),  (cc, 12), (cc, 5),  (cc, 3)) ]

/-- `cc`, `dd`, `ee` as computed at the top of `generate` / `sixteen_steps` -/
def bases (counter : Nat) : Nat × Nat × Nat :=
  let cc := counter % 512
  let dd := (cc + 16) % 512
  let ee := ((cc + USIZE - 16) % USIZE) % 512     -- `cc.wrapping_sub(16) % 512`
  (cc, dd, ee)

def idx (b : Nat × Nat × Nat) : Base × Nat → Nat
  | (.cc, k) => b.1 + k
  | (.dd, k) => b.2.1 + k
  | (.ee, k) => b.2.2 + k

/-- `step_p(i, i511, i3, i10, i12)`: returns the keystream word and the updated table -/
def stepP (t : Array U32) (i i511 i3 i10 i12 : Nat) : U32 × Array U32 :=
  let temp0 := (rd t i511).rotateRight 23
  let temp1 := (rd t i3).rotateRight 10
  let temp2 := (rd t i10).rotateRight 8
  let t := wr t i (rd t i + temp2 + (temp0 ^^^ temp1))
  let a : U8 := (rd t i12).setWidth 8
  let c : U8 := ((rd t i12) >>> 16).setWidth 8
  let temp3 := rd t (512 + a.toNat) + rd t (512 + 256 + c.toNat)
  (temp3 ^^^ rd t i, t)

/-- `step_q`: `p` and `q` swapped, rotates to the left -/
def stepQ (t : Array U32) (i i511 i3 i10 i12 : Nat) : U32 × Array U32 :=
  let temp0 := (rd t (512 + i511)).rotateLeft 23
  let temp1 := (rd t (512 + i3)).rotateLeft 10
  let temp2 := (rd t (512 + i10)).rotateLeft 8
  let t := wr t (512 + i) (rd t (512 + i) + temp2 + (temp0 ^^^ temp1))
  let a : U8 := (rd t (512 + i12)).setWidth 8
  let c : U8 := ((rd t (512 + i12)) >>> 16).setWidth 8
  let temp3 := rd t a.toNat + rd t (256 + c.toNat)
  (temp3 ^^^ rd t (512 + i), t)

/-- `BlockRngCore::generate` -/
def generate (c : Core) (results : Array U32) : Array U32 × Core :=
  let b := bases c.counter
  let isP := (c.counter &&& 512) == 0
  let (t, results, _) :=
    TABLE.foldl
      (fun (acc : Array U32 × Array U32 × Nat) row =>
        let (t, results, k) := acc
        let (r0, r1, r2, r3, r4) := row
        let (out, t) :=
          if isP then stepP t (idx b r0) (idx b r1) (idx b r2) (idx b r3) (idx b r4)
          else stepQ t (idx b r0) (idx b r1) (idx b r2) (idx b r3) (idx b r4)
        (t, wr results k out, k + 1))
      (c.t, results, 0)
  (results, { t := t, counter := (c.counter + 16) % USIZE })

/-- `sixteen_steps` (set-up only): the output of every step is written back into the table -/
def sixteenSteps (c : Core) : Core :=
  let b := bases c.counter
  let isP := decide (c.counter < 512)
  let (t, _) :=
    TABLE.foldl
      (fun (acc : Array U32 × Nat) row =>
        let (t, k) := acc
        let (r0, r1, r2, r3, r4) := row
        if isP then
          let (out, t) := stepP t (idx b r0) (idx b r1) (idx b r2) (idx b r3) (idx b r4)
          (wr t (b.1 + k) out, k + 1)
        else
          let (out, t) := stepQ t (idx b r0) (idx b r1) (idx b r2) (idx b r3) (idx b r4)
          (wr t (b.1 + 512 + k) out, k + 1))
      (c.t, 0)
  { t := t, counter := c.counter + 16 }

def f1 (x : U32) : U32 := x.rotateRight 7 ^^^ x.rotateRight 18 ^^^ (x >>> 3)
def f2 (x : U32) : U32 := x.rotateRight 17 ^^^ x.rotateRight 19 ^^^ (x >>> 10)

/-- one iteration of either expansion loop: `t[i] = f2(t[i-2]) + t[i-7] + f1(t[i-15]) + t[i-16] + add` -/
def expandAt (t : Array U32) (i : Nat) (add : U32) : Array U32 :=
  wr t i (f2 (rd t (i - 2)) + rd t (i - 7) + f1 (rd t (i - 15)) + rd t (i - 16) + add)

/-- `Hc128Core::init(seed: [u32; 8])` -/
def init (seed : List U32) : Core :=
  let t : Array U32 := Array.replicate 1024 0
  let key := seed.take 4
  let iv := seed.drop 4
  -- t[..4] = key; t[4..8] = key; t[8..12] = iv; t[12..16] = iv
  let t := (key ++ key ++ iv ++ iv).foldl (fun (p : Array U32 × Nat) x => (wr p.1 p.2 x, p.2 + 1)) (t, 0) |>.1
  -- for i in 16..256+16
  let t := (List.range 256).foldl (fun t j => let i := 16 + j; expandAt t i (BitVec.ofNat 32 i)) t
  -- p1[0..16].copy_from_slice(&p2[0..16])
  let t := (List.range 16).foldl (fun t j => wr t j (rd t (256 + j))) t
  -- for i in 16..1024
  let t := (List.range 1008).foldl (fun t j => let i := 16 + j; expandAt t i (BitVec.ofNat 32 (256 + i))) t
  -- run the cipher 1024 steps
  let c := (List.range 64).foldl (fun c _ => sixteenSteps c) { t := t, counter := 0 }
  { c with counter := 0 }

def SEED_LEN : Nat := 32
def fromSeedCore (seed : List U8) : Core := init (readU32s seed 8)

def blockCore : BlockCore Core 32 := ⟨16, generate⟩

abbrev Rng := BlockRng Core

def fromSeed (seed : List U8) : Rng := BlockRng.new blockCore (fromSeedCore seed)
/-- default `seed_from_u64` of `Hc128Core` through `BlockRng` -/
def seedFromU64 (x : U64) : Rng := fromSeed (pcg32Seed 32 x)
def nextU32 (r : Rng) : U32 × Rng := BlockRng.nextU32 blockCore r
def nextU64 (r : Rng) : U64 × Rng := BlockRng.nextU64 blockCore r
def fill (n : Nat) (r : Rng) : List U8 × Rng := BlockRng.fillBytes blockCore n r

def fromRng {ρ : Type} (fill : TryFill ρ) (src : ρ) : Except SrcErr Rng × ρ :=
  fromRngDefault 32 fromSeed fill src

/-- `impl PartialEq for Hc128Core`: table and counter -/
def Core.beq (a b : Core) : Bool := a.t == b.t && a.counter == b.counter
/-- `impl PartialEq for Hc128Rng`: core and index, *not* the buffered results -/
def beq (a b : Rng) : Bool := a.core.beq b.core && a.index == b.index

end Hc128
end Rngs
