/-
  Rngs.Model.Isaac — rand_isaac/src/isaac.rs and isaac64.rs (the two files are the same
  text up to word width, shift constants and the `mix` function; the model is parametric
  in exactly those), IsaacRng = BlockRng<IsaacCore>, Isaac64Rng = BlockRng64<Isaac64Core>.
-/
import Rngs.Model.RandCore
namespace Rngs
namespace Isaac

def RAND_SIZE_LEN : Nat := 8
def RAND_SIZE : Nat := 256
def MIDPOINT : Nat := 128

structure Core (w : Nat) where
  mem : Array (BitVec w)
  a : BitVec w
  b : BitVec w
  c : BitVec w

/-- eight-word working set of `init`'s `mix` -/
structure Oct (w : Nat) where
  a : BitVec w
  b : BitVec w
  c : BitVec w
  d : BitVec w
  e : BitVec w
  f : BitVec w
  g : BitVec w
  h : BitVec w
  deriving DecidableEq, Repr

/-- the width-dependent parts of the two source files -/
structure Params (w : Nat) where
  /-- the four `mix` arguments of `rngstep` in one unrolled group: `a ^ (a << 13)` … -/
  mix0 : BitVec w → BitVec w
  mix1 : BitVec w → BitVec w
  mix2 : BitVec w → BitVec w
  mix3 : BitVec w → BitVec w
  /-- first `ind` shift (2 resp. 3); the second is `indShift + RAND_SIZE_LEN` -/
  indShift : Nat
  /-- `init`'s local `fn mix` -/
  mix : Oct w → Oct w
  /-- the premixed golden-ratio constants -/
  golden : Oct w

def params32 : Params 32 where
  mix0 a := a ^^^ (a <<< 13)
  mix1 a := a ^^^ (a >>> 6)
  mix2 a := a ^^^ (a <<< 2)
  mix3 a := a ^^^ (a >>> 16)
  indShift := 2
  mix o :=
    let ⟨a, b, c, d, e, f, g, h⟩ := o
    let a := a ^^^ (b <<< 11); let d := d + a; let b := b + c
    let b := b ^^^ (c >>> 2);  let e := e + b; let c := c + d
    let c := c ^^^ (d <<< 8);  let f := f + c; let d := d + e
    let d := d ^^^ (e >>> 16); let g := g + d; let e := e + f
    let e := e ^^^ (f <<< 10); let h := h + e; let f := f + g
    let f := f ^^^ (g >>> 4);  let a := a + f; let g := g + h
    let g := g ^^^ (h <<< 8);  let b := b + g; let h := h + a
    let h := h ^^^ (a >>> 9);  let c := c + h; let a := a + b
    ⟨a, b, c, d, e, f, g, h⟩
  golden := ⟨0x1367df5a#32, 0x95d90059#32, 0xc3163e4b#32, 0x0f421ad8#32,
             0xd92a4a78#32, 0xa51a3c49#32, 0xc4efea1b#32, 0x30609119#32⟩

def params64 : Params 64 where
  mix0 a := ~~~(a ^^^ (a <<< 21))
  mix1 a := a ^^^ (a >>> 5)
  mix2 a := a ^^^ (a <<< 12)
  mix3 a := a ^^^ (a >>> 33)
  indShift := 3
  mix o :=
    let ⟨a, b, c, d, e, f, g, h⟩ := o
    let a := a - e; let f := f ^^^ (h >>> 9);  let h := h + a
    let b := b - f; let g := g ^^^ (a <<< 9);  let a := a + b
    let c := c - g; let h := h ^^^ (b >>> 23); let b := b + c
    let d := d - h; let a := a ^^^ (c <<< 15); let c := c + d
    let e := e - a; let b := b ^^^ (d >>> 14); let d := d + e
    let f := f - b; let c := c ^^^ (e <<< 20); let e := e + f
    let g := g - c; let d := d ^^^ (f >>> 17); let f := f + g
    let h := h - d; let e := e ^^^ (g <<< 14); let g := g + h
    ⟨a, b, c, d, e, f, g, h⟩
  golden := ⟨0x647c4677a2884b7c#64, 0xb9f8b322c73ac862#64, 0x8c0ea5053d4712a0#64,
             0xb29b2e824a595524#64, 0x82f053db8355e0ce#64, 0x48fe4a0fa5a09315#64,
             0xae985bf2cbfc89ed#64, 0x98f5704f6c44c0ab#64⟩

variable {w : Nat}

/-- `fn ind(mem, v, amount)`: `mem[(v >> amount) as usize % RAND_SIZE]` -/
def ind (mem : Array (BitVec w)) (v : BitVec w) (amount : Nat) : BitVec w :=
  rd mem ((v >>> amount).toNat % RAND_SIZE)

/-- working state of `generate`: `(mem, results, a, b)` -/
structure GenSt (w : Nat) where
  mem : Array (BitVec w)
  results : Array (BitVec w)
  a : BitVec w
  b : BitVec w

/-- `fn rngstep(mem, results, mix, a, b, base, m, m2)` -/
def rngstep (p : Params w) (st : GenSt w) (mix : BitVec w) (base m m2 : Nat) : GenSt w :=
  let x := rd st.mem (base + m)
  let a := mix + rd st.mem (base + m2)
  let y := a + st.b + ind st.mem x p.indShift
  let mem := wr st.mem (base + m) y
  let b := x + ind mem y (p.indShift + RAND_SIZE_LEN)
  let results := wr st.results (RAND_SIZE - 1 - base - m) b
  { mem := mem, results := results, a := a, b := b }

/-- one `for i in (0..MIDPOINT/4).map(|i| i*4)` half loop with offsets `m`, `m2` -/
def halfLoop (p : Params w) (st : GenSt w) (m m2 : Nat) : GenSt w :=
  (List.range (MIDPOINT / 4)).foldl
    (fun st j =>
      let i := j * 4
      let st := rngstep p st (p.mix0 st.a) (i + 0) m m2
      let st := rngstep p st (p.mix1 st.a) (i + 1) m m2
      let st := rngstep p st (p.mix2 st.a) (i + 2) m m2
      let st := rngstep p st (p.mix3 st.a) (i + 3) m m2
      st)
    st

/-- `BlockRngCore::generate` -/
def generate (p : Params w) (core : Core w) (results : Array (BitVec w)) :
    Array (BitVec w) × Core w :=
  let c := core.c + 1
  let a := core.a
  let b := core.b + c
  let st : GenSt w := { mem := core.mem, results := results, a := a, b := b }
  let st := halfLoop p st 0 MIDPOINT
  let st := halfLoop p st MIDPOINT 0
  (st.results, { mem := st.mem, a := st.a, b := st.b, c := c })

/-- `fn init(mem, rounds)` -/
def init (p : Params w) (mem : Array (BitVec w)) (rounds : Nat) : Core w :=
  let (mem, _) :=
    (List.range rounds).foldl
      (fun (acc : Array (BitVec w) × Oct w) _ =>
        (List.range (RAND_SIZE / 8)).foldl
          (fun (acc : Array (BitVec w) × Oct w) j =>
            let (mem, o) := acc
            let i := j * 8
            let o : Oct w :=
              ⟨o.a + rd mem i, o.b + rd mem (i+1), o.c + rd mem (i+2), o.d + rd mem (i+3),
               o.e + rd mem (i+4), o.f + rd mem (i+5), o.g + rd mem (i+6), o.h + rd mem (i+7)⟩
            let o := p.mix o
            let mem := wr mem i o.a
            let mem := wr mem (i+1) o.b
            let mem := wr mem (i+2) o.c
            let mem := wr mem (i+3) o.d
            let mem := wr mem (i+4) o.e
            let mem := wr mem (i+5) o.f
            let mem := wr mem (i+6) o.g
            let mem := wr mem (i+7) o.h
            (mem, o))
          acc)
      (mem, p.golden)
  { mem := mem, a := 0, b := 0, c := 0 }

/-- zero-extend a list of seed words to `RAND_SIZE` slots -/
def extend (ws : List (BitVec w)) : Array (BitVec w) :=
  ((ws.take RAND_SIZE) ++ List.replicate (RAND_SIZE - ws.length) 0).toArray

def Core.beq (x y : Core w) : Bool := x.mem == y.mem && x.a == y.a && x.b == y.b && x.c == y.c

/-! ### IsaacRng -/

abbrev Rng32 := BlockRng (Core 32)
def blockCore32 : BlockCore (Core 32) 32 := ⟨RAND_SIZE, generate params32⟩

def fromSeedCore32 (seed : List U8) : Core 32 := init params32 (extend (readU32s seed 8)) 2
def seedFromU64Core32 (x : U64) : Core 32 :=
  init params32 (extend [x.setWidth 32, (x >>> 32).setWidth 32]) 1
def fromSeed32 (seed : List U8) : Rng32 := BlockRng.new blockCore32 (fromSeedCore32 seed)
def seedFromU64_32 (x : U64) : Rng32 := BlockRng.new blockCore32 (seedFromU64Core32 x)

/-- `from_rng`: fill `RAND_SIZE * 4` bytes, read them as little-endian words, two passes -/
def fromRng32 {ρ : Type} (fill : TryFill ρ) (src : ρ) : Except SrcErr Rng32 × ρ :=
  match fill src (RAND_SIZE * 4) with
  | (.ok bytes, src) =>
    (.ok (BlockRng.new blockCore32 (init params32 (readU32s bytes RAND_SIZE).toArray 2)), src)
  | (.error e, src) => (.error e, src)

/-- `try_from_rng`: textual copy with `?` -/
def tryFromRng32 {ρ : Type} (fill : TryFill ρ) (src : ρ) : Except SrcErr Rng32 × ρ :=
  match fill src (RAND_SIZE * 4) with
  | (.ok bytes, src) =>
    (.ok (BlockRng.new blockCore32 (init params32 (readU32s bytes RAND_SIZE).toArray 2)), src)
  | (.error e, src) => (.error e, src)

/-! ### Isaac64Rng -/

abbrev Rng64 := BlockRng64 (Core 64)
def blockCore64 : BlockCore (Core 64) 64 := ⟨RAND_SIZE, generate params64⟩

def fromSeedCore64 (seed : List U8) : Core 64 := init params64 (extend (readU64s seed 4)) 2
def seedFromU64Core64 (x : U64) : Core 64 := init params64 (extend [x]) 1
def fromSeed64 (seed : List U8) : Rng64 := BlockRng64.new blockCore64 (fromSeedCore64 seed)
def seedFromU64_64 (x : U64) : Rng64 := BlockRng64.new blockCore64 (seedFromU64Core64 x)

def fromRng64 {ρ : Type} (fill : TryFill ρ) (src : ρ) : Except SrcErr Rng64 × ρ :=
  match fill src (RAND_SIZE * 8) with
  | (.ok bytes, src) =>
    (.ok (BlockRng64.new blockCore64 (init params64 (readU64s bytes RAND_SIZE).toArray 2)), src)
  | (.error e, src) => (.error e, src)

def tryFromRng64 {ρ : Type} (fill : TryFill ρ) (src : ρ) : Except SrcErr Rng64 × ρ :=
  match fill src (RAND_SIZE * 8) with
  | (.ok bytes, src) =>
    (.ok (BlockRng64.new blockCore64 (init params64 (readU64s bytes RAND_SIZE).toArray 2)), src)
  | (.error e, src) => (.error e, src)

end Isaac
end Rngs
