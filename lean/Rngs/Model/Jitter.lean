/-
  Rngs.Model.Jitter — rand_jitter/src/lib.rs as a state machine over the list of values the
  timer closure will return.  Every function that calls `(self.timer)()` lives in
  `TM = StateT (List U64) Option`; `none` means the scripted timer ran out (`blocked`).
  Not modelled (no effect on any result): the contents of the memory-access scratch block,
  the throw-away LFSR rounds, `black_box`.
-/
import Rngs.Model.RandCore
namespace Rngs
namespace Jitter

structure Rng where
  data : U64
  rounds : Nat          -- `u8`
  memPrevIndex : Nat    -- `u16`
  halfUsed : Bool
  deriving DecidableEq, Repr

/-- `EcState` without the scratch memory -/
structure Ec where
  prevTime : U64
  lastDelta : U32       -- `i32`, two's complement
  lastDelta2 : U32
  deriving DecidableEq, Repr

inductive TimerError | NoTimer | CoarseTimer | NotMonotonic | TinyVariations | TooManyStuck
  deriving DecidableEq, Repr

abbrev TM := StateT (List U64) Option

/-- `(self.timer)()` -/
def tick : TM U64 := fun rs =>
  match rs with
  | [] => none
  | r :: rs => some (r, rs)

def MEMORY_BLOCKSIZE : Nat := 32
def MEMORY_SIZE : Nat := 64 * 32

def newWithTimer : Rng := { data := 0, rounds := 64, memPrevIndex := 0, halfUsed := false }

/-- `random_loop_cnt(n_bits)` -/
def randomLoopCnt (j : Rng) (nBits : Nat) : TM U32 := do
  let time ← tick
  let time := time ^^^ j.data
  let folds := (64 + nBits - 1) / nBits
  let mask : U64 := (1#64 <<< nBits) - 1
  let (rounds, _) := (List.range folds).foldl
    (fun (p : U64 × U64) _ => (p.1 ^^^ (p.2 &&& mask), p.2 >>> nBits)) (0#64, time)
  pure (rounds.setWidth 32)

/-- the local `fn lfsr(data, time)` of `lfsr_time` -/
def lfsr (data time : U64) : U64 :=
  (List.range 64).foldl
    (fun data k =>
      let i := k + 1
      let tmp := time <<< (64 - i)
      let tmp := tmp >>> (64 - 1)
      let data := data ^^^ tmp
      let data := data ^^^ ((data >>> 63) &&& 1)
      let data := data ^^^ ((data >>> 60) &&& 1)
      let data := data ^^^ ((data >>> 55) &&& 1)
      let data := data ^^^ ((data >>> 30) &&& 1)
      let data := data ^^^ ((data >>> 27) &&& 1)
      let data := data ^^^ ((data >>> 22) &&& 1)
      data.rotateLeft 1)
    data

/-- `lfsr_time(time, var_rounds)` -/
def lfsrTime (j : Rng) (time : U64) (varRounds : Bool) : TM Rng := do
  if varRounds then
    let _ ← randomLoopCnt j 4      -- only drives the throw-away rounds
  pure { j with data := lfsr j.data time }

/-- `memaccess(mem, var_rounds)` -/
def memaccess (j : Rng) (varRounds : Bool) : TM Rng := do
  let extra ← if varRounds then randomLoopCnt j 4 else pure 0
  let accLoopCnt := 128 + extra.toNat
  let index := (List.range accLoopCnt).foldl
    (fun index _ => (index + MEMORY_BLOCKSIZE - 1) % MEMORY_SIZE) j.memPrevIndex
  pure { j with memPrevIndex := index % 65536 }

/-- `EcState::stuck` (with `wrapping_sub`) -/
def stuck (ec : Ec) (currentDelta : U32) : Bool × Ec :=
  let delta2 := ec.lastDelta - currentDelta
  let delta3 := delta2 - ec.lastDelta2
  (currentDelta == 0 || delta2 == 0 || delta3 == 0,
   { ec with lastDelta := currentDelta, lastDelta2 := delta2 })

/-- `measure_jitter`: `true` for `Some(())` -/
def measureJitter (j : Rng) (ec : Ec) : TM (Bool × Rng × Ec) := do
  let j ← memaccess j true
  let time ← tick
  let currentDelta : U32 := (time - ec.prevTime).setWidth 32      -- `as i64 as i32`
  let ec := { ec with prevTime := time }
  let j ← lfsrTime j (currentDelta.signExtend 64) true            -- `current_delta as u64`
  let (st, ec) := stuck ec currentDelta
  if st then pure (false, j, ec)
  else pure (true, { j with data := j.data.rotateLeft 7 }, ec)

def STIR_CONSTANT : U64 := 0x67452301efcdab89#64
def STIR_MIXER : U64 := 0x98badcfe10325476#64

/-- `stir_pool` on the pool value -/
def stir (data : U64) : U64 :=
  let mixer := (List.range 64).foldl
    (fun mixer i =>
      let apply := (data >>> i) &&& 1
      let mask := ~~~(apply - 1)
      let mixer := mixer ^^^ (STIR_CONSTANT &&& mask)
      mixer.rotateLeft 1)
    STIR_MIXER
  data ^^^ mixer

/-- the `for _ in 0..rounds { while measure_jitter().is_none() {} }` loops: `need` accepted
    measurements still to collect.  `fuel` bounds the attempts (each consumes three readings). -/
def collect : Nat → Nat → Rng → Ec → TM (Rng × Ec)
  | _, 0, j, ec => pure (j, ec)
  | 0, _ + 1, _, _ => failure
  | fuel + 1, need + 1, j, ec => do
    let (ok, j, ec) ← measureJitter j ec
    if ok then collect fuel need j ec else collect fuel (need + 1) j ec

/-- `gen_entropy` -/
def genEntropy (j : Rng) : TM (U64 × Rng) := do
  let t ← tick
  let ec : Ec := { prevTime := t, lastDelta := 0, lastDelta2 := 0 }
  let (_, j, ec) ← measureJitter j ec
  let fuel := (← get).length + 1
  let (j, _) ← collect fuel j.rounds j ec
  let j := { j with data := stir j.data }
  pure (j.data, j)

def nextU64 (j : Rng) : TM (U64 × Rng) :=
  genEntropy { j with halfUsed := false }

def nextU32 (j : Rng) : TM (U32 × Rng) := do
  if j.halfUsed then
    pure ((j.data >>> 32).setWidth 32, { j with halfUsed := false })
  else
    let (v, j) ← nextU64 j
    let j := { j with data := v, halfUsed := true }
    pure (j.data.setWidth 32, j)

/-- `fill_bytes_via_next` in the timer monad -/
def fillLoop : Nat → Rng → TM (List U8 × Rng)
  | 0, j => pure ([], j)
  | k + 1, j => do
    let (w, j) ← nextU64 j
    let (rest, j) ← fillLoop k j
    pure (U64.toLE w ++ rest, j)

def fill (n : Nat) (j : Rng) : TM (List U8 × Rng) := do
  let (pre, j) ← fillLoop (n / 8) j
  let r := n % 8
  if r > 4 then
    let (w, j) ← nextU64 j
    pure (pre ++ (U64.toLE w).take r, j)
  else if r > 0 then
    let (w, j) ← nextU32 j
    pure (pre ++ (U32.toLE w).take r, j)
  else pure (pre, j)

/-- `timer_stats(var_rounds) -> i64` (returned as its two's-complement image) -/
def timerStats (j : Rng) (varRounds : Bool) : TM (U64 × Rng) := do
  let time ← tick
  let j ← memaccess j varRounds
  let j ← lfsrTime j time varRounds
  let time2 ← tick
  pure (time2 - time, j)

/-- `set_rounds`: `none` is the documented `assert!(rounds > 0)` panic -/
def setRounds (j : Rng) (rounds : Nat) : Option Rng :=
  if rounds > 0 then some { j with rounds := rounds } else none

/-- `Clone`: everything except the pending half -/
def clone (j : Rng) : Rng := { j with halfUsed := false }

def TESTLOOPCOUNT : Nat := 300
def CLEARCACHE : Nat := 100

def LOG2_LOOKUP : List Nat := [0, 0, 128, 81, 64, 56, 50, 46, 43, 41, 39, 38, 36, 35, 34, 33]

/-- accumulators of the probe loop of `test_timer` -/
structure Probe where
  deltaSum : Nat := 0       -- u64
  oldDelta : U32 := 0       -- i32
  timeBackwards : Nat := 0
  countMod : Nat := 0
  countStuck : Nat := 0
  deriving DecidableEq, Repr

/-- the rounds estimate computed from `delta_sum` after all checks passed -/
def roundsOf (deltaSum : Nat) : Nat :=
  let deltaAverage := deltaSum / TESTLOOPCOUNT
  if deltaAverage ≥ 16 then
    let log2 := Nat.log2 deltaAverage + 1      -- `64 - leading_zeros`
    ((64 * 2 + log2 - 1) / log2) % 256
  else LOG2_LOOKUP.getD deltaAverage 0

/-- the checks after the loop -/
def verdict (p : Probe) : Except TimerError Nat :=
  if p.timeBackwards > 3 then .error .NotMonotonic
  else if p.deltaSum < 2 * TESTLOOPCOUNT then .error .TinyVariations
  else if p.countMod > TESTLOOPCOUNT * 9 / 10 then .error .CoarseTimer
  else if p.countStuck > TESTLOOPCOUNT * 9 / 10 then .error .TooManyStuck
  else .ok (roundsOf p.deltaSum)

/-- iterations `i, i+1, …` of the probe loop, `n` of them left -/
def probeLoop : Nat → Nat → Rng → Ec → Probe → TM (Except TimerError Probe × Rng)
  | 0, _, j, _, p => pure (.ok p, j)
  | n + 1, i, j, ec, p => do
    let time ← tick
    let j ← memaccess j true
    let j ← lfsrTime j time true
    let time2 ← tick
    if time == 0 || time2 == 0 then pure (.error .NoTimer, j)
    else
      let delta : U32 := (time2 - time).setWidth 32
      if delta == 0 then pure (.error .CoarseTimer, j)
      else if i < CLEARCACHE then probeLoop n (i + 1) j ec p
      else
        let (st, ec) := stuck ec delta
        let p := if st then { p with countStuck := p.countStuck + 1 } else p
        let p := if time2 ≤ time then { p with timeBackwards := p.timeBackwards + 1 } else p
        let p := if delta.toInt % 100 == 0 then { p with countMod := p.countMod + 1 } else p
        let p := { p with deltaSum := p.deltaSum + (delta.toInt - p.oldDelta.toInt).natAbs,
                          oldDelta := delta }
        probeLoop n (i + 1) j ec p

/-- `test_timer` -/
def testTimer (j : Rng) : TM (Except TimerError Nat × Rng) := do
  let t ← tick
  let ec : Ec := { prevTime := t, lastDelta := 0, lastDelta2 := 0 }
  let (r, j) ← probeLoop (CLEARCACHE + TESTLOOPCOUNT) 0 j ec {}
  match r with
  | .error e => pure (.error e, j)
  | .ok p => pure (verdict p, j)

end Jitter
end Rngs
