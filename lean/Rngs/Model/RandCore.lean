/-
  Rngs.Model.RandCore — transliteration of the parts of rand_core 0.9.5 the five crates
  delegate to: `impls::{next_u64_via_u32, fill_bytes_via_next, fill_via_chunks}`,
  `block::{BlockRng, BlockRng64}`, and the `SeedableRng` defaults
  (`seed_from_u64` = PCG32 expansion, `from_rng`, `try_from_rng`).
  Modelled, not verified (see DESIGN.md §10); exercised through the crates by the tie.
-/
import Rngs.Model.Words
namespace Rngs

/-- What `impl RngCore for G` provides natively for a non-buffered generator. -/
structure Direct (σ : Type) where
  nextU32 : σ → U32 × σ
  nextU64 : σ → U64 × σ

/-- `impls::next_u64_via_u32`: x first, then y; result `(y << 32) | x`. -/
def nextU64ViaU32 {σ : Type} (n32 : σ → U32 × σ) (s : σ) : U64 × σ :=
  let (x, s) := n32 s
  let (y, s) := n32 s
  ((y.setWidth 64 <<< 32) ||| x.setWidth 64, s)

/-- the `while left.len() >= 8` loop of `fill_bytes_via_next`, `k` iterations -/
def fillLoop {σ : Type} (n64 : σ → U64 × σ) : Nat → σ → List U8 × σ
  | 0,     s => ([], s)
  | k + 1, s =>
    let (w, s) := n64 s
    let (rest, s) := fillLoop n64 k s
    (U64.toLE w ++ rest, s)

/-- `impls::fill_bytes_via_next(rng, dest)` with `dest.len() = n`: returns the bytes written. -/
def fillBytesViaNext {σ : Type} (g : Direct σ) (n : Nat) (s : σ) : List U8 × σ :=
  let (pre, s) := fillLoop g.nextU64 (n / 8) s
  let r := n % 8
  if r > 4 then
    let (w, s) := g.nextU64 s
    (pre ++ (U64.toLE w).take r, s)
  else if r > 0 then
    let (w, s) := g.nextU32 s
    (pre ++ (U32.toLE w).take r, s)
  else (pre, s)

/-- `impls::fill_via_chunks(src, dest)`: `(consumed words, filled bytes, the bytes)`.
    `size` is `size_of::<T>()`, `toLE` is `T::to_le_bytes`. -/
def fillViaChunks {w : Nat} (size : Nat) (toLE : BitVec w → List U8)
    (src : List (BitVec w)) (destLen : Nat) : Nat × Nat × List U8 :=
  let numChunks := min (destLen / size) src.length
  let bytes := (src.take numChunks).flatMap toLE
  let byteLen := numChunks * size
  match src.drop numChunks with
  | x :: _ =>
    -- all full chunks of dest are consumed, src is not: `dest.into_remainder()`
    let n := destLen % size
    if n > 0 then (numChunks + 1, byteLen + n, bytes ++ (toLE x).take n)
    else (numChunks, byteLen, bytes)
  | [] => (numChunks, byteLen, bytes)

/-! ## BlockRng -/

/-- `BlockRngCore`: `len = results.as_ref().len()`, `generate(&mut self, &mut results)`. -/
structure BlockCore (σ : Type) (w : Nat) where
  len : Nat
  generate : σ → Array (BitVec w) → Array (BitVec w) × σ

structure BlockRng (σ : Type) where
  results : Array U32
  index : Nat
  core : σ

namespace BlockRng
variable {σ : Type}

def new (c : BlockCore σ 32) (core : σ) : BlockRng σ :=
  { results := Array.replicate c.len 0, index := c.len, core := core }

/-- `generate_and_set(index)` (its `assert!(index < len)` is in `Checked`) -/
def generateAndSet (c : BlockCore σ 32) (r : BlockRng σ) (index : Nat) : BlockRng σ :=
  let (res, core) := c.generate r.core r.results
  { results := res, index := index, core := core }

def nextU32 (c : BlockCore σ 32) (r : BlockRng σ) : U32 × BlockRng σ :=
  let r := if r.index ≥ c.len then r.generateAndSet c 0 else r
  let value := rd r.results r.index
  (value, { r with index := r.index + 1 })

def readU64 (results : Array U32) (index : Nat) : U64 :=
  ((rd results (index + 1)).setWidth 64 <<< 32) ||| (rd results index).setWidth 64

def nextU64 (c : BlockCore σ 32) (r : BlockRng σ) : U64 × BlockRng σ :=
  let len := c.len
  let index := r.index
  if index < len - 1 then
    (readU64 r.results index, { r with index := r.index + 2 })
  else if index ≥ len then
    let r := r.generateAndSet c 2
    (readU64 r.results 0, r)
  else
    let x := (rd r.results (len - 1)).setWidth 64
    let r := r.generateAndSet c 1
    let y := (rd r.results 0).setWidth 64
    ((y <<< 32) ||| x, r)

/-- the `while read_len < dest.len()` loop; `fuel` bounds the iterations (every iteration
    fills at least one byte, `fillBytes` supplies `n + 1`). -/
def fillLoop (c : BlockCore σ 32) (n : Nat) : Nat → Nat → List U8 → BlockRng σ → List U8 × BlockRng σ
  | 0, _, acc, r => (acc, r)
  | fuel + 1, readLen, acc, r =>
    if readLen < n then
      let r := if r.index ≥ c.len then r.generateAndSet c 0 else r
      let (consumed, filled, bytes) :=
        fillViaChunks 4 U32.toLE (r.results.toList.drop r.index) (n - readLen)
      fillLoop c n fuel (readLen + filled) (acc ++ bytes) { r with index := r.index + consumed }
    else (acc, r)

def fillBytes (c : BlockCore σ 32) (n : Nat) (r : BlockRng σ) : List U8 × BlockRng σ :=
  fillLoop c n (n + 1) 0 [] r

end BlockRng

/-! ## BlockRng64 -/

structure BlockRng64 (σ : Type) where
  results : Array U64
  index : Nat
  halfUsed : Bool
  core : σ

namespace BlockRng64
variable {σ : Type}

def new (c : BlockCore σ 64) (core : σ) : BlockRng64 σ :=
  { results := Array.replicate c.len 0, index := c.len, halfUsed := false, core := core }

def nextU32 (c : BlockCore σ 64) (r : BlockRng64 σ) : U32 × BlockRng64 σ :=
  -- `self.index - self.half_used as usize` (usize subtraction; `Checked` states index ≥ half)
  let index := r.index - r.halfUsed.toNat
  let (r, index) :=
    if index ≥ c.len then
      let (res, core) := c.generate r.core r.results
      ({ r with results := res, core := core, index := 0, halfUsed := false }, 0)
    else (r, index)
  let shift := 32 * r.halfUsed.toNat
  let r := { r with halfUsed := !r.halfUsed }
  let r := { r with index := r.index + r.halfUsed.toNat }
  (((rd r.results index : U64) >>> shift).setWidth 32, r)

def nextU64 (c : BlockCore σ 64) (r : BlockRng64 σ) : U64 × BlockRng64 σ :=
  let r :=
    if r.index ≥ c.len then
      let (res, core) := c.generate r.core r.results
      { r with results := res, core := core, index := 0 }
    else r
  let value := rd r.results r.index
  (value, { r with index := r.index + 1, halfUsed := false })

def fillLoop (c : BlockCore σ 64) (n : Nat) : Nat → Nat → List U8 → BlockRng64 σ → List U8 × BlockRng64 σ
  | 0, _, acc, r => (acc, r)
  | fuel + 1, readLen, acc, r =>
    if readLen < n then
      let r :=
        if r.index ≥ c.len then
          let (res, core) := c.generate r.core r.results
          { r with results := res, core := core, index := 0 }
        else r
      let (consumed, filled, bytes) :=
        fillViaChunks 8 U64.toLE (r.results.toList.drop r.index) (n - readLen)
      fillLoop c n fuel (readLen + filled) (acc ++ bytes) { r with index := r.index + consumed }
    else (acc, r)

def fillBytes (c : BlockCore σ 64) (n : Nat) (r : BlockRng64 σ) : List U8 × BlockRng64 σ :=
  fillLoop c n (n + 1) 0 [] { r with halfUsed := false }

end BlockRng64

/-! ## `SeedableRng` defaults -/

def PCG_MUL : U64 := 6364136223846793005#64
def PCG_INC : U64 := 11634580027462260723#64

/-- the local `fn pcg32(state: &mut u64) -> [u8; 4]` of `SeedableRng::seed_from_u64` -/
def pcg32 (state : U64) : List U8 × U64 :=
  let state := state * PCG_MUL + PCG_INC
  let xorshifted : U32 := (((state >>> 18) ^^^ state) >>> 27).setWidth 32
  let rot : U32 := (state >>> 59).setWidth 32
  let x := xorshifted.rotateRight rot.toNat
  (U32.toLE x, state)

def pcg32Chunks : Nat → U64 → List U8 × U64
  | 0, st => ([], st)
  | k + 1, st =>
    let (b, st) := pcg32 st
    let (rest, st) := pcg32Chunks k st
    (b ++ rest, st)

/-- the seed built by the default `seed_from_u64` for a seed type of `len` bytes -/
def pcg32Seed (len : Nat) (state : U64) : List U8 :=
  let (full, st) := pcg32Chunks (len / 4) state
  if len % 4 ≠ 0 then full ++ (pcg32 st).1.take (len % 4) else full

/-- Outcome of asking a source RNG for bytes: `fail code` is a `TryRngCore::Error`,
    `exhausted` is the end of a scripted source (observable as `blocked` in the harness),
    `diverged` is a redraw loop that did not finish within the model's fuel. -/
inductive SrcErr where
  | fail (code : Nat)
  | exhausted
  | diverged
  deriving Repr, DecidableEq

/-- a source of bytes: `try_fill_bytes(&mut self, dest)` with `dest.len() = n`.  The source
    state after the call is returned in every case. -/
abbrev TryFill (ρ : Type) := ρ → Nat → Except SrcErr (List U8) × ρ

/-- default `SeedableRng::from_rng` / `try_from_rng` (identical bodies up to `?`) -/
def fromRngDefault {σ ρ : Type} (seedLen : Nat) (fromSeed : List U8 → σ)
    (fill : TryFill ρ) (src : ρ) : Except SrcErr σ × ρ :=
  match fill src seedLen with
  | (.ok bytes, src) => (.ok (fromSeed bytes), src)
  | (.error e, src) => (.error e, src)

end Rngs
