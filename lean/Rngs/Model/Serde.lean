/-
  Rngs.Model.Serde — the bincode-1 (fixed-width little-endian, no length prefix for tuples
  and fixed arrays, `usize` as u64, `bool` as one byte, newtypes transparent) image of every
  serialisable generator, and its inverse.  serde-derive and bincode are modelled, not verified.
-/
import Rngs.Model.Xoshiro
import Rngs.Model.XorShift
import Rngs.Model.Isaac
namespace Rngs
namespace Serde

/-- a deserialiser: consumes a prefix of the input -/
abbrev De (α : Type) := List U8 → Option (α × List U8)

def deU32 : De U32
  | b0 :: b1 :: b2 :: b3 :: rest => some (U32.ofLE b0 b1 b2 b3, rest)
  | _ => none

def deU64 : De U64
  | b0 :: b1 :: b2 :: b3 :: b4 :: b5 :: b6 :: b7 :: rest =>
    some (U64.ofLE b0 b1 b2 b3 b4 b5 b6 b7, rest)
  | _ => none

def deBool : De Bool
  | b :: rest => if b = 0 then some (false, rest) else if b = 1 then some (true, rest) else none
  | [] => none

/-- `n` elements in a row (tuple / fixed array) -/
def deMany {α : Type} (d : De α) : Nat → De (List α)
  | 0, bs => some ([], bs)
  | n + 1, bs =>
    match d bs with
    | none => none
    | some (x, bs) =>
      match deMany d n bs with
      | none => none
      | some (xs, bs) => some (x :: xs, bs)

def serU32s (ws : List U32) : List U8 := ws.flatMap U32.toLE
def serU64s (ws : List U64) : List U8 := ws.flatMap U64.toLE
def serUsize (n : Nat) : List U8 := U64.toLE (BitVec.ofNat 64 n)
def serBool (b : Bool) : List U8 := [if b then 1 else 0]

/-! ### rand_xoshiro, rand_xorshift -/
def serSplitMix (x : U64) : List U8 := U64.toLE x
def deSplitMix : De U64 := deU64

def serS2_32 (s : S2 32) : List U8 := serU32s [s.s0, s.s1]
def serS2_64 (s : S2 64) : List U8 := serU64s [s.s0, s.s1]
def serS4_32 (s : S4 32) : List U8 := serU32s [s.s0, s.s1, s.s2, s.s3]
def serS4_64 (s : S4 64) : List U8 := serU64s [s.s0, s.s1, s.s2, s.s3]
def serS8 (s : S8) : List U8 := serU64s [s.s0, s.s1, s.s2, s.s3, s.s4, s.s5, s.s6, s.s7]

def deS2_32 : De (S2 32) := fun bs =>
  match deMany deU32 2 bs with
  | some ([a, b], r) => some (⟨a, b⟩, r)
  | _ => none
def deS2_64 : De (S2 64) := fun bs =>
  match deMany deU64 2 bs with
  | some ([a, b], r) => some (⟨a, b⟩, r)
  | _ => none
def deS4_32 : De (S4 32) := fun bs =>
  match deMany deU32 4 bs with
  | some ([a, b, c, d], r) => some (⟨a, b, c, d⟩, r)
  | _ => none
def deS4_64 : De (S4 64) := fun bs =>
  match deMany deU64 4 bs with
  | some ([a, b, c, d], r) => some (⟨a, b, c, d⟩, r)
  | _ => none
def deS8 : De S8 := fun bs =>
  match deMany deU64 8 bs with
  | some ([a, b, c, d, e, f, g, h], r) => some (⟨a, b, c, d, e, f, g, h⟩, r)
  | _ => none

/-! ### rand_isaac: results, index, (half_used), core { mem, a, b, c } -/
def serIsaac32 (r : Isaac.Rng32) : List U8 :=
  serU32s r.results.toList ++ serUsize r.index ++
  serU32s r.core.mem.toList ++ serU32s [r.core.a, r.core.b, r.core.c]

def deIsaac32 : De Isaac.Rng32 := fun bs =>
  match deMany deU32 256 bs with
  | none => none
  | some (results, bs) =>
  match deU64 bs with
  | none => none
  | some (index, bs) =>
  match deMany deU32 256 bs with
  | none => none
  | some (mem, bs) =>
  match deMany deU32 3 bs with
  | some ([a, b, c], bs) =>
    some ({ results := results.toArray, index := index.toNat,
            core := { mem := mem.toArray, a := a, b := b, c := c } }, bs)
  | _ => none

def serIsaac64 (r : Isaac.Rng64) : List U8 :=
  serU64s r.results.toList ++ serUsize r.index ++ serBool r.halfUsed ++
  serU64s r.core.mem.toList ++ serU64s [r.core.a, r.core.b, r.core.c]

def deIsaac64 : De Isaac.Rng64 := fun bs =>
  match deMany deU64 256 bs with
  | none => none
  | some (results, bs) =>
  match deU64 bs with
  | none => none
  | some (index, bs) =>
  match deBool bs with
  | none => none
  | some (half, bs) =>
  match deMany deU64 256 bs with
  | none => none
  | some (mem, bs) =>
  match deMany deU64 3 bs with
  | some ([a, b, c], bs) =>
    some ({ results := results.toArray, index := index.toNat, halfUsed := half,
            core := { mem := mem.toArray, a := a, b := b, c := c } }, bs)
  | _ => none

end Serde

/-! ## `{:?}` and `{:#?}` of the state-hiding generators (core::fmt's debug_struct /
    debug_tuple rendering is modelled, not verified) -/
namespace Debug

def blockRng (outer blk core : String) (len index : Nat) (half : Option Bool) : String :=
  let h := match half with
    | some b => s!", half_used: {b}"
    | none => ""
  s!"{outer}({blk} \{ core: {core} \{}, result_len: {len}, index: {index}{h} })"

def blockRngPretty (outer blk core : String) (len index : Nat) (half : Option Bool) : String :=
  let h := match half with
    | some b => s!"        half_used: {b},\n"
    | none => ""
  s!"{outer}(\n    {blk} \{\n        core: {core} \{},\n        result_len: {len},\n        index: {index},\n{h}    },\n)"

def xorshift : String := "XorShiftRng {}"
def jitter : String := "JitterRng {}"
def hc128 (index : Nat) : String := blockRng "Hc128Rng" "BlockRng" "Hc128Core" 16 index none
def hc128Pretty (index : Nat) : String := blockRngPretty "Hc128Rng" "BlockRng" "Hc128Core" 16 index none
def isaac (index : Nat) : String := blockRng "IsaacRng" "BlockRng" "IsaacCore" 256 index none
def isaacPretty (index : Nat) : String := blockRngPretty "IsaacRng" "BlockRng" "IsaacCore" 256 index none
def isaac64 (index : Nat) (half : Bool) : String :=
  blockRng "Isaac64Rng" "BlockRng64" "Isaac64Core" 256 index (some half)
def isaac64Pretty (index : Nat) (half : Bool) : String :=
  blockRngPretty "Isaac64Rng" "BlockRng64" "Isaac64Core" 256 index (some half)

end Debug
end Rngs
