/-
  Rngs.Model.Words — machine words, little-endian byte codecs, arrays with Rust-like
  (total) indexing.  Core Lean only: this file is linked into the `modeldriver` executable.
-/
namespace Rngs

abbrev U8  := BitVec 8
abbrev U16 := BitVec 16
abbrev U32 := BitVec 32
abbrev U64 := BitVec 64

/-- `iter f k s = f (f (… (f s)))`, k times (core Lean has no `Nat.iterate`). -/
def iter {α : Type} (f : α → α) : Nat → α → α
  | 0,     s => s
  | k + 1, s => f (iter f k s)

/-! ## little-endian codecs (`to_le_bytes`, `from_le_bytes`, `rand_core::le::read_*_into`) -/

/-- `u32::to_le_bytes` -/
def U32.toLE (w : U32) : List U8 :=
  [w.setWidth 8, (w >>> 8).setWidth 8, (w >>> 16).setWidth 8, (w >>> 24).setWidth 8]

/-- `u64::to_le_bytes` -/
def U64.toLE (w : U64) : List U8 :=
  [w.setWidth 8, (w >>> 8).setWidth 8, (w >>> 16).setWidth 8, (w >>> 24).setWidth 8,
   (w >>> 32).setWidth 8, (w >>> 40).setWidth 8, (w >>> 48).setWidth 8, (w >>> 56).setWidth 8]

/-- `u32::from_le_bytes([b0,b1,b2,b3])` -/
def U32.ofLE (b0 b1 b2 b3 : U8) : U32 :=
  b0.setWidth 32 ||| (b1.setWidth 32 <<< 8) ||| (b2.setWidth 32 <<< 16) ||| (b3.setWidth 32 <<< 24)

/-- `u64::from_le_bytes` -/
def U64.ofLE (b0 b1 b2 b3 b4 b5 b6 b7 : U8) : U64 :=
  b0.setWidth 64 ||| (b1.setWidth 64 <<< 8) ||| (b2.setWidth 64 <<< 16) ||| (b3.setWidth 64 <<< 24) |||
  (b4.setWidth 64 <<< 32) ||| (b5.setWidth 64 <<< 40) ||| (b6.setWidth 64 <<< 48) ||| (b7.setWidth 64 <<< 56)

/-- byte `i` of a byte string; seeds have a fixed length in Rust, callers supply lists of that
    length (a precondition stated in every theorem), so the default is never used. -/
def byteAt (bs : List U8) (i : Nat) : U8 := bs.getD i 0

/-- the `i`-th little-endian u32 of a byte string (`read_u32_into`, element `i`) -/
def le32At (bs : List U8) (i : Nat) : U32 :=
  U32.ofLE (byteAt bs (4*i)) (byteAt bs (4*i+1)) (byteAt bs (4*i+2)) (byteAt bs (4*i+3))

/-- the `i`-th little-endian u64 of a byte string (`read_u64_into`, element `i`) -/
def le64At (bs : List U8) (i : Nat) : U64 :=
  U64.ofLE (byteAt bs (8*i)) (byteAt bs (8*i+1)) (byteAt bs (8*i+2)) (byteAt bs (8*i+3))
           (byteAt bs (8*i+4)) (byteAt bs (8*i+5)) (byteAt bs (8*i+6)) (byteAt bs (8*i+7))

/-- `read_u32_into(src, dst)` with `dst.len() = n` -/
def readU32s (bs : List U8) (n : Nat) : List U32 := (List.range n).map (le32At bs)
/-- `read_u64_into(src, dst)` with `dst.len() = n` -/
def readU64s (bs : List U8) (n : Nat) : List U64 := (List.range n).map (le64At bs)

def isAllZero (bs : List U8) : Bool := bs.all (· == 0)

/-! ## arrays with total indexing.  Rust indexing panics out of bounds; the model reads a
    default and ignores an out-of-bounds write.  `Model/Checked.lean` states the bounds and
    the C14 theorems show they always hold, so the defaults are never observed. -/

@[inline] def rd {α : Type} [Inhabited α] (a : Array α) (i : Nat) : α := a[i]!
@[inline] def wr {α : Type} (a : Array α) (i : Nat) (v : α) : Array α := a.setIfInBounds i v

end Rngs
