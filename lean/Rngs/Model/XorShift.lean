/-
  Rngs.Model.XorShift — rand_xorshift/src/lib.rs
-/
import Rngs.Model.Xoshiro
namespace Rngs
namespace XorShift

/-- state `x, y, z, w` as `S4 32` (`s0 = x`, …, `s3 = w`) -/
abbrev State := S4 32

def nextU32 (s : State) : U32 × State :=
  let x := s.s0
  let t := x ^^^ (x <<< 11)
  let w_ := s.s3
  let w := w_ ^^^ (w_ >>> 19) ^^^ (t ^^^ (t >>> 8))
  (w, ⟨s.s1, s.s2, s.s3, w⟩)

def step (s : State) : State := (nextU32 s).2
def direct : Direct State := ⟨nextU32, nextU64ViaU32 nextU32⟩
def nextU64 (s : State) : U64 × State := direct.nextU64 s
def fill (n : Nat) (s : State) : List U8 × State := fillBytesViaNext direct n s

def BAD_SEED : State := ⟨0xBAD5EED#32, 0xBAD5EED#32, 0xBAD5EED#32, 0xBAD5EED#32⟩

def fromSeed (seed : List U8) : State :=
  let u := S4.decode32 seed
  if u = S4.zero then BAD_SEED else u

/-- default `seed_from_u64` (PCG32 expansion) -/
def seedFromU64 (x : U64) : State := fromSeed (pcg32Seed 16 x)

/-- `from_rng`: `loop { rng.fill_bytes(b); if b != [0;16] { break } }`.  Fuel bounds the
    redraws; `diverged` is "still all-zero after `fuel` draws". -/
def fromRngFuel {ρ : Type} (fill : TryFill ρ) : Nat → ρ → Except SrcErr State × ρ
  | 0, src => (.error .diverged, src)
  | fuel + 1, src =>
    match fill src 16 with
    | (.ok b, src) =>
      if !isAllZero b then (.ok (S4.decode32 b), src) else fromRngFuel fill fuel src
    | (.error e, src) => (.error e, src)

/-- `try_from_rng`: a textual copy of `from_rng` with `?` -/
def tryFromRngFuel {ρ : Type} (fill : TryFill ρ) : Nat → ρ → Except SrcErr State × ρ
  | 0, src => (.error .diverged, src)
  | fuel + 1, src =>
    match fill src 16 with
    | (.ok b, src) =>
      if !isAllZero b then (.ok (S4.decode32 b), src) else tryFromRngFuel fill fuel src
    | (.error e, src) => (.error e, src)

end XorShift
end Rngs
