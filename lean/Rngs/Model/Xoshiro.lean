/-
  Rngs.Model.Xoshiro — rand_xoshiro: SplitMix64 and the 14 xoshiro/xoroshiro generators,
  transliterated macro by macro from rand_xoshiro/src/common.rs and the generator files.
-/
import Rngs.Model.RandCore
namespace Rngs

/-! ## state shapes -/

/-- `struct { s0, s1 }` -/
structure S2 (w : Nat) where
  s0 : BitVec w
  s1 : BitVec w
  deriving DecidableEq, Repr

/-- `struct { s: [_; 4] }` -/
structure S4 (w : Nat) where
  s0 : BitVec w
  s1 : BitVec w
  s2 : BitVec w
  s3 : BitVec w
  deriving DecidableEq, Repr

/-- `struct { s: [u64; 8] }` -/
structure S8 where
  s0 : U64
  s1 : U64
  s2 : U64
  s3 : U64
  s4 : U64
  s5 : U64
  s6 : U64
  s7 : U64
  deriving DecidableEq, Repr

def S2.xor {w} (a b : S2 w) : S2 w := ⟨a.s0 ^^^ b.s0, a.s1 ^^^ b.s1⟩
def S4.xor {w} (a b : S4 w) : S4 w := ⟨a.s0 ^^^ b.s0, a.s1 ^^^ b.s1, a.s2 ^^^ b.s2, a.s3 ^^^ b.s3⟩
def S8.xor (a b : S8) : S8 :=
  ⟨a.s0 ^^^ b.s0, a.s1 ^^^ b.s1, a.s2 ^^^ b.s2, a.s3 ^^^ b.s3,
   a.s4 ^^^ b.s4, a.s5 ^^^ b.s5, a.s6 ^^^ b.s6, a.s7 ^^^ b.s7⟩
def S2.zero {w} : S2 w := ⟨0, 0⟩
def S4.zero {w} : S4 w := ⟨0, 0, 0, 0⟩
def S8.zero : S8 := ⟨0, 0, 0, 0, 0, 0, 0, 0⟩

/-! ## scramblers (common.rs:17-43) -/

/-- `starstar_u64!`: `x.wrapping_mul(5).rotate_left(7).wrapping_mul(9)` (used at both widths) -/
def starstarU64 {w} (x : BitVec w) : BitVec w := ((x * 5).rotateLeft 7) * 9
/-- `starstar_u32!`: `x.wrapping_mul(0x9E3779BB).rotate_left(5).wrapping_mul(5)` -/
def starstarU32 (x : U32) : U32 := ((x * 0x9E3779BB#32).rotateLeft 5) * 5
/-- `plusplus_u64!($x, $y, $rot)` -/
def plusplusU64 (x y : U64) (rot : Nat) : U64 := ((x + y).rotateLeft rot) + x
/-- `plusplus_u32!($x, $y)` -/
def plusplusU32 (x y : U32) : U32 := ((x + y).rotateLeft 7) + x

/-! ## engines (common.rs:146-224), statement by statement -/

/-- `impl_xoroshiro_u32!` -/
def xoroshiroU32 (s : S2 32) : S2 32 :=
  let s1 := s.s1 ^^^ s.s0
  let s0 := s.s0.rotateLeft 26 ^^^ s1 ^^^ (s1 <<< 9)
  let s1 := s1.rotateLeft 13
  ⟨s0, s1⟩

/-- `impl_xoroshiro_u64!` -/
def xoroshiroU64 (s : S2 64) : S2 64 :=
  let s1 := s.s1 ^^^ s.s0
  let s0 := s.s0.rotateLeft 24 ^^^ s1 ^^^ (s1 <<< 16)
  let s1 := s1.rotateLeft 37
  ⟨s0, s1⟩

/-- `impl_xoroshiro_u64_plusplus!` -/
def xoroshiroU64pp (s : S2 64) : S2 64 :=
  let s1 := s.s1 ^^^ s.s0
  let s0 := s.s0.rotateLeft 49 ^^^ s1 ^^^ (s1 <<< 21)
  let s1 := s1.rotateLeft 28
  ⟨s0, s1⟩

/-- `impl_xoshiro_u32!` -/
def xoshiroU32 (s : S4 32) : S4 32 :=
  let t := s.s1 <<< 9
  let s2 := s.s2 ^^^ s.s0
  let s3 := s.s3 ^^^ s.s1
  let s1 := s.s1 ^^^ s2
  let s0 := s.s0 ^^^ s3
  let s2 := s2 ^^^ t
  let s3 := s3.rotateLeft 11
  ⟨s0, s1, s2, s3⟩

/-- `impl_xoshiro_u64!` -/
def xoshiroU64 (s : S4 64) : S4 64 :=
  let t := s.s1 <<< 17
  let s2 := s.s2 ^^^ s.s0
  let s3 := s.s3 ^^^ s.s1
  let s1 := s.s1 ^^^ s2
  let s0 := s.s0 ^^^ s3
  let s2 := s2 ^^^ t
  let s3 := s3.rotateLeft 45
  ⟨s0, s1, s2, s3⟩

/-- `impl_xoshiro_large!` -/
def xoshiroLarge (s : S8) : S8 :=
  let t := s.s1 <<< 11
  let s2 := s.s2 ^^^ s.s0
  let s5 := s.s5 ^^^ s.s1
  let s1 := s.s1 ^^^ s2
  let s7 := s.s7 ^^^ s.s3
  let s3 := s.s3 ^^^ s.s4
  let s4 := s.s4 ^^^ s5
  let s0 := s.s0 ^^^ s.s6
  let s6 := s.s6 ^^^ s7
  let s6 := s6 ^^^ t
  let s7 := s7.rotateLeft 21
  ⟨s0, s1, s2, s3, s4, s5, s6, s7⟩

/-! ## `impl_jump!` (common.rs:45-143) -/

/-- the inner `for b in 0..W` loop for one polynomial word `j` -/
def jumpWord {σ : Type} {w : Nat} (step : σ → σ) (xor : σ → σ → σ) (j : BitVec w)
    (p : σ × σ) : σ × σ :=
  (List.range w).foldl
    (fun (p : σ × σ) b =>
      let acc := if (j &&& (1#w <<< b)) ≠ 0#w then xor p.1 p.2 else p.1
      (acc, step p.2))
    p

/-- `impl_jump!(uN, self, [j0, …])`: accumulator starts at 0, final state is the accumulator -/
def jumpLoop {σ : Type} {w : Nat} (step : σ → σ) (xor : σ → σ → σ) (zero : σ)
    (words : List (BitVec w)) (s : σ) : σ :=
  (words.foldl (fun p j => jumpWord step xor j p) (zero, s)).1

/-! ## SplitMix64 (splitmix64.rs) -/

namespace SplitMix64
def PHI : U64 := 0x9e3779b97f4a7c15#64

def nextU32 (x : U64) : U32 × U64 :=
  let x := x + PHI
  let z := x
  let z := (z ^^^ (z >>> 33)) * 0x62A9D9ED799705F5#64
  let z := (z ^^^ (z >>> 28)) * 0xCB24D0A5C88C35B3#64
  ((z >>> 32).setWidth 32, x)

def nextU64 (x : U64) : U64 × U64 :=
  let x := x + PHI
  let z := x
  let z := (z ^^^ (z >>> 30)) * 0xbf58476d1ce4e5b9#64
  let z := (z ^^^ (z >>> 27)) * 0x94d049bb133111eb#64
  (z ^^^ (z >>> 31), x)

def direct : Direct U64 := ⟨nextU32, nextU64⟩
def fill (n : Nat) (x : U64) : List U8 × U64 := fillBytesViaNext direct n x
def fromSeed (seed : List U8) : U64 := le64At seed 0
def seedFromU64 (x : U64) : U64 := fromSeed (U64.toLE x)
end SplitMix64

/-! ## the 14 linear generators -/

/-- Everything a xoshiro-family generator defines, as data. `decode` is the part of
    `from_seed` after `deal_with_zero_seed!`. -/
structure XoGen (σ : Type) where
  name : String
  seedLen : Nat
  decode : List U8 → σ
  nextU32 : σ → U32 × σ
  nextU64 : σ → U64 × σ
  jump : Option (σ → σ)
  longJump : Option (σ → σ)

def S2.decode32 (seed : List U8) : S2 32 := ⟨le32At seed 0, le32At seed 1⟩
def S2.decode64 (seed : List U8) : S2 64 := ⟨le64At seed 0, le64At seed 1⟩
def S4.decode32 (seed : List U8) : S4 32 := ⟨le32At seed 0, le32At seed 1, le32At seed 2, le32At seed 3⟩
def S4.decode64 (seed : List U8) : S4 64 := ⟨le64At seed 0, le64At seed 1, le64At seed 2, le64At seed 3⟩
def S8.decode (seed : List U8) : S8 :=
  ⟨le64At seed 0, le64At seed 1, le64At seed 2, le64At seed 3,
   le64At seed 4, le64At seed 5, le64At seed 6, le64At seed 7⟩

/-- `(self.next_u64() >> 32) as u32` -/
def upperHalf {σ : Type} (n64 : σ → U64 × σ) (s : σ) : U32 × σ :=
  let (r, s) := n64 s
  ((r >>> 32).setWidth 32, s)
/-- `self.next_u64() as u32` -/
def lowerHalf {σ : Type} (n64 : σ → U64 × σ) (s : σ) : U32 × σ :=
  let (r, s) := n64 s
  (r.setWidth 32, s)

namespace Xoroshiro64Star
def nextU32 (s : S2 32) : U32 × S2 32 :=
  let r := s.s0 * 0x9E3779BB#32
  (r, xoroshiroU32 s)
def gen : XoGen (S2 32) :=
  ⟨"Xoroshiro64Star", 8, S2.decode32, nextU32, nextU64ViaU32 nextU32, none, none⟩
end Xoroshiro64Star

namespace Xoroshiro64StarStar
def nextU32 (s : S2 32) : U32 × S2 32 :=
  let r := starstarU32 s.s0
  (r, xoroshiroU32 s)
def gen : XoGen (S2 32) :=
  ⟨"Xoroshiro64StarStar", 8, S2.decode32, nextU32, nextU64ViaU32 nextU32, none, none⟩
end Xoroshiro64StarStar

def XOROSHIRO128_JUMP : List U64 := [0xdf900294d8f554a5#64, 0x170865df4b3201fc#64]
def XOROSHIRO128_LONG_JUMP : List U64 := [0xd2a98b26625eee7b#64, 0xdddf9b1090aa7ac1#64]
def XOROSHIRO128PP_JUMP : List U64 := [0x2bd7a6a6e99c2ddc#64, 0x0992ccaf6a6fca05#64]
def XOROSHIRO128PP_LONG_JUMP : List U64 := [0x360fd5f2cf8d5d99#64, 0x9c6e6877736c46e3#64]

namespace Xoroshiro128Plus
def nextU64 (s : S2 64) : U64 × S2 64 :=
  let r := s.s0 + s.s1
  (r, xoroshiroU64 s)
def step (s : S2 64) : S2 64 := (nextU64 s).2
def jump (s : S2 64) : S2 64 := jumpLoop step S2.xor S2.zero XOROSHIRO128_JUMP s
def longJump (s : S2 64) : S2 64 := jumpLoop step S2.xor S2.zero XOROSHIRO128_LONG_JUMP s
def gen : XoGen (S2 64) :=
  ⟨"Xoroshiro128Plus", 16, S2.decode64, upperHalf nextU64, nextU64, some jump, some longJump⟩
end Xoroshiro128Plus

namespace Xoroshiro128PlusPlus
def nextU64 (s : S2 64) : U64 × S2 64 :=
  let r := plusplusU64 s.s0 s.s1 17
  (r, xoroshiroU64pp s)
def step (s : S2 64) : S2 64 := (nextU64 s).2
def jump (s : S2 64) : S2 64 := jumpLoop step S2.xor S2.zero XOROSHIRO128PP_JUMP s
def longJump (s : S2 64) : S2 64 := jumpLoop step S2.xor S2.zero XOROSHIRO128PP_LONG_JUMP s
def gen : XoGen (S2 64) :=
  ⟨"Xoroshiro128PlusPlus", 16, S2.decode64, lowerHalf nextU64, nextU64, some jump, some longJump⟩
end Xoroshiro128PlusPlus

namespace Xoroshiro128StarStar
def nextU64 (s : S2 64) : U64 × S2 64 :=
  let r := starstarU64 s.s0
  (r, xoroshiroU64 s)
def step (s : S2 64) : S2 64 := (nextU64 s).2
def jump (s : S2 64) : S2 64 := jumpLoop step S2.xor S2.zero XOROSHIRO128_JUMP s
def longJump (s : S2 64) : S2 64 := jumpLoop step S2.xor S2.zero XOROSHIRO128_LONG_JUMP s
def gen : XoGen (S2 64) :=
  ⟨"Xoroshiro128StarStar", 16, S2.decode64, lowerHalf nextU64, nextU64, some jump, some longJump⟩
end Xoroshiro128StarStar

def XOSHIRO128_JUMP : List U32 := [0x8764000b#32, 0xf542d2d3#32, 0x6fa035c3#32, 0x77f2db5b#32]
def XOSHIRO128_LONG_JUMP : List U32 := [0xb523952e#32, 0x0b6f099f#32, 0xccf5a0ef#32, 0x1c580662#32]

namespace Xoshiro128Plus
def nextU32 (s : S4 32) : U32 × S4 32 :=
  let r := s.s0 + s.s3
  (r, xoshiroU32 s)
def step (s : S4 32) : S4 32 := (nextU32 s).2
def jump (s : S4 32) : S4 32 := jumpLoop step S4.xor S4.zero XOSHIRO128_JUMP s
def longJump (s : S4 32) : S4 32 := jumpLoop step S4.xor S4.zero XOSHIRO128_LONG_JUMP s
def gen : XoGen (S4 32) :=
  ⟨"Xoshiro128Plus", 16, S4.decode32, nextU32, nextU64ViaU32 nextU32, some jump, some longJump⟩
end Xoshiro128Plus

namespace Xoshiro128PlusPlus
def nextU32 (s : S4 32) : U32 × S4 32 :=
  let r := plusplusU32 s.s0 s.s3
  (r, xoshiroU32 s)
def step (s : S4 32) : S4 32 := (nextU32 s).2
def jump (s : S4 32) : S4 32 := jumpLoop step S4.xor S4.zero XOSHIRO128_JUMP s
def longJump (s : S4 32) : S4 32 := jumpLoop step S4.xor S4.zero XOSHIRO128_LONG_JUMP s
def gen : XoGen (S4 32) :=
  ⟨"Xoshiro128PlusPlus", 16, S4.decode32, nextU32, nextU64ViaU32 nextU32, some jump, some longJump⟩
end Xoshiro128PlusPlus

namespace Xoshiro128StarStar
def nextU32 (s : S4 32) : U32 × S4 32 :=
  let r := starstarU64 s.s1
  (r, xoshiroU32 s)
def step (s : S4 32) : S4 32 := (nextU32 s).2
def jump (s : S4 32) : S4 32 := jumpLoop step S4.xor S4.zero XOSHIRO128_JUMP s
def longJump (s : S4 32) : S4 32 := jumpLoop step S4.xor S4.zero XOSHIRO128_LONG_JUMP s
def gen : XoGen (S4 32) :=
  ⟨"Xoshiro128StarStar", 16, S4.decode32, nextU32, nextU64ViaU32 nextU32, some jump, some longJump⟩
end Xoshiro128StarStar

def XOSHIRO256_JUMP : List U64 :=
  [0x180ec6d33cfd0aba#64, 0xd5a61266f0c9392c#64, 0xa9582618e03fc9aa#64, 0x39abdc4529b1661c#64]
def XOSHIRO256_LONG_JUMP : List U64 :=
  [0x76e15d3efefdcbbf#64, 0xc5004e441c522fb3#64, 0x77710069854ee241#64, 0x39109bb02acbe635#64]

namespace Xoshiro256Plus
def nextU64 (s : S4 64) : U64 × S4 64 :=
  let r := s.s0 + s.s3
  (r, xoshiroU64 s)
def step (s : S4 64) : S4 64 := (nextU64 s).2
def jump (s : S4 64) : S4 64 := jumpLoop step S4.xor S4.zero XOSHIRO256_JUMP s
def longJump (s : S4 64) : S4 64 := jumpLoop step S4.xor S4.zero XOSHIRO256_LONG_JUMP s
def gen : XoGen (S4 64) :=
  ⟨"Xoshiro256Plus", 32, S4.decode64, upperHalf nextU64, nextU64, some jump, some longJump⟩
end Xoshiro256Plus

namespace Xoshiro256PlusPlus
def nextU64 (s : S4 64) : U64 × S4 64 :=
  let r := plusplusU64 s.s0 s.s3 23
  (r, xoshiroU64 s)
def step (s : S4 64) : S4 64 := (nextU64 s).2
def jump (s : S4 64) : S4 64 := jumpLoop step S4.xor S4.zero XOSHIRO256_JUMP s
def longJump (s : S4 64) : S4 64 := jumpLoop step S4.xor S4.zero XOSHIRO256_LONG_JUMP s
def gen : XoGen (S4 64) :=
  ⟨"Xoshiro256PlusPlus", 32, S4.decode64, upperHalf nextU64, nextU64, some jump, some longJump⟩
end Xoshiro256PlusPlus

namespace Xoshiro256StarStar
def nextU64 (s : S4 64) : U64 × S4 64 :=
  let r := starstarU64 s.s1
  (r, xoshiroU64 s)
def step (s : S4 64) : S4 64 := (nextU64 s).2
def jump (s : S4 64) : S4 64 := jumpLoop step S4.xor S4.zero XOSHIRO256_JUMP s
def longJump (s : S4 64) : S4 64 := jumpLoop step S4.xor S4.zero XOSHIRO256_LONG_JUMP s
def gen : XoGen (S4 64) :=
  ⟨"Xoshiro256StarStar", 32, S4.decode64, upperHalf nextU64, nextU64, some jump, some longJump⟩
end Xoshiro256StarStar

def XOSHIRO512_JUMP : List U64 :=
  [0x33ed89b6e7a353f9#64, 0x760083d7955323be#64, 0x2837f2fbb5f22fae#64, 0x4b8c5674d309511c#64,
   0xb11ac47a7ba28c25#64, 0xf1be7667092bcc1c#64, 0x53851efdb6df0aaf#64, 0x1ebbc8b23eaf25db#64]
def XOSHIRO512_LONG_JUMP : List U64 :=
  [0x11467fef8f921d28#64, 0xa2a819f2e79c8ea8#64, 0xa8299fc284b3959a#64, 0xb4d347340ca63ee1#64,
   0x1cb0940bedbff6ce#64, 0xd956c5c4fa1f8e17#64, 0x915e38fd4eda93bc#64, 0x5b3ccdfa5d7daca5#64]

namespace Xoshiro512Plus
def nextU64 (s : S8) : U64 × S8 :=
  let r := s.s0 + s.s2
  (r, xoshiroLarge s)
def step (s : S8) : S8 := (nextU64 s).2
def jump (s : S8) : S8 := jumpLoop step S8.xor S8.zero XOSHIRO512_JUMP s
def longJump (s : S8) : S8 := jumpLoop step S8.xor S8.zero XOSHIRO512_LONG_JUMP s
def gen : XoGen S8 :=
  ⟨"Xoshiro512Plus", 64, S8.decode, upperHalf nextU64, nextU64, some jump, some longJump⟩
end Xoshiro512Plus

namespace Xoshiro512PlusPlus
def nextU64 (s : S8) : U64 × S8 :=
  let r := plusplusU64 s.s2 s.s0 17
  (r, xoshiroLarge s)
def step (s : S8) : S8 := (nextU64 s).2
def jump (s : S8) : S8 := jumpLoop step S8.xor S8.zero XOSHIRO512_JUMP s
def longJump (s : S8) : S8 := jumpLoop step S8.xor S8.zero XOSHIRO512_LONG_JUMP s
def gen : XoGen S8 :=
  ⟨"Xoshiro512PlusPlus", 64, S8.decode, upperHalf nextU64, nextU64, some jump, some longJump⟩
end Xoshiro512PlusPlus

namespace Xoshiro512StarStar
def nextU64 (s : S8) : U64 × S8 :=
  let r := starstarU64 s.s1
  (r, xoshiroLarge s)
def step (s : S8) : S8 := (nextU64 s).2
def jump (s : S8) : S8 := jumpLoop step S8.xor S8.zero XOSHIRO512_JUMP s
def longJump (s : S8) : S8 := jumpLoop step S8.xor S8.zero XOSHIRO512_LONG_JUMP s
def gen : XoGen S8 :=
  ⟨"Xoshiro512StarStar", 64, S8.decode, upperHalf nextU64, nextU64, some jump, some longJump⟩
end Xoshiro512StarStar

/-! ## seeding (shared by all 14): `deal_with_zero_seed!`, `from_splitmix!` -/

namespace XoGen
variable {σ : Type}

def direct (g : XoGen σ) : Direct σ := ⟨g.nextU32, g.nextU64⟩
def fill (g : XoGen σ) (n : Nat) (s : σ) : List U8 × σ := fillBytesViaNext g.direct n s

/-- `from_seed` and `seed_from_u64` call each other (`deal_with_zero_seed!` →
    `seed_from_u64(0)` → `from_splitmix!` → default `from_rng` → `from_seed`).  The recursion
    is modelled with fuel; `none` would be non-termination.  Theorem `C08.fromSeed_total`
    shows fuel 3 always suffices. -/
def fromSeedFuel (g : XoGen σ) : Nat → List U8 → Option σ
  | 0, _ => none
  | fuel + 1, seed =>
    if isAllZero seed then
      -- `return Self::seed_from_u64(0)`; `from_splitmix!(0)`:
      let rng := SplitMix64.seedFromU64 0
      let (bytes, _) := SplitMix64.fill g.seedLen rng
      fromSeedFuel g fuel bytes
    else some (g.decode seed)

def seedFromU64Fuel (g : XoGen σ) (fuel : Nat) (x : U64) : Option σ :=
  let rng := SplitMix64.seedFromU64 x
  let (bytes, _) := SplitMix64.fill g.seedLen rng
  g.fromSeedFuel fuel bytes

def FUEL : Nat := 3
def fromSeed? (g : XoGen σ) (seed : List U8) : Option σ := g.fromSeedFuel FUEL seed
def seedFromU64? (g : XoGen σ) (x : U64) : Option σ := g.seedFromU64Fuel FUEL x

/-- default `from_rng` / `try_from_rng` of `SeedableRng`, composed with this `from_seed` -/
def fromRng? {ρ : Type} (g : XoGen σ) (fill : TryFill ρ) (src : ρ) : Except SrcErr (Option σ) × ρ :=
  fromRngDefault g.seedLen g.fromSeed? fill src

end XoGen

end Rngs
