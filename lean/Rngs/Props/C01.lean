/-
  C01 — xoshiro/xoroshiro/SplitMix64 output equals the Blackman–Vigna reference.
  For each of the 15 generators: from *every* state one model step returns the reference output
  word and reaches the reference successor state (Spec/Vigna.lean: C unsigned arithmetic over ℕ),
  hence every stream position agrees (induction), and `from_seed` of a seed that is not all zero
  starts from the state whose words are the little-endian words of the seed.
-/
import Rngs.Model.Xoshiro
import Rngs.Lib.NatSem
namespace Rngs.C01
open Rngs Rngs.Spec Rngs.NatSem

/-! abstraction: model state ↦ reference state -/
def abs2 {w} (s : S2 w) : Vigna.St2 := ⟨s.s0.toNat, s.s1.toNat⟩
def abs4 {w} (s : S4 w) : Vigna.St4 := ⟨s.s0.toNat, s.s1.toNat, s.s2.toNat, s.s3.toNat⟩
def abs8 (s : S8) : Vigna.St8 :=
  ⟨s.s0.toNat, s.s1.toNat, s.s2.toNat, s.s3.toNat, s.s4.toNat, s.s5.toNat, s.s6.toNat, s.s7.toNat⟩

/-- the model's native output stream from a state -/
def mstream {σ : Type} {w : Nat} (next : σ → BitVec w × σ) : σ → Nat → BitVec w
  | s, 0 => (next s).1
  | s, k + 1 => mstream next (next s).2 k

/-- one-step agreement lifts to every stream position -/
theorem stream_of_step {σ τ : Type} {w : Nat} (next : σ → BitVec w × σ) (ref : τ → Nat × τ) (abs : σ → τ)
    (h : ∀ s, ((next s).1.toNat, abs (next s).2) = ref (abs s)) (s : σ) (k : Nat) :
    (mstream next s k).toNat = Vigna.stream ref (abs s) k := by
  induction k generalizing s with
  | zero => simp only [mstream, Vigna.stream]; exact congrArg Prod.fst (h s)
  | succ k ih =>
    simp only [mstream, Vigna.stream]
    rw [ih]
    exact congrArg (fun p => Vigna.stream ref p.2 k) (h s)

macro "c01_step" : tactic => `(tactic| (
  simp (disch := decide) only [
    Xoroshiro64Star.nextU32, Xoroshiro64StarStar.nextU32, Xoroshiro128Plus.nextU64, Xoroshiro128PlusPlus.nextU64,
    Xoroshiro128StarStar.nextU64, Xoshiro128Plus.nextU32, Xoshiro128PlusPlus.nextU32, Xoshiro128StarStar.nextU32,
    Xoshiro256Plus.nextU64, Xoshiro256PlusPlus.nextU64, Xoshiro256StarStar.nextU64, Xoshiro512Plus.nextU64,
    Xoshiro512PlusPlus.nextU64, Xoshiro512StarStar.nextU64,
    Vigna.xoroshiro64star, Vigna.xoroshiro64starstar, Vigna.xoroshiro128plus, Vigna.xoroshiro128plusplus,
    Vigna.xoroshiro128starstar, Vigna.xoshiro128plus, Vigna.xoshiro128plusplus, Vigna.xoshiro128starstar,
    Vigna.xoshiro256plus, Vigna.xoshiro256plusplus, Vigna.xoshiro256starstar, Vigna.xoshiro512plus,
    Vigna.xoshiro512plusplus, Vigna.xoshiro512starstar,
    abs2, abs4, abs8, xoroshiroU32, xoroshiroU64, xoroshiroU64pp, xoshiroU32, xoshiroU64, xoshiroLarge,
    starstarU32, starstarU64, plusplusU32, plusplusU64,
    Vigna.xoroshiro, Vigna.xoshiro, Vigna.xoshiro512,
    toNat_xor, toNat_shl, toNat_mul, toNat_add, toNat_rotl]
  <;> rfl))

/-! ### one step from every state -/
theorem Xoroshiro64Star_step (s : S2 32) :
    ((Xoroshiro64Star.nextU32 s).1.toNat, abs2 (Xoroshiro64Star.nextU32 s).2) = Vigna.xoroshiro64star (abs2 s) := by c01_step
theorem Xoroshiro64StarStar_step (s : S2 32) :
    ((Xoroshiro64StarStar.nextU32 s).1.toNat, abs2 (Xoroshiro64StarStar.nextU32 s).2) = Vigna.xoroshiro64starstar (abs2 s) := by c01_step
theorem Xoroshiro128Plus_step (s : S2 64) :
    ((Xoroshiro128Plus.nextU64 s).1.toNat, abs2 (Xoroshiro128Plus.nextU64 s).2) = Vigna.xoroshiro128plus (abs2 s) := by c01_step
theorem Xoroshiro128PlusPlus_step (s : S2 64) :
    ((Xoroshiro128PlusPlus.nextU64 s).1.toNat, abs2 (Xoroshiro128PlusPlus.nextU64 s).2) = Vigna.xoroshiro128plusplus (abs2 s) := by c01_step
theorem Xoroshiro128StarStar_step (s : S2 64) :
    ((Xoroshiro128StarStar.nextU64 s).1.toNat, abs2 (Xoroshiro128StarStar.nextU64 s).2) = Vigna.xoroshiro128starstar (abs2 s) := by c01_step
theorem Xoshiro128Plus_step (s : S4 32) :
    ((Xoshiro128Plus.nextU32 s).1.toNat, abs4 (Xoshiro128Plus.nextU32 s).2) = Vigna.xoshiro128plus (abs4 s) := by c01_step
theorem Xoshiro128PlusPlus_step (s : S4 32) :
    ((Xoshiro128PlusPlus.nextU32 s).1.toNat, abs4 (Xoshiro128PlusPlus.nextU32 s).2) = Vigna.xoshiro128plusplus (abs4 s) := by c01_step
theorem Xoshiro128StarStar_step (s : S4 32) :
    ((Xoshiro128StarStar.nextU32 s).1.toNat, abs4 (Xoshiro128StarStar.nextU32 s).2) = Vigna.xoshiro128starstar (abs4 s) := by c01_step
theorem Xoshiro256Plus_step (s : S4 64) :
    ((Xoshiro256Plus.nextU64 s).1.toNat, abs4 (Xoshiro256Plus.nextU64 s).2) = Vigna.xoshiro256plus (abs4 s) := by c01_step
theorem Xoshiro256PlusPlus_step (s : S4 64) :
    ((Xoshiro256PlusPlus.nextU64 s).1.toNat, abs4 (Xoshiro256PlusPlus.nextU64 s).2) = Vigna.xoshiro256plusplus (abs4 s) := by c01_step
theorem Xoshiro256StarStar_step (s : S4 64) :
    ((Xoshiro256StarStar.nextU64 s).1.toNat, abs4 (Xoshiro256StarStar.nextU64 s).2) = Vigna.xoshiro256starstar (abs4 s) := by c01_step
theorem Xoshiro512Plus_step (s : S8) :
    ((Xoshiro512Plus.nextU64 s).1.toNat, abs8 (Xoshiro512Plus.nextU64 s).2) = Vigna.xoshiro512plus (abs8 s) := by c01_step
theorem Xoshiro512PlusPlus_step (s : S8) :
    ((Xoshiro512PlusPlus.nextU64 s).1.toNat, abs8 (Xoshiro512PlusPlus.nextU64 s).2) = Vigna.xoshiro512plusplus (abs8 s) := by
  -- the Rust computes `s[2] + s[0]`, the C reference `s[0] + s[2]`
  have hc : Vigna.add 64 s.s2.toNat s.s0.toNat = Vigna.add 64 s.s0.toNat s.s2.toNat := by
    simp only [Vigna.add, Nat.add_comm]
  simp (disch := decide) only [Xoshiro512PlusPlus.nextU64, Vigna.xoshiro512plusplus, abs8, xoshiroLarge, plusplusU64,
    Vigna.xoshiro512, toNat_xor, toNat_shl, toNat_add, toNat_rotl, hc]
theorem Xoshiro512StarStar_step (s : S8) :
    ((Xoshiro512StarStar.nextU64 s).1.toNat, abs8 (Xoshiro512StarStar.nextU64 s).2) = Vigna.xoshiro512starstar (abs8 s) := by c01_step

theorem shr32_mul_lt (a b : Nat) : Vigna.shr (Vigna.mul 64 a b) 32 < 2 ^ 32 := by
  unfold Vigna.shr Vigna.mul
  have h : a * b % 2 ^ 64 < 2 ^ 64 := Nat.mod_lt _ (by decide)
  omega

/-- SplitMix64: `next_u64` is splitmix64.c -/
theorem SplitMix64_step_u64 (x : U64) :
    ((SplitMix64.nextU64 x).1.toNat, (SplitMix64.nextU64 x).2.toNat) = Vigna.splitmix64 x.toNat := by
  simp only [SplitMix64.nextU64, SplitMix64.PHI, Vigna.splitmix64, toNat_xor, toNat_shr, toNat_mul, toNat_add,
    BitVec.toNat_ofNat, Nat.reducePow, Nat.reduceMod]

/-- SplitMix64: `next_u32` is the dsiutils Mix4 finaliser of the same counter step -/
theorem SplitMix64_step_u32 (x : U64) :
    ((SplitMix64.nextU32 x).1.toNat, (SplitMix64.nextU32 x).2.toNat) = Vigna.splitmix64Mix4 x.toNat := by
  simp only [SplitMix64.nextU32, SplitMix64.PHI, Vigna.splitmix64Mix4, toNat_xor, toNat_shr, toNat_mul, toNat_add,
    BitVec.toNat_setWidth, Nat.mod_eq_of_lt (shr32_mul_lt _ _), BitVec.toNat_ofNat, Nat.reducePow, Nat.reduceMod]

/-! ### every stream position (induction over single steps) -/
theorem Xoroshiro64Star_stream (s : S2 32) (k : Nat) :
    (mstream Xoroshiro64Star.nextU32 s k).toNat = Vigna.stream Vigna.xoroshiro64star (abs2 s) k :=
  stream_of_step _ _ abs2 Xoroshiro64Star_step s k
theorem Xoroshiro64StarStar_stream (s : S2 32) (k : Nat) :
    (mstream Xoroshiro64StarStar.nextU32 s k).toNat = Vigna.stream Vigna.xoroshiro64starstar (abs2 s) k :=
  stream_of_step _ _ abs2 Xoroshiro64StarStar_step s k
theorem Xoroshiro128Plus_stream (s : S2 64) (k : Nat) :
    (mstream Xoroshiro128Plus.nextU64 s k).toNat = Vigna.stream Vigna.xoroshiro128plus (abs2 s) k :=
  stream_of_step _ _ abs2 Xoroshiro128Plus_step s k
theorem Xoroshiro128PlusPlus_stream (s : S2 64) (k : Nat) :
    (mstream Xoroshiro128PlusPlus.nextU64 s k).toNat = Vigna.stream Vigna.xoroshiro128plusplus (abs2 s) k :=
  stream_of_step _ _ abs2 Xoroshiro128PlusPlus_step s k
theorem Xoroshiro128StarStar_stream (s : S2 64) (k : Nat) :
    (mstream Xoroshiro128StarStar.nextU64 s k).toNat = Vigna.stream Vigna.xoroshiro128starstar (abs2 s) k :=
  stream_of_step _ _ abs2 Xoroshiro128StarStar_step s k
theorem Xoshiro128Plus_stream (s : S4 32) (k : Nat) :
    (mstream Xoshiro128Plus.nextU32 s k).toNat = Vigna.stream Vigna.xoshiro128plus (abs4 s) k :=
  stream_of_step _ _ abs4 Xoshiro128Plus_step s k
theorem Xoshiro128PlusPlus_stream (s : S4 32) (k : Nat) :
    (mstream Xoshiro128PlusPlus.nextU32 s k).toNat = Vigna.stream Vigna.xoshiro128plusplus (abs4 s) k :=
  stream_of_step _ _ abs4 Xoshiro128PlusPlus_step s k
theorem Xoshiro128StarStar_stream (s : S4 32) (k : Nat) :
    (mstream Xoshiro128StarStar.nextU32 s k).toNat = Vigna.stream Vigna.xoshiro128starstar (abs4 s) k :=
  stream_of_step _ _ abs4 Xoshiro128StarStar_step s k
theorem Xoshiro256Plus_stream (s : S4 64) (k : Nat) :
    (mstream Xoshiro256Plus.nextU64 s k).toNat = Vigna.stream Vigna.xoshiro256plus (abs4 s) k :=
  stream_of_step _ _ abs4 Xoshiro256Plus_step s k
theorem Xoshiro256PlusPlus_stream (s : S4 64) (k : Nat) :
    (mstream Xoshiro256PlusPlus.nextU64 s k).toNat = Vigna.stream Vigna.xoshiro256plusplus (abs4 s) k :=
  stream_of_step _ _ abs4 Xoshiro256PlusPlus_step s k
theorem Xoshiro256StarStar_stream (s : S4 64) (k : Nat) :
    (mstream Xoshiro256StarStar.nextU64 s k).toNat = Vigna.stream Vigna.xoshiro256starstar (abs4 s) k :=
  stream_of_step _ _ abs4 Xoshiro256StarStar_step s k
theorem Xoshiro512Plus_stream (s : S8) (k : Nat) :
    (mstream Xoshiro512Plus.nextU64 s k).toNat = Vigna.stream Vigna.xoshiro512plus (abs8 s) k :=
  stream_of_step _ _ abs8 Xoshiro512Plus_step s k
theorem Xoshiro512PlusPlus_stream (s : S8) (k : Nat) :
    (mstream Xoshiro512PlusPlus.nextU64 s k).toNat = Vigna.stream Vigna.xoshiro512plusplus (abs8 s) k :=
  stream_of_step _ _ abs8 Xoshiro512PlusPlus_step s k
theorem Xoshiro512StarStar_stream (s : S8) (k : Nat) :
    (mstream Xoshiro512StarStar.nextU64 s k).toNat = Vigna.stream Vigna.xoshiro512starstar (abs8 s) k :=
  stream_of_step _ _ abs8 Xoshiro512StarStar_step s k
theorem SplitMix64_stream (x : U64) (k : Nat) :
    (mstream SplitMix64.nextU64 x k).toNat = Vigna.stream Vigna.splitmix64 x.toNat k :=
  stream_of_step _ _ BitVec.toNat SplitMix64_step_u64 x k
theorem SplitMix64_stream_u32 (x : U64) (k : Nat) :
    (mstream SplitMix64.nextU32 x k).toNat = Vigna.stream Vigna.splitmix64Mix4 x.toNat k :=
  stream_of_step _ _ BitVec.toNat SplitMix64_step_u32 x k

/-! ### `from_seed`: a seed that is not all zero is used verbatim (little-endian words) -/
theorem fromSeed_verbatim {σ : Type} (g : XoGen σ) (seed : List U8) (h : isAllZero seed = false) :
    g.fromSeed? seed = some (g.decode seed) := by
  simp [XoGen.fromSeed?, XoGen.FUEL, XoGen.fromSeedFuel, h]

/-- SplitMix64: `from_seed` reads the counter little-endian, for every seed -/
theorem SplitMix64_fromSeed (seed : List U8) : SplitMix64.fromSeed seed = le64At seed 0 := rfl

/-- the decoders read the little-endian words of the seed in order -/
theorem decode_words :
    (∀ seed, S2.decode32 seed = ⟨le32At seed 0, le32At seed 1⟩) ∧
    (∀ seed, S2.decode64 seed = ⟨le64At seed 0, le64At seed 1⟩) ∧
    (∀ seed, S4.decode32 seed = ⟨le32At seed 0, le32At seed 1, le32At seed 2, le32At seed 3⟩) ∧
    (∀ seed, S4.decode64 seed = ⟨le64At seed 0, le64At seed 1, le64At seed 2, le64At seed 3⟩) ∧
    (∀ seed, S8.decode seed = ⟨le64At seed 0, le64At seed 1, le64At seed 2, le64At seed 3,
                               le64At seed 4, le64At seed 5, le64At seed 6, le64At seed 7⟩) :=
  ⟨fun _ => rfl, fun _ => rfl, fun _ => rfl, fun _ => rfl, fun _ => rfl⟩

/-- **End to end** (the property as worded): for every seed that is not all zero, `from_seed(seed)`
    is a generator whose native output at *every* stream position k is the reference value at
    position k, the reference being started from the state whose words are the little-endian words
    of the seed.  Generic in the generator; the 14 instances follow. -/
theorem end_to_end {σ τ : Type} {w : Nat} (g : XoGen σ) (next : σ → BitVec w × σ) (ref : τ → Nat × τ) (abs : σ → τ)
    (hstep : ∀ s, ((next s).1.toNat, abs (next s).2) = ref (abs s))
    (seed : List U8) (hz : isAllZero seed = false) (k : Nat) :
    ∃ st, g.fromSeed? seed = some st ∧ st = g.decode seed ∧
      (mstream next st k).toNat = Vigna.stream ref (abs (g.decode seed)) k :=
  ⟨g.decode seed, fromSeed_verbatim g seed hz, rfl, stream_of_step next ref abs hstep _ k⟩

theorem Xoroshiro64Star_end_to_end (seed : List U8) (hz : isAllZero seed = false) (k : Nat) :
    ∃ st, Xoroshiro64Star.gen.fromSeed? seed = some st ∧
      (mstream Xoroshiro64Star.nextU32 st k).toNat =
        Vigna.stream Vigna.xoroshiro64star ⟨(le32At seed 0).toNat, (le32At seed 1).toNat⟩ k := by
  obtain ⟨st, h1, _, h3⟩ := end_to_end Xoroshiro64Star.gen _ _ abs2 Xoroshiro64Star_step seed hz k
  exact ⟨st, h1, h3⟩
theorem Xoroshiro128PlusPlus_end_to_end (seed : List U8) (hz : isAllZero seed = false) (k : Nat) :
    ∃ st, Xoroshiro128PlusPlus.gen.fromSeed? seed = some st ∧
      (mstream Xoroshiro128PlusPlus.nextU64 st k).toNat =
        Vigna.stream Vigna.xoroshiro128plusplus ⟨(le64At seed 0).toNat, (le64At seed 1).toNat⟩ k := by
  obtain ⟨st, h1, _, h3⟩ := end_to_end Xoroshiro128PlusPlus.gen _ _ abs2 Xoroshiro128PlusPlus_step seed hz k
  exact ⟨st, h1, h3⟩
theorem Xoshiro128StarStar_end_to_end (seed : List U8) (hz : isAllZero seed = false) (k : Nat) :
    ∃ st, Xoshiro128StarStar.gen.fromSeed? seed = some st ∧
      (mstream Xoshiro128StarStar.nextU32 st k).toNat =
        Vigna.stream Vigna.xoshiro128starstar
          ⟨(le32At seed 0).toNat, (le32At seed 1).toNat, (le32At seed 2).toNat, (le32At seed 3).toNat⟩ k := by
  obtain ⟨st, h1, _, h3⟩ := end_to_end Xoshiro128StarStar.gen _ _ abs4 Xoshiro128StarStar_step seed hz k
  exact ⟨st, h1, h3⟩
theorem Xoshiro256PlusPlus_end_to_end (seed : List U8) (hz : isAllZero seed = false) (k : Nat) :
    ∃ st, Xoshiro256PlusPlus.gen.fromSeed? seed = some st ∧
      (mstream Xoshiro256PlusPlus.nextU64 st k).toNat =
        Vigna.stream Vigna.xoshiro256plusplus
          ⟨(le64At seed 0).toNat, (le64At seed 1).toNat, (le64At seed 2).toNat, (le64At seed 3).toNat⟩ k := by
  obtain ⟨st, h1, _, h3⟩ := end_to_end Xoshiro256PlusPlus.gen _ _ abs4 Xoshiro256PlusPlus_step seed hz k
  exact ⟨st, h1, h3⟩
theorem Xoshiro512StarStar_end_to_end (seed : List U8) (hz : isAllZero seed = false) (k : Nat) :
    ∃ st, Xoshiro512StarStar.gen.fromSeed? seed = some st ∧
      (mstream Xoshiro512StarStar.nextU64 st k).toNat =
        Vigna.stream Vigna.xoshiro512starstar (abs8 (S8.decode seed)) k := by
  obtain ⟨st, h1, _, h3⟩ := end_to_end Xoshiro512StarStar.gen _ _ abs8 Xoshiro512StarStar_step seed hz k
  exact ⟨st, h1, h3⟩

/-- non-vacuity: a non-zero seed exists and the reference is anchored to the published test
    vector of xoroshiro64star.c used in the crate (seed words 1, 2 → 2654435771, 327208753). -/
example : isAllZero [1, 0, 0, 0, 2, 0, 0, 0] = false := by decide
example : (Vigna.stream Vigna.xoroshiro64star ⟨1, 2⟩ 0, Vigna.stream Vigna.xoroshiro64star ⟨1, 2⟩ 1)
    = (2654435771, 327208753) := by decide

end Rngs.C01
