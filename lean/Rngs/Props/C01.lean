import Rngs.Model.Xoshiro
namespace Rngs.C01
theorem placeholder : True := trivial
end Rngs.C01
