/-
  Rngs.Props.C02 — Hc128Rng / Hc128Core::generate produce the HC-128 keystream of Hongjun
  Wu's specification (`Rngs.Spec.Wu`, written from the paper) for every 32-byte seed
  (key = bytes 0..15, IV = bytes 16..31, little-endian 32-bit words) at every position.

  Model: `Rngs.Hc128` (transliteration of rand_hc/src/hc128.rs).  Proof libraries:
  `Rngs.Lib.Hc128Basic` (abstraction relation, one step), `Hc128Gen` (index table of the
  unrolled block, `generate`, `sixteen_steps`), `Hc128Init` (key/IV expansion, set-up),
  `Hc128Block` (composition, `BlockRng::next_u32`), `Hc128Packed` (a bit-packed evaluator
  proved equal to `Wu.keystream`, used only to kernel-check the paper's test vectors).

  All theorems hold for every `seed : List U8`; bytes beyond the end of a short list read
  as 0 (`byteAt`), so no length hypothesis is needed (Rust seeds have exactly 32 bytes).
  All positions `b`, `k` are arbitrary natural numbers: in particular the statements cover
  every alternation of the 512-step P and Q phases, every refill of the 16-word buffer,
  every wrap of the 1024-step table cycle, and every wrap of the 64-bit `counter1024`
  (`core_tables` gives `counter = 16 b mod 2^64`; 1024 ∣ 2^64).
-/
import Rngs.Lib.Hc128Block
import Rngs.Lib.Hc128Packed
namespace Rngs.C02
open Rngs Rngs.Spec

/-- the 128-bit key: seed bytes 0 … 15 as four little-endian words -/
def key (seed : List U8) : Vector U32 4 :=
  #v[le32At seed 0, le32At seed 1, le32At seed 2, le32At seed 3]

/-- the 128-bit IV: seed bytes 16 … 31 as four little-endian words -/
def iv (seed : List U8) : Vector U32 4 :=
  #v[le32At seed 4, le32At seed 5, le32At seed 6, le32At seed 7]

/-- `Hc128Core::from_seed(seed)` after `b` calls of `generate`.  (The results buffer handed
    to `generate` has no influence on the core: `generate_core_indep`.) -/
def coreAfter (seed : List U8) (b : Nat) : Hc128.Core :=
  iter (fun c => (Hc128.generate c (Array.replicate 16 0)).2) b (Hc128.fromSeedCore seed)

/-- `Hc128Rng::from_seed(seed)` after `k` calls of `next_u32` -/
def rngAfter (seed : List U8) (k : Nat) : Hc128.Rng :=
  iter (fun r => (Hc128.nextU32 r).2) k (Hc128.fromSeed seed)

/-- `generate` updates the core in the same way whatever results buffer it is given. -/
theorem generate_core_indep (c : Hc128.Core) (res res' : Array U32) :
    (Hc128.generate c res).2 = (Hc128.generate c res').2 :=
  Hc128R.generate_core_indep c res res'

/-- the core after `b` calls of `generate` when the `i`-th call is handed the buffer `bufs i` -/
def coreAfterWith (seed : List U8) (bufs : Nat → Array U32) : Nat → Hc128.Core
  | 0 => Hc128.fromSeedCore seed
  | b + 1 => (Hc128.generate (coreAfterWith seed bufs b) (bufs b)).2

/-- … which is `coreAfter seed b` for every choice of buffers. -/
theorem coreAfterWith_eq (seed : List U8) (bufs : Nat → Array U32) (b : Nat) :
    coreAfterWith seed bufs b = coreAfter seed b := by
  induction b with
  | zero => rfl
  | succ b ih =>
    show (Hc128.generate (coreAfterWith seed bufs b) (bufs b)).2 =
      (Hc128.generate (coreAfter seed b) (Array.replicate 16 0)).2
    rw [ih]
    exact generate_core_indep _ _ _

/-- Initialisation: the table built by `from_seed` is the pair of tables P, Q of the
    specification after its initialisation process (key/IV expansion and 1024 set-up
    steps), and the counter is 0. -/
theorem init_tables (seed : List U8) :
    (Hc128.fromSeedCore seed).t.size = 1024 ∧
    (∀ j, j < 512 → rd (Hc128.fromSeedCore seed).t j = (Wu.initState (key seed) (iv seed)).P j) ∧
    (∀ j, j < 512 →
      rd (Hc128.fromSeedCore seed).t (512 + j) = (Wu.initState (key seed) (iv seed)).Q j) ∧
    (Hc128.fromSeedCore seed).counter = 0 := by
  have h : Hc128R.Abs (Hc128.fromSeedCore seed).t (Wu.initState (key seed) (iv seed)) ∧
      (Hc128.fromSeedCore seed).counter = 0 := Hc128R.fromSeedCore_refine seed
  exact ⟨h.1.size, h.1.p, h.1.q, h.2⟩

/-- State correspondence at every block boundary: after `b` calls of `generate` the model
    table holds exactly the specification's P and Q before keystream step `16 b`, and the
    counter is `16 b mod 2^64`. -/
theorem core_tables (seed : List U8) (b : Nat) :
    (coreAfter seed b).t.size = 1024 ∧
    (∀ j, j < 512 → rd (coreAfter seed b).t j = (Wu.stateAt (key seed) (iv seed) (16 * b)).P j) ∧
    (∀ j, j < 512 →
      rd (coreAfter seed b).t (512 + j) = (Wu.stateAt (key seed) (iv seed) (16 * b)).Q j) ∧
    (coreAfter seed b).counter = (16 * b) % 2 ^ 64 := by
  have h : Hc128R.Abs (Hc128.fromSeedCore seed).t (Wu.initState (key seed) (iv seed)) ∧
      (Hc128.fromSeedCore seed).counter = 0 := Hc128R.fromSeedCore_refine seed
  have g := Hc128R.core_inv (key seed) (iv seed) (Hc128.fromSeedCore seed) h.1 h.2 b
  exact ⟨g.1.size, g.1.p, g.1.q, g.2⟩

/-- Block form of C02: for every seed, every block number `b` and every 16-word results
    buffer, the `b`-th call of `Hc128Core::generate` (counting from 0) fills the buffer with
    the keystream words s_{16b}, …, s_{16b+15} of the specification. -/
theorem generate_block (seed : List U8) (b : Nat) (res : Array U32) (hres : res.size = 16) :
    (Hc128.generate (coreAfter seed b) res).1 =
      Array.ofFn (n := 16) (fun k => Wu.keystream (key seed) (iv seed) (16 * b + k.val)) := by
  have h : Hc128R.Abs (Hc128.fromSeedCore seed).t (Wu.initState (key seed) (iv seed)) ∧
      (Hc128.fromSeedCore seed).counter = 0 := Hc128R.fromSeedCore_refine seed
  exact Hc128R.generate_block (key seed) (iv seed) (Hc128.fromSeedCore seed) h.1 h.2 b res hres

/-- Stream form of C02: for every seed and every `k`, the `k`-th `next_u32` (counting from 0)
    of `Hc128Rng::from_seed(seed)` is the keystream word s_k of the specification. -/
theorem nextU32_stream (seed : List U8) (k : Nat) :
    (Hc128.nextU32 (rngAfter seed k)).1 = Wu.keystream (key seed) (iv seed) k := by
  have h : Hc128R.Abs (Hc128.fromSeedCore seed).t (Wu.initState (key seed) (iv seed)) ∧
      (Hc128.fromSeedCore seed).counter = 0 := Hc128R.fromSeedCore_refine seed
  exact Hc128R.nextU32_stream (key seed) (iv seed) (Hc128.fromSeedCore seed) h.1 h.2 k

/-- the hypothesis of `generate_block` is satisfiable (the buffer of a fresh `BlockRng`) -/
example : (Array.replicate 16 (0 : U32)).size = 16 := by simp

/-! ## anchors: the test vectors of the paper, kernel-checked, on the specification
    (`Hc128R.Packed.test_vector_*`) and hence, by `nextU32_stream`, on the model -/

theorem key_iv_vector_1 : key (List.replicate 32 0) = #v[0, 0, 0, 0] ∧
    iv (List.replicate 32 0) = #v[0, 0, 0, 0] := by
  decide

theorem key_iv_vector_2 : key (List.replicate 16 0 ++ 1 :: List.replicate 15 0) = #v[0, 0, 0, 0] ∧
    iv (List.replicate 16 0 ++ 1 :: List.replicate 15 0) = #v[1, 0, 0, 0] := by
  decide

theorem key_iv_vector_3 : key (0x55 :: List.replicate 31 0) = #v[0x55, 0, 0, 0] ∧
    iv (0x55 :: List.replicate 31 0) = #v[0, 0, 0, 0] := by
  decide

/-- test vector 1 of the paper (key = 0, IV = 0): first four `next_u32` results of the model -/
theorem model_test_vector_1 :
    (List.range 4).map (fun k => (Hc128.nextU32 (rngAfter (List.replicate 32 0) k)).1) =
      [0x73150082#32, 0x3bfd03a0#32, 0xfb2fd77f#32, 0xaa63af0e#32] := by
  simp only [nextU32_stream, key_iv_vector_1.1, key_iv_vector_1.2]
  exact Hc128R.Packed.test_vector_1

/-- test vector 2 of the paper (key = 0, IV = 1) -/
theorem model_test_vector_2 :
    (List.range 4).map (fun k =>
        (Hc128.nextU32 (rngAfter (List.replicate 16 0 ++ 1 :: List.replicate 15 0) k)).1) =
      [0xc01893d5#32, 0xb7dbe958#32, 0x8f65ec98#32, 0x64176604#32] := by
  simp only [nextU32_stream, key_iv_vector_2.1, key_iv_vector_2.2]
  exact Hc128R.Packed.test_vector_2

/-- test vector 3 of the paper (key = 0x55, IV = 0) -/
theorem model_test_vector_3 :
    (List.range 4).map (fun k => (Hc128.nextU32 (rngAfter (0x55 :: List.replicate 31 0) k)).1) =
      [0x518251a4#32, 0x04b4930a#32, 0xb02af931#32, 0x0639f032#32] := by
  simp only [nextU32_stream, key_iv_vector_3.1, key_iv_vector_3.2]
  exact Hc128R.Packed.test_vector_3

end Rngs.C02
