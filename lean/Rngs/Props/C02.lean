import Rngs.Model.Xoshiro
namespace Rngs.C02
theorem placeholder : True := trivial
end Rngs.C02
