import Rngs.Model.Xoshiro
namespace Rngs.C03
theorem placeholder : True := trivial
end Rngs.C03
