/-
  C03 — IsaacRng / Isaac64Rng are Bob Jenkins' ISAAC / ISAAC-64.

  "For every 32-byte seed, IsaacRng::from_seed and Isaac64Rng::from_seed produce at every
  position the word stream of Bob Jenkins' reference isaac() / isaac64() after randinit(TRUE),
  where the seed's little-endian words fill the first 8 (resp. 4) seed slots and all other
  slots are zero, and each 256-word block is handed out in the reference order.
  seed_from_u64(0) reproduces the reference generator used unseeded."

  Reference: `Rngs.Spec.Jenkins` (rolled `isaac()`, `randinit(flag)`, the `rand()` macro that
  reads `randrsl[--randcnt]`), written from rand.c / isaac64.c.
  Model: `Rngs.Model.Isaac` (unrolled two-half `generate` that fills `results` backwards,
  `init` with premixed constants, `BlockRng` / `BlockRng64` buffering), tied to the Rust code
  by differential testing.

  Everything is proved once, for any word width `w`, any reference `Variant w` and any model
  `Params w` that `Match` (`Rngs.Lib.IsaacRefine`), and instantiated with
  `match32 : Match isaac32 params32` and `match64 : Match isaac64 params64`.

  Correspondence of states (`IsaacRefine.concCore`, `absCtx` below):
      mem ↔ randmem (mm),   a, b, c ↔ randa, randb, randc,
      results[255 - i] ↔ randrsl[i],   index ↔ RANDSIZ - randcnt.

  All theorems are for every seed byte string (the defaults of `le32At`/`le64At` are not
  reached when the seed has its 32 bytes, the only length the Rust type `[u8; 32]` has); all
  `2^256` seeds and all stream positions `k : Nat` are covered.  Nothing is partial.
-/
import Rngs.Lib.IsaacRefine
import Rngs.Lib.IsaacRefineInit
import Rngs.Lib.IsaacRefineStream
import Rngs.Lib.IsaacRefineBlocks
import Rngs.Lib.IsaacAnchor32
import Rngs.Lib.IsaacAnchor64
namespace Rngs.C03
open Rngs Rngs.Isaac Rngs.Spec Rngs.IsaacRefine

/-! ## 1. one `generate` = one `isaac()` -/

/-- abstraction: a model core with its results buffer ↦ reference context
    (`randrsl[i] = results[255 - i]`) -/
def absCtx {w : Nat} (core : Core w) (hm : core.mem.size = 256)
    (res : Array (BitVec w)) (hr : res.size = 256) (cnt : Nat) : Jenkins.Ctx w where
  randcnt := cnt
  randrsl := (Vector.mk res hr).reverse
  randmem := Vector.mk core.mem hm
  randa := core.a
  randb := core.b
  randc := core.c

/-- Generic form.  For every core whose `mem` has 256 words and every 256-word results buffer,
    `generate` computes `isaac()` of the abstracted context: the new `mem, a, b, c` are the new
    `randmem, randa, randb, randc`, and the new `results[255 - i]` is the new `randrsl[i]`. -/
theorem generate_eq_isaac {w : Nat} {v : Jenkins.Variant w} {p : Params w} (hm : Match v p)
    (core : Core w) (hmem : core.mem.size = 256)
    (res : Array (BitVec w)) (hres : res.size = 256) (cnt : Nat) :
    let out := generate p core res
    let ctx' := Jenkins.isaac v (absCtx core hmem res hres cnt)
    out.2.mem = ctx'.randmem.toArray ∧ out.2.a = ctx'.randa ∧ out.2.b = ctx'.randb ∧
      out.2.c = ctx'.randc ∧ out.1.size = 256 ∧
      ∀ i (hi : i < 256), rd out.1 (255 - i) = ctx'.randrsl[i] := by
  intro out ctx'
  have h : out = (ctx'.randrsl.reverse.toArray, concCore ctx') :=
    generate_conc_any hm (absCtx core hmem res hres cnt) res hres
  rw [h]
  refine ⟨rfl, rfl, rfl, rfl, by simp, ?_⟩
  intro i hi
  have e : 255 - (255 - i) = i := by omega
  simp only [rd_reverse _ _ (show 255 - i < 256 by omega), e]

/-- IsaacCore::generate = isaac() of rand.c -/
theorem generate_eq_isaac32 (core : Core 32) (hmem : core.mem.size = 256)
    (res : Array U32) (hres : res.size = 256) (cnt : Nat) :
    let out := generate params32 core res
    let ctx' := Jenkins.isaac Jenkins.isaac32 (absCtx core hmem res hres cnt)
    out.2.mem = ctx'.randmem.toArray ∧ out.2.a = ctx'.randa ∧ out.2.b = ctx'.randb ∧
      out.2.c = ctx'.randc ∧ out.1.size = 256 ∧
      ∀ i (hi : i < 256), rd out.1 (255 - i) = ctx'.randrsl[i] :=
  generate_eq_isaac match32 core hmem res hres cnt

/-- Isaac64Core::generate = isaac64() of isaac64.c -/
theorem generate_eq_isaac64 (core : Core 64) (hmem : core.mem.size = 256)
    (res : Array U64) (hres : res.size = 256) (cnt : Nat) :
    let out := generate params64 core res
    let ctx' := Jenkins.isaac Jenkins.isaac64 (absCtx core hmem res hres cnt)
    out.2.mem = ctx'.randmem.toArray ∧ out.2.a = ctx'.randa ∧ out.2.b = ctx'.randb ∧
      out.2.c = ctx'.randc ∧ out.1.size = 256 ∧
      ∀ i (hi : i < 256), rd out.1 (255 - i) = ctx'.randrsl[i] :=
  generate_eq_isaac match64 core hmem res hres cnt

/-- the hypotheses are satisfiable: the cores and buffers the constructors build -/
example (seed : List U8) : (fromSeedCore32 seed).mem.size = 256 ∧
    (fromSeed32 seed).results.size = 256 := by
  have h := extend_eq (readU32s seed 8) (by simp [readU32s]) Jenkins.zeros
  have h2 := init_two_conc match32 (Jenkins.seedCtx (readU32s seed 8) Jenkins.zeros)
  unfold fromSeedCore32 fromSeed32 BlockRng.new
  rw [h, h2]
  exact ⟨by simp [concCore], by simp [blockCore32, RAND_SIZE]⟩

/-! ## 2. the literal constants of `init` -/

/-- `0x1367df5a, 0x95d90059, …` are `a = … = h = 0x9e3779b9` after four `mix` -/
theorem golden32 :
    params32.golden =
      toM (iter Jenkins.isaac32.mix 4
        ⟨0x9e3779b9#32, 0x9e3779b9#32, 0x9e3779b9#32, 0x9e3779b9#32,
         0x9e3779b9#32, 0x9e3779b9#32, 0x9e3779b9#32, 0x9e3779b9#32⟩) := by decide

/-- `0x647c4677a2884b7c, …` are `a = … = h = 0x9e3779b97f4a7c13` after four `mix` -/
theorem golden64 :
    params64.golden =
      toM (iter Jenkins.isaac64.mix 4
        ⟨0x9e3779b97f4a7c13#64, 0x9e3779b97f4a7c13#64, 0x9e3779b97f4a7c13#64, 0x9e3779b97f4a7c13#64,
         0x9e3779b97f4a7c13#64, 0x9e3779b97f4a7c13#64, 0x9e3779b97f4a7c13#64, 0x9e3779b97f4a7c13#64⟩) := by
  decide

/-! ## 3. `init` = `randinit` (before its closing `isaac()` call) -/

/-- `init p key 2`, the key being the `randrsl` of `ctx`, is `randinit(ctx, TRUE)`:
    `mem ↦ randmem`, `a = b = c = 0`.  (Pass 1 of the model reads each 8-word chunk of the key
    from `mem` before overwriting it; the reference reads it from `randrsl`.) -/
theorem init2_eq_randinit {w : Nat} {v : Jenkins.Variant w} {p : Params w} (hm : Match v p)
    (ctx : Jenkins.Ctx w) :
    init p ctx.randrsl.toArray 2 = concCore (Jenkins.randinitPre v true ctx) :=
  init_two_conc hm ctx

/-- `init p zeros 1` is `randinit(ctx, FALSE)` for every `ctx` (which reads neither `randrsl`
    nor the old `randmem`): an all-zero key adds nothing in its single pass. -/
theorem init1_eq_randinit {w : Nat} {v : Jenkins.Variant w} {p : Params w} (hm : Match v p)
    (ctx : Jenkins.Ctx w) :
    init p (Jenkins.zeros (w := w)).toArray 1 = concCore (Jenkins.randinitPre v false ctx) :=
  init_one_conc hm ctx

/-- the eight little-endian words of a 32-byte seed -/
def seedWords32 (seed : List U8) : List U32 :=
  [le32At seed 0, le32At seed 1, le32At seed 2, le32At seed 3,
   le32At seed 4, le32At seed 5, le32At seed 6, le32At seed 7]

/-- the four little-endian words of a 32-byte seed -/
def seedWords64 (seed : List U8) : List U64 :=
  [le64At seed 0, le64At seed 1, le64At seed 2, le64At seed 3]

/-- `IsaacCore::from_seed` is the `randinit(TRUE)` state for `randrsl = seed words ++ zeros` -/
theorem fromSeedCore32_eq (seed : List U8) (mem0 : Vec 32) :
    fromSeedCore32 seed = concCore (Jenkins.randinitPre Jenkins.isaac32 true
      (Jenkins.seedCtx (seedWords32 seed) mem0)) := by
  have e : readU32s seed 8 = seedWords32 seed := rfl
  unfold fromSeedCore32
  rw [e, extend_eq (seedWords32 seed) (by simp [seedWords32]) mem0]
  exact init_two_conc match32 _

/-- `Isaac64Core::from_seed` likewise -/
theorem fromSeedCore64_eq (seed : List U8) (mem0 : Vec 64) :
    fromSeedCore64 seed = concCore (Jenkins.randinitPre Jenkins.isaac64 true
      (Jenkins.seedCtx (seedWords64 seed) mem0)) := by
  have e : readU64s seed 4 = seedWords64 seed := rfl
  unfold fromSeedCore64
  rw [e, extend_eq (seedWords64 seed) (by simp [seedWords64]) mem0]
  exact init_two_conc match64 _

/-- `IsaacCore::seed_from_u64(0)` is the `randinit(FALSE)` state, whatever `ctx` held before -/
theorem seedFromU64Core32_zero (ctx : Jenkins.Ctx 32) :
    seedFromU64Core32 0 = concCore (Jenkins.randinitPre Jenkins.isaac32 false ctx) := by
  have e : [(0 : U64).setWidth 32, ((0 : U64) >>> 32).setWidth 32] = [0#32, 0#32] := by decide
  unfold seedFromU64Core32
  rw [e, extend_eq [0#32, 0#32] (by simp) Jenkins.zeros,
    seedCtx_zero_randrsl [0#32, 0#32] (by simp)]
  exact init_one_conc match32 ctx

/-- `Isaac64Core::seed_from_u64(0)` likewise -/
theorem seedFromU64Core64_zero (ctx : Jenkins.Ctx 64) :
    seedFromU64Core64 0 = concCore (Jenkins.randinitPre Jenkins.isaac64 false ctx) := by
  unfold seedFromU64Core64
  rw [extend_eq [(0 : U64)] (by simp) Jenkins.zeros, seedCtx_zero_randrsl [(0 : U64)] (by simp)]
  exact init_one_conc match64 ctx

/-! ## 4. the streams -/

/-- the `k`-th (0-based) `next_u32()` of an `IsaacRng` -/
def nextU32s (r : Rng32) (k : Nat) : U32 := stream (BlockRng.nextU32 blockCore32) r k

/-- the `k`-th (0-based) `next_u64()` of an `Isaac64Rng` -/
def nextU64s (r : Rng64) (k : Nat) : U64 := stream (BlockRng64.nextU64 blockCore64) r k

/-- the buffering layer: a wrapper in sync with a reference context
    (`index = 256 - randcnt`, `results = reverse randrsl`, `core ↔ context`) produces the
    reference `rand()` stream from there on — any starting point, both widths. -/
theorem synced_stream32 (r : Rng32) (ctx : Jenkins.Ctx 32) (h : Sync (view32 r) ctx) (k : Nat) :
    nextU32s r k = Jenkins.rand Jenkins.isaac32 ctx k := by
  unfold nextU32s
  rw [stream_view _ _ view32 nextU32_view k r]
  exact sync_stream match32 k _ _ h

theorem synced_stream64 (r : Rng64) (ctx : Jenkins.Ctx 64) (h : Sync (view64 r) ctx) (k : Nat) :
    nextU64s r k = Jenkins.rand Jenkins.isaac64 ctx k := by
  unfold nextU64s
  rw [stream_view _ _ view64 nextU64_view k r]
  exact sync_stream match64 k _ _ h

/-- **IsaacRng::from_seed.**  For every seed and every position `k`, the `k`-th `next_u32` is the
    `k`-th `rand()` of the reference after `randinit(TRUE)` with
    `randrsl = [8 little-endian seed words, 0, …, 0]` (and any prior `randmem`). -/
theorem fromSeed32_stream (seed : List U8) (mem0 : Vec 32) (k : Nat) :
    nextU32s (fromSeed32 seed) k
      = Jenkins.rand Jenkins.isaac32 (Jenkins.seeded Jenkins.isaac32 (seedWords32 seed) mem0) k := by
  unfold nextU32s fromSeed32
  rw [stream_view _ _ view32 nextU32_view k _, view32_new, fromSeedCore32_eq seed mem0]
  exact fresh_stream match32 true _ k

/-- **Isaac64Rng::from_seed.**  For every seed and every position `k`, the `k`-th `next_u64` is
    the `k`-th `rand()` of the reference ISAAC-64 after `randinit(TRUE)` with
    `randrsl = [4 little-endian seed words, 0, …, 0]`. -/
theorem fromSeed64_stream (seed : List U8) (mem0 : Vec 64) (k : Nat) :
    nextU64s (fromSeed64 seed) k
      = Jenkins.rand Jenkins.isaac64 (Jenkins.seeded Jenkins.isaac64 (seedWords64 seed) mem0) k := by
  unfold nextU64s fromSeed64
  rw [stream_view _ _ view64 nextU64_view k _, view64_new, fromSeedCore64_eq seed mem0]
  exact fresh_stream match64 true _ k

/-- **IsaacRng::seed_from_u64(0)** is the reference generator used unseeded
    (`randinit(FALSE)`, whatever the context held before). -/
theorem seedFromU64_32_zero_stream (rsl0 mem0 : Vec 32) (k : Nat) :
    nextU32s (seedFromU64_32 0) k
      = Jenkins.rand Jenkins.isaac32 (Jenkins.unseeded Jenkins.isaac32 rsl0 mem0) k := by
  unfold nextU32s seedFromU64_32 Jenkins.unseeded
  rw [stream_view _ _ view32 nextU32_view k _, view32_new, seedFromU64Core32_zero]
  exact fresh_stream match32 false _ k

/-- **Isaac64Rng::seed_from_u64(0)** is the reference ISAAC-64 used unseeded. -/
theorem seedFromU64_64_zero_stream (rsl0 mem0 : Vec 64) (k : Nat) :
    nextU64s (seedFromU64_64 0) k
      = Jenkins.rand Jenkins.isaac64 (Jenkins.unseeded Jenkins.isaac64 rsl0 mem0) k := by
  unfold nextU64s seedFromU64_64 Jenkins.unseeded
  rw [stream_view _ _ view64 nextU64_view k _, view64_new, seedFromU64Core64_zero]
  exact fresh_stream match64 false _ k

/-! ### the same, with the reference order spelled out

`rand()` number `k` after `randinit` is entry `255 - k mod 256` of the `randrsl` produced by
`k / 256` further `isaac()` calls (`IsaacRefine.rand_closed`): every 256-word block is handed
out from `randrsl[255]` down to `randrsl[0]`. -/

theorem fromSeed32_blocks (seed : List U8) (mem0 : Vec 32) (k : Nat) :
    nextU32s (fromSeed32 seed) k
      = (iter (Jenkins.isaac Jenkins.isaac32) (k / 256)
          (Jenkins.seeded Jenkins.isaac32 (seedWords32 seed) mem0)).randrsl[255 - k % 256]'(by
            show _ < 256; omega) := by
  rw [fromSeed32_stream seed mem0 k]
  exact rand_closed _ _ rfl k

theorem fromSeed64_blocks (seed : List U8) (mem0 : Vec 64) (k : Nat) :
    nextU64s (fromSeed64 seed) k
      = (iter (Jenkins.isaac Jenkins.isaac64) (k / 256)
          (Jenkins.seeded Jenkins.isaac64 (seedWords64 seed) mem0)).randrsl[255 - k % 256]'(by
            show _ < 256; omega) := by
  rw [fromSeed64_stream seed mem0 k]
  exact rand_closed _ _ rfl k

theorem seedFromU64_32_zero_blocks (rsl0 mem0 : Vec 32) (k : Nat) :
    nextU32s (seedFromU64_32 0) k
      = (iter (Jenkins.isaac Jenkins.isaac32) (k / 256)
          (Jenkins.unseeded Jenkins.isaac32 rsl0 mem0)).randrsl[255 - k % 256]'(by
            show _ < 256; omega) := by
  rw [seedFromU64_32_zero_stream rsl0 mem0 k]
  exact rand_closed _ _ rfl k

theorem seedFromU64_64_zero_blocks (rsl0 mem0 : Vec 64) (k : Nat) :
    nextU64s (seedFromU64_64 0) k
      = (iter (Jenkins.isaac Jenkins.isaac64) (k / 256)
          (Jenkins.unseeded Jenkins.isaac64 rsl0 mem0)).randrsl[255 - k % 256]'(by
            show _ < 256; omega) := by
  rw [seedFromU64_64_zero_stream rsl0 mem0 k]
  exact rand_closed _ _ rfl k

/-! ## 5. anchors -/

/-- `Sync` is satisfiable: after its first `next_u32` a fresh `IsaacRng` is in sync with the
    reference after its first `rand()` -/
example (seed : List U8) :
    Sync (view32 (BlockRng.nextU32 blockCore32 (fromSeed32 seed)).2)
      (Jenkins.rand1 Jenkins.isaac32
        (Jenkins.seeded Jenkins.isaac32 (seedWords32 seed) Jenkins.zeros)).2 := by
  rw [(nextU32_view _).2]
  unfold fromSeed32
  rw [view32_new, fromSeedCore32_eq seed Jenkins.zeros]
  exact (fresh_next match32 true _).2

/-- The specification itself, evaluated by the kernel (`Rngs.Lib.IsaacAnchor32/64`), gives the
    published first outputs of unseeded ISAAC (rand_isaac's `test_isaac_new_uninitialized`) … -/
example :
    (List.range 4).map (Jenkins.rand Jenkins.isaac32
        (Jenkins.unseeded Jenkins.isaac32 Jenkins.zeros Jenkins.zeros))
      = [0x71D71FD2#32, 0xB54ADAE7#32, 0xD4788559#32, 0xC36129FA#32] :=
  IsaacAnchor.unseeded32_first4

/-- … hence so does the model of `IsaacRng::seed_from_u64(0)` … -/
example : (List.range 4).map (nextU32s (seedFromU64_32 0))
    = [0x71D71FD2#32, 0xB54ADAE7#32, 0xD4788559#32, 0xC36129FA#32] := by
  rw [← IsaacAnchor.unseeded32_first4]
  exact List.map_congr_left (fun k _ => seedFromU64_32_zero_stream Jenkins.zeros Jenkins.zeros k)

/-- … and of `Isaac64Rng::seed_from_u64(0)` (`test_isaac64_new_uninitialized`). -/
example : (List.range 2).map (nextU64s (seedFromU64_64 0))
    = [0xF67DFBA498E4937C#64, 0x84A5066A9204F380#64] := by
  rw [← IsaacAnchor.unseeded64_first2]
  exact List.map_congr_left (fun k _ => seedFromU64_64_zero_stream Jenkins.zeros Jenkins.zeros k)

/-- Seeded: first value of rand_isaac's `test_isaac_true_values_32` … -/
example : nextU32s (fromSeed32 [1, 0, 0, 0, 23, 0, 0, 0, 200, 1, 0, 0, 210, 30, 0, 0,
    57, 48, 0, 0, 0, 0, 0, 0, 0, 0, 0, 0, 0, 0, 0, 0]) 0 = 2558573138#32 := by
  rw [fromSeed32_stream _ Jenkins.zeros 0, ← IsaacAnchor.seeded32_first]
  congr 2

/-- … and of `test_isaac64_true_values_64`. -/
example : nextU64s (fromSeed64 [1, 0, 0, 0, 0, 0, 0, 0, 23, 0, 0, 0, 0, 0, 0, 0,
    200, 1, 0, 0, 0, 0, 0, 0, 210, 30, 0, 0, 0, 0, 0, 0]) 0 = 15071495833797886820#64 := by
  rw [fromSeed64_stream _ Jenkins.zeros 0, ← IsaacAnchor.seeded64_first]
  congr 2

end Rngs.C03
