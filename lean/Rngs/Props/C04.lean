/-
  C04 — XorShiftRng equals Marsaglia's xor128 generator for every seed.
-/
import Rngs.Model.XorShift
import Rngs.Spec.Marsaglia
namespace Rngs.C04
open Rngs Rngs.Spec

/-- the abstraction: model state ↦ reference state -/
def abs (s : XorShift.State) : Marsaglia.St := ⟨s.s0.toNat, s.s1.toNat, s.s2.toNat, s.s3.toNat⟩

/-- One step from *every* state: the returned word and the successor state are those of xor128. -/
theorem step_eq_xor128 (s : XorShift.State) :
    ((XorShift.nextU32 s).1.toNat, abs (XorShift.nextU32 s).2) = Marsaglia.xor128 (abs s) := by
  simp [XorShift.nextU32, Marsaglia.xor128, abs, Marsaglia.M, BitVec.toNat_xor, BitVec.toNat_shiftLeft,
    BitVec.toNat_ushiftRight, Nat.shiftLeft_eq, Nat.shiftRight_eq_div_pow]

/-- the model's output stream -/
def modelStream : XorShift.State → Nat → U32
  | s, 0 => (XorShift.nextU32 s).1
  | s, k + 1 => modelStream (XorShift.nextU32 s).2 k

/-- Every stream position, by induction over single steps. -/
theorem stream_eq_xor128 (s : XorShift.State) (k : Nat) :
    (modelStream s k).toNat = Marsaglia.stream (abs s) k := by
  induction k generalizing s with
  | zero =>
    have h := step_eq_xor128 s
    simp only [modelStream, Marsaglia.stream]
    exact congrArg Prod.fst h
  | succ k ih =>
    have h := step_eq_xor128 s
    simp only [modelStream, Marsaglia.stream]
    rw [ih]
    exact congrArg (fun p => Marsaglia.stream p.2 k) h

/-- `from_seed` of a seed that is not all zero uses the four little-endian words verbatim. -/
theorem fromSeed_verbatim (seed : List U8) (h : S4.decode32 seed ≠ S4.zero) :
    XorShift.fromSeed seed = ⟨le32At seed 0, le32At seed 1, le32At seed 2, le32At seed 3⟩ := by
  unfold XorShift.fromSeed
  simp only [h, if_false]
  rfl

end Rngs.C04
