/-
  C05 — every interleaving of `next_u32`, `next_u64`, `fill_bytes(n)` consumes one
  forward-only native word stream and returns fixed little-endian projections of it.

  The abstract machine is `Rngs.Spec.Stream` (`step32`, `step64`, `stepBlock32`,
  `stepBlock64`, `stepJitter`, `run`).  This file holds the final refinement theorems only;
  the generic proofs are in `Rngs.Lib.StreamRefine` (non-buffered generators) and
  `Rngs.Lib.BlockRefine` (`BlockRng`, `BlockRng64`).
-/
import Rngs.Lib.StreamRefine
import Rngs.Model.XorShift
namespace Rngs.C05
open Rngs Rngs.Spec.Stream Rngs.StreamRefine

/-! ## A. non-buffered generators

  `opDirect d` interprets an `Op` by the generator's own `next_u32`, `next_u64` and
  `fill_bytes` (= `fill_bytes_via_next`).  `stream32 n32 s k` / `stream64 n64 n32 s k` is
  the `k`-th word of the native stream from state `s` (what the `k+1`-st native-width call
  alone returns).  `iter (next… ) p s` is the state after exactly `p` native calls. -/

/-- C05 for a 32-bit-word generator from state `s` for the history `ops`: the outputs are
    those of the abstract machine `step32` over the native stream, and the final state is
    the native transition applied exactly `pos` times (nothing skipped or repeated). -/
def Refines32 {σ : Type} (n32 : σ → U32 × σ) (d : Direct σ) (s : σ) (ops : List Op) : Prop :=
  let spec := run (step32 (stream32 n32 s)) ⟨0, false⟩ ops
  run (opDirect d) s ops = (spec.1, iter (next32 n32) spec.2.pos s) ∧ spec.2.pending = false

/-- C05 for a 64-bit-word generator: as `Refines32`, with `step64` over the stream of pairs
    (word, what `next_u32` returns for that step). -/
def Refines64 {σ : Type} (d : Direct σ) (s : σ) (ops : List Op) : Prop :=
  let spec := run (step64 (stream64 d.nextU64 d.nextU32 s)) ⟨0, false⟩ ops
  run (opDirect d) s ops = (spec.1, iter (next64 d.nextU64) spec.2.pos s) ∧ spec.2.pending = false

/-- the 32-bit projection carried by the stream is `proj` of the 64-bit word -/
def HalfIs {σ : Type} (proj : U64 → U32) (d : Direct σ) (s : σ) : Prop :=
  ∀ k, (stream64 d.nextU64 d.nextU32 s k).2 = proj (stream64 d.nextU64 d.nextU32 s k).1

/-- `opDirect` of a xoshiro-family generator is literally its three `RngCore` methods. -/
theorem opDirect_xo {σ : Type} (g : XoGen σ) (s : σ) (n : Nat) :
    opDirect g.direct s .u32 = (.w32 (g.nextU32 s).1, (g.nextU32 s).2)
    ∧ opDirect g.direct s .u64 = (.w64 (g.nextU64 s).1, (g.nextU64 s).2)
    ∧ opDirect g.direct s (.fill n) = (.bytes (g.fill n s).1, (g.fill n s).2) := ⟨rfl, rfl, rfl⟩

theorem opDirect_xorshift (s : XorShift.State) (n : Nat) :
    opDirect XorShift.direct s .u32 = (.w32 (XorShift.nextU32 s).1, (XorShift.nextU32 s).2)
    ∧ opDirect XorShift.direct s .u64 = (.w64 (XorShift.nextU64 s).1, (XorShift.nextU64 s).2)
    ∧ opDirect XorShift.direct s (.fill n) = (.bytes (XorShift.fill n s).1, (XorShift.fill n s).2) :=
  ⟨rfl, rfl, rfl⟩

theorem opDirect_splitmix (s : U64) (n : Nat) :
    opDirect SplitMix64.direct s .u32 = (.w32 (SplitMix64.nextU32 s).1, (SplitMix64.nextU32 s).2)
    ∧ opDirect SplitMix64.direct s .u64 = (.w64 (SplitMix64.nextU64 s).1, (SplitMix64.nextU64 s).2)
    ∧ opDirect SplitMix64.direct s (.fill n) = (.bytes (SplitMix64.fill n s).1, (SplitMix64.fill n s).2) :=
  ⟨rfl, rfl, rfl⟩

/-- generic: every generator built as `⟨n32, next_u64_via_u32 n32⟩` -/
theorem refines32 {σ : Type} (n32 : σ → U32 × σ) (s : σ) (ops : List Op) :
    Refines32 n32 ⟨n32, nextU64ViaU32 n32⟩ s ops := by
  obtain ⟨h1, h2, h3⟩ := direct32_refines n32 s ops
  exact ⟨Prod.ext h1 h2, h3⟩

/-- generic: every generator whose `next_u32` leaves the same successor state as `next_u64` -/
theorem refines64 {σ : Type} (d : Direct σ) (h : ∀ s, (d.nextU32 s).2 = (d.nextU64 s).2)
    (s : σ) (ops : List Op) : Refines64 d s ops := by
  obtain ⟨h1, h2, h3⟩ := direct64_refines d.nextU64 d.nextU32 h s ops
  exact ⟨Prod.ext h1 h2, h3⟩

/-! ### 32-bit-word generators: `next_u64 = (second << 32) | first` -/

theorem XorShift_refines (s : XorShift.State) (ops : List Op) :
    Refines32 XorShift.nextU32 XorShift.direct s ops := refines32 _ s ops

theorem Xoroshiro64Star_refines (s : S2 32) (ops : List Op) :
    Refines32 Xoroshiro64Star.nextU32 Xoroshiro64Star.gen.direct s ops := refines32 _ s ops

theorem Xoroshiro64StarStar_refines (s : S2 32) (ops : List Op) :
    Refines32 Xoroshiro64StarStar.nextU32 Xoroshiro64StarStar.gen.direct s ops := refines32 _ s ops

theorem Xoshiro128Plus_refines (s : S4 32) (ops : List Op) :
    Refines32 Xoshiro128Plus.nextU32 Xoshiro128Plus.gen.direct s ops := refines32 _ s ops

theorem Xoshiro128PlusPlus_refines (s : S4 32) (ops : List Op) :
    Refines32 Xoshiro128PlusPlus.nextU32 Xoshiro128PlusPlus.gen.direct s ops := refines32 _ s ops

theorem Xoshiro128StarStar_refines (s : S4 32) (ops : List Op) :
    Refines32 Xoshiro128StarStar.nextU32 Xoshiro128StarStar.gen.direct s ops := refines32 _ s ops

/-! ### 64-bit-word generators: `next_u32` = upper half of one word -/

theorem Xoroshiro128Plus_refines (s : S2 64) (ops : List Op) :
    Refines64 Xoroshiro128Plus.gen.direct s ops ∧ HalfIs highHalf Xoroshiro128Plus.gen.direct s :=
  ⟨refines64 _ (fun _ => rfl) s ops, fun _ => rfl⟩

theorem Xoshiro256Plus_refines (s : S4 64) (ops : List Op) :
    Refines64 Xoshiro256Plus.gen.direct s ops ∧ HalfIs highHalf Xoshiro256Plus.gen.direct s :=
  ⟨refines64 _ (fun _ => rfl) s ops, fun _ => rfl⟩

theorem Xoshiro256PlusPlus_refines (s : S4 64) (ops : List Op) :
    Refines64 Xoshiro256PlusPlus.gen.direct s ops ∧ HalfIs highHalf Xoshiro256PlusPlus.gen.direct s :=
  ⟨refines64 _ (fun _ => rfl) s ops, fun _ => rfl⟩

theorem Xoshiro256StarStar_refines (s : S4 64) (ops : List Op) :
    Refines64 Xoshiro256StarStar.gen.direct s ops ∧ HalfIs highHalf Xoshiro256StarStar.gen.direct s :=
  ⟨refines64 _ (fun _ => rfl) s ops, fun _ => rfl⟩

theorem Xoshiro512Plus_refines (s : S8) (ops : List Op) :
    Refines64 Xoshiro512Plus.gen.direct s ops ∧ HalfIs highHalf Xoshiro512Plus.gen.direct s :=
  ⟨refines64 _ (fun _ => rfl) s ops, fun _ => rfl⟩

theorem Xoshiro512PlusPlus_refines (s : S8) (ops : List Op) :
    Refines64 Xoshiro512PlusPlus.gen.direct s ops ∧ HalfIs highHalf Xoshiro512PlusPlus.gen.direct s :=
  ⟨refines64 _ (fun _ => rfl) s ops, fun _ => rfl⟩

theorem Xoshiro512StarStar_refines (s : S8) (ops : List Op) :
    Refines64 Xoshiro512StarStar.gen.direct s ops ∧ HalfIs highHalf Xoshiro512StarStar.gen.direct s :=
  ⟨refines64 _ (fun _ => rfl) s ops, fun _ => rfl⟩

/-! ### … lower half for Xoroshiro128PlusPlus / StarStar -/

theorem Xoroshiro128PlusPlus_refines (s : S2 64) (ops : List Op) :
    Refines64 Xoroshiro128PlusPlus.gen.direct s ops
    ∧ HalfIs lowHalf Xoroshiro128PlusPlus.gen.direct s :=
  ⟨refines64 _ (fun _ => rfl) s ops, fun _ => rfl⟩

theorem Xoroshiro128StarStar_refines (s : S2 64) (ops : List Op) :
    Refines64 Xoroshiro128StarStar.gen.direct s ops
    ∧ HalfIs lowHalf Xoroshiro128StarStar.gen.direct s :=
  ⟨refines64 _ (fun _ => rfl) s ops, fun _ => rfl⟩

/-! ### SplitMix64: `next_u32` is its own finaliser of the same counter step -/

theorem SplitMix64_refines (s : U64) (ops : List Op) :
    Refines64 SplitMix64.direct s ops
    ∧ ∀ k, stream64 SplitMix64.nextU64 SplitMix64.nextU32 s k =
        ((SplitMix64.nextU64 (iter (· + SplitMix64.PHI) k s)).1,
         (SplitMix64.nextU32 (iter (· + SplitMix64.PHI) k s)).1) :=
  ⟨refines64 _ (fun _ => rfl) s ops, fun _ => rfl⟩

/-- the statement is not vacuous: a concrete history, evaluated -/
example :
    (run (opDirect Xoshiro256PlusPlus.gen.direct) ⟨1, 2, 3, 4⟩ [.u32, .fill 3, .u64]).2
      = iter (next64 Xoshiro256PlusPlus.nextU64) 3 ⟨1, 2, 3, 4⟩ :=
  ((Xoshiro256PlusPlus_refines ⟨1, 2, 3, 4⟩ [.u32, .fill 3, .u64]).1.1 ▸ rfl)

end Rngs.C05
