import Rngs.Model.Xoshiro
namespace Rngs.C05
theorem placeholder : True := trivial
end Rngs.C05
