/-
  C05 — every interleaving of `next_u32`, `next_u64`, `fill_bytes(n)` consumes one
  forward-only native word stream and returns fixed little-endian projections of it.

  The abstract machine is `Rngs.Spec.Stream` (`step32`, `step64`, `stepBlock32`,
  `stepBlock64`, `stepJitter`, `run`).  This file holds the final refinement theorems only;
  the generic proofs are in `Rngs.Lib.StreamRefine` (non-buffered generators) and
  `Rngs.Lib.BlockRefine` (`BlockRng`, `BlockRng64`).
-/
import Rngs.Lib.StreamRefine
import Rngs.Lib.BlockRefineInst
import Rngs.Lib.StreamRefineJitter
import Rngs.Model.XorShift
namespace Rngs.C05
open Rngs Rngs.Spec.Stream Rngs.StreamRefine Rngs.BlockRefine Rngs.JitterRefine

/-! ## A. non-buffered generators

  `opDirect d` interprets an `Op` by the generator's own `next_u32`, `next_u64` and
  `fill_bytes` (= `fill_bytes_via_next`).  `stream32 n32 s k` / `stream64 n64 n32 s k` is
  the `k`-th word of the native stream from state `s` (what the `k+1`-st native-width call
  alone returns).  `iter (next… ) p s` is the state after exactly `p` native calls. -/

/-- C05 for a 32-bit-word generator from state `s` for the history `ops`: the outputs are
    those of the abstract machine `step32` over the native stream, and the final state is
    the native transition applied exactly `pos` times (nothing skipped or repeated). -/
def Refines32 {σ : Type} (n32 : σ → U32 × σ) (d : Direct σ) (s : σ) (ops : List Op) : Prop :=
  let spec := run (step32 (stream32 n32 s)) ⟨0, false⟩ ops
  run (opDirect d) s ops = (spec.1, iter (next32 n32) spec.2.pos s) ∧ spec.2.pending = false

/-- C05 for a 64-bit-word generator: as `Refines32`, with `step64` over the stream of pairs
    (word, what `next_u32` returns for that step). -/
def Refines64 {σ : Type} (d : Direct σ) (s : σ) (ops : List Op) : Prop :=
  let spec := run (step64 (stream64 d.nextU64 d.nextU32 s)) ⟨0, false⟩ ops
  run (opDirect d) s ops = (spec.1, iter (next64 d.nextU64) spec.2.pos s) ∧ spec.2.pending = false

/-- the 32-bit projection carried by the stream is `proj` of the 64-bit word -/
def HalfIs {σ : Type} (proj : U64 → U32) (d : Direct σ) (s : σ) : Prop :=
  ∀ k, (stream64 d.nextU64 d.nextU32 s k).2 = proj (stream64 d.nextU64 d.nextU32 s k).1

/-- `opDirect` of a xoshiro-family generator is literally its three `RngCore` methods. -/
theorem opDirect_xo {σ : Type} (g : XoGen σ) (s : σ) (n : Nat) :
    opDirect g.direct s .u32 = (.w32 (g.nextU32 s).1, (g.nextU32 s).2)
    ∧ opDirect g.direct s .u64 = (.w64 (g.nextU64 s).1, (g.nextU64 s).2)
    ∧ opDirect g.direct s (.fill n) = (.bytes (g.fill n s).1, (g.fill n s).2) := ⟨rfl, rfl, rfl⟩

theorem opDirect_xorshift (s : XorShift.State) (n : Nat) :
    opDirect XorShift.direct s .u32 = (.w32 (XorShift.nextU32 s).1, (XorShift.nextU32 s).2)
    ∧ opDirect XorShift.direct s .u64 = (.w64 (XorShift.nextU64 s).1, (XorShift.nextU64 s).2)
    ∧ opDirect XorShift.direct s (.fill n) = (.bytes (XorShift.fill n s).1, (XorShift.fill n s).2) :=
  ⟨rfl, rfl, rfl⟩

theorem opDirect_splitmix (s : U64) (n : Nat) :
    opDirect SplitMix64.direct s .u32 = (.w32 (SplitMix64.nextU32 s).1, (SplitMix64.nextU32 s).2)
    ∧ opDirect SplitMix64.direct s .u64 = (.w64 (SplitMix64.nextU64 s).1, (SplitMix64.nextU64 s).2)
    ∧ opDirect SplitMix64.direct s (.fill n) = (.bytes (SplitMix64.fill n s).1, (SplitMix64.fill n s).2) :=
  ⟨rfl, rfl, rfl⟩

/-- generic: every generator built as `⟨n32, next_u64_via_u32 n32⟩` -/
theorem refines32 {σ : Type} (n32 : σ → U32 × σ) (s : σ) (ops : List Op) :
    Refines32 n32 ⟨n32, nextU64ViaU32 n32⟩ s ops := by
  obtain ⟨h1, h2, h3⟩ := direct32_refines n32 s ops
  exact ⟨Prod.ext h1 h2, h3⟩

/-- generic: every generator whose `next_u32` leaves the same successor state as `next_u64` -/
theorem refines64 {σ : Type} (d : Direct σ) (h : ∀ s, (d.nextU32 s).2 = (d.nextU64 s).2)
    (s : σ) (ops : List Op) : Refines64 d s ops := by
  obtain ⟨h1, h2, h3⟩ := direct64_refines d.nextU64 d.nextU32 h s ops
  exact ⟨Prod.ext h1 h2, h3⟩

/-! ### 32-bit-word generators: `next_u64 = (second << 32) | first` -/

theorem XorShift_refines (s : XorShift.State) (ops : List Op) :
    Refines32 XorShift.nextU32 XorShift.direct s ops := refines32 _ s ops

theorem Xoroshiro64Star_refines (s : S2 32) (ops : List Op) :
    Refines32 Xoroshiro64Star.nextU32 Xoroshiro64Star.gen.direct s ops := refines32 _ s ops

theorem Xoroshiro64StarStar_refines (s : S2 32) (ops : List Op) :
    Refines32 Xoroshiro64StarStar.nextU32 Xoroshiro64StarStar.gen.direct s ops := refines32 _ s ops

theorem Xoshiro128Plus_refines (s : S4 32) (ops : List Op) :
    Refines32 Xoshiro128Plus.nextU32 Xoshiro128Plus.gen.direct s ops := refines32 _ s ops

theorem Xoshiro128PlusPlus_refines (s : S4 32) (ops : List Op) :
    Refines32 Xoshiro128PlusPlus.nextU32 Xoshiro128PlusPlus.gen.direct s ops := refines32 _ s ops

theorem Xoshiro128StarStar_refines (s : S4 32) (ops : List Op) :
    Refines32 Xoshiro128StarStar.nextU32 Xoshiro128StarStar.gen.direct s ops := refines32 _ s ops

/-! ### 64-bit-word generators: `next_u32` = upper half of one word -/

theorem Xoroshiro128Plus_refines (s : S2 64) (ops : List Op) :
    Refines64 Xoroshiro128Plus.gen.direct s ops ∧ HalfIs highHalf Xoroshiro128Plus.gen.direct s :=
  ⟨refines64 _ (fun _ => rfl) s ops, fun _ => rfl⟩

theorem Xoshiro256Plus_refines (s : S4 64) (ops : List Op) :
    Refines64 Xoshiro256Plus.gen.direct s ops ∧ HalfIs highHalf Xoshiro256Plus.gen.direct s :=
  ⟨refines64 _ (fun _ => rfl) s ops, fun _ => rfl⟩

theorem Xoshiro256PlusPlus_refines (s : S4 64) (ops : List Op) :
    Refines64 Xoshiro256PlusPlus.gen.direct s ops ∧ HalfIs highHalf Xoshiro256PlusPlus.gen.direct s :=
  ⟨refines64 _ (fun _ => rfl) s ops, fun _ => rfl⟩

theorem Xoshiro256StarStar_refines (s : S4 64) (ops : List Op) :
    Refines64 Xoshiro256StarStar.gen.direct s ops ∧ HalfIs highHalf Xoshiro256StarStar.gen.direct s :=
  ⟨refines64 _ (fun _ => rfl) s ops, fun _ => rfl⟩

theorem Xoshiro512Plus_refines (s : S8) (ops : List Op) :
    Refines64 Xoshiro512Plus.gen.direct s ops ∧ HalfIs highHalf Xoshiro512Plus.gen.direct s :=
  ⟨refines64 _ (fun _ => rfl) s ops, fun _ => rfl⟩

theorem Xoshiro512PlusPlus_refines (s : S8) (ops : List Op) :
    Refines64 Xoshiro512PlusPlus.gen.direct s ops ∧ HalfIs highHalf Xoshiro512PlusPlus.gen.direct s :=
  ⟨refines64 _ (fun _ => rfl) s ops, fun _ => rfl⟩

theorem Xoshiro512StarStar_refines (s : S8) (ops : List Op) :
    Refines64 Xoshiro512StarStar.gen.direct s ops ∧ HalfIs highHalf Xoshiro512StarStar.gen.direct s :=
  ⟨refines64 _ (fun _ => rfl) s ops, fun _ => rfl⟩

/-! ### … lower half for Xoroshiro128PlusPlus / StarStar -/

theorem Xoroshiro128PlusPlus_refines (s : S2 64) (ops : List Op) :
    Refines64 Xoroshiro128PlusPlus.gen.direct s ops
    ∧ HalfIs lowHalf Xoroshiro128PlusPlus.gen.direct s :=
  ⟨refines64 _ (fun _ => rfl) s ops, fun _ => rfl⟩

theorem Xoroshiro128StarStar_refines (s : S2 64) (ops : List Op) :
    Refines64 Xoroshiro128StarStar.gen.direct s ops
    ∧ HalfIs lowHalf Xoroshiro128StarStar.gen.direct s :=
  ⟨refines64 _ (fun _ => rfl) s ops, fun _ => rfl⟩

/-! ### SplitMix64: `next_u32` is its own finaliser of the same counter step -/

theorem SplitMix64_refines (s : U64) (ops : List Op) :
    Refines64 SplitMix64.direct s ops
    ∧ ∀ k, stream64 SplitMix64.nextU64 SplitMix64.nextU32 s k =
        ((SplitMix64.nextU64 (iter (· + SplitMix64.PHI) k s)).1,
         (SplitMix64.nextU32 (iter (· + SplitMix64.PHI) k s)).1) :=
  ⟨refines64 _ (fun _ => rfl) s ops, fun _ => rfl⟩

/-- the statement is not vacuous: a concrete history, evaluated -/
example :
    (run (opDirect Xoshiro256PlusPlus.gen.direct) ⟨1, 2, 3, 4⟩ [.u32, .fill 3, .u64]).2
      = iter (next64 Xoshiro256PlusPlus.nextU64) 3 ⟨1, 2, 3, 4⟩ :=
  ((Xoshiro256PlusPlus_refines ⟨1, 2, 3, 4⟩ [.u32, .fill 3, .u64]).1.1 ▸ rfl)

/-! ## B. buffered generators (`BlockRng`, `BlockRng64`)

  For a core `c` and a start state with results array `r₀` and core `c₀`:
  `blk c r₀ c₀ b` is the results array after `b` calls of `generate` (each call receives the
  previous array, as in Rust; `blk … 0 = r₀`), `coreAfter c r₀ c₀ b` the core after `b` calls,
  and `absStream c r₀ c₀ j = (blk … (j / N))[j % N]` the blocks laid end to end.  A state
  with buffer index `i` has `i` words of block 0 behind it, so its native stream is
  `k ↦ absStream … (i + k)`.  `opBlock32 c` / `opBlock64 c` interpret an `Op` by
  `BlockRng::{next_u32, next_u64, fill_bytes}`. -/

/-- the native stream of a `BlockRng`/`BlockRng64` state: the unread rest of its buffer,
    then the blocks `generate` produces from its core -/
def blockStream {σ : Type} {w : Nat} (c : BlockCore σ w) (res : Array (BitVec w)) (core : σ)
    (index : Nat) (k : Nat) : BitVec w :=
  absStream c res core (index + k)

/-- C05 for `BlockRng` from state `st` for the history `ops`: outputs of `stepBlock32` over
    the state's native stream; the final state is the state after `b` refills with
    `b·N + index = (start index) + pos` — exactly `pos` words were consumed. -/
def RefinesBlock32 {σ : Type} (c : BlockCore σ 32) (st : BlockRng σ) (ops : List Op) : Prop :=
  let spec := run (stepBlock32 (blockStream c st.results st.core st.index)) ⟨0, false⟩ ops
  let fin := (run (opBlock32 c) st ops).2
  (run (opBlock32 c) st ops).1 = spec.1 ∧ spec.2.pending = false
  ∧ ∃ b, fin.results = blk c st.results st.core b ∧ fin.core = coreAfter c st.results st.core b
      ∧ fin.index ≤ c.len ∧ st.index + spec.2.pos = b * c.len + fin.index

/-- C05 for `BlockRng64`: as above with `stepBlock64`; `half_used` is the cursor's `pending`. -/
def RefinesBlock64 {σ : Type} (c : BlockCore σ 64) (st : BlockRng64 σ) (ops : List Op) : Prop :=
  let spec := run (stepBlock64 (blockStream c st.results st.core st.index)) ⟨0, false⟩ ops
  let fin := (run (opBlock64 c) st ops).2
  (run (opBlock64 c) st ops).1 = spec.1 ∧ fin.halfUsed = spec.2.pending
  ∧ ∃ b, fin.results = blk c st.results st.core b ∧ fin.core = coreAfter c st.results st.core b
      ∧ fin.index ≤ c.len ∧ st.index + spec.2.pos = b * c.len + fin.index

/-- generic: every `BlockRng` over a size-preserving core with at least two words per block,
    from every state whose buffer has the right length and whose index is in range -/
theorem refinesBlock32 {σ : Type} (c : BlockCore σ 32) (hs : SizeOK c) (hN : 2 ≤ c.len)
    (st : BlockRng σ) (hsz : st.results.size = c.len) (hidx : st.index ≤ c.len) (ops : List Op) :
    RefinesBlock32 c st ops := by
  have h := block32_refines (c := c) (r₀ := st.results) (c₀ := st.core) hs hsz hN st.index ops st
    ⟨0, false⟩ ⟨At.start hidx, rfl⟩
  obtain ⟨h1, h2, h3⟩ := h
  exact ⟨h1, h3, h2⟩

theorem refinesBlock64 {σ : Type} (c : BlockCore σ 64) (hs : SizeOK c) (hN : 0 < c.len)
    (st : BlockRng64 σ) (hsz : st.results.size = c.len) (hidx : st.index ≤ c.len)
    (hhalf : st.halfUsed = false) (ops : List Op) :
    RefinesBlock64 c st ops := by
  have h := block64_refines (c := c) (r₀ := st.results) (c₀ := st.core) hs hsz hN st.index ops st
    ⟨0, false⟩ ⟨At.start hidx, hhalf, fun hf => by cases hf⟩
  obtain ⟨h1, h2, h3, -⟩ := h
  exact ⟨h1, h3, h2⟩

/-- the stream of a freshly constructed generator (index = N: nothing buffered): word `k`
    is element `k % N` of the `(k / N + 1)`-st generated block -/
theorem blockStream_new {σ : Type} {w : Nat} (c : BlockCore σ w) (hN : 0 < c.len)
    (res : Array (BitVec w)) (core : σ) (k : Nat) :
    blockStream c res core c.len k = rd (blk c res core (k / c.len + 1)) (k % c.len) := by
  unfold blockStream absStream
  rw [Nat.add_div_left _ hN, Nat.add_mod_left]

/-- `fill_bytes(n)` of the abstract machine is complete: exactly `n` bytes (so, with the
    refinement theorems, the model's loop fuel `n + 1` always suffices) -/
theorem fill_complete32 (W : Nat → U32) (p n : Nat) :
    ((wordBytes U32.toLE W p ((n + 3) / 4)).take n).length = n := by
  rw [List.length_take, wordBytes_length U32.toLE W 4 (fun _ => rfl)]; omega

theorem fill_complete64 (W : Nat → U64) (p n : Nat) :
    ((wordBytes U64.toLE W p ((n + 7) / 8)).take n).length = n := by
  rw [List.length_take, wordBytes_length U64.toLE W 8 (fun _ => rfl)]; omega

/-! ### Hc128Rng -/

theorem opBlock32_hc128 (st : Hc128.Rng) (n : Nat) :
    opBlock32 Hc128.blockCore st .u32 = (.w32 (Hc128.nextU32 st).1, (Hc128.nextU32 st).2)
    ∧ opBlock32 Hc128.blockCore st .u64 = (.w64 (Hc128.nextU64 st).1, (Hc128.nextU64 st).2)
    ∧ opBlock32 Hc128.blockCore st (.fill n) = (.bytes (Hc128.fill n st).1, (Hc128.fill n st).2) :=
  ⟨rfl, rfl, rfl⟩

/-- every state with a 16-word buffer, at every buffer index 0..16 -/
theorem Hc128_refines (st : Hc128.Rng) (hsz : st.results.size = 16) (hidx : st.index ≤ 16)
    (ops : List Op) : RefinesBlock32 Hc128.blockCore st ops :=
  refinesBlock32 Hc128.blockCore hc128_sizeOK (by decide) st hsz hidx ops

/-- every seed -/
theorem Hc128_fromSeed_refines (seed : List U8) (ops : List Op) :
    RefinesBlock32 Hc128.blockCore (Hc128.fromSeed seed) ops :=
  Hc128_refines _ (by simp [Hc128.fromSeed, BlockRng.new, Hc128.blockCore]) (Nat.le_refl _) ops

/-! ### IsaacRng -/

theorem opBlock32_isaac (st : Isaac.Rng32) (n : Nat) :
    opBlock32 Isaac.blockCore32 st .u32
        = (.w32 (BlockRng.nextU32 Isaac.blockCore32 st).1, (BlockRng.nextU32 Isaac.blockCore32 st).2)
    ∧ opBlock32 Isaac.blockCore32 st .u64
        = (.w64 (BlockRng.nextU64 Isaac.blockCore32 st).1, (BlockRng.nextU64 Isaac.blockCore32 st).2)
    ∧ opBlock32 Isaac.blockCore32 st (.fill n)
        = (.bytes (BlockRng.fillBytes Isaac.blockCore32 n st).1,
           (BlockRng.fillBytes Isaac.blockCore32 n st).2) :=
  ⟨rfl, rfl, rfl⟩

theorem Isaac_refines (st : Isaac.Rng32) (hsz : st.results.size = 256) (hidx : st.index ≤ 256)
    (ops : List Op) : RefinesBlock32 Isaac.blockCore32 st ops :=
  refinesBlock32 Isaac.blockCore32 isaac32_sizeOK (by decide) st hsz hidx ops

/-- every freshly constructed `IsaacRng` (`from_seed`, `seed_from_u64`, `from_rng`: any core) -/
theorem Isaac_new_refines (core : Isaac.Core 32) (ops : List Op) :
    RefinesBlock32 Isaac.blockCore32 (BlockRng.new Isaac.blockCore32 core) ops :=
  Isaac_refines _ (by simp [BlockRng.new, Isaac.blockCore32, Isaac.RAND_SIZE]) (Nat.le_refl _) ops

/-! ### Isaac64Rng -/

theorem opBlock64_isaac64 (st : Isaac.Rng64) (n : Nat) :
    opBlock64 Isaac.blockCore64 st .u32
        = (.w32 (BlockRng64.nextU32 Isaac.blockCore64 st).1, (BlockRng64.nextU32 Isaac.blockCore64 st).2)
    ∧ opBlock64 Isaac.blockCore64 st .u64
        = (.w64 (BlockRng64.nextU64 Isaac.blockCore64 st).1, (BlockRng64.nextU64 Isaac.blockCore64 st).2)
    ∧ opBlock64 Isaac.blockCore64 st (.fill n)
        = (.bytes (BlockRng64.fillBytes Isaac.blockCore64 n st).1,
           (BlockRng64.fillBytes Isaac.blockCore64 n st).2) :=
  ⟨rfl, rfl, rfl⟩

theorem Isaac64_refines (st : Isaac.Rng64) (hsz : st.results.size = 256) (hidx : st.index ≤ 256)
    (hhalf : st.halfUsed = false) (ops : List Op) : RefinesBlock64 Isaac.blockCore64 st ops :=
  refinesBlock64 Isaac.blockCore64 isaac64_sizeOK (by decide) st hsz hidx hhalf ops

theorem Isaac64_new_refines (core : Isaac.Core 64) (ops : List Op) :
    RefinesBlock64 Isaac.blockCore64 (BlockRng64.new Isaac.blockCore64 core) ops :=
  Isaac64_refines _ (by simp [BlockRng64.new, Isaac.blockCore64, Isaac.RAND_SIZE]) (Nat.le_refl _) rfl ops

/-- hypotheses are satisfiable: the states the constructors build -/
example (seed : List U8) : (Hc128.fromSeed seed).results.size = 16 ∧ (Hc128.fromSeed seed).index ≤ 16 :=
  ⟨by simp [Hc128.fromSeed, BlockRng.new, Hc128.blockCore], Nat.le_refl _⟩
example (seed : List U8) :
    (Isaac.fromSeed64 seed).results.size = 256 ∧ (Isaac.fromSeed64 seed).index ≤ 256
    ∧ (Isaac.fromSeed64 seed).halfUsed = false :=
  ⟨by simp [Isaac.fromSeed64, BlockRng64.new, Isaac.blockCore64, Isaac.RAND_SIZE], Nat.le_refl _, rfl⟩

/-! ## C. JitterRng

  The calls live in the timer monad `TM = StateT (List U64) Option` (the list is the script of
  future timer readings; `none` = script exhausted).  `runJitter j ops` runs a history with
  `Jitter.nextU32 / nextU64 / fill`.  `natState j rs k` is the (generator, remaining script)
  pair after `k` native `next_u64` calls and `jitterStream j rs k` the value the `k+1`-st of
  them returns. -/

theorem opJitter_eq (j : Jitter.Rng) (n : Nat) :
    opJitter j .u32 = (do let r ← Jitter.nextU32 j; pure (.w32 r.1, r.2))
    ∧ opJitter j .u64 = (do let r ← Jitter.nextU64 j; pure (.w64 r.1, r.2))
    ∧ opJitter j (.fill n) = (do let r ← Jitter.fill n j; pure (.bytes r.1, r.2)) :=
  ⟨rfl, rfl, rfl⟩

/-- Whenever the timer script does not run out (the run returns `some`): the outputs are those
    of `stepJitter` over the native stream; the final generator and the *remaining script* are
    exactly those after `pos` native calls — so no timer reading is consumed by a pending
    high half — and `half_used` is the cursor's `pending`. -/
theorem Jitter_refines (j : Jitter.Rng) (hj : j.halfUsed = false) (rs : List U64) (ops : List Op)
    (outs : List Out) (j' : Jitter.Rng) (rs' : List U64)
    (hr : runJitter j ops rs = some ((outs, j'), rs')) :
    let spec := run (stepJitter (jitterStream j rs)) ⟨0, false⟩ ops
    outs = spec.1
    ∧ ∃ jn, natState j rs spec.2.pos = some (jn, rs') ∧ j' = { jn with halfUsed := spec.2.pending } :=
  jitter_refines j hj rs ops outs j' rs' hr

/-- the special case spelled out: two consecutive `next_u32` are the low and the high half of
    one `next_u64` result, and the second consumes no timer reading -/
theorem Jitter_u32_u32 (j : Jitter.Rng) (hj : j.halfUsed = false) (rs : List U64)
    (x y : U32) (j' : Jitter.Rng) (rs' : List U64)
    (hr : runJitter j [.u32, .u32] rs = some (([.w32 x, .w32 y], j'), rs')) :
    ∃ v jn, Jitter.nextU64 j rs = some ((v, jn), rs') ∧ x = lowHalf v ∧ y = highHalf v
      ∧ j' = jn := by
  obtain ⟨h1, jn, h2, h3⟩ := jitter_refines j hj rs _ _ j' rs' hr
  simp only [run_cons, run_nil, stepJitter, Bool.false_eq_true, if_false, if_true,
    List.cons.injEq, Out.w32.injEq, and_true, Nat.zero_add] at h1 h2 h3
  obtain ⟨hx, hy⟩ := h1
  -- unfold the one native step
  simp only [natState] at h2
  cases hn : Jitter.nextU64 j rs with
  | none => simp [hn] at h2
  | some p =>
    obtain ⟨⟨v, jm⟩, rsm⟩ := p
    simp only [hn, Option.some.injEq, Prod.mk.injEq] at h2
    obtain ⟨rfl, rfl⟩ := h2
    have hv : jitterStream j rs 0 = v := by simp [jitterStream, natState, hn]
    have hpost := nextU64_post j rs _ _ hn
    refine ⟨v, jm, rfl, by rw [hx, hv], by rw [hy, hv], ?_⟩
    rw [h3]; exact rng_eta jm hpost.1

/-- the hypothesis is satisfiable: a script long enough for one word (rounds = 1) -/
example :
    (runJitter { Jitter.newWithTimer with rounds := 1 } [.u32, .u32] [10, 3, 20, 5, 7, 50, 9]).isSome
      = true := by decide

end Rngs.C05
