import Rngs.Model.Xoshiro
namespace Rngs.C06
theorem placeholder : True := trivial
end Rngs.C06
