/-
  C06 — jump() / long_jump() equal 2^(n/2) / 2^(3n/4) calls of next, for all states of the 12
  jump-capable generators (n = 128, 256, 512 state bits).

  Proof route (Rngs/Lib/PolyAction.lean, Rngs/Lib/OrbitCert.lean, Rngs/Cert/Lin*.lean):
  the `impl_jump!` loop is `act T J` for the polynomial `J` packed in the constant words; the
  characteristic polynomial `P` of the engine annihilates `T` (checked by the kernel on the
  n one-bit states of the real model engine, extended by additivity); `x^(2^k) mod P = J` is
  computed by the kernel; hence `act T J = T^(2^k)`.

  Per generator `G`:
    G_jump / G_longJump            the main statements
    G_jump_step_comm, G_longJump_step_comm, G_jump_longJump_comm    commutation
    G_iter_jump / G_iter_longJump  k jumps = k·2^(n/2) (resp. k·2^(3n/4)) steps
    G_jump_then_steps / G_longJump_then_steps, G_jump_outputs / G_longJump_outputs
                                   all later states and outputs coincide with the stepped generator
  No theorem here has a hypothesis (all are for every state), so no satisfiability examples
  are needed.
-/
import Rngs.Cert.LinXoroshiro128Main
import Rngs.Cert.LinXoroshiro128ppMain
import Rngs.Cert.LinXoshiro128Main
import Rngs.Cert.LinXoshiro256Main
import Rngs.Cert.LinXoshiro512Main
import Rngs.Props.C07
namespace Rngs.C06
open Rngs

-- only silences the elaborator's "exponent exceeds threshold" warning on `2 ^ 384`, `2 ^ 512`
set_option exponentiation.threshold 1024

/-! ### Xoroshiro128Plus (128 state bits) -/

/-- `Xoroshiro128Plus::jump()` leaves the generator in the state reached by `2^64` calls of `next`. -/
theorem Xoroshiro128Plus_jump (s : S2 64) :
    Xoroshiro128Plus.jump s = iter Xoroshiro128Plus.step (2 ^ 64) s :=
  Cert.Lin.Xoroshiro128.polyMod.jumpLoop_eq_iter XOROSHIRO128_JUMP (by omega) Cert.Lin.Xoroshiro128.jump_pow s

/-- `Xoroshiro128Plus::long_jump()` leaves the generator in the state reached by `2^96` calls of `next`. -/
theorem Xoroshiro128Plus_longJump (s : S2 64) :
    Xoroshiro128Plus.longJump s = iter Xoroshiro128Plus.step (2 ^ 96) s :=
  Cert.Lin.Xoroshiro128.polyMod.jumpLoop_eq_iter XOROSHIRO128_LONG_JUMP (by omega) Cert.Lin.Xoroshiro128.longJump_pow s

theorem Xoroshiro128Plus_jump_step_comm (s : S2 64) :
    Xoroshiro128Plus.jump (Xoroshiro128Plus.step s) = Xoroshiro128Plus.step (Xoroshiro128Plus.jump s) :=
  comm_step_of_eq_iter Xoroshiro128Plus_jump s

theorem Xoroshiro128Plus_longJump_step_comm (s : S2 64) :
    Xoroshiro128Plus.longJump (Xoroshiro128Plus.step s) = Xoroshiro128Plus.step (Xoroshiro128Plus.longJump s) :=
  comm_step_of_eq_iter Xoroshiro128Plus_longJump s

theorem Xoroshiro128Plus_jump_longJump_comm (s : S2 64) :
    Xoroshiro128Plus.jump (Xoroshiro128Plus.longJump s) = Xoroshiro128Plus.longJump (Xoroshiro128Plus.jump s) :=
  comm_of_eq_iter Xoroshiro128Plus_jump Xoroshiro128Plus_longJump s

/-- `k` repeated `jump`s are `k · 2^64` steps: starting points `2^64` steps apart on the cycle. -/
theorem Xoroshiro128Plus_iter_jump (k : Nat) (s : S2 64) :
    iter Xoroshiro128Plus.jump k s = iter Xoroshiro128Plus.step (k * 2 ^ 64) s :=
  iter_of_eq_iter Xoroshiro128Plus_jump k s

theorem Xoroshiro128Plus_jump_then_steps (i : Nat) (s : S2 64) :
    iter Xoroshiro128Plus.step i (Xoroshiro128Plus.jump s) = iter Xoroshiro128Plus.step (i + 2 ^ 64) s :=
  iter_after_of_eq_iter Xoroshiro128Plus_jump i s

/-- every later output after `jump` is the output of the stepped generator -/
theorem Xoroshiro128Plus_jump_outputs (i : Nat) (s : S2 64) :
    (Xoroshiro128Plus.nextU64 (iter Xoroshiro128Plus.step i (Xoroshiro128Plus.jump s))).1 = (Xoroshiro128Plus.nextU64 (iter Xoroshiro128Plus.step (i + 2 ^ 64) s)).1 :=
  congrArg (fun t => (Xoroshiro128Plus.nextU64 t).1) (Xoroshiro128Plus_jump_then_steps i s)

/-- `k` repeated `longJump`s are `k · 2^96` steps: starting points `2^96` steps apart on the cycle. -/
theorem Xoroshiro128Plus_iter_longJump (k : Nat) (s : S2 64) :
    iter Xoroshiro128Plus.longJump k s = iter Xoroshiro128Plus.step (k * 2 ^ 96) s :=
  iter_of_eq_iter Xoroshiro128Plus_longJump k s

theorem Xoroshiro128Plus_longJump_then_steps (i : Nat) (s : S2 64) :
    iter Xoroshiro128Plus.step i (Xoroshiro128Plus.longJump s) = iter Xoroshiro128Plus.step (i + 2 ^ 96) s :=
  iter_after_of_eq_iter Xoroshiro128Plus_longJump i s

/-- every later output after `longJump` is the output of the stepped generator -/
theorem Xoroshiro128Plus_longJump_outputs (i : Nat) (s : S2 64) :
    (Xoroshiro128Plus.nextU64 (iter Xoroshiro128Plus.step i (Xoroshiro128Plus.longJump s))).1 = (Xoroshiro128Plus.nextU64 (iter Xoroshiro128Plus.step (i + 2 ^ 96) s)).1 :=
  congrArg (fun t => (Xoroshiro128Plus.nextU64 t).1) (Xoroshiro128Plus_longJump_then_steps i s)

/-! ### Xoroshiro128PlusPlus (128 state bits) -/

/-- `Xoroshiro128PlusPlus::jump()` leaves the generator in the state reached by `2^64` calls of `next`. -/
theorem Xoroshiro128PlusPlus_jump (s : S2 64) :
    Xoroshiro128PlusPlus.jump s = iter Xoroshiro128PlusPlus.step (2 ^ 64) s :=
  Cert.Lin.Xoroshiro128pp.polyMod.jumpLoop_eq_iter XOROSHIRO128PP_JUMP (by omega) Cert.Lin.Xoroshiro128pp.jump_pow s

/-- `Xoroshiro128PlusPlus::long_jump()` leaves the generator in the state reached by `2^96` calls of `next`. -/
theorem Xoroshiro128PlusPlus_longJump (s : S2 64) :
    Xoroshiro128PlusPlus.longJump s = iter Xoroshiro128PlusPlus.step (2 ^ 96) s :=
  Cert.Lin.Xoroshiro128pp.polyMod.jumpLoop_eq_iter XOROSHIRO128PP_LONG_JUMP (by omega) Cert.Lin.Xoroshiro128pp.longJump_pow s

theorem Xoroshiro128PlusPlus_jump_step_comm (s : S2 64) :
    Xoroshiro128PlusPlus.jump (Xoroshiro128PlusPlus.step s) = Xoroshiro128PlusPlus.step (Xoroshiro128PlusPlus.jump s) :=
  comm_step_of_eq_iter Xoroshiro128PlusPlus_jump s

theorem Xoroshiro128PlusPlus_longJump_step_comm (s : S2 64) :
    Xoroshiro128PlusPlus.longJump (Xoroshiro128PlusPlus.step s) = Xoroshiro128PlusPlus.step (Xoroshiro128PlusPlus.longJump s) :=
  comm_step_of_eq_iter Xoroshiro128PlusPlus_longJump s

theorem Xoroshiro128PlusPlus_jump_longJump_comm (s : S2 64) :
    Xoroshiro128PlusPlus.jump (Xoroshiro128PlusPlus.longJump s) = Xoroshiro128PlusPlus.longJump (Xoroshiro128PlusPlus.jump s) :=
  comm_of_eq_iter Xoroshiro128PlusPlus_jump Xoroshiro128PlusPlus_longJump s

/-- `k` repeated `jump`s are `k · 2^64` steps: starting points `2^64` steps apart on the cycle. -/
theorem Xoroshiro128PlusPlus_iter_jump (k : Nat) (s : S2 64) :
    iter Xoroshiro128PlusPlus.jump k s = iter Xoroshiro128PlusPlus.step (k * 2 ^ 64) s :=
  iter_of_eq_iter Xoroshiro128PlusPlus_jump k s

theorem Xoroshiro128PlusPlus_jump_then_steps (i : Nat) (s : S2 64) :
    iter Xoroshiro128PlusPlus.step i (Xoroshiro128PlusPlus.jump s) = iter Xoroshiro128PlusPlus.step (i + 2 ^ 64) s :=
  iter_after_of_eq_iter Xoroshiro128PlusPlus_jump i s

/-- every later output after `jump` is the output of the stepped generator -/
theorem Xoroshiro128PlusPlus_jump_outputs (i : Nat) (s : S2 64) :
    (Xoroshiro128PlusPlus.nextU64 (iter Xoroshiro128PlusPlus.step i (Xoroshiro128PlusPlus.jump s))).1 = (Xoroshiro128PlusPlus.nextU64 (iter Xoroshiro128PlusPlus.step (i + 2 ^ 64) s)).1 :=
  congrArg (fun t => (Xoroshiro128PlusPlus.nextU64 t).1) (Xoroshiro128PlusPlus_jump_then_steps i s)

/-- `k` repeated `longJump`s are `k · 2^96` steps: starting points `2^96` steps apart on the cycle. -/
theorem Xoroshiro128PlusPlus_iter_longJump (k : Nat) (s : S2 64) :
    iter Xoroshiro128PlusPlus.longJump k s = iter Xoroshiro128PlusPlus.step (k * 2 ^ 96) s :=
  iter_of_eq_iter Xoroshiro128PlusPlus_longJump k s

theorem Xoroshiro128PlusPlus_longJump_then_steps (i : Nat) (s : S2 64) :
    iter Xoroshiro128PlusPlus.step i (Xoroshiro128PlusPlus.longJump s) = iter Xoroshiro128PlusPlus.step (i + 2 ^ 96) s :=
  iter_after_of_eq_iter Xoroshiro128PlusPlus_longJump i s

/-- every later output after `longJump` is the output of the stepped generator -/
theorem Xoroshiro128PlusPlus_longJump_outputs (i : Nat) (s : S2 64) :
    (Xoroshiro128PlusPlus.nextU64 (iter Xoroshiro128PlusPlus.step i (Xoroshiro128PlusPlus.longJump s))).1 = (Xoroshiro128PlusPlus.nextU64 (iter Xoroshiro128PlusPlus.step (i + 2 ^ 96) s)).1 :=
  congrArg (fun t => (Xoroshiro128PlusPlus.nextU64 t).1) (Xoroshiro128PlusPlus_longJump_then_steps i s)

/-! ### Xoroshiro128StarStar (128 state bits) -/

/-- `Xoroshiro128StarStar::jump()` leaves the generator in the state reached by `2^64` calls of `next`. -/
theorem Xoroshiro128StarStar_jump (s : S2 64) :
    Xoroshiro128StarStar.jump s = iter Xoroshiro128StarStar.step (2 ^ 64) s :=
  Cert.Lin.Xoroshiro128.polyMod.jumpLoop_eq_iter XOROSHIRO128_JUMP (by omega) Cert.Lin.Xoroshiro128.jump_pow s

/-- `Xoroshiro128StarStar::long_jump()` leaves the generator in the state reached by `2^96` calls of `next`. -/
theorem Xoroshiro128StarStar_longJump (s : S2 64) :
    Xoroshiro128StarStar.longJump s = iter Xoroshiro128StarStar.step (2 ^ 96) s :=
  Cert.Lin.Xoroshiro128.polyMod.jumpLoop_eq_iter XOROSHIRO128_LONG_JUMP (by omega) Cert.Lin.Xoroshiro128.longJump_pow s

theorem Xoroshiro128StarStar_jump_step_comm (s : S2 64) :
    Xoroshiro128StarStar.jump (Xoroshiro128StarStar.step s) = Xoroshiro128StarStar.step (Xoroshiro128StarStar.jump s) :=
  comm_step_of_eq_iter Xoroshiro128StarStar_jump s

theorem Xoroshiro128StarStar_longJump_step_comm (s : S2 64) :
    Xoroshiro128StarStar.longJump (Xoroshiro128StarStar.step s) = Xoroshiro128StarStar.step (Xoroshiro128StarStar.longJump s) :=
  comm_step_of_eq_iter Xoroshiro128StarStar_longJump s

theorem Xoroshiro128StarStar_jump_longJump_comm (s : S2 64) :
    Xoroshiro128StarStar.jump (Xoroshiro128StarStar.longJump s) = Xoroshiro128StarStar.longJump (Xoroshiro128StarStar.jump s) :=
  comm_of_eq_iter Xoroshiro128StarStar_jump Xoroshiro128StarStar_longJump s

/-- `k` repeated `jump`s are `k · 2^64` steps: starting points `2^64` steps apart on the cycle. -/
theorem Xoroshiro128StarStar_iter_jump (k : Nat) (s : S2 64) :
    iter Xoroshiro128StarStar.jump k s = iter Xoroshiro128StarStar.step (k * 2 ^ 64) s :=
  iter_of_eq_iter Xoroshiro128StarStar_jump k s

theorem Xoroshiro128StarStar_jump_then_steps (i : Nat) (s : S2 64) :
    iter Xoroshiro128StarStar.step i (Xoroshiro128StarStar.jump s) = iter Xoroshiro128StarStar.step (i + 2 ^ 64) s :=
  iter_after_of_eq_iter Xoroshiro128StarStar_jump i s

/-- every later output after `jump` is the output of the stepped generator -/
theorem Xoroshiro128StarStar_jump_outputs (i : Nat) (s : S2 64) :
    (Xoroshiro128StarStar.nextU64 (iter Xoroshiro128StarStar.step i (Xoroshiro128StarStar.jump s))).1 = (Xoroshiro128StarStar.nextU64 (iter Xoroshiro128StarStar.step (i + 2 ^ 64) s)).1 :=
  congrArg (fun t => (Xoroshiro128StarStar.nextU64 t).1) (Xoroshiro128StarStar_jump_then_steps i s)

/-- `k` repeated `longJump`s are `k · 2^96` steps: starting points `2^96` steps apart on the cycle. -/
theorem Xoroshiro128StarStar_iter_longJump (k : Nat) (s : S2 64) :
    iter Xoroshiro128StarStar.longJump k s = iter Xoroshiro128StarStar.step (k * 2 ^ 96) s :=
  iter_of_eq_iter Xoroshiro128StarStar_longJump k s

theorem Xoroshiro128StarStar_longJump_then_steps (i : Nat) (s : S2 64) :
    iter Xoroshiro128StarStar.step i (Xoroshiro128StarStar.longJump s) = iter Xoroshiro128StarStar.step (i + 2 ^ 96) s :=
  iter_after_of_eq_iter Xoroshiro128StarStar_longJump i s

/-- every later output after `longJump` is the output of the stepped generator -/
theorem Xoroshiro128StarStar_longJump_outputs (i : Nat) (s : S2 64) :
    (Xoroshiro128StarStar.nextU64 (iter Xoroshiro128StarStar.step i (Xoroshiro128StarStar.longJump s))).1 = (Xoroshiro128StarStar.nextU64 (iter Xoroshiro128StarStar.step (i + 2 ^ 96) s)).1 :=
  congrArg (fun t => (Xoroshiro128StarStar.nextU64 t).1) (Xoroshiro128StarStar_longJump_then_steps i s)

/-! ### Xoshiro128Plus (128 state bits) -/

/-- `Xoshiro128Plus::jump()` leaves the generator in the state reached by `2^64` calls of `next`. -/
theorem Xoshiro128Plus_jump (s : S4 32) :
    Xoshiro128Plus.jump s = iter Xoshiro128Plus.step (2 ^ 64) s :=
  Cert.Lin.Xoshiro128.polyMod.jumpLoop_eq_iter XOSHIRO128_JUMP (by omega) Cert.Lin.Xoshiro128.jump_pow s

/-- `Xoshiro128Plus::long_jump()` leaves the generator in the state reached by `2^96` calls of `next`. -/
theorem Xoshiro128Plus_longJump (s : S4 32) :
    Xoshiro128Plus.longJump s = iter Xoshiro128Plus.step (2 ^ 96) s :=
  Cert.Lin.Xoshiro128.polyMod.jumpLoop_eq_iter XOSHIRO128_LONG_JUMP (by omega) Cert.Lin.Xoshiro128.longJump_pow s

theorem Xoshiro128Plus_jump_step_comm (s : S4 32) :
    Xoshiro128Plus.jump (Xoshiro128Plus.step s) = Xoshiro128Plus.step (Xoshiro128Plus.jump s) :=
  comm_step_of_eq_iter Xoshiro128Plus_jump s

theorem Xoshiro128Plus_longJump_step_comm (s : S4 32) :
    Xoshiro128Plus.longJump (Xoshiro128Plus.step s) = Xoshiro128Plus.step (Xoshiro128Plus.longJump s) :=
  comm_step_of_eq_iter Xoshiro128Plus_longJump s

theorem Xoshiro128Plus_jump_longJump_comm (s : S4 32) :
    Xoshiro128Plus.jump (Xoshiro128Plus.longJump s) = Xoshiro128Plus.longJump (Xoshiro128Plus.jump s) :=
  comm_of_eq_iter Xoshiro128Plus_jump Xoshiro128Plus_longJump s

/-- `k` repeated `jump`s are `k · 2^64` steps: starting points `2^64` steps apart on the cycle. -/
theorem Xoshiro128Plus_iter_jump (k : Nat) (s : S4 32) :
    iter Xoshiro128Plus.jump k s = iter Xoshiro128Plus.step (k * 2 ^ 64) s :=
  iter_of_eq_iter Xoshiro128Plus_jump k s

theorem Xoshiro128Plus_jump_then_steps (i : Nat) (s : S4 32) :
    iter Xoshiro128Plus.step i (Xoshiro128Plus.jump s) = iter Xoshiro128Plus.step (i + 2 ^ 64) s :=
  iter_after_of_eq_iter Xoshiro128Plus_jump i s

/-- every later output after `jump` is the output of the stepped generator -/
theorem Xoshiro128Plus_jump_outputs (i : Nat) (s : S4 32) :
    (Xoshiro128Plus.nextU32 (iter Xoshiro128Plus.step i (Xoshiro128Plus.jump s))).1 = (Xoshiro128Plus.nextU32 (iter Xoshiro128Plus.step (i + 2 ^ 64) s)).1 :=
  congrArg (fun t => (Xoshiro128Plus.nextU32 t).1) (Xoshiro128Plus_jump_then_steps i s)

/-- `k` repeated `longJump`s are `k · 2^96` steps: starting points `2^96` steps apart on the cycle. -/
theorem Xoshiro128Plus_iter_longJump (k : Nat) (s : S4 32) :
    iter Xoshiro128Plus.longJump k s = iter Xoshiro128Plus.step (k * 2 ^ 96) s :=
  iter_of_eq_iter Xoshiro128Plus_longJump k s

theorem Xoshiro128Plus_longJump_then_steps (i : Nat) (s : S4 32) :
    iter Xoshiro128Plus.step i (Xoshiro128Plus.longJump s) = iter Xoshiro128Plus.step (i + 2 ^ 96) s :=
  iter_after_of_eq_iter Xoshiro128Plus_longJump i s

/-- every later output after `longJump` is the output of the stepped generator -/
theorem Xoshiro128Plus_longJump_outputs (i : Nat) (s : S4 32) :
    (Xoshiro128Plus.nextU32 (iter Xoshiro128Plus.step i (Xoshiro128Plus.longJump s))).1 = (Xoshiro128Plus.nextU32 (iter Xoshiro128Plus.step (i + 2 ^ 96) s)).1 :=
  congrArg (fun t => (Xoshiro128Plus.nextU32 t).1) (Xoshiro128Plus_longJump_then_steps i s)

/-! ### Xoshiro128PlusPlus (128 state bits) -/

/-- `Xoshiro128PlusPlus::jump()` leaves the generator in the state reached by `2^64` calls of `next`. -/
theorem Xoshiro128PlusPlus_jump (s : S4 32) :
    Xoshiro128PlusPlus.jump s = iter Xoshiro128PlusPlus.step (2 ^ 64) s :=
  Cert.Lin.Xoshiro128.polyMod.jumpLoop_eq_iter XOSHIRO128_JUMP (by omega) Cert.Lin.Xoshiro128.jump_pow s

/-- `Xoshiro128PlusPlus::long_jump()` leaves the generator in the state reached by `2^96` calls of `next`. -/
theorem Xoshiro128PlusPlus_longJump (s : S4 32) :
    Xoshiro128PlusPlus.longJump s = iter Xoshiro128PlusPlus.step (2 ^ 96) s :=
  Cert.Lin.Xoshiro128.polyMod.jumpLoop_eq_iter XOSHIRO128_LONG_JUMP (by omega) Cert.Lin.Xoshiro128.longJump_pow s

theorem Xoshiro128PlusPlus_jump_step_comm (s : S4 32) :
    Xoshiro128PlusPlus.jump (Xoshiro128PlusPlus.step s) = Xoshiro128PlusPlus.step (Xoshiro128PlusPlus.jump s) :=
  comm_step_of_eq_iter Xoshiro128PlusPlus_jump s

theorem Xoshiro128PlusPlus_longJump_step_comm (s : S4 32) :
    Xoshiro128PlusPlus.longJump (Xoshiro128PlusPlus.step s) = Xoshiro128PlusPlus.step (Xoshiro128PlusPlus.longJump s) :=
  comm_step_of_eq_iter Xoshiro128PlusPlus_longJump s

theorem Xoshiro128PlusPlus_jump_longJump_comm (s : S4 32) :
    Xoshiro128PlusPlus.jump (Xoshiro128PlusPlus.longJump s) = Xoshiro128PlusPlus.longJump (Xoshiro128PlusPlus.jump s) :=
  comm_of_eq_iter Xoshiro128PlusPlus_jump Xoshiro128PlusPlus_longJump s

/-- `k` repeated `jump`s are `k · 2^64` steps: starting points `2^64` steps apart on the cycle. -/
theorem Xoshiro128PlusPlus_iter_jump (k : Nat) (s : S4 32) :
    iter Xoshiro128PlusPlus.jump k s = iter Xoshiro128PlusPlus.step (k * 2 ^ 64) s :=
  iter_of_eq_iter Xoshiro128PlusPlus_jump k s

theorem Xoshiro128PlusPlus_jump_then_steps (i : Nat) (s : S4 32) :
    iter Xoshiro128PlusPlus.step i (Xoshiro128PlusPlus.jump s) = iter Xoshiro128PlusPlus.step (i + 2 ^ 64) s :=
  iter_after_of_eq_iter Xoshiro128PlusPlus_jump i s

/-- every later output after `jump` is the output of the stepped generator -/
theorem Xoshiro128PlusPlus_jump_outputs (i : Nat) (s : S4 32) :
    (Xoshiro128PlusPlus.nextU32 (iter Xoshiro128PlusPlus.step i (Xoshiro128PlusPlus.jump s))).1 = (Xoshiro128PlusPlus.nextU32 (iter Xoshiro128PlusPlus.step (i + 2 ^ 64) s)).1 :=
  congrArg (fun t => (Xoshiro128PlusPlus.nextU32 t).1) (Xoshiro128PlusPlus_jump_then_steps i s)

/-- `k` repeated `longJump`s are `k · 2^96` steps: starting points `2^96` steps apart on the cycle. -/
theorem Xoshiro128PlusPlus_iter_longJump (k : Nat) (s : S4 32) :
    iter Xoshiro128PlusPlus.longJump k s = iter Xoshiro128PlusPlus.step (k * 2 ^ 96) s :=
  iter_of_eq_iter Xoshiro128PlusPlus_longJump k s

theorem Xoshiro128PlusPlus_longJump_then_steps (i : Nat) (s : S4 32) :
    iter Xoshiro128PlusPlus.step i (Xoshiro128PlusPlus.longJump s) = iter Xoshiro128PlusPlus.step (i + 2 ^ 96) s :=
  iter_after_of_eq_iter Xoshiro128PlusPlus_longJump i s

/-- every later output after `longJump` is the output of the stepped generator -/
theorem Xoshiro128PlusPlus_longJump_outputs (i : Nat) (s : S4 32) :
    (Xoshiro128PlusPlus.nextU32 (iter Xoshiro128PlusPlus.step i (Xoshiro128PlusPlus.longJump s))).1 = (Xoshiro128PlusPlus.nextU32 (iter Xoshiro128PlusPlus.step (i + 2 ^ 96) s)).1 :=
  congrArg (fun t => (Xoshiro128PlusPlus.nextU32 t).1) (Xoshiro128PlusPlus_longJump_then_steps i s)

/-! ### Xoshiro128StarStar (128 state bits) -/

/-- `Xoshiro128StarStar::jump()` leaves the generator in the state reached by `2^64` calls of `next`. -/
theorem Xoshiro128StarStar_jump (s : S4 32) :
    Xoshiro128StarStar.jump s = iter Xoshiro128StarStar.step (2 ^ 64) s :=
  Cert.Lin.Xoshiro128.polyMod.jumpLoop_eq_iter XOSHIRO128_JUMP (by omega) Cert.Lin.Xoshiro128.jump_pow s

/-- `Xoshiro128StarStar::long_jump()` leaves the generator in the state reached by `2^96` calls of `next`. -/
theorem Xoshiro128StarStar_longJump (s : S4 32) :
    Xoshiro128StarStar.longJump s = iter Xoshiro128StarStar.step (2 ^ 96) s :=
  Cert.Lin.Xoshiro128.polyMod.jumpLoop_eq_iter XOSHIRO128_LONG_JUMP (by omega) Cert.Lin.Xoshiro128.longJump_pow s

theorem Xoshiro128StarStar_jump_step_comm (s : S4 32) :
    Xoshiro128StarStar.jump (Xoshiro128StarStar.step s) = Xoshiro128StarStar.step (Xoshiro128StarStar.jump s) :=
  comm_step_of_eq_iter Xoshiro128StarStar_jump s

theorem Xoshiro128StarStar_longJump_step_comm (s : S4 32) :
    Xoshiro128StarStar.longJump (Xoshiro128StarStar.step s) = Xoshiro128StarStar.step (Xoshiro128StarStar.longJump s) :=
  comm_step_of_eq_iter Xoshiro128StarStar_longJump s

theorem Xoshiro128StarStar_jump_longJump_comm (s : S4 32) :
    Xoshiro128StarStar.jump (Xoshiro128StarStar.longJump s) = Xoshiro128StarStar.longJump (Xoshiro128StarStar.jump s) :=
  comm_of_eq_iter Xoshiro128StarStar_jump Xoshiro128StarStar_longJump s

/-- `k` repeated `jump`s are `k · 2^64` steps: starting points `2^64` steps apart on the cycle. -/
theorem Xoshiro128StarStar_iter_jump (k : Nat) (s : S4 32) :
    iter Xoshiro128StarStar.jump k s = iter Xoshiro128StarStar.step (k * 2 ^ 64) s :=
  iter_of_eq_iter Xoshiro128StarStar_jump k s

theorem Xoshiro128StarStar_jump_then_steps (i : Nat) (s : S4 32) :
    iter Xoshiro128StarStar.step i (Xoshiro128StarStar.jump s) = iter Xoshiro128StarStar.step (i + 2 ^ 64) s :=
  iter_after_of_eq_iter Xoshiro128StarStar_jump i s

/-- every later output after `jump` is the output of the stepped generator -/
theorem Xoshiro128StarStar_jump_outputs (i : Nat) (s : S4 32) :
    (Xoshiro128StarStar.nextU32 (iter Xoshiro128StarStar.step i (Xoshiro128StarStar.jump s))).1 = (Xoshiro128StarStar.nextU32 (iter Xoshiro128StarStar.step (i + 2 ^ 64) s)).1 :=
  congrArg (fun t => (Xoshiro128StarStar.nextU32 t).1) (Xoshiro128StarStar_jump_then_steps i s)

/-- `k` repeated `longJump`s are `k · 2^96` steps: starting points `2^96` steps apart on the cycle. -/
theorem Xoshiro128StarStar_iter_longJump (k : Nat) (s : S4 32) :
    iter Xoshiro128StarStar.longJump k s = iter Xoshiro128StarStar.step (k * 2 ^ 96) s :=
  iter_of_eq_iter Xoshiro128StarStar_longJump k s

theorem Xoshiro128StarStar_longJump_then_steps (i : Nat) (s : S4 32) :
    iter Xoshiro128StarStar.step i (Xoshiro128StarStar.longJump s) = iter Xoshiro128StarStar.step (i + 2 ^ 96) s :=
  iter_after_of_eq_iter Xoshiro128StarStar_longJump i s

/-- every later output after `longJump` is the output of the stepped generator -/
theorem Xoshiro128StarStar_longJump_outputs (i : Nat) (s : S4 32) :
    (Xoshiro128StarStar.nextU32 (iter Xoshiro128StarStar.step i (Xoshiro128StarStar.longJump s))).1 = (Xoshiro128StarStar.nextU32 (iter Xoshiro128StarStar.step (i + 2 ^ 96) s)).1 :=
  congrArg (fun t => (Xoshiro128StarStar.nextU32 t).1) (Xoshiro128StarStar_longJump_then_steps i s)

/-! ### Xoshiro256Plus (256 state bits) -/

/-- `Xoshiro256Plus::jump()` leaves the generator in the state reached by `2^128` calls of `next`. -/
theorem Xoshiro256Plus_jump (s : S4 64) :
    Xoshiro256Plus.jump s = iter Xoshiro256Plus.step (2 ^ 128) s :=
  Cert.Lin.Xoshiro256.polyMod.jumpLoop_eq_iter XOSHIRO256_JUMP (by omega) Cert.Lin.Xoshiro256.jump_pow s

/-- `Xoshiro256Plus::long_jump()` leaves the generator in the state reached by `2^192` calls of `next`. -/
theorem Xoshiro256Plus_longJump (s : S4 64) :
    Xoshiro256Plus.longJump s = iter Xoshiro256Plus.step (2 ^ 192) s :=
  Cert.Lin.Xoshiro256.polyMod.jumpLoop_eq_iter XOSHIRO256_LONG_JUMP (by omega) Cert.Lin.Xoshiro256.longJump_pow s

theorem Xoshiro256Plus_jump_step_comm (s : S4 64) :
    Xoshiro256Plus.jump (Xoshiro256Plus.step s) = Xoshiro256Plus.step (Xoshiro256Plus.jump s) :=
  comm_step_of_eq_iter Xoshiro256Plus_jump s

theorem Xoshiro256Plus_longJump_step_comm (s : S4 64) :
    Xoshiro256Plus.longJump (Xoshiro256Plus.step s) = Xoshiro256Plus.step (Xoshiro256Plus.longJump s) :=
  comm_step_of_eq_iter Xoshiro256Plus_longJump s

theorem Xoshiro256Plus_jump_longJump_comm (s : S4 64) :
    Xoshiro256Plus.jump (Xoshiro256Plus.longJump s) = Xoshiro256Plus.longJump (Xoshiro256Plus.jump s) :=
  comm_of_eq_iter Xoshiro256Plus_jump Xoshiro256Plus_longJump s

/-- `k` repeated `jump`s are `k · 2^128` steps: starting points `2^128` steps apart on the cycle. -/
theorem Xoshiro256Plus_iter_jump (k : Nat) (s : S4 64) :
    iter Xoshiro256Plus.jump k s = iter Xoshiro256Plus.step (k * 2 ^ 128) s :=
  iter_of_eq_iter Xoshiro256Plus_jump k s

theorem Xoshiro256Plus_jump_then_steps (i : Nat) (s : S4 64) :
    iter Xoshiro256Plus.step i (Xoshiro256Plus.jump s) = iter Xoshiro256Plus.step (i + 2 ^ 128) s :=
  iter_after_of_eq_iter Xoshiro256Plus_jump i s

/-- every later output after `jump` is the output of the stepped generator -/
theorem Xoshiro256Plus_jump_outputs (i : Nat) (s : S4 64) :
    (Xoshiro256Plus.nextU64 (iter Xoshiro256Plus.step i (Xoshiro256Plus.jump s))).1 = (Xoshiro256Plus.nextU64 (iter Xoshiro256Plus.step (i + 2 ^ 128) s)).1 :=
  congrArg (fun t => (Xoshiro256Plus.nextU64 t).1) (Xoshiro256Plus_jump_then_steps i s)

/-- `k` repeated `longJump`s are `k · 2^192` steps: starting points `2^192` steps apart on the cycle. -/
theorem Xoshiro256Plus_iter_longJump (k : Nat) (s : S4 64) :
    iter Xoshiro256Plus.longJump k s = iter Xoshiro256Plus.step (k * 2 ^ 192) s :=
  iter_of_eq_iter Xoshiro256Plus_longJump k s

theorem Xoshiro256Plus_longJump_then_steps (i : Nat) (s : S4 64) :
    iter Xoshiro256Plus.step i (Xoshiro256Plus.longJump s) = iter Xoshiro256Plus.step (i + 2 ^ 192) s :=
  iter_after_of_eq_iter Xoshiro256Plus_longJump i s

/-- every later output after `longJump` is the output of the stepped generator -/
theorem Xoshiro256Plus_longJump_outputs (i : Nat) (s : S4 64) :
    (Xoshiro256Plus.nextU64 (iter Xoshiro256Plus.step i (Xoshiro256Plus.longJump s))).1 = (Xoshiro256Plus.nextU64 (iter Xoshiro256Plus.step (i + 2 ^ 192) s)).1 :=
  congrArg (fun t => (Xoshiro256Plus.nextU64 t).1) (Xoshiro256Plus_longJump_then_steps i s)

/-! ### Xoshiro256PlusPlus (256 state bits) -/

/-- `Xoshiro256PlusPlus::jump()` leaves the generator in the state reached by `2^128` calls of `next`. -/
theorem Xoshiro256PlusPlus_jump (s : S4 64) :
    Xoshiro256PlusPlus.jump s = iter Xoshiro256PlusPlus.step (2 ^ 128) s :=
  Cert.Lin.Xoshiro256.polyMod.jumpLoop_eq_iter XOSHIRO256_JUMP (by omega) Cert.Lin.Xoshiro256.jump_pow s

/-- `Xoshiro256PlusPlus::long_jump()` leaves the generator in the state reached by `2^192` calls of `next`. -/
theorem Xoshiro256PlusPlus_longJump (s : S4 64) :
    Xoshiro256PlusPlus.longJump s = iter Xoshiro256PlusPlus.step (2 ^ 192) s :=
  Cert.Lin.Xoshiro256.polyMod.jumpLoop_eq_iter XOSHIRO256_LONG_JUMP (by omega) Cert.Lin.Xoshiro256.longJump_pow s

theorem Xoshiro256PlusPlus_jump_step_comm (s : S4 64) :
    Xoshiro256PlusPlus.jump (Xoshiro256PlusPlus.step s) = Xoshiro256PlusPlus.step (Xoshiro256PlusPlus.jump s) :=
  comm_step_of_eq_iter Xoshiro256PlusPlus_jump s

theorem Xoshiro256PlusPlus_longJump_step_comm (s : S4 64) :
    Xoshiro256PlusPlus.longJump (Xoshiro256PlusPlus.step s) = Xoshiro256PlusPlus.step (Xoshiro256PlusPlus.longJump s) :=
  comm_step_of_eq_iter Xoshiro256PlusPlus_longJump s

theorem Xoshiro256PlusPlus_jump_longJump_comm (s : S4 64) :
    Xoshiro256PlusPlus.jump (Xoshiro256PlusPlus.longJump s) = Xoshiro256PlusPlus.longJump (Xoshiro256PlusPlus.jump s) :=
  comm_of_eq_iter Xoshiro256PlusPlus_jump Xoshiro256PlusPlus_longJump s

/-- `k` repeated `jump`s are `k · 2^128` steps: starting points `2^128` steps apart on the cycle. -/
theorem Xoshiro256PlusPlus_iter_jump (k : Nat) (s : S4 64) :
    iter Xoshiro256PlusPlus.jump k s = iter Xoshiro256PlusPlus.step (k * 2 ^ 128) s :=
  iter_of_eq_iter Xoshiro256PlusPlus_jump k s

theorem Xoshiro256PlusPlus_jump_then_steps (i : Nat) (s : S4 64) :
    iter Xoshiro256PlusPlus.step i (Xoshiro256PlusPlus.jump s) = iter Xoshiro256PlusPlus.step (i + 2 ^ 128) s :=
  iter_after_of_eq_iter Xoshiro256PlusPlus_jump i s

/-- every later output after `jump` is the output of the stepped generator -/
theorem Xoshiro256PlusPlus_jump_outputs (i : Nat) (s : S4 64) :
    (Xoshiro256PlusPlus.nextU64 (iter Xoshiro256PlusPlus.step i (Xoshiro256PlusPlus.jump s))).1 = (Xoshiro256PlusPlus.nextU64 (iter Xoshiro256PlusPlus.step (i + 2 ^ 128) s)).1 :=
  congrArg (fun t => (Xoshiro256PlusPlus.nextU64 t).1) (Xoshiro256PlusPlus_jump_then_steps i s)

/-- `k` repeated `longJump`s are `k · 2^192` steps: starting points `2^192` steps apart on the cycle. -/
theorem Xoshiro256PlusPlus_iter_longJump (k : Nat) (s : S4 64) :
    iter Xoshiro256PlusPlus.longJump k s = iter Xoshiro256PlusPlus.step (k * 2 ^ 192) s :=
  iter_of_eq_iter Xoshiro256PlusPlus_longJump k s

theorem Xoshiro256PlusPlus_longJump_then_steps (i : Nat) (s : S4 64) :
    iter Xoshiro256PlusPlus.step i (Xoshiro256PlusPlus.longJump s) = iter Xoshiro256PlusPlus.step (i + 2 ^ 192) s :=
  iter_after_of_eq_iter Xoshiro256PlusPlus_longJump i s

/-- every later output after `longJump` is the output of the stepped generator -/
theorem Xoshiro256PlusPlus_longJump_outputs (i : Nat) (s : S4 64) :
    (Xoshiro256PlusPlus.nextU64 (iter Xoshiro256PlusPlus.step i (Xoshiro256PlusPlus.longJump s))).1 = (Xoshiro256PlusPlus.nextU64 (iter Xoshiro256PlusPlus.step (i + 2 ^ 192) s)).1 :=
  congrArg (fun t => (Xoshiro256PlusPlus.nextU64 t).1) (Xoshiro256PlusPlus_longJump_then_steps i s)

/-! ### Xoshiro256StarStar (256 state bits) -/

/-- `Xoshiro256StarStar::jump()` leaves the generator in the state reached by `2^128` calls of `next`. -/
theorem Xoshiro256StarStar_jump (s : S4 64) :
    Xoshiro256StarStar.jump s = iter Xoshiro256StarStar.step (2 ^ 128) s :=
  Cert.Lin.Xoshiro256.polyMod.jumpLoop_eq_iter XOSHIRO256_JUMP (by omega) Cert.Lin.Xoshiro256.jump_pow s

/-- `Xoshiro256StarStar::long_jump()` leaves the generator in the state reached by `2^192` calls of `next`. -/
theorem Xoshiro256StarStar_longJump (s : S4 64) :
    Xoshiro256StarStar.longJump s = iter Xoshiro256StarStar.step (2 ^ 192) s :=
  Cert.Lin.Xoshiro256.polyMod.jumpLoop_eq_iter XOSHIRO256_LONG_JUMP (by omega) Cert.Lin.Xoshiro256.longJump_pow s

theorem Xoshiro256StarStar_jump_step_comm (s : S4 64) :
    Xoshiro256StarStar.jump (Xoshiro256StarStar.step s) = Xoshiro256StarStar.step (Xoshiro256StarStar.jump s) :=
  comm_step_of_eq_iter Xoshiro256StarStar_jump s

theorem Xoshiro256StarStar_longJump_step_comm (s : S4 64) :
    Xoshiro256StarStar.longJump (Xoshiro256StarStar.step s) = Xoshiro256StarStar.step (Xoshiro256StarStar.longJump s) :=
  comm_step_of_eq_iter Xoshiro256StarStar_longJump s

theorem Xoshiro256StarStar_jump_longJump_comm (s : S4 64) :
    Xoshiro256StarStar.jump (Xoshiro256StarStar.longJump s) = Xoshiro256StarStar.longJump (Xoshiro256StarStar.jump s) :=
  comm_of_eq_iter Xoshiro256StarStar_jump Xoshiro256StarStar_longJump s

/-- `k` repeated `jump`s are `k · 2^128` steps: starting points `2^128` steps apart on the cycle. -/
theorem Xoshiro256StarStar_iter_jump (k : Nat) (s : S4 64) :
    iter Xoshiro256StarStar.jump k s = iter Xoshiro256StarStar.step (k * 2 ^ 128) s :=
  iter_of_eq_iter Xoshiro256StarStar_jump k s

theorem Xoshiro256StarStar_jump_then_steps (i : Nat) (s : S4 64) :
    iter Xoshiro256StarStar.step i (Xoshiro256StarStar.jump s) = iter Xoshiro256StarStar.step (i + 2 ^ 128) s :=
  iter_after_of_eq_iter Xoshiro256StarStar_jump i s

/-- every later output after `jump` is the output of the stepped generator -/
theorem Xoshiro256StarStar_jump_outputs (i : Nat) (s : S4 64) :
    (Xoshiro256StarStar.nextU64 (iter Xoshiro256StarStar.step i (Xoshiro256StarStar.jump s))).1 = (Xoshiro256StarStar.nextU64 (iter Xoshiro256StarStar.step (i + 2 ^ 128) s)).1 :=
  congrArg (fun t => (Xoshiro256StarStar.nextU64 t).1) (Xoshiro256StarStar_jump_then_steps i s)

/-- `k` repeated `longJump`s are `k · 2^192` steps: starting points `2^192` steps apart on the cycle. -/
theorem Xoshiro256StarStar_iter_longJump (k : Nat) (s : S4 64) :
    iter Xoshiro256StarStar.longJump k s = iter Xoshiro256StarStar.step (k * 2 ^ 192) s :=
  iter_of_eq_iter Xoshiro256StarStar_longJump k s

theorem Xoshiro256StarStar_longJump_then_steps (i : Nat) (s : S4 64) :
    iter Xoshiro256StarStar.step i (Xoshiro256StarStar.longJump s) = iter Xoshiro256StarStar.step (i + 2 ^ 192) s :=
  iter_after_of_eq_iter Xoshiro256StarStar_longJump i s

/-- every later output after `longJump` is the output of the stepped generator -/
theorem Xoshiro256StarStar_longJump_outputs (i : Nat) (s : S4 64) :
    (Xoshiro256StarStar.nextU64 (iter Xoshiro256StarStar.step i (Xoshiro256StarStar.longJump s))).1 = (Xoshiro256StarStar.nextU64 (iter Xoshiro256StarStar.step (i + 2 ^ 192) s)).1 :=
  congrArg (fun t => (Xoshiro256StarStar.nextU64 t).1) (Xoshiro256StarStar_longJump_then_steps i s)

/-! ### Xoshiro512Plus (512 state bits) -/

/-- `Xoshiro512Plus::jump()` leaves the generator in the state reached by `2^256` calls of `next`. -/
theorem Xoshiro512Plus_jump (s : S8) :
    Xoshiro512Plus.jump s = iter Xoshiro512Plus.step (2 ^ 256) s :=
  Cert.Lin.Xoshiro512.polyMod.jumpLoop_eq_iter XOSHIRO512_JUMP (by omega) Cert.Lin.Xoshiro512.jump_pow s

/-- `Xoshiro512Plus::long_jump()` leaves the generator in the state reached by `2^384` calls of `next`. -/
theorem Xoshiro512Plus_longJump (s : S8) :
    Xoshiro512Plus.longJump s = iter Xoshiro512Plus.step (2 ^ 384) s :=
  Cert.Lin.Xoshiro512.polyMod.jumpLoop_eq_iter XOSHIRO512_LONG_JUMP (by omega) Cert.Lin.Xoshiro512.longJump_pow s

theorem Xoshiro512Plus_jump_step_comm (s : S8) :
    Xoshiro512Plus.jump (Xoshiro512Plus.step s) = Xoshiro512Plus.step (Xoshiro512Plus.jump s) :=
  comm_step_of_eq_iter Xoshiro512Plus_jump s

theorem Xoshiro512Plus_longJump_step_comm (s : S8) :
    Xoshiro512Plus.longJump (Xoshiro512Plus.step s) = Xoshiro512Plus.step (Xoshiro512Plus.longJump s) :=
  comm_step_of_eq_iter Xoshiro512Plus_longJump s

theorem Xoshiro512Plus_jump_longJump_comm (s : S8) :
    Xoshiro512Plus.jump (Xoshiro512Plus.longJump s) = Xoshiro512Plus.longJump (Xoshiro512Plus.jump s) :=
  comm_of_eq_iter Xoshiro512Plus_jump Xoshiro512Plus_longJump s

/-- `k` repeated `jump`s are `k · 2^256` steps: starting points `2^256` steps apart on the cycle. -/
theorem Xoshiro512Plus_iter_jump (k : Nat) (s : S8) :
    iter Xoshiro512Plus.jump k s = iter Xoshiro512Plus.step (k * 2 ^ 256) s :=
  iter_of_eq_iter Xoshiro512Plus_jump k s

theorem Xoshiro512Plus_jump_then_steps (i : Nat) (s : S8) :
    iter Xoshiro512Plus.step i (Xoshiro512Plus.jump s) = iter Xoshiro512Plus.step (i + 2 ^ 256) s :=
  iter_after_of_eq_iter Xoshiro512Plus_jump i s

/-- every later output after `jump` is the output of the stepped generator -/
theorem Xoshiro512Plus_jump_outputs (i : Nat) (s : S8) :
    (Xoshiro512Plus.nextU64 (iter Xoshiro512Plus.step i (Xoshiro512Plus.jump s))).1 = (Xoshiro512Plus.nextU64 (iter Xoshiro512Plus.step (i + 2 ^ 256) s)).1 :=
  congrArg (fun t => (Xoshiro512Plus.nextU64 t).1) (Xoshiro512Plus_jump_then_steps i s)

/-- `k` repeated `longJump`s are `k · 2^384` steps: starting points `2^384` steps apart on the cycle. -/
theorem Xoshiro512Plus_iter_longJump (k : Nat) (s : S8) :
    iter Xoshiro512Plus.longJump k s = iter Xoshiro512Plus.step (k * 2 ^ 384) s :=
  iter_of_eq_iter Xoshiro512Plus_longJump k s

theorem Xoshiro512Plus_longJump_then_steps (i : Nat) (s : S8) :
    iter Xoshiro512Plus.step i (Xoshiro512Plus.longJump s) = iter Xoshiro512Plus.step (i + 2 ^ 384) s :=
  iter_after_of_eq_iter Xoshiro512Plus_longJump i s

/-- every later output after `longJump` is the output of the stepped generator -/
theorem Xoshiro512Plus_longJump_outputs (i : Nat) (s : S8) :
    (Xoshiro512Plus.nextU64 (iter Xoshiro512Plus.step i (Xoshiro512Plus.longJump s))).1 = (Xoshiro512Plus.nextU64 (iter Xoshiro512Plus.step (i + 2 ^ 384) s)).1 :=
  congrArg (fun t => (Xoshiro512Plus.nextU64 t).1) (Xoshiro512Plus_longJump_then_steps i s)

/-! ### Xoshiro512PlusPlus (512 state bits) -/

/-- `Xoshiro512PlusPlus::jump()` leaves the generator in the state reached by `2^256` calls of `next`. -/
theorem Xoshiro512PlusPlus_jump (s : S8) :
    Xoshiro512PlusPlus.jump s = iter Xoshiro512PlusPlus.step (2 ^ 256) s :=
  Cert.Lin.Xoshiro512.polyMod.jumpLoop_eq_iter XOSHIRO512_JUMP (by omega) Cert.Lin.Xoshiro512.jump_pow s

/-- `Xoshiro512PlusPlus::long_jump()` leaves the generator in the state reached by `2^384` calls of `next`. -/
theorem Xoshiro512PlusPlus_longJump (s : S8) :
    Xoshiro512PlusPlus.longJump s = iter Xoshiro512PlusPlus.step (2 ^ 384) s :=
  Cert.Lin.Xoshiro512.polyMod.jumpLoop_eq_iter XOSHIRO512_LONG_JUMP (by omega) Cert.Lin.Xoshiro512.longJump_pow s

theorem Xoshiro512PlusPlus_jump_step_comm (s : S8) :
    Xoshiro512PlusPlus.jump (Xoshiro512PlusPlus.step s) = Xoshiro512PlusPlus.step (Xoshiro512PlusPlus.jump s) :=
  comm_step_of_eq_iter Xoshiro512PlusPlus_jump s

theorem Xoshiro512PlusPlus_longJump_step_comm (s : S8) :
    Xoshiro512PlusPlus.longJump (Xoshiro512PlusPlus.step s) = Xoshiro512PlusPlus.step (Xoshiro512PlusPlus.longJump s) :=
  comm_step_of_eq_iter Xoshiro512PlusPlus_longJump s

theorem Xoshiro512PlusPlus_jump_longJump_comm (s : S8) :
    Xoshiro512PlusPlus.jump (Xoshiro512PlusPlus.longJump s) = Xoshiro512PlusPlus.longJump (Xoshiro512PlusPlus.jump s) :=
  comm_of_eq_iter Xoshiro512PlusPlus_jump Xoshiro512PlusPlus_longJump s

/-- `k` repeated `jump`s are `k · 2^256` steps: starting points `2^256` steps apart on the cycle. -/
theorem Xoshiro512PlusPlus_iter_jump (k : Nat) (s : S8) :
    iter Xoshiro512PlusPlus.jump k s = iter Xoshiro512PlusPlus.step (k * 2 ^ 256) s :=
  iter_of_eq_iter Xoshiro512PlusPlus_jump k s

theorem Xoshiro512PlusPlus_jump_then_steps (i : Nat) (s : S8) :
    iter Xoshiro512PlusPlus.step i (Xoshiro512PlusPlus.jump s) = iter Xoshiro512PlusPlus.step (i + 2 ^ 256) s :=
  iter_after_of_eq_iter Xoshiro512PlusPlus_jump i s

/-- every later output after `jump` is the output of the stepped generator -/
theorem Xoshiro512PlusPlus_jump_outputs (i : Nat) (s : S8) :
    (Xoshiro512PlusPlus.nextU64 (iter Xoshiro512PlusPlus.step i (Xoshiro512PlusPlus.jump s))).1 = (Xoshiro512PlusPlus.nextU64 (iter Xoshiro512PlusPlus.step (i + 2 ^ 256) s)).1 :=
  congrArg (fun t => (Xoshiro512PlusPlus.nextU64 t).1) (Xoshiro512PlusPlus_jump_then_steps i s)

/-- `k` repeated `longJump`s are `k · 2^384` steps: starting points `2^384` steps apart on the cycle. -/
theorem Xoshiro512PlusPlus_iter_longJump (k : Nat) (s : S8) :
    iter Xoshiro512PlusPlus.longJump k s = iter Xoshiro512PlusPlus.step (k * 2 ^ 384) s :=
  iter_of_eq_iter Xoshiro512PlusPlus_longJump k s

theorem Xoshiro512PlusPlus_longJump_then_steps (i : Nat) (s : S8) :
    iter Xoshiro512PlusPlus.step i (Xoshiro512PlusPlus.longJump s) = iter Xoshiro512PlusPlus.step (i + 2 ^ 384) s :=
  iter_after_of_eq_iter Xoshiro512PlusPlus_longJump i s

/-- every later output after `longJump` is the output of the stepped generator -/
theorem Xoshiro512PlusPlus_longJump_outputs (i : Nat) (s : S8) :
    (Xoshiro512PlusPlus.nextU64 (iter Xoshiro512PlusPlus.step i (Xoshiro512PlusPlus.longJump s))).1 = (Xoshiro512PlusPlus.nextU64 (iter Xoshiro512PlusPlus.step (i + 2 ^ 384) s)).1 :=
  congrArg (fun t => (Xoshiro512PlusPlus.nextU64 t).1) (Xoshiro512PlusPlus_longJump_then_steps i s)

/-! ### Xoshiro512StarStar (512 state bits) -/

/-- `Xoshiro512StarStar::jump()` leaves the generator in the state reached by `2^256` calls of `next`. -/
theorem Xoshiro512StarStar_jump (s : S8) :
    Xoshiro512StarStar.jump s = iter Xoshiro512StarStar.step (2 ^ 256) s :=
  Cert.Lin.Xoshiro512.polyMod.jumpLoop_eq_iter XOSHIRO512_JUMP (by omega) Cert.Lin.Xoshiro512.jump_pow s

/-- `Xoshiro512StarStar::long_jump()` leaves the generator in the state reached by `2^384` calls of `next`. -/
theorem Xoshiro512StarStar_longJump (s : S8) :
    Xoshiro512StarStar.longJump s = iter Xoshiro512StarStar.step (2 ^ 384) s :=
  Cert.Lin.Xoshiro512.polyMod.jumpLoop_eq_iter XOSHIRO512_LONG_JUMP (by omega) Cert.Lin.Xoshiro512.longJump_pow s

theorem Xoshiro512StarStar_jump_step_comm (s : S8) :
    Xoshiro512StarStar.jump (Xoshiro512StarStar.step s) = Xoshiro512StarStar.step (Xoshiro512StarStar.jump s) :=
  comm_step_of_eq_iter Xoshiro512StarStar_jump s

theorem Xoshiro512StarStar_longJump_step_comm (s : S8) :
    Xoshiro512StarStar.longJump (Xoshiro512StarStar.step s) = Xoshiro512StarStar.step (Xoshiro512StarStar.longJump s) :=
  comm_step_of_eq_iter Xoshiro512StarStar_longJump s

theorem Xoshiro512StarStar_jump_longJump_comm (s : S8) :
    Xoshiro512StarStar.jump (Xoshiro512StarStar.longJump s) = Xoshiro512StarStar.longJump (Xoshiro512StarStar.jump s) :=
  comm_of_eq_iter Xoshiro512StarStar_jump Xoshiro512StarStar_longJump s

/-- `k` repeated `jump`s are `k · 2^256` steps: starting points `2^256` steps apart on the cycle. -/
theorem Xoshiro512StarStar_iter_jump (k : Nat) (s : S8) :
    iter Xoshiro512StarStar.jump k s = iter Xoshiro512StarStar.step (k * 2 ^ 256) s :=
  iter_of_eq_iter Xoshiro512StarStar_jump k s

theorem Xoshiro512StarStar_jump_then_steps (i : Nat) (s : S8) :
    iter Xoshiro512StarStar.step i (Xoshiro512StarStar.jump s) = iter Xoshiro512StarStar.step (i + 2 ^ 256) s :=
  iter_after_of_eq_iter Xoshiro512StarStar_jump i s

/-- every later output after `jump` is the output of the stepped generator -/
theorem Xoshiro512StarStar_jump_outputs (i : Nat) (s : S8) :
    (Xoshiro512StarStar.nextU64 (iter Xoshiro512StarStar.step i (Xoshiro512StarStar.jump s))).1 = (Xoshiro512StarStar.nextU64 (iter Xoshiro512StarStar.step (i + 2 ^ 256) s)).1 :=
  congrArg (fun t => (Xoshiro512StarStar.nextU64 t).1) (Xoshiro512StarStar_jump_then_steps i s)

/-- `k` repeated `longJump`s are `k · 2^384` steps: starting points `2^384` steps apart on the cycle. -/
theorem Xoshiro512StarStar_iter_longJump (k : Nat) (s : S8) :
    iter Xoshiro512StarStar.longJump k s = iter Xoshiro512StarStar.step (k * 2 ^ 384) s :=
  iter_of_eq_iter Xoshiro512StarStar_longJump k s

theorem Xoshiro512StarStar_longJump_then_steps (i : Nat) (s : S8) :
    iter Xoshiro512StarStar.step i (Xoshiro512StarStar.longJump s) = iter Xoshiro512StarStar.step (i + 2 ^ 384) s :=
  iter_after_of_eq_iter Xoshiro512StarStar_longJump i s

/-- every later output after `longJump` is the output of the stepped generator -/
theorem Xoshiro512StarStar_longJump_outputs (i : Nat) (s : S8) :
    (Xoshiro512StarStar.nextU64 (iter Xoshiro512StarStar.step i (Xoshiro512StarStar.longJump s))).1 = (Xoshiro512StarStar.nextU64 (iter Xoshiro512StarStar.step (i + 2 ^ 384) s)).1 :=
  congrArg (fun t => (Xoshiro512StarStar.nextU64 t).1) (Xoshiro512StarStar_longJump_then_steps i s)

/-! ### starting points are pairwise distinct and their segments do not overlap (uses the full period, C07)

"repeated jumps from one seed enumerate starting points 2^(n/2) steps apart on the generator's cycle": combined
with the full period the starting points are pairwise DISTINCT and the 2^(n/2)-step segments they open do not
overlap, for every non-zero state — the guarantee parallel users of jump() rely on. -/

/-- generic: if `jump = T^(2^h)` and T does not repeat before `N` steps, then `j·2^h < N` jumps give distinct states -/
theorem jump_points_distinct_of {σ : Type} (T jump : σ → σ) (zero : σ) (h N : Nat)
    (hjump : ∀ k s, iter jump k s = iter T (k * 2 ^ h) s)
    (hnr : ∀ s, s ≠ zero → ∀ i j, i < j → j < N → iter T i s ≠ iter T j s)
    (s : σ) (hs : s ≠ zero) (i j : Nat) (hij : i < j) (hj : j * 2 ^ h < N) :
    iter jump i s ≠ iter jump j s := by
  rw [hjump i s, hjump j s]
  exact hnr s hs _ _ (Nat.mul_lt_mul_of_pos_right hij (Nat.two_pow_pos h)) hj

/-- generic: the segments `[i·2^h, (i+1)·2^h)` opened by different jump counts are disjoint -/
theorem jump_segments_disjoint_of {σ : Type} (T jump : σ → σ) (zero : σ) (h N : Nat)
    (hjump : ∀ k s, iter jump k s = iter T (k * 2 ^ h) s)
    (hadd : ∀ a b s, iter T (a + b) s = iter T a (iter T b s))
    (hnr : ∀ s, s ≠ zero → ∀ i j, i < j → j < N → iter T i s ≠ iter T j s)
    (s : σ) (hs : s ≠ zero) (i j a b : Nat) (hij : i < j) (ha : a < 2 ^ h) (hb : b < 2 ^ h)
    (hj : (j + 1) * 2 ^ h < N) :
    iter T a (iter jump i s) ≠ iter T b (iter jump j s) := by
  rw [hjump i s, hjump j s, ← hadd, ← hadd]
  refine hnr s hs _ _ ?_ ?_
  · have : (i + 1) * 2 ^ h ≤ j * 2 ^ h := Nat.mul_le_mul_right _ hij
    rw [Nat.add_mul] at this; omega
  · rw [Nat.add_mul] at hj; omega

theorem iter_add' {σ : Type} (T : σ → σ) (a b : Nat) (s : σ) : iter T (a + b) s = iter T a (iter T b s) := by
  induction a with
  | zero => simp [iter]
  | succ a ih => rw [Nat.succ_add]; simp only [iter]; rw [ih]

/-- Xoroshiro128Plus: `i < j` jumps from a non-zero state land on different states as long as `j·2^64 < 2^128 - 1` -/
theorem Xoroshiro128Plus_jump_points_distinct (s : S2 64) (hs : s ≠ S2.zero) (i j : Nat) (hij : i < j) (hj : j * 2 ^ 64 < 2 ^ 128 - 1) :
    iter Xoroshiro128Plus.jump i s ≠ iter Xoroshiro128Plus.jump j s :=
  jump_points_distinct_of Xoroshiro128Plus.step Xoroshiro128Plus.jump S2.zero 64 (2 ^ 128 - 1) Xoroshiro128Plus_iter_jump
    (fun s hs i j hij hj => C07.xoroshiroU64_no_repeat s hs i j hij hj) s hs i j hij hj

/-- Xoroshiro128Plus: the 2^64-step output segments opened by `i < j` jumps do not overlap -/
theorem Xoroshiro128Plus_jump_segments_disjoint (s : S2 64) (hs : s ≠ S2.zero) (i j a b : Nat) (hij : i < j)
    (ha : a < 2 ^ 64) (hb : b < 2 ^ 64) (hj : (j + 1) * 2 ^ 64 < 2 ^ 128 - 1) :
    iter Xoroshiro128Plus.step a (iter Xoroshiro128Plus.jump i s) ≠ iter Xoroshiro128Plus.step b (iter Xoroshiro128Plus.jump j s) :=
  jump_segments_disjoint_of Xoroshiro128Plus.step Xoroshiro128Plus.jump S2.zero 64 (2 ^ 128 - 1) Xoroshiro128Plus_iter_jump (iter_add' _)
    (fun s hs i j hij hj => C07.xoroshiroU64_no_repeat s hs i j hij hj) s hs i j a b hij ha hb hj

/-- Xoroshiro128PlusPlus: `i < j` jumps from a non-zero state land on different states as long as `j·2^64 < 2^128 - 1` -/
theorem Xoroshiro128PlusPlus_jump_points_distinct (s : S2 64) (hs : s ≠ S2.zero) (i j : Nat) (hij : i < j) (hj : j * 2 ^ 64 < 2 ^ 128 - 1) :
    iter Xoroshiro128PlusPlus.jump i s ≠ iter Xoroshiro128PlusPlus.jump j s :=
  jump_points_distinct_of Xoroshiro128PlusPlus.step Xoroshiro128PlusPlus.jump S2.zero 64 (2 ^ 128 - 1) Xoroshiro128PlusPlus_iter_jump
    (fun s hs i j hij hj => C07.xoroshiroU64pp_no_repeat s hs i j hij hj) s hs i j hij hj

/-- Xoroshiro128PlusPlus: the 2^64-step output segments opened by `i < j` jumps do not overlap -/
theorem Xoroshiro128PlusPlus_jump_segments_disjoint (s : S2 64) (hs : s ≠ S2.zero) (i j a b : Nat) (hij : i < j)
    (ha : a < 2 ^ 64) (hb : b < 2 ^ 64) (hj : (j + 1) * 2 ^ 64 < 2 ^ 128 - 1) :
    iter Xoroshiro128PlusPlus.step a (iter Xoroshiro128PlusPlus.jump i s) ≠ iter Xoroshiro128PlusPlus.step b (iter Xoroshiro128PlusPlus.jump j s) :=
  jump_segments_disjoint_of Xoroshiro128PlusPlus.step Xoroshiro128PlusPlus.jump S2.zero 64 (2 ^ 128 - 1) Xoroshiro128PlusPlus_iter_jump (iter_add' _)
    (fun s hs i j hij hj => C07.xoroshiroU64pp_no_repeat s hs i j hij hj) s hs i j a b hij ha hb hj

/-- Xoroshiro128StarStar: `i < j` jumps from a non-zero state land on different states as long as `j·2^64 < 2^128 - 1` -/
theorem Xoroshiro128StarStar_jump_points_distinct (s : S2 64) (hs : s ≠ S2.zero) (i j : Nat) (hij : i < j) (hj : j * 2 ^ 64 < 2 ^ 128 - 1) :
    iter Xoroshiro128StarStar.jump i s ≠ iter Xoroshiro128StarStar.jump j s :=
  jump_points_distinct_of Xoroshiro128StarStar.step Xoroshiro128StarStar.jump S2.zero 64 (2 ^ 128 - 1) Xoroshiro128StarStar_iter_jump
    (fun s hs i j hij hj => C07.xoroshiroU64_no_repeat s hs i j hij hj) s hs i j hij hj

/-- Xoroshiro128StarStar: the 2^64-step output segments opened by `i < j` jumps do not overlap -/
theorem Xoroshiro128StarStar_jump_segments_disjoint (s : S2 64) (hs : s ≠ S2.zero) (i j a b : Nat) (hij : i < j)
    (ha : a < 2 ^ 64) (hb : b < 2 ^ 64) (hj : (j + 1) * 2 ^ 64 < 2 ^ 128 - 1) :
    iter Xoroshiro128StarStar.step a (iter Xoroshiro128StarStar.jump i s) ≠ iter Xoroshiro128StarStar.step b (iter Xoroshiro128StarStar.jump j s) :=
  jump_segments_disjoint_of Xoroshiro128StarStar.step Xoroshiro128StarStar.jump S2.zero 64 (2 ^ 128 - 1) Xoroshiro128StarStar_iter_jump (iter_add' _)
    (fun s hs i j hij hj => C07.xoroshiroU64_no_repeat s hs i j hij hj) s hs i j a b hij ha hb hj

/-- Xoshiro128Plus: `i < j` jumps from a non-zero state land on different states as long as `j·2^64 < 2^128 - 1` -/
theorem Xoshiro128Plus_jump_points_distinct (s : S4 32) (hs : s ≠ S4.zero) (i j : Nat) (hij : i < j) (hj : j * 2 ^ 64 < 2 ^ 128 - 1) :
    iter Xoshiro128Plus.jump i s ≠ iter Xoshiro128Plus.jump j s :=
  jump_points_distinct_of Xoshiro128Plus.step Xoshiro128Plus.jump S4.zero 64 (2 ^ 128 - 1) Xoshiro128Plus_iter_jump
    (fun s hs i j hij hj => C07.xoshiroU32_no_repeat s hs i j hij hj) s hs i j hij hj

/-- Xoshiro128Plus: the 2^64-step output segments opened by `i < j` jumps do not overlap -/
theorem Xoshiro128Plus_jump_segments_disjoint (s : S4 32) (hs : s ≠ S4.zero) (i j a b : Nat) (hij : i < j)
    (ha : a < 2 ^ 64) (hb : b < 2 ^ 64) (hj : (j + 1) * 2 ^ 64 < 2 ^ 128 - 1) :
    iter Xoshiro128Plus.step a (iter Xoshiro128Plus.jump i s) ≠ iter Xoshiro128Plus.step b (iter Xoshiro128Plus.jump j s) :=
  jump_segments_disjoint_of Xoshiro128Plus.step Xoshiro128Plus.jump S4.zero 64 (2 ^ 128 - 1) Xoshiro128Plus_iter_jump (iter_add' _)
    (fun s hs i j hij hj => C07.xoshiroU32_no_repeat s hs i j hij hj) s hs i j a b hij ha hb hj

/-- Xoshiro128PlusPlus: `i < j` jumps from a non-zero state land on different states as long as `j·2^64 < 2^128 - 1` -/
theorem Xoshiro128PlusPlus_jump_points_distinct (s : S4 32) (hs : s ≠ S4.zero) (i j : Nat) (hij : i < j) (hj : j * 2 ^ 64 < 2 ^ 128 - 1) :
    iter Xoshiro128PlusPlus.jump i s ≠ iter Xoshiro128PlusPlus.jump j s :=
  jump_points_distinct_of Xoshiro128PlusPlus.step Xoshiro128PlusPlus.jump S4.zero 64 (2 ^ 128 - 1) Xoshiro128PlusPlus_iter_jump
    (fun s hs i j hij hj => C07.xoshiroU32_no_repeat s hs i j hij hj) s hs i j hij hj

/-- Xoshiro128PlusPlus: the 2^64-step output segments opened by `i < j` jumps do not overlap -/
theorem Xoshiro128PlusPlus_jump_segments_disjoint (s : S4 32) (hs : s ≠ S4.zero) (i j a b : Nat) (hij : i < j)
    (ha : a < 2 ^ 64) (hb : b < 2 ^ 64) (hj : (j + 1) * 2 ^ 64 < 2 ^ 128 - 1) :
    iter Xoshiro128PlusPlus.step a (iter Xoshiro128PlusPlus.jump i s) ≠ iter Xoshiro128PlusPlus.step b (iter Xoshiro128PlusPlus.jump j s) :=
  jump_segments_disjoint_of Xoshiro128PlusPlus.step Xoshiro128PlusPlus.jump S4.zero 64 (2 ^ 128 - 1) Xoshiro128PlusPlus_iter_jump (iter_add' _)
    (fun s hs i j hij hj => C07.xoshiroU32_no_repeat s hs i j hij hj) s hs i j a b hij ha hb hj

/-- Xoshiro128StarStar: `i < j` jumps from a non-zero state land on different states as long as `j·2^64 < 2^128 - 1` -/
theorem Xoshiro128StarStar_jump_points_distinct (s : S4 32) (hs : s ≠ S4.zero) (i j : Nat) (hij : i < j) (hj : j * 2 ^ 64 < 2 ^ 128 - 1) :
    iter Xoshiro128StarStar.jump i s ≠ iter Xoshiro128StarStar.jump j s :=
  jump_points_distinct_of Xoshiro128StarStar.step Xoshiro128StarStar.jump S4.zero 64 (2 ^ 128 - 1) Xoshiro128StarStar_iter_jump
    (fun s hs i j hij hj => C07.xoshiroU32_no_repeat s hs i j hij hj) s hs i j hij hj

/-- Xoshiro128StarStar: the 2^64-step output segments opened by `i < j` jumps do not overlap -/
theorem Xoshiro128StarStar_jump_segments_disjoint (s : S4 32) (hs : s ≠ S4.zero) (i j a b : Nat) (hij : i < j)
    (ha : a < 2 ^ 64) (hb : b < 2 ^ 64) (hj : (j + 1) * 2 ^ 64 < 2 ^ 128 - 1) :
    iter Xoshiro128StarStar.step a (iter Xoshiro128StarStar.jump i s) ≠ iter Xoshiro128StarStar.step b (iter Xoshiro128StarStar.jump j s) :=
  jump_segments_disjoint_of Xoshiro128StarStar.step Xoshiro128StarStar.jump S4.zero 64 (2 ^ 128 - 1) Xoshiro128StarStar_iter_jump (iter_add' _)
    (fun s hs i j hij hj => C07.xoshiroU32_no_repeat s hs i j hij hj) s hs i j a b hij ha hb hj

/-- Xoshiro256Plus: `i < j` jumps from a non-zero state land on different states as long as `j·2^128 < 2^256 - 1` -/
theorem Xoshiro256Plus_jump_points_distinct (s : S4 64) (hs : s ≠ S4.zero) (i j : Nat) (hij : i < j) (hj : j * 2 ^ 128 < 2 ^ 256 - 1) :
    iter Xoshiro256Plus.jump i s ≠ iter Xoshiro256Plus.jump j s :=
  jump_points_distinct_of Xoshiro256Plus.step Xoshiro256Plus.jump S4.zero 128 (2 ^ 256 - 1) Xoshiro256Plus_iter_jump
    (fun s hs i j hij hj => C07.xoshiroU64_no_repeat s hs i j hij hj) s hs i j hij hj

/-- Xoshiro256Plus: the 2^128-step output segments opened by `i < j` jumps do not overlap -/
theorem Xoshiro256Plus_jump_segments_disjoint (s : S4 64) (hs : s ≠ S4.zero) (i j a b : Nat) (hij : i < j)
    (ha : a < 2 ^ 128) (hb : b < 2 ^ 128) (hj : (j + 1) * 2 ^ 128 < 2 ^ 256 - 1) :
    iter Xoshiro256Plus.step a (iter Xoshiro256Plus.jump i s) ≠ iter Xoshiro256Plus.step b (iter Xoshiro256Plus.jump j s) :=
  jump_segments_disjoint_of Xoshiro256Plus.step Xoshiro256Plus.jump S4.zero 128 (2 ^ 256 - 1) Xoshiro256Plus_iter_jump (iter_add' _)
    (fun s hs i j hij hj => C07.xoshiroU64_no_repeat s hs i j hij hj) s hs i j a b hij ha hb hj

/-- Xoshiro256PlusPlus: `i < j` jumps from a non-zero state land on different states as long as `j·2^128 < 2^256 - 1` -/
theorem Xoshiro256PlusPlus_jump_points_distinct (s : S4 64) (hs : s ≠ S4.zero) (i j : Nat) (hij : i < j) (hj : j * 2 ^ 128 < 2 ^ 256 - 1) :
    iter Xoshiro256PlusPlus.jump i s ≠ iter Xoshiro256PlusPlus.jump j s :=
  jump_points_distinct_of Xoshiro256PlusPlus.step Xoshiro256PlusPlus.jump S4.zero 128 (2 ^ 256 - 1) Xoshiro256PlusPlus_iter_jump
    (fun s hs i j hij hj => C07.xoshiroU64_no_repeat s hs i j hij hj) s hs i j hij hj

/-- Xoshiro256PlusPlus: the 2^128-step output segments opened by `i < j` jumps do not overlap -/
theorem Xoshiro256PlusPlus_jump_segments_disjoint (s : S4 64) (hs : s ≠ S4.zero) (i j a b : Nat) (hij : i < j)
    (ha : a < 2 ^ 128) (hb : b < 2 ^ 128) (hj : (j + 1) * 2 ^ 128 < 2 ^ 256 - 1) :
    iter Xoshiro256PlusPlus.step a (iter Xoshiro256PlusPlus.jump i s) ≠ iter Xoshiro256PlusPlus.step b (iter Xoshiro256PlusPlus.jump j s) :=
  jump_segments_disjoint_of Xoshiro256PlusPlus.step Xoshiro256PlusPlus.jump S4.zero 128 (2 ^ 256 - 1) Xoshiro256PlusPlus_iter_jump (iter_add' _)
    (fun s hs i j hij hj => C07.xoshiroU64_no_repeat s hs i j hij hj) s hs i j a b hij ha hb hj

/-- Xoshiro256StarStar: `i < j` jumps from a non-zero state land on different states as long as `j·2^128 < 2^256 - 1` -/
theorem Xoshiro256StarStar_jump_points_distinct (s : S4 64) (hs : s ≠ S4.zero) (i j : Nat) (hij : i < j) (hj : j * 2 ^ 128 < 2 ^ 256 - 1) :
    iter Xoshiro256StarStar.jump i s ≠ iter Xoshiro256StarStar.jump j s :=
  jump_points_distinct_of Xoshiro256StarStar.step Xoshiro256StarStar.jump S4.zero 128 (2 ^ 256 - 1) Xoshiro256StarStar_iter_jump
    (fun s hs i j hij hj => C07.xoshiroU64_no_repeat s hs i j hij hj) s hs i j hij hj

/-- Xoshiro256StarStar: the 2^128-step output segments opened by `i < j` jumps do not overlap -/
theorem Xoshiro256StarStar_jump_segments_disjoint (s : S4 64) (hs : s ≠ S4.zero) (i j a b : Nat) (hij : i < j)
    (ha : a < 2 ^ 128) (hb : b < 2 ^ 128) (hj : (j + 1) * 2 ^ 128 < 2 ^ 256 - 1) :
    iter Xoshiro256StarStar.step a (iter Xoshiro256StarStar.jump i s) ≠ iter Xoshiro256StarStar.step b (iter Xoshiro256StarStar.jump j s) :=
  jump_segments_disjoint_of Xoshiro256StarStar.step Xoshiro256StarStar.jump S4.zero 128 (2 ^ 256 - 1) Xoshiro256StarStar_iter_jump (iter_add' _)
    (fun s hs i j hij hj => C07.xoshiroU64_no_repeat s hs i j hij hj) s hs i j a b hij ha hb hj

/-- Xoshiro512Plus: `i < j` jumps from a non-zero state land on different states as long as `j·2^256 < 2^512 - 1` -/
theorem Xoshiro512Plus_jump_points_distinct (s : S8) (hs : s ≠ S8.zero) (i j : Nat) (hij : i < j) (hj : j * 2 ^ 256 < 2 ^ 512 - 1) :
    iter Xoshiro512Plus.jump i s ≠ iter Xoshiro512Plus.jump j s :=
  jump_points_distinct_of Xoshiro512Plus.step Xoshiro512Plus.jump S8.zero 256 (2 ^ 512 - 1) Xoshiro512Plus_iter_jump
    (fun s hs i j hij hj => C07.xoshiroLarge_no_repeat s hs i j hij hj) s hs i j hij hj

/-- Xoshiro512Plus: the 2^256-step output segments opened by `i < j` jumps do not overlap -/
theorem Xoshiro512Plus_jump_segments_disjoint (s : S8) (hs : s ≠ S8.zero) (i j a b : Nat) (hij : i < j)
    (ha : a < 2 ^ 256) (hb : b < 2 ^ 256) (hj : (j + 1) * 2 ^ 256 < 2 ^ 512 - 1) :
    iter Xoshiro512Plus.step a (iter Xoshiro512Plus.jump i s) ≠ iter Xoshiro512Plus.step b (iter Xoshiro512Plus.jump j s) :=
  jump_segments_disjoint_of Xoshiro512Plus.step Xoshiro512Plus.jump S8.zero 256 (2 ^ 512 - 1) Xoshiro512Plus_iter_jump (iter_add' _)
    (fun s hs i j hij hj => C07.xoshiroLarge_no_repeat s hs i j hij hj) s hs i j a b hij ha hb hj

/-- Xoshiro512PlusPlus: `i < j` jumps from a non-zero state land on different states as long as `j·2^256 < 2^512 - 1` -/
theorem Xoshiro512PlusPlus_jump_points_distinct (s : S8) (hs : s ≠ S8.zero) (i j : Nat) (hij : i < j) (hj : j * 2 ^ 256 < 2 ^ 512 - 1) :
    iter Xoshiro512PlusPlus.jump i s ≠ iter Xoshiro512PlusPlus.jump j s :=
  jump_points_distinct_of Xoshiro512PlusPlus.step Xoshiro512PlusPlus.jump S8.zero 256 (2 ^ 512 - 1) Xoshiro512PlusPlus_iter_jump
    (fun s hs i j hij hj => C07.xoshiroLarge_no_repeat s hs i j hij hj) s hs i j hij hj

/-- Xoshiro512PlusPlus: the 2^256-step output segments opened by `i < j` jumps do not overlap -/
theorem Xoshiro512PlusPlus_jump_segments_disjoint (s : S8) (hs : s ≠ S8.zero) (i j a b : Nat) (hij : i < j)
    (ha : a < 2 ^ 256) (hb : b < 2 ^ 256) (hj : (j + 1) * 2 ^ 256 < 2 ^ 512 - 1) :
    iter Xoshiro512PlusPlus.step a (iter Xoshiro512PlusPlus.jump i s) ≠ iter Xoshiro512PlusPlus.step b (iter Xoshiro512PlusPlus.jump j s) :=
  jump_segments_disjoint_of Xoshiro512PlusPlus.step Xoshiro512PlusPlus.jump S8.zero 256 (2 ^ 512 - 1) Xoshiro512PlusPlus_iter_jump (iter_add' _)
    (fun s hs i j hij hj => C07.xoshiroLarge_no_repeat s hs i j hij hj) s hs i j a b hij ha hb hj

/-- Xoshiro512StarStar: `i < j` jumps from a non-zero state land on different states as long as `j·2^256 < 2^512 - 1` -/
theorem Xoshiro512StarStar_jump_points_distinct (s : S8) (hs : s ≠ S8.zero) (i j : Nat) (hij : i < j) (hj : j * 2 ^ 256 < 2 ^ 512 - 1) :
    iter Xoshiro512StarStar.jump i s ≠ iter Xoshiro512StarStar.jump j s :=
  jump_points_distinct_of Xoshiro512StarStar.step Xoshiro512StarStar.jump S8.zero 256 (2 ^ 512 - 1) Xoshiro512StarStar_iter_jump
    (fun s hs i j hij hj => C07.xoshiroLarge_no_repeat s hs i j hij hj) s hs i j hij hj

/-- Xoshiro512StarStar: the 2^256-step output segments opened by `i < j` jumps do not overlap -/
theorem Xoshiro512StarStar_jump_segments_disjoint (s : S8) (hs : s ≠ S8.zero) (i j a b : Nat) (hij : i < j)
    (ha : a < 2 ^ 256) (hb : b < 2 ^ 256) (hj : (j + 1) * 2 ^ 256 < 2 ^ 512 - 1) :
    iter Xoshiro512StarStar.step a (iter Xoshiro512StarStar.jump i s) ≠ iter Xoshiro512StarStar.step b (iter Xoshiro512StarStar.jump j s) :=
  jump_segments_disjoint_of Xoshiro512StarStar.step Xoshiro512StarStar.jump S8.zero 256 (2 ^ 512 - 1) Xoshiro512StarStar_iter_jump (iter_add' _)
    (fun s hs i j hij hj => C07.xoshiroLarge_no_repeat s hs i j hij hj) s hs i j a b hij ha hb hj

/-- the hypotheses are satisfiable: state (1,0,0,0), 3 < 5 jumps, offsets 7 and 9 -/
example : ∃ (s : S4 64) (i j a b : Nat), s ≠ S4.zero ∧ i < j ∧ a < 2 ^ 128 ∧ b < 2 ^ 128 ∧ (j + 1) * 2 ^ 128 < 2 ^ 256 - 1 :=
  ⟨⟨1, 0, 0, 0⟩, 3, 5, 7, 9, by decide, by decide, by decide, by decide, by decide⟩

end Rngs.C06
