import Rngs.Model.Xoshiro
namespace Rngs.C07
theorem placeholder : True := trivial
end Rngs.C07
