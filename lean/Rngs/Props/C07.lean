/-
  C07 — for every xoshiro/xoroshiro engine and for XorShiftRng the state transition is a
  bijection fixing the all-zero state, and the non-zero states form a single cycle of length
  2^n - 1 (n = 64, 128, 256, 512 state bits).

  Proof route (Rngs/Lib/OrbitCert.lean, Rngs/Lib/FullPeriod.lean, Rngs/Cert/Lin*.lean,
  Rngs/Cert/Primes.lean): the characteristic polynomial `P` of the engine annihilates it
  (kernel check on the n one-bit states of the real model engine + additivity); `P` is odd, so the
  engine is invertible; `x^(2^n-1) = 1 mod P`; for each prime `p | 2^n-1` (Pratt-certified, and
  their product is `2^n-1`) `x^((2^n-1)/p) - 1` is a unit mod `P`, so no non-zero state has a
  period dividing `(2^n-1)/p`; elementary number theory gives minimal period `2^n-1`; counting
  gives the single cycle.

  Per engine `T` (7 of them):
    T_bijective, T_zero, T_period (period 2^n-1 and minimality), T_single_cycle,
    T_never_zero (a non-zero state never reaches zero), T_no_repeat (no repetition before
    2^n-1 steps).
  Then one `_step` theorem per generator type (15) identifying its state transition with
  its engine.
-/
import Rngs.Cert.LinXoroshiro64Main
import Rngs.Cert.LinXoroshiro128Main
import Rngs.Cert.LinXoroshiro128ppMain
import Rngs.Cert.LinXoshiro128Main
import Rngs.Cert.LinXorShift128Main
import Rngs.Cert.LinXoshiro256Main
import Rngs.Cert.LinXoshiro512Main
namespace Rngs.C07
open Rngs

-- only silences the elaborator's "exponent exceeds threshold" warning on `2 ^ 512`
set_option exponentiation.threshold 1024

/-! ### `xoroshiroU32` on `S2 32` (64 state bits) -/

theorem xoroshiroU32_bijective : Function.Bijective xoroshiroU32 :=
  Cert.Lin.Xoroshiro64.fullPeriod.bijective

theorem xoroshiroU32_zero : xoroshiroU32 S2.zero = S2.zero :=
  Cert.Lin.Xoroshiro64.fullPeriod.map_zero

/-- every non-zero state has minimal period exactly `2^64 - 1` -/
theorem xoroshiroU32_period (s : S2 32) (hs : s ≠ S2.zero) :
    iter xoroshiroU32 (2 ^ 64 - 1) s = s ∧
      ∀ k, 0 < k → k < 2 ^ 64 - 1 → iter xoroshiroU32 k s ≠ s :=
  ⟨Cert.Lin.Xoroshiro64.fullPeriod.period s, Cert.Lin.Xoroshiro64.fullPeriod.minimal s hs⟩

/-- the non-zero states form a single cycle -/
theorem xoroshiroU32_single_cycle (s t : S2 32) (hs : s ≠ S2.zero) (ht : t ≠ S2.zero) :
    ∃ k, k < 2 ^ 64 - 1 ∧ iter xoroshiroU32 k s = t :=
  Cert.Lin.Xoroshiro64.fullPeriod.single_cycle s t hs ht

/-- a generator started in a non-zero state never reaches the all-zero state -/
theorem xoroshiroU32_never_zero (s : S2 32) (hs : s ≠ S2.zero) (k : Nat) :
    iter xoroshiroU32 k s ≠ S2.zero :=
  Cert.Lin.Xoroshiro64.fullPeriod.iter_ne_zero hs k

/-- the state sequence does not repeat before `2^64 - 1` steps -/
theorem xoroshiroU32_no_repeat (s : S2 32) (hs : s ≠ S2.zero) (i j : Nat) (hij : i < j)
    (hj : j < 2 ^ 64 - 1) : iter xoroshiroU32 i s ≠ iter xoroshiroU32 j s :=
  Cert.Lin.Xoroshiro64.fullPeriod.no_repeat hs hij hj

/- the hypotheses are satisfiable: a non-zero state, and indices in range -/
example : ∃ s t : S2 32, s ≠ S2.zero ∧ t ≠ S2.zero := ⟨⟨1, 0⟩, ⟨1, 0⟩, by decide, by decide⟩
example : ∃ i j : Nat, 0 < j ∧ i < j ∧ j < 2 ^ 64 - 1 :=
  ⟨0, 1, Nat.one_pos, Nat.one_pos, Nat.lt_sub_of_add_lt
    (Nat.lt_of_lt_of_le (by decide : 1 + 1 < 2 ^ 2) (Nat.pow_le_pow_right (by decide) (by decide : 2 ≤ 64)))⟩

/-! ### `xoroshiroU64` on `S2 64` (128 state bits) -/

theorem xoroshiroU64_bijective : Function.Bijective xoroshiroU64 :=
  Cert.Lin.Xoroshiro128.fullPeriod.bijective

theorem xoroshiroU64_zero : xoroshiroU64 S2.zero = S2.zero :=
  Cert.Lin.Xoroshiro128.fullPeriod.map_zero

/-- every non-zero state has minimal period exactly `2^128 - 1` -/
theorem xoroshiroU64_period (s : S2 64) (hs : s ≠ S2.zero) :
    iter xoroshiroU64 (2 ^ 128 - 1) s = s ∧
      ∀ k, 0 < k → k < 2 ^ 128 - 1 → iter xoroshiroU64 k s ≠ s :=
  ⟨Cert.Lin.Xoroshiro128.fullPeriod.period s, Cert.Lin.Xoroshiro128.fullPeriod.minimal s hs⟩

/-- the non-zero states form a single cycle -/
theorem xoroshiroU64_single_cycle (s t : S2 64) (hs : s ≠ S2.zero) (ht : t ≠ S2.zero) :
    ∃ k, k < 2 ^ 128 - 1 ∧ iter xoroshiroU64 k s = t :=
  Cert.Lin.Xoroshiro128.fullPeriod.single_cycle s t hs ht

/-- a generator started in a non-zero state never reaches the all-zero state -/
theorem xoroshiroU64_never_zero (s : S2 64) (hs : s ≠ S2.zero) (k : Nat) :
    iter xoroshiroU64 k s ≠ S2.zero :=
  Cert.Lin.Xoroshiro128.fullPeriod.iter_ne_zero hs k

/-- the state sequence does not repeat before `2^128 - 1` steps -/
theorem xoroshiroU64_no_repeat (s : S2 64) (hs : s ≠ S2.zero) (i j : Nat) (hij : i < j)
    (hj : j < 2 ^ 128 - 1) : iter xoroshiroU64 i s ≠ iter xoroshiroU64 j s :=
  Cert.Lin.Xoroshiro128.fullPeriod.no_repeat hs hij hj

/- the hypotheses are satisfiable: a non-zero state, and indices in range -/
example : ∃ s t : S2 64, s ≠ S2.zero ∧ t ≠ S2.zero := ⟨⟨1, 0⟩, ⟨1, 0⟩, by decide, by decide⟩
example : ∃ i j : Nat, 0 < j ∧ i < j ∧ j < 2 ^ 128 - 1 :=
  ⟨0, 1, Nat.one_pos, Nat.one_pos, Nat.lt_sub_of_add_lt
    (Nat.lt_of_lt_of_le (by decide : 1 + 1 < 2 ^ 2) (Nat.pow_le_pow_right (by decide) (by decide : 2 ≤ 128)))⟩

/-! ### `xoroshiroU64pp` on `S2 64` (128 state bits) -/

theorem xoroshiroU64pp_bijective : Function.Bijective xoroshiroU64pp :=
  Cert.Lin.Xoroshiro128pp.fullPeriod.bijective

theorem xoroshiroU64pp_zero : xoroshiroU64pp S2.zero = S2.zero :=
  Cert.Lin.Xoroshiro128pp.fullPeriod.map_zero

/-- every non-zero state has minimal period exactly `2^128 - 1` -/
theorem xoroshiroU64pp_period (s : S2 64) (hs : s ≠ S2.zero) :
    iter xoroshiroU64pp (2 ^ 128 - 1) s = s ∧
      ∀ k, 0 < k → k < 2 ^ 128 - 1 → iter xoroshiroU64pp k s ≠ s :=
  ⟨Cert.Lin.Xoroshiro128pp.fullPeriod.period s, Cert.Lin.Xoroshiro128pp.fullPeriod.minimal s hs⟩

/-- the non-zero states form a single cycle -/
theorem xoroshiroU64pp_single_cycle (s t : S2 64) (hs : s ≠ S2.zero) (ht : t ≠ S2.zero) :
    ∃ k, k < 2 ^ 128 - 1 ∧ iter xoroshiroU64pp k s = t :=
  Cert.Lin.Xoroshiro128pp.fullPeriod.single_cycle s t hs ht

/-- a generator started in a non-zero state never reaches the all-zero state -/
theorem xoroshiroU64pp_never_zero (s : S2 64) (hs : s ≠ S2.zero) (k : Nat) :
    iter xoroshiroU64pp k s ≠ S2.zero :=
  Cert.Lin.Xoroshiro128pp.fullPeriod.iter_ne_zero hs k

/-- the state sequence does not repeat before `2^128 - 1` steps -/
theorem xoroshiroU64pp_no_repeat (s : S2 64) (hs : s ≠ S2.zero) (i j : Nat) (hij : i < j)
    (hj : j < 2 ^ 128 - 1) : iter xoroshiroU64pp i s ≠ iter xoroshiroU64pp j s :=
  Cert.Lin.Xoroshiro128pp.fullPeriod.no_repeat hs hij hj

/- the hypotheses are satisfiable: a non-zero state, and indices in range -/
example : ∃ s t : S2 64, s ≠ S2.zero ∧ t ≠ S2.zero := ⟨⟨1, 0⟩, ⟨1, 0⟩, by decide, by decide⟩
example : ∃ i j : Nat, 0 < j ∧ i < j ∧ j < 2 ^ 128 - 1 :=
  ⟨0, 1, Nat.one_pos, Nat.one_pos, Nat.lt_sub_of_add_lt
    (Nat.lt_of_lt_of_le (by decide : 1 + 1 < 2 ^ 2) (Nat.pow_le_pow_right (by decide) (by decide : 2 ≤ 128)))⟩

/-! ### `xoshiroU32` on `S4 32` (128 state bits) -/

theorem xoshiroU32_bijective : Function.Bijective xoshiroU32 :=
  Cert.Lin.Xoshiro128.fullPeriod.bijective

theorem xoshiroU32_zero : xoshiroU32 S4.zero = S4.zero :=
  Cert.Lin.Xoshiro128.fullPeriod.map_zero

/-- every non-zero state has minimal period exactly `2^128 - 1` -/
theorem xoshiroU32_period (s : S4 32) (hs : s ≠ S4.zero) :
    iter xoshiroU32 (2 ^ 128 - 1) s = s ∧
      ∀ k, 0 < k → k < 2 ^ 128 - 1 → iter xoshiroU32 k s ≠ s :=
  ⟨Cert.Lin.Xoshiro128.fullPeriod.period s, Cert.Lin.Xoshiro128.fullPeriod.minimal s hs⟩

/-- the non-zero states form a single cycle -/
theorem xoshiroU32_single_cycle (s t : S4 32) (hs : s ≠ S4.zero) (ht : t ≠ S4.zero) :
    ∃ k, k < 2 ^ 128 - 1 ∧ iter xoshiroU32 k s = t :=
  Cert.Lin.Xoshiro128.fullPeriod.single_cycle s t hs ht

/-- a generator started in a non-zero state never reaches the all-zero state -/
theorem xoshiroU32_never_zero (s : S4 32) (hs : s ≠ S4.zero) (k : Nat) :
    iter xoshiroU32 k s ≠ S4.zero :=
  Cert.Lin.Xoshiro128.fullPeriod.iter_ne_zero hs k

/-- the state sequence does not repeat before `2^128 - 1` steps -/
theorem xoshiroU32_no_repeat (s : S4 32) (hs : s ≠ S4.zero) (i j : Nat) (hij : i < j)
    (hj : j < 2 ^ 128 - 1) : iter xoshiroU32 i s ≠ iter xoshiroU32 j s :=
  Cert.Lin.Xoshiro128.fullPeriod.no_repeat hs hij hj

/- the hypotheses are satisfiable: a non-zero state, and indices in range -/
example : ∃ s t : S4 32, s ≠ S4.zero ∧ t ≠ S4.zero := ⟨⟨1, 0, 0, 0⟩, ⟨1, 0, 0, 0⟩, by decide, by decide⟩
example : ∃ i j : Nat, 0 < j ∧ i < j ∧ j < 2 ^ 128 - 1 :=
  ⟨0, 1, Nat.one_pos, Nat.one_pos, Nat.lt_sub_of_add_lt
    (Nat.lt_of_lt_of_le (by decide : 1 + 1 < 2 ^ 2) (Nat.pow_le_pow_right (by decide) (by decide : 2 ≤ 128)))⟩

/-! ### `xoshiroU64` on `S4 64` (256 state bits) -/

theorem xoshiroU64_bijective : Function.Bijective xoshiroU64 :=
  Cert.Lin.Xoshiro256.fullPeriod.bijective

theorem xoshiroU64_zero : xoshiroU64 S4.zero = S4.zero :=
  Cert.Lin.Xoshiro256.fullPeriod.map_zero

/-- every non-zero state has minimal period exactly `2^256 - 1` -/
theorem xoshiroU64_period (s : S4 64) (hs : s ≠ S4.zero) :
    iter xoshiroU64 (2 ^ 256 - 1) s = s ∧
      ∀ k, 0 < k → k < 2 ^ 256 - 1 → iter xoshiroU64 k s ≠ s :=
  ⟨Cert.Lin.Xoshiro256.fullPeriod.period s, Cert.Lin.Xoshiro256.fullPeriod.minimal s hs⟩

/-- the non-zero states form a single cycle -/
theorem xoshiroU64_single_cycle (s t : S4 64) (hs : s ≠ S4.zero) (ht : t ≠ S4.zero) :
    ∃ k, k < 2 ^ 256 - 1 ∧ iter xoshiroU64 k s = t :=
  Cert.Lin.Xoshiro256.fullPeriod.single_cycle s t hs ht

/-- a generator started in a non-zero state never reaches the all-zero state -/
theorem xoshiroU64_never_zero (s : S4 64) (hs : s ≠ S4.zero) (k : Nat) :
    iter xoshiroU64 k s ≠ S4.zero :=
  Cert.Lin.Xoshiro256.fullPeriod.iter_ne_zero hs k

/-- the state sequence does not repeat before `2^256 - 1` steps -/
theorem xoshiroU64_no_repeat (s : S4 64) (hs : s ≠ S4.zero) (i j : Nat) (hij : i < j)
    (hj : j < 2 ^ 256 - 1) : iter xoshiroU64 i s ≠ iter xoshiroU64 j s :=
  Cert.Lin.Xoshiro256.fullPeriod.no_repeat hs hij hj

/- the hypotheses are satisfiable: a non-zero state, and indices in range -/
example : ∃ s t : S4 64, s ≠ S4.zero ∧ t ≠ S4.zero := ⟨⟨1, 0, 0, 0⟩, ⟨1, 0, 0, 0⟩, by decide, by decide⟩
example : ∃ i j : Nat, 0 < j ∧ i < j ∧ j < 2 ^ 256 - 1 :=
  ⟨0, 1, Nat.one_pos, Nat.one_pos, Nat.lt_sub_of_add_lt
    (Nat.lt_of_lt_of_le (by decide : 1 + 1 < 2 ^ 2) (Nat.pow_le_pow_right (by decide) (by decide : 2 ≤ 256)))⟩

/-! ### `xoshiroLarge` on `S8` (512 state bits) -/

theorem xoshiroLarge_bijective : Function.Bijective xoshiroLarge :=
  Cert.Lin.Xoshiro512.fullPeriod.bijective

theorem xoshiroLarge_zero : xoshiroLarge S8.zero = S8.zero :=
  Cert.Lin.Xoshiro512.fullPeriod.map_zero

/-- every non-zero state has minimal period exactly `2^512 - 1` -/
theorem xoshiroLarge_period (s : S8) (hs : s ≠ S8.zero) :
    iter xoshiroLarge (2 ^ 512 - 1) s = s ∧
      ∀ k, 0 < k → k < 2 ^ 512 - 1 → iter xoshiroLarge k s ≠ s :=
  ⟨Cert.Lin.Xoshiro512.fullPeriod.period s, Cert.Lin.Xoshiro512.fullPeriod.minimal s hs⟩

/-- the non-zero states form a single cycle -/
theorem xoshiroLarge_single_cycle (s t : S8) (hs : s ≠ S8.zero) (ht : t ≠ S8.zero) :
    ∃ k, k < 2 ^ 512 - 1 ∧ iter xoshiroLarge k s = t :=
  Cert.Lin.Xoshiro512.fullPeriod.single_cycle s t hs ht

/-- a generator started in a non-zero state never reaches the all-zero state -/
theorem xoshiroLarge_never_zero (s : S8) (hs : s ≠ S8.zero) (k : Nat) :
    iter xoshiroLarge k s ≠ S8.zero :=
  Cert.Lin.Xoshiro512.fullPeriod.iter_ne_zero hs k

/-- the state sequence does not repeat before `2^512 - 1` steps -/
theorem xoshiroLarge_no_repeat (s : S8) (hs : s ≠ S8.zero) (i j : Nat) (hij : i < j)
    (hj : j < 2 ^ 512 - 1) : iter xoshiroLarge i s ≠ iter xoshiroLarge j s :=
  Cert.Lin.Xoshiro512.fullPeriod.no_repeat hs hij hj

/- the hypotheses are satisfiable: a non-zero state, and indices in range -/
example : ∃ s t : S8, s ≠ S8.zero ∧ t ≠ S8.zero := ⟨⟨1, 0, 0, 0, 0, 0, 0, 0⟩, ⟨1, 0, 0, 0, 0, 0, 0, 0⟩, by decide, by decide⟩
example : ∃ i j : Nat, 0 < j ∧ i < j ∧ j < 2 ^ 512 - 1 :=
  ⟨0, 1, Nat.one_pos, Nat.one_pos, Nat.lt_sub_of_add_lt
    (Nat.lt_of_lt_of_le (by decide : 1 + 1 < 2 ^ 2) (Nat.pow_le_pow_right (by decide) (by decide : 2 ≤ 512)))⟩

/-! ### `XorShift.step` on `S4 32` (128 state bits) -/

theorem xorShift_bijective : Function.Bijective XorShift.step :=
  Cert.Lin.XorShift128.fullPeriod.bijective

theorem xorShift_zero : XorShift.step S4.zero = S4.zero :=
  Cert.Lin.XorShift128.fullPeriod.map_zero

/-- every non-zero state has minimal period exactly `2^128 - 1` -/
theorem xorShift_period (s : S4 32) (hs : s ≠ S4.zero) :
    iter XorShift.step (2 ^ 128 - 1) s = s ∧
      ∀ k, 0 < k → k < 2 ^ 128 - 1 → iter XorShift.step k s ≠ s :=
  ⟨Cert.Lin.XorShift128.fullPeriod.period s, Cert.Lin.XorShift128.fullPeriod.minimal s hs⟩

/-- the non-zero states form a single cycle -/
theorem xorShift_single_cycle (s t : S4 32) (hs : s ≠ S4.zero) (ht : t ≠ S4.zero) :
    ∃ k, k < 2 ^ 128 - 1 ∧ iter XorShift.step k s = t :=
  Cert.Lin.XorShift128.fullPeriod.single_cycle s t hs ht

/-- a generator started in a non-zero state never reaches the all-zero state -/
theorem xorShift_never_zero (s : S4 32) (hs : s ≠ S4.zero) (k : Nat) :
    iter XorShift.step k s ≠ S4.zero :=
  Cert.Lin.XorShift128.fullPeriod.iter_ne_zero hs k

/-- the state sequence does not repeat before `2^128 - 1` steps -/
theorem xorShift_no_repeat (s : S4 32) (hs : s ≠ S4.zero) (i j : Nat) (hij : i < j)
    (hj : j < 2 ^ 128 - 1) : iter XorShift.step i s ≠ iter XorShift.step j s :=
  Cert.Lin.XorShift128.fullPeriod.no_repeat hs hij hj

/- the hypotheses are satisfiable: a non-zero state, and indices in range -/
example : ∃ s t : S4 32, s ≠ S4.zero ∧ t ≠ S4.zero := ⟨⟨1, 0, 0, 0⟩, ⟨1, 0, 0, 0⟩, by decide, by decide⟩
example : ∃ i j : Nat, 0 < j ∧ i < j ∧ j < 2 ^ 128 - 1 :=
  ⟨0, 1, Nat.one_pos, Nat.one_pos, Nat.lt_sub_of_add_lt
    (Nat.lt_of_lt_of_le (by decide : 1 + 1 < 2 ^ 2) (Nat.pow_le_pow_right (by decide) (by decide : 2 ≤ 128)))⟩

/-! ### the 15 generator types: their state transition is one of the engines above -/

theorem Xoroshiro64Star_step (s : S2 32) : (Xoroshiro64Star.nextU32 s).2 = xoroshiroU32 s := rfl

theorem Xoroshiro64StarStar_step (s : S2 32) : (Xoroshiro64StarStar.nextU32 s).2 = xoroshiroU32 s := rfl

theorem Xoroshiro128Plus_step : Xoroshiro128Plus.step = xoroshiroU64 := rfl

theorem Xoroshiro128PlusPlus_step : Xoroshiro128PlusPlus.step = xoroshiroU64pp := rfl

theorem Xoroshiro128StarStar_step : Xoroshiro128StarStar.step = xoroshiroU64 := rfl

theorem Xoshiro128Plus_step : Xoshiro128Plus.step = xoshiroU32 := rfl

theorem Xoshiro128PlusPlus_step : Xoshiro128PlusPlus.step = xoshiroU32 := rfl

theorem Xoshiro128StarStar_step : Xoshiro128StarStar.step = xoshiroU32 := rfl

theorem Xoshiro256Plus_step : Xoshiro256Plus.step = xoshiroU64 := rfl

theorem Xoshiro256PlusPlus_step : Xoshiro256PlusPlus.step = xoshiroU64 := rfl

theorem Xoshiro256StarStar_step : Xoshiro256StarStar.step = xoshiroU64 := rfl

theorem Xoshiro512Plus_step : Xoshiro512Plus.step = xoshiroLarge := rfl

theorem Xoshiro512PlusPlus_step : Xoshiro512PlusPlus.step = xoshiroLarge := rfl

theorem Xoshiro512StarStar_step : Xoshiro512StarStar.step = xoshiroLarge := rfl

theorem XorShiftRng_step (s : XorShift.State) : (XorShift.nextU32 s).2 = XorShift.step s := rfl

end Rngs.C07
