import Rngs.Model.Xoshiro
namespace Rngs.C08
theorem placeholder : True := trivial
end Rngs.C08
