/-
  C08 — No seeding path yields the all-zero state; zero seeds are remapped as documented.
-/
import Rngs.Lib.SeedLemmas
namespace Rngs.C08
open Rngs Rngs.Seed Rngs.Codec

/-- what the proof needs to know about a xoshiro-family generator: its zero state and that its
    decoder maps a not-all-zero seed of the right length to a non-zero state -/
structure Shape (σ : Type) (g : XoGen σ) where
  zero : σ
  decode_ne_zero : ∀ seed, seed.length = g.seedLen → isAllZero seed = false → g.decode seed ≠ zero
  /-- the SplitMix64 expansion of 0 (the documented replacement of the zero seed) is not all zero -/
  expand0 : isAllZero (SplitMix64.fill g.seedLen (SplitMix64.seedFromU64 0)).1 = false

/-- unfolding of the zero-seed branch: two more calls suffice -/
theorem fromSeedFuel_zero {σ : Type} (g : XoGen σ) (sh : Shape σ g) (fuel : Nat) (seed : List U8)
    (hz : isAllZero seed = true) :
    g.fromSeedFuel (fuel + 2) seed = some (g.decode (SplitMix64.fill g.seedLen (SplitMix64.seedFromU64 0)).1) := by
  have h0 := sh.expand0
  rw [XoGen.fromSeedFuel, if_pos hz]
  show g.fromSeedFuel (fuel + 1) (SplitMix64.fill g.seedLen (SplitMix64.seedFromU64 0)).1 = _
  rw [XoGen.fromSeedFuel, if_neg (by rw [h0]; decide)]

theorem fromSeedFuel_nonzero {σ : Type} (g : XoGen σ) (fuel : Nat) (seed : List U8)
    (hz : isAllZero seed = false) : g.fromSeedFuel (fuel + 1) seed = some (g.decode seed) := by
  rw [XoGen.fromSeedFuel, if_neg (by rw [hz]; decide)]

theorem splitmix_fill_length (n : Nat) (x : U64) : (SplitMix64.fill n x).1.length = n :=
  fillBytesViaNext_length _ _ _

/-- `from_seed` with fuel ≥ 2 on any seed of the right length terminates in a non-zero state. -/
theorem fromSeedFuel_ne_zero {σ : Type} (g : XoGen σ) (sh : Shape σ g) (fuel : Nat) (seed : List U8)
    (hl : seed.length = g.seedLen) :
    ∃ st, g.fromSeedFuel (fuel + 2) seed = some st ∧ st ≠ sh.zero := by
  by_cases hz : isAllZero seed = true
  · exact ⟨_, fromSeedFuel_zero g sh fuel seed hz, sh.decode_ne_zero _ (splitmix_fill_length _ _) sh.expand0⟩
  · have hz' : isAllZero seed = false := by simpa using hz
    exact ⟨g.decode seed, fromSeedFuel_nonzero g (fuel + 1) seed hz', sh.decode_ne_zero _ hl hz'⟩

/-- **Termination and non-zero result of `from_seed`** (the `from_seed ↔ seed_from_u64` mutual
    recursion needs at most two more calls): for every seed of the right length. -/
theorem fromSeed_ne_zero {σ : Type} (g : XoGen σ) (sh : Shape σ g) (seed : List U8) (hl : seed.length = g.seedLen) :
    ∃ st, g.fromSeed? seed = some st ∧ st ≠ sh.zero :=
  fromSeedFuel_ne_zero g sh 1 seed hl

/-- `seed_from_u64(x)` terminates in a non-zero state for every x (also when the SplitMix64
    expansion of x is all zero — possible for the 8-byte seeds — where it falls back to x = 0). -/
theorem seedFromU64_ne_zero {σ : Type} (g : XoGen σ) (sh : Shape σ g) (x : U64) :
    ∃ st, g.seedFromU64? x = some st ∧ st ≠ sh.zero :=
  fromSeedFuel_ne_zero g sh 1 _ (splitmix_fill_length _ _)

/-- The all-zero seed gives exactly the generator `seed_from_u64(0)`. -/
theorem fromSeed_zero_eq_seedFromU64_zero {σ : Type} (g : XoGen σ) (sh : Shape σ g) (seed : List U8)
    (hz : isAllZero seed = true) : g.fromSeed? seed = g.seedFromU64? 0 := by
  show g.fromSeedFuel (1 + 2) seed = g.fromSeedFuel (2 + 1) (SplitMix64.fill g.seedLen (SplitMix64.seedFromU64 0)).1
  rw [fromSeedFuel_zero g sh 1 seed hz, fromSeedFuel_nonzero g 2 _ sh.expand0]

/-- Every other seed is used verbatim. -/
theorem fromSeed_verbatim {σ : Type} (g : XoGen σ) (seed : List U8) (hz : isAllZero seed = false) :
    g.fromSeed? seed = some (g.decode seed) :=
  fromSeedFuel_nonzero g 2 seed hz

/-- default `from_rng` / `try_from_rng`: whatever bytes a source delivers (of the requested length),
    the generator built from them is not in the zero state; a failing source yields its error. -/
theorem fromRng_ne_zero {σ ρ : Type} (g : XoGen σ) (sh : Shape σ g) (fill : TryFill ρ) (src : ρ)
    (hfill : ∀ s n b s', fill s n = (.ok b, s') → b.length = n) :
    (∃ st src', g.fromRng? fill src = (.ok (some st), src') ∧ st ≠ sh.zero) ∨
    (∃ e src', g.fromRng? fill src = (.error e, src') ∧ fill src g.seedLen = (.error e, src')) := by
  unfold XoGen.fromRng? fromRngDefault
  rcases h : fill src g.seedLen with ⟨r, src'⟩
  cases r with
  | error e => exact Or.inr ⟨e, src', rfl, rfl⟩
  | ok b =>
    obtain ⟨st, hst, hne⟩ := fromSeed_ne_zero g sh b (hfill _ _ _ _ h)
    exact Or.inl ⟨st, src', by simp [hst], hne⟩

/-! ### the 14 generators -/
def shape2_32 (g : XoGen (S2 32)) (hd : g.decode = S2.decode32) (hl : g.seedLen = 8) : Shape (S2 32) g where
  zero := S2.zero
  decode_ne_zero seed h hz := by rw [hd]; exact S2_decode32_ne_zero seed (by omega) hz
  expand0 := by rw [hl]; decide +kernel
def shape2_64 (g : XoGen (S2 64)) (hd : g.decode = S2.decode64) (hl : g.seedLen = 16) : Shape (S2 64) g where
  zero := S2.zero
  decode_ne_zero seed h hz := by rw [hd]; exact S2_decode64_ne_zero seed (by omega) hz
  expand0 := by rw [hl]; decide +kernel
def shape4_32 (g : XoGen (S4 32)) (hd : g.decode = S4.decode32) (hl : g.seedLen = 16) : Shape (S4 32) g where
  zero := S4.zero
  decode_ne_zero seed h hz := by rw [hd]; exact S4_decode32_ne_zero seed (by omega) hz
  expand0 := by rw [hl]; decide +kernel
def shape4_64 (g : XoGen (S4 64)) (hd : g.decode = S4.decode64) (hl : g.seedLen = 32) : Shape (S4 64) g where
  zero := S4.zero
  decode_ne_zero seed h hz := by rw [hd]; exact S4_decode64_ne_zero seed (by omega) hz
  expand0 := by rw [hl]; decide +kernel
def shape8 (g : XoGen S8) (hd : g.decode = S8.decode) (hl : g.seedLen = 64) : Shape S8 g where
  zero := S8.zero
  decode_ne_zero seed h hz := by rw [hd]; exact S8_decode_ne_zero seed (by omega) hz
  expand0 := by rw [hl]; decide +kernel

def Xoroshiro64Star_shape := shape2_32 Xoroshiro64Star.gen rfl rfl
def Xoroshiro64StarStar_shape := shape2_32 Xoroshiro64StarStar.gen rfl rfl
def Xoroshiro128Plus_shape := shape2_64 Xoroshiro128Plus.gen rfl rfl
def Xoroshiro128PlusPlus_shape := shape2_64 Xoroshiro128PlusPlus.gen rfl rfl
def Xoroshiro128StarStar_shape := shape2_64 Xoroshiro128StarStar.gen rfl rfl
def Xoshiro128Plus_shape := shape4_32 Xoshiro128Plus.gen rfl rfl
def Xoshiro128PlusPlus_shape := shape4_32 Xoshiro128PlusPlus.gen rfl rfl
def Xoshiro128StarStar_shape := shape4_32 Xoshiro128StarStar.gen rfl rfl
def Xoshiro256Plus_shape := shape4_64 Xoshiro256Plus.gen rfl rfl
def Xoshiro256PlusPlus_shape := shape4_64 Xoshiro256PlusPlus.gen rfl rfl
def Xoshiro256StarStar_shape := shape4_64 Xoshiro256StarStar.gen rfl rfl
def Xoshiro512Plus_shape := shape8 Xoshiro512Plus.gen rfl rfl
def Xoshiro512PlusPlus_shape := shape8 Xoshiro512PlusPlus.gen rfl rfl
def Xoshiro512StarStar_shape := shape8 Xoshiro512StarStar.gen rfl rfl

/-- All 14 xoshiro-family generators: every constructor path ends in a non-zero state. -/
theorem xoshiro_family_never_zero :
    (∀ seed, seed.length = 8 → ∃ st, Xoroshiro64Star.gen.fromSeed? seed = some st ∧ st ≠ S2.zero) ∧
    (∀ seed, seed.length = 8 → ∃ st, Xoroshiro64StarStar.gen.fromSeed? seed = some st ∧ st ≠ S2.zero) ∧
    (∀ seed, seed.length = 16 → ∃ st, Xoroshiro128Plus.gen.fromSeed? seed = some st ∧ st ≠ S2.zero) ∧
    (∀ seed, seed.length = 16 → ∃ st, Xoroshiro128PlusPlus.gen.fromSeed? seed = some st ∧ st ≠ S2.zero) ∧
    (∀ seed, seed.length = 16 → ∃ st, Xoroshiro128StarStar.gen.fromSeed? seed = some st ∧ st ≠ S2.zero) ∧
    (∀ seed, seed.length = 16 → ∃ st, Xoshiro128Plus.gen.fromSeed? seed = some st ∧ st ≠ S4.zero) ∧
    (∀ seed, seed.length = 16 → ∃ st, Xoshiro128PlusPlus.gen.fromSeed? seed = some st ∧ st ≠ S4.zero) ∧
    (∀ seed, seed.length = 16 → ∃ st, Xoshiro128StarStar.gen.fromSeed? seed = some st ∧ st ≠ S4.zero) ∧
    (∀ seed, seed.length = 32 → ∃ st, Xoshiro256Plus.gen.fromSeed? seed = some st ∧ st ≠ S4.zero) ∧
    (∀ seed, seed.length = 32 → ∃ st, Xoshiro256PlusPlus.gen.fromSeed? seed = some st ∧ st ≠ S4.zero) ∧
    (∀ seed, seed.length = 32 → ∃ st, Xoshiro256StarStar.gen.fromSeed? seed = some st ∧ st ≠ S4.zero) ∧
    (∀ seed, seed.length = 64 → ∃ st, Xoshiro512Plus.gen.fromSeed? seed = some st ∧ st ≠ S8.zero) ∧
    (∀ seed, seed.length = 64 → ∃ st, Xoshiro512PlusPlus.gen.fromSeed? seed = some st ∧ st ≠ S8.zero) ∧
    (∀ seed, seed.length = 64 → ∃ st, Xoshiro512StarStar.gen.fromSeed? seed = some st ∧ st ≠ S8.zero) :=
  ⟨fromSeed_ne_zero _ Xoroshiro64Star_shape, fromSeed_ne_zero _ Xoroshiro64StarStar_shape,
   fromSeed_ne_zero _ Xoroshiro128Plus_shape, fromSeed_ne_zero _ Xoroshiro128PlusPlus_shape,
   fromSeed_ne_zero _ Xoroshiro128StarStar_shape, fromSeed_ne_zero _ Xoshiro128Plus_shape,
   fromSeed_ne_zero _ Xoshiro128PlusPlus_shape, fromSeed_ne_zero _ Xoshiro128StarStar_shape,
   fromSeed_ne_zero _ Xoshiro256Plus_shape, fromSeed_ne_zero _ Xoshiro256PlusPlus_shape,
   fromSeed_ne_zero _ Xoshiro256StarStar_shape, fromSeed_ne_zero _ Xoshiro512Plus_shape,
   fromSeed_ne_zero _ Xoshiro512PlusPlus_shape, fromSeed_ne_zero _ Xoshiro512StarStar_shape⟩

/-- … and `seed_from_u64(x)` for every x (shown for one generator of each seed size; the general
    statement is `seedFromU64_ne_zero` applied to the shapes above). -/
theorem seedFromU64_never_zero_samples (x : U64) :
    (∃ st, Xoroshiro64Star.gen.seedFromU64? x = some st ∧ st ≠ S2.zero) ∧
    (∃ st, Xoroshiro128PlusPlus.gen.seedFromU64? x = some st ∧ st ≠ S2.zero) ∧
    (∃ st, Xoshiro128StarStar.gen.seedFromU64? x = some st ∧ st ≠ S4.zero) ∧
    (∃ st, Xoshiro256PlusPlus.gen.seedFromU64? x = some st ∧ st ≠ S4.zero) ∧
    (∃ st, Xoshiro512StarStar.gen.seedFromU64? x = some st ∧ st ≠ S8.zero) :=
  ⟨seedFromU64_ne_zero _ Xoroshiro64Star_shape x, seedFromU64_ne_zero _ Xoroshiro128PlusPlus_shape x,
   seedFromU64_ne_zero _ Xoshiro128StarStar_shape x, seedFromU64_ne_zero _ Xoshiro256PlusPlus_shape x,
   seedFromU64_ne_zero _ Xoshiro512StarStar_shape x⟩

/-- Distinct non-zero seeds give distinct generators (the decoders are injective on seeds of the
    right length; shown for the five decoders shared by the 14 types). -/
theorem decode_injective :
    (∀ a b : List U8, a.length = 8 → b.length = 8 → S2.decode32 a = S2.decode32 b → a = b) ∧
    (∀ a b : List U8, a.length = 16 → b.length = 16 → S2.decode64 a = S2.decode64 b → a = b) ∧
    (∀ a b : List U8, a.length = 16 → b.length = 16 → S4.decode32 a = S4.decode32 b → a = b) ∧
    (∀ a b : List U8, a.length = 32 → b.length = 32 → S4.decode64 a = S4.decode64 b → a = b) ∧
    (∀ a b : List U8, a.length = 64 → b.length = 64 → S8.decode a = S8.decode b → a = b) := by
  refine ⟨?_, ?_, ?_, ?_, ?_⟩
  · intro a b ha hb h
    simp only [S2.decode32, S2.mk.injEq] at h
    exact eq_of_words32 a b 2 (by omega) (by omega) (by
      intro k hk; match k, hk with
      | 0, _ => exact h.1
      | 1, _ => exact h.2)
  · intro a b ha hb h
    simp only [S2.decode64, S2.mk.injEq] at h
    exact eq_of_words64 a b 2 (by omega) (by omega) (by
      intro k hk; match k, hk with
      | 0, _ => exact h.1
      | 1, _ => exact h.2)
  · intro a b ha hb h
    simp only [S4.decode32, S4.mk.injEq] at h
    exact eq_of_words32 a b 4 (by omega) (by omega) (by
      intro k hk; match k, hk with
      | 0, _ => exact h.1
      | 1, _ => exact h.2.1
      | 2, _ => exact h.2.2.1
      | 3, _ => exact h.2.2.2)
  · intro a b ha hb h
    simp only [S4.decode64, S4.mk.injEq] at h
    exact eq_of_words64 a b 4 (by omega) (by omega) (by
      intro k hk; match k, hk with
      | 0, _ => exact h.1
      | 1, _ => exact h.2.1
      | 2, _ => exact h.2.2.1
      | 3, _ => exact h.2.2.2)
  · intro a b ha hb h
    simp only [S8.decode, S8.mk.injEq] at h
    exact eq_of_words64 a b 8 (by omega) (by omega) (by
      intro k hk; match k, hk with
      | 0, _ => exact h.1
      | 1, _ => exact h.2.1
      | 2, _ => exact h.2.2.1
      | 3, _ => exact h.2.2.2.1
      | 4, _ => exact h.2.2.2.2.1
      | 5, _ => exact h.2.2.2.2.2.1
      | 6, _ => exact h.2.2.2.2.2.2.1
      | 7, _ => exact h.2.2.2.2.2.2.2)

/-! ### XorShiftRng -/
theorem BAD_SEED_ne_zero : XorShift.BAD_SEED ≠ S4.zero := by decide

/-- `XorShiftRng::from_seed` never returns the zero state; the zero seed maps to four words
    0x0BAD5EED, every other seed is used verbatim. -/
theorem XorShift_fromSeed (seed : List U8) :
    XorShift.fromSeed seed ≠ S4.zero ∧
    (S4.decode32 seed = S4.zero → XorShift.fromSeed seed = ⟨0xBAD5EED#32, 0xBAD5EED#32, 0xBAD5EED#32, 0xBAD5EED#32⟩) ∧
    (S4.decode32 seed ≠ S4.zero → XorShift.fromSeed seed = S4.decode32 seed) := by
  unfold XorShift.fromSeed
  by_cases h : S4.decode32 seed = S4.zero
  · simp [h, BAD_SEED_ne_zero]; rfl
  · simp [h]

/-- `XorShiftRng::from_rng`: if the k-th block delivered is the first one that is not all zero, the
    result is that block (decoded), for every k; an all-zero block is never used. -/
theorem XorShift_fromRng_ne_zero {ρ : Type} (fill : TryFill ρ) (fuel : Nat) (src : ρ) (st : XorShift.State) (src' : ρ)
    (hfill : ∀ s n b s', fill s n = (.ok b, s') → b.length = n)
    (h : XorShift.fromRngFuel fill fuel src = (.ok st, src')) : st ≠ S4.zero := by
  induction fuel generalizing src with
  | zero => simp [XorShift.fromRngFuel] at h
  | succ fuel ih =>
    unfold XorShift.fromRngFuel at h
    rcases hf : fill src 16 with ⟨r, s1⟩
    rw [hf] at h
    cases r with
    | error e => simp at h
    | ok b =>
      simp only at h
      by_cases hz : isAllZero b = true
      · simp [hz] at h; exact ih _ h
      · have hz' : isAllZero b = false := by simpa using hz
        simp [hz'] at h
        rw [← h.1]
        exact S4_decode32_ne_zero b (hfill _ _ _ _ hf) hz'

/-- `try_from_rng` is the same function as `from_rng` (the source text is a copy). -/
theorem XorShift_tryFromRng_eq {ρ : Type} (fill : TryFill ρ) (fuel : Nat) (src : ρ) :
    XorShift.tryFromRngFuel fill fuel src = XorShift.fromRngFuel fill fuel src := by
  induction fuel generalizing src with
  | zero => rfl
  | succ fuel ih =>
    unfold XorShift.tryFromRngFuel XorShift.fromRngFuel
    rcases fill src 16 with ⟨r, s1⟩
    cases r with
    | error e => rfl
    | ok b => simp only; split <;> simp [ih]

/-- non-vacuity: the zero seed of Xoshiro256PlusPlus really takes the remapping branch and ends in
    the state `seed_from_u64(0)`, whose first word is the first SplitMix64 output from 0. -/
example : (Xoshiro256PlusPlus.gen.fromSeed? (List.replicate 32 0)).map (·.s0) = some 0xe220a8397b1dcdaf#64 := by
  decide +kernel

end Rngs.C08
