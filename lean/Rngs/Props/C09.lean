/-
  C09 — All seeding routes agree: seed_from_u64, from_rng and try_from_rng.
-/
import Rngs.Lib.SeedLemmas
import Rngs.Model.Hc128
import Rngs.Model.Isaac
namespace Rngs.C09
open Rngs Rngs.Codec Rngs.Seed

/-! ### seed_from_u64 -/

/-- `SplitMix64::seed_from_u64(x)` is the generator whose counter is x
    (`from_seed(x.to_le_bytes())` decodes the same bytes little-endian). -/
theorem SplitMix64_seedFromU64 (x : U64) : SplitMix64.seedFromU64 x = x := by
  simp [SplitMix64.seedFromU64, SplitMix64.fromSeed, le64At_toLE]

/-- the documented expansion: the little-endian bytes of the first `k` native outputs of the
    SplitMix64 stream started at x (first output, then the expansion of the successor counter) -/
def expansion (x : U64) : Nat → List U8
  | 0 => []
  | k + 1 => U64.toLE (SplitMix64.nextU64 x).1 ++ expansion (SplitMix64.nextU64 x).2 k

theorem expansion_length (x : U64) (k : Nat) : (expansion x k).length = 8 * k := by
  induction k generalizing x with
  | zero => rfl
  | succ k ih => simp only [expansion, List.length_append, toLE64_length, ih]; omega

theorem fillLoop_eq_expansion (k : Nat) (x : U64) :
    (fillLoop SplitMix64.nextU64 k x).1 = expansion x k := by
  induction k generalizing x with
  | zero => rfl
  | succ k ih => simp only [fillLoop, expansion, ih]

/-- For seed sizes that are multiples of 8 (all of them: 8, 16, 32, 64), `fill_bytes` of SplitMix64
    delivers exactly the little-endian bytes of the next `n/8` native outputs. -/
theorem splitmix_fill_eq_expansion (k : Nat) (x : U64) : (SplitMix64.fill (8 * k) x).1 = expansion x k := by
  have h1 : 8 * k / 8 = k := by omega
  have h2 : 8 * k % 8 = 0 := by omega
  simp only [SplitMix64.fill, fillBytesViaNext, SplitMix64.direct, h1, h2]
  have : ¬ (0 > 4) := by omega
  simp only [this, if_false, Nat.lt_irrefl, gt_iff_lt]
  exact fillLoop_eq_expansion k x

/-- **xoshiro family**: `seed_from_u64(x) = from_seed(first seed-length bytes of the SplitMix64
    stream started at x)`, for every x and each of the 14 generators (g arbitrary). -/
theorem seedFromU64_eq_fromSeed_expansion {σ : Type} (g : XoGen σ) (k : Nat) (hk : g.seedLen = 8 * k) (x : U64) :
    g.seedFromU64? x = g.fromSeed? (expansion x k) := by
  simp only [XoGen.seedFromU64?, XoGen.seedFromU64Fuel, XoGen.fromSeed?, SplitMix64_seedFromU64, hk,
    splitmix_fill_eq_expansion]

/-- the seed sizes of the 14 generators are 8·1, 8·2, 8·4, 8·8 -/
theorem seedLens :
    Xoroshiro64Star.gen.seedLen = 8 * 1 ∧ Xoroshiro64StarStar.gen.seedLen = 8 * 1 ∧
    Xoroshiro128Plus.gen.seedLen = 8 * 2 ∧ Xoroshiro128PlusPlus.gen.seedLen = 8 * 2 ∧
    Xoroshiro128StarStar.gen.seedLen = 8 * 2 ∧ Xoshiro128Plus.gen.seedLen = 8 * 2 ∧
    Xoshiro128PlusPlus.gen.seedLen = 8 * 2 ∧ Xoshiro128StarStar.gen.seedLen = 8 * 2 ∧
    Xoshiro256Plus.gen.seedLen = 8 * 4 ∧ Xoshiro256PlusPlus.gen.seedLen = 8 * 4 ∧
    Xoshiro256StarStar.gen.seedLen = 8 * 4 ∧ Xoshiro512Plus.gen.seedLen = 8 * 8 ∧
    Xoshiro512PlusPlus.gen.seedLen = 8 * 8 ∧ Xoshiro512StarStar.gen.seedLen = 8 * 8 := by
  refine ⟨rfl, rfl, rfl, rfl, rfl, rfl, rfl, rfl, rfl, rfl, rfl, rfl, rfl, rfl⟩

/-- **XorShiftRng, Hc128Rng**: rand_core's default — `from_seed` of the PCG32 expansion of x. -/
theorem XorShift_seedFromU64 (x : U64) : XorShift.seedFromU64 x = XorShift.fromSeed (pcg32Seed 16 x) := by
  unfold XorShift.seedFromU64; rfl
theorem Hc128_seedFromU64 (x : U64) : Hc128.seedFromU64 x = Hc128.fromSeed (pcg32Seed 32 x) := by
  unfold Hc128.seedFromU64; rfl

theorem pcg32_length (st : U64) : (pcg32 st).1.length = 4 := by
  unfold pcg32
  exact toLE32_length _

/-- the PCG32 expansion has the seed's length (for lengths that are multiples of 4) -/
theorem pcg32Chunks_length (k : Nat) (st : U64) : (pcg32Chunks k st).1.length = 4 * k := by
  induction k generalizing st with
  | zero => rfl
  | succ k ih =>
    simp only [pcg32Chunks, List.length_append]
    rw [ih, pcg32_length]; omega

theorem pcg32Seed_length (k : Nat) (x : U64) : (pcg32Seed (4 * k) x).length = 4 * k := by
  have h1 : 4 * k / 4 = k := by omega
  have h2 : 4 * k % 4 = 0 := by omega
  simp [pcg32Seed, h1, h2, pcg32Chunks_length]

/-- **IsaacRng / Isaac64Rng**: x in the first key words, zeros elsewhere, ONE initialisation pass. -/
theorem Isaac_seedFromU64 (x : U64) :
    Isaac.seedFromU64Core32 x =
      Isaac.init Isaac.params32 (Isaac.extend [x.setWidth 32, (x >>> 32).setWidth 32]) 1 := by
  unfold Isaac.seedFromU64Core32; rfl
theorem Isaac64_seedFromU64 (x : U64) :
    Isaac.seedFromU64Core64 x = Isaac.init Isaac.params64 (Isaac.extend [x]) 1 := by
  unfold Isaac.seedFromU64Core64; rfl

/-! ### from_rng / try_from_rng -/

/-- **default `from_rng`/`try_from_rng`** (xoshiro family, SplitMix64, Hc128Rng): the generator is
    `from_seed` of exactly the bytes one `fill_bytes(seed length)` call delivers, the source is left
    in the state after that one call, and a failure of the source is returned unchanged — for every
    source and every position at which it fails. -/
theorem fromRngDefault_spec {σ ρ : Type} (seedLen : Nat) (fromSeed : List U8 → σ) (fill : TryFill ρ) (src : ρ) :
    (∀ bytes src', fill src seedLen = (.ok bytes, src') →
        fromRngDefault seedLen fromSeed fill src = (.ok (fromSeed bytes), src')) ∧
    (∀ e src', fill src seedLen = (.error e, src') →
        fromRngDefault seedLen fromSeed fill src = (.error e, src')) := by
  constructor
  · intro b s h; simp [fromRngDefault, h]
  · intro e s h; simp [fromRngDefault, h]

theorem xoshiro_fromRng {σ ρ : Type} (g : XoGen σ) (fill : TryFill ρ) (src : ρ) :
    g.fromRng? fill src = fromRngDefault g.seedLen g.fromSeed? fill src := by
  unfold XoGen.fromRng?; rfl
theorem Hc128_fromRng {ρ : Type} (fill : TryFill ρ) (src : ρ) :
    Hc128.fromRng fill src = fromRngDefault 32 Hc128.fromSeed fill src := by
  unfold Hc128.fromRng; rfl

/-- **ISAAC**: `from_rng` fills 1024 (resp. 2048) bytes, reads them as little-endian words and runs
    TWO passes; `try_from_rng` is the same function (two passes as well) and returns the source's
    error, never a generator, when the source fails. -/
theorem Isaac_fromRng_spec {ρ : Type} (fill : TryFill ρ) (src : ρ) :
    (∀ bytes src', fill src 1024 = (.ok bytes, src') →
        Isaac.fromRng32 fill src =
          (.ok (BlockRng.new Isaac.blockCore32 (Isaac.init Isaac.params32 (readU32s bytes 256).toArray 2)), src')) ∧
    (∀ e src', fill src 1024 = (.error e, src') → Isaac.fromRng32 fill src = (.error e, src')) ∧
    Isaac.tryFromRng32 fill src = Isaac.fromRng32 fill src := by
  refine ⟨?_, ?_, by unfold Isaac.tryFromRng32 Isaac.fromRng32; rfl⟩
  · intro b s h; simp [Isaac.fromRng32, Isaac.RAND_SIZE, h]
  · intro e s h; simp [Isaac.fromRng32, Isaac.RAND_SIZE, h]

theorem Isaac64_fromRng_spec {ρ : Type} (fill : TryFill ρ) (src : ρ) :
    (∀ bytes src', fill src 2048 = (.ok bytes, src') →
        Isaac.fromRng64 fill src =
          (.ok (BlockRng64.new Isaac.blockCore64 (Isaac.init Isaac.params64 (readU64s bytes 256).toArray 2)), src')) ∧
    (∀ e src', fill src 2048 = (.error e, src') → Isaac.fromRng64 fill src = (.error e, src')) ∧
    Isaac.tryFromRng64 fill src = Isaac.fromRng64 fill src := by
  refine ⟨?_, ?_, by unfold Isaac.tryFromRng64 Isaac.fromRng64; rfl⟩
  · intro b s h; simp [Isaac.fromRng64, Isaac.RAND_SIZE, h]
  · intro e s h; simp [Isaac.fromRng64, Isaac.RAND_SIZE, h]

/-- **XorShiftRng**: `from_rng` redraws only while the block is all zero: if the source delivers
    `k` all-zero blocks and then a block `b` that is not all zero, the result is `b` decoded and the
    source has been asked exactly `k + 1` times; an error at any draw is returned. -/
theorem XorShift_fromRng_first_nonzero {ρ : Type} (fill : TryFill ρ) (srcs : Nat → ρ) (blocks : Nat → List U8)
    (k fuel : Nat) (hfuel : k < fuel)
    (hdraw : ∀ i, i ≤ k → fill (srcs i) 16 = (.ok (blocks i), srcs (i + 1)))
    (hzero : ∀ i, i < k → isAllZero (blocks i) = true) (hk : isAllZero (blocks k) = false) :
    XorShift.fromRngFuel fill fuel (srcs 0) = (.ok (S4.decode32 (blocks k)), srcs (k + 1)) := by
  suffices h : ∀ j, j ≤ k → ∀ fuel', k - j < fuel' →
      XorShift.fromRngFuel fill fuel' (srcs j) = (.ok (S4.decode32 (blocks k)), srcs (k + 1)) from
    h 0 (Nat.zero_le _) fuel (by omega)
  intro j hj
  induction hd : k - j generalizing j with
  | zero =>
    intro fuel' hf
    have hjk : j = k := by omega
    subst hjk
    obtain ⟨f, rfl⟩ : ∃ f, fuel' = f + 1 := ⟨fuel' - 1, by omega⟩
    simp [XorShift.fromRngFuel, hdraw j (Nat.le_refl _), hk]
  | succ d ih =>
    intro fuel' hf
    obtain ⟨f, rfl⟩ : ∃ f, fuel' = f + 1 := ⟨fuel' - 1, by omega⟩
    have hlt : j < k := by omega
    simp only [XorShift.fromRngFuel, hdraw j hj, hzero j hlt]
    simpa using ih (j + 1) (by omega) (by omega) f (by omega)

theorem XorShift_fromRng_error {ρ : Type} (fill : TryFill ρ) (src src' : ρ) (e : SrcErr) (fuel : Nat)
    (h : fill src 16 = (.error e, src')) : XorShift.tryFromRngFuel fill (fuel + 1) src = (.error e, src') := by
  simp [XorShift.tryFromRngFuel, h]

/-- non-vacuity: the expansion of 0 for a 16-byte seed is the two SplitMix64 outputs
    e220a8397b1dcdaf, 6e789e6aa1b965f4 (the values documented in splitmix64.c) -/
example : expansion 0 2 = U64.toLE 0xe220a8397b1dcdaf#64 ++ (U64.toLE 0x6e789e6aa1b965f4#64 ++ []) := by decide +kernel

end Rngs.C09
