import Rngs.Model.Xoshiro
namespace Rngs.C09
theorem placeholder : True := trivial
end Rngs.C09
