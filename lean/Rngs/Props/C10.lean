import Rngs.Model.Xoshiro
namespace Rngs.C10
theorem placeholder : True := trivial
end Rngs.C10
