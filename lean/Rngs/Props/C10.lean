/-
  C10 — `clone()` and `==` are congruences.

  (1) operation languages and `run` for the three families of deterministic generators:
      the non-buffered ones (the 14 xoshiro-family types, SplitMix64, XorShiftRng; with
      `jump` / `long_jump` where the type has them), `BlockRng` (Hc128Rng, IsaacRng) and
      `BlockRng64` (Isaac64Rng);
  (2) congruence where `==` is derived on the complete state (and for copies in general);
  (3) Hc128Rng, whose hand-written `==` compares core and index but *not* the 16 buffered
      words: congruence for all reachable states (needs: `generate` is injective on the core
      and the buffer is determined by the core it leaves, `Rngs.Lib.Hc128Inj`);
  (4) non-vacuity examples.
  Generic lemmas: `Rngs.Lib.EqCongr`, `Rngs.Lib.Hc128Inj`, `Rngs.Lib.BlockRefine`.
-/
import Rngs.Lib.EqCongr
import Rngs.Model.XorShift
namespace Rngs.C10
open Rngs Rngs.BlockRefine Rngs.EqCongr

/-! ## (1) operation languages -/

/-- calls on a non-buffered generator -/
inductive Op
  | u32
  | u64
  | fill (n : Nat)
  | jump
  | longJump
  deriving DecidableEq, Repr

inductive Out
  | w32 (x : U32)
  | w64 (x : U64)
  | bytes (b : List U8)
  | unit
  deriving DecidableEq, Repr

/-- a non-buffered generator type: its `RngCore` methods and, if it has them, its jumps -/
structure Gen (σ : Type) where
  direct : Direct σ
  jump : Option (σ → σ)
  longJump : Option (σ → σ)

def ofXo {σ : Type} (g : XoGen σ) : Gen σ := ⟨g.direct, g.jump, g.longJump⟩
def xorShift : Gen XorShift.State := ⟨XorShift.direct, none, none⟩
def splitMix : Gen U64 := ⟨SplitMix64.direct, none, none⟩

/-- one call; `none` = the type has no such method -/
def step {σ : Type} (g : Gen σ) (s : σ) : Op → Option (Out × σ)
  | .u32 => some (.w32 (g.direct.nextU32 s).1, (g.direct.nextU32 s).2)
  | .u64 => some (.w64 (g.direct.nextU64 s).1, (g.direct.nextU64 s).2)
  | .fill n => some (.bytes (fillBytesViaNext g.direct n s).1, (fillBytesViaNext g.direct n s).2)
  | .jump => g.jump.map (fun j => (.unit, j s))
  | .longJump => g.longJump.map (fun j => (.unit, j s))

/-- a history: all returned values and the final state -/
def run {σ : Type} (g : Gen σ) : σ → List Op → Option (List Out × σ)
  | s, [] => some ([], s)
  | s, op :: ops =>
    match step g s op with
    | none => none
    | some (o, s) =>
      match run g s ops with
      | none => none
      | some (os, s) => some (o :: os, s)

/-- `Clone` of every type here is a field-by-field copy -/
def clone {α : Type} (a : α) : α := a

/-- calls on the buffered generators: `Spec.Stream.Op` (`u32`, `u64`, `fill n`) interpreted by
    `BlockRefine.opBlock32 c` (`BlockRng`) resp. `opBlock64 c` (`BlockRng64`), histories by
    `Spec.Stream.run` -/
abbrev BOp := Spec.Stream.Op
abbrev brun32 {σ : Type} (c : BlockCore σ 32) := Spec.Stream.run (opBlock32 c)
abbrev brun64 {σ : Type} (c : BlockCore σ 64) := Spec.Stream.run (opBlock64 c)

/-! ## (2) congruence where `==` is derived on the complete state -/

/-- equal generators: identical values under every operation sequence, identical final states -/
theorem direct_congr {σ : Type} [DecidableEq σ] (g : Gen σ) (a b : σ) (h : (a == b) = true)
    (ops : List Op) : run g a ops = run g b ops := by
  rw [beq_iff_eq.mp h]

/-- … and they are still equal afterwards -/
theorem direct_eq_after {σ : Type} [DecidableEq σ] (g : Gen σ) (a b : σ) (h : (a == b) = true)
    (ops : List Op) (oa ob : List Out) (a' b' : σ)
    (ha : run g a ops = some (oa, a')) (hb : run g b ops = some (ob, b')) :
    oa = ob ∧ (a' == b') = true := by
  rw [beq_iff_eq.mp h, hb] at ha
  cases ha
  exact ⟨rfl, beq_self_eq_true _⟩

/-- a clone compares equal and has the same future -/
theorem direct_clone {σ : Type} [DecidableEq σ] (g : Gen σ) (a : σ) (ops : List Op) :
    (clone a == a) = true ∧ run g (clone a) ops = run g a ops :=
  ⟨beq_self_eq_true _, rfl⟩

/-- the 14 xoshiro-family types -/
theorem xoshiro_congr {σ : Type} [DecidableEq σ] (g : XoGen σ) (a b : σ) (h : (a == b) = true)
    (ops : List Op) : run (ofXo g) a ops = run (ofXo g) b ops := direct_congr _ a b h ops

theorem Xoroshiro64Star_congr (a b : S2 32) (h : (a == b) = true) (ops : List Op) :
    run (ofXo Xoroshiro64Star.gen) a ops = run (ofXo Xoroshiro64Star.gen) b ops := direct_congr _ a b h ops
theorem Xoroshiro64StarStar_congr (a b : S2 32) (h : (a == b) = true) (ops : List Op) :
    run (ofXo Xoroshiro64StarStar.gen) a ops = run (ofXo Xoroshiro64StarStar.gen) b ops := direct_congr _ a b h ops
theorem Xoroshiro128Plus_congr (a b : S2 64) (h : (a == b) = true) (ops : List Op) :
    run (ofXo Xoroshiro128Plus.gen) a ops = run (ofXo Xoroshiro128Plus.gen) b ops := direct_congr _ a b h ops
theorem Xoroshiro128PlusPlus_congr (a b : S2 64) (h : (a == b) = true) (ops : List Op) :
    run (ofXo Xoroshiro128PlusPlus.gen) a ops = run (ofXo Xoroshiro128PlusPlus.gen) b ops := direct_congr _ a b h ops
theorem Xoroshiro128StarStar_congr (a b : S2 64) (h : (a == b) = true) (ops : List Op) :
    run (ofXo Xoroshiro128StarStar.gen) a ops = run (ofXo Xoroshiro128StarStar.gen) b ops := direct_congr _ a b h ops
theorem Xoshiro128Plus_congr (a b : S4 32) (h : (a == b) = true) (ops : List Op) :
    run (ofXo Xoshiro128Plus.gen) a ops = run (ofXo Xoshiro128Plus.gen) b ops := direct_congr _ a b h ops
theorem Xoshiro128PlusPlus_congr (a b : S4 32) (h : (a == b) = true) (ops : List Op) :
    run (ofXo Xoshiro128PlusPlus.gen) a ops = run (ofXo Xoshiro128PlusPlus.gen) b ops := direct_congr _ a b h ops
theorem Xoshiro128StarStar_congr (a b : S4 32) (h : (a == b) = true) (ops : List Op) :
    run (ofXo Xoshiro128StarStar.gen) a ops = run (ofXo Xoshiro128StarStar.gen) b ops := direct_congr _ a b h ops
theorem Xoshiro256Plus_congr (a b : S4 64) (h : (a == b) = true) (ops : List Op) :
    run (ofXo Xoshiro256Plus.gen) a ops = run (ofXo Xoshiro256Plus.gen) b ops := direct_congr _ a b h ops
theorem Xoshiro256PlusPlus_congr (a b : S4 64) (h : (a == b) = true) (ops : List Op) :
    run (ofXo Xoshiro256PlusPlus.gen) a ops = run (ofXo Xoshiro256PlusPlus.gen) b ops := direct_congr _ a b h ops
theorem Xoshiro256StarStar_congr (a b : S4 64) (h : (a == b) = true) (ops : List Op) :
    run (ofXo Xoshiro256StarStar.gen) a ops = run (ofXo Xoshiro256StarStar.gen) b ops := direct_congr _ a b h ops
theorem Xoshiro512Plus_congr (a b : S8) (h : (a == b) = true) (ops : List Op) :
    run (ofXo Xoshiro512Plus.gen) a ops = run (ofXo Xoshiro512Plus.gen) b ops := direct_congr _ a b h ops
theorem Xoshiro512PlusPlus_congr (a b : S8) (h : (a == b) = true) (ops : List Op) :
    run (ofXo Xoshiro512PlusPlus.gen) a ops = run (ofXo Xoshiro512PlusPlus.gen) b ops := direct_congr _ a b h ops
theorem Xoshiro512StarStar_congr (a b : S8) (h : (a == b) = true) (ops : List Op) :
    run (ofXo Xoshiro512StarStar.gen) a ops = run (ofXo Xoshiro512StarStar.gen) b ops := direct_congr _ a b h ops
theorem SplitMix64_congr (a b : U64) (h : (a == b) = true) (ops : List Op) :
    run splitMix a ops = run splitMix b ops := direct_congr _ a b h ops
theorem XorShift_congr (a b : XorShift.State) (h : (a == b) = true) (ops : List Op) :
    run xorShift a ops = run xorShift b ops := direct_congr _ a b h ops

/-- the op language really reaches the model's methods, jumps included -/
theorem step_xo {σ : Type} (g : XoGen σ) (s : σ) (n : Nat) (j l : σ → σ)
    (hj : g.jump = some j) (hl : g.longJump = some l) :
    step (ofXo g) s .u32 = some (.w32 (g.nextU32 s).1, (g.nextU32 s).2)
    ∧ step (ofXo g) s .u64 = some (.w64 (g.nextU64 s).1, (g.nextU64 s).2)
    ∧ step (ofXo g) s (.fill n) = some (.bytes (g.fill n s).1, (g.fill n s).2)
    ∧ step (ofXo g) s .jump = some (.unit, j s)
    ∧ step (ofXo g) s .longJump = some (.unit, l s) := by
  refine ⟨rfl, rfl, rfl, ?_, ?_⟩
  · simp [step, ofXo, hj]
  · simp [step, ofXo, hl]

/-! ### the buffered wrappers without `==` (IsaacRng, Isaac64Rng) and copies in general -/

/-- a copy of any `BlockRng` has the same future -/
theorem block32_copy_congr {σ : Type} (c : BlockCore σ 32) (a b : BlockRng σ) (h : a = b)
    (ops : List BOp) : brun32 c a ops = brun32 c b ops := by rw [h]

theorem block64_copy_congr {σ : Type} (c : BlockCore σ 64) (a b : BlockRng64 σ) (h : a = b)
    (ops : List BOp) : brun64 c a ops = brun64 c b ops := by rw [h]

theorem block_clone {σ : Type} (c32 : BlockCore σ 32) (c64 : BlockCore σ 64) (a : BlockRng σ)
    (a' : BlockRng64 σ) (ops : List BOp) :
    brun32 c32 (clone a) ops = brun32 c32 a ops ∧ brun64 c64 (clone a') ops = brun64 c64 a' ops :=
  ⟨rfl, rfl⟩

/-- `IsaacCore == IsaacCore` (mem, a, b, c) is equality of the complete core, both widths -/
theorem Isaac_core_beq_iff {w : Nat} (x y : Isaac.Core w) : Isaac.Core.beq x y = true ↔ x = y :=
  isaac_core_beq_iff x y

/-- equal cores generate the same block and stay equal -/
theorem Isaac_core_beq_congr {w : Nat} (p : Isaac.Params w) (x y : Isaac.Core w)
    (h : Isaac.Core.beq x y = true) (res : Array (BitVec w)) :
    (Isaac.generate p x res).1 = (Isaac.generate p y res).1
    ∧ Isaac.Core.beq (Isaac.generate p x res).2 (Isaac.generate p y res).2 = true := by
  rw [(isaac_core_beq_iff x y).mp h]
  exact ⟨rfl, (isaac_core_beq_iff _ _).mpr rfl⟩

/-- generators built over equal cores have the same future -/
theorem Isaac_core_beq_future (x y : Isaac.Core 32) (h : Isaac.Core.beq x y = true) (ops : List BOp) :
    brun32 Isaac.blockCore32 (BlockRng.new Isaac.blockCore32 x) ops
      = brun32 Isaac.blockCore32 (BlockRng.new Isaac.blockCore32 y) ops := by
  rw [(isaac_core_beq_iff x y).mp h]

theorem Isaac64_core_beq_future (x y : Isaac.Core 64) (h : Isaac.Core.beq x y = true) (ops : List BOp) :
    brun64 Isaac.blockCore64 (BlockRng64.new Isaac.blockCore64 x) ops
      = brun64 Isaac.blockCore64 (BlockRng64.new Isaac.blockCore64 y) ops := by
  rw [(isaac_core_beq_iff x y).mp h]

/-! ## (3) Hc128Rng: `==` is core and index, not the buffer -/

/-- the states a program can hold: built by `from_seed` (hence also `seed_from_u64`,
    `from_rng`, which go through it), then any calls -/
inductive Reachable : Hc128.Rng → Prop
  | fromSeed (seed : List U8) : Reachable (Hc128.fromSeed seed)
  | op (a : Hc128.Rng) (op : BOp) : Reachable a → Reachable (opBlock32 Hc128.blockCore a op).2

/-- `opBlock32 Hc128.blockCore` is the model's `Hc128Rng` methods -/
theorem opBlock32_hc128 (st : Hc128.Rng) (n : Nat) :
    opBlock32 Hc128.blockCore st .u32 = (.w32 (Hc128.nextU32 st).1, (Hc128.nextU32 st).2)
    ∧ opBlock32 Hc128.blockCore st .u64 = (.w64 (Hc128.nextU64 st).1, (Hc128.nextU64 st).2)
    ∧ opBlock32 Hc128.blockCore st (.fill n) = (.bytes (Hc128.fill n st).1, (Hc128.fill n st).2) :=
  ⟨rfl, rfl, rfl⟩

theorem Reachable.nextU32 {a : Hc128.Rng} (h : Reachable a) : Reachable (Hc128.nextU32 a).2 := by
  have := Reachable.op a .u32 h
  rwa [(opBlock32_hc128 a 0).1] at this

/-- what `==` compares -/
theorem Hc128_beq_iff (a b : Hc128.Rng) :
    Hc128.beq a b = true ↔ a.core = b.core ∧ a.index = b.index := beq_iff a b

/-- Reachable states: 16-word buffer, index ≤ 16, well-formed core, and if part of the buffer
    is unread it is exactly what the `generate` call that produced the current core wrote. -/
theorem Hc128_reachable_inv (a : Hc128.Rng) (h : Reachable a) :
    a.results.size = 16 ∧ a.index ≤ 16 ∧ Hc128Inj.WF a.core
    ∧ (a.index < 16 → ∃ c₀ r₀, Hc128Inj.WF c₀ ∧ r₀.size = 16
        ∧ Hc128.generate c₀ r₀ = (a.results, a.core)) := by
  have : Inv a := by
    induction h with
    | fromSeed seed => exact fromSeed_Inv seed
    | op a op _ ih => exact ih.op op
  exact ⟨this.2.1, this.2.2.1, this.1, this.2.2.2⟩

theorem reachable_Inv {a : Hc128.Rng} (h : Reachable a) : Inv a := by
  induction h with
  | fromSeed seed => exact fromSeed_Inv seed
  | op a op _ ih => exact ih.op op

/-- reachability is closed under whole histories -/
theorem Hc128_reachable_run (a : Hc128.Rng) (h : Reachable a) (ops : List BOp) :
    Reachable (brun32 Hc128.blockCore a ops).2 := by
  induction ops generalizing a with
  | nil => exact h
  | cons op ops ih =>
    show Reachable (Spec.Stream.run _ a (op :: ops)).2
    rw [StreamRefine.run_cons]
    exact ih _ (.op _ _ h)

/-- `generate` is injective on well-formed cores, and the 16 result words are determined by
    the core it leaves behind (this is why `==` need not look at the buffer) -/
theorem Hc128_generate_inj (c₁ c₂ : Hc128.Core) (h₁ : Hc128Inj.WF c₁) (h₂ : Hc128Inj.WF c₂)
    (r₁ r₂ : Array U32) (hr₁ : r₁.size = 16) (hr₂ : r₂.size = 16)
    (h : (Hc128.generate c₁ r₁).2 = (Hc128.generate c₂ r₂).2) :
    c₁ = c₂ ∧ (Hc128.generate c₁ r₁).1 = (Hc128.generate c₂ r₂).1 :=
  ⟨Hc128Inj.generate_core_inj h₁ h₂ r₁ r₂ h,
   Hc128Inj.generate_results_determined h₁ h₂ r₁ r₂ hr₁ hr₂ h⟩

/-- **Whenever two reachable `Hc128Rng` compare equal, every operation sequence applied to both
    returns identical values and leaves them equal.** -/
theorem Hc128_beq_congr (a b : Hc128.Rng) (ha : Reachable a) (hb : Reachable b)
    (h : Hc128.beq a b = true) (ops : List BOp) :
    (brun32 Hc128.blockCore a ops).1 = (brun32 Hc128.blockCore b ops).1
    ∧ Hc128.beq (brun32 Hc128.blockCore a ops).2 (brun32 Hc128.blockCore b ops).2 = true := by
  have he := bequiv_of_beq (reachable_Inv ha) (reachable_Inv hb) h
  obtain ⟨h1, h2⟩ := run_congr hc128_sizeOK (by decide) hc128_hind ops a b he
  exact ⟨h1, beq_of_bequiv h2⟩

/-- the same under the weaker, explicit hypothesis instead of reachability: the buffers agree
    unless exhausted (no injectivity needed) -/
theorem Hc128_beq_congr_of_buffers (a b : Hc128.Rng) (hsa : a.results.size = 16)
    (hsb : b.results.size = 16) (hle : a.index ≤ 16) (hbuf : a.index < 16 → a.results = b.results)
    (h : Hc128.beq a b = true) (ops : List BOp) :
    (brun32 Hc128.blockCore a ops).1 = (brun32 Hc128.blockCore b ops).1
    ∧ Hc128.beq (brun32 Hc128.blockCore a ops).2 (brun32 Hc128.blockCore b ops).2 = true := by
  obtain ⟨hc, hi⟩ := (beq_iff a b).mp h
  obtain ⟨h1, h2⟩ := run_congr hc128_sizeOK (by decide) hc128_hind ops a b
    ⟨hc, hi, hle, hsa, hsb, hbuf⟩
  exact ⟨h1, beq_of_bequiv h2⟩

/-- **Two `Hc128Rng` at different read positions are not equal** (in particular at different
    positions of the same block). -/
theorem Hc128_index_distinguishes (a b : Hc128.Rng) (h : a.index ≠ b.index) :
    Hc128.beq a b = false := by
  cases hb : Hc128.beq a b with
  | false => rfl
  | true => exact absurd ((beq_iff a b).mp hb).2 h

/-- **A clone compares equal to the original** and has the same future. -/
theorem Hc128_clone (a : Hc128.Rng) (ops : List BOp) :
    Hc128.beq (clone a) a = true
    ∧ brun32 Hc128.blockCore (clone a) ops = brun32 Hc128.blockCore a ops := by
  unfold clone
  constructor
  · rw [beq_iff]; exact ⟨rfl, rfl⟩
  · exact block32_copy_congr _ _ _ (Eq.refl a) ops

/-- reading one word moves the index, so a generator and its clone advanced by one `next_u32`
    inside a block are unequal -/
theorem Hc128_advanced_ne (a : Hc128.Rng) (hi : a.index < 16) :
    Hc128.beq a (Hc128.nextU32 a).2 = false := by
  apply Hc128_index_distinguishes
  have : ¬ a.index ≥ Hc128.blockCore.len := by show ¬ a.index ≥ 16; omega
  simp only [Hc128.nextU32, BlockRng.nextU32, this, if_false]
  omega

/-! ## (4) non-vacuity -/

/-- reachable states at two different positions of the same block: after the first
    `next_u32` (refill, index 1) and after one more (index 2) — both reachable, unequal -/
example (seed : List U8) :
    let a := (Hc128.nextU32 (Hc128.fromSeed seed)).2
    Reachable a ∧ Reachable (Hc128.nextU32 a).2 ∧ Hc128.beq a (Hc128.nextU32 a).2 = false := by
  intro a
  have ra : Reachable a := (Reachable.fromSeed seed).nextU32
  have hi : a.index = 1 := by
    simp [a, Hc128.nextU32, BlockRng.nextU32, Hc128.fromSeed, BlockRng.new,
      BlockRng.generateAndSet, Hc128.blockCore]
  exact ⟨ra, ra.nextU32, Hc128_advanced_ne a (by omega)⟩

/-- two states at different positions of one block (same core, same buffer) compare unequal -/
example :
    let core : Hc128.Core := ⟨Array.replicate 1024 7, 32⟩
    let buf : Array U32 := Array.replicate 16 9
    Hc128.beq ⟨buf, 3, core⟩ ⟨buf, 5, core⟩ = false :=
  Hc128_index_distinguishes _ _ (by decide)

/-- … and the same state compares equal to itself -/
example (a : Hc128.Rng) : Hc128.beq a a = true := (Hc128_clone a []).1

/-- reachability is needed: `==` ignores the buffer, so two *unreachable* states that differ
    only in unread buffered words compare equal and answer differently -/
example :
    let core : Hc128.Core := ⟨#[], 0⟩
    let a : Hc128.Rng := ⟨Array.replicate 16 1, 0, core⟩
    let b : Hc128.Rng := ⟨Array.replicate 16 2, 0, core⟩
    Hc128.beq a b = true ∧ (Hc128.nextU32 a).1 ≠ (Hc128.nextU32 b).1 := by decide

/-- the jump operations are part of the language where the type has them -/
example : (run (ofXo Xoshiro256PlusPlus.gen) ⟨1, 2, 3, 4⟩ [.u32]).isSome = true := rfl
example (s : S4 64) : (step (ofXo Xoshiro256PlusPlus.gen) s .jump).isSome = true := rfl
example (s : S2 32) : step (ofXo Xoroshiro64Star.gen) s .jump = none := rfl

end Rngs.C10
