import Rngs.Model.Xoshiro
namespace Rngs.C11
theorem placeholder : True := trivial
end Rngs.C11
