/-
  C11 — serde round trip.

  "With the serde feature, serializing any serializable generator (the 15 rand_xoshiro types,
  XorShiftRng, IsaacRng, Isaac64Rng) at any point of any operation history and deserializing
  the bytes yields a generator that returns exactly the same values as the original under
  every subsequent operation sequence, including the buffered but unconsumed ISAAC words and a
  half-consumed ISAAC-64 word, and that compares equal where == is provided.  Serializing does
  not disturb the original."

  Model: `Rngs.Model.Serde` — the bincode-1 image of each generator and its deserialiser
  (serde-derive and bincode are modelled, the driver ties the images to the real crates).
  Image functions and the Rust types that use them:
      serSplitMix : SplitMix64                                   (one u64)
      serS2_32    : Xoroshiro64Star, Xoroshiro64StarStar         (2 × u32)
      serS2_64    : Xoroshiro128Plus, …PlusPlus, …StarStar       (2 × u64)
      serS4_32    : Xoshiro128Plus, …PlusPlus, …StarStar, and XorShiftRng (x, y, z, w)
      serS4_64    : Xoshiro256Plus, …PlusPlus, …StarStar         (4 × u64)
      serS8       : Xoshiro512Plus, …PlusPlus, …StarStar         (8 × u64)
      serIsaac32  : IsaacRng   = results[256], index, core { mem[256], a, b, c }
      serIsaac64  : Isaac64Rng = results[256], index, half_used, core { mem[256], a, b, c }

  What is proved.  The model's generator *is* its state (a value of `S2 w`, `S4 w`, `S8`, `U64`,
  `BlockRng (Core 32)`, `BlockRng64 (Core 64)`), every operation is a function of that value,
  and `==` is equality of that value.  Hence the whole property follows from
      de (ser s ++ rest) = some (s, rest)              for every state `s`,
  which is proved for every state of the eight plain-word images and for every ISAAC state
  that has its Rust array lengths and an index that fits a `usize` — in particular (section 3)
  for every state reachable from a constructor by `next_u32`, `next_u64`, `fill_bytes`: every
  buffer index, `half_used` set or not.  The ISAAC image contains the whole results buffer, the
  index and `half_used`, so the unconsumed buffered words and the pending high half of a
  half-consumed ISAAC-64 word are restored with the rest.

  "Serializing does not disturb the original": `ser… : state → List U8` is a pure function; the
  model has no way to express a side effect on its argument, so there is nothing to state (the
  Rust `serialize(&self)` takes a shared reference; the driver checks the original's
  continuation against the real crates).
-/
import Rngs.Lib.SerdeLemmas
namespace Rngs.C11
open Rngs Rngs.Serde Rngs.SerdeLemmas

/-! ## 1. deserialising an image gives back the state, for every trailing input -/

/-- SplitMix64 -/
theorem roundtrip_splitMix (x : U64) (rest : List U8) :
    deSplitMix (serSplitMix x ++ rest) = some (x, rest) := rt_splitMix x trivial rest

/-- Xoroshiro64Star, Xoroshiro64StarStar -/
theorem roundtrip_S2_32 (s : S2 32) (rest : List U8) :
    deS2_32 (serS2_32 s ++ rest) = some (s, rest) := rt_S2_32 s trivial rest

/-- Xoroshiro128Plus, Xoroshiro128PlusPlus, Xoroshiro128StarStar -/
theorem roundtrip_S2_64 (s : S2 64) (rest : List U8) :
    deS2_64 (serS2_64 s ++ rest) = some (s, rest) := rt_S2_64 s trivial rest

/-- Xoshiro128Plus, Xoshiro128PlusPlus, Xoshiro128StarStar, XorShiftRng -/
theorem roundtrip_S4_32 (s : S4 32) (rest : List U8) :
    deS4_32 (serS4_32 s ++ rest) = some (s, rest) := rt_S4_32 s trivial rest

/-- XorShiftRng (`XorShift.State` is `S4 32`) -/
theorem roundtrip_xorShift (s : XorShift.State) (rest : List U8) :
    deS4_32 (serS4_32 s ++ rest) = some (s, rest) := rt_S4_32 s trivial rest

/-- Xoshiro256Plus, Xoshiro256PlusPlus, Xoshiro256StarStar -/
theorem roundtrip_S4_64 (s : S4 64) (rest : List U8) :
    deS4_64 (serS4_64 s ++ rest) = some (s, rest) := rt_S4_64 s trivial rest

/-- Xoshiro512Plus, Xoshiro512PlusPlus, Xoshiro512StarStar -/
theorem roundtrip_S8 (s : S8) (rest : List U8) :
    deS8 (serS8 s ++ rest) = some (s, rest) := rt_S8 s trivial rest

/-- IsaacRng, for every state with the Rust array lengths and an index that fits a `usize`
    (any index, consumed or not) -/
theorem roundtrip_isaac32 (r : Isaac.Rng32)
    (h : r.results.size = 256 ∧ r.core.mem.size = 256 ∧ r.index < 2 ^ 64) (rest : List U8) :
    deIsaac32 (serIsaac32 r ++ rest) = some (r, rest) := rt_isaac32 r h rest

/-- Isaac64Rng, likewise, `half_used` true or false -/
theorem roundtrip_isaac64 (r : Isaac.Rng64)
    (h : r.results.size = 256 ∧ r.core.mem.size = 256 ∧ r.index < 2 ^ 64) (rest : List U8) :
    deIsaac64 (serIsaac64 r ++ rest) = some (r, rest) := rt_isaac64 r h rest

/-! ## 2. the image determines the state; the restored generator has the same future -/

/-- Generic form: if `de` inverts `ser` on the states satisfying `P`, then whatever `de`
    returns on the image of such a state `s` is `s` itself with nothing left over — so it
    compares equal, and EVERY function `f` of the state (every sequence of `next_u32`,
    `next_u64`, `fill_bytes`, `jump`, `clone`, … and any observation of the results) gives the
    same answer on the restored generator as on the original. -/
theorem restored_has_identical_future {σ β : Type} {ser : σ → List U8} {de : De σ} {P : σ → Prop}
    (h : RoundTrip ser de P) (s s' : σ) (hs : P s) (rest : List U8)
    (hd : de (ser s) = some (s', rest)) (f : σ → β) : s' = s ∧ rest = [] ∧ f s' = f s :=
  h.future s s' hs rest hd f

theorem splitMix_identical_future {β : Type} (s s' : U64) (rest : List U8)
    (hd : deSplitMix (serSplitMix s) = some (s', rest)) (f : U64 → β) :
    s' = s ∧ rest = [] ∧ f s' = f s := rt_splitMix.future s s' trivial rest hd f

theorem S2_32_identical_future {β : Type} (s s' : S2 32) (rest : List U8)
    (hd : deS2_32 (serS2_32 s) = some (s', rest)) (f : S2 32 → β) :
    s' = s ∧ rest = [] ∧ f s' = f s := rt_S2_32.future s s' trivial rest hd f

theorem S2_64_identical_future {β : Type} (s s' : S2 64) (rest : List U8)
    (hd : deS2_64 (serS2_64 s) = some (s', rest)) (f : S2 64 → β) :
    s' = s ∧ rest = [] ∧ f s' = f s := rt_S2_64.future s s' trivial rest hd f

/-- also XorShiftRng -/
theorem S4_32_identical_future {β : Type} (s s' : S4 32) (rest : List U8)
    (hd : deS4_32 (serS4_32 s) = some (s', rest)) (f : S4 32 → β) :
    s' = s ∧ rest = [] ∧ f s' = f s := rt_S4_32.future s s' trivial rest hd f

theorem S4_64_identical_future {β : Type} (s s' : S4 64) (rest : List U8)
    (hd : deS4_64 (serS4_64 s) = some (s', rest)) (f : S4 64 → β) :
    s' = s ∧ rest = [] ∧ f s' = f s := rt_S4_64.future s s' trivial rest hd f

theorem S8_identical_future {β : Type} (s s' : S8) (rest : List U8)
    (hd : deS8 (serS8 s) = some (s', rest)) (f : S8 → β) :
    s' = s ∧ rest = [] ∧ f s' = f s := rt_S8.future s s' trivial rest hd f

theorem isaac32_identical_future {β : Type} (r r' : Isaac.Rng32) (hr : Fits32 r) (rest : List U8)
    (hd : deIsaac32 (serIsaac32 r) = some (r', rest)) (f : Isaac.Rng32 → β) :
    r' = r ∧ rest = [] ∧ f r' = f r := rt_isaac32.future r r' hr rest hd f

theorem isaac64_identical_future {β : Type} (r r' : Isaac.Rng64) (hr : Fits64 r) (rest : List U8)
    (hd : deIsaac64 (serIsaac64 r) = some (r', rest)) (f : Isaac.Rng64 → β) :
    r' = r ∧ rest = [] ∧ f r' = f r := rt_isaac64.future r r' hr rest hd f

/-- injectivity: two states with the same image are the same state -/
theorem ser_injective {σ : Type} {ser : σ → List U8} {de : De σ} {P : σ → Prop}
    (h : RoundTrip ser de P) (a b : σ) (ha : P a) (hb : P b) (e : ser a = ser b) : a = b :=
  h.inj a b ha hb e

theorem serSplitMix_injective (a b : U64) (e : serSplitMix a = serSplitMix b) : a = b :=
  rt_splitMix.inj a b trivial trivial e
theorem serS2_32_injective (a b : S2 32) (e : serS2_32 a = serS2_32 b) : a = b :=
  rt_S2_32.inj a b trivial trivial e
theorem serS2_64_injective (a b : S2 64) (e : serS2_64 a = serS2_64 b) : a = b :=
  rt_S2_64.inj a b trivial trivial e
theorem serS4_32_injective (a b : S4 32) (e : serS4_32 a = serS4_32 b) : a = b :=
  rt_S4_32.inj a b trivial trivial e
theorem serS4_64_injective (a b : S4 64) (e : serS4_64 a = serS4_64 b) : a = b :=
  rt_S4_64.inj a b trivial trivial e
theorem serS8_injective (a b : S8) (e : serS8 a = serS8 b) : a = b :=
  rt_S8.inj a b trivial trivial e
theorem serIsaac32_injective (a b : Isaac.Rng32) (ha : Fits32 a) (hb : Fits32 b)
    (e : serIsaac32 a = serIsaac32 b) : a = b := rt_isaac32.inj a b ha hb e
theorem serIsaac64_injective (a b : Isaac.Rng64) (ha : Fits64 a) (hb : Fits64 b)
    (e : serIsaac64 a = serIsaac64 b) : a = b := rt_isaac64.inj a b ha hb e

/-! ## 3. every reachable ISAAC state satisfies the hypothesis of the round trip

`Inv32 r` / `Inv64 r`: `results.size = 256 ∧ core.mem.size = 256 ∧ index ≤ 256`. -/

/-- the invariant implies what the round trip needs -/
theorem inv32_fits (r : Isaac.Rng32) (h : Inv32 r) :
    r.results.size = 256 ∧ r.core.mem.size = 256 ∧ r.index < 2 ^ 64 := h.fits

theorem inv64_fits (r : Isaac.Rng64) (h : Inv64 r) :
    r.results.size = 256 ∧ r.core.mem.size = 256 ∧ r.index < 2 ^ 64 := h.fits

/-- constructors: `from_seed`, `seed_from_u64`, `BlockRng::new(core)` for any 256-word core -/
theorem inv32_constructors :
    (∀ seed, Inv32 (Isaac.fromSeed32 seed)) ∧ (∀ x, Inv32 (Isaac.seedFromU64_32 x)) ∧
      (∀ core : Isaac.Core 32, core.mem.size = 256 → Inv32 (BlockRng.new Isaac.blockCore32 core)) :=
  ⟨inv32_fromSeed, inv32_seedFromU64, inv32_new⟩

theorem inv64_constructors :
    (∀ seed, Inv64 (Isaac.fromSeed64 seed)) ∧ (∀ x, Inv64 (Isaac.seedFromU64_64 x)) ∧
      (∀ core : Isaac.Core 64, core.mem.size = 256 → Inv64 (BlockRng64.new Isaac.blockCore64 core)) :=
  ⟨inv64_fromSeed, inv64_seedFromU64, inv64_new⟩

/-- operations: `next_u32`, `next_u64`, `fill_bytes(n)` preserve the invariant -/
theorem inv32_preserved (r : Isaac.Rng32) (h : Inv32 r) :
    Inv32 (BlockRng.nextU32 Isaac.blockCore32 r).2 ∧ Inv32 (BlockRng.nextU64 Isaac.blockCore32 r).2 ∧
      ∀ n, Inv32 (BlockRng.fillBytes Isaac.blockCore32 n r).2 :=
  ⟨inv32_nextU32 r h, inv32_nextU64 r h, fun n => inv32_fillBytes n r h⟩

theorem inv64_preserved (r : Isaac.Rng64) (h : Inv64 r) :
    Inv64 (BlockRng64.nextU32 Isaac.blockCore64 r).2 ∧ Inv64 (BlockRng64.nextU64 Isaac.blockCore64 r).2 ∧
      ∀ n, Inv64 (BlockRng64.fillBytes Isaac.blockCore64 n r).2 :=
  ⟨inv64_nextU32 r h, inv64_nextU64 r h, fun n => inv64_fillBytes n r h⟩

/-- an operation history -/
inductive Op
  | u32
  | u64
  | fill (n : Nat)

def run32 (r : Isaac.Rng32) : List Op → Isaac.Rng32
  | [] => r
  | .u32 :: ops => run32 (BlockRng.nextU32 Isaac.blockCore32 r).2 ops
  | .u64 :: ops => run32 (BlockRng.nextU64 Isaac.blockCore32 r).2 ops
  | .fill n :: ops => run32 (BlockRng.fillBytes Isaac.blockCore32 n r).2 ops

def run64 (r : Isaac.Rng64) : List Op → Isaac.Rng64
  | [] => r
  | .u32 :: ops => run64 (BlockRng64.nextU32 Isaac.blockCore64 r).2 ops
  | .u64 :: ops => run64 (BlockRng64.nextU64 Isaac.blockCore64 r).2 ops
  | .fill n :: ops => run64 (BlockRng64.fillBytes Isaac.blockCore64 n r).2 ops

theorem inv32_run (r : Isaac.Rng32) (h : Inv32 r) (ops : List Op) : Inv32 (run32 r ops) := by
  induction ops generalizing r with
  | nil => exact h
  | cons op ops ih =>
    cases op with
    | u32 => exact ih _ (inv32_nextU32 r h)
    | u64 => exact ih _ (inv32_nextU64 r h)
    | fill n => exact ih _ (inv32_fillBytes n r h)

theorem inv64_run (r : Isaac.Rng64) (h : Inv64 r) (ops : List Op) : Inv64 (run64 r ops) := by
  induction ops generalizing r with
  | nil => exact h
  | cons op ops ih =>
    cases op with
    | u32 => exact ih _ (inv64_nextU32 r h)
    | u64 => exact ih _ (inv64_nextU64 r h)
    | fill n => exact ih _ (inv64_fillBytes n r h)

/-- **IsaacRng, the property as stated**: for every seed and every operation history, the
    snapshot taken after the history deserialises to the very same state (whatever follows the
    image in the input), hence to a generator with the same future. -/
theorem isaac32_snapshot_roundtrip (seed : List U8) (history : List Op) (rest : List U8) :
    deIsaac32 (serIsaac32 (run32 (Isaac.fromSeed32 seed) history) ++ rest)
      = some (run32 (Isaac.fromSeed32 seed) history, rest) :=
  rt_isaac32 _ (inv32_run _ (inv32_fromSeed seed) history).fits rest

/-- **Isaac64Rng, the property as stated** (includes snapshots with a half-consumed word:
    any history ending in `next_u32`). -/
theorem isaac64_snapshot_roundtrip (seed : List U8) (history : List Op) (rest : List U8) :
    deIsaac64 (serIsaac64 (run64 (Isaac.fromSeed64 seed) history) ++ rest)
      = some (run64 (Isaac.fromSeed64 seed) history, rest) :=
  rt_isaac64 _ (inv64_run _ (inv64_fromSeed seed) history).fits rest

/-- the hypotheses are satisfiable: freshly constructed generators -/
example (seed : List U8) : Fits32 (Isaac.fromSeed32 seed) := (inv32_fromSeed seed).fits
example (seed : List U8) : Fits64 (Isaac.fromSeed64 seed) := (inv64_fromSeed seed).fits
example (seed : List U8) : deIsaac32 (serIsaac32 (Isaac.fromSeed32 seed)) = some (Isaac.fromSeed32 seed, []) :=
  rt_isaac32.exact _ (inv32_fromSeed seed).fits
/-- a snapshot with `half_used = true` is reachable and round-trips -/
example (seed : List U8) :
    (run64 (Isaac.fromSeed64 seed) [.u32]).halfUsed = true ∧
      deIsaac64 (serIsaac64 (run64 (Isaac.fromSeed64 seed) [.u32]))
        = some (run64 (Isaac.fromSeed64 seed) [.u32], []) := by
  refine ⟨?_, rt_isaac64.exact _ (inv64_run _ (inv64_fromSeed seed) [.u32]).fits⟩
  simp [run64, BlockRng64.nextU32, Isaac.fromSeed64, BlockRng64.new]

/-! ## 4. malformed input -/

/-- every input shorter than the image is rejected … -/
theorem short_input_rejected (bs : List U8) :
    (bs.length < 8 → deSplitMix bs = none) ∧ (bs.length < 8 → deS2_32 bs = none) ∧
    (bs.length < 16 → deS2_64 bs = none) ∧ (bs.length < 16 → deS4_32 bs = none) ∧
    (bs.length < 32 → deS4_64 bs = none) ∧ (bs.length < 64 → deS8 bs = none) ∧
    (bs.length < 2068 → deIsaac32 bs = none) ∧ (bs.length < 4129 → deIsaac64 bs = none) :=
  ⟨(exact_deU64 bs).1, deS2_32_short bs, deS2_64_short bs, deS4_32_short bs, deS4_64_short bs,
    deS8_short bs, deIsaac32_short bs, deIsaac64_short bs⟩

/-- … in particular every proper prefix of an image -/
theorem truncated_S4_32_rejected (s : S4 32) (k : Nat) (hk : k < (serS4_32 s).length) :
    deS4_32 ((serS4_32 s).take k) = none := by
  apply deS4_32_short
  have : (serS4_32 s).length = 16 := rfl
  rw [List.length_take]; omega

theorem truncated_S8_rejected (s : S8) (k : Nat) (hk : k < (serS8 s).length) :
    deS8 ((serS8 s).take k) = none := by
  apply deS8_short
  have : (serS8 s).length = 64 := rfl
  rw [List.length_take]; omega

theorem truncated_isaac32_rejected (r : Isaac.Rng32) (h : Fits32 r) (k : Nat)
    (hk : k < (serIsaac32 r).length) : deIsaac32 ((serIsaac32 r).take k) = none := by
  apply deIsaac32_short
  rw [serIsaac32_length r h] at hk
  rw [List.length_take, serIsaac32_length r h]; omega

theorem truncated_isaac64_rejected (r : Isaac.Rng64) (h : Fits64 r) (k : Nat)
    (hk : k < (serIsaac64 r).length) : deIsaac64 ((serIsaac64 r).take k) = none := by
  apply deIsaac64_short
  rw [serIsaac64_length r h] at hk
  rw [List.length_take, serIsaac64_length r h]; omega

/-- an ISAAC-64 image whose `half_used` byte is neither 0 nor 1 is rejected -/
theorem isaac64_bad_bool_rejected (results : List U64) (hres : results.length = 256) (index : Nat)
    (hidx : index < 2 ^ 64) (b : U8) (h0 : b ≠ 0) (h1 : b ≠ 1) (tail : List U8) :
    deIsaac64 (serU64s results ++ serUsize index ++ [b] ++ tail) = none :=
  deIsaac64_badBool results hres index hidx b h0 h1 tail

end Rngs.C11
