/-
  C12 — JitterRng is a deterministic function of the values its timer returns, namely the
  Jitterentropy 2.1.0 collection procedure documented in the crate, run on the same readings.

  * `Rngs.Model.Jitter` is the executable transliteration of rand_jitter/src/lib.rs (monadic,
    with a fuel-bounded retry loop), tied to the Rust crate by differential testing.
  * `Rngs.Spec.JitterProc` is the documented procedure as a pure list program: readings →
    time stamps → 32-bit deltas → first/second differences → stuck flags → shortest prefix with
    `rounds` accepted measurements → LFSR fold (+ rotate 7 on accepted) → stir; the number of
    readings consumed is computed arithmetically.
  * Here: the two agree, for every state, every reading list (monotonic or not) and every
    sequence of operations — results, new state, and remaining readings (hence the number of
    readings consumed).  `none`/`blocked` on one side iff on the other.

  `abs j = ⟨j.data, j.rounds, j.halfUsed⟩` forgets `memPrevIndex`, which only selects the scratch
  byte the memory-access noise source touches; every theorem below therefore also says that
  no result depends on it (`memPrevIndex_irrelevant`).
-/
import Rngs.Lib.JitterRefine
namespace Rngs.C12
open Rngs Rngs.Spec Rngs.JitterRefine
open JitterProc (Op Res Halt)

/-! ## one collection -/

/-- `gen_entropy`, from *every* model state and on *every* reading list, is one collection of
    the documented procedure on `(pool, rounds, readings)`: the same `some`/`none`, the same
    returned value, the same new pool (= the value), `rounds` and the pending flag unchanged,
    the same remaining readings.  (The model's fuel `remaining readings + 1` never runs out
    before the readings do: `JitterRefine.collect_eq`.) -/
theorem genEntropy_eq_spec (j : Jitter.Rng) (rs : List U64) :
    ((Jitter.genEntropy j).run rs).map (fun r => (r.1.1, abs r.1.2, r.2)) =
    (JitterProc.collect j.data j.rounds rs).map fun r =>
      (r.1, (⟨r.1, j.rounds, j.halfUsed⟩ : JitterProc.St), r.2) :=
  genEntropy_eq j rs

/-- The timer script is too short for `gen_entropy` exactly when the readings do not contain a
    priming measurement followed by `rounds` measurements that pass the stuck test. -/
theorem genEntropy_none_iff (j : Jitter.Rng) (rs : List U64) :
    (Jitter.genEntropy j).run rs = none ↔
      (JitterProc.measurements rs = [] ∨ accepted (JitterProc.measurements rs).tail < j.rounds) := by
  have h := genEntropy_eq j rs
  have hn : (Jitter.genEntropy j).run rs = none ↔ JitterProc.collect j.data j.rounds rs = none := by
    show Jitter.genEntropy j rs = none ↔ _
    constructor
    · intro h0; rw [h0] at h; simpa using h.symm
    · intro h0; rw [h0] at h; simpa using h
  rw [hn]
  unfold JitterProc.collect
  rcases JitterProc.measurements rs with _ | ⟨prime, ms⟩
  · simp
  · simp [untilAccepted_none]

/-- A successful `gen_entropy`, spelled out: the value is the stirred fold of the pool over the
    priming measurement and the shortest run of further measurements containing `rounds`
    accepted ones; exactly `1 + 3·(1 + that many)` readings are consumed. -/
theorem genEntropy_some (j : Jitter.Rng) (rs : List U64) (v : U64) (j' : Jitter.Rng) (rs' : List U64)
    (h : (Jitter.genEntropy j).run rs = some ((v, j'), rs')) :
    ∃ prime ms taken,
      JitterProc.measurements rs = prime :: ms ∧
      JitterProc.untilAccepted j.rounds ms = some taken ∧
      v = JitterProc.stir ((prime :: taken).foldl JitterProc.absorb j.data) ∧
      j'.data = v ∧ j'.rounds = j.rounds ∧ j'.halfUsed = j.halfUsed ∧
      rs' = rs.drop (1 + 3 * (1 + taken.length)) ∧
      rs.length = rs'.length + (1 + 3 * (1 + taken.length)) := by
  have he := genEntropy_eq j rs
  rw [show Jitter.genEntropy j rs = some ((v, j'), rs') from h] at he
  rcases hc : JitterProc.collect j.data j.rounds rs with _ | ⟨v0, r0⟩
  · rw [hc] at he; simp at he
  · rw [hc] at he
    simp only [Option.map_some, Option.some.injEq, Prod.mk.injEq, abs, JitterProc.St.mk.injEq] at he
    obtain ⟨hv, ⟨hd, hr, hh⟩, hrs⟩ := he
    subst hv hrs
    obtain ⟨prime, ms, taken, h1, h2, h3, h4, h5⟩ := collect_some _ _ _ _ _ hc
    exact ⟨prime, ms, taken, h1, h2, h3, hd, hr, hh, h4, h5⟩

/-! ## what "until `rounds` measurements are accepted" means -/

/-- `untilAccepted n ms = some l`: `l` is a prefix of `ms`, contains exactly `n` accepted
    measurements, is `n + (number of stuck ones)` long, and no shorter prefix contains `n`
    accepted ones — so `l.length` is the least `m` such that the first `m` measurements after
    the priming one contain `rounds` non-stuck ones. -/
theorem untilAccepted_least (n : Nat) (ms l : List JitterProc.Meas)
    (h : JitterProc.untilAccepted n ms = some l) :
    l = ms.take l.length ∧ l.length ≤ ms.length ∧ accepted l = n ∧ l.length = n + skipped l ∧
      ∀ k, k < l.length → accepted (l.take k) < n :=
  untilAccepted_some ms n l h

/-- … and there is no such prefix exactly when `ms` contains fewer than `n` accepted ones. -/
theorem untilAccepted_none_iff (n : Nat) (ms : List JitterProc.Meas) :
    JitterProc.untilAccepted n ms = none ↔ accepted ms < n :=
  untilAccepted_none ms n

/-! ## the LFSR and the stir step of the code are the documented ones -/

/-- the crate's `fn lfsr` is the documented bit-by-bit fold: LSB first; the bit, then taps
    63, 60, 55, 30, 27, 22 xored into bit 0 one after another; rotate left by one -/
theorem lfsr_eq_spec (data time : U64) : Jitter.lfsr data time = JitterProc.lfsr data time :=
  lfsr_eq data time

/-- the branch-free `stir_pool` is the documented "if bit i is set, xor the constant" loop -/
theorem stir_eq_spec (data : U64) : Jitter.stir data = JitterProc.stir data :=
  stir_eq data

/-! ## the operations -/

/-- `next_u64` -/
theorem nextU64_eq_spec (j : Jitter.Rng) (rs : List U64) :
    obs ((Jitter.nextU64 j).run rs) = JitterProc.nextU64 (abs j) rs :=
  nextU64_eq j rs

/-- `next_u32`: low half of a fresh collection, or — if a half is pending — the high half of
    the pool, without reading the timer -/
theorem nextU32_eq_spec (j : Jitter.Rng) (rs : List U64) :
    obs ((Jitter.nextU32 j).run rs) = JitterProc.nextU32 (abs j) rs :=
  nextU32_eq j rs

/-- `fill_bytes` of an `n`-byte buffer, every `n` -/
theorem fill_eq_spec (n : Nat) (j : Jitter.Rng) (rs : List U64) :
    obs ((Jitter.fill n j).run rs) = JitterProc.fillBytes n (abs j) rs :=
  fill_eq n j rs

/-- `timer_stats(b)` -/
theorem timerStats_eq_spec (j : Jitter.Rng) (b : Bool) (rs : List U64) :
    obs ((Jitter.timerStats j b).run rs) = JitterProc.timerStats b (abs j) rs :=
  timerStats_eq j b rs

/-- `set_rounds(r)` (reads no timer; asserts `r > 0`) -/
theorem setRounds_eq_spec (j : Jitter.Rng) (r : Nat) :
    (Jitter.setRounds j r).map abs = JitterProc.setRounds r (abs j) :=
  setRounds_eq j r

/-- two `next_u32` in a row: the second returns the high half of the value whose low half the
    first returned, and reads no timer -/
theorem nextU32_twice (j : Jitter.Rng) (rs : List U64) (lo : U32) (j' : Jitter.Rng) (rs' : List U64)
    (hp : j.halfUsed = false) (h : (Jitter.nextU32 j).run rs = some ((lo, j'), rs')) :
    ∃ v rest0, JitterProc.collect j.data j.rounds rs = some (v, rest0) ∧ rest0 = rs' ∧
      lo = v.setWidth 32 ∧
      (Jitter.nextU32 j').run rs' = some (((v >>> 32).setWidth 32, { j' with halfUsed := false }), rs') := by
  have he := nextU32_eq j rs
  rw [show Jitter.nextU32 j rs = some ((lo, j'), rs') from h] at he
  unfold JitterProc.nextU32 at he
  simp only [abs, hp, Bool.false_eq_true, if_false] at he
  rcases hc : JitterProc.collect j.data j.rounds rs with _ | ⟨v, r0⟩
  · rw [hc] at he; simp [obs] at he
  · rw [hc] at he
    simp only [obs, Option.map_some, Option.some.injEq, Prod.mk.injEq, abs,
      JitterProc.St.mk.injEq] at he
    obtain ⟨hlo, ⟨hd, _, hh⟩, hrs⟩ := he
    refine ⟨v, r0, rfl, hrs.symm, hlo, ?_⟩
    show Jitter.nextU32 j' rs' = _
    rw [nextU32_unfold, hh, hd]
    rfl

/-! ## every sequence of operations -/

/-- one operation, from every state, on every reading list -/
theorem step_eq_spec (op : Op) (j : Jitter.Rng) (rs : List U64) :
    absOut (stepModel op j rs) = JitterProc.stepSpec op (abs j) rs :=
  step_eq op j rs

/-- **C12.**  For every sequence of `next_u32`, `next_u64`, `fill_bytes n`, `timer_stats b`,
    `set_rounds r` calls, every starting state and every list of timer readings: the model
    produces the results of the documented procedure, ends in the same observable state, and
    leaves the same readings unread (so it has consumed the same number); it blocks on an
    exhausted timer script, or panics in `set_rounds(0)`, exactly when the procedure does. -/
theorem run_eq_spec (ops : List Op) (j : Jitter.Rng) (rs : List U64) :
    absOut (runModel ops j rs) = JitterProc.runSpec ops (abs j) rs :=
  run_eq ops j rs

/-- the scratch-memory index never influences a result, the pool, or the number of readings -/
theorem memPrevIndex_irrelevant (ops : List Op) (j₁ j₂ : Jitter.Rng) (rs : List U64)
    (h : abs j₁ = abs j₂) : absOut (runModel ops j₁ rs) = absOut (runModel ops j₂ rs) := by
  rw [run_eq, run_eq, h]

/-- the readings left over by a run are a suffix of the readings supplied: "the number of
    readings consumed" is `rs.length - rs'.length`, and the consumed ones are the first ones -/
theorem run_consumes_prefix (ops : List Op) (j : Jitter.Rng) (rs : List U64) (res : List Res)
    (j' : Jitter.Rng) (rs' : List U64) (h : runModel ops j rs = .ok (res, j', rs')) :
    ∃ used, rs = used ++ rs' := by
  have he := run_eq ops j rs
  rw [h] at he
  obtain ⟨used, hu⟩ := runSpec_suffix (res := res) (st' := abs j') (rs' := rs') ops he.symm
  exact ⟨used, hu.symm⟩

/-! ## number of timer readings per 64-bit result -/

/-- A successful `next_u64` has read the timer exactly `1 + 3·(1 + rounds + s)` times, where `s`
    is the number of stuck measurements it skipped: one priming reading, then three readings for
    the priming measurement, for each of the `rounds` accepted measurements, and for each
    skipped one. -/
theorem nextU64_readings (j : Jitter.Rng) (rs : List U64) (v : U64) (j' : Jitter.Rng) (rs' : List U64)
    (h : (Jitter.nextU64 j).run rs = some ((v, j'), rs')) :
    ∃ prime ms taken,
      JitterProc.measurements rs = prime :: ms ∧
      JitterProc.untilAccepted j.rounds ms = some taken ∧
      accepted taken = j.rounds ∧
      rs' = rs.drop (1 + 3 * (1 + j.rounds + skipped taken)) ∧
      rs.length = rs'.length + (1 + 3 * (1 + j.rounds + skipped taken)) := by
  obtain ⟨prime, ms, taken, h1, h2, _, _, _, _, h4, h5⟩ :=
    genEntropy_some { j with halfUsed := false } rs v j' rs' h
  obtain ⟨_, _, h6, h7, _⟩ := untilAccepted_some ms _ taken h2
  dsimp only at h2 h6 h7
  refine ⟨prime, ms, taken, h1, h2, h6, ?_, ?_⟩
  · rw [h4, h7, Nat.add_assoc]
  · rw [h5, h7, Nat.add_assoc]

/-- … in particular at least `1 + 3·(1 + rounds)`: the rounds loop cannot be cut short. -/
theorem nextU64_readings_ge (j : Jitter.Rng) (rs : List U64) (v : U64) (j' : Jitter.Rng) (rs' : List U64)
    (h : (Jitter.nextU64 j).run rs = some ((v, j'), rs')) :
    rs'.length + (1 + 3 * (1 + j.rounds)) ≤ rs.length := by
  obtain ⟨_, _, taken, _, _, _, _, h5⟩ := nextU64_readings j rs v j' rs' h
  omega

/-! ## non-vacuity -/

/-- The specification, evaluated: `rounds = 2`, readings with deltas 5, 12, 12 (stuck: first
    difference zero), 31: 13 readings are consumed, 5 are left. -/
example :
    JitterProc.collect 0 2 [100, 0, 105, 0, 0, 117, 0, 0, 129, 0, 0, 160, 0, 0, 193, 0, 7, 8]
      = some (0x97a3828701143341#64, [0, 193, 0, 7, 8]) := by
  set_option maxRecDepth 100000 in decide +kernel

/-- … and the model on the same readings (follows from the theorems; evaluated independently) -/
example :
    ((Jitter.genEntropy { Jitter.newWithTimer with rounds := 2 }).run
        [100, 0, 105, 0, 0, 117, 0, 0, 129, 0, 0, 160, 0, 0, 193, 0, 7, 8]).map
      (fun r => (r.1.1, r.2)) = some (0x97a3828701143341#64, [0, 193, 0, 7, 8]) := by
  set_option maxRecDepth 100000 in decide +kernel

/-- a whole operation sequence on the specification: `set_rounds(1)`; `next_u32` (7 readings);
    `next_u32` (the pending high half, no reading); `timer_stats(false)` (2 readings) -/
example :
    (JitterProc.runSpec [.setRounds 1, .nextU32, .nextU32, .timerStats false]
        ⟨0, 64, false⟩ [1, 0, 4, 0, 0, 9, 0, 50, 57, 99]).toOption.map (fun r => (r.1, r.2.2))
      = some ([.unit, .u32 0x20310f3a#32, .u32 0x8e4823bf#32, .stats 7#64], [99]) := by
  set_option maxRecDepth 100000 in decide +kernel

example : JitterProc.runSpec [.setRounds 0] ⟨0, 64, false⟩ [1] = .error .panicked := rfl
example : JitterProc.runSpec [.nextU64] ⟨0, 1, false⟩ [1, 2, 3, 4, 5, 6] = .error .blocked := rfl

end Rngs.C12
