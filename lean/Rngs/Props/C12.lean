import Rngs.Model.Xoshiro
namespace Rngs.C12
theorem placeholder : True := trivial
end Rngs.C12
