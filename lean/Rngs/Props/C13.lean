/-
  C13 — `test_timer` returns `Ok(r)` only with a usable `r ≥ 1`, and otherwise a `TimerError`
  that names a condition which actually holds.

  `Rngs.Spec.TimerTest` states the documented failure conditions as predicates on the list of
  timer readings (probes = groups of four readings after the initial one; probes 100..399 are
  counted).  Here: for every generator state and every reading list on which `test_timer` does
  not run out of readings (`= some …`; the real timer never runs out),

  * `ok_sound`   : `Ok(r)` ⟹ 1 ≤ r ≤ 128, r·bitlen(mean) ≥ 128, and no failure condition holds;
  * `err_sound`  : `Err(e)` ⟹ the condition named by `e` holds;
  * `complete`   : some failure condition holds ⟹ `Err(e)` with a condition that holds;
  * `setRounds_of_testTimer` : the idiom `set_rounds(test_timer()?)` never trips `assert!(rounds > 0)`;
  * `readings_consumed` : an `Ok` run read the timer exactly 1 + 4·400 = 1601 times.

  The model reflects the code after the fix `abe6ce0` (TinyVariations is `delta_sum < 2·300`);
  `old_threshold_defect` records why the fix was needed.
-/
import Rngs.Lib.TimerTest
namespace Rngs.C13
open Rngs Rngs.Spec Rngs.Spec.TimerTest Rngs.TimerTestLib

/-! ## the rounds table and the thresholds (on an arbitrary accumulator) -/

/-- `bitlen m` is the number of binary digits of `m` -/
theorem bitlen_digits (m : Nat) (h : 0 < m) : 2 ^ (bitlen m - 1) ≤ m ∧ m < 2 ^ bitlen m :=
  bitlen_spec m h

/-- rows 2..15 of the lookup table: every entry `r` is in 1..128 and `r·bitlen(mean) ≥ 128` -/
theorem rounds_table (m : Nat) (h2 : 2 ≤ m) (h16 : m < 16) :
    1 ≤ Jitter.LOG2_LOOKUP.getD m 0 ∧ Jitter.LOG2_LOOKUP.getD m 0 ≤ 128 ∧
      128 ≤ Jitter.LOG2_LOOKUP.getD m 0 * bitlen m :=
  roundsOf_table m h2 h16

/-- the formula `(128 + L − 1) / L` for `L = bitlen(mean) ≥ 5` (mean ≥ 16): between 1 and 26, the
    `as u8` cast loses nothing, and `r·L ≥ 128` -/
theorem rounds_formula (L : Nat) (h5 : 5 ≤ L) :
    1 ≤ ((64 * 2 + L - 1) / L) % 256 ∧ ((64 * 2 + L - 1) / L) % 256 ≤ 26 ∧
      128 ≤ ((64 * 2 + L - 1) / L) % 256 * L :=
  roundsOf_formula L h5

/-- the estimate computed from any `delta_sum ≥ 600` is usable -/
theorem roundsOf_usable (deltaSum : Nat) (h : 2 * Jitter.TESTLOOPCOUNT ≤ deltaSum) :
    1 ≤ Jitter.roundsOf deltaSum ∧ Jitter.roundsOf deltaSum ≤ 128 ∧
      128 ≤ Jitter.roundsOf deltaSum * bitlen (deltaSum / Jitter.TESTLOOPCOUNT) :=
  roundsOf_sound deltaSum h

/-- why the `TinyVariations` threshold must be `2·300`: with the old threshold (`< 300`) a
    `delta_sum` in 300..599 reached the table row for mean 1, which is 0 -/
theorem old_threshold_defect : ∀ ds, 300 ≤ ds → ds < 600 → Jitter.roundsOf ds = 0 := by
  intro ds h1 h2
  have : ds / Jitter.TESTLOOPCOUNT = 1 := by
    unfold Jitter.TESTLOOPCOUNT; omega
  unfold Jitter.roundsOf
  rw [this]; rfl

/-- `verdict = Ok(r)`: none of the four thresholds is exceeded, and `r` is the estimate -/
theorem verdict_ok_sound (p : Jitter.Probe) (r : Nat) (h : Jitter.verdict p = .ok r) :
    ¬ p.timeBackwards > 3 ∧ ¬ p.deltaSum < 2 * Jitter.TESTLOOPCOUNT ∧
      ¬ p.countMod > Jitter.TESTLOOPCOUNT * 9 / 10 ∧ ¬ p.countStuck > Jitter.TESTLOOPCOUNT * 9 / 10 ∧
      r = Jitter.roundsOf p.deltaSum :=
  verdict_ok p r h

/-- `verdict = Err(e)`: the threshold that `e` names is exceeded (and `e` is never `NoTimer`) -/
theorem verdict_error_sound (p : Jitter.Probe) (e : Jitter.TimerError) (h : Jitter.verdict p = .error e) :
    match e with
    | .NoTimer => False
    | .CoarseTimer => p.countMod > Jitter.TESTLOOPCOUNT * 9 / 10
    | .NotMonotonic => p.timeBackwards > 3
    | .TinyVariations => p.deltaSum < 2 * Jitter.TESTLOOPCOUNT
    | .TooManyStuck => p.countStuck > Jitter.TESTLOOPCOUNT * 9 / 10 :=
  verdict_error p e h

/-- `verdict` returns `Ok` exactly when no threshold is exceeded -/
theorem verdict_ok_iff_no_threshold (p : Jitter.Probe) :
    (∃ r, Jitter.verdict p = .ok r) ↔
      (¬ p.timeBackwards > 3 ∧ ¬ p.deltaSum < 2 * Jitter.TESTLOOPCOUNT ∧
        ¬ p.countMod > Jitter.TESTLOOPCOUNT * 9 / 10 ∧ ¬ p.countStuck > Jitter.TESTLOOPCOUNT * 9 / 10) :=
  verdict_ok_iff p

/-- `Ok(r)` from `verdict` always has `1 ≤ r ≤ 128` -/
theorem verdict_ok_rounds (p : Jitter.Probe) (r : Nat) (h : Jitter.verdict p = .ok r) :
    1 ≤ r ∧ r ≤ 128 ∧ 128 ≤ r * bitlen (p.deltaSum / Jitter.TESTLOOPCOUNT) := by
  obtain ⟨_, b, _, _, hr⟩ := verdict_ok p r h
  rw [hr]
  exact roundsOf_sound p.deltaSum (by omega)

/-! ## `test_timer` on the readings -/

/-- what the loop accumulates is what the specification counts: when all 400 probes pass the
    zero checks, `test_timer`'s answer is `verdict` of the specification's quantities -/
theorem testTimer_is_verdict_of_spec (j : Jitter.Rng) (rs : List U64) (res : Except Jitter.TimerError Nat)
    (j' : Jitter.Rng) (rs' : List U64) (h : (Jitter.testTimer j).run rs = some ((res, j'), rs'))
    (hz : ¬ ZeroReading rs) (hd : ¬ ZeroDelta rs) :
    ∃ P : Jitter.Probe, res = Jitter.verdict P ∧ P.timeBackwards = backwards rs ∧
      P.countMod = mod100 rs ∧ P.deltaSum = deltaSum rs ∧ P.countStuck = stuckCount rs := by
  obtain ⟨t0, rest, _, hcase⟩ := testTimer_some j rs res j' rs' h
  rcases hcase with ⟨e, hs, _⟩ | ⟨P, hs, hres, _, _⟩
  · have := scan_error_spec t0 rs e hs
    rcases scan_error _ _ _ _ _ hs with ⟨he, pr, hpr, hzz⟩ | ⟨he, pr, hpr, hzz⟩
    · exact absurd ⟨pr, hpr, hzz⟩ hz
    · exact absurd ⟨pr, hpr, (delta_zero_iff pr).mpr hzz⟩ hd
  · obtain ⟨_, _, a, b, c, d⟩ := scan_ok_spec t0 rs P hs
    exact ⟨P, hres, a, b, c, d⟩

/-- **`Ok(r)` is sound.** -/
theorem ok_sound (j : Jitter.Rng) (rs : List U64) (r : Nat) (j' : Jitter.Rng) (rs' : List U64)
    (h : (Jitter.testTimer j).run rs = some ((.ok r, j'), rs')) :
    1 ≤ r ∧ r ≤ 128 ∧ 128 ≤ r * bitlen (mean rs) ∧
      ¬ ZeroReading rs ∧ ¬ ZeroDelta rs ∧ ¬ Backwards rs ∧ ¬ Tiny rs ∧ ¬ Mod100 rs ∧ ¬ Stuck rs := by
  obtain ⟨t0, rest, _, hcase⟩ := testTimer_some j rs _ j' rs' h
  rcases hcase with ⟨e, _, hres⟩ | ⟨P, hs, hres, _, _⟩
  · cases hres
  · obtain ⟨hz, hd, a, b, c, d⟩ := scan_ok_spec t0 rs P hs
    obtain ⟨v1, v2, v3, v4, hr⟩ := verdict_ok P r hres.symm
    obtain ⟨r1, r2, r3⟩ := roundsOf_sound P.deltaSum (by omega)
    rw [← hr] at r1 r2 r3
    rw [c] at r3
    rw [a] at v1; rw [c] at v2; rw [b] at v3; rw [d] at v4
    refine ⟨r1, r2, r3, hz, hd, v1, ?_, v3, v4⟩
    unfold Tiny mean
    rw [Nat.div_lt_iff_lt_mul (by decide)]
    exact v2

/-- **`Err(e)` is sound**: the error names a condition that actually holds. -/
theorem err_sound (j : Jitter.Rng) (rs : List U64) (e : Jitter.TimerError) (j' : Jitter.Rng) (rs' : List U64)
    (h : (Jitter.testTimer j).run rs = some ((.error e, j'), rs')) : holds e rs := by
  obtain ⟨t0, rest, _, hcase⟩ := testTimer_some j rs _ j' rs' h
  rcases hcase with ⟨e', hs, hres⟩ | ⟨P, hs, hres, _, _⟩
  · cases hres
    exact scan_error_spec t0 rs e hs
  · obtain ⟨_, _, a, b, c, d⟩ := scan_ok_spec t0 rs P hs
    have hv := verdict_error P e hres.symm
    cases e with
    | NoTimer => exact absurd hv id
    | CoarseTimer => exact Or.inr (by unfold Mod100; rw [← b]; exact hv)
    | NotMonotonic => unfold holds Backwards; rw [← a]; exact hv
    | TinyVariations =>
      unfold holds Tiny mean
      rw [Nat.div_lt_iff_lt_mul (by decide), ← c]; exact hv
    | TooManyStuck => unfold holds Stuck; rw [← d]; exact hv

/-- **Completeness**: whenever a documented failure condition holds, `test_timer` returns `Err`,
    and with an error whose condition holds. -/
theorem complete (j : Jitter.Rng) (rs : List U64) (res : Except Jitter.TimerError Nat) (j' : Jitter.Rng)
    (rs' : List U64) (h : (Jitter.testTimer j).run rs = some ((res, j'), rs'))
    (hf : ZeroReading rs ∨ ZeroDelta rs ∨ Backwards rs ∨ Tiny rs ∨ Mod100 rs ∨ Stuck rs) :
    ∃ e, res = .error e ∧ holds e rs := by
  rcases res with e | r
  · exact ⟨e, rfl, err_sound j rs e j' rs' h⟩
  · obtain ⟨_, _, _, n1, n2, n3, n4, n5, n6⟩ := ok_sound j rs r j' rs' h
    rcases hf with f | f | f | f | f | f
    · exact absurd f n1
    · exact absurd f n2
    · exact absurd f n3
    · exact absurd f n4
    · exact absurd f n5
    · exact absurd f n6

/-- `Ok` exactly when no failure condition holds -/
theorem ok_iff_no_failure (j : Jitter.Rng) (rs : List U64) (res : Except Jitter.TimerError Nat)
    (j' : Jitter.Rng) (rs' : List U64) (h : (Jitter.testTimer j).run rs = some ((res, j'), rs')) :
    (∃ r, res = .ok r) ↔ ¬ AnyFailure rs := by
  constructor
  · rintro ⟨r, rfl⟩ hf
    obtain ⟨e, he, _⟩ := complete j rs _ j' rs' h hf
    cases he
  · intro hn
    rcases res with e | r
    · have := err_sound j rs e j' rs' h
      exfalso; apply hn
      unfold AnyFailure
      cases e with
      | NoTimer => exact Or.inl this
      | CoarseTimer =>
        rcases this with t | t
        · exact Or.inr (Or.inl t)
        · exact Or.inr (Or.inr (Or.inr (Or.inr (Or.inl t))))
      | NotMonotonic => exact Or.inr (Or.inr (Or.inl this))
      | TinyVariations => exact Or.inr (Or.inr (Or.inr (Or.inl this)))
      | TooManyStuck => exact Or.inr (Or.inr (Or.inr (Or.inr (Or.inr this))))
    · exact ⟨r, rfl⟩

/-- the documented idiom `rng.set_rounds(rng.test_timer()?)` (also used by `JitterRng::new`)
    never trips `assert!(rounds > 0)` -/
theorem setRounds_of_testTimer (j : Jitter.Rng) (rs : List U64) (r : Nat) (j' : Jitter.Rng) (rs' : List U64)
    (h : (Jitter.testTimer j).run rs = some ((.ok r, j'), rs')) :
    Jitter.setRounds j' r = some { j' with rounds := r } ∧ r ≤ 255 := by
  obtain ⟨h1, h2, _⟩ := ok_sound j rs r j' rs' h
  refine ⟨?_, by omega⟩
  unfold Jitter.setRounds
  simp [show r > 0 from h1]

/-- an `Ok` run (indeed every run that reaches the checks after the loop) has read the timer
    exactly 1 + 4·400 = 1601 times -/
theorem readings_consumed (j : Jitter.Rng) (rs : List U64) (r : Nat) (j' : Jitter.Rng) (rs' : List U64)
    (h : (Jitter.testTimer j).run rs = some ((.ok r, j'), rs')) :
    rs.length = rs'.length + 1601 ∧ (probes rs).length = 400 := by
  obtain ⟨t0, rest, _, hcase⟩ := testTimer_some j rs _ j' rs' h
  rcases hcase with ⟨e, _, hres⟩ | ⟨P, _, _, hl, hc⟩
  · cases hres
  · exact ⟨hc, hl⟩

/-! ## non-vacuity -/

/-- a timer script that passes: probe `i` starts at 1000·(i+1) and lasts 5 + (i² mod 23) -/
def script : List U64 :=
  1 :: (List.range 400).flatMap fun i =>
    [BitVec.ofNat 64 (1000 * (i + 1)), 0, 0, BitVec.ofNat 64 (1000 * (i + 1) + 5 + i * i % 23)]

/-- `test_timer` on it: `Ok(50)`, all 1601 readings consumed -/
example : ((Jitter.testTimer Jitter.newWithTimer).run script).map
    (fun r => (r.1.1.toOption, r.2.length)) = some (some 50, 0) := by
  set_option maxRecDepth 1000000 in decide +kernel

/-- the specification's quantities on it: mean 6 (three binary digits, 50·3 ≥ 128), nothing
    backwards, no multiple of 100, 13 stuck probes -/
example : (deltaSum script, mean script, bitlen (mean script), backwards script, mod100 script,
    stuckCount script) = (2051, 6, 3, 0, 0, 13) := by
  set_option maxRecDepth 1000000 in decide +kernel

/-- a script whose every probe reads the same value twice fails with `CoarseTimer` at once -/
example : ((Jitter.testTimer Jitter.newWithTimer).run [1, 7, 0, 0, 7]).map
    (fun r => (r.1.1 matches .error .CoarseTimer, r.2.length)) = some (true, 0) := by
  set_option maxRecDepth 100000 in decide +kernel

end Rngs.C13
