import Rngs.Model.Xoshiro
namespace Rngs.C13
theorem placeholder : True := trivial
end Rngs.C13
