import Rngs.Lib.CheckedLemmas
import Rngs.Checked.RandCore
namespace Rngs.C14
end Rngs.C14
