import Rngs.Model.Xoshiro
namespace Rngs.C14
theorem placeholder : True := trivial
end Rngs.C14
