/-
  Rngs.Props.C14 — "No public operation of any generator in the five crates panics, trips an
  arithmetic-overflow check or indexes out of bounds, for any seed bytes, any u64 seed, any
  fill_bytes length including 0, any operation history, any source RNG, and for JitterRng
  any sequence of timer readings whatsoever.  The only documented panic is set_rounds(0); a
  JitterRng output call may fail to return while its timer stays stuck, but it never panics."

  METHOD.  `Rngs/Model` is total (out-of-bounds reads give a default, arithmetic is on `Nat`).
  `Rngs/Checked/*.lean` re-states every model function that contains a partial Rust
  operation in `Except Panic`, with each check (`rdC`, `wrC`, `addC`, `subC`, `assertC`,
  `sliceC`, `copyLenC`, `divC`, `shiftAmtC`, …, see `Rngs/Checked/Basic.lean`) written at the
  place where the Rust source has the operation.  The theorems below have the shape
      `Checked.f x = .ok (Model.f x)`   (+ preservation of the data-structure invariant)
  for ALL inputs satisfying the invariant; the invariants are explicit predicates
  (`BlockRng.Inv`, `BlockRng64.Inv`, `Hc128.CoreInv`, `Isaac.CoreInv`, `Jitter.Inv`), shown
  to hold for every constructor and to be preserved by every operation.

  STANDING ASSUMPTIONS (facts about Rust, stated as hypotheses where used):
    * a `fill_bytes` destination is a slice, so its length `n` is a `usize`: `n < 2^64`;
    * a seed passed to `from_seed` is an array `[u8; N]`: `seed.length = N`;
    * a source RNG (`SourceWF`) fills exactly the buffer it is handed (it may fail, and it
      may return any bytes);
    * `BlockRng<R>::next_u64` calls `generate_and_set(2)`, whose `assert!(index < len)` needs
      a results buffer of more than 2 words (`BlockOK.len_gt`; 16 for HC-128, 256 for ISAAC).

  NOT COVERED: nothing from the C14 task list.  Remarks on scope:
    * `BlockRng::generate_and_set(index)` itself is a public rand_core function with a
      documented `assert!(index < len)`; the generators of the five crates keep their
      `BlockRng` private and only call it with 0, 1, 2 (covered).
    * The invariants are established by the constructors and preserved by the operations;
      states produced by serde deserialisation of arbitrary bytes (feature `serde`,
      rand_core's derived `Deserialize` for `BlockRng64`) are outside C14's input list and
      are NOT claimed to satisfy `half_used → 1 ≤ index`.
    * `PartialEq`, `Debug`, `Clone` (`&self.t[..] == &rhs.t[..]`: the full range `[..]`
      cannot fail) have no partial operation.
-/
import Rngs.Lib.CheckedLemmasHistory
import Rngs.Lib.CheckedLemmasFromRng
import Rngs.Lib.CheckedLemmasJitter
namespace Rngs.C14
open Rngs.Checked

/-! ## 1. rand_core `BlockRng<R>` / `BlockRng64<R>` (generic in the core) -/

section block
variable {σ : Type}

/-- `BlockRng::new` establishes the invariant `index ≤ N ∧ results.len() = N` -/
theorem blockRng_new_inv (c : BlockCore σ 32) (CI : σ → Prop) (core : σ) (h : CI core) :
    Checked.BlockRng.Inv c CI (Rngs.BlockRng.new c core) :=
  Checked.BlockRng.new_inv c CI core h

/-- `BlockRng::next_u32`: `results[self.index]`, `self.index += 1`, `generate_and_set(0)` -/
theorem blockRng_nextU32 {c : BlockCore σ 32} {cC : BlockCoreC σ 32} {CI : σ → Prop}
    (ok : BlockOK c cC CI) (r : Rngs.BlockRng σ) (h : Checked.BlockRng.Inv c CI r) :
    Checked.BlockRng.nextU32 cC r = .ok (r.nextU32 c) ∧ Checked.BlockRng.Inv c CI (r.nextU32 c).2 :=
  Checked.BlockRng.nextU32_ok ok r h

/-- `BlockRng::next_u64`, all three branches: `len - 1`, `results[index..=index+1]`,
    `results[len - 1]`, `results[0]`, `generate_and_set(1)`, `generate_and_set(2)` -/
theorem blockRng_nextU64 {c : BlockCore σ 32} {cC : BlockCoreC σ 32} {CI : σ → Prop}
    (ok : BlockOK c cC CI) (r : Rngs.BlockRng σ) (h : Checked.BlockRng.Inv c CI r) :
    Checked.BlockRng.nextU64 cC r = .ok (r.nextU64 c) ∧ Checked.BlockRng.Inv c CI (r.nextU64 c).2 :=
  Checked.BlockRng.nextU64_ok ok r h

/-- `BlockRng::fill_bytes` for every destination length (0 included) -/
theorem blockRng_fillBytes {c : BlockCore σ 32} {cC : BlockCoreC σ 32} {CI : σ → Prop}
    (ok : BlockOK c cC CI) (n : Nat) (hn : n < USIZE) (r : Rngs.BlockRng σ)
    (h : Checked.BlockRng.Inv c CI r) :
    Checked.BlockRng.fillBytes cC n r = .ok (r.fillBytes c n) ∧ Checked.BlockRng.Inv c CI (r.fillBytes c n).2 :=
  Checked.BlockRng.fillBytes_ok ok n hn r h

/-- any history of `next_u32` / `next_u64` / `fill_bytes(n)` calls on a `BlockRng` -/
theorem blockRng_history {c : BlockCore σ 32} {cC : BlockCoreC σ 32} {CI : σ → Prop}
    (ok : BlockOK c cC CI) (ops : List Op) (hops : ∀ op, op ∈ ops → op.wf)
    (r : Rngs.BlockRng σ) (h : Checked.BlockRng.Inv c CI r) :
    Checked.BlockRng.runC cC ops r = .ok (Checked.BlockRng.runM c ops r) ∧ Checked.BlockRng.Inv c CI (Checked.BlockRng.runM c ops r) :=
  Checked.BlockRng.run_ok ok ops hops r h

/-- `BlockRng64::new` establishes `index ≤ N ∧ results.len() = N ∧ (half_used → 1 ≤ index)` -/
theorem blockRng64_new_inv (c : BlockCore σ 64) (CI : σ → Prop) (core : σ) (h : CI core) :
    Checked.BlockRng64.Inv c CI (Rngs.BlockRng64.new c core) :=
  Checked.BlockRng64.new_inv c CI core h

/-- `BlockRng64::next_u32`: `self.index - self.half_used as usize` does not underflow,
    `32 * (half_used as usize)` is a valid shift amount, `results[index]` is in bounds -/
theorem blockRng64_nextU32 {c : BlockCore σ 64} {cC : BlockCoreC σ 64} {CI : σ → Prop}
    (ok : BlockOK c cC CI) (r : Rngs.BlockRng64 σ) (h : Checked.BlockRng64.Inv c CI r) :
    Checked.BlockRng64.nextU32 cC r = .ok (r.nextU32 c) ∧ Checked.BlockRng64.Inv c CI (r.nextU32 c).2 :=
  Checked.BlockRng64.nextU32_ok ok r h

theorem blockRng64_nextU64 {c : BlockCore σ 64} {cC : BlockCoreC σ 64} {CI : σ → Prop}
    (ok : BlockOK c cC CI) (r : Rngs.BlockRng64 σ) (h : Checked.BlockRng64.Inv c CI r) :
    Checked.BlockRng64.nextU64 cC r = .ok (r.nextU64 c) ∧ Checked.BlockRng64.Inv c CI (r.nextU64 c).2 :=
  Checked.BlockRng64.nextU64_ok ok r h

theorem blockRng64_fillBytes {c : BlockCore σ 64} {cC : BlockCoreC σ 64} {CI : σ → Prop}
    (ok : BlockOK c cC CI) (n : Nat) (hn : n < USIZE) (r : Rngs.BlockRng64 σ)
    (h : Checked.BlockRng64.Inv c CI r) :
    Checked.BlockRng64.fillBytes cC n r = .ok (r.fillBytes c n) ∧ Checked.BlockRng64.Inv c CI (r.fillBytes c n).2 :=
  Checked.BlockRng64.fillBytes_ok ok n hn r h

theorem blockRng64_history {c : BlockCore σ 64} {cC : BlockCoreC σ 64} {CI : σ → Prop}
    (ok : BlockOK c cC CI) (ops : List Op) (hops : ∀ op, op ∈ ops → op.wf)
    (r : Rngs.BlockRng64 σ) (h : Checked.BlockRng64.Inv c CI r) :
    Checked.BlockRng64.runC cC ops r = .ok (Checked.BlockRng64.runM c ops r) ∧
    Checked.BlockRng64.Inv c CI (Checked.BlockRng64.runM c ops r) :=
  Checked.BlockRng64.run_ok ok ops hops r h

end block

/-! ## 2. `impls::fill_via_chunks`, `impls::fill_bytes_via_next` -/

/-- `fill_via_chunks::<u32>` for any source slice and destination length: `num_chunks * size`,
    `byte_len + n`, `to_le_bytes()[..n]`, the `copy_from_slice` lengths -/
theorem fillViaChunks_u32 (src : List U32) (destLen : Nat) (hd : destLen < USIZE)
    (hs : src.length < USIZE) :
    Checked.fillViaChunks 4 U32.toLE src destLen = .ok (Rngs.fillViaChunks 4 U32.toLE src destLen) :=
  fillViaChunks_ok 4 U32.toLE src destLen (by decide) length_U32_toLE hd hs

theorem fillViaChunks_u64 (src : List U64) (destLen : Nat) (hd : destLen < USIZE)
    (hs : src.length < USIZE) :
    Checked.fillViaChunks 8 U64.toLE src destLen = .ok (Rngs.fillViaChunks 8 U64.toLE src destLen) :=
  fillViaChunks_ok 8 U64.toLE src destLen (by decide) length_U64_toLE hd hs

/-- `fill_bytes_via_next` for any generator and any length: `split_at_mut(8)` while
    `len ≥ 8`, `chunk[..n]` with `n ≤ 7` resp. `n ≤ 4` -/
theorem fillBytesViaNext_no_panic {σ : Type} (g : Direct σ) (n : Nat) (s : σ) :
    Checked.fillBytesViaNext g n s = .ok (Rngs.fillBytesViaNext g n s) :=
  fillBytesViaNext_ok g n s

/-! ## 3. `le::read_u32_into`, `le::read_u64_into`: `assert!(src.len() >= 4 * dst.len())` -/

theorem readU32s_no_panic (bs : List U8) (n : Nat) (h : 4 * n ≤ bs.length) (hl : bs.length < USIZE) :
    Checked.readU32s bs n = .ok (Rngs.readU32s bs n) :=
  readU32s_ok bs n h hl

theorem readU64s_no_panic (bs : List U8) (n : Nat) (h : 8 * n ≤ bs.length) (hl : bs.length < USIZE) :
    Checked.readU64s bs n = .ok (Rngs.readU64s bs n) :=
  readU64s_ok bs n h hl

/-- every call site: seed arrays of 8/16 bytes read as 2/4 `u32`; 8/16/32/64 bytes read as
    1/2/4/8 `u64`; HC-128 and ISAAC: 32 bytes as 8 `u32`; ISAAC-64: 32 bytes as 4 `u64` -/
theorem read_into_call_sites (bs : List U8) :
    (bs.length = 8 → Checked.readU32s bs 2 = .ok (Rngs.readU32s bs 2)) ∧
    (bs.length = 16 → Checked.readU32s bs 4 = .ok (Rngs.readU32s bs 4)) ∧
    (bs.length = 32 → Checked.readU32s bs 8 = .ok (Rngs.readU32s bs 8)) ∧
    (bs.length = 8 → Checked.readU64s bs 1 = .ok (Rngs.readU64s bs 1)) ∧
    (bs.length = 16 → Checked.readU64s bs 2 = .ok (Rngs.readU64s bs 2)) ∧
    (bs.length = 32 → Checked.readU64s bs 4 = .ok (Rngs.readU64s bs 4)) ∧
    (bs.length = 64 → Checked.readU64s bs 8 = .ok (Rngs.readU64s bs 8)) := by
  have hU := USIZE_eq
  refine ⟨?_, ?_, ?_, ?_, ?_, ?_, ?_⟩ <;> intro h
  · exact readU32s_ok bs 2 (by omega) (by omega)
  · exact readU32s_ok bs 4 (by omega) (by omega)
  · exact readU32s_ok bs 8 (by omega) (by omega)
  · exact readU64s_ok bs 1 (by omega) (by omega)
  · exact readU64s_ok bs 2 (by omega) (by omega)
  · exact readU64s_ok bs 4 (by omega) (by omega)
  · exact readU64s_ok bs 8 (by omega) (by omega)

/-! ## 4. HC-128 -/

/-- `Hc128Core::generate` for EVERY counter that is a multiple of 16 (no upper bound: also
    right after the 64-bit counter has wrapped, since the model reduces it mod 2^64 and 2^64
    is a multiple of 16): the four `assert!`s, all 80 table indices, `q[a]`, `q[256 + c]`,
    `results[k]`; the invariant (1024-word table, aligned counter) is preserved -/
theorem hc128_generate (c : Rngs.Hc128.Core) (results : Array U32) (hc : Checked.Hc128.CoreInv c)
    (hres : results.size = 16) :
    Checked.Hc128.generate c results = .ok (Rngs.Hc128.generate c results) ∧
    Checked.Hc128.CoreInv (Rngs.Hc128.generate c results).2 ∧
    (Rngs.Hc128.generate c results).1.size = 16 :=
  Checked.Hc128.generate_ok c results hc hres

/-- the counter stays a `usize` and aligned across the wrap-around `wrapping_add(16)` -/
theorem hc128_generate_counter (c : Rngs.Hc128.Core) (results : Array U32)
    (hc : c.counter % 16 = 0) :
    (Rngs.Hc128.generate c results).2.counter < 2 ^ 64 ∧
    (Rngs.Hc128.generate c results).2.counter % 16 = 0 := by
  rw [Checked.Hc128.generate_eq]
  generalize List.foldl _ _ _ = p
  obtain ⟨t, r, k⟩ := p
  simp only [Checked.Hc128.HUSIZE_eq]
  omega

/-- `sixteen_steps`, with its CHECKED `self.counter1024 += 16`, for every aligned counter
    below `usize::MAX - 15` (in `init`: 0, 16, …, 1008): `self.t[cc + k]`,
    `self.t[cc + 512 + k]` and the 80 step indices -/
theorem hc128_sixteenSteps (c : Rngs.Hc128.Core) (hc : Checked.Hc128.CoreInv c)
    (hlt : c.counter + 16 < USIZE) :
    Checked.Hc128.sixteenSteps c = .ok (Rngs.Hc128.sixteenSteps c) ∧
    (Rngs.Hc128.sixteenSteps c).t.size = 1024 ∧
    (Rngs.Hc128.sixteenSteps c).counter = c.counter + 16 :=
  Checked.Hc128.sixteenSteps_ok c hc hlt

/-- `Hc128Core::init` for any 8 seed words: `seed.split_at(4)`, the `copy_from_slice`s,
    `t[i-2]`, `t[i-7]`, `t[i-15]`, `t[i-16]`, `256 + i as u32`, 64 × `sixteen_steps` -/
theorem hc128_init (seed : List U32) (hs : seed.length = 8) :
    Checked.Hc128.init seed = .ok (Rngs.Hc128.init seed) ∧ Checked.Hc128.CoreInv (Rngs.Hc128.init seed) :=
  Checked.Hc128.init_ok seed hs

/-- `Hc128Rng::from_seed` for any 32 seed bytes -/
theorem hc128_fromSeed (seed : List U8) (h : seed.length = 32) :
    Checked.Hc128.fromSeed seed = .ok (Rngs.Hc128.fromSeed seed) ∧ Checked.Hc128.RngInv (Rngs.Hc128.fromSeed seed) :=
  Checked.Hc128.fromSeed_ok seed h

/-- `Hc128Rng::seed_from_u64` for any `u64` -/
theorem hc128_seedFromU64 (x : U64) :
    Checked.Hc128.seedFromU64 x = .ok (Rngs.Hc128.seedFromU64 x) ∧ Checked.Hc128.RngInv (Rngs.Hc128.seedFromU64 x) :=
  Checked.Hc128.seedFromU64_ok x

/-- `Hc128Rng::from_rng` / `try_from_rng` for any source RNG -/
theorem hc128_fromRng {ρ : Type} (fill : TryFill ρ) (hf : SourceWF fill) (src : ρ) :
    Checked.Hc128.fromRng fill src = .ok (Rngs.Hc128.fromRng fill src) ∧
    (∀ r src', Rngs.Hc128.fromRng fill src = (.ok r, src') → Checked.Hc128.RngInv r) :=
  ⟨Checked.Hc128.fromRng_ok fill hf src, fun r src' h => Checked.Hc128.fromRng_inv fill hf src r src' h⟩

theorem hc128_nextU32 (r : Rngs.Hc128.Rng) (h : Checked.Hc128.RngInv r) :
    Checked.Hc128.nextU32 r = .ok (Rngs.Hc128.nextU32 r) ∧ Checked.Hc128.RngInv (Rngs.Hc128.nextU32 r).2 :=
  Checked.Hc128.nextU32_ok r h

theorem hc128_nextU64 (r : Rngs.Hc128.Rng) (h : Checked.Hc128.RngInv r) :
    Checked.Hc128.nextU64 r = .ok (Rngs.Hc128.nextU64 r) ∧ Checked.Hc128.RngInv (Rngs.Hc128.nextU64 r).2 :=
  Checked.Hc128.nextU64_ok r h

theorem hc128_fill (n : Nat) (hn : n < USIZE) (r : Rngs.Hc128.Rng) (h : Checked.Hc128.RngInv r) :
    Checked.Hc128.fill n r = .ok (Rngs.Hc128.fill n r) ∧ Checked.Hc128.RngInv (Rngs.Hc128.fill n r).2 :=
  Checked.Hc128.fill_ok n hn r h

/-- any operation history on an `Hc128Rng` built from any seed -/
theorem hc128_history (seed : List U8) (h : seed.length = 32) (ops : List Op)
    (hops : ∀ op, op ∈ ops → op.wf) :
    Checked.BlockRng.runC Checked.Hc128.blockCoreC ops (Rngs.Hc128.fromSeed seed) =
      .ok (Checked.BlockRng.runM Rngs.Hc128.blockCore ops (Rngs.Hc128.fromSeed seed)) :=
  (Checked.BlockRng.run_ok Checked.Hc128.blockOK ops hops _ (Checked.Hc128.fromSeed_ok seed h).2).1

/-- wrap-around of the 64-bit block counter: at `counter1024 = 2^64 - 16` `generate` does not
    panic and leaves the counter at 0 -/
example (t results : Array U32) (ht : t.size = 1024) (hr : results.size = 16) :
    Checked.Hc128.generate { t := t, counter := 2 ^ 64 - 16 } results =
      .ok (Rngs.Hc128.generate { t := t, counter := 2 ^ 64 - 16 } results) ∧
    (Rngs.Hc128.generate { t := t, counter := 2 ^ 64 - 16 } results).2.counter = 0 := by
  refine ⟨(Checked.Hc128.generate_ok _ results ⟨ht, (by decide : (2 ^ 64 - 16) % 16 = 0)⟩ hr).1, ?_⟩
  rw [Checked.Hc128.generate_eq]
  generalize List.foldl _ _ _ = p
  obtain ⟨t', r', k'⟩ := p
  show (2 ^ 64 - 16 + 16) % 2 ^ 64 = 0
  decide

/-- the invariant is satisfiable: it holds for the generator seeded with zeros -/
example : Checked.Hc128.RngInv (Rngs.Hc128.fromSeed (List.replicate 32 0)) :=
  (Checked.Hc128.fromSeed_ok _ (by simp)).2

/-! ## 5. ISAAC, ISAAC-64 -/

/-- `IsaacCore::generate` / `Isaac64Core::generate` (parametric in the width-dependent parts):
    `mem[base + m]`, `mem[base + m2]`, `results[RAND_SIZE - 1 - base - m]`, `ind`'s
    `% RAND_SIZE` index, under `mem.len() = 256 ∧ results.len() = 256` -/
theorem isaac_generate {w : Nat} (p : Rngs.Isaac.Params w) (core : Rngs.Isaac.Core w)
    (res : Array (BitVec w)) (hc : Checked.Isaac.CoreInv core) (hres : res.size = 256) :
    Checked.Isaac.generate p core res = .ok (Rngs.Isaac.generate p core res) ∧
    Checked.Isaac.CoreInv (Rngs.Isaac.generate p core res).2 ∧
    (Rngs.Isaac.generate p core res).1.size = 256 :=
  Checked.Isaac.generate_ok p core res hc hres

/-- `init(mem, rounds)`: `mem[i + k]` for i in 0, 8, …, 248 -/
theorem isaac_init {w : Nat} (p : Rngs.Isaac.Params w) (mem : Array (BitVec w)) (rounds : Nat)
    (h : mem.size = 256) :
    Checked.Isaac.init p mem rounds = .ok (Rngs.Isaac.init p mem rounds) ∧
    Checked.Isaac.CoreInv (Rngs.Isaac.init p mem rounds) :=
  Checked.Isaac.init_ok p mem rounds h

/-- `IsaacRng` constructors: `from_seed` (any 32 bytes), `seed_from_u64` (any u64),
    `from_rng` / `try_from_rng` (any source; no assumption on it is even needed) -/
theorem isaac32_constructors :
    (∀ (seed : List U8), seed.length = 32 →
      Checked.Isaac.fromSeed32 seed = .ok (Rngs.Isaac.fromSeed32 seed) ∧
      Checked.BlockRng.Inv Rngs.Isaac.blockCore32 Checked.Isaac.CoreInv (Rngs.Isaac.fromSeed32 seed)) ∧
    (∀ (x : U64), Checked.Isaac.seedFromU64_32 x = .ok (Rngs.Isaac.seedFromU64_32 x) ∧
      Checked.BlockRng.Inv Rngs.Isaac.blockCore32 Checked.Isaac.CoreInv (Rngs.Isaac.seedFromU64_32 x)) ∧
    (∀ {ρ : Type} (fill : TryFill ρ) (src : ρ),
      Checked.Isaac.fromRng32 fill src = .ok (Rngs.Isaac.fromRng32 fill src) ∧
      Checked.Isaac.fromRng32 fill src = .ok (Rngs.Isaac.tryFromRng32 fill src) ∧
      (∀ r src', Rngs.Isaac.fromRng32 fill src = (.ok r, src') →
        Checked.BlockRng.Inv Rngs.Isaac.blockCore32 Checked.Isaac.CoreInv r)) :=
  ⟨fun seed h => ⟨Checked.Isaac.fromSeed32_ok seed h, Checked.Isaac.fromSeed32_inv seed h⟩,
   fun x => ⟨Checked.Isaac.seedFromU64_32_ok x, Checked.Isaac.seedFromU64_32_inv x⟩,
   fun fill src => ⟨(Checked.Isaac.fromRng32_ok fill src).1, (Checked.Isaac.fromRng32_ok fill src).2,
     fun r src' h => Checked.Isaac.fromRng32_inv fill src r src' h⟩⟩

theorem isaac64_constructors :
    (∀ (seed : List U8), seed.length = 32 →
      Checked.Isaac.fromSeed64 seed = .ok (Rngs.Isaac.fromSeed64 seed) ∧
      Checked.BlockRng64.Inv Rngs.Isaac.blockCore64 Checked.Isaac.CoreInv (Rngs.Isaac.fromSeed64 seed)) ∧
    (∀ (x : U64), Checked.Isaac.seedFromU64_64 x = .ok (Rngs.Isaac.seedFromU64_64 x) ∧
      Checked.BlockRng64.Inv Rngs.Isaac.blockCore64 Checked.Isaac.CoreInv (Rngs.Isaac.seedFromU64_64 x)) ∧
    (∀ {ρ : Type} (fill : TryFill ρ) (src : ρ),
      Checked.Isaac.fromRng64 fill src = .ok (Rngs.Isaac.fromRng64 fill src) ∧
      Checked.Isaac.fromRng64 fill src = .ok (Rngs.Isaac.tryFromRng64 fill src) ∧
      (∀ r src', Rngs.Isaac.fromRng64 fill src = (.ok r, src') →
        Checked.BlockRng64.Inv Rngs.Isaac.blockCore64 Checked.Isaac.CoreInv r)) :=
  ⟨fun seed h => ⟨Checked.Isaac.fromSeed64_ok seed h, Checked.Isaac.fromSeed64_inv seed h⟩,
   fun x => ⟨Checked.Isaac.seedFromU64_64_ok x, Checked.Isaac.seedFromU64_64_inv x⟩,
   fun fill src => ⟨(Checked.Isaac.fromRng64_ok fill src).1, (Checked.Isaac.fromRng64_ok fill src).2,
     fun r src' h => Checked.Isaac.fromRng64_inv fill src r src' h⟩⟩

/-- `IsaacRng` = `BlockRng<IsaacCore>`: every output operation, any history -/
theorem isaac32_ops (r : Rngs.Isaac.Rng32) (h : Checked.BlockRng.Inv Rngs.Isaac.blockCore32 Checked.Isaac.CoreInv r) :
    (Checked.BlockRng.nextU32 Checked.Isaac.blockCoreC32 r = .ok (r.nextU32 Rngs.Isaac.blockCore32) ∧
      Checked.BlockRng.Inv Rngs.Isaac.blockCore32 Checked.Isaac.CoreInv (r.nextU32 Rngs.Isaac.blockCore32).2) ∧
    (Checked.BlockRng.nextU64 Checked.Isaac.blockCoreC32 r = .ok (r.nextU64 Rngs.Isaac.blockCore32) ∧
      Checked.BlockRng.Inv Rngs.Isaac.blockCore32 Checked.Isaac.CoreInv (r.nextU64 Rngs.Isaac.blockCore32).2) ∧
    (∀ n, n < USIZE →
      Checked.BlockRng.fillBytes Checked.Isaac.blockCoreC32 n r = .ok (r.fillBytes Rngs.Isaac.blockCore32 n) ∧
      Checked.BlockRng.Inv Rngs.Isaac.blockCore32 Checked.Isaac.CoreInv (r.fillBytes Rngs.Isaac.blockCore32 n).2) ∧
    (∀ ops : List Op, (∀ op, op ∈ ops → op.wf) →
      Checked.BlockRng.runC Checked.Isaac.blockCoreC32 ops r = .ok (Checked.BlockRng.runM Rngs.Isaac.blockCore32 ops r)) :=
  ⟨Checked.BlockRng.nextU32_ok Checked.Isaac.blockOK32 r h, Checked.BlockRng.nextU64_ok Checked.Isaac.blockOK32 r h,
   fun n hn => Checked.BlockRng.fillBytes_ok Checked.Isaac.blockOK32 n hn r h,
   fun ops hops => (Checked.BlockRng.run_ok Checked.Isaac.blockOK32 ops hops r h).1⟩

/-- `Isaac64Rng` = `BlockRng64<Isaac64Core>`: every output operation, any history -/
theorem isaac64_ops (r : Rngs.Isaac.Rng64) (h : Checked.BlockRng64.Inv Rngs.Isaac.blockCore64 Checked.Isaac.CoreInv r) :
    (Checked.BlockRng64.nextU32 Checked.Isaac.blockCoreC64 r = .ok (r.nextU32 Rngs.Isaac.blockCore64) ∧
      Checked.BlockRng64.Inv Rngs.Isaac.blockCore64 Checked.Isaac.CoreInv (r.nextU32 Rngs.Isaac.blockCore64).2) ∧
    (Checked.BlockRng64.nextU64 Checked.Isaac.blockCoreC64 r = .ok (r.nextU64 Rngs.Isaac.blockCore64) ∧
      Checked.BlockRng64.Inv Rngs.Isaac.blockCore64 Checked.Isaac.CoreInv (r.nextU64 Rngs.Isaac.blockCore64).2) ∧
    (∀ n, n < USIZE →
      Checked.BlockRng64.fillBytes Checked.Isaac.blockCoreC64 n r = .ok (r.fillBytes Rngs.Isaac.blockCore64 n) ∧
      Checked.BlockRng64.Inv Rngs.Isaac.blockCore64 Checked.Isaac.CoreInv (r.fillBytes Rngs.Isaac.blockCore64 n).2) ∧
    (∀ ops : List Op, (∀ op, op ∈ ops → op.wf) →
      Checked.BlockRng64.runC Checked.Isaac.blockCoreC64 ops r = .ok (Checked.BlockRng64.runM Rngs.Isaac.blockCore64 ops r)) :=
  ⟨Checked.BlockRng64.nextU32_ok Checked.Isaac.blockOK64 r h, Checked.BlockRng64.nextU64_ok Checked.Isaac.blockOK64 r h,
   fun n hn => Checked.BlockRng64.fillBytes_ok Checked.Isaac.blockOK64 n hn r h,
   fun ops hops => (Checked.BlockRng64.run_ok Checked.Isaac.blockOK64 ops hops r h).1⟩

example : Checked.BlockRng.Inv Rngs.Isaac.blockCore32 Checked.Isaac.CoreInv (Rngs.Isaac.seedFromU64_32 0) :=
  Checked.Isaac.seedFromU64_32_inv 0
example : Checked.BlockRng64.Inv Rngs.Isaac.blockCore64 Checked.Isaac.CoreInv
    (Rngs.Isaac.fromSeed64 (List.replicate 32 0)) :=
  Checked.Isaac.fromSeed64_inv _ (by simp)

/-! ## 6. xoshiro family, SplitMix64, XorShift

    The output functions have no partial operation at all (see the remark at the top of
    `Rngs/Checked/Xoshiro.lean`): only `wrapping_*`, rotates, xor/or/and, shifts by literal
    constants, literal indices into fixed-size arrays.  What remains is `impl_jump!`'s
    `1 << b` (b < width), the `read_uN_into` assert in `from_seed`, `from_splitmix!` and
    `fill_bytes_via_next`. -/

/-- `impl_jump!` for any engine, any polynomial: the shift amount `b` of `1 << b` stays
    below the width -/
theorem jump_no_panic {σ : Type} {w : Nat} (step : σ → σ) (xor : σ → σ → σ) (zero : σ)
    (words : List (BitVec w)) (s : σ) :
    Checked.jumpLoop step xor zero words s = .ok (Rngs.jumpLoop step xor zero words s) :=
  jumpLoop_ok step xor zero words s

/-- SplitMix64: `from_seed`, `seed_from_u64`, `fill_bytes` -/
theorem splitmix64_no_panic :
    (∀ (seed : List U8), seed.length = 8 →
      Checked.SplitMix64.fromSeed seed = .ok (Rngs.SplitMix64.fromSeed seed)) ∧
    (∀ (x : U64), Checked.SplitMix64.seedFromU64 x = .ok (Rngs.SplitMix64.seedFromU64 x)) ∧
    (∀ (n : Nat) (x : U64), Checked.SplitMix64.fill n x = .ok (Rngs.SplitMix64.fill n x)) :=
  ⟨Checked.SplitMix64.fromSeed_ok, Checked.SplitMix64.seedFromU64_ok, Checked.SplitMix64.fill_ok⟩

/-- XorShiftRng: `from_seed` (any 16 bytes), `seed_from_u64` (PCG32 default), `fill_bytes`;
    `next_u32`, `next_u64`, `from_rng`, `try_from_rng` have no partial operation -/
theorem xorshift_no_panic :
    (∀ (seed : List U8), seed.length = 16 →
      Checked.XorShift.fromSeed seed = .ok (Rngs.XorShift.fromSeed seed)) ∧
    (∀ (x : U64), Checked.XorShift.seedFromU64 x = .ok (Rngs.XorShift.seedFromU64 x)) ∧
    (∀ (n : Nat) (s : Rngs.XorShift.State), Checked.XorShift.fill n s = .ok (Rngs.XorShift.fill n s)) :=
  ⟨Checked.XorShift.fromSeed_ok, Checked.XorShift.seedFromU64_ok, Checked.XorShift.fill_ok⟩

/-- Xoroshiro64Star: `from_seed` (any 8 seed bytes, incl. all-zero), `seed_from_u64` (any u64),
    `from_rng` (any source), `fill_bytes` (any length) never panic -/
theorem xoroshiro64Star_no_panic :
    (∀ (fuel : Nat) (seed : List U8), seed.length = 8 →
      Checked.XoGen.fromSeedFuel Xoroshiro64Star.gen 4 2 fuel seed = .ok (Xoroshiro64Star.gen.fromSeedFuel fuel seed)) ∧
    (∀ (fuel : Nat) (x : U64),
      Checked.XoGen.seedFromU64Fuel Xoroshiro64Star.gen 4 2 fuel x = .ok (Xoroshiro64Star.gen.seedFromU64Fuel fuel x)) ∧
    (∀ {ρ : Type} (fill : TryFill ρ), SourceWF fill → ∀ (src : ρ),
      Checked.XoGen.fromRng? Xoroshiro64Star.gen 4 2 fill src = .ok (Xoroshiro64Star.gen.fromRng? fill src)) ∧
    (∀ (n : Nat) (s : S2 32), Checked.XoGen.fill Xoroshiro64Star.gen n s = .ok (Xoroshiro64Star.gen.fill n s)) :=
  ⟨fun fuel seed h => Checked.XoGen.fromSeedFuel_ok _ 4 2 (by decide) rfl (by decide) fuel seed h,
   fun fuel x => Checked.XoGen.seedFromU64Fuel_ok _ 4 2 (by decide) rfl (by decide) fuel x,
   fun fill hf src => Checked.XoGen.fromRng?_ok _ 4 2 (by decide) rfl (by decide) fill hf src,
   fun n s => Checked.XoGen.fill_ok _ n s⟩

/-- Xoroshiro64StarStar: `from_seed` (any 8 seed bytes, incl. all-zero), `seed_from_u64` (any u64),
    `from_rng` (any source), `fill_bytes` (any length) never panic -/
theorem xoroshiro64StarStar_no_panic :
    (∀ (fuel : Nat) (seed : List U8), seed.length = 8 →
      Checked.XoGen.fromSeedFuel Xoroshiro64StarStar.gen 4 2 fuel seed = .ok (Xoroshiro64StarStar.gen.fromSeedFuel fuel seed)) ∧
    (∀ (fuel : Nat) (x : U64),
      Checked.XoGen.seedFromU64Fuel Xoroshiro64StarStar.gen 4 2 fuel x = .ok (Xoroshiro64StarStar.gen.seedFromU64Fuel fuel x)) ∧
    (∀ {ρ : Type} (fill : TryFill ρ), SourceWF fill → ∀ (src : ρ),
      Checked.XoGen.fromRng? Xoroshiro64StarStar.gen 4 2 fill src = .ok (Xoroshiro64StarStar.gen.fromRng? fill src)) ∧
    (∀ (n : Nat) (s : S2 32), Checked.XoGen.fill Xoroshiro64StarStar.gen n s = .ok (Xoroshiro64StarStar.gen.fill n s)) :=
  ⟨fun fuel seed h => Checked.XoGen.fromSeedFuel_ok _ 4 2 (by decide) rfl (by decide) fuel seed h,
   fun fuel x => Checked.XoGen.seedFromU64Fuel_ok _ 4 2 (by decide) rfl (by decide) fuel x,
   fun fill hf src => Checked.XoGen.fromRng?_ok _ 4 2 (by decide) rfl (by decide) fill hf src,
   fun n s => Checked.XoGen.fill_ok _ n s⟩

/-- Xoroshiro128Plus: `from_seed` (any 16 seed bytes, incl. all-zero), `seed_from_u64` (any u64),
    `from_rng` (any source), `fill_bytes` (any length), `jump`, `long_jump` never panic -/
theorem xoroshiro128Plus_no_panic :
    (∀ (fuel : Nat) (seed : List U8), seed.length = 16 →
      Checked.XoGen.fromSeedFuel Xoroshiro128Plus.gen 8 2 fuel seed = .ok (Xoroshiro128Plus.gen.fromSeedFuel fuel seed)) ∧
    (∀ (fuel : Nat) (x : U64),
      Checked.XoGen.seedFromU64Fuel Xoroshiro128Plus.gen 8 2 fuel x = .ok (Xoroshiro128Plus.gen.seedFromU64Fuel fuel x)) ∧
    (∀ {ρ : Type} (fill : TryFill ρ), SourceWF fill → ∀ (src : ρ),
      Checked.XoGen.fromRng? Xoroshiro128Plus.gen 8 2 fill src = .ok (Xoroshiro128Plus.gen.fromRng? fill src)) ∧
    (∀ (n : Nat) (s : S2 64), Checked.XoGen.fill Xoroshiro128Plus.gen n s = .ok (Xoroshiro128Plus.gen.fill n s)) ∧
    (∀ (s : S2 64), Checked.jumpLoop Xoroshiro128Plus.step S2.xor S2.zero XOROSHIRO128_JUMP s = .ok (Xoroshiro128Plus.jump s)) ∧
    (∀ (s : S2 64), Checked.jumpLoop Xoroshiro128Plus.step S2.xor S2.zero XOROSHIRO128_LONG_JUMP s = .ok (Xoroshiro128Plus.longJump s)) :=
  ⟨fun fuel seed h => Checked.XoGen.fromSeedFuel_ok _ 8 2 (by decide) rfl (by decide) fuel seed h,
   fun fuel x => Checked.XoGen.seedFromU64Fuel_ok _ 8 2 (by decide) rfl (by decide) fuel x,
   fun fill hf src => Checked.XoGen.fromRng?_ok _ 8 2 (by decide) rfl (by decide) fill hf src,
   fun n s => Checked.XoGen.fill_ok _ n s,
   fun s => jumpLoop_ok _ _ _ _ s, fun s => jumpLoop_ok _ _ _ _ s⟩

/-- Xoroshiro128PlusPlus: `from_seed` (any 16 seed bytes, incl. all-zero), `seed_from_u64` (any u64),
    `from_rng` (any source), `fill_bytes` (any length), `jump`, `long_jump` never panic -/
theorem xoroshiro128PlusPlus_no_panic :
    (∀ (fuel : Nat) (seed : List U8), seed.length = 16 →
      Checked.XoGen.fromSeedFuel Xoroshiro128PlusPlus.gen 8 2 fuel seed = .ok (Xoroshiro128PlusPlus.gen.fromSeedFuel fuel seed)) ∧
    (∀ (fuel : Nat) (x : U64),
      Checked.XoGen.seedFromU64Fuel Xoroshiro128PlusPlus.gen 8 2 fuel x = .ok (Xoroshiro128PlusPlus.gen.seedFromU64Fuel fuel x)) ∧
    (∀ {ρ : Type} (fill : TryFill ρ), SourceWF fill → ∀ (src : ρ),
      Checked.XoGen.fromRng? Xoroshiro128PlusPlus.gen 8 2 fill src = .ok (Xoroshiro128PlusPlus.gen.fromRng? fill src)) ∧
    (∀ (n : Nat) (s : S2 64), Checked.XoGen.fill Xoroshiro128PlusPlus.gen n s = .ok (Xoroshiro128PlusPlus.gen.fill n s)) ∧
    (∀ (s : S2 64), Checked.jumpLoop Xoroshiro128PlusPlus.step S2.xor S2.zero XOROSHIRO128PP_JUMP s = .ok (Xoroshiro128PlusPlus.jump s)) ∧
    (∀ (s : S2 64), Checked.jumpLoop Xoroshiro128PlusPlus.step S2.xor S2.zero XOROSHIRO128PP_LONG_JUMP s = .ok (Xoroshiro128PlusPlus.longJump s)) :=
  ⟨fun fuel seed h => Checked.XoGen.fromSeedFuel_ok _ 8 2 (by decide) rfl (by decide) fuel seed h,
   fun fuel x => Checked.XoGen.seedFromU64Fuel_ok _ 8 2 (by decide) rfl (by decide) fuel x,
   fun fill hf src => Checked.XoGen.fromRng?_ok _ 8 2 (by decide) rfl (by decide) fill hf src,
   fun n s => Checked.XoGen.fill_ok _ n s,
   fun s => jumpLoop_ok _ _ _ _ s, fun s => jumpLoop_ok _ _ _ _ s⟩

/-- Xoroshiro128StarStar: `from_seed` (any 16 seed bytes, incl. all-zero), `seed_from_u64` (any u64),
    `from_rng` (any source), `fill_bytes` (any length), `jump`, `long_jump` never panic -/
theorem xoroshiro128StarStar_no_panic :
    (∀ (fuel : Nat) (seed : List U8), seed.length = 16 →
      Checked.XoGen.fromSeedFuel Xoroshiro128StarStar.gen 8 2 fuel seed = .ok (Xoroshiro128StarStar.gen.fromSeedFuel fuel seed)) ∧
    (∀ (fuel : Nat) (x : U64),
      Checked.XoGen.seedFromU64Fuel Xoroshiro128StarStar.gen 8 2 fuel x = .ok (Xoroshiro128StarStar.gen.seedFromU64Fuel fuel x)) ∧
    (∀ {ρ : Type} (fill : TryFill ρ), SourceWF fill → ∀ (src : ρ),
      Checked.XoGen.fromRng? Xoroshiro128StarStar.gen 8 2 fill src = .ok (Xoroshiro128StarStar.gen.fromRng? fill src)) ∧
    (∀ (n : Nat) (s : S2 64), Checked.XoGen.fill Xoroshiro128StarStar.gen n s = .ok (Xoroshiro128StarStar.gen.fill n s)) ∧
    (∀ (s : S2 64), Checked.jumpLoop Xoroshiro128StarStar.step S2.xor S2.zero XOROSHIRO128_JUMP s = .ok (Xoroshiro128StarStar.jump s)) ∧
    (∀ (s : S2 64), Checked.jumpLoop Xoroshiro128StarStar.step S2.xor S2.zero XOROSHIRO128_LONG_JUMP s = .ok (Xoroshiro128StarStar.longJump s)) :=
  ⟨fun fuel seed h => Checked.XoGen.fromSeedFuel_ok _ 8 2 (by decide) rfl (by decide) fuel seed h,
   fun fuel x => Checked.XoGen.seedFromU64Fuel_ok _ 8 2 (by decide) rfl (by decide) fuel x,
   fun fill hf src => Checked.XoGen.fromRng?_ok _ 8 2 (by decide) rfl (by decide) fill hf src,
   fun n s => Checked.XoGen.fill_ok _ n s,
   fun s => jumpLoop_ok _ _ _ _ s, fun s => jumpLoop_ok _ _ _ _ s⟩

/-- Xoshiro128Plus: `from_seed` (any 16 seed bytes, incl. all-zero), `seed_from_u64` (any u64),
    `from_rng` (any source), `fill_bytes` (any length), `jump`, `long_jump` never panic -/
theorem xoshiro128Plus_no_panic :
    (∀ (fuel : Nat) (seed : List U8), seed.length = 16 →
      Checked.XoGen.fromSeedFuel Xoshiro128Plus.gen 4 4 fuel seed = .ok (Xoshiro128Plus.gen.fromSeedFuel fuel seed)) ∧
    (∀ (fuel : Nat) (x : U64),
      Checked.XoGen.seedFromU64Fuel Xoshiro128Plus.gen 4 4 fuel x = .ok (Xoshiro128Plus.gen.seedFromU64Fuel fuel x)) ∧
    (∀ {ρ : Type} (fill : TryFill ρ), SourceWF fill → ∀ (src : ρ),
      Checked.XoGen.fromRng? Xoshiro128Plus.gen 4 4 fill src = .ok (Xoshiro128Plus.gen.fromRng? fill src)) ∧
    (∀ (n : Nat) (s : S4 32), Checked.XoGen.fill Xoshiro128Plus.gen n s = .ok (Xoshiro128Plus.gen.fill n s)) ∧
    (∀ (s : S4 32), Checked.jumpLoop Xoshiro128Plus.step S4.xor S4.zero XOSHIRO128_JUMP s = .ok (Xoshiro128Plus.jump s)) ∧
    (∀ (s : S4 32), Checked.jumpLoop Xoshiro128Plus.step S4.xor S4.zero XOSHIRO128_LONG_JUMP s = .ok (Xoshiro128Plus.longJump s)) :=
  ⟨fun fuel seed h => Checked.XoGen.fromSeedFuel_ok _ 4 4 (by decide) rfl (by decide) fuel seed h,
   fun fuel x => Checked.XoGen.seedFromU64Fuel_ok _ 4 4 (by decide) rfl (by decide) fuel x,
   fun fill hf src => Checked.XoGen.fromRng?_ok _ 4 4 (by decide) rfl (by decide) fill hf src,
   fun n s => Checked.XoGen.fill_ok _ n s,
   fun s => jumpLoop_ok _ _ _ _ s, fun s => jumpLoop_ok _ _ _ _ s⟩

/-- Xoshiro128PlusPlus: `from_seed` (any 16 seed bytes, incl. all-zero), `seed_from_u64` (any u64),
    `from_rng` (any source), `fill_bytes` (any length), `jump`, `long_jump` never panic -/
theorem xoshiro128PlusPlus_no_panic :
    (∀ (fuel : Nat) (seed : List U8), seed.length = 16 →
      Checked.XoGen.fromSeedFuel Xoshiro128PlusPlus.gen 4 4 fuel seed = .ok (Xoshiro128PlusPlus.gen.fromSeedFuel fuel seed)) ∧
    (∀ (fuel : Nat) (x : U64),
      Checked.XoGen.seedFromU64Fuel Xoshiro128PlusPlus.gen 4 4 fuel x = .ok (Xoshiro128PlusPlus.gen.seedFromU64Fuel fuel x)) ∧
    (∀ {ρ : Type} (fill : TryFill ρ), SourceWF fill → ∀ (src : ρ),
      Checked.XoGen.fromRng? Xoshiro128PlusPlus.gen 4 4 fill src = .ok (Xoshiro128PlusPlus.gen.fromRng? fill src)) ∧
    (∀ (n : Nat) (s : S4 32), Checked.XoGen.fill Xoshiro128PlusPlus.gen n s = .ok (Xoshiro128PlusPlus.gen.fill n s)) ∧
    (∀ (s : S4 32), Checked.jumpLoop Xoshiro128PlusPlus.step S4.xor S4.zero XOSHIRO128_JUMP s = .ok (Xoshiro128PlusPlus.jump s)) ∧
    (∀ (s : S4 32), Checked.jumpLoop Xoshiro128PlusPlus.step S4.xor S4.zero XOSHIRO128_LONG_JUMP s = .ok (Xoshiro128PlusPlus.longJump s)) :=
  ⟨fun fuel seed h => Checked.XoGen.fromSeedFuel_ok _ 4 4 (by decide) rfl (by decide) fuel seed h,
   fun fuel x => Checked.XoGen.seedFromU64Fuel_ok _ 4 4 (by decide) rfl (by decide) fuel x,
   fun fill hf src => Checked.XoGen.fromRng?_ok _ 4 4 (by decide) rfl (by decide) fill hf src,
   fun n s => Checked.XoGen.fill_ok _ n s,
   fun s => jumpLoop_ok _ _ _ _ s, fun s => jumpLoop_ok _ _ _ _ s⟩

/-- Xoshiro128StarStar: `from_seed` (any 16 seed bytes, incl. all-zero), `seed_from_u64` (any u64),
    `from_rng` (any source), `fill_bytes` (any length), `jump`, `long_jump` never panic -/
theorem xoshiro128StarStar_no_panic :
    (∀ (fuel : Nat) (seed : List U8), seed.length = 16 →
      Checked.XoGen.fromSeedFuel Xoshiro128StarStar.gen 4 4 fuel seed = .ok (Xoshiro128StarStar.gen.fromSeedFuel fuel seed)) ∧
    (∀ (fuel : Nat) (x : U64),
      Checked.XoGen.seedFromU64Fuel Xoshiro128StarStar.gen 4 4 fuel x = .ok (Xoshiro128StarStar.gen.seedFromU64Fuel fuel x)) ∧
    (∀ {ρ : Type} (fill : TryFill ρ), SourceWF fill → ∀ (src : ρ),
      Checked.XoGen.fromRng? Xoshiro128StarStar.gen 4 4 fill src = .ok (Xoshiro128StarStar.gen.fromRng? fill src)) ∧
    (∀ (n : Nat) (s : S4 32), Checked.XoGen.fill Xoshiro128StarStar.gen n s = .ok (Xoshiro128StarStar.gen.fill n s)) ∧
    (∀ (s : S4 32), Checked.jumpLoop Xoshiro128StarStar.step S4.xor S4.zero XOSHIRO128_JUMP s = .ok (Xoshiro128StarStar.jump s)) ∧
    (∀ (s : S4 32), Checked.jumpLoop Xoshiro128StarStar.step S4.xor S4.zero XOSHIRO128_LONG_JUMP s = .ok (Xoshiro128StarStar.longJump s)) :=
  ⟨fun fuel seed h => Checked.XoGen.fromSeedFuel_ok _ 4 4 (by decide) rfl (by decide) fuel seed h,
   fun fuel x => Checked.XoGen.seedFromU64Fuel_ok _ 4 4 (by decide) rfl (by decide) fuel x,
   fun fill hf src => Checked.XoGen.fromRng?_ok _ 4 4 (by decide) rfl (by decide) fill hf src,
   fun n s => Checked.XoGen.fill_ok _ n s,
   fun s => jumpLoop_ok _ _ _ _ s, fun s => jumpLoop_ok _ _ _ _ s⟩

/-- Xoshiro256Plus: `from_seed` (any 32 seed bytes, incl. all-zero), `seed_from_u64` (any u64),
    `from_rng` (any source), `fill_bytes` (any length), `jump`, `long_jump` never panic -/
theorem xoshiro256Plus_no_panic :
    (∀ (fuel : Nat) (seed : List U8), seed.length = 32 →
      Checked.XoGen.fromSeedFuel Xoshiro256Plus.gen 8 4 fuel seed = .ok (Xoshiro256Plus.gen.fromSeedFuel fuel seed)) ∧
    (∀ (fuel : Nat) (x : U64),
      Checked.XoGen.seedFromU64Fuel Xoshiro256Plus.gen 8 4 fuel x = .ok (Xoshiro256Plus.gen.seedFromU64Fuel fuel x)) ∧
    (∀ {ρ : Type} (fill : TryFill ρ), SourceWF fill → ∀ (src : ρ),
      Checked.XoGen.fromRng? Xoshiro256Plus.gen 8 4 fill src = .ok (Xoshiro256Plus.gen.fromRng? fill src)) ∧
    (∀ (n : Nat) (s : S4 64), Checked.XoGen.fill Xoshiro256Plus.gen n s = .ok (Xoshiro256Plus.gen.fill n s)) ∧
    (∀ (s : S4 64), Checked.jumpLoop Xoshiro256Plus.step S4.xor S4.zero XOSHIRO256_JUMP s = .ok (Xoshiro256Plus.jump s)) ∧
    (∀ (s : S4 64), Checked.jumpLoop Xoshiro256Plus.step S4.xor S4.zero XOSHIRO256_LONG_JUMP s = .ok (Xoshiro256Plus.longJump s)) :=
  ⟨fun fuel seed h => Checked.XoGen.fromSeedFuel_ok _ 8 4 (by decide) rfl (by decide) fuel seed h,
   fun fuel x => Checked.XoGen.seedFromU64Fuel_ok _ 8 4 (by decide) rfl (by decide) fuel x,
   fun fill hf src => Checked.XoGen.fromRng?_ok _ 8 4 (by decide) rfl (by decide) fill hf src,
   fun n s => Checked.XoGen.fill_ok _ n s,
   fun s => jumpLoop_ok _ _ _ _ s, fun s => jumpLoop_ok _ _ _ _ s⟩

/-- Xoshiro256PlusPlus: `from_seed` (any 32 seed bytes, incl. all-zero), `seed_from_u64` (any u64),
    `from_rng` (any source), `fill_bytes` (any length), `jump`, `long_jump` never panic -/
theorem xoshiro256PlusPlus_no_panic :
    (∀ (fuel : Nat) (seed : List U8), seed.length = 32 →
      Checked.XoGen.fromSeedFuel Xoshiro256PlusPlus.gen 8 4 fuel seed = .ok (Xoshiro256PlusPlus.gen.fromSeedFuel fuel seed)) ∧
    (∀ (fuel : Nat) (x : U64),
      Checked.XoGen.seedFromU64Fuel Xoshiro256PlusPlus.gen 8 4 fuel x = .ok (Xoshiro256PlusPlus.gen.seedFromU64Fuel fuel x)) ∧
    (∀ {ρ : Type} (fill : TryFill ρ), SourceWF fill → ∀ (src : ρ),
      Checked.XoGen.fromRng? Xoshiro256PlusPlus.gen 8 4 fill src = .ok (Xoshiro256PlusPlus.gen.fromRng? fill src)) ∧
    (∀ (n : Nat) (s : S4 64), Checked.XoGen.fill Xoshiro256PlusPlus.gen n s = .ok (Xoshiro256PlusPlus.gen.fill n s)) ∧
    (∀ (s : S4 64), Checked.jumpLoop Xoshiro256PlusPlus.step S4.xor S4.zero XOSHIRO256_JUMP s = .ok (Xoshiro256PlusPlus.jump s)) ∧
    (∀ (s : S4 64), Checked.jumpLoop Xoshiro256PlusPlus.step S4.xor S4.zero XOSHIRO256_LONG_JUMP s = .ok (Xoshiro256PlusPlus.longJump s)) :=
  ⟨fun fuel seed h => Checked.XoGen.fromSeedFuel_ok _ 8 4 (by decide) rfl (by decide) fuel seed h,
   fun fuel x => Checked.XoGen.seedFromU64Fuel_ok _ 8 4 (by decide) rfl (by decide) fuel x,
   fun fill hf src => Checked.XoGen.fromRng?_ok _ 8 4 (by decide) rfl (by decide) fill hf src,
   fun n s => Checked.XoGen.fill_ok _ n s,
   fun s => jumpLoop_ok _ _ _ _ s, fun s => jumpLoop_ok _ _ _ _ s⟩

/-- Xoshiro256StarStar: `from_seed` (any 32 seed bytes, incl. all-zero), `seed_from_u64` (any u64),
    `from_rng` (any source), `fill_bytes` (any length), `jump`, `long_jump` never panic -/
theorem xoshiro256StarStar_no_panic :
    (∀ (fuel : Nat) (seed : List U8), seed.length = 32 →
      Checked.XoGen.fromSeedFuel Xoshiro256StarStar.gen 8 4 fuel seed = .ok (Xoshiro256StarStar.gen.fromSeedFuel fuel seed)) ∧
    (∀ (fuel : Nat) (x : U64),
      Checked.XoGen.seedFromU64Fuel Xoshiro256StarStar.gen 8 4 fuel x = .ok (Xoshiro256StarStar.gen.seedFromU64Fuel fuel x)) ∧
    (∀ {ρ : Type} (fill : TryFill ρ), SourceWF fill → ∀ (src : ρ),
      Checked.XoGen.fromRng? Xoshiro256StarStar.gen 8 4 fill src = .ok (Xoshiro256StarStar.gen.fromRng? fill src)) ∧
    (∀ (n : Nat) (s : S4 64), Checked.XoGen.fill Xoshiro256StarStar.gen n s = .ok (Xoshiro256StarStar.gen.fill n s)) ∧
    (∀ (s : S4 64), Checked.jumpLoop Xoshiro256StarStar.step S4.xor S4.zero XOSHIRO256_JUMP s = .ok (Xoshiro256StarStar.jump s)) ∧
    (∀ (s : S4 64), Checked.jumpLoop Xoshiro256StarStar.step S4.xor S4.zero XOSHIRO256_LONG_JUMP s = .ok (Xoshiro256StarStar.longJump s)) :=
  ⟨fun fuel seed h => Checked.XoGen.fromSeedFuel_ok _ 8 4 (by decide) rfl (by decide) fuel seed h,
   fun fuel x => Checked.XoGen.seedFromU64Fuel_ok _ 8 4 (by decide) rfl (by decide) fuel x,
   fun fill hf src => Checked.XoGen.fromRng?_ok _ 8 4 (by decide) rfl (by decide) fill hf src,
   fun n s => Checked.XoGen.fill_ok _ n s,
   fun s => jumpLoop_ok _ _ _ _ s, fun s => jumpLoop_ok _ _ _ _ s⟩

/-- Xoshiro512Plus: `from_seed` (any 64 seed bytes, incl. all-zero), `seed_from_u64` (any u64),
    `from_rng` (any source), `fill_bytes` (any length), `jump`, `long_jump` never panic -/
theorem xoshiro512Plus_no_panic :
    (∀ (fuel : Nat) (seed : List U8), seed.length = 64 →
      Checked.XoGen.fromSeedFuel Xoshiro512Plus.gen 8 8 fuel seed = .ok (Xoshiro512Plus.gen.fromSeedFuel fuel seed)) ∧
    (∀ (fuel : Nat) (x : U64),
      Checked.XoGen.seedFromU64Fuel Xoshiro512Plus.gen 8 8 fuel x = .ok (Xoshiro512Plus.gen.seedFromU64Fuel fuel x)) ∧
    (∀ {ρ : Type} (fill : TryFill ρ), SourceWF fill → ∀ (src : ρ),
      Checked.XoGen.fromRng? Xoshiro512Plus.gen 8 8 fill src = .ok (Xoshiro512Plus.gen.fromRng? fill src)) ∧
    (∀ (n : Nat) (s : S8), Checked.XoGen.fill Xoshiro512Plus.gen n s = .ok (Xoshiro512Plus.gen.fill n s)) ∧
    (∀ (s : S8), Checked.jumpLoop Xoshiro512Plus.step S8.xor S8.zero XOSHIRO512_JUMP s = .ok (Xoshiro512Plus.jump s)) ∧
    (∀ (s : S8), Checked.jumpLoop Xoshiro512Plus.step S8.xor S8.zero XOSHIRO512_LONG_JUMP s = .ok (Xoshiro512Plus.longJump s)) :=
  ⟨fun fuel seed h => Checked.XoGen.fromSeedFuel_ok _ 8 8 (by decide) rfl (by decide) fuel seed h,
   fun fuel x => Checked.XoGen.seedFromU64Fuel_ok _ 8 8 (by decide) rfl (by decide) fuel x,
   fun fill hf src => Checked.XoGen.fromRng?_ok _ 8 8 (by decide) rfl (by decide) fill hf src,
   fun n s => Checked.XoGen.fill_ok _ n s,
   fun s => jumpLoop_ok _ _ _ _ s, fun s => jumpLoop_ok _ _ _ _ s⟩

/-- Xoshiro512PlusPlus: `from_seed` (any 64 seed bytes, incl. all-zero), `seed_from_u64` (any u64),
    `from_rng` (any source), `fill_bytes` (any length), `jump`, `long_jump` never panic -/
theorem xoshiro512PlusPlus_no_panic :
    (∀ (fuel : Nat) (seed : List U8), seed.length = 64 →
      Checked.XoGen.fromSeedFuel Xoshiro512PlusPlus.gen 8 8 fuel seed = .ok (Xoshiro512PlusPlus.gen.fromSeedFuel fuel seed)) ∧
    (∀ (fuel : Nat) (x : U64),
      Checked.XoGen.seedFromU64Fuel Xoshiro512PlusPlus.gen 8 8 fuel x = .ok (Xoshiro512PlusPlus.gen.seedFromU64Fuel fuel x)) ∧
    (∀ {ρ : Type} (fill : TryFill ρ), SourceWF fill → ∀ (src : ρ),
      Checked.XoGen.fromRng? Xoshiro512PlusPlus.gen 8 8 fill src = .ok (Xoshiro512PlusPlus.gen.fromRng? fill src)) ∧
    (∀ (n : Nat) (s : S8), Checked.XoGen.fill Xoshiro512PlusPlus.gen n s = .ok (Xoshiro512PlusPlus.gen.fill n s)) ∧
    (∀ (s : S8), Checked.jumpLoop Xoshiro512PlusPlus.step S8.xor S8.zero XOSHIRO512_JUMP s = .ok (Xoshiro512PlusPlus.jump s)) ∧
    (∀ (s : S8), Checked.jumpLoop Xoshiro512PlusPlus.step S8.xor S8.zero XOSHIRO512_LONG_JUMP s = .ok (Xoshiro512PlusPlus.longJump s)) :=
  ⟨fun fuel seed h => Checked.XoGen.fromSeedFuel_ok _ 8 8 (by decide) rfl (by decide) fuel seed h,
   fun fuel x => Checked.XoGen.seedFromU64Fuel_ok _ 8 8 (by decide) rfl (by decide) fuel x,
   fun fill hf src => Checked.XoGen.fromRng?_ok _ 8 8 (by decide) rfl (by decide) fill hf src,
   fun n s => Checked.XoGen.fill_ok _ n s,
   fun s => jumpLoop_ok _ _ _ _ s, fun s => jumpLoop_ok _ _ _ _ s⟩

/-- Xoshiro512StarStar: `from_seed` (any 64 seed bytes, incl. all-zero), `seed_from_u64` (any u64),
    `from_rng` (any source), `fill_bytes` (any length), `jump`, `long_jump` never panic -/
theorem xoshiro512StarStar_no_panic :
    (∀ (fuel : Nat) (seed : List U8), seed.length = 64 →
      Checked.XoGen.fromSeedFuel Xoshiro512StarStar.gen 8 8 fuel seed = .ok (Xoshiro512StarStar.gen.fromSeedFuel fuel seed)) ∧
    (∀ (fuel : Nat) (x : U64),
      Checked.XoGen.seedFromU64Fuel Xoshiro512StarStar.gen 8 8 fuel x = .ok (Xoshiro512StarStar.gen.seedFromU64Fuel fuel x)) ∧
    (∀ {ρ : Type} (fill : TryFill ρ), SourceWF fill → ∀ (src : ρ),
      Checked.XoGen.fromRng? Xoshiro512StarStar.gen 8 8 fill src = .ok (Xoshiro512StarStar.gen.fromRng? fill src)) ∧
    (∀ (n : Nat) (s : S8), Checked.XoGen.fill Xoshiro512StarStar.gen n s = .ok (Xoshiro512StarStar.gen.fill n s)) ∧
    (∀ (s : S8), Checked.jumpLoop Xoshiro512StarStar.step S8.xor S8.zero XOSHIRO512_JUMP s = .ok (Xoshiro512StarStar.jump s)) ∧
    (∀ (s : S8), Checked.jumpLoop Xoshiro512StarStar.step S8.xor S8.zero XOSHIRO512_LONG_JUMP s = .ok (Xoshiro512StarStar.longJump s)) :=
  ⟨fun fuel seed h => Checked.XoGen.fromSeedFuel_ok _ 8 8 (by decide) rfl (by decide) fuel seed h,
   fun fuel x => Checked.XoGen.seedFromU64Fuel_ok _ 8 8 (by decide) rfl (by decide) fuel x,
   fun fill hf src => Checked.XoGen.fromRng?_ok _ 8 8 (by decide) rfl (by decide) fill hf src,
   fun n s => Checked.XoGen.fill_ok _ n s,
   fun s => jumpLoop_ok _ _ _ _ s, fun s => jumpLoop_ok _ _ _ _ s⟩


/-! ## 7. `SeedableRng::seed_from_u64` default (PCG32 expansion) -/

/-- for every seed length and every `u64`: `chunks_exact_mut(4)`, the `copy_from_slice`
    lengths, `pcg32(..)[..rem.len()]` -/
theorem pcg32Seed_no_panic (len : Nat) (state : U64) :
    Checked.pcg32Seed len state = .ok (Rngs.pcg32Seed len state) ∧
    (Rngs.pcg32Seed len state).length = len :=
  ⟨pcg32Seed_ok len state, length_pcg32Seed len state⟩

/-- the rotate amount `(state >> 59) as u32` is below 32 (and `rotate_right` is total anyway) -/
theorem pcg32_rotate_amount (state : U64) : ((state >>> 59).setWidth 32 : U32).toNat < 32 :=
  pcg32_rot_lt state

/-! ## 8. JitterRng

    The timer is a script `rs : List U64` of the values the closure will return: ANY list, so
    large jumps, backward steps, wrap-around, zeros and constant (stuck) readings are all
    included.  `Checked.Jitter.TMC α = List U64 → Except Panic (Option (α × List U64))`: a run
    panics (`.error`), blocks because the script is exhausted (`.ok none` — what a stuck timer
    looks like to a finite script; not a panic), or returns.  Every theorem says: for every
    script the checked run is `.ok` of the model run. -/

/-- `new_with_timer` establishes the invariant (`mem_prev_index` is a `u16`) -/
theorem jitter_newWithTimer :
    Checked.Jitter.newWithTimer = .ok Rngs.Jitter.newWithTimer ∧
    Checked.Jitter.Inv Rngs.Jitter.newWithTimer :=
  ⟨Checked.Jitter.newWithTimer_ok, Checked.Jitter.Inv_newWithTimer⟩

/-- `set_rounds`: `assert!(rounds > 0)` is the one documented panic — it fires for 0 and only
    for 0 -/
theorem jitter_setRounds (j : Rngs.Jitter.Rng) (rounds : Nat) :
    Checked.Jitter.setRounds j 0 = .error .assertFailed ∧
    (0 < rounds → Checked.Jitter.setRounds j rounds = .ok { j with rounds := rounds }) ∧
    ((∃ p, Checked.Jitter.setRounds j rounds = .error p) ↔ rounds = 0) ∧
    (∀ j', Checked.Jitter.Inv j → Rngs.Jitter.setRounds j rounds = some j' → Checked.Jitter.Inv j') :=
  ⟨Checked.Jitter.setRounds_zero j, Checked.Jitter.setRounds_pos j rounds,
   Checked.Jitter.setRounds_panics_iff j rounds,
   fun j' h h' => Checked.Jitter.setRounds_inv j j' rounds h h'⟩

/-- the pure parts: `lfsr` (shifts `64 - i`, i in 1..65), `stir_pool` (`>> i`, i < 64),
    `EcState::stuck` (wrapping_sub only), the verdict / rounds computation of `test_timer`
    (`delta_sum / 300`, `64 - leading_zeros`, `(128 + log2 - 1) / log2`, `log2_lookup[avg]`) -/
theorem jitter_pure_parts :
    (∀ data time, Checked.Jitter.lfsr data time = .ok (Rngs.Jitter.lfsr data time)) ∧
    (∀ data, Checked.Jitter.stir data = .ok (Rngs.Jitter.stir data)) ∧
    (∀ ec d, Checked.Jitter.stuck ec d = .ok (Rngs.Jitter.stuck ec d)) ∧
    (∀ deltaSum, deltaSum < 2 ^ 64 →
      Checked.Jitter.roundsOf deltaSum = .ok (Rngs.Jitter.roundsOf deltaSum)) ∧
    (∀ p : Rngs.Jitter.Probe, p.deltaSum < 2 ^ 64 →
      Checked.Jitter.verdict p = .ok (Rngs.Jitter.verdict p)) ∧
    (∀ a b : U32, Checked.Jitter.subI64C a.toInt b.toInt = .ok (a.toInt - b.toInt)) :=
  ⟨Checked.Jitter.lfsr_ok, Checked.Jitter.stir_ok, Checked.Jitter.stuck_ok,
   Checked.Jitter.roundsOf_ok, Checked.Jitter.verdict_ok, Checked.Jitter.subI64C_ok⟩

/-- the internal steps, for every timer script: `random_loop_cnt(n_bits)` (0 < n_bits < 64;
    both call sites use 4), `lfsr_time`, `memaccess` (`acc_loop_cnt += …`, `mem[index]` with
    `index < 2048`), `measure_jitter` -/
theorem jitter_internal_steps (j : Rngs.Jitter.Rng) (h : Checked.Jitter.Inv j) (rs : List U64) :
    (∀ nBits, 0 < nBits → nBits < 64 →
      Checked.Jitter.randomLoopCnt j nBits rs = .ok (Rngs.Jitter.randomLoopCnt j nBits rs)) ∧
    (∀ time v, Checked.Jitter.lfsrTime j time v rs = .ok (Rngs.Jitter.lfsrTime j time v rs)) ∧
    (∀ v, Checked.Jitter.memaccess j v rs = .ok (Rngs.Jitter.memaccess j v rs)) ∧
    (∀ ec, Checked.Jitter.measureJitter j ec rs = .ok (Rngs.Jitter.measureJitter j ec rs)) :=
  ⟨fun nBits h0 h64 => Checked.Jitter.randomLoopCnt_run j nBits h0 h64 rs,
   fun time v => Checked.Jitter.lfsrTime_run j time v rs,
   fun v => Checked.Jitter.memaccess_run j v h rs,
   fun ec => Checked.Jitter.measureJitter_run j ec h rs⟩

/-- `next_u64` (= `gen_entropy`) for every timer script -/
theorem jitter_nextU64 (j : Rngs.Jitter.Rng) (h : Checked.Jitter.Inv j) (rs : List U64) :
    Checked.Jitter.nextU64 j rs = .ok (Rngs.Jitter.nextU64 j rs) ∧
    (∀ v j' rs', Rngs.Jitter.nextU64 j rs = some ((v, j'), rs') → Checked.Jitter.Inv j') :=
  ⟨Checked.Jitter.nextU64_run j h rs, fun v j' rs' e => Checked.Jitter.nextU64_inv j rs rs' v j' e⟩

theorem jitter_genEntropy (j : Rngs.Jitter.Rng) (h : Checked.Jitter.Inv j) (rs : List U64) :
    Checked.Jitter.genEntropy j rs = .ok (Rngs.Jitter.genEntropy j rs) ∧
    (∀ v j' rs', Rngs.Jitter.genEntropy j rs = some ((v, j'), rs') → Checked.Jitter.Inv j') :=
  ⟨Checked.Jitter.genEntropy_run j h rs,
   fun v j' rs' e => Checked.Jitter.genEntropy_inv j rs rs' v j' e⟩

theorem jitter_nextU32 (j : Rngs.Jitter.Rng) (h : Checked.Jitter.Inv j) (rs : List U64) :
    Checked.Jitter.nextU32 j rs = .ok (Rngs.Jitter.nextU32 j rs) ∧
    (∀ v j' rs', Rngs.Jitter.nextU32 j rs = some ((v, j'), rs') → Checked.Jitter.Inv j') :=
  ⟨Checked.Jitter.nextU32_run j h rs,
   fun v j' rs' e => Checked.Jitter.nextU32_inv j h rs rs' v j' e⟩

/-- `fill_bytes` for every length (0 included) and every timer script -/
theorem jitter_fill (n : Nat) (j : Rngs.Jitter.Rng) (h : Checked.Jitter.Inv j) (rs : List U64) :
    Checked.Jitter.fill n j rs = .ok (Rngs.Jitter.fill n j rs) ∧
    (∀ bs j' rs', Rngs.Jitter.fill n j rs = some ((bs, j'), rs') → Checked.Jitter.Inv j') :=
  ⟨Checked.Jitter.fill_run n j h rs,
   fun bs j' rs' e => Checked.Jitter.fill_inv n j h rs rs' bs j' e⟩

/-- `test_timer` for every timer script: `delta % 100`, the `i64` difference,
    `delta_sum += …` (≤ 300 · 2^32), the counters, and the final rounds computation -/
theorem jitter_testTimer (j : Rngs.Jitter.Rng) (h : Checked.Jitter.Inv j) (rs : List U64) :
    Checked.Jitter.testTimer j rs = .ok (Rngs.Jitter.testTimer j rs) ∧
    (∀ r j' rs', Rngs.Jitter.testTimer j rs = some ((r, j'), rs') →
      Checked.Jitter.Inv j' ∧ ∀ n, r = .ok n → 0 < n ∧ n < 256) :=
  ⟨Checked.Jitter.testTimer_run j h rs,
   fun r j' rs' e => Checked.Jitter.testTimer_rounds_post j h rs (r, j') rs' e⟩

theorem jitter_timerStats (j : Rngs.Jitter.Rng) (v : Bool) (h : Checked.Jitter.Inv j)
    (rs : List U64) :
    Checked.Jitter.timerStats j v rs = .ok (Rngs.Jitter.timerStats j v rs) ∧
    (∀ d j' rs', Rngs.Jitter.timerStats j v rs = some ((d, j'), rs') → Checked.Jitter.Inv j') :=
  ⟨Checked.Jitter.timerStats_run j v h rs,
   fun d j' rs' e => Checked.Jitter.timerStats_inv j v rs rs' d j' e⟩

theorem jitter_clone (j : Rngs.Jitter.Rng) (h : Checked.Jitter.Inv j) :
    Checked.Jitter.clone j = .ok (Rngs.Jitter.clone j) ∧ Checked.Jitter.Inv (Rngs.Jitter.clone j) :=
  ⟨Checked.Jitter.clone_ok j, Checked.Jitter.clone_inv j h⟩

/-- ANY history of public operations (`next_u32`, `next_u64`, `fill_bytes(n)`, `gen_entropy`,
    `test_timer`, `timer_stats(b)`, `set_rounds(r)` with r ≠ 0, `clone`) on a generator made
    by `new_with_timer`, under ANY timer script: never a panic.  With `set_rounds(0)` in
    front: always the documented panic. -/
theorem jitter_history (ops : List Checked.Jitter.Op)
    (hops : ∀ op, op ∈ ops → op ≠ .setRounds 0) (rs : List U64) :
    Checked.Jitter.runC ops Rngs.Jitter.newWithTimer rs =
      .ok (Checked.Jitter.runM ops Rngs.Jitter.newWithTimer rs) ∧
    (∀ p, Checked.Jitter.runC ops Rngs.Jitter.newWithTimer rs ≠ .error p) ∧
    (∀ j, Checked.Jitter.runC (.setRounds 0 :: ops) j rs = .error .assertFailed) :=
  ⟨Checked.Jitter.run_ok (Checked.Jitter.runC_eq ops _ Checked.Jitter.Inv_newWithTimer hops) rs,
   fun p => Checked.Jitter.runC_noPanic ops hops rs p,
   fun j => Checked.Jitter.runC_setRounds_zero j ops rs⟩

/-- `JitterRng::new()` (= `new_with_timer`, `test_timer` unless a cached rounds value exists,
    `set_rounds`, `gen_entropy`): `test_timer` never returns `Ok(0)`, so the `set_rounds`
    assertion cannot fire — for any timer script and any cached value -/
theorem jitter_new (cached : Nat) (rs : List U64) :
    Checked.Jitter.new cached rs = .ok (Checked.Jitter.newM cached rs) :=
  Checked.Jitter.run_ok (Checked.Jitter.new_eq cached) rs

/-- a stuck / exhausted timer blocks the call; it does not panic -/
example (j : Rngs.Jitter.Rng) : Checked.Jitter.nextU64 j [] = .ok none := rfl
example : Checked.Jitter.Inv Rngs.Jitter.newWithTimer := Checked.Jitter.Inv_newWithTimer

/-! ## the checks are not vacuous: outside the invariants they do fire -/

/-- `BlockRng64::next_u32` with `half_used` set at `index = 0`: `usize` underflow -/
example (c : BlockCoreC Unit 64) (res : Array U64) : Checked.BlockRng64.nextU32 c
    { results := res, index := 0, halfUsed := true, core := () } = .error .overflow := rfl
/-- `BlockRng::next_u64` on an exhausted 2-word buffer: `generate_and_set(2)` asserts -/
example (c : BlockCoreC Unit 32) (a b : U32) : Checked.BlockRng.nextU64 c
    { results := #[a, b], index := 2, core := () } = .error .assertFailed := rfl
/-- HC-128 with a misaligned counter: `assert!(self.counter1024 % 16 == 0)` -/
example (t res : Array U32) :
    Checked.Hc128.generate { t := t, counter := 8 } res = .error .assertFailed := rfl
/-- `read_u32_into` with a short source: the `assert!` -/
example : Checked.readU32s (List.replicate 31 0) 8 = .error .assertFailed := rfl

end Rngs.C14
