import Rngs.Lib.CheckedLemmasRandCore
namespace Rngs.C14
end Rngs.C14
