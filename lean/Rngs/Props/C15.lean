import Rngs.Model.Xoshiro
namespace Rngs.C15
theorem placeholder : True := trivial
end Rngs.C15
