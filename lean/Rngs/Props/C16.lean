import Rngs.Model.Xoshiro
namespace Rngs.C16
theorem placeholder : True := trivial
end Rngs.C16
