/-
  C16 — every collected 64-bit value of a JitterRng is handed out at most once.

  The literal sentence "any other output call (next_u64, fill_bytes, …) discards a pending half
  and starts a fresh collection" is FALSE for exactly one call shape (recorded known finding
  `C16-fill-1to4-uses-pending-half`): with a half pending, `fill_bytes(n)` for 1 ≤ n ≤ 4 is served
  by `next_u32` and returns bytes of the pending high half without reading the timer.
  `full_statement_false` refutes the literal sentence (`FullStatement`); the remaining theorems
  prove everything else, including the safety content: no half is ever returned twice, in any
  history of several instances with clones.

  `cost r = 1 + 3·(1 + r)` readings is the least a collection with `rounds = r` consumes.
-/
import Rngs.Lib.JitterOnce
namespace Rngs.C16
open Rngs Rngs.JitterOnce

/-! ## the literal statement, and its refutation -/

/-- "Every `fill_bytes` call with a non-empty buffer (for every state, in particular with a half
    pending; round counts 1..=255) starts a fresh collection that reads the timer at least
    `rounds` times, and its outcome does not depend on the pending flag." -/
def FullStatement : Prop :=
  ∀ (j : Jitter.Rng) (rs : List U64) (n : Nat) (bs : List U8) (j' : Jitter.Rng) (rs' : List U64),
    1 ≤ j.rounds → j.rounds ≤ 255 → 0 < n →
    Jitter.fill n j rs = some ((bs, j'), rs') →
      rs'.length + j.rounds ≤ rs.length ∧
      Jitter.fill n { j with halfUsed := false } rs = some ((bs, j'), rs')

/-- The exception, in general: a half is pending and 1..4 bytes are requested.  The call
    succeeds on every reading list, reads nothing, returns the first `n` little-endian bytes of
    the pending high half, and clears the flag. -/
theorem fill_small_pending_finding (j : Jitter.Rng) (n : Nat) (rs : List U64)
    (hp : j.halfUsed = true) (h1 : 1 ≤ n) (h4 : n ≤ 4) :
    Jitter.fill n j rs = some (((U32.toLE (hi j.data)).take n, { j with halfUsed := false }), rs) :=
  fill_small_pending hp h1 h4 rs

/-- the witness `[next_u32, fill_bytes 3]`: after a `next_u32` the flag is set; `fill_bytes(3)`
    then returns three bytes of the high half with an exhausted timer -/
theorem full_statement_false : ¬ FullStatement := by
  intro h
  have := (h ⟨0x1122334455667788#64, 64, 0, true⟩ [] 3 _ _ []
    (by decide) (by decide) (by decide)
    (fill_small_pending (j := ⟨0x1122334455667788#64, 64, 0, true⟩) rfl (by decide) (by decide) [])).1
  simp at this

/-- what the witness call returns: bytes 44 33 22 of the pending half 0x11223344 -/
example : Jitter.fill 3 ⟨0x1122334455667788#64, 64, 0, true⟩ [] =
    some (([0x44#8, 0x33#8, 0x22#8], ⟨0x1122334455667788#64, 64, 0, false⟩), []) := by
  rw [fill_small_pending rfl (by decide) (by decide)]; decide

/-! ## two consecutive `next_u32` -/

/-- With no half pending, two consecutive `next_u32` calls return the low and then the high half
    of the value `next_u64` returns from the same state on the same readings; the first consumes
    exactly the readings `next_u64` consumes, the second none; afterwards the generator is in the
    state `next_u64` leaves it in. -/
theorem nextU32_pair (j : Jitter.Rng) (rs : List U64) (v : U64) (j₁ : Jitter.Rng) (rs₁ : List U64)
    (hp : j.halfUsed = false) (h : (Jitter.nextU64 j).run rs = some ((v, j₁), rs₁)) :
    ∃ ja, (Jitter.nextU32 j).run rs = some ((lo v, ja), rs₁) ∧
      (Jitter.nextU32 ja).run rs₁ = some ((hi v, j₁), rs₁) := by
  have h' : Jitter.nextU64 j rs = some ((v, j₁), rs₁) := h
  obtain ⟨f1, _, f3, _⟩ := nextU64_facts h'
  refine ⟨{ j₁ with halfUsed := true }, ?_, ?_⟩
  · show Jitter.nextU32 j rs = _
    rw [nextU32_fresh hp, h']; rfl
  · show Jitter.nextU32 _ rs₁ = _
    rw [nextU32_pending rfl, ← f1]
    cases j₁; simp_all

/-- … and the first of the two blocks on an exhausted timer exactly when `next_u64` does. -/
theorem nextU32_none_iff (j : Jitter.Rng) (rs : List U64) (hp : j.halfUsed = false) :
    (Jitter.nextU32 j).run rs = none ↔ (Jitter.nextU64 j).run rs = none := by
  show Jitter.nextU32 j rs = none ↔ Jitter.nextU64 j rs = none
  rw [nextU32_fresh hp]; simp

/-- a pending half is handed out by `next_u32` without reading the timer, and only once: the
    flag is cleared -/
theorem nextU32_pending_once (j : Jitter.Rng) (rs : List U64) (hp : j.halfUsed = true) :
    (Jitter.nextU32 j).run rs = some ((hi j.data, { j with halfUsed := false }), rs) :=
  nextU32_pending hp rs

/-! ## calls that start a fresh collection -/

/-- `next_u64` discards a pending half: its outcome is that of the same call with the flag
    cleared, and when it succeeds it has read at least `1 + 3·(1 + rounds)` timer values and
    leaves no half pending. -/
theorem nextU64_fresh (j : Jitter.Rng) (rs : List U64) :
    (Jitter.nextU64 j).run rs = (Jitter.nextU64 { j with halfUsed := false }).run rs ∧
    ∀ v j' rs', (Jitter.nextU64 j).run rs = some ((v, j'), rs') →
      rs'.length + cost j.rounds ≤ rs.length ∧ j'.halfUsed = false ∧ j'.data = v :=
  ⟨rfl, fun _ _ _ h => ⟨(nextU64_facts h).2.2.2, (nextU64_facts h).2.2.1, (nextU64_facts h).1⟩⟩

/-- `next_u32` with no half pending runs a whole collection and returns its low half -/
theorem nextU32_fresh_collection (j : Jitter.Rng) (rs : List U64) (w : U32) (j' : Jitter.Rng)
    (rs' : List U64) (hp : j.halfUsed = false) (h : (Jitter.nextU32 j).run rs = some ((w, j'), rs')) :
    rs'.length + cost j.rounds ≤ rs.length ∧ w = lo j'.data ∧ j'.halfUsed = true :=
  let f := (nextU32_facts h).2.2.2 hp
  ⟨f.2.2, f.1, f.2.1⟩

/-- `fill_bytes(n)`, `n > 0`, in every case except (half pending ∧ n ≤ 4): the outcome is that of
    the same call with the flag cleared — the pending half is discarded — and a successful call
    has read at least `1 + 3·(1 + rounds)` timer values.  (Weakening of the literal statement by
    exactly the known finding.) -/
theorem fill_fresh_partial (j : Jitter.Rng) (n : Nat) (rs : List U64) (h0 : 0 < n)
    (hs : ¬ (j.halfUsed = true ∧ n ≤ 4)) :
    (Jitter.fill n j).run rs = (Jitter.fill n { j with halfUsed := false }).run rs ∧
    ∀ bs j' rs', (Jitter.fill n j).run rs = some ((bs, j'), rs') →
      rs'.length + cost j.rounds ≤ rs.length :=
  ⟨fill_flag hs rs, fun _ _ _ h => (fill_facts h).2.2 h0 hs⟩

/-- equivalently, in the shape of the design document: `n ≥ 5` or no half pending -/
theorem fill_fresh_partial' (j : Jitter.Rng) (n : Nat) (rs : List U64) (bs : List U8) (j' : Jitter.Rng)
    (rs' : List U64) (hn : 5 ≤ n ∨ (0 < n ∧ j.halfUsed = false))
    (h : (Jitter.fill n j).run rs = some ((bs, j'), rs')) :
    rs'.length + cost j.rounds ≤ rs.length := by
  refine (fill_fresh_partial j n rs ?_ ?_).2 bs j' rs' h
  · omega
  · intro hh
    rcases hn with h5 | ⟨_, hp⟩
    · omega
    · rw [hp] at hh; cases hh.1

/-- at least `rounds` readings, as the property words it (`cost r > r`) -/
theorem cost_gt_rounds (r : Nat) : r < cost r := by unfold cost; omega

/-! ## clones -/

/-- a clone holds no pending half (and the same pool and round count) -/
theorem clone_not_pending (j : Jitter.Rng) :
    (Jitter.clone j).halfUsed = false ∧ (Jitter.clone j).data = j.data ∧
      (Jitter.clone j).rounds = j.rounds :=
  clone_facts j

/-- The first output call of a clone, of whatever kind (`next_u32`, `next_u64`, `fill_bytes(n)`
    with n > 0 — also 1 ≤ n ≤ 4), comes from a fresh collection, even if the original still holds
    a pending half. -/
theorem clone_first_output_fresh (j : Jitter.Rng) (rs : List U64) :
    (∀ w j' rs', (Jitter.nextU32 (Jitter.clone j)).run rs = some ((w, j'), rs') →
        rs'.length + cost j.rounds ≤ rs.length ∧ w = lo j'.data) ∧
    (∀ v j' rs', (Jitter.nextU64 (Jitter.clone j)).run rs = some ((v, j'), rs') →
        rs'.length + cost j.rounds ≤ rs.length) ∧
    (∀ n bs j' rs', 0 < n → (Jitter.fill n (Jitter.clone j)).run rs = some ((bs, j'), rs') →
        rs'.length + cost j.rounds ≤ rs.length) := by
  refine ⟨fun w j' rs' h => ?_, fun v j' rs' h => ?_, fun n bs j' rs' h0 h => ?_⟩
  · have := nextU32_fresh_collection (Jitter.clone j) rs w j' rs' rfl h
    exact ⟨this.1, this.2.1⟩
  · exact (nextU64_facts (j := Jitter.clone j) h).2.2.2
  · exact (fill_facts (j := Jitter.clone j) h).2.2 h0 (fun hh => by cases hh.1)

/-! ## no half is ever returned twice: several instances, one timer, clones -/

/-- Run any history of `next_u32 i`, `next_u64 i`, `fill_bytes i n`, `clone i` on a system of
    instances none of which holds a pending half initially (e.g. fresh from `new_with_timer`).
    In the resulting trace (newest first), every call that hands out a pending half `w`
    (`took = some w`) is matched: the *same instance's* previous call collected a value `v`, handed
    out low-half bytes of it and left its high half pending (`left = some v`), `w = hi v`, and the
    call itself leaves nothing pending.  A clone is a new instance index, so it can never be the
    one that takes a half its original collected. -/
theorem no_half_twice (ops : List MOp) (s s' : Sys) (tr : List Ev)
    (h0 : ∀ j ∈ s.insts, j.halfUsed = false) (h : runM ops s [] = some (s', tr)) : Good tr :=
  (run_preserves ops (Inv.init s h0) trivial h).2

/-- … hence two hand-outs of a pending half by one instance are separated by a fresh collection
    of that instance: they are halves of different collected values.  `tr = a ++ e₁ :: mid ++ e₂ :: c`
    is newest-first: `e₂` happened before `e₁`. -/
theorem halves_of_different_collections (ops : List MOp) (s s' : Sys) (tr a mid c : List Ev) (e₁ e₂ : Ev)
    (h0 : ∀ j ∈ s.insts, j.halfUsed = false) (h : runM ops s [] = some (s', tr))
    (hd : tr = a ++ e₁ :: (mid ++ e₂ :: c)) (hi : e₁.inst = e₂.inst)
    (h1 : e₁.took ≠ none) (h2 : e₂.took ≠ none) :
    ∃ x ∈ mid, x.inst = e₁.inst ∧ x.left ≠ none :=
  (no_half_twice ops s s' tr h0 h).between hd hi h1 h2

/-- the invariant behind it, for every reachable system: a set pending flag is backed by that
    instance's own most recent call, which left exactly the current pool pending -/
theorem pending_is_own_latest (ops : List MOp) (s s' : Sys) (tr : List Ev)
    (h0 : ∀ j ∈ s.insts, j.halfUsed = false) (h : runM ops s [] = some (s', tr))
    (i : Nat) (j : Jitter.Rng) (hj : s'.insts[i]? = some j) (hp : j.halfUsed = true) :
    Owes i j.data tr :=
  (run_preserves ops (Inv.init s h0) trivial h).1 i j hj hp

/-- the events are truthful (1): `took = some w` means a half was pending, `w` is the high half
    of the pool, the call returned it (or its first n ≤ 4 bytes), read no timer value, and
    cleared the flag -/
theorem took_truthful (op : MOp) (s s' : Sys) (e : Ev) (w : U32) (h : stepM op s = some (s', e))
    (hw : e.took = some w) :
    ∃ j, s.insts[op.target]? = some j ∧ e.inst = op.target ∧ j.halfUsed = true ∧ w = hi j.data ∧
      s'.rs = s.rs ∧ s'.insts = s.insts.set op.target { j with halfUsed := false } ∧
      (e.out = .u32 w ∨ ∃ n, 1 ≤ n ∧ n ≤ 4 ∧ e.out = .bytes ((U32.toLE w).take n)) :=
  stepM_took h hw

/-- the events are truthful (2): `took = none` means no pending half went into the output — output
    and remaining readings are those of the same call with the target's flag cleared first — and
    an output call (`next_u32`, `next_u64`, `fill_bytes` n > 0) ran a whole collection -/
theorem took_none_truthful (op : MOp) (s s' : Sys) (e : Ev) (h : stepM op s = some (s', e))
    (hw : e.took = none) :
    ∃ j, s.insts[op.target]? = some j ∧
      (stepM op ⟨s.insts.set op.target { j with halfUsed := false }, s.rs⟩).map
        (fun r => (r.2.out, r.1.rs)) = some (e.out, s'.rs) ∧
      (op.isOutput = true → s'.rs.length + cost j.rounds ≤ s.rs.length) :=
  stepM_took_none h hw

/-- a clone is a new instance without a pending half, whatever its original holds -/
theorem clone_event (i : Nat) (s s' : Sys) (e : Ev) (h : stepM (.clone i) s = some (s', e)) :
    e.inst = s.insts.length ∧ e.took = none ∧ e.left = none ∧
      ∃ j, s.insts[i]? = some j ∧ s'.insts = s.insts ++ [Jitter.clone j] ∧ s'.rs = s.rs := by
  simp only [stepM] at h
  rcases hj : s.insts[i]? with _ | j
  · simp [hj] at h
  · simp only [hj, Option.some.injEq, Prod.mk.injEq] at h
    obtain ⟨hs, he⟩ := h
    subst hs he
    exact ⟨rfl, rfl, rfl, j, rfl, rfl, rfl⟩

/-! ## summary -/

/-- **C16, as far as it is true.** -/
theorem C16_partial :
    -- two consecutive next_u32 = (low, high) of the next_u64 value, timer read only in the first
    (∀ j rs v j₁ rs₁, j.halfUsed = false → (Jitter.nextU64 j).run rs = some ((v, j₁), rs₁) →
      ∃ ja, (Jitter.nextU32 j).run rs = some ((lo v, ja), rs₁) ∧
        (Jitter.nextU32 ja).run rs₁ = some ((hi v, j₁), rs₁)) ∧
    -- next_u64 / next_u32 without pending half / fill_bytes outside the finding: fresh collection
    (∀ j rs v j' rs', (Jitter.nextU64 j).run rs = some ((v, j'), rs') →
      rs'.length + cost j.rounds ≤ rs.length) ∧
    (∀ j rs w j' rs', j.halfUsed = false → (Jitter.nextU32 j).run rs = some ((w, j'), rs') →
      rs'.length + cost j.rounds ≤ rs.length) ∧
    (∀ j n rs bs j' rs', 0 < n → ¬ (j.halfUsed = true ∧ n ≤ 4) →
      (Jitter.fill n j).run rs = some ((bs, j'), rs') → rs'.length + cost j.rounds ≤ rs.length) ∧
    -- a clone holds no half
    (∀ j, (Jitter.clone j).halfUsed = false) ∧
    -- no half twice
    (∀ ops s s' tr, (∀ j ∈ s.insts, j.halfUsed = false) → runM ops s [] = some (s', tr) → Good tr) :=
  ⟨nextU32_pair,
   fun j rs _ _ _ h => ((nextU64_fresh j rs).2 _ _ _ h).1,
   fun j rs w j' rs' hp h => (nextU32_fresh_collection j rs w j' rs' hp h).1,
   fun j n rs bs j' rs' h0 hs h => (fill_fresh_partial j n rs h0 hs).2 bs j' rs' h,
   fun _ => rfl,
   no_half_twice⟩

/-! ## non-vacuity -/

/-- `rounds = 1`, 21 readings: enough for three collections of 7 readings each -/
def j0 : Jitter.Rng := { Jitter.newWithTimer with rounds := 1 }
def rs0 : List U64 := [1, 0, 4, 0, 0, 9, 0, 20, 0, 27, 0, 0, 39, 0, 50, 0, 51, 0, 0, 60, 0]

/-- the hypothesis of `nextU32_pair` is satisfiable -/
example : ((Jitter.nextU64 j0).run rs0).map (fun r => (r.1.1, r.2.length)) =
    some (0x8e4823bf20310f3a#64, 14) := by
  set_option maxRecDepth 100000 in decide +kernel

/-- a history with a clone: instance 0 takes a low half; its clone (instance 1) then collects
    afresh (`took = none`) and later serves `fill_bytes(3)` from *its own* pending half; instance 0
    gets its own high half 0x8e4823bf exactly once -/
example : (runM [.u32 0, .clone 0, .u32 1, .u32 0, .fill 1 3, .u64 0] ⟨[j0], rs0⟩ []).map
      (fun r => (r.2.reverse, r.1.rs)) =
    some ([⟨0, none, some 0x8e4823bf20310f3a#64, .u32 0x20310f3a#32⟩,
           ⟨1, none, none, .cloned 1⟩,
           ⟨1, none, some 0x63a5377db0fa7fab#64, .u32 0xb0fa7fab#32⟩,
           ⟨0, some 0x8e4823bf#32, none, .u32 0x8e4823bf#32⟩,
           ⟨1, some 0x63a5377d#32, none, .bytes [0x7d#8, 0x37#8, 0xa5#8]⟩,
           ⟨0, none, none, .u64 0x9d270abb5a003457#64⟩], []) := by
  set_option maxRecDepth 100000 in decide +kernel

end Rngs.C16
