/-
  C17 — Debug output of state-hiding generators never depends on seed or state.
  Thin, structural theorems: in the model the `{:?}` / `{:#?}` text is a function of the type and of
  the public read position only (and, for reachable generators, one of finitely many strings).
  That the real `fmt` implementations produce exactly this text is checked by the tie.
-/
import Rngs.Model.Serde
import Rngs.Model.Hc128
import Rngs.Model.Jitter
import Rngs.Props.C11
namespace Rngs.C17
open Rngs

/-- the Debug text of each state-hiding generator as the model renders it: (compact, pretty) -/
def dbgXorShift (_ : XorShift.State) : String × String := (Debug.xorshift, Debug.xorshift)
def dbgJitter (_ : Jitter.Rng) : String × String := (Debug.jitter, Debug.jitter)
def dbgHc128 (r : Hc128.Rng) : String × String := (Debug.hc128 r.index, Debug.hc128Pretty r.index)
def dbgIsaac (r : Isaac.Rng32) : String × String := (Debug.isaac r.index, Debug.isaacPretty r.index)
def dbgIsaac64 (r : Isaac.Rng64) : String × String :=
  (Debug.isaac64 r.index r.halfUsed, Debug.isaac64Pretty r.index r.halfUsed)

/-- XorShiftRng and JitterRng: one constant text for all states -/
theorem xorshift_constant (a b : XorShift.State) : dbgXorShift a = dbgXorShift b := rfl
theorem jitter_constant (a b : Jitter.Rng) : dbgJitter a = dbgJitter b := rfl

/-- buffered generators: two generators at the same public read position print the same text,
    whatever their seeds, tables, counters and buffered words -/
theorem hc128_position_only (a b : Hc128.Rng) (h : a.index = b.index) : dbgHc128 a = dbgHc128 b := by
  simp [dbgHc128, h]
theorem isaac_position_only (a b : Isaac.Rng32) (h : a.index = b.index) : dbgIsaac a = dbgIsaac b := by
  simp [dbgIsaac, h]
theorem isaac64_position_only (a b : Isaac.Rng64) (h : a.index = b.index) (hh : a.halfUsed = b.halfUsed) :
    dbgIsaac64 a = dbgIsaac64 b := by
  simp [dbgIsaac64, h, hh]

/-- same seed-independent history ⇒ same text: for IsaacRng / Isaac64Rng the read position after a
    history does not depend on the seed (it is determined by the operations alone), so two
    generators with different seeds and the same history print identical text. -/
theorem isaac_same_history (core1 core2 : Isaac.Core 32) (ops : List C11.Op)
    (h : (C11.run32 (BlockRng.new Isaac.blockCore32 core1) ops).index =
         (C11.run32 (BlockRng.new Isaac.blockCore32 core2) ops).index) :
    dbgIsaac (C11.run32 (BlockRng.new Isaac.blockCore32 core1) ops) =
    dbgIsaac (C11.run32 (BlockRng.new Isaac.blockCore32 core2) ops) :=
  isaac_position_only _ _ h

/-- for reachable IsaacRng states the text is one of 257 strings -/
theorem isaac_finitely_many (r : Isaac.Rng32) (h : SerdeLemmas.Inv32 r) :
    dbgIsaac r ∈ (List.range 257).map (fun i => (Debug.isaac i, Debug.isaacPretty i)) := by
  have hi : r.index ≤ 256 := h.2.2
  simp only [dbgIsaac, List.mem_map, List.mem_range]
  exact ⟨r.index, by omega, rfl⟩

/-- concrete renderings (the templates the tie compares the real `{:?}` / `{:#?}` output with) -/
example : (dbgHc128 ⟨#[], 3, ⟨#[], 0⟩⟩).1 = "Hc128Rng(BlockRng { core: Hc128Core {}, result_len: 16, index: 3 })" := by
  decide

example : (dbgIsaac64 ⟨#[], 7, true, ⟨#[], 0, 0, 0⟩⟩).1 =
    "Isaac64Rng(BlockRng64 { core: Isaac64Core {}, result_len: 256, index: 7, half_used: true })" := by decide

end Rngs.C17
