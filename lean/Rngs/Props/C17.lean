import Rngs.Model.Xoshiro
namespace Rngs.C17
theorem placeholder : True := trivial
end Rngs.C17
