/-
  C18 — Output streams are identical across build profiles and feature sets.
  What a model can carry: the only profile-dependent semantics of safe integer Rust are the
  arithmetic-overflow checks and `debug_assert!`s of builds with `overflow-checks` /
  `debug-assertions` (the dev profile).  `Rngs/Checked/*` is the dev-profile meaning of the source
  (every check made explicit), `Rngs/Model/*` is the release-profile meaning (wrapping / unchecked).
  The theorems below (corollaries of C14) say the two meanings coincide on every input and history:
  the checked run never takes an error branch and returns exactly the unchecked run's values.
  The serde feature only adds derives (no `cfg(feature)` code in any generator body).
  NOT carried by a theorem (labelled partial): optimisation levels — covered by replaying one corpus
  through harness builds in 2 (quick) / 8 (thorough) configurations —, the compiler itself, other
  targets (32-bit usize, big-endian).
-/
import Rngs.Props.C14
namespace Rngs.C18
open Rngs Rngs.Checked

/-- Hc128Rng, any seed, any operation history: dev meaning = release meaning. -/
theorem hc128_profiles_agree (seed : List U8) (h : seed.length = 32) (ops : List Op)
    (hops : ∀ op, op ∈ ops → op.wf) :
    Checked.BlockRng.runC Checked.Hc128.blockCoreC ops (Rngs.Hc128.fromSeed seed) =
      .ok (Checked.BlockRng.runM Rngs.Hc128.blockCore ops (Rngs.Hc128.fromSeed seed)) :=
  C14.hc128_history seed h ops hops

/-- IsaacRng / Isaac64Rng from any state satisfying the structural invariant, any history. -/
theorem isaac32_profiles_agree (r : Rngs.Isaac.Rng32)
    (h : Checked.BlockRng.Inv Rngs.Isaac.blockCore32 Checked.Isaac.CoreInv r) (ops : List Op)
    (hops : ∀ op, op ∈ ops → op.wf) :
    Checked.BlockRng.runC Checked.Isaac.blockCoreC32 ops r = .ok (Checked.BlockRng.runM Rngs.Isaac.blockCore32 ops r) :=
  (C14.isaac32_ops r h).2.2.2 ops hops

theorem isaac64_profiles_agree (r : Rngs.Isaac.Rng64)
    (h : Checked.BlockRng64.Inv Rngs.Isaac.blockCore64 Checked.Isaac.CoreInv r) (ops : List Op)
    (hops : ∀ op, op ∈ ops → op.wf) :
    Checked.BlockRng64.runC Checked.Isaac.blockCoreC64 ops r = .ok (Checked.BlockRng64.runM Rngs.Isaac.blockCore64 ops r) :=
  (C14.isaac64_ops r h).2.2.2 ops hops

/-- JitterRng under any scripted timer, any history without `set_rounds(0)`: the dev build computes
    exactly what the release build computes (and never panics). -/
theorem jitter_profiles_agree (ops : List Checked.Jitter.Op)
    (hops : ∀ op, op ∈ ops → op ≠ .setRounds 0) (rs : List U64) :
    Checked.Jitter.runC ops Rngs.Jitter.newWithTimer rs =
      .ok (Checked.Jitter.runM ops Rngs.Jitter.newWithTimer rs) :=
  (C14.jitter_history ops hops rs).1

/-- the non-buffered generators: `fill_bytes_via_next` is the only code with partial operations
    (slicing); for every generator, length and state the dev meaning is the release meaning. -/
theorem direct_profiles_agree {σ : Type} (g : Direct σ) (n : Nat) (s : σ) :
    Checked.fillBytesViaNext g n s = .ok (Rngs.fillBytesViaNext g n s) :=
  C14.fillBytesViaNext_no_panic g n s

/-- jumps: the `1 << b` of `impl_jump!` never shifts by the width or more -/
theorem xoshiro256PlusPlus_jump_profiles_agree (s : S4 64) :
    Checked.jumpLoop Xoshiro256PlusPlus.step S4.xor S4.zero XOSHIRO256_JUMP s = .ok (Xoshiro256PlusPlus.jump s) :=
  C14.xoshiro256PlusPlus_no_panic.2.2.2.2.1 s

end Rngs.C18
