import Rngs.Model.Xoshiro
namespace Rngs.C18
theorem placeholder : True := trivial
end Rngs.C18
