import Rngs.Model.Xoshiro
namespace Rngs.C19
theorem placeholder : True := trivial
end Rngs.C19
