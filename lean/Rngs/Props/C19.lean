/-
  C19 — Generators share no hidden state: results are independent of other instances.
  Frame theorem for the product of any number of model instances under any schedule.  The model's
  step functions take the instance's own state and nothing else (no global, no thread identity), so
  the theorem is true by construction of the product; it is stated and proved by induction so that
  the quantifier over schedules is explicit.  That the *code* has this shape is what the tie checks
  (interleaved multi-instance runs on several OS threads versus solo runs); real scheduler
  nondeterminism is sampled there, not enumerated.
-/
import Rngs.Model.RandCore
namespace Rngs.C19

variable {σ Op Out : Type}

/-- instances are indexed by naturals; a heterogeneous collection is covered by taking σ to be the
    sum of the state types and `step` the case split -/
abbrev World (σ : Type) := Nat → σ

def World.set (w : World σ) (i : Nat) (s : σ) : World σ := fun j => if j = i then s else w j

/-- run a schedule: each entry says which instance performs which operation next -/
def runWorld (step : σ → Op → Out × σ) : World σ → List (Nat × Op) → List (Nat × Out) × World σ
  | w, [] => ([], w)
  | w, (i, op) :: rest =>
    let r := step (w i) op
    let p := runWorld step (w.set i r.2) rest
    ((i, r.1) :: p.1, p.2)

/-- run one instance alone -/
def runSolo (step : σ → Op → Out × σ) : σ → List Op → List Out × σ
  | s, [] => ([], s)
  | s, op :: ops =>
    let r := step s op
    let p := runSolo step r.2 ops
    (r.1 :: p.1, p.2)

/-- the operations the schedule assigns to instance i, in order -/
def opsOf (i : Nat) : List (Nat × Op) → List Op
  | [] => []
  | (j, op) :: rest => if j = i then op :: opsOf i rest else opsOf i rest

/-- the outputs instance i produced during a world run, in order -/
def outsOf (i : Nat) : List (Nat × Out) → List Out
  | [] => []
  | (j, o) :: rest => if j = i then o :: outsOf i rest else outsOf i rest

/-- **Frame theorem.** For every schedule, every world and every instance i: the values i returns
    and the state it ends in are exactly those of running i alone on its own operations —
    whatever the other instances do in between, and in whatever order. -/
theorem frame (step : σ → Op → Out × σ) (w : World σ) (sched : List (Nat × Op)) (i : Nat) :
    (outsOf i (runWorld step w sched).1, (runWorld step w sched).2 i) = runSolo step (w i) (opsOf i sched) := by
  induction sched generalizing w with
  | nil => rfl
  | cons hd rest ih =>
    obtain ⟨j, op⟩ := hd
    by_cases h : j = i
    · subst h
      have := ih (w.set j (step (w j) op).2)
      simp only [runWorld, outsOf, opsOf, if_true, runSolo]
      simp only [World.set, if_true] at this
      rw [← this]
    · have := ih (w.set j (step (w j) op).2)
      have hw : (w.set j (step (w j) op).2) i = w i := by simp [World.set, Ne.symm h]
      simp only [runWorld, outsOf, opsOf, if_neg h]
      rw [hw] at this
      exact this

/-- Two schedules that give instance i the same operations (however the other instances'
    operations are interleaved, added or removed) give i the same outputs and final state. -/
theorem schedule_irrelevant (step : σ → Op → Out × σ) (w w' : World σ) (s1 s2 : List (Nat × Op)) (i : Nat)
    (hstate : w i = w' i) (hops : opsOf i s1 = opsOf i s2) :
    outsOf i (runWorld step w s1).1 = outsOf i (runWorld step w' s2).1 ∧
    (runWorld step w s1).2 i = (runWorld step w' s2).2 i := by
  have h1 := frame step w s1 i
  have h2 := frame step w' s2 i
  rw [hstate, hops] at h1
  rw [← h2] at h1
  exact ⟨congrArg Prod.fst h1, congrArg Prod.snd h1⟩

/-- instances that are never scheduled are untouched -/
theorem untouched (step : σ → Op → Out × σ) (w : World σ) (sched : List (Nat × Op)) (i : Nat)
    (h : opsOf i sched = []) : (runWorld step w sched).2 i = w i := by
  have := frame step w sched i
  rw [h] at this
  exact congrArg Prod.snd this

/-- non-vacuity: a concrete interleaving of two counters -/
example : (runWorld (fun (s : Nat) (op : Nat) => (s + op, s + op)) (fun _ => 0)
    [(0, 1), (1, 10), (0, 2), (1, 20)]).1 = [(0, 1), (1, 10), (0, 3), (1, 30)] := by decide

end Rngs.C19
