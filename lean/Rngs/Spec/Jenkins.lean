/-
  Rngs.Spec.Jenkins — Bob Jenkins' reference generators ISAAC (rand.c / rand.h / readable.c,
  32-bit words) and ISAAC-64 (isaac64.c / isaac64.h, 64-bit words), written from the C
  reference, not from the Rust crate:

    * `isaac()` as the ROLLED loop `for (i = 0; i < 256; ++i)` of readable.c (the C files
      rand.c / isaac64.c unroll it four times and split it into two halves; that is an
      optimisation of the same loop);
    * `randinit(flag)` with its three `for (i = 0; i < RANDSIZ; i += 8)` loops;
    * the `rand()` macro, which hands the results out as `randrsl[--randcnt]`, i.e. from
      index 255 DOWN to 0, and calls `isaac()` when the block is used up.

  RANDSIZL = 8, RANDSIZ = 256.  All arithmetic is modulo 2^w (`BitVec w`).  The two
  generators differ only in the word width and in the data of a `Variant`:
  the `ind` shift (2 resp. 3 = log2 of the word size in bytes), the four accumulator
  scramblers, the golden ratio and `mix`.

  Uniform formulation of `rngstep`.  rand.c writes `a = (a^(mix)) + *(m2++)` and calls it with
  `mix = a<<13, a>>6, a<<2, a>>16`; isaac64.c writes `a = (mix) + *(m2++)` and calls it with
  the full expressions `~(a^(a<<21)), a^(a>>5), a^(a<<12), a^(a>>33)`.  We use the second
  formulation for both: `Variant.accMix k a` is the complete value to which `mm[i+128]` is
  added, i.e. `a ^ (a << 13)` … for ISAAC.

  The arrays are `Vector (BitVec w) 256` with proved bounds: there is no default value and no
  silently dropped write anywhere in the specification (the only `getD` is in `rand1`, for a
  context whose `randcnt` exceeds RANDSIZ, which `randinit` never produces).
-/
import Rngs.Model.Words
namespace Rngs.Spec.Jenkins

abbrev RANDSIZL : Nat := 8
abbrev RANDSIZ : Nat := 256

/-- the eight locals `a … h` of `randinit` -/
structure Oct (w : Nat) where
  a : BitVec w
  b : BitVec w
  c : BitVec w
  d : BitVec w
  e : BitVec w
  f : BitVec w
  g : BitVec w
  h : BitVec w
  deriving DecidableEq, Repr

/-- what distinguishes rand.c from isaac64.c -/
structure Variant (w : Nat) where
  /-- `ind(mm,x) = mm[(x >> indShift) & (RANDSIZ-1)]` (`*(ub4 *)((ub1 *)(mm) + ((x) & ((RANDSIZ-1)<<2)))`) -/
  indShift : Nat
  /-- `accMix (i mod 4) a`: the scrambled accumulator of step `i`, before `mm[i+128]` is added -/
  accMix : Nat → BitVec w → BitVec w
  /-- the golden ratio -/
  golden : BitVec w
  /-- the `mix(a,b,c,d,e,f,g,h)` macro -/
  mix : Oct w → Oct w

/-- rand.c -/
def isaac32 : Variant 32 where
  indShift := 2
  accMix k a :=
    match k with
    | 0 => a ^^^ (a <<< 13)
    | 1 => a ^^^ (a >>> 6)
    | 2 => a ^^^ (a <<< 2)
    | _ => a ^^^ (a >>> 16)
  golden := 0x9e3779b9#32
  mix o :=
    let ⟨a, b, c, d, e, f, g, h⟩ := o
    let a := a ^^^ (b <<< 11); let d := d + a; let b := b + c
    let b := b ^^^ (c >>> 2);  let e := e + b; let c := c + d
    let c := c ^^^ (d <<< 8);  let f := f + c; let d := d + e
    let d := d ^^^ (e >>> 16); let g := g + d; let e := e + f
    let e := e ^^^ (f <<< 10); let h := h + e; let f := f + g
    let f := f ^^^ (g >>> 4);  let a := a + f; let g := g + h
    let g := g ^^^ (h <<< 8);  let b := b + g; let h := h + a
    let h := h ^^^ (a >>> 9);  let c := c + h; let a := a + b
    ⟨a, b, c, d, e, f, g, h⟩

/-- isaac64.c -/
def isaac64 : Variant 64 where
  indShift := 3
  accMix k a :=
    match k with
    | 0 => ~~~(a ^^^ (a <<< 21))
    | 1 => a ^^^ (a >>> 5)
    | 2 => a ^^^ (a <<< 12)
    | _ => a ^^^ (a >>> 33)
  golden := 0x9e3779b97f4a7c13#64
  mix o :=
    let ⟨a, b, c, d, e, f, g, h⟩ := o
    let a := a - e; let f := f ^^^ (h >>> 9);  let h := h + a
    let b := b - f; let g := g ^^^ (a <<< 9);  let a := a + b
    let c := c - g; let h := h ^^^ (b >>> 23); let b := b + c
    let d := d - h; let a := a ^^^ (c <<< 15); let c := c + d
    let e := e - a; let b := b ^^^ (d >>> 14); let d := d + e
    let f := f - b; let c := c ^^^ (e <<< 20); let e := e + f
    let g := g - c; let d := d ^^^ (f >>> 17); let f := f + g
    let h := h - d; let e := e ^^^ (g <<< 14); let g := g + h
    ⟨a, b, c, d, e, f, g, h⟩

/-- `struct randctx` -/
structure Ctx (w : Nat) where
  randcnt : Nat
  randrsl : Vector (BitVec w) RANDSIZ
  randmem : Vector (BitVec w) RANDSIZ
  randa : BitVec w
  randb : BitVec w
  randc : BitVec w

variable {w : Nat}

/-- `ind(mm,x)`: `mm[(x >> indShift) & 255]` -/
def ind (v : Variant w) (mm : Vector (BitVec w) RANDSIZ) (x : BitVec w) : BitVec w :=
  mm[(x >>> v.indShift).toNat % RANDSIZ]'(Nat.mod_lt _ (by decide))

/-! ### `isaac()` -/

/-- the locals of `isaac()` together with the two arrays it works on -/
structure Loop (w : Nat) where
  mm : Vector (BitVec w) RANDSIZ
  randrsl : Vector (BitVec w) RANDSIZ
  a : BitVec w
  b : BitVec w

/-- body of the rolled loop, iteration `i`:
    `x = mm[i]; a = accMix(i mod 4, a) + mm[(i+128) mod 256];
     mm[i] = y = ind(mm,x) + a + b; randrsl[i] = b = ind(mm, y >> RANDSIZL) + x` -/
def rngstep (v : Variant w) (i : Nat) (hi : i < RANDSIZ) (s : Loop w) : Loop w :=
  let x := s.mm[i]
  let a := v.accMix (i % 4) s.a + s.mm[(i + RANDSIZ / 2) % RANDSIZ]'(Nat.mod_lt _ (by decide))
  let y := ind v s.mm x + a + s.b
  let mm := s.mm.set i y
  let b := ind v mm (y >>> RANDSIZL) + x
  { mm := mm, randrsl := s.randrsl.set i b, a := a, b := b }

/-- `isaac(ctx)`: `a = randa; b = randb + (++randc); for i in 0..255 rngstep; randb = b; randa = a` -/
def isaac (v : Variant w) (ctx : Ctx w) : Ctx w :=
  let c := ctx.randc + 1
  let s := Nat.fold RANDSIZ (rngstep v)
    { mm := ctx.randmem, randrsl := ctx.randrsl, a := ctx.randa, b := ctx.randb + c }
  { ctx with randmem := s.mm, randrsl := s.randrsl, randa := s.a, randb := s.b, randc := c }

/-! ### `randinit()` -/

/-- `a+=r[i]; b+=r[i+1]; …; h+=r[i+7]` -/
def addFrom (o : Oct w) (r : Vector (BitVec w) RANDSIZ) (i : Nat) (hi : i + 7 < RANDSIZ) : Oct w :=
  ⟨o.a + r[i], o.b + r[i+1], o.c + r[i+2], o.d + r[i+3],
   o.e + r[i+4], o.f + r[i+5], o.g + r[i+6], o.h + r[i+7]⟩

/-- `m[i]=a; m[i+1]=b; …; m[i+7]=h` -/
def store (m : Vector (BitVec w) RANDSIZ) (i : Nat) (hi : i + 7 < RANDSIZ) (o : Oct w) :
    Vector (BitVec w) RANDSIZ :=
  (((((((m.set i o.a).set (i+1) o.b).set (i+2) o.c).set (i+3) o.d).set (i+4) o.e).set (i+5) o.f).set
    (i+6) o.g).set (i+7) o.h

/-- `a=b=c=d=e=f=g=h=golden; for (i=0; i<4; ++i) mix(a,b,c,d,e,f,g,h);` -/
def scrambled (v : Variant w) : Oct w :=
  let g := v.golden
  v.mix (v.mix (v.mix (v.mix ⟨g, g, g, g, g, g, g, g⟩)))

/-- `flag`, first loop (`i = 8*j`): add eight words of the seed `r = randrsl`, mix, store to `m` -/
def seedPass (v : Variant w) (r : Vector (BitVec w) RANDSIZ) (j : Nat) (hj : j < RANDSIZ / 8)
    (s : Oct w × Vector (BitVec w) RANDSIZ) : Oct w × Vector (BitVec w) RANDSIZ :=
  let o := v.mix (addFrom s.1 r (8 * j) (by omega))
  (o, store s.2 (8 * j) (by omega) o)

/-- `flag`, second loop: add eight words of `m` itself, mix, store to `m` -/
def secondPass (v : Variant w) (j : Nat) (hj : j < RANDSIZ / 8)
    (s : Oct w × Vector (BitVec w) RANDSIZ) : Oct w × Vector (BitVec w) RANDSIZ :=
  let o := v.mix (addFrom s.1 s.2 (8 * j) (by omega))
  (o, store s.2 (8 * j) (by omega) o)

/-- `!flag`: "fill in mm[] with messy stuff": mix, store to `m` -/
def plainPass (v : Variant w) (j : Nat) (hj : j < RANDSIZ / 8)
    (s : Oct w × Vector (BitVec w) RANDSIZ) : Oct w × Vector (BitVec w) RANDSIZ :=
  let o := v.mix s.1
  (o, store s.2 (8 * j) (by omega) o)

/-- `randinit(ctx, flag)` up to, but not including, its final `isaac(ctx); randcnt = RANDSIZ`.
    `randrsl` is only read. -/
def randinitPre (v : Variant w) (flag : Bool) (ctx : Ctx w) : Ctx w :=
  let s := (scrambled v, ctx.randmem)
  let s :=
    if flag then
      let s := Nat.fold (RANDSIZ / 8) (seedPass v ctx.randrsl) s
      Nat.fold (RANDSIZ / 8) (secondPass v) s
    else
      Nat.fold (RANDSIZ / 8) (plainPass v) s
  { ctx with randmem := s.2, randa := 0, randb := 0, randc := 0 }

/-- `randinit(ctx, flag)`: …; `isaac(ctx)` "fill in the first set of results";
    `randcnt = RANDSIZ` "prepare to use the first set of results" -/
def randinit (v : Variant w) (flag : Bool) (ctx : Ctx w) : Ctx w :=
  { isaac v (randinitPre v flag ctx) with randcnt := RANDSIZ }

/-! ### `rand()` -/

/-- the `rand(r)` macro:
    `(!(r)->randcnt-- ? (isaac(r), (r)->randcnt = RANDSIZ-1, (r)->randrsl[(r)->randcnt])
                       : (r)->randrsl[(r)->randcnt])` -/
def rand1 (v : Variant w) (ctx : Ctx w) : BitVec w × Ctx w :=
  if ctx.randcnt = 0 then
    let ctx := { isaac v ctx with randcnt := RANDSIZ - 1 }
    (ctx.randrsl[RANDSIZ - 1], ctx)
  else
    let ctx := { ctx with randcnt := ctx.randcnt - 1 }
    (ctx.randrsl.getD ctx.randcnt 0, ctx)

/-- the value returned by call number `k` (0-based) of `rand()` -/
def rand (v : Variant w) : Ctx w → Nat → BitVec w
  | ctx, 0 => (rand1 v ctx).1
  | ctx, k + 1 => rand v (rand1 v ctx).2 k

/-! ### the contexts the property talks about -/

def zeros : Vector (BitVec w) RANDSIZ := Vector.replicate RANDSIZ 0

/-- a context whose `randrsl` holds the seed words `ws` in its first slots and zero elsewhere;
    `randmem` is whatever it was (`mem0`; `randinit` overwrites all of it) -/
def seedCtx (ws : List (BitVec w)) (mem0 : Vector (BitVec w) RANDSIZ) : Ctx w where
  randcnt := 0
  randrsl := Vector.ofFn (fun i : Fin RANDSIZ => ws.getD i.val 0)
  randmem := mem0
  randa := 0
  randb := 0
  randc := 0

/-- the seeded reference generator: `randrsl[0..n) = ws`, rest 0, `randinit(ctx, TRUE)` -/
def seeded (v : Variant w) (ws : List (BitVec w)) (mem0 : Vector (BitVec w) RANDSIZ) : Ctx w :=
  randinit v true (seedCtx ws mem0)

/-- the reference generator "used unseeded": `randinit(ctx, FALSE)` -/
def unseeded (v : Variant w) (rsl0 mem0 : Vector (BitVec w) RANDSIZ) : Ctx w :=
  randinit v false { randcnt := 0, randrsl := rsl0, randmem := mem0, randa := 0, randb := 0, randc := 0 }

end Rngs.Spec.Jenkins
