/-
  Rngs.Spec.JitterProc — the Jitterentropy 2.1.0 collection procedure *as documented in
  rand_jitter/src/lib.rs*, written as a pure program on the list of timer readings.

  No monad, no fuel, no mutable collector state: the readings are first turned into the list of
  all complete measurements they contain (time stamps → 32-bit deltas → first and second
  differences → stuck flags, each a `zipWith` over the previous list), then the prefix that the
  procedure uses is cut off, the pool is folded over that prefix, and the number of readings
  consumed is computed arithmetically.

  Layout of a reading list, as seen by one collection:

      t₀ | c₁ T₁ c₁' | c₂ T₂ c₂' | c₃ T₃ c₃' | …

  `t₀` primes the previous time stamp.  Every measurement reads the timer three times: `cᵢ`
  and `cᵢ'` only choose the lengths of the two noise-source loops (memory access, throw-away
  LFSR rounds) and influence no result; `Tᵢ` is the time stamp of the measurement.
-/
import Rngs.Model.Words
namespace Rngs.Spec.JitterProc
open Rngs

/-! ## words -/

/-- the 64 bits of a word, least significant first -/
def bitsLE (v : U64) : List Bool := (List.range 64).map v.getLsbD

/-- `x as i64 as i32` -/
def trunc32 (x : U64) : U32 := x.setWidth 32
/-- `d as u64` for `d : i32` -/
def sext64 (d : U32) : U64 := d.signExtend 64

/-- the first `k` little-endian bytes of a word -/
def leBytes {w : Nat} (k : Nat) (x : BitVec w) : List U8 :=
  (List.range k).map fun i => (x >>> (8 * i)).setWidth 8

/-! ## the LFSR  x^64 + x^61 + x^56 + x^31 + x^28 + x^23 + 1, in the crate's wiring -/

/-- the shift values "are the polynomial values minus one"; 63 stands for x^64 -/
def TAPS : List Nat := [63, 60, 55, 30, 27, 22]

/-- xor bit `k` of the pool into bit 0 -/
def tap (p : U64) (k : Nat) : U64 := if p.getLsbD k then p ^^^ 1#64 else p

/-- one input bit: into bit 0, then the taps one after another (each sees the pool as the
    previous one left it), then rotate left by one -/
def lfsrStep (p : U64) (b : Bool) : U64 :=
  (TAPS.foldl tap (if b then p ^^^ 1#64 else p)).rotateLeft 1

/-- fold the 64 bits of `v` into the pool, least significant first -/
def lfsr (pool v : U64) : U64 := (bitsLE v).foldl lfsrStep pool

/-! ## stirring -/

def STIR_CONSTANT : U64 := 0x67452301efcdab89#64
def STIR_MIXER : U64 := 0x98badcfe10325476#64

def stirStep (mixer : U64) (b : Bool) : U64 :=
  (if b then mixer ^^^ STIR_CONSTANT else mixer).rotateLeft 1

def stir (pool : U64) : U64 := pool ^^^ (bitsLE pool).foldl stirStep STIR_MIXER

/-! ## readings → measurements -/

/-- the middle reading of every complete group of three -/
def middles : List U64 → List U64
  | _ :: t :: _ :: rest => t :: middles rest
  | _ => []

/-- the time stamps of a reading list: the priming reading, then one per measurement -/
def times : List U64 → List U64
  | [] => []
  | t0 :: rest => t0 :: middles rest

/-- `dᵢ = trunc32 (Tᵢ − Tᵢ₋₁)`, with `T₀ = t₀` -/
def deltas (ts : List U64) : List U32 :=
  List.zipWith (fun prev cur => trunc32 (cur - prev)) ts ts.tail

/-- `eᵢ = dᵢ₋₁ − dᵢ` (wrapping), with `d₀ = 0` (`last_delta` starts at 0) -/
def firstDiffs (ds : List U32) : List U32 :=
  List.zipWith (fun prev cur => prev - cur) (0#32 :: ds) ds

/-- `fᵢ = eᵢ − eᵢ₋₁` (wrapping), with `e₀ = 0` (`last_delta2` starts at 0) -/
def secondDiffs (es : List U32) : List U32 :=
  List.zipWith (fun prev cur => cur - prev) (0#32 :: es) es

/-- a measurement is stuck iff its delta, or the first, or the second difference is zero -/
def stuckFlags (ds : List U32) : List Bool :=
  let es := firstDiffs ds
  let fs := secondDiffs es
  List.zipWith (fun d ef => d == 0#32 || ef.1 == 0#32 || ef.2 == 0#32) ds (List.zip es fs)

structure Meas where
  delta : U32
  stuck : Bool
  deriving DecidableEq, Repr

/-- all complete measurements contained in a reading list -/
def measurements (rs : List U64) : List Meas :=
  let ds := deltas (times rs)
  List.zipWith Meas.mk ds (stuckFlags ds)

/-! ## one collection -/

/-- The measurements taken after the priming one: the shortest prefix of `ms` that contains
    `rounds` measurements which are not stuck (`none`: there is no such prefix). -/
def untilAccepted : Nat → List Meas → Option (List Meas)
  | 0, _ => some []
  | _ + 1, [] => none
  | need + 1, m :: ms =>
    (untilAccepted (if m.stuck then need + 1 else need) ms).map (m :: ·)

/-- every measurement folds its delta through the LFSR; the accepted ones rotate by 7 -/
def absorb (pool : U64) (m : Meas) : U64 :=
  let p := lfsr pool (sext64 m.delta)
  if m.stuck then p else p.rotateLeft 7

/-- One 64-bit result: `(value = new pool, remaining readings)`.  `none`: the readings do not
    contain the priming measurement plus `rounds` accepted ones. -/
def collect (pool : U64) (rounds : Nat) (rs : List U64) : Option (U64 × List U64) :=
  match measurements rs with
  | [] => none
  | prime :: ms =>
    (untilAccepted rounds ms).map fun taken =>
      (stir ((prime :: taken).foldl absorb pool), rs.drop (1 + 3 * (1 + taken.length)))

/-! ## the generator -/

/-- the observable state: the pool, `rounds`, and whether the high half of the pool is still
    owed to the next `next_u32`.  (Note: as in the crate the pending flag survives `timer_stats`
    and `set_rounds`; the half that is then handed out is the high half of the *current* pool.) -/
structure St where
  pool : U64
  rounds : Nat
  pending : Bool
  deriving DecidableEq, Repr

def nextU64 (st : St) (rs : List U64) : Option (U64 × St × List U64) :=
  (collect st.pool st.rounds rs).map fun (v, rest) =>
    (v, { st with pool := v, pending := false }, rest)

def nextU32 (st : St) (rs : List U64) : Option (U32 × St × List U64) :=
  if st.pending then
    some ((st.pool >>> 32).setWidth 32, { st with pending := false }, rs)
  else
    (collect st.pool st.rounds rs).map fun (v, rest) =>
      (v.setWidth 32, { st with pool := v, pending := true }, rest)

/-- `k` consecutive 64-bit results -/
def words : Nat → St → List U64 → Option (List U64 × St × List U64)
  | 0, st, rs => some ([], st, rs)
  | k + 1, st, rs =>
    match nextU64 st rs with
    | none => none
    | some (w, st, rs) => (words k st rs).map fun (ws, st, rs) => (w :: ws, st, rs)

/-- `fill_bytes` of an `n`-byte buffer -/
def fillBytes (n : Nat) (st : St) (rs : List U64) : Option (List U8 × St × List U64) :=
  match words (n / 8) st rs with
  | none => none
  | some (ws, st, rs) =>
    let body := ws.flatMap (leBytes 8)
    if 5 ≤ n % 8 then
      (nextU64 st rs).map fun (w, st, rs) => (body ++ leBytes (n % 8) w, st, rs)
    else if 1 ≤ n % 8 then
      (nextU32 st rs).map fun (w, st, rs) => (body ++ leBytes (n % 8) w, st, rs)
    else some (body, st, rs)

/-- `timer_stats(var)`: time, (two loop-count readings), time2; the raw 64-bit time is folded
    into the pool; the result is `time2 − time` -/
def timerStats (var : Bool) (st : St) (rs : List U64) : Option (U64 × St × List U64) :=
  match var, rs with
  | false, t :: t2 :: rest => some (t2 - t, { st with pool := lfsr st.pool t }, rest)
  | true, t :: _ :: _ :: t2 :: rest => some (t2 - t, { st with pool := lfsr st.pool t }, rest)
  | _, _ => none

/-- `set_rounds(r)`; `none` is the documented `assert!(rounds > 0)` -/
def setRounds (r : Nat) (st : St) : Option St :=
  if 0 < r then some { st with rounds := r } else none

/-! ## operation sequences -/

inductive Op where
  | nextU32
  | nextU64
  | fillBytes (n : Nat)
  | timerStats (var : Bool)
  | setRounds (r : Nat)
  deriving DecidableEq, Repr

/-- what an operation hands back to the caller -/
inductive Res where
  | u32 (v : U32)
  | u64 (v : U64)
  | bytes (bs : List U8)
  | stats (d : U64)      -- the `i64` of `timer_stats`, as its two's-complement image
  | unit
  deriving DecidableEq, Repr

/-- why a run stops early: the timer script ran out (the real generator would keep calling the
    timer), or `set_rounds(0)` hit its `assert!` -/
inductive Halt where
  | blocked
  | panicked
  deriving DecidableEq, Repr

def orBlocked {α : Type} : Option α → Except Halt α
  | none => .error .blocked
  | some a => .ok a

/-- one operation: result, new state, remaining readings -/
def stepSpec (op : Op) (st : St) (rs : List U64) : Except Halt (Res × St × List U64) :=
  match op with
  | .nextU32 => (orBlocked (nextU32 st rs)).map fun (v, st, rs) => (.u32 v, st, rs)
  | .nextU64 => (orBlocked (nextU64 st rs)).map fun (v, st, rs) => (.u64 v, st, rs)
  | .fillBytes n => (orBlocked (fillBytes n st rs)).map fun (bs, st, rs) => (.bytes bs, st, rs)
  | .timerStats var => (orBlocked (timerStats var st rs)).map fun (d, st, rs) => (.stats d, st, rs)
  | .setRounds r =>
    match setRounds r st with
    | none => .error .panicked
    | some st => .ok (.unit, st, rs)

/-- a sequence of operations: all results, final state, remaining readings -/
def runSpec : List Op → St → List U64 → Except Halt (List Res × St × List U64)
  | [], st, rs => .ok ([], st, rs)
  | op :: ops, st, rs =>
    match stepSpec op st rs with
    | .error h => .error h
    | .ok (r, st, rs) => (runSpec ops st rs).map fun (res, st, rs) => (r :: res, st, rs)

/-! ## non-vacuity: a concrete run -/

/-- rounds = 2; deltas 5, 12, 12 (stuck: first difference 0), 31, 33: the collection uses the
    priming measurement, skips one stuck measurement, and consumes 1 + 3·(1+2+1) = 13 of the
    15 readings. -/
example :
    (measurements [100, 0, 105, 0, 0, 117, 0, 0, 129, 0, 0, 160, 0, 0, 193, 0, 7, 8]).map
      (fun m => (m.delta.toNat, m.stuck)) = [(5, false), (12, false), (12, true), (31, false), (33, false)] := by
  decide

example :
    (collect 0 2 [100, 0, 105, 0, 0, 117, 0, 0, 129, 0, 0, 160, 0, 0, 193, 0, 7, 8]).map
      (fun r => r.2) = some [0, 193, 0, 7, 8] := by
  decide

/-- … and the value returned (`Jitter.genEntropy` of the model evaluates to the same number). -/
example :
    collect 0 2 [100, 0, 105, 0, 0, 117, 0, 0, 129, 0, 0, 160, 0, 0, 193, 0, 7, 8]
      = some (0x97a3828701143341#64, [0, 193, 0, 7, 8]) := by
  set_option maxRecDepth 100000 in decide +kernel

/-- with only 12 readings the second accepted measurement is incomplete: no result -/
example : collect 0 2 [100, 0, 105, 0, 0, 117, 0, 0, 129, 0, 0, 160] = none := by decide

end Rngs.Spec.JitterProc
