/-
  Rngs.Spec.Marsaglia — xor128 from G. Marsaglia, "Xorshift RNGs" (2003), p. 5:
    unsigned long xor128(){ static unsigned long x=…,y=…,z=…,w=…; unsigned long t;
      t=(x^(x<<11)); x=y; y=z; z=w; return( w=(w^(w>>19))^(t^(t>>8)) ); }
  over ℕ with explicit reduction modulo 2^32 (C `unsigned long` of the paper = 32 bits).
-/
import Rngs.Model.Words
namespace Rngs.Spec.Marsaglia

/-- state (x, y, z, w), each `< 2^32` -/
structure St where
  x : Nat
  y : Nat
  z : Nat
  w : Nat
  deriving DecidableEq, Repr

def M : Nat := 2 ^ 32

/-- one call of `xor128()`: returned value and new state -/
def xor128 (s : St) : Nat × St :=
  let t := s.x ^^^ ((s.x * 2 ^ 11) % M)
  let w' := (s.w ^^^ (s.w / 2 ^ 19)) ^^^ (t ^^^ (t / 2 ^ 8))
  (w', ⟨s.y, s.z, s.w, w'⟩)

/-- the output stream from a state -/
def stream : St → Nat → Nat
  | s, 0 => (xor128 s).1
  | s, k + 1 => stream (xor128 s).2 k

end Rngs.Spec.Marsaglia
