/-
  Rngs.Spec.Stream — the abstract machine of property C05: one forward-only native word
  stream, a cursor into it, and the fixed little-endian projections that `next_u32`,
  `next_u64` and `fill_bytes(n)` return.  Written from the property statement, not from the
  code.  Executable (the driver's `proj` command runs it on the *real* native stream of a
  twin generator) and the target of the C05 refinement theorems.
-/
import Rngs.Model.Words
namespace Rngs
namespace Spec
namespace Stream

inductive Op
  | u32
  | u64
  | fill (n : Nat)
  deriving DecidableEq, Repr

inductive Out
  | w32 (x : U32)
  | w64 (x : U64)
  | bytes (b : List U8)
  deriving DecidableEq, Repr

/-- cursor: `pos` words of the native stream have been consumed; `pending` = the high half
    of word `pos - 1` is still owed to an immediately following `next_u32`
    (Isaac64Rng, JitterRng only) -/
structure Cursor where
  pos : Nat
  pending : Bool
  deriving DecidableEq, Repr

def join (lo hi : U32) : U64 := (hi.setWidth 64 <<< 32) ||| lo.setWidth 64
def lowHalf (w : U64) : U32 := w.setWidth 32
def highHalf (w : U64) : U32 := (w >>> 32).setWidth 32

/-- bytes of the words `W p, …, W (p+k-1)` -/
def wordBytes {α : Type} (toLE : α → List U8) (W : Nat → α) (p k : Nat) : List U8 :=
  (List.range k).flatMap (fun i => toLE (W (p + i)))

/-! ### 32-bit-word generators (Xoroshiro64*, Xoshiro128*, XorShiftRng) -/
def step32 (W : Nat → U32) (c : Cursor) : Op → Out × Cursor
  | .u32 => (.w32 (W c.pos), ⟨c.pos + 1, false⟩)
  | .u64 => (.w64 (join (W c.pos) (W (c.pos + 1))), ⟨c.pos + 2, false⟩)
  | .fill n =>
    let k := n / 8
    let full := wordBytes U32.toLE W c.pos (2 * k)
    let r := n % 8
    if r > 4 then (.bytes (full ++ (wordBytes U32.toLE W (c.pos + 2 * k) 2).take r), ⟨c.pos + 2 * k + 2, false⟩)
    else if r > 0 then (.bytes (full ++ (U32.toLE (W (c.pos + 2 * k))).take r), ⟨c.pos + 2 * k + 1, false⟩)
    else (.bytes full, ⟨c.pos + 2 * k, false⟩)

/-! ### 64-bit-word generators (Xoroshiro128*, Xoshiro256*, Xoshiro512*, SplitMix64).
    `half w` is the documented 32-bit projection of the step that yields `w` (upper half,
    lower half, or SplitMix64's own finaliser of the same counter step — which is why the
    stream carries it explicitly). -/
def step64 (W : Nat → U64 × U32) (c : Cursor) : Op → Out × Cursor
  | .u32 => (.w32 (W c.pos).2, ⟨c.pos + 1, false⟩)
  | .u64 => (.w64 (W c.pos).1, ⟨c.pos + 1, false⟩)
  | .fill n =>
    let k := n / 8
    let full := wordBytes (fun w : U64 × U32 => U64.toLE w.1) W c.pos k
    let r := n % 8
    if r > 4 then (.bytes (full ++ (U64.toLE (W (c.pos + k)).1).take r), ⟨c.pos + k + 1, false⟩)
    else if r > 0 then (.bytes (full ++ (U32.toLE (W (c.pos + k)).2).take r), ⟨c.pos + k + 1, false⟩)
    else (.bytes full, ⟨c.pos + k, false⟩)

/-! ### buffered 32-bit-word generators (Hc128Rng, IsaacRng): buffering is invisible -/
def stepBlock32 (W : Nat → U32) (c : Cursor) : Op → Out × Cursor
  | .u32 => (.w32 (W c.pos), ⟨c.pos + 1, false⟩)
  | .u64 => (.w64 (join (W c.pos) (W (c.pos + 1))), ⟨c.pos + 2, false⟩)
  | .fill n =>
    let k := (n + 3) / 4
    (.bytes ((wordBytes U32.toLE W c.pos k).take n), ⟨c.pos + k, false⟩)

/-! ### Isaac64Rng: low half, then (only on an immediately following `next_u32`) high half -/
def stepBlock64 (W : Nat → U64) (c : Cursor) : Op → Out × Cursor
  | .u32 =>
    if c.pending then (.w32 (highHalf (W (c.pos - 1))), ⟨c.pos, false⟩)
    else (.w32 (lowHalf (W c.pos)), ⟨c.pos + 1, true⟩)
  | .u64 => (.w64 (W c.pos), ⟨c.pos + 1, false⟩)
  | .fill n =>
    let k := (n + 7) / 8
    (.bytes ((wordBytes U64.toLE W c.pos k).take n), ⟨c.pos + k, false⟩)

/-! ### JitterRng: halves as Isaac64Rng, `fill_bytes` through `next_u64` / `next_u32`
    (so a tail of 1..4 bytes is served by `next_u32`, pending half included) -/
def stepJitter (W : Nat → U64) (c : Cursor) : Op → Out × Cursor
  | .u32 =>
    if c.pending then (.w32 (highHalf (W (c.pos - 1))), ⟨c.pos, false⟩)
    else (.w32 (lowHalf (W c.pos)), ⟨c.pos + 1, true⟩)
  | .u64 => (.w64 (W c.pos), ⟨c.pos + 1, false⟩)
  | .fill n =>
    let k := n / 8
    let full := wordBytes U64.toLE W c.pos k
    let r := n % 8
    -- after at least one `next_u64` nothing is pending any more
    let pend := c.pending && k == 0
    if r > 4 then (.bytes (full ++ (U64.toLE (W (c.pos + k))).take r), ⟨c.pos + k + 1, false⟩)
    else if r > 0 then
      if pend then (.bytes ((U32.toLE (highHalf (W (c.pos - 1)))).take r), ⟨c.pos, false⟩)
      else (.bytes (full ++ (U32.toLE (lowHalf (W (c.pos + k)))).take r), ⟨c.pos + k + 1, true⟩)
    else (.bytes full, ⟨c.pos + k, if k == 0 then c.pending else false⟩)

/-- run a whole history -/
def run {σ : Type} (step : σ → Op → Out × σ) : σ → List Op → List Out × σ
  | s, [] => ([], s)
  | s, op :: ops =>
    let (o, s) := step s op
    let (os, s) := run step s ops
    (o :: os, s)

/-! ### driver entry point: `proj <class> <w0,w1,…> <op> <op> …` -/

def parseOp (tok : String) : Option Op :=
  if tok == "u32" then some .u32
  else if tok == "u64" then some .u64
  else if tok.startsWith "f" then (tok.drop 1).toNat?.map Op.fill
  else none

def projectLine (cls words : String) (ops : List String)
    (hex32 : U32 → String) (hex64 : U64 → String) (hexBytes : List U8 → String)
    (parseHex : String → Option Nat) : String :=
  let toks := if words == "-" then [] else words.splitOn ","
  -- a token is either `w` or `w:h` (64-bit word with its 32-bit projection)
  let nums : List (Nat × Nat) := toks.map (fun t =>
    match t.splitOn ":" with
    | [a, b] => ((parseHex a).getD 0, (parseHex b).getD 0)
    | [a] => ((parseHex a).getD 0, 0)
    | _ => (0, 0))
  let arr := nums.toArray
  let W32 : Nat → U32 := fun k => BitVec.ofNat 32 (arr.getD k (0, 0)).1
  let W64 : Nat → U64 := fun k => BitVec.ofNat 64 (arr.getD k (0, 0)).1
  let W64p : Nat → U64 × U32 := fun k =>
    let p := arr.getD k (0, 0)
    (BitVec.ofNat 64 p.1, BitVec.ofNat 32 p.2)
  match ops.mapM parseOp with
  | none => "bad-op"
  | some ops =>
    let c0 : Cursor := ⟨0, false⟩
    let res : Option (List Out × Cursor) :=
      if cls == "direct32" then some (run (step32 W32) c0 ops)
      else if cls == "direct64" then some (run (step64 W64p) c0 ops)
      else if cls == "block32" then some (run (stepBlock32 W32) c0 ops)
      else if cls == "block64" then some (run (stepBlock64 W64) c0 ops)
      else if cls == "jitter" then some (run (stepJitter W64) c0 ops)
      else none
    match res with
    | none => "bad-class"
    | some (outs, c) =>
      let shown := outs.map (fun o => match o with
        | .w32 x => hex32 x
        | .w64 x => hex64 x
        | .bytes b => hexBytes b)
      String.intercalate " " shown ++ s!" | pos={c.pos} pending={c.pending}"

end Stream
end Spec
end Rngs
