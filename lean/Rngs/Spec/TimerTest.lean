/-
  Rngs.Spec.TimerTest — the documented failure conditions of `JitterRng::test_timer` and the
  quantities they are about, as pure functions of the list of timer readings.

  Layout of the readings seen by one `test_timer` run:

      t₀ | T₀ c₀ c₀' T₀' | T₁ c₁ c₁' T₁' | …        (400 probes)

  `t₀` only primes the (unused) previous time stamp.  A probe reads the timer four times: `Tᵢ`,
  two loop-count readings that influence no result, `Tᵢ'`.  Probes 0..99 warm the caches and are
  only checked for zero readings / a zero delta; probes 100..399 are the counted ones.
-/
import Rngs.Spec.JitterProc
import Rngs.Model.Jitter
namespace Rngs.Spec.TimerTest
open Rngs

def NPROBES : Nat := 400
def CLEARCACHE : Nat := 100
def TESTLOOPCOUNT : Nat := 300

/-- `(time, time2)` of the first `n` complete probes of a reading list -/
def probesFrom : Nat → List U64 → List (U64 × U64)
  | n + 1, t :: _ :: _ :: t2 :: rest => (t, t2) :: probesFrom n rest
  | _, _ => []

/-- the (at most 400) complete probes after the initial reading -/
def probes (rs : List U64) : List (U64 × U64) := probesFrom NPROBES rs.tail

/-- the probes that are counted -/
def counted (rs : List U64) : List (U64 × U64) := (probes rs).drop CLEARCACHE

/-- `time2.wrapping_sub(time) as i64 as i32`, as a 32-bit word … -/
def delta32 (p : U64 × U64) : U32 := (p.2 - p.1).setWidth 32
/-- … and as the signed number it denotes -/
def delta (p : U64 × U64) : Int := (delta32 p).toInt

/-! ### the failure conditions -/

/-- a probe read the value 0 from the timer -/
def ZeroReading (rs : List U64) : Prop := ∃ p ∈ probes rs, p.1 = 0 ∨ p.2 = 0

/-- the two readings of a probe differ by a multiple of 2³² (zero 32-bit delta) -/
def ZeroDelta (rs : List U64) : Prop := ∃ p ∈ probes rs, delta p = 0

/-- number of counted probes whose second reading is not larger than the first -/
def backwards (rs : List U64) : Nat := (counted rs).countP fun p => decide (p.2 ≤ p.1)
def Backwards (rs : List U64) : Prop := 3 < backwards rs

/-- Σ |δᵢ − δᵢ₋₁| over the counted probes, the delta before the first counted probe being 0 -/
def deltaSum (rs : List U64) : Nat :=
  let ds := (counted rs).map delta
  (List.zipWith (fun prev cur => (cur - prev).natAbs) (0 :: ds) ds).sum

/-- the average absolute change between successive probe deltas -/
def mean (rs : List U64) : Nat := deltaSum rs / TESTLOOPCOUNT

/-- `log2(mean)/2` credits zero bits per round -/
def Tiny (rs : List U64) : Prop := mean rs < 2

/-- number of counted probes whose delta is a multiple of 100 -/
def mod100 (rs : List U64) : Nat := (counted rs).countP fun p => decide (delta p % 100 = 0)
def Mod100 (rs : List U64) : Prop := TESTLOOPCOUNT * 9 / 10 < mod100 rs

/-- number of counted probes flagged by the stuck test (zero delta, first or second difference),
    the test starting from `last_delta = last_delta2 = 0` at the first counted probe -/
def stuckCount (rs : List U64) : Nat :=
  (JitterProc.stuckFlags ((counted rs).map delta32)).countP id
def Stuck (rs : List U64) : Prop := TESTLOOPCOUNT * 9 / 10 < stuckCount rs

/-- which documented condition a `TimerError` names -/
def holds (e : Jitter.TimerError) (rs : List U64) : Prop :=
  match e with
  | .NoTimer => ZeroReading rs
  | .CoarseTimer => ZeroDelta rs ∨ Mod100 rs
  | .NotMonotonic => Backwards rs
  | .TinyVariations => Tiny rs
  | .TooManyStuck => Stuck rs

def AnyFailure (rs : List U64) : Prop :=
  ZeroReading rs ∨ ZeroDelta rs ∨ Backwards rs ∨ Tiny rs ∨ Mod100 rs ∨ Stuck rs

/-- number of binary digits of `m > 0`: the crate credits `bitlen(mean)/2` bits per round -/
def bitlen (m : Nat) : Nat := Nat.log2 m + 1

end Rngs.Spec.TimerTest
