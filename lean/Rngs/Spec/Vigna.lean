/-
  Rngs.Spec.Vigna — the reference `next()` functions of Blackman & Vigna
  (xoroshiro64star.c, xoroshiro64starstar.c, xoroshiro128plus.c, xoroshiro128plusplus.c,
  xoroshiro128starstar.c, xoshiro128plus.c, xoshiro128plusplus.c, xoshiro128starstar.c (1.1),
  xoshiro256plus.c, xoshiro256plusplus.c, xoshiro256starstar.c, xoshiro512plus.c,
  xoshiro512plusplus.c, xoshiro512starstar.c, splitmix64.c) and the dsiutils Mix4 finaliser,
  written over ℕ with C's unsigned semantics spelled out: `+`, `*`, `<<` reduce modulo 2^w,
  `rotl(x,k) = (x << k) | (x >> (w - k))`.  Statement order follows the C sources.
-/
namespace Rngs.Spec.Vigna

/-- `x << k` on a w-bit unsigned -/
def shl (w x k : Nat) : Nat := (x * 2 ^ k) % 2 ^ w
/-- `x >> k` -/
def shr (x k : Nat) : Nat := x / 2 ^ k
/-- `static inline uintN_t rotl(const uintN_t x, int k) { return (x << k) | (x >> (N - k)); }` -/
def rotl (w x k : Nat) : Nat := shl w x k ||| shr x (w - k)
def add (w x y : Nat) : Nat := (x + y) % 2 ^ w
def mul (w x y : Nat) : Nat := (x * y) % 2 ^ w

structure St2 where
  s0 : Nat
  s1 : Nat
  deriving DecidableEq, Repr
structure St4 where
  s0 : Nat
  s1 : Nat
  s2 : Nat
  s3 : Nat
  deriving DecidableEq, Repr
structure St8 where
  s0 : Nat
  s1 : Nat
  s2 : Nat
  s3 : Nat
  s4 : Nat
  s5 : Nat
  s6 : Nat
  s7 : Nat
  deriving DecidableEq, Repr

/-- xoroshiro state update with constants (a, b, c):
    `s1 ^= s0; s[0] = rotl(s0, a) ^ s1 ^ (s1 << b); s[1] = rotl(s1, c);` -/
def xoroshiro (w a b c : Nat) (s : St2) : St2 :=
  let s0 := s.s0
  let s1 := s.s1 ^^^ s0
  ⟨rotl w s0 a ^^^ s1 ^^^ shl w s1 b, rotl w s1 c⟩

/-- xoshiro (4 words) state update with constants (a, b):
    `t = s[1] << a; s[2] ^= s[0]; s[3] ^= s[1]; s[1] ^= s[2]; s[0] ^= s[3]; s[2] ^= t; s[3] = rotl(s[3], b);` -/
def xoshiro (w a b : Nat) (s : St4) : St4 :=
  let t := shl w s.s1 a
  let s2 := s.s2 ^^^ s.s0
  let s3 := s.s3 ^^^ s.s1
  let s1 := s.s1 ^^^ s2
  let s0 := s.s0 ^^^ s3
  let s2 := s2 ^^^ t
  let s3 := rotl w s3 b
  ⟨s0, s1, s2, s3⟩

/-- xoshiro512: `t = s[1] << 11; s[2]^=s[0]; s[5]^=s[1]; s[1]^=s[2]; s[7]^=s[3]; s[3]^=s[4];
    s[4]^=s[5]; s[0]^=s[6]; s[6]^=s[7]; s[6]^=t; s[7]=rotl(s[7],21);` -/
def xoshiro512 (s : St8) : St8 :=
  let t := shl 64 s.s1 11
  let s2 := s.s2 ^^^ s.s0
  let s5 := s.s5 ^^^ s.s1
  let s1 := s.s1 ^^^ s2
  let s7 := s.s7 ^^^ s.s3
  let s3 := s.s3 ^^^ s.s4
  let s4 := s.s4 ^^^ s5
  let s0 := s.s0 ^^^ s.s6
  let s6 := s.s6 ^^^ s7
  let s6 := s6 ^^^ t
  let s7 := rotl 64 s7 21
  ⟨s0, s1, s2, s3, s4, s5, s6, s7⟩

/-! ### `next()` of each generator: (result, new state) -/
def xoroshiro64star (s : St2) : Nat × St2 := (mul 32 s.s0 0x9E3779BB, xoroshiro 32 26 9 13 s)
def xoroshiro64starstar (s : St2) : Nat × St2 :=
  (mul 32 (rotl 32 (mul 32 s.s0 0x9E3779BB) 5) 5, xoroshiro 32 26 9 13 s)
def xoroshiro128plus (s : St2) : Nat × St2 := (add 64 s.s0 s.s1, xoroshiro 64 24 16 37 s)
def xoroshiro128plusplus (s : St2) : Nat × St2 :=
  (add 64 (rotl 64 (add 64 s.s0 s.s1) 17) s.s0, xoroshiro 64 49 21 28 s)
def xoroshiro128starstar (s : St2) : Nat × St2 :=
  (mul 64 (rotl 64 (mul 64 s.s0 5) 7) 9, xoroshiro 64 24 16 37 s)
def xoshiro128plus (s : St4) : Nat × St4 := (add 32 s.s0 s.s3, xoshiro 32 9 11 s)
def xoshiro128plusplus (s : St4) : Nat × St4 :=
  (add 32 (rotl 32 (add 32 s.s0 s.s3) 7) s.s0, xoshiro 32 9 11 s)
def xoshiro128starstar (s : St4) : Nat × St4 :=
  (mul 32 (rotl 32 (mul 32 s.s1 5) 7) 9, xoshiro 32 9 11 s)
def xoshiro256plus (s : St4) : Nat × St4 := (add 64 s.s0 s.s3, xoshiro 64 17 45 s)
def xoshiro256plusplus (s : St4) : Nat × St4 :=
  (add 64 (rotl 64 (add 64 s.s0 s.s3) 23) s.s0, xoshiro 64 17 45 s)
def xoshiro256starstar (s : St4) : Nat × St4 :=
  (mul 64 (rotl 64 (mul 64 s.s1 5) 7) 9, xoshiro 64 17 45 s)
def xoshiro512plus (s : St8) : Nat × St8 := (add 64 s.s0 s.s2, xoshiro512 s)
def xoshiro512plusplus (s : St8) : Nat × St8 :=
  (add 64 (rotl 64 (add 64 s.s0 s.s2) 17) s.s2, xoshiro512 s)
def xoshiro512starstar (s : St8) : Nat × St8 :=
  (mul 64 (rotl 64 (mul 64 s.s1 5) 7) 9, xoshiro512 s)

/-- splitmix64.c: `z = (x += 0x9e3779b97f4a7c15); z = (z ^ (z >> 30)) * 0xbf58476d1ce4e5b9;
    z = (z ^ (z >> 27)) * 0x94d049bb133111eb; return z ^ (z >> 31);` -/
def splitmix64 (x : Nat) : Nat × Nat :=
  let x := add 64 x 0x9e3779b97f4a7c15
  let z := x
  let z := mul 64 (z ^^^ shr z 30) 0xbf58476d1ce4e5b9
  let z := mul 64 (z ^^^ shr z 27) 0x94d049bb133111eb
  (z ^^^ shr z 31, x)

/-- dsiutils `SplitMix64RandomGenerator.nextInt()`: staffordMix4Upper32 of the same counter step:
    `z = (z ^ (z >>> 33)) * 0x62a9d9ed799705f5L; return (int)(((z ^ (z >>> 28)) * 0xcb24d0a5c88c35b3L) >>> 32);` -/
def splitmix64Mix4 (x : Nat) : Nat × Nat :=
  let x := add 64 x 0x9e3779b97f4a7c15
  let z := x
  let z := mul 64 (z ^^^ shr z 33) 0x62A9D9ED799705F5
  let z := mul 64 (z ^^^ shr z 28) 0xCB24D0A5C88C35B3
  (shr z 32, x)

/-- the output stream of a reference generator -/
def stream {σ : Type} (next : σ → Nat × σ) : σ → Nat → Nat
  | s, 0 => (next s).1
  | s, k + 1 => stream next (next s).2 k

end Rngs.Spec.Vigna
