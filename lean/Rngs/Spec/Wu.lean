/-
  Rngs.Spec.Wu — the stream cipher HC-128, written from
    Hongjun Wu, "The Stream Cipher HC-128", in: New Stream Cipher Designs — The eSTREAM
    Finalists, LNCS 4986, pp. 39–47 (sections 2.1 – 2.3),
  not from the Rust code.  Notation of the paper:

    +      addition modulo 2^32                 ⊟      subtraction modulo 512
    ⊕      bit-wise exclusive or                >> <<  shifts of a 32-bit word
    >>>    rotate right (32-bit word)           <<<    rotate left (32-bit word)

  Two tables P and Q of 512 32-bit words each; a 128-bit key K = K_0‖K_1‖K_2‖K_3 and a
  128-bit IV = IV_0‖…‖IV_3 (32-bit words); the keystream is s_0, s_1, s_2, … (32-bit words).

  The tables are represented as functions `Nat → U32` of which only the arguments
  0 … 511 are ever read or written (`upd` is a point update); this is executable
  (`#eval`, see the test vectors at the end of the file) and convenient for proofs.
-/
import Rngs.Model.Words
namespace Rngs.Spec.Wu

/-- `a ⊟ b`: subtraction modulo 512 -/
def sub512 (a b : Nat) : Nat := (a + 512 - b % 512) % 512
@[inherit_doc] infixl:65 " ⊟ " => sub512

/-- a table: only the entries 0 … 511 are used -/
abbrev Tbl := Nat → U32

/-- `T[i] = v` -/
def upd (T : Tbl) (i : Nat) (v : U32) : Tbl := fun j => if j = i then v else T j

/-! ## §2.1 the six functions -/

/-- f1(x) = (x >>> 7) ⊕ (x >>> 18) ⊕ (x >> 3) -/
def f1 (x : U32) : U32 := x.rotateRight 7 ^^^ x.rotateRight 18 ^^^ (x >>> 3)
/-- f2(x) = (x >>> 17) ⊕ (x >>> 19) ⊕ (x >> 10) -/
def f2 (x : U32) : U32 := x.rotateRight 17 ^^^ x.rotateRight 19 ^^^ (x >>> 10)
/-- g1(x, y, z) = ((x >>> 10) ⊕ (z >>> 23)) + (y >>> 8) -/
def g1 (x y z : U32) : U32 := (x.rotateRight 10 ^^^ z.rotateRight 23) + y.rotateRight 8
/-- g2(x, y, z) = ((x <<< 10) ⊕ (z <<< 23)) + (y <<< 8) -/
def g2 (x y z : U32) : U32 := (x.rotateLeft 10 ^^^ z.rotateLeft 23) + y.rotateLeft 8

/-- byte `n` of the word x = x_3 ‖ x_2 ‖ x_1 ‖ x_0 (x_0 the least significant byte), as a
    table index -/
def byte (x : U32) (n : Nat) : Nat := x.toNat / 2 ^ (8 * n) % 256

/-- h1(x) = Q[x_0] + Q[256 + x_2] -/
def h1 (Q : Tbl) (x : U32) : U32 := Q (byte x 0) + Q (256 + byte x 2)
/-- h2(x) = P[x_0] + P[256 + x_2] -/
def h2 (P : Tbl) (x : U32) : U32 := P (byte x 0) + P (256 + byte x 2)

/-! ## §2.2 initialisation (key and IV set-up) -/

/-- Step 1: the words W_0 … W_{n-1}, with K_{i+4} = K_i and IV_{i+4} = IV_i:
      W_i = K_i                                                       0 ≤ i ≤ 7
      W_i = IV_{i−8}                                                  8 ≤ i ≤ 15
      W_i = f2(W_{i−2}) + W_{i−7} + f1(W_{i−15}) + W_{i−16} + i       16 ≤ i ≤ 1279
    (built as an array so that it can be executed; `W_key`, `W_iv`, `W_rec` below restate
    the three equations for `W i`). -/
def Wtab (K IV : Vector U32 4) : Nat → Array U32
  | 0 => #[]
  | i + 1 =>
    let w := Wtab K IV i
    w.push
      (if i < 8 then K[i % 4]'(Nat.mod_lt _ (by decide))
       else if i < 16 then IV[(i - 8) % 4]'(Nat.mod_lt _ (by decide))
       else f2 w[i - 2]! + w[i - 7]! + f1 w[i - 15]! + w[i - 16]! + BitVec.ofNat 32 i)

/-- W_i -/
def W (K IV : Vector U32 4) (i : Nat) : U32 := (Wtab K IV (i + 1))[i]!

/-- the two tables -/
structure State where
  P : Tbl
  Q : Tbl

/-- Step 2: P[i] = W_{i+256}, Q[i] = W_{i+768} for 0 ≤ i ≤ 511 -/
def expand (K IV : Vector U32 4) : State :=
  let w := Wtab K IV 1280
  { P := fun i => w[i + 256]!, Q := fun i => w[i + 768]! }

/-- Step 3, first loop body: P[i] = (P[i] + g1(P[i⊟3], P[i⊟10], P[i⊟511])) ⊕ h1(P[i⊟12]) -/
def setupP (s : State) (i : Nat) : State :=
  let v := (s.P i + g1 (s.P (i ⊟ 3)) (s.P (i ⊟ 10)) (s.P (i ⊟ 511))) ^^^ h1 s.Q (s.P (i ⊟ 12))
  { s with P := upd s.P i v }

/-- Step 3, second loop body: Q[i] = (Q[i] + g2(Q[i⊟3], Q[i⊟10], Q[i⊟511])) ⊕ h2(Q[i⊟12]) -/
def setupQ (s : State) (i : Nat) : State :=
  let v := (s.Q i + g2 (s.Q (i ⊟ 3)) (s.Q (i ⊟ 10)) (s.Q (i ⊟ 511))) ^^^ h2 s.P (s.Q (i ⊟ 12))
  { s with Q := upd s.Q i v }

/-- the state after the initialisation process: expansion, then `for i = 0 to 511` the P
    loop, then `for i = 0 to 511` the Q loop (the cipher is run 1024 steps and the outputs
    replace the table elements) -/
def initState (K IV : Vector U32 4) : State :=
  let s := expand K IV
  let s := (List.range 512).foldl setupP s
  (List.range 512).foldl setupQ s

/-! ## §2.3 the keystream generation algorithm -/

/-- step `i` of the keystream generation: the output word s_i and the new state.
      j = i mod 512;
      if (i mod 1024) < 512 { P[j] = P[j] + g1(P[j⊟3], P[j⊟10], P[j⊟511]);  s_i = h1(P[j⊟12]) ⊕ P[j] }
      else                  { Q[j] = Q[j] + g2(Q[j⊟3], Q[j⊟10], Q[j⊟511]);  s_i = h2(Q[j⊟12]) ⊕ Q[j] } -/
def genStep (s : State) (i : Nat) : U32 × State :=
  let j := i % 512
  if i % 1024 < 512 then
    let P := upd s.P j (s.P j + g1 (s.P (j ⊟ 3)) (s.P (j ⊟ 10)) (s.P (j ⊟ 511)))
    (h1 s.Q (P (j ⊟ 12)) ^^^ P j, { s with P := P })
  else
    let Q := upd s.Q j (s.Q j + g2 (s.Q (j ⊟ 3)) (s.Q (j ⊟ 10)) (s.Q (j ⊟ 511)))
    (h2 s.P (Q (j ⊟ 12)) ^^^ Q j, { s with Q := Q })

/-- the state before step `i` (after the steps 0 … i−1) -/
def stateAt (K IV : Vector U32 4) : Nat → State
  | 0 => initState K IV
  | i + 1 => (genStep (stateAt K IV i) i).2

/-- the keystream word s_k of HC-128 under key `K` and initialisation vector `IV` -/
def keystream (K IV : Vector U32 4) (k : Nat) : U32 := (genStep (stateAt K IV k) k).1

/-! ## the equations of §2.2 step 1 for `W` -/

theorem size_Wtab (K IV : Vector U32 4) (n : Nat) : (Wtab K IV n).size = n := by
  induction n with
  | zero => rfl
  | succ n ih => simp [Wtab, ih]

theorem Wtab_getElem (K IV : Vector U32 4) {n i : Nat} (h : i < n) :
    (Wtab K IV n)[i]! = W K IV i := by
  induction n with
  | zero => omega
  | succ n ih =>
    by_cases hi : i = n
    · subst hi; rfl
    · have hlt : i < n := by omega
      rw [← ih hlt]
      have hs := size_Wtab K IV n
      simp only [Wtab, getElem!_pos, hs, hlt, Array.size_push, Nat.lt_succ_of_lt, Array.getElem_push_lt]

private theorem getElem!_push_size {a : Array U32} {i : Nat} (x : U32) (h : a.size = i) :
    (a.push x)[i]! = x := by
  subst h; simp

theorem W_key (K IV : Vector U32 4) {i : Nat} (h : i < 8) :
    W K IV i = K[i % 4]'(Nat.mod_lt _ (by decide)) := by
  have hs := size_Wtab K IV i
  simp only [W, Wtab, h, if_true]
  exact getElem!_push_size _ hs

theorem W_iv (K IV : Vector U32 4) {i : Nat} (h8 : 8 ≤ i) (h : i < 16) :
    W K IV i = IV[(i - 8) % 4]'(Nat.mod_lt _ (by decide)) := by
  have hs := size_Wtab K IV i
  have : ¬ i < 8 := by omega
  simp only [W, Wtab, h, this, if_true, if_false]
  exact getElem!_push_size _ hs

theorem W_rec (K IV : Vector U32 4) {i : Nat} (h : 16 ≤ i) :
    W K IV i = f2 (W K IV (i - 2)) + W K IV (i - 7) + f1 (W K IV (i - 15)) + W K IV (i - 16)
                + BitVec.ofNat 32 i := by
  have hs := size_Wtab K IV i
  have h1 : ¬ i < 8 := by omega
  have h2 : ¬ i < 16 := by omega
  have e2 := Wtab_getElem K IV (n := i) (i := i - 2) (by omega)
  have e7 := Wtab_getElem K IV (n := i) (i := i - 7) (by omega)
  have e15 := Wtab_getElem K IV (n := i) (i := i - 15) (by omega)
  have e16 := Wtab_getElem K IV (n := i) (i := i - 16) (by omega)
  rw [← e2, ← e7, ← e15, ← e16]
  simp only [W, Wtab, h1, h2, if_false]
  exact getElem!_push_size _ hs

/-! ## anchors

  Kernel-checked (`decide`) anchors for the notation: ⊟, the byte selection of h1/h2, the
  rotation directions, the first expanded word.

  The test vectors of the paper ("Test vectors of HC-128": the first keystream words for
  three key/IV pairs) need the whole initialisation (1264 expansion steps and 1024 set-up
  steps).  Direct kernel evaluation of `keystream` (`decide +kernel`) is far too slow: the
  kernel evaluates call-by-name on `Array`/closure data, `W … 400` alone takes about 50 s
  and the time grows faster than quadratically in the index.  Two substitutes:
    * here, `#guard`: evaluated by the compiler's evaluator when this file is built (a
      mismatch fails the build; these are tests, not theorems, and nothing depends on them);
    * in `Rngs/Lib/Hc128Packed.lean`: a second evaluator with bit-packed tables is proved
      equal to `keystream` for all inputs, and the kernel runs *that* in a few seconds:
      `Rngs.Hc128R.Packed.test_vector_1/2/3` and `test_positions_1616` are kernel-checked
      theorems stating exactly the four `#guard` facts below about `keystream`.
  The fourth check uses values from the `rand_hc` test-suite (not from the paper) for
  positions 1616 … 1619, which lie in a Q phase of the second pass through the tables.
-/

example : (0 ⊟ 3) = 509 ∧ (5 ⊟ 10) = 507 ∧ (5 ⊟ 511) = 6 ∧ (511 ⊟ 511) = 0 ∧ (12 ⊟ 12) = 0 := by
  decide
example : byte 0xa1b2c3d4#32 0 = 0xd4 ∧ byte 0xa1b2c3d4#32 2 = 0xb2 := by decide
example : (0x00000001#32).rotateRight 1 = 0x80000000#32 ∧
    (0x80000000#32).rotateLeft 1 = 0x00000001#32 := by decide
example : f1 0x80000000#32 = 0x11002000#32 ∧ f2 0x80000000#32 = 0x00205000#32 := by decide
example : g1 0x400#32 0x100#32 0x800000#32 = 1 ∧ g2 0x400000#32 0x1000000#32 0x200#32 = 1 := by
  decide
example : W #v[0, 0, 0, 0] #v[0, 0, 0, 0] 16 = 16 := by decide +kernel
example : W #v[1, 2, 3, 4] #v[5, 6, 7, 8] 6 = 3 ∧ W #v[1, 2, 3, 4] #v[5, 6, 7, 8] 13 = 6 := by
  decide +kernel

-- key = 0, IV = 0
#guard (List.range 4).map (keystream #v[0, 0, 0, 0] #v[0, 0, 0, 0]) =
  [0x73150082, 0x3bfd03a0, 0xfb2fd77f, 0xaa63af0e]
-- key = 0, IV = 1
#guard (List.range 4).map (keystream #v[0, 0, 0, 0] #v[1, 0, 0, 0]) =
  [0xc01893d5, 0xb7dbe958, 0x8f65ec98, 0x64176604]
-- key = 0x55, IV = 0
#guard (List.range 4).map (keystream #v[0x55, 0, 0, 0] #v[0, 0, 0, 0]) =
  [0x518251a4, 0x04b4930a, 0xb02af931, 0x0639f032]
-- key = 0, IV = 0, positions 1616 … 1619 (rand_hc `test_hc128_true_values_u64`)
#guard (List.range 4).map (fun k => keystream #v[0, 0, 0, 0] #v[0, 0, 0, 0] (1616 + k)) =
  [0x84d0fc10, 0xd8c4d6ca, 0xdc66e8e7, 0xf16a5d91]

end Rngs.Spec.Wu
