import Rngs.Model.Words
open Rngs
def joinHL (hi lo : U32) : U64 := (hi.setWidth 64 <<< 32) ||| lo.setWidth 64
theorem upper_join (hi lo : U32) : ((joinHL hi lo) >>> 32).setWidth 32 = hi := by
  unfold joinHL
  apply BitVec.eq_of_getLsbD_eq
  intro i hi'
  simp only [BitVec.getLsbD_setWidth, BitVec.getLsbD_ushiftRight, BitVec.getLsbD_or, BitVec.getLsbD_shiftLeft]
  have h1 : ¬ (32 + i < 32) := by omega
  have h2 : 32 + i < 64 := by omega
  have h3 : 32 + i - 32 = i := by omega
  have h4 : lo.getLsbD (32 + i) = false := BitVec.getLsbD_of_ge _ _ (by omega)
  have h5 : i < 64 := by omega
  simp [hi', h1, h2, h3, h5]
theorem lower_join (hi lo : U32) : (joinHL hi lo).setWidth 32 = lo := by
  unfold joinHL
  apply BitVec.eq_of_getLsbD_eq
  intro i hi'
  simp only [BitVec.getLsbD_setWidth, BitVec.getLsbD_or, BitVec.getLsbD_shiftLeft]
  have h1 : i < 32 := hi'
  have h2 : i < 64 := by omega
  simp [h1, h2]
theorem join_eta (y : U64) : joinHL ((y >>> 32).setWidth 32) (y.setWidth 32) = y := by
  unfold joinHL
  apply BitVec.eq_of_getLsbD_eq
  intro i hi'
  simp only [BitVec.getLsbD_setWidth, BitVec.getLsbD_ushiftRight, BitVec.getLsbD_or, BitVec.getLsbD_shiftLeft]
  by_cases h : i < 32
  · simp [h, hi']
  · have h3 : 32 + (i - 32) = i := by omega
    have h4 : i - 32 < 32 := by omega
    have h5 : i - 32 < 64 := by omega
    simp [h, hi', h3, h4, h5]
