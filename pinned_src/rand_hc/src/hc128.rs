// Copyright 2018 Developers of the Rand project.
//
// Licensed under the Apache License, Version 2.0 <LICENSE-APACHE or
// https://www.apache.org/licenses/LICENSE-2.0> or the MIT license
// <LICENSE-MIT or https://opensource.org/licenses/MIT>, at your
// option. This file may not be copied, modified, or distributed
// except according to those terms.

// Disable some noisy clippy lints.
#![allow(clippy::many_single_char_names)]
#![allow(clippy::identity_op)]
// Disable a lint that cannot be fixed without increasing the MSRV
#![allow(clippy::op_ref)]

//! The HC-128 random number generator.

use core::fmt;
use rand_core::block::{BlockRng, BlockRngCore, CryptoBlockRng};
use rand_core::{le, CryptoRng, RngCore, SeedableRng, TryRngCore};

const SEED_WORDS: usize = 8; // 128 bit key followed by 128 bit iv

/// A cryptographically secure random number generator that uses the HC-128
/// algorithm.
///
/// HC-128 is a stream cipher designed by Hongjun Wu[^1], that we use as an
/// RNG. It is selected as one of the "stream ciphers suitable for widespread
/// adoption" by eSTREAM[^2].
///
/// HC-128 is an array based RNG. In this it is similar to RC-4 and ISAAC before
/// it, but those have never been proven cryptographically secure (or have even
/// been significantly compromised, as in the case of RC-4[^5]).
///
/// Because HC-128 works with simple indexing into a large array and with a few
/// operations that parallelize well, it has very good performance. The size of
/// the array it needs, 4kb, can however be a disadvantage.
///
/// This implementation is not based on the version of HC-128 submitted to the
/// eSTREAM contest, but on a later version by the author with a few small
/// improvements from December 15, 2009[^3].
///
/// HC-128 has no known weaknesses that are easier to exploit than doing a
/// brute-force search of 2<sup>128</sup>. A very comprehensive analysis of the
/// current state of known attacks / weaknesses of HC-128 is given in *Some
/// Results On Analysis And Implementation Of HC-128 Stream Cipher*[^4].
///
/// The average cycle length is expected to be
/// 2<sup>1024*32+10-1</sup> = 2<sup>32777</sup>.
/// We support seeding with a 256-bit array, which matches the 128-bit key
/// concatenated with a 128-bit IV from the stream cipher.
///
/// This implementation uses an output buffer of sixteen `u32` words, and uses
/// [`BlockRng`] to implement the [`RngCore`] methods.
///
/// ## References
/// [^1]: Hongjun Wu (2008). ["The Stream Cipher HC-128"](
///       http://www.ecrypt.eu.org/stream/p3ciphers/hc/hc128_p3.pdf).
///       *The eSTREAM Finalists*, LNCS 4986, pp. 39–47, Springer-Verlag.
///
/// [^2]: [eSTREAM: the ECRYPT Stream Cipher Project](
///       http://www.ecrypt.eu.org/stream/)
///
/// [^3]: Hongjun Wu, [Stream Ciphers HC-128 and HC-256](
///       https://www.ntu.edu.sg/home/wuhj/research/hc/index.html)
///
/// [^4]: Shashwat Raizada (January 2015),["Some Results On Analysis And
///       Implementation Of HC-128 Stream Cipher"](
///       http://library.isical.ac.in:8080/jspui/bitstream/123456789/6636/1/TH431.pdf).
///
/// [^5]: Internet Engineering Task Force (February 2015),
///       ["Prohibiting RC4 Cipher Suites"](https://tools.ietf.org/html/rfc7465).
#[derive(Clone, Debug)]
pub struct Hc128Rng(BlockRng<Hc128Core>);

impl RngCore for Hc128Rng {
    #[inline]
    fn next_u32(&mut self) -> u32 {
        self.0.next_u32()
    }

    #[inline]
    fn next_u64(&mut self) -> u64 {
        self.0.next_u64()
    }

    #[inline]
    fn fill_bytes(&mut self, dest: &mut [u8]) {
        self.0.fill_bytes(dest)
    }
}

impl SeedableRng for Hc128Rng {
    type Seed = <Hc128Core as SeedableRng>::Seed;

    #[inline]
    fn from_seed(seed: Self::Seed) -> Self {
        Hc128Rng(BlockRng::<Hc128Core>::from_seed(seed))
    }

    #[inline]
    fn from_rng(rng: &mut impl RngCore) -> Self {
        Hc128Rng(BlockRng::<Hc128Core>::from_rng(rng))
    }

    #[inline]
    fn try_from_rng<R: TryRngCore>(rng: &mut R) -> Result<Self, R::Error> {
        BlockRng::<Hc128Core>::try_from_rng(rng).map(Hc128Rng)
    }
}

impl CryptoRng for Hc128Rng {}

impl PartialEq for Hc128Rng {
    fn eq(&self, rhs: &Self) -> bool {
        self.0.core == rhs.0.core && self.0.index() == rhs.0.index()
    }
}
impl Eq for Hc128Rng {}

/// The core of `Hc128Rng`, used with `BlockRng`.
#[derive(Clone)]
pub struct Hc128Core {
    t: [u32; 1024],
    counter1024: usize,
}

// Custom Debug implementation that does not expose the internal state
impl fmt::Debug for Hc128Core {
    fn fmt(&self, f: &mut fmt::Formatter) -> fmt::Result {
        write!(f, "Hc128Core {{}}")
    }
}

impl BlockRngCore for Hc128Core {
    type Item = u32;
    type Results = [u32; 16];

    fn generate(&mut self, results: &mut Self::Results) {
        assert!(self.counter1024 % 16 == 0);

        let cc = self.counter1024 % 512;
        let dd = (cc + 16) % 512;
        let ee = cc.wrapping_sub(16) % 512;
        // These asserts let the compiler optimize out the bounds checks.
        // Some of them may be superfluous, and that's fine:
        // they'll be optimized out if that's the case.
        assert!(ee + 15 < 512);
        assert!(cc + 15 < 512);
        assert!(dd < 512);

        if self.counter1024 & 512 == 0 {
            // P block
            results[0] = self.step_p(cc + 0, cc + 1, ee + 13, ee + 6, ee + 4);
            results[1] = self.step_p(cc + 1, cc + 2, ee + 14, ee + 7, ee + 5);
            results[2] = self.step_p(cc + 2, cc + 3, ee + 15, ee + 8, ee + 6);
            results[3] = self.step_p(cc + 3, cc + 4, cc + 0, ee + 9, ee + 7);
            results[4] = self.step_p(cc + 4, cc + 5, cc + 1, ee + 10, ee + 8);
            results[5] = self.step_p(cc + 5, cc + 6, cc + 2, ee + 11, ee + 9);
            results[6] = self.step_p(cc + 6, cc + 7, cc + 3, ee + 12, ee + 10);
            results[7] = self.step_p(cc + 7, cc + 8, cc + 4, ee + 13, ee + 11);
            results[8] = self.step_p(cc + 8, cc + 9, cc + 5, ee + 14, ee + 12);
            results[9] = self.step_p(cc + 9, cc + 10, cc + 6, ee + 15, ee + 13);
            results[10] = self.step_p(cc + 10, cc + 11, cc + 7, cc + 0, ee + 14);
            results[11] = self.step_p(cc + 11, cc + 12, cc + 8, cc + 1, ee + 15);
            results[12] = self.step_p(cc + 12, cc + 13, cc + 9, cc + 2, cc + 0);
            results[13] = self.step_p(cc + 13, cc + 14, cc + 10, cc + 3, cc + 1);
            results[14] = self.step_p(cc + 14, cc + 15, cc + 11, cc + 4, cc + 2);
            results[15] = self.step_p(cc + 15, dd + 0, cc + 12, cc + 5, cc + 3);
        } else {
            // Q block
            results[0] = self.step_q(cc + 0, cc + 1, ee + 13, ee + 6, ee + 4);
            results[1] = self.step_q(cc + 1, cc + 2, ee + 14, ee + 7, ee + 5);
            results[2] = self.step_q(cc + 2, cc + 3, ee + 15, ee + 8, ee + 6);
            results[3] = self.step_q(cc + 3, cc + 4, cc + 0, ee + 9, ee + 7);
            results[4] = self.step_q(cc + 4, cc + 5, cc + 1, ee + 10, ee + 8);
            results[5] = self.step_q(cc + 5, cc + 6, cc + 2, ee + 11, ee + 9);
            results[6] = self.step_q(cc + 6, cc + 7, cc + 3, ee + 12, ee + 10);
            results[7] = self.step_q(cc + 7, cc + 8, cc + 4, ee + 13, ee + 11);
            results[8] = self.step_q(cc + 8, cc + 9, cc + 5, ee + 14, ee + 12);
            results[9] = self.step_q(cc + 9, cc + 10, cc + 6, ee + 15, ee + 13);
            results[10] = self.step_q(cc + 10, cc + 11, cc + 7, cc + 0, ee + 14);
            results[11] = self.step_q(cc + 11, cc + 12, cc + 8, cc + 1, ee + 15);
            results[12] = self.step_q(cc + 12, cc + 13, cc + 9, cc + 2, cc + 0);
            results[13] = self.step_q(cc + 13, cc + 14, cc + 10, cc + 3, cc + 1);
            results[14] = self.step_q(cc + 14, cc + 15, cc + 11, cc + 4, cc + 2);
            results[15] = self.step_q(cc + 15, dd + 0, cc + 12, cc + 5, cc + 3);
        }
        self.counter1024 = self.counter1024.wrapping_add(16);
    }
}

impl Hc128Core {
    // One step of HC-128, update P and generate 32 bits keystream
    #[inline(always)]
    fn step_p(&mut self, i: usize, i511: usize, i3: usize, i10: usize, i12: usize) -> u32 {
        let (p, q) = self.t.split_at_mut(512);
        let temp0 = p[i511].rotate_right(23);
        let temp1 = p[i3].rotate_right(10);
        let temp2 = p[i10].rotate_right(8);
        p[i] = p[i].wrapping_add(temp2).wrapping_add(temp0 ^ temp1);
        let temp3 = {
            // The h1 function in HC-128
            let a = p[i12] as u8;
            let c = (p[i12] >> 16) as u8;
            q[a as usize].wrapping_add(q[256 + c as usize])
        };
        temp3 ^ p[i]
    }

    // One step of HC-128, update Q and generate 32 bits keystream
    // Similar to `step_p`, but `p` and `q` are swapped, and the rotates are to
    // the left instead of to the right.
    #[inline(always)]
    fn step_q(&mut self, i: usize, i511: usize, i3: usize, i10: usize, i12: usize) -> u32 {
        let (p, q) = self.t.split_at_mut(512);
        let temp0 = q[i511].rotate_left(23);
        let temp1 = q[i3].rotate_left(10);
        let temp2 = q[i10].rotate_left(8);
        q[i] = q[i].wrapping_add(temp2).wrapping_add(temp0 ^ temp1);
        let temp3 = {
            // The h2 function in HC-128
            let a = q[i12] as u8;
            let c = (q[i12] >> 16) as u8;
            p[a as usize].wrapping_add(p[256 + c as usize])
        };
        temp3 ^ q[i]
    }

    fn sixteen_steps(&mut self) {
        assert!(self.counter1024 % 16 == 0);

        let cc = self.counter1024 % 512;
        let dd = (cc + 16) % 512;
        let ee = cc.wrapping_sub(16) % 512;
        // These asserts let the compiler optimize out the bounds checks.
        // Some of them may be superfluous, and that's fine:
        // they'll be optimized out if that's the case.
        assert!(ee + 15 < 512);
        assert!(cc + 15 < 512);
        assert!(dd < 512);

        if self.counter1024 < 512 {
            // P block
            self.t[cc + 0] = self.step_p(cc + 0, cc + 1, ee + 13, ee + 6, ee + 4);
            self.t[cc + 1] = self.step_p(cc + 1, cc + 2, ee + 14, ee + 7, ee + 5);
            self.t[cc + 2] = self.step_p(cc + 2, cc + 3, ee + 15, ee + 8, ee + 6);
            self.t[cc + 3] = self.step_p(cc + 3, cc + 4, cc + 0, ee + 9, ee + 7);
            self.t[cc + 4] = self.step_p(cc + 4, cc + 5, cc + 1, ee + 10, ee + 8);
            self.t[cc + 5] = self.step_p(cc + 5, cc + 6, cc + 2, ee + 11, ee + 9);
            self.t[cc + 6] = self.step_p(cc + 6, cc + 7, cc + 3, ee + 12, ee + 10);
            self.t[cc + 7] = self.step_p(cc + 7, cc + 8, cc + 4, ee + 13, ee + 11);
            self.t[cc + 8] = self.step_p(cc + 8, cc + 9, cc + 5, ee + 14, ee + 12);
            self.t[cc + 9] = self.step_p(cc + 9, cc + 10, cc + 6, ee + 15, ee + 13);
            self.t[cc + 10] = self.step_p(cc + 10, cc + 11, cc + 7, cc + 0, ee + 14);
            self.t[cc + 11] = self.step_p(cc + 11, cc + 12, cc + 8, cc + 1, ee + 15);
            self.t[cc + 12] = self.step_p(cc + 12, cc + 13, cc + 9, cc + 2, cc + 0);
            self.t[cc + 13] = self.step_p(cc + 13, cc + 14, cc + 10, cc + 3, cc + 1);
            self.t[cc + 14] = self.step_p(cc + 14, cc + 15, cc + 11, cc + 4, cc + 2);
            self.t[cc + 15] = self.step_p(cc + 15, dd + 0, cc + 12, cc + 5, cc + 3);
        } else {
            // Q block
            self.t[cc + 512 + 0] = self.step_q(cc + 0, cc + 1, ee + 13, ee + 6, ee + 4);
            self.t[cc + 512 + 1] = self.step_q(cc + 1, cc + 2, ee + 14, ee + 7, ee + 5);
            self.t[cc + 512 + 2] = self.step_q(cc + 2, cc + 3, ee + 15, ee + 8, ee + 6);
            self.t[cc + 512 + 3] = self.step_q(cc + 3, cc + 4, cc + 0, ee + 9, ee + 7);
            self.t[cc + 512 + 4] = self.step_q(cc + 4, cc + 5, cc + 1, ee + 10, ee + 8);
            self.t[cc + 512 + 5] = self.step_q(cc + 5, cc + 6, cc + 2, ee + 11, ee + 9);
            self.t[cc + 512 + 6] = self.step_q(cc + 6, cc + 7, cc + 3, ee + 12, ee + 10);
            self.t[cc + 512 + 7] = self.step_q(cc + 7, cc + 8, cc + 4, ee + 13, ee + 11);
            self.t[cc + 512 + 8] = self.step_q(cc + 8, cc + 9, cc + 5, ee + 14, ee + 12);
            self.t[cc + 512 + 9] = self.step_q(cc + 9, cc + 10, cc + 6, ee + 15, ee + 13);
            self.t[cc + 512 + 10] = self.step_q(cc + 10, cc + 11, cc + 7, cc + 0, ee + 14);
            self.t[cc + 512 + 11] = self.step_q(cc + 11, cc + 12, cc + 8, cc + 1, ee + 15);
            self.t[cc + 512 + 12] = self.step_q(cc + 12, cc + 13, cc + 9, cc + 2, cc + 0);
            self.t[cc + 512 + 13] = self.step_q(cc + 13, cc + 14, cc + 10, cc + 3, cc + 1);
            self.t[cc + 512 + 14] = self.step_q(cc + 14, cc + 15, cc + 11, cc + 4, cc + 2);
            self.t[cc + 512 + 15] = self.step_q(cc + 15, dd + 0, cc + 12, cc + 5, cc + 3);
        }
        self.counter1024 += 16;
    }

    // Initialize an HC-128 random number generator. The seed has to be
    // 256 bits in length (`[u32; 8]`), matching the 128 bit `key` followed by
    // 128 bit `iv` when HC-128 where to be used as a stream cipher.
    #[inline(always)] // single use: SeedableRng::from_seed
    fn init(seed: [u32; SEED_WORDS]) -> Self {
        #[inline]
        fn f1(x: u32) -> u32 {
            x.rotate_right(7) ^ x.rotate_right(18) ^ (x >> 3)
        }

        #[inline]
        fn f2(x: u32) -> u32 {
            x.rotate_right(17) ^ x.rotate_right(19) ^ (x >> 10)
        }

        let mut core = Self {
            t: [0u32; 1024],
            counter1024: 0,
        };
        let t = &mut core.t;

        // Expand the key and iv into P and Q
        let (key, iv) = seed.split_at(4);
        t[..4].copy_from_slice(key);
        t[4..8].copy_from_slice(key);
        t[8..12].copy_from_slice(iv);
        t[12..16].copy_from_slice(iv);

        // Generate the 256 intermediate values W[16] ... W[256+16-1], and
        // copy the last 16 generated values to the start op P.
        for i in 16..256 + 16 {
            t[i] = f2(t[i - 2])
                .wrapping_add(t[i - 7])
                .wrapping_add(f1(t[i - 15]))
                .wrapping_add(t[i - 16])
                .wrapping_add(i as u32);
        }
        {
            let (p1, p2) = t.split_at_mut(256);
            p1[0..16].copy_from_slice(&p2[0..16]);
        }

        // Generate both the P and Q tables
        for i in 16..1024 {
            t[i] = f2(t[i - 2])
                .wrapping_add(t[i - 7])
                .wrapping_add(f1(t[i - 15]))
                .wrapping_add(t[i - 16])
                .wrapping_add(256 + i as u32);
        }

        // run the cipher 1024 steps
        for _ in 0..64 {
            core.sixteen_steps()
        }
        core.counter1024 = 0;
        core
    }
}

impl SeedableRng for Hc128Core {
    type Seed = [u8; SEED_WORDS * 4];

    /// Create an HC-128 random number generator with a seed. The seed has to be
    /// 256 bits in length, matching the 128 bit `key` followed by 128 bit `iv`
    /// when HC-128 where to be used as a stream cipher.
    fn from_seed(seed: Self::Seed) -> Self {
        let mut seed_u32 = [0u32; SEED_WORDS];
        le::read_u32_into(&seed, &mut seed_u32);
        Self::init(seed_u32)
    }
}

impl CryptoBlockRng for Hc128Core {}

// Custom PartialEq implementation as it can't currently be derived from an array of size 1024
impl PartialEq for Hc128Core {
    fn eq(&self, rhs: &Self) -> bool {
        &self.t[..] == &rhs.t[..] && self.counter1024 == rhs.counter1024
    }
}
impl Eq for Hc128Core {}

#[cfg(test)]
mod test {
    use super::Hc128Rng;
    use ::rand_core::{RngCore, SeedableRng};

    #[test]
    // Test vector 1 from the paper "The Stream Cipher HC-128"
    fn test_hc128_true_values_a() {
        #[rustfmt::skip]
        let seed = [0,0,0,0, 0,0,0,0, 0,0,0,0, 0,0,0,0, // key
                    0,0,0,0, 0,0,0,0, 0,0,0,0, 0,0,0,0]; // iv
        let mut rng = Hc128Rng::from_seed(seed);

        let mut results = [0u32; 16];
        for i in results.iter_mut() {
            *i = rng.next_u32();
        }
        #[rustfmt::skip]
        let expected = [0x73150082, 0x3bfd03a0, 0xfb2fd77f, 0xaa63af0e,
                        0xde122fc6, 0xa7dc29b6, 0x62a68527, 0x8b75ec68,
                        0x9036db1e, 0x81896005, 0x00ade078, 0x491fbf9a,
                        0x1cdc3013, 0x6c3d6e24, 0x90f664b2, 0x9cd57102];
        assert_eq!(results, expected);
    }

    #[test]
    // Test vector 2 from the paper "The Stream Cipher HC-128"
    fn test_hc128_true_values_b() {
        #[rustfmt::skip]
        let seed = [0,0,0,0, 0,0,0,0, 0,0,0,0, 0,0,0,0, // key
                    1,0,0,0, 0,0,0,0, 0,0,0,0, 0,0,0,0]; // iv
        let mut rng = Hc128Rng::from_seed(seed);

        let mut results = [0u32; 16];
        for i in results.iter_mut() {
            *i = rng.next_u32();
        }
        #[rustfmt::skip]
        let expected = [0xc01893d5, 0xb7dbe958, 0x8f65ec98, 0x64176604,
                        0x36fc6724, 0xc82c6eec, 0x1b1c38a7, 0xc9b42a95,
                        0x323ef123, 0x0a6a908b, 0xce757b68, 0x9f14f7bb,
                        0xe4cde011, 0xaeb5173f, 0x89608c94, 0xb5cf46ca];
        assert_eq!(results, expected);
    }

    #[test]
    // Test vector 3 from the paper "The Stream Cipher HC-128"
    fn test_hc128_true_values_c() {
        #[rustfmt::skip]
        let seed = [0x55,0,0,0, 0,0,0,0, 0,0,0,0, 0,0,0,0, // key
                    0,0,0,0, 0,0,0,0, 0,0,0,0, 0,0,0,0]; // iv
        let mut rng = Hc128Rng::from_seed(seed);

        let mut results = [0u32; 16];
        for i in results.iter_mut() {
            *i = rng.next_u32();
        }
        #[rustfmt::skip]
        let expected = [0x518251a4, 0x04b4930a, 0xb02af931, 0x0639f032,
                        0xbcb4a47a, 0x5722480b, 0x2bf99f72, 0xcdc0e566,
                        0x310f0c56, 0xd3cc83e8, 0x663db8ef, 0x62dfe07f,
                        0x593e1790, 0xc5ceaa9c, 0xab03806f, 0xc9a6e5a0];
        assert_eq!(results, expected);
    }

    #[test]
    fn test_hc128_true_values_u64() {
        #[rustfmt::skip]
        let seed = [0,0,0,0, 0,0,0,0, 0,0,0,0, 0,0,0,0, // key
                    0,0,0,0, 0,0,0,0, 0,0,0,0, 0,0,0,0]; // iv
        let mut rng = Hc128Rng::from_seed(seed);

        let mut results = [0u64; 8];
        for i in results.iter_mut() {
            *i = rng.next_u64();
        }
        #[rustfmt::skip]
        let expected = [0x3bfd03a073150082, 0xaa63af0efb2fd77f,
                        0xa7dc29b6de122fc6, 0x8b75ec6862a68527,
                        0x818960059036db1e, 0x491fbf9a00ade078,
                        0x6c3d6e241cdc3013, 0x9cd5710290f664b2];
        assert_eq!(results, expected);

        // The RNG operates in a P block of 512 results and next a Q block.
        // After skipping 2*800 u32 results we end up somewhere in the Q block
        // of the second round
        for _ in 0..800 {
            rng.next_u64();
        }

        for i in results.iter_mut() {
            *i = rng.next_u64();
        }
        #[rustfmt::skip]
        let expected = [0xd8c4d6ca84d0fc10, 0xf16a5d91dc66e8e7,
                        0xd800de5bc37a8653, 0x7bae1f88c0dfbb4c,
                        0x3bfe1f374e6d4d14, 0x424b55676be3fa06,
                        0xe3a1e8758cbff579, 0x417f7198c5652bcd];
        assert_eq!(results, expected);
    }

    #[test]
    fn test_hc128_true_values_bytes() {
        #[rustfmt::skip]
        let seed = [0x55,0,0,0, 0,0,0,0, 0,0,0,0, 0,0,0,0, // key
                    0,0,0,0, 0,0,0,0, 0,0,0,0, 0,0,0,0]; // iv
        let mut rng = Hc128Rng::from_seed(seed);
        #[rustfmt::skip]
        let expected = [0x31, 0xf9, 0x2a, 0xb0, 0x32, 0xf0, 0x39, 0x06,
                 0x7a, 0xa4, 0xb4, 0xbc, 0x0b, 0x48, 0x22, 0x57,
                 0x72, 0x9f, 0xf9, 0x2b, 0x66, 0xe5, 0xc0, 0xcd,
                 0x56, 0x0c, 0x0f, 0x31, 0xe8, 0x83, 0xcc, 0xd3,
                 0xef, 0xb8, 0x3d, 0x66, 0x7f, 0xe0, 0xdf, 0x62,
                 0x90, 0x17, 0x3e, 0x59, 0x9c, 0xaa, 0xce, 0xc5,
                 0x6f, 0x80, 0x03, 0xab, 0xa0, 0xe5, 0xa6, 0xc9,
                 0x60, 0x95, 0x84, 0x7a, 0xa5, 0x68, 0x5a, 0x84,
                 0xea, 0xd5, 0xf3, 0xea, 0x73, 0xa9, 0xad, 0x01,
                 0x79, 0x7d, 0xbe, 0x9f, 0xea, 0xe3, 0xf9, 0x74,
                 0x0e, 0xda, 0x2f, 0xa0, 0xe4, 0x7b, 0x4b, 0x1b,
                 0xdd, 0x17, 0x69, 0x4a, 0xfe, 0x9f, 0x56, 0x95,
                 0xad, 0x83, 0x6b, 0x9d, 0x60, 0xa1, 0x99, 0x96,
                 0x90, 0x00, 0x66, 0x7f, 0xfa, 0x7e, 0x65, 0xe9,
                 0xac, 0x8b, 0x92, 0x34, 0x77, 0xb4, 0x23, 0xd0,
                 0xb9, 0xab, 0xb1, 0x47, 0x7d, 0x4a, 0x13, 0x0a];

        // Pick a somewhat large buffer so we can test filling with the
        // remainder from `state.results`, directly filling the buffer, and
        // filling the remainder of the buffer.
        let mut buffer = [0u8; 16 * 4 * 2];
        // Consume a value so that we have a remainder.
        assert!(rng.next_u64() == 0x04b4930a518251a4);
        rng.fill_bytes(&mut buffer);

        // [u8; 128] doesn't implement PartialEq
        assert_eq!(buffer.len(), expected.len());
        for (b, e) in buffer.iter().zip(expected.iter()) {
            assert_eq!(b, e);
        }
    }

    #[test]
    fn test_hc128_clone() {
        #[rustfmt::skip]
        let seed = [0x55,0,0,0, 0,0,0,0, 0,0,0,0, 0,0,0,0, // key
                    0,0,0,0, 0,0,0,0, 0,0,0,0, 0,0,0,0]; // iv
        let mut rng1 = Hc128Rng::from_seed(seed);
        let mut rng2 = rng1.clone();
        for _ in 0..16 {
            assert_eq!(rng1.next_u32(), rng2.next_u32());
        }
    }
}
