// Copyright 2018 Developers of the Rand project.
//
// Licensed under the Apache License, Version 2.0 <LICENSE-APACHE or
// https://www.apache.org/licenses/LICENSE-2.0> or the MIT license
// <LICENSE-MIT or https://opensource.org/licenses/MIT>, at your
// option. This file may not be copied, modified, or distributed
// except according to those terms.

//! The HC128 random number generator.
//!
//! To initialize a generator, use the [`SeedableRng`][rand_core::SeedableRng] trait.

#![doc(
    html_logo_url = "https://www.rust-lang.org/logos/rust-logo-128x128-blk.png",
    html_favicon_url = "https://www.rust-lang.org/favicon.ico",
    html_root_url = "https://rust-random.github.io/rand/"
)]
#![forbid(unsafe_code)]
#![deny(missing_docs)]
#![deny(missing_debug_implementations)]
#![doc(test(attr(allow(unused_variables), deny(warnings))))]
#![no_std]

mod hc128;

pub use hc128::{Hc128Core, Hc128Rng};
