// Copyright 2018 Developers of the Rand project.
// Copyright 2013-2018 The Rust Project Developers.
//
// Licensed under the Apache License, Version 2.0 <LICENSE-APACHE or
// https://www.apache.org/licenses/LICENSE-2.0> or the MIT license
// <LICENSE-MIT or https://opensource.org/licenses/MIT>, at your
// option. This file may not be copied, modified, or distributed
// except according to those terms.

//! The ISAAC random number generator.

use crate::isaac_array::IsaacArray;
use core::num::Wrapping as w;
use core::{fmt, slice};
use rand_core::block::{BlockRng, BlockRngCore};
use rand_core::{le, RngCore, SeedableRng, TryRngCore};
#[cfg(feature = "serde")]
use serde::{Deserialize, Serialize};

#[allow(non_camel_case_types)]
type w32 = w<u32>;

const RAND_SIZE_LEN: usize = 8;
const RAND_SIZE: usize = 1 << RAND_SIZE_LEN;

/// A random number generator that uses the ISAAC algorithm.
///
/// ISAAC stands for "Indirection, Shift, Accumulate, Add, and Count" which are
/// the principal bitwise operations employed. It is the most advanced of a
/// series of array based random number generator designed by Robert Jenkins
/// in 1996[^1][^2].
///
/// ISAAC is notably fast and produces excellent quality random numbers for
/// non-cryptographic applications.
///
/// In spite of being designed with cryptographic security in mind, ISAAC hasn't
/// been stringently cryptanalyzed and thus cryptographers do not not
/// consensually trust it to be secure. When looking for a secure RNG, prefer
/// `Hc128Rng` from the [`rand_hc`] crate instead, which, like ISAAC, is an
/// array-based RNG and one of the stream-ciphers selected the by eSTREAM
///
/// In 2006 an improvement to ISAAC was suggested by Jean-Philippe Aumasson,
/// named ISAAC+[^3]. But because the specification is not complete, because
/// there is no good implementation, and because the suggested bias may not
/// exist, it is not implemented here.
///
/// ## Overview of the ISAAC algorithm:
/// (in pseudo-code)
///
/// ```text
/// Input: a, b, c, s[256] // state
/// Output: r[256]         // results
///
/// mix(a,i) = a ^ a << 13   if i = 0 mod 4
///            a ^ a >>  6   if i = 1 mod 4
///            a ^ a <<  2   if i = 2 mod 4
///            a ^ a >> 16   if i = 3 mod 4
///
/// c = c + 1
/// b = b + c
///
/// for i in 0..256 {
///     x = s_[i]
///     a = f(a,i) + s[i+128 mod 256]
///     y = a + b + s[x>>2 mod 256]
///     s[i] = y
///     b = x + s[y>>10 mod 256]
///     r[i] = b
/// }
/// ```
///
/// Numbers are generated in blocks of 256. This means the function above only
/// runs once every 256 times you ask for a next random number. In all other
/// circumstances the last element of the results array is returned.
///
/// ISAAC therefore needs a lot of memory, relative to other non-crypto RNGs.
/// 2 * 256 * 4 = 2 kb to hold the state and results.
///
/// This implementation uses [`BlockRng`] to implement the [`RngCore`] methods.
///
/// ## References
/// [^1]: Bob Jenkins, [*ISAAC: A fast cryptographic random number generator*](
///       http://burtleburtle.net/bob/rand/isaacafa.html)
///
/// [^2]: Bob Jenkins, [*ISAAC and RC4*](
///       http://burtleburtle.net/bob/rand/isaac.html)
///
/// [^3]: Jean-Philippe Aumasson, [*On the pseudo-random generator ISAAC*](
///       https://eprint.iacr.org/2006/438)
///
/// [`rand_hc`]: https://docs.rs/rand_hc
#[derive(Debug, Clone)]
#[cfg_attr(feature = "serde", derive(Serialize, Deserialize))]
pub struct IsaacRng(BlockRng<IsaacCore>);

impl RngCore for IsaacRng {
    #[inline]
    fn next_u32(&mut self) -> u32 {
        self.0.next_u32()
    }

    #[inline]
    fn next_u64(&mut self) -> u64 {
        self.0.next_u64()
    }

    #[inline]
    fn fill_bytes(&mut self, dest: &mut [u8]) {
        self.0.fill_bytes(dest)
    }
}

impl SeedableRng for IsaacRng {
    type Seed = <IsaacCore as SeedableRng>::Seed;

    #[inline]
    fn from_seed(seed: Self::Seed) -> Self {
        IsaacRng(BlockRng::<IsaacCore>::from_seed(seed))
    }

    /// Create an ISAAC random number generator using an `u64` as seed.
    /// If `seed == 0` this will produce the same stream of random numbers as
    /// the reference implementation when used unseeded.
    #[inline]
    fn seed_from_u64(seed: u64) -> Self {
        IsaacRng(BlockRng::<IsaacCore>::seed_from_u64(seed))
    }

    #[inline]
    fn from_rng(rng: &mut impl RngCore) -> Self {
        IsaacRng(BlockRng::<IsaacCore>::from_rng(rng))
    }

    #[inline]
    fn try_from_rng<S: TryRngCore>(rng: &mut S) -> Result<Self, S::Error> {
        BlockRng::<IsaacCore>::try_from_rng(rng).map(IsaacRng)
    }
}

/// The core of [`IsaacRng`], used with [`BlockRng`].
#[derive(Clone)]
#[cfg_attr(feature = "serde", derive(Serialize, Deserialize))]
pub struct IsaacCore {
    #[cfg_attr(
        feature = "serde",
        serde(with = "super::isaac_array::isaac_array_serde")
    )]
    mem: [w32; RAND_SIZE],
    a: w32,
    b: w32,
    c: w32,
}

// Custom Debug implementation that does not expose the internal state
impl fmt::Debug for IsaacCore {
    fn fmt(&self, f: &mut fmt::Formatter) -> fmt::Result {
        write!(f, "IsaacCore {{}}")
    }
}

// Custom PartialEq implementation as it can't currently be derived from an array of size RAND_SIZE
impl ::core::cmp::PartialEq for IsaacCore {
    fn eq(&self, other: &IsaacCore) -> bool {
        self.mem[..] == other.mem[..] && self.a == other.a && self.b == other.b && self.c == other.c
    }
}

// Custom Eq implementation as it can't currently be derived from an array of size RAND_SIZE
impl ::core::cmp::Eq for IsaacCore {}

impl BlockRngCore for IsaacCore {
    type Item = u32;
    type Results = IsaacArray<Self::Item>;

    /// Refills the output buffer, `results`. See also the pseudocode description
    /// of the algorithm in the `IsaacRng` documentation.
    ///
    /// Optimisations used (similar to the reference implementation):
    ///
    /// - The loop is unrolled 4 times, once for every constant of mix().
    /// - The contents of the main loop are moved to a function `rngstep`, to
    ///   reduce code duplication.
    /// - We use local variables for a and b, which helps with optimisations.
    /// - We split the main loop in two, one that operates over 0..128 and one
    ///   over 128..256. This way we can optimise out the addition and modulus
    ///   from `s[i+128 mod 256]`.
    /// - We maintain one index `i` and add `m` or `m2` as base (m2 for the
    ///   `s[i+128 mod 256]`), relying on the optimizer to turn it into pointer
    ///   arithmetic.
    /// - We fill `results` backwards. The reference implementation reads values
    ///   from `results` in reverse. We read them in the normal direction, to
    ///   make `fill_bytes` a memcopy. To maintain compatibility we fill in
    ///   reverse.
    #[rustfmt::skip]
    fn generate(&mut self, results: &mut IsaacArray<Self::Item>) {
        self.c += w(1);
        // abbreviations
        let mut a = self.a;
        let mut b = self.b + self.c;
        const MIDPOINT: usize = RAND_SIZE / 2;

        #[inline]
        fn ind(mem: &[w32; RAND_SIZE], v: w32, amount: usize) -> w32 {
            let index = (v >> amount).0 as usize % RAND_SIZE;
            mem[index]
        }

        #[inline]
        fn rngstep(
            mem: &mut [w32; RAND_SIZE],
            results: &mut [u32; RAND_SIZE],
            mix: w32,
            a: &mut w32,
            b: &mut w32,
            base: usize,
            m: usize,
            m2: usize,
        ) {
            let x = mem[base + m];
            *a = mix + mem[base + m2];
            let y = *a + *b + ind(mem, x, 2);
            mem[base + m] = y;
            *b = x + ind(mem, y, 2 + RAND_SIZE_LEN);
            results[RAND_SIZE - 1 - base - m] = b.0;
        }

        let mut m = 0;
        let mut m2 = MIDPOINT;
        for i in (0..MIDPOINT / 4).map(|i| i * 4) {
            rngstep(&mut self.mem, results, a ^ (a << 13), &mut a, &mut b, i + 0, m, m2);
            rngstep(&mut self.mem, results, a ^ (a >> 6 ),  &mut a, &mut b, i + 1, m, m2);
            rngstep(&mut self.mem, results, a ^ (a << 2 ),  &mut a, &mut b, i + 2, m, m2);
            rngstep(&mut self.mem, results, a ^ (a >> 16),  &mut a, &mut b, i + 3, m, m2);
        }

        m = MIDPOINT;
        m2 = 0;
        for i in (0..MIDPOINT / 4).map(|i| i * 4) {
            rngstep(&mut self.mem, results, a ^ (a << 13), &mut a, &mut b, i + 0, m, m2);
            rngstep(&mut self.mem, results, a ^ (a >> 6 ),  &mut a, &mut b, i + 1, m, m2);
            rngstep(&mut self.mem, results, a ^ (a << 2 ),  &mut a, &mut b, i + 2, m, m2);
            rngstep(&mut self.mem, results, a ^ (a >> 16),  &mut a, &mut b, i + 3, m, m2);
        }

        self.a = a;
        self.b = b;
    }
}

impl IsaacCore {
    /// Create a new ISAAC random number generator.
    ///
    /// The author Bob Jenkins describes how to best initialize ISAAC here:
    /// <https://rt.cpan.org/Public/Bug/Display.html?id=64324>
    /// The answer is included here just in case:
    ///
    /// "No, you don't need a full 8192 bits of seed data. Normal key sizes will
    /// do fine, and they should have their expected strength (eg a 40-bit key
    /// will take as much time to brute force as 40-bit keys usually will). You
    /// could fill the remainder with 0, but set the last array element to the
    /// length of the key provided (to distinguish keys that differ only by
    /// different amounts of 0 padding). You do still need to call `randinit()`
    /// to make sure the initial state isn't uniform-looking."
    /// "After publishing ISAAC, I wanted to limit the key to half the size of
    /// `r[]`, and repeat it twice. That would have made it hard to provide a
    /// key that sets the whole internal state to anything convenient. But I'd
    /// already published it."
    ///
    /// And his answer to the question "For my code, would repeating the key
    /// over and over to fill 256 integers be a better solution than
    /// zero-filling, or would they essentially be the same?":
    /// "If the seed is under 32 bytes, they're essentially the same, otherwise
    /// repeating the seed would be stronger. randinit() takes a chunk of 32
    /// bytes, mixes it, and combines that with the next 32 bytes, et cetera.
    /// Then loops over all the elements the same way a second time."
    #[inline]
    fn init(mut mem: [w32; RAND_SIZE], rounds: u32) -> Self {
        #[rustfmt::skip]
        fn mix(a: &mut w32, b: &mut w32, c: &mut w32, d: &mut w32,
               e: &mut w32, f: &mut w32, g: &mut w32, h: &mut w32) {
            *a ^= *b << 11; *d += *a; *b += *c;
            *b ^= *c >> 2;  *e += *b; *c += *d;
            *c ^= *d << 8;  *f += *c; *d += *e;
            *d ^= *e >> 16; *g += *d; *e += *f;
            *e ^= *f << 10; *h += *e; *f += *g;
            *f ^= *g >> 4;  *a += *f; *g += *h;
            *g ^= *h << 8;  *b += *g; *h += *a;
            *h ^= *a >> 9;  *c += *h; *a += *b;
        }

        // These numbers are the result of initializing a...h with the
        // fractional part of the golden ratio in binary (0x9e3779b9)
        // and applying mix() 4 times.
        let mut a = w(0x1367df5a);
        let mut b = w(0x95d90059);
        let mut c = w(0xc3163e4b);
        let mut d = w(0x0f421ad8);
        let mut e = w(0xd92a4a78);
        let mut f = w(0xa51a3c49);
        let mut g = w(0xc4efea1b);
        let mut h = w(0x30609119);

        // Normally this should do two passes, to make all of the seed effect
        // all of `mem`
        for _ in 0..rounds {
            for i in (0..RAND_SIZE / 8).map(|i| i * 8) {
                a += mem[i];
                b += mem[i + 1];
                c += mem[i + 2];
                d += mem[i + 3];
                e += mem[i + 4];
                f += mem[i + 5];
                g += mem[i + 6];
                h += mem[i + 7];
                mix(
                    &mut a, &mut b, &mut c, &mut d, &mut e, &mut f, &mut g, &mut h,
                );
                mem[i] = a;
                mem[i + 1] = b;
                mem[i + 2] = c;
                mem[i + 3] = d;
                mem[i + 4] = e;
                mem[i + 5] = f;
                mem[i + 6] = g;
                mem[i + 7] = h;
            }
        }

        Self {
            mem,
            a: w(0),
            b: w(0),
            c: w(0),
        }
    }
}

impl SeedableRng for IsaacCore {
    type Seed = [u8; 32];

    fn from_seed(seed: Self::Seed) -> Self {
        let mut seed_u32 = [0u32; 8];
        le::read_u32_into(&seed, &mut seed_u32);
        // Convert the seed to `Wrapping<u32>` and zero-extend to `RAND_SIZE`.
        let mut seed_extended = [w(0); RAND_SIZE];
        for (x, y) in seed_extended.iter_mut().zip(seed_u32.iter()) {
            *x = w(*y);
        }
        Self::init(seed_extended, 2)
    }

    /// Create an ISAAC random number generator using an `u64` as seed.
    /// If `seed == 0` this will produce the same stream of random numbers as
    /// the reference implementation when used unseeded.
    fn seed_from_u64(seed: u64) -> Self {
        let mut key = [w(0); RAND_SIZE];
        key[0] = w(seed as u32);
        key[1] = w((seed >> 32) as u32);
        // Initialize with only one pass.
        // A second pass does not improve the quality here, because all of the
        // seed was already available in the first round.
        // Not doing the second pass has the small advantage that if
        // `seed == 0` this method produces exactly the same state as the
        // reference implementation when used unseeded.
        Self::init(key, 1)
    }

    fn from_rng(rng: &mut impl RngCore) -> Self {
        // Custom `from_rng` implementation that fills a seed with the same size
        // as the entire state.
        let mut seed = [w(0u32); RAND_SIZE];
        unsafe {
            let ptr = seed.as_mut_ptr() as *mut u8;

            let slice = slice::from_raw_parts_mut(ptr, RAND_SIZE * 4);
            rng.fill_bytes(slice);
        }
        for i in seed.iter_mut() {
            *i = w(i.0.to_le());
        }

        Self::init(seed, 2)
    }

    fn try_from_rng<R: TryRngCore>(rng: &mut R) -> Result<Self, R::Error> {
        // Custom `from_rng` implementation that fills a seed with the same size
        // as the entire state.
        let mut seed = [w(0u32); RAND_SIZE];
        unsafe {
            let ptr = seed.as_mut_ptr() as *mut u8;

            let slice = slice::from_raw_parts_mut(ptr, RAND_SIZE * 4);
            rng.try_fill_bytes(slice)?;
        }
        for i in seed.iter_mut() {
            *i = w(i.0.to_le());
        }

        Ok(Self::init(seed, 2))
    }
}

#[cfg(test)]
mod test {
    use super::IsaacRng;
    use rand_core::{RngCore, SeedableRng};

    #[test]
    fn test_isaac_construction() {
        // Test that various construction techniques produce a working RNG.
        let seed = [
            1, 0, 0, 0, 23, 0, 0, 0, 200, 1, 0, 0, 210, 30, 0, 0, 0, 0, 0, 0, 0, 0, 0, 0, 0, 0, 0,
            0, 0, 0, 0, 0,
        ];
        let mut rng1 = IsaacRng::from_seed(seed);
        assert_eq!(rng1.next_u32(), 2869442790);

        let mut rng2 = IsaacRng::from_rng(&mut rng1);
        assert_eq!(rng2.next_u32(), 3094074039);
    }

    #[test]
    fn test_isaac_true_values_32() {
        let seed = [
            1, 0, 0, 0, 23, 0, 0, 0, 200, 1, 0, 0, 210, 30, 0, 0, 57, 48, 0, 0, 0, 0, 0, 0, 0, 0,
            0, 0, 0, 0, 0, 0,
        ];
        let mut rng1 = IsaacRng::from_seed(seed);
        let mut results = [0u32; 10];
        for i in results.iter_mut() {
            *i = rng1.next_u32();
        }
        let expected = [
            2558573138, 873787463, 263499565, 2103644246, 3595684709, 4203127393, 264982119,
            2765226902, 2737944514, 3900253796,
        ];
        assert_eq!(results, expected);

        let seed = [
            57, 48, 0, 0, 50, 9, 1, 0, 49, 212, 0, 0, 148, 38, 0, 0, 0, 0, 0, 0, 0, 0, 0, 0, 0, 0,
            0, 0, 0, 0, 0, 0,
        ];
        let mut rng2 = IsaacRng::from_seed(seed);
        // skip forward to the 10000th number
        for _ in 0..10000 {
            rng2.next_u32();
        }

        for i in results.iter_mut() {
            *i = rng2.next_u32();
        }
        let expected = [
            3676831399, 3183332890, 2834741178, 3854698763, 2717568474, 1576568959, 3507990155,
            179069555, 141456972, 2478885421,
        ];
        assert_eq!(results, expected);
    }

    #[test]
    fn test_isaac_true_values_64() {
        // As above, using little-endian versions of above values
        let seed = [
            1, 0, 0, 0, 23, 0, 0, 0, 200, 1, 0, 0, 210, 30, 0, 0, 57, 48, 0, 0, 0, 0, 0, 0, 0, 0,
            0, 0, 0, 0, 0, 0,
        ];
        let mut rng = IsaacRng::from_seed(seed);
        let mut results = [0u64; 5];
        for i in results.iter_mut() {
            *i = rng.next_u64();
        }
        let expected = [
            3752888579798383186,
            9035083239252078381,
            18052294697452424037,
            11876559110374379111,
            16751462502657800130,
        ];
        assert_eq!(results, expected);
    }

    #[test]
    #[rustfmt::skip]
    fn test_isaac_true_bytes() {
        let seed = [
            1, 0, 0, 0, 23, 0, 0, 0, 200, 1, 0, 0, 210, 30, 0, 0, 57, 48, 0, 0, 0, 0, 0, 0, 0, 0,
            0, 0, 0, 0, 0, 0,
        ];
        let mut rng = IsaacRng::from_seed(seed);
        let mut results = [0u8; 32];
        rng.fill_bytes(&mut results);
        // Same as first values in test_isaac_true_values as bytes in LE order
        let expected = [82, 186, 128, 152, 71, 240, 20, 52,
                        45, 175, 180, 15, 86, 16, 99, 125,
                        101, 203, 81, 214, 97, 162, 134, 250,
                        103, 78, 203, 15, 150, 3, 210, 164];
        assert_eq!(results, expected);
    }

    #[test]
    #[rustfmt::skip]
    fn test_isaac_new_uninitialized() {
        // Compare the results from initializing `IsaacRng` with
        // `seed_from_u64(0)`, to make sure it is the same as the reference
        // implementation when used uninitialized.
        // Note: We only test the first 16 integers, not the full 256 of the
        // first block.
        let mut rng = IsaacRng::seed_from_u64(0);
        let mut results = [0u32; 16];
        for i in results.iter_mut() {
            *i = rng.next_u32();
        }
        let expected: [u32; 16] = [
            0x71D71FD2, 0xB54ADAE7, 0xD4788559, 0xC36129FA,
            0x21DC1EA9, 0x3CB879CA, 0xD83B237F, 0xFA3CE5BD,
            0x8D048509, 0xD82E9489, 0xDB452848, 0xCA20E846,
            0x500F972E, 0x0EEFF940, 0x00D6B993, 0xBC12C17F];
        assert_eq!(results, expected);
    }

    #[test]
    fn test_isaac_clone() {
        let seed = [
            1, 0, 0, 0, 23, 0, 0, 0, 200, 1, 0, 0, 210, 30, 0, 0, 57, 48, 0, 0, 0, 0, 0, 0, 0, 0,
            0, 0, 0, 0, 0, 0,
        ];
        let mut rng1 = IsaacRng::from_seed(seed);
        let mut rng2 = rng1.clone();
        for _ in 0..16 {
            assert_eq!(rng1.next_u32(), rng2.next_u32());
        }
    }

    #[test]
    #[cfg(feature = "serde")]
    fn test_isaac_serde() {
        use bincode;
        use std::io::{BufReader, BufWriter};

        let seed = [
            1, 0, 0, 0, 23, 0, 0, 0, 200, 1, 0, 0, 210, 30, 0, 0, 57, 48, 0, 0, 0, 0, 0, 0, 0, 0,
            0, 0, 0, 0, 0, 0,
        ];
        let mut rng = IsaacRng::from_seed(seed);

        let buf: Vec<u8> = Vec::new();
        let mut buf = BufWriter::new(buf);
        bincode::serialize_into(&mut buf, &rng).expect("Could not serialize");

        let buf = buf.into_inner().unwrap();
        let mut read = BufReader::new(&buf[..]);
        let mut deserialized: IsaacRng =
            bincode::deserialize_from(&mut read).expect("Could not deserialize");

        // more than the 256 buffered results
        for _ in 0..300 {
            assert_eq!(rng.next_u32(), deserialized.next_u32());
        }
    }
}
