// Copyright 2018 Developers of the Rand project.
// Copyright 2013-2018 The Rust Project Developers.
//
// Licensed under the Apache License, Version 2.0 <LICENSE-APACHE or
// https://www.apache.org/licenses/LICENSE-2.0> or the MIT license
// <LICENSE-MIT or https://opensource.org/licenses/MIT>, at your
// option. This file may not be copied, modified, or distributed
// except according to those terms.

//! The ISAAC-64 random number generator.

use crate::isaac_array::IsaacArray;
use core::num::Wrapping as w;
use core::{fmt, slice};
use rand_core::block::{BlockRng64, BlockRngCore};
use rand_core::{le, RngCore, SeedableRng, TryRngCore};
#[cfg(feature = "serde")]
use serde::{Deserialize, Serialize};

#[allow(non_camel_case_types)]
type w64 = w<u64>;

const RAND_SIZE_LEN: usize = 8;
const RAND_SIZE: usize = 1 << RAND_SIZE_LEN;

/// A random number generator that uses ISAAC-64, the 64-bit variant of the
/// ISAAC algorithm.
///
/// ISAAC stands for "Indirection, Shift, Accumulate, Add, and Count" which are
/// the principal bitwise operations employed. It is the most advanced of a
/// series of array based random number generator designed by Robert Jenkins
/// in 1996[^1].
///
/// ISAAC-64 is mostly similar to ISAAC. Because it operates on 64-bit integers
/// instead of 32-bit, it uses twice as much memory to hold its state and
/// results. Also it uses different constants for shifts and indirect indexing,
/// optimized to give good results for 64bit arithmetic.
///
/// ISAAC-64 is notably fast and produces excellent quality random numbers for
/// non-cryptographic applications.
///
/// In spite of being designed with cryptographic security in mind, ISAAC hasn't
/// been stringently cryptanalyzed and thus cryptographers do not not
/// consensually trust it to be secure. When looking for a secure RNG, prefer
/// `Hc128Rng` from the [`rand_hc`] crate instead, which, like ISAAC, is an
/// array-based RNG and one of the stream-ciphers selected the by eSTREAM
///
/// ## Overview of the ISAAC-64 algorithm:
/// (in pseudo-code)
///
/// ```text
/// Input: a, b, c, s[256] // state
/// Output: r[256] // results
///
/// mix(a,i) = !(a ^ a << 21)  if i = 0 mod 4
///              a ^ a >>  5   if i = 1 mod 4
///              a ^ a << 12   if i = 2 mod 4
///              a ^ a >> 33   if i = 3 mod 4
///
/// c = c + 1
/// b = b + c
///
/// for i in 0..256 {
///     x = s_[i]
///     a = mix(a,i) + s[i+128 mod 256]
///     y = a + b + s[x>>3 mod 256]
///     s[i] = y
///     b = x + s[y>>11 mod 256]
///     r[i] = b
/// }
/// ```
///
/// This implementation uses [`BlockRng64`] to implement the [`RngCore`] methods.
///
/// See for more information the documentation of [`IsaacRng`].
///
/// [^1]: Bob Jenkins, [*ISAAC and RC4*](
///       http://burtleburtle.net/bob/rand/isaac.html)
///
/// [`IsaacRng`]: crate::isaac::IsaacRng
/// [`rand_hc`]: https://docs.rs/rand_hc
/// [`BlockRng64`]: rand_core::block::BlockRng64
#[derive(Debug, Clone)]
#[cfg_attr(feature = "serde", derive(Serialize, Deserialize))]
pub struct Isaac64Rng(BlockRng64<Isaac64Core>);

impl RngCore for Isaac64Rng {
    #[inline]
    fn next_u32(&mut self) -> u32 {
        self.0.next_u32()
    }

    #[inline]
    fn next_u64(&mut self) -> u64 {
        self.0.next_u64()
    }

    #[inline]
    fn fill_bytes(&mut self, dest: &mut [u8]) {
        self.0.fill_bytes(dest)
    }
}

impl SeedableRng for Isaac64Rng {
    type Seed = <Isaac64Core as SeedableRng>::Seed;

    #[inline]
    fn from_seed(seed: Self::Seed) -> Self {
        Isaac64Rng(BlockRng64::<Isaac64Core>::from_seed(seed))
    }

    /// Create an ISAAC random number generator using an `u64` as seed.
    /// If `seed == 0` this will produce the same stream of random numbers as
    /// the reference implementation when used unseeded.
    #[inline]
    fn seed_from_u64(seed: u64) -> Self {
        Isaac64Rng(BlockRng64::<Isaac64Core>::seed_from_u64(seed))
    }

    #[inline]
    fn from_rng(rng: &mut impl RngCore) -> Self {
        Isaac64Rng(BlockRng64::<Isaac64Core>::from_rng(rng))
    }

    #[inline]
    fn try_from_rng<S: TryRngCore>(rng: &mut S) -> Result<Self, S::Error> {
        BlockRng64::<Isaac64Core>::try_from_rng(rng).map(Isaac64Rng)
    }
}

/// The core of `Isaac64Rng`, used with `BlockRng`.
#[derive(Clone)]
#[cfg_attr(feature = "serde", derive(Serialize, Deserialize))]
pub struct Isaac64Core {
    #[cfg_attr(
        feature = "serde",
        serde(with = "super::isaac_array::isaac_array_serde")
    )]
    mem: [w64; RAND_SIZE],
    a: w64,
    b: w64,
    c: w64,
}

// Custom Debug implementation that does not expose the internal state
impl fmt::Debug for Isaac64Core {
    fn fmt(&self, f: &mut fmt::Formatter) -> fmt::Result {
        write!(f, "Isaac64Core {{}}")
    }
}

// Custom PartialEq implementation as it can't currently be derived from an array of size RAND_SIZE
impl ::core::cmp::PartialEq for Isaac64Core {
    fn eq(&self, other: &Isaac64Core) -> bool {
        self.mem[..] == other.mem[..] && self.a == other.a && self.b == other.b && self.c == other.c
    }
}

// Custom Eq implementation as it can't currently be derived from an array of size RAND_SIZE
impl ::core::cmp::Eq for Isaac64Core {}

impl BlockRngCore for Isaac64Core {
    type Item = u64;
    type Results = IsaacArray<Self::Item>;

    /// Refills the output buffer, `results`. See also the pseudocode description
    /// of the algorithm in the `Isaac64Rng` documentation.
    ///
    /// Optimisations used (similar to the reference implementation):
    ///
    /// - The loop is unrolled 4 times, once for every constant of mix().
    /// - The contents of the main loop are moved to a function `rngstep`, to
    ///   reduce code duplication.
    /// - We use local variables for a and b, which helps with optimisations.
    /// - We split the main loop in two, one that operates over 0..128 and one
    ///   over 128..256. This way we can optimise out the addition and modulus
    ///   from `s[i+128 mod 256]`.
    /// - We maintain one index `i` and add `m` or `m2` as base (m2 for the
    ///   `s[i+128 mod 256]`), relying on the optimizer to turn it into pointer
    ///   arithmetic.
    /// - We fill `results` backwards. The reference implementation reads values
    ///   from `results` in reverse. We read them in the normal direction, to
    ///   make `fill_bytes` a memcopy. To maintain compatibility we fill in
    ///   reverse.
    #[rustfmt::skip]
    fn generate(&mut self, results: &mut IsaacArray<Self::Item>) {
        self.c += w(1);
        // abbreviations
        let mut a = self.a;
        let mut b = self.b + self.c;
        const MIDPOINT: usize = RAND_SIZE / 2;

        #[inline]
        fn ind(mem: &[w64; RAND_SIZE], v: w64, amount: usize) -> w64 {
            let index = (v >> amount).0 as usize % RAND_SIZE;
            mem[index]
        }

        #[inline]
        fn rngstep(
            mem: &mut [w64; RAND_SIZE],
            results: &mut [u64; RAND_SIZE],
            mix: w64,
            a: &mut w64,
            b: &mut w64,
            base: usize,
            m: usize,
            m2: usize,
        ) {
            let x = mem[base + m];
            *a = mix + mem[base + m2];
            let y = *a + *b + ind(mem, x, 3);
            mem[base + m] = y;
            *b = x + ind(mem, y, 3 + RAND_SIZE_LEN);
            results[RAND_SIZE - 1 - base - m] = b.0;
        }

        let mut m = 0;
        let mut m2 = MIDPOINT;
        for i in (0..MIDPOINT / 4).map(|i| i * 4) {
            rngstep(&mut self.mem, results, !(a ^ (a << 21)), &mut a, &mut b, i + 0, m, m2);
            rngstep(&mut self.mem, results,   a ^ (a >> 5 ),  &mut a, &mut b, i + 1, m, m2);
            rngstep(&mut self.mem, results,   a ^ (a << 12),  &mut a, &mut b, i + 2, m, m2);
            rngstep(&mut self.mem, results,   a ^ (a >> 33),  &mut a, &mut b, i + 3, m, m2);
        }

        m = MIDPOINT;
        m2 = 0;
        for i in (0..MIDPOINT / 4).map(|i| i * 4) {
            rngstep(&mut self.mem, results, !(a ^ (a << 21)), &mut a, &mut b, i + 0, m, m2);
            rngstep(&mut self.mem, results,   a ^ (a >> 5 ),  &mut a, &mut b, i + 1, m, m2);
            rngstep(&mut self.mem, results,   a ^ (a << 12),  &mut a, &mut b, i + 2, m, m2);
            rngstep(&mut self.mem, results,   a ^ (a >> 33),  &mut a, &mut b, i + 3, m, m2);
        }

        self.a = a;
        self.b = b;
    }
}

impl Isaac64Core {
    /// Create a new ISAAC-64 random number generator.
    fn init(mut mem: [w64; RAND_SIZE], rounds: u32) -> Self {
        #[rustfmt::skip]
        fn mix(a: &mut w64, b: &mut w64, c: &mut w64, d: &mut w64,
               e: &mut w64, f: &mut w64, g: &mut w64, h: &mut w64) {
            *a -= *e; *f ^= *h >> 9;  *h += *a;
            *b -= *f; *g ^= *a << 9;  *a += *b;
            *c -= *g; *h ^= *b >> 23; *b += *c;
            *d -= *h; *a ^= *c << 15; *c += *d;
            *e -= *a; *b ^= *d >> 14; *d += *e;
            *f -= *b; *c ^= *e << 20; *e += *f;
            *g -= *c; *d ^= *f >> 17; *f += *g;
            *h -= *d; *e ^= *g << 14; *g += *h;
        }

        // These numbers are the result of initializing a...h with the
        // fractional part of the golden ratio in binary (0x9e3779b97f4a7c13)
        // and applying mix() 4 times.
        let mut a = w(0x647c4677a2884b7c);
        let mut b = w(0xb9f8b322c73ac862);
        let mut c = w(0x8c0ea5053d4712a0);
        let mut d = w(0xb29b2e824a595524);
        let mut e = w(0x82f053db8355e0ce);
        let mut f = w(0x48fe4a0fa5a09315);
        let mut g = w(0xae985bf2cbfc89ed);
        let mut h = w(0x98f5704f6c44c0ab);

        // Normally this should do two passes, to make all of the seed effect
        // all of `mem`
        for _ in 0..rounds {
            for i in (0..RAND_SIZE / 8).map(|i| i * 8) {
                a += mem[i];
                b += mem[i + 1];
                c += mem[i + 2];
                d += mem[i + 3];
                e += mem[i + 4];
                f += mem[i + 5];
                g += mem[i + 6];
                h += mem[i + 7];
                mix(
                    &mut a, &mut b, &mut c, &mut d, &mut e, &mut f, &mut g, &mut h,
                );
                mem[i] = a;
                mem[i + 1] = b;
                mem[i + 2] = c;
                mem[i + 3] = d;
                mem[i + 4] = e;
                mem[i + 5] = f;
                mem[i + 6] = g;
                mem[i + 7] = h;
            }
        }

        Self {
            mem,
            a: w(0),
            b: w(0),
            c: w(0),
        }
    }
}

impl SeedableRng for Isaac64Core {
    type Seed = [u8; 32];

    fn from_seed(seed: Self::Seed) -> Self {
        let mut seed_u64 = [0u64; 4];
        le::read_u64_into(&seed, &mut seed_u64);
        // Convert the seed to `Wrapping<u64>` and zero-extend to `RAND_SIZE`.
        let mut seed_extended = [w(0); RAND_SIZE];
        for (x, y) in seed_extended.iter_mut().zip(seed_u64.iter()) {
            *x = w(*y);
        }
        Self::init(seed_extended, 2)
    }

    fn seed_from_u64(seed: u64) -> Self {
        let mut key = [w(0); RAND_SIZE];
        key[0] = w(seed);
        // Initialize with only one pass.
        // A second pass does not improve the quality here, because all of the
        // seed was already available in the first round.
        // Not doing the second pass has the small advantage that if
        // `seed == 0` this method produces exactly the same state as the
        // reference implementation when used unseeded.
        Self::init(key, 1)
    }

    fn from_rng(rng: &mut impl RngCore) -> Self {
        // Custom `from_rng` implementation that fills a seed with the same size
        // as the entire state.
        let mut seed = [w(0u64); RAND_SIZE];
        unsafe {
            let ptr = seed.as_mut_ptr() as *mut u8;
            let slice = slice::from_raw_parts_mut(ptr, RAND_SIZE * 8);
            rng.fill_bytes(slice);
        }
        for i in seed.iter_mut() {
            *i = w(i.0.to_le());
        }

        Self::init(seed, 2)
    }

    fn try_from_rng<R: TryRngCore>(rng: &mut R) -> Result<Self, R::Error> {
        // Custom `from_rng` implementation that fills a seed with the same size
        // as the entire state.
        let mut seed = [w(0u64); RAND_SIZE];
        unsafe {
            let ptr = seed.as_mut_ptr() as *mut u8;
            let slice = slice::from_raw_parts_mut(ptr, RAND_SIZE * 8);
            rng.try_fill_bytes(slice)?;
        }
        for i in seed.iter_mut() {
            *i = w(i.0.to_le());
        }

        Ok(Self::init(seed, 2))
    }
}

#[cfg(test)]
mod test {
    use super::Isaac64Rng;
    use rand_core::{RngCore, SeedableRng};

    #[test]
    fn test_isaac64_construction() {
        // Test that various construction techniques produce a working RNG.
        let seed = [
            1, 0, 0, 0, 23, 0, 0, 0, 200, 1, 0, 0, 210, 30, 0, 0, 0, 0, 0, 0, 0, 0, 0, 0, 0, 0, 0,
            0, 0, 0, 0, 0,
        ];
        let mut rng1 = Isaac64Rng::from_seed(seed);
        assert_eq!(rng1.next_u64(), 14964555543728284049);

        let mut rng2 = Isaac64Rng::from_rng(&mut rng1);
        assert_eq!(rng2.next_u64(), 919595328260451758);
    }

    #[test]
    fn test_isaac64_true_values_64() {
        let seed = [
            1, 0, 0, 0, 0, 0, 0, 0, 23, 0, 0, 0, 0, 0, 0, 0, 200, 1, 0, 0, 0, 0, 0, 0, 210, 30, 0,
            0, 0, 0, 0, 0,
        ];
        let mut rng1 = Isaac64Rng::from_seed(seed);
        let mut results = [0u64; 10];
        for i in results.iter_mut() {
            *i = rng1.next_u64();
        }
        let expected = [
            15071495833797886820,
            7720185633435529318,
            10836773366498097981,
            5414053799617603544,
            12890513357046278984,
            17001051845652595546,
            9240803642279356310,
            12558996012687158051,
            14673053937227185542,
            1677046725350116783,
        ];
        assert_eq!(results, expected);

        let seed = [
            57, 48, 0, 0, 0, 0, 0, 0, 50, 9, 1, 0, 0, 0, 0, 0, 49, 212, 0, 0, 0, 0, 0, 0, 148, 38,
            0, 0, 0, 0, 0, 0,
        ];
        let mut rng2 = Isaac64Rng::from_seed(seed);
        // skip forward to the 10000th number
        for _ in 0..10000 {
            rng2.next_u64();
        }

        for i in results.iter_mut() {
            *i = rng2.next_u64();
        }
        let expected = [
            18143823860592706164,
            8491801882678285927,
            2699425367717515619,
            17196852593171130876,
            2606123525235546165,
            15790932315217671084,
            596345674630742204,
            9947027391921273664,
            11788097613744130851,
            10391409374914919106,
        ];
        assert_eq!(results, expected);
    }

    #[test]
    fn test_isaac64_true_values_32() {
        let seed = [
            1, 0, 0, 0, 0, 0, 0, 0, 23, 0, 0, 0, 0, 0, 0, 0, 200, 1, 0, 0, 0, 0, 0, 0, 210, 30, 0,
            0, 0, 0, 0, 0,
        ];
        let mut rng = Isaac64Rng::from_seed(seed);
        let mut results = [0u32; 12];
        for i in results.iter_mut() {
            *i = rng.next_u32();
        }
        // Subset of above values, as an LE u32 sequence
        let expected = [
            3477963620, 3509106075, 687845478, 1797495790, 227048253, 2523132918, 4044335064,
            1260557630, 4079741768, 3001306521, 69157722, 3958365844,
        ];
        assert_eq!(results, expected);
    }

    #[test]
    fn test_isaac64_true_values_mixed() {
        let seed = [
            1, 0, 0, 0, 0, 0, 0, 0, 23, 0, 0, 0, 0, 0, 0, 0, 200, 1, 0, 0, 0, 0, 0, 0, 210, 30, 0,
            0, 0, 0, 0, 0,
        ];
        let mut rng = Isaac64Rng::from_seed(seed);
        // Test alternating between `next_u64` and `next_u32` works as expected.
        // Values are the same as `test_isaac64_true_values` and
        // `test_isaac64_true_values_32`.
        assert_eq!(rng.next_u64(), 15071495833797886820);
        assert_eq!(rng.next_u32(), 687845478);
        assert_eq!(rng.next_u32(), 1797495790);
        assert_eq!(rng.next_u64(), 10836773366498097981);
        assert_eq!(rng.next_u32(), 4044335064);
        // Skip one u32
        assert_eq!(rng.next_u64(), 12890513357046278984);
        assert_eq!(rng.next_u32(), 69157722);
    }

    #[test]
    #[rustfmt::skip]
    fn test_isaac64_true_bytes() {
        let seed = [
            1, 0, 0, 0, 0, 0, 0, 0, 23, 0, 0, 0, 0, 0, 0, 0, 200, 1, 0, 0, 0, 0, 0, 0, 210, 30, 0,
            0, 0, 0, 0, 0,
        ];
        let mut rng = Isaac64Rng::from_seed(seed);
        let mut results = [0u8; 32];
        rng.fill_bytes(&mut results);
        // Same as first values in test_isaac64_true_values as bytes in LE order
        let expected = [100, 131, 77, 207, 155, 181, 40, 209,
                        102, 176, 255, 40, 238, 155, 35, 107,
                        61, 123, 136, 13, 246, 243, 99, 150,
                        216, 167, 15, 241, 62, 149, 34, 75];
        assert_eq!(results, expected);
    }

    #[test]
    fn test_isaac64_new_uninitialized() {
        // Compare the results from initializing `IsaacRng` with
        // `seed_from_u64(0)`, to make sure it is the same as the reference
        // implementation when used uninitialized.
        // Note: We only test the first 16 integers, not the full 256 of the
        // first block.
        let mut rng = Isaac64Rng::seed_from_u64(0);
        let mut results = [0u64; 16];
        for i in results.iter_mut() {
            *i = rng.next_u64();
        }
        let expected: [u64; 16] = [
            0xF67DFBA498E4937C,
            0x84A5066A9204F380,
            0xFEE34BD5F5514DBB,
            0x4D1664739B8F80D6,
            0x8607459AB52A14AA,
            0x0E78BC5A98529E49,
            0xFE5332822AD13777,
            0x556C27525E33D01A,
            0x08643CA615F3149F,
            0xD0771FAF3CB04714,
            0x30E86F68A37B008D,
            0x3074EBC0488A3ADF,
            0x270645EA7A2790BC,
            0x5601A0A8D3763C6A,
            0x2F83071F53F325DD,
            0xB9090F3D42D2D2EA,
        ];
        assert_eq!(results, expected);
    }

    #[test]
    fn test_isaac64_clone() {
        let seed = [
            1, 0, 0, 0, 0, 0, 0, 0, 23, 0, 0, 0, 0, 0, 0, 0, 200, 1, 0, 0, 0, 0, 0, 0, 210, 30, 0,
            0, 0, 0, 0, 0,
        ];
        let mut rng1 = Isaac64Rng::from_seed(seed);
        let mut rng2 = rng1.clone();
        for _ in 0..16 {
            assert_eq!(rng1.next_u64(), rng2.next_u64());
        }
    }

    #[test]
    #[cfg(feature = "serde")]
    fn test_isaac64_serde() {
        use bincode;
        use std::io::{BufReader, BufWriter};

        let seed = [
            1, 0, 0, 0, 23, 0, 0, 0, 200, 1, 0, 0, 210, 30, 0, 0, 57, 48, 0, 0, 0, 0, 0, 0, 0, 0,
            0, 0, 0, 0, 0, 0,
        ];
        let mut rng = Isaac64Rng::from_seed(seed);

        let buf: Vec<u8> = Vec::new();
        let mut buf = BufWriter::new(buf);
        bincode::serialize_into(&mut buf, &rng).expect("Could not serialize");

        let buf = buf.into_inner().unwrap();
        let mut read = BufReader::new(&buf[..]);
        let mut deserialized: Isaac64Rng =
            bincode::deserialize_from(&mut read).expect("Could not deserialize");

        // more than the 256 buffered results
        for _ in 0..300 {
            assert_eq!(rng.next_u64(), deserialized.next_u64());
        }
    }
}
