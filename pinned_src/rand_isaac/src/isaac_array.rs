// Copyright 2018 Developers of the Rand project.
// Copyright 2017-2018 The Rust Project Developers.
//
// Licensed under the Apache License, Version 2.0 <LICENSE-APACHE or
// https://www.apache.org/licenses/LICENSE-2.0> or the MIT license
// <LICENSE-MIT or https://opensource.org/licenses/MIT>, at your
// option. This file may not be copied, modified, or distributed
// except according to those terms.

//! ISAAC helper functions for 256-element arrays.

// Terrible workaround because arrays with more than 32 elements do not
// implement `AsRef`, `Default`, `Serialize`, `Deserialize`, or any other
// traits for that matter.

#[cfg(feature = "serde")]
use serde::{Deserialize, Serialize};

const RAND_SIZE_LEN: usize = 8;
const RAND_SIZE: usize = 1 << RAND_SIZE_LEN;

#[derive(Copy, Clone)]
#[allow(missing_debug_implementations)]
#[cfg_attr(feature = "serde", derive(Serialize, Deserialize))]
pub struct IsaacArray<T> {
    #[cfg_attr(feature = "serde", serde(with = "isaac_array_serde"))]
    #[cfg_attr(
        feature = "serde",
        serde(bound(
            serialize = "T: Serialize",
            deserialize = "T: Deserialize<'de> + Copy + Default"
        ))
    )]
    inner: [T; RAND_SIZE],
}

impl<T> ::core::convert::AsRef<[T]> for IsaacArray<T> {
    #[inline(always)]
    fn as_ref(&self) -> &[T] {
        &self.inner[..]
    }
}

impl<T> ::core::convert::AsMut<[T]> for IsaacArray<T> {
    #[inline(always)]
    fn as_mut(&mut self) -> &mut [T] {
        &mut self.inner[..]
    }
}

impl<T> ::core::ops::Deref for IsaacArray<T> {
    type Target = [T; RAND_SIZE];
    #[inline(always)]
    fn deref(&self) -> &Self::Target {
        &self.inner
    }
}

impl<T> ::core::ops::DerefMut for IsaacArray<T> {
    #[inline(always)]
    fn deref_mut(&mut self) -> &mut [T; RAND_SIZE] {
        &mut self.inner
    }
}

impl<T> ::core::default::Default for IsaacArray<T>
where
    T: Copy + Default,
{
    fn default() -> IsaacArray<T> {
        IsaacArray {
            inner: [T::default(); RAND_SIZE],
        }
    }
}

// Custom PartialEq implementation as it can't currently be derived from an array of size RAND_SIZE
impl<T> ::core::cmp::PartialEq for IsaacArray<T>
where
    T: PartialEq,
{
    fn eq(&self, other: &IsaacArray<T>) -> bool {
        self.inner[..] == other.inner[..]
    }
}

// Custom Eq implementation as it can't currently be derived from an array of size RAND_SIZE
impl<T> ::core::cmp::Eq for IsaacArray<T> where T: Eq {}

#[cfg(feature = "serde")]
pub(super) mod isaac_array_serde {
    const RAND_SIZE_LEN: usize = 8;
    const RAND_SIZE: usize = 1 << RAND_SIZE_LEN;

    use serde::de;
    use serde::de::{SeqAccess, Visitor};
    use serde::{Deserialize, Deserializer, Serialize, Serializer};

    use core::fmt;

    pub fn serialize<T, S>(arr: &[T; RAND_SIZE], ser: S) -> Result<S::Ok, S::Error>
    where
        T: Serialize,
        S: Serializer,
    {
        use serde::ser::SerializeTuple;

        let mut seq = ser.serialize_tuple(RAND_SIZE)?;

        for e in arr.iter() {
            seq.serialize_element(&e)?;
        }

        seq.end()
    }

    #[inline]
    pub fn deserialize<'de, T, D>(de: D) -> Result<[T; RAND_SIZE], D::Error>
    where
        T: Deserialize<'de> + Default + Copy,
        D: Deserializer<'de>,
    {
        use core::marker::PhantomData;
        struct ArrayVisitor<T> {
            _pd: PhantomData<T>,
        }
        impl<'de, T> Visitor<'de> for ArrayVisitor<T>
        where
            T: Deserialize<'de> + Default + Copy,
        {
            type Value = [T; RAND_SIZE];

            fn expecting(&self, formatter: &mut fmt::Formatter) -> fmt::Result {
                formatter.write_str("Isaac state array")
            }

            #[inline]
            fn visit_seq<A>(self, mut seq: A) -> Result<[T; RAND_SIZE], A::Error>
            where
                A: SeqAccess<'de>,
            {
                let mut out = [Default::default(); RAND_SIZE];

                for i in 0..RAND_SIZE {
                    match seq.next_element()? {
                        Some(val) => out[i] = val,
                        None => return Err(de::Error::invalid_length(i, &self)),
                    };
                }

                Ok(out)
            }
        }

        de.deserialize_tuple(RAND_SIZE, ArrayVisitor { _pd: PhantomData })
    }
}
