// Copyright 2018-2023 Developers of the Rand project.
//
// Licensed under the Apache License, Version 2.0 <LICENSE-APACHE or
// https://www.apache.org/licenses/LICENSE-2.0> or the MIT license
// <LICENSE-MIT or https://opensource.org/licenses/MIT>, at your
// option. This file may not be copied, modified, or distributed
// except according to those terms.

//! The ISAAC and ISAAC-64 random number generators.
//!
//! To initialize a generator, use the [`SeedableRng`][rand_core::SeedableRng] trait.

#![doc(
    html_logo_url = "https://www.rust-lang.org/logos/rust-logo-128x128-blk.png",
    html_favicon_url = "https://www.rust-lang.org/favicon.ico",
    html_root_url = "https://docs.rs/rand_isaac/0.4.0"
)]
#![deny(missing_docs)]
#![deny(missing_debug_implementations)]
#![doc(test(attr(allow(unused_variables), deny(warnings))))]
#![allow(
    clippy::too_many_arguments,
    clippy::many_single_char_names,
    clippy::identity_op
)]
#![cfg_attr(not(all(feature = "serde", test)), no_std)]

pub mod isaac;
pub mod isaac64;

mod isaac_array;

pub use self::isaac::IsaacRng;
pub use self::isaac64::Isaac64Rng;
