// Copyright 2018 Developers of the Rand project.
// Copyright 2013-2015 The Rust Project Developers.
//
// Licensed under the Apache License, Version 2.0 <LICENSE-APACHE or
// https://www.apache.org/licenses/LICENSE-2.0> or the MIT license
// <LICENSE-MIT or https://opensource.org/licenses/MIT>, at your
// option. This file may not be copied, modified, or distributed
// except according to those terms.

use core::fmt;

/// Base code for all `JitterRng` errors
const ERROR_BASE: u32 = 0xAE53_0400;

/// An error that can occur when [`JitterRng::test_timer`] fails.
///
/// All variants have a value of 0xAE530400 = 2924676096 plus a small
/// increment (1 through 5).
///
/// [`JitterRng::test_timer`]: crate::JitterRng::test_timer
#[derive(Debug, Clone, PartialEq, Eq)]
#[repr(u32)]
#[allow(clippy::manual_non_exhaustive)]
//^ TODO: Replace with `#[non_exhaustive]` for Rust >= 1.40
pub enum TimerError {
    /// No timer available.
    NoTimer = ERROR_BASE + 1,
    /// Timer too coarse to use as an entropy source.
    CoarseTimer = ERROR_BASE + 2,
    /// Timer is not monotonically increasing.
    NotMonotonic = ERROR_BASE + 3,
    /// Variations of deltas of time too small.
    TinyVariations = ERROR_BASE + 4,
    /// Too many stuck results (indicating no added entropy).
    TooManyStuck = ERROR_BASE + 5,
    #[doc(hidden)]
    __Nonexhaustive,
}

impl TimerError {
    fn description(&self) -> &'static str {
        match *self {
            TimerError::NoTimer => "no timer available",
            TimerError::CoarseTimer => "coarse timer",
            TimerError::NotMonotonic => "timer not monotonic",
            TimerError::TinyVariations => "time delta variations too small",
            TimerError::TooManyStuck => "too many stuck results",
            TimerError::__Nonexhaustive => unreachable!(),
        }
    }
}

impl fmt::Display for TimerError {
    fn fmt(&self, f: &mut fmt::Formatter) -> fmt::Result {
        write!(f, "{}", self.description())
    }
}

#[cfg(feature = "std")]
impl ::std::error::Error for TimerError {
    fn description(&self) -> &str {
        self.description()
    }
}
