// Copyright 2018 Developers of the Rand project.
// Copyright 2013-2015 The Rust Project Developers.
//
// Licensed under the Apache License, Version 2.0 <LICENSE-APACHE or
// https://www.apache.org/licenses/LICENSE-2.0> or the MIT license
// <LICENSE-MIT or https://opensource.org/licenses/MIT>, at your
// option. This file may not be copied, modified, or distributed
// except according to those terms.

#[cfg(not(any(target_os = "macos", target_os = "ios", target_os = "windows")))]
pub fn get_nstime() -> u64 {
    use std::time::{SystemTime, UNIX_EPOCH};

    let dur = SystemTime::now().duration_since(UNIX_EPOCH).unwrap();
    // The correct way to calculate the current time is
    // `dur.as_secs() * 1_000_000_000 + dur.subsec_nanos() as u64`
    // But this is faster, and the difference in terms of entropy is
    // negligible (log2(10^9) == 29.9).
    dur.as_secs() << 30 | dur.subsec_nanos() as u64
}

#[cfg(any(target_os = "macos", target_os = "ios"))]
pub fn get_nstime() -> u64 {
    use libc;

    // On Mac OS and iOS std::time::SystemTime only has 1000ns resolution.
    // We use `mach_absolute_time` instead. This provides a CPU dependent
    // unit, to get real nanoseconds the result should by multiplied by
    // numer/denom from `mach_timebase_info`.
    // But we are not interested in the exact nanoseconds, just entropy. So
    // we use the raw result.
    unsafe { libc::mach_absolute_time() }
}

#[cfg(target_os = "windows")]
pub fn get_nstime() -> u64 {
    use winapi;

    unsafe {
        let mut t = super::mem::zeroed();
        winapi::um::profileapi::QueryPerformanceCounter(&mut t);
        *t.QuadPart() as u64
    }
}
