// Copyright 2018-2023 Developers of the Rand project.
//
// Licensed under the Apache License, Version 2.0 <LICENSE-APACHE or
// https://www.apache.org/licenses/LICENSE-2.0> or the MIT license
// <LICENSE-MIT or https://opensource.org/licenses/MIT>, at your
// option. This file may not be copied, modified, or distributed
// except according to those terms.

//! The xorshift random number generator.
//!
//! # Example
//!
//! To initialize a generator, use the [`SeedableRng`][rand_core::SeedableRng] trait:
//!
//! ```
//! use rand_core::{SeedableRng, RngCore};
//! use rand_xorshift::XorShiftRng;
//!
//! let mut rng = XorShiftRng::seed_from_u64(0);
//! let x = rng.next_u32();
//! ```

#![doc(
    html_logo_url = "https://www.rust-lang.org/logos/rust-logo-128x128-blk.png",
    html_favicon_url = "https://www.rust-lang.org/favicon.ico",
    html_root_url = "https://docs.rs/rand_xorshift/0.4.0"
)]
#![forbid(unsafe_code)]
#![deny(missing_docs)]
#![deny(missing_debug_implementations)]
#![no_std]

use core::fmt;
use core::num::Wrapping as w;
use rand_core::{impls, le, RngCore, SeedableRng, TryRngCore};
#[cfg(feature = "serde")]
use serde::{Deserialize, Serialize};

/// An Xorshift random number generator.
///
/// The Xorshift[^1] algorithm is not suitable for cryptographic purposes
/// but is very fast. If you do not know for sure that it fits your
/// requirements, use a more secure one such as `StdRng` or `OsRng`.
///
/// When seeded with zero (i.e. `XorShiftRng::from_seed(0)` is called), this implementation
/// actually uses `0xBAD_5EED_0BAD_5EED_0BAD_5EED_0BAD_5EED` for the seed. This arbitrary value is
/// used because the underlying algorithm can't escape from an all-zero state, and the function is
/// infallible so it can't signal this by returning an error.
///
/// [^1]: Marsaglia, George (July 2003).
///       ["Xorshift RNGs"](https://www.jstatsoft.org/v08/i14/paper).
///       *Journal of Statistical Software*. Vol. 8 (Issue 14).
#[derive(Clone, PartialEq, Eq)]
#[cfg_attr(feature = "serde", derive(Serialize, Deserialize))]
pub struct XorShiftRng {
    x: w<u32>,
    y: w<u32>,
    z: w<u32>,
    w: w<u32>,
}

// Custom Debug implementation that does not expose the internal state
impl fmt::Debug for XorShiftRng {
    fn fmt(&self, f: &mut fmt::Formatter) -> fmt::Result {
        write!(f, "XorShiftRng {{}}")
    }
}

impl RngCore for XorShiftRng {
    #[inline]
    fn next_u32(&mut self) -> u32 {
        // These shifts are taken from the example in the Summary section of
        // the paper 'Xorshift RNGs'. (On the bottom of page 5.)
        let x = self.x;
        let t = x ^ (x << 11);
        self.x = self.y;
        self.y = self.z;
        self.z = self.w;
        let w_ = self.w;
        self.w = w_ ^ (w_ >> 19) ^ (t ^ (t >> 8));
        self.w.0
    }

    #[inline]
    fn next_u64(&mut self) -> u64 {
        impls::next_u64_via_u32(self)
    }

    #[inline]
    fn fill_bytes(&mut self, dest: &mut [u8]) {
        impls::fill_bytes_via_next(self, dest)
    }
}

impl SeedableRng for XorShiftRng {
    type Seed = [u8; 16];

    fn from_seed(seed: Self::Seed) -> Self {
        let mut seed_u32 = [0u32; 4];
        le::read_u32_into(&seed, &mut seed_u32);

        // Xorshift cannot be seeded with 0 and we cannot return an Error, but
        // also do not wish to panic (because a random seed can legitimately be
        // 0); our only option is therefore to use a preset value.
        if seed_u32 == [0; 4] {
            seed_u32 = [0xBAD_5EED, 0xBAD_5EED, 0xBAD_5EED, 0xBAD_5EED];
        }

        XorShiftRng {
            x: w(seed_u32[0]),
            y: w(seed_u32[1]),
            z: w(seed_u32[2]),
            w: w(seed_u32[3]),
        }
    }

    fn from_rng(rng: &mut impl RngCore) -> Self {
        let mut b = [0u8; 16];
        loop {
            rng.fill_bytes(b.as_mut());
            if b != [0; 16] {
                break;
            }
        }

        XorShiftRng {
            x: w(u32::from_le_bytes([b[0], b[1], b[2], b[3]])),
            y: w(u32::from_le_bytes([b[4], b[5], b[6], b[7]])),
            z: w(u32::from_le_bytes([b[8], b[9], b[10], b[11]])),
            w: w(u32::from_le_bytes([b[12], b[13], b[14], b[15]])),
        }
    }

    fn try_from_rng<R: TryRngCore>(rng: &mut R) -> Result<Self, R::Error> {
        let mut b = [0u8; 16];
        loop {
            rng.try_fill_bytes(b.as_mut())?;
            if b != [0; 16] {
                break;
            }
        }

        Ok(XorShiftRng {
            x: w(u32::from_le_bytes([b[0], b[1], b[2], b[3]])),
            y: w(u32::from_le_bytes([b[4], b[5], b[6], b[7]])),
            z: w(u32::from_le_bytes([b[8], b[9], b[10], b[11]])),
            w: w(u32::from_le_bytes([b[12], b[13], b[14], b[15]])),
        })
    }
}
