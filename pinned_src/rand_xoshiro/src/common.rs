// Copyright 2018 Developers of the Rand project.
//
// Licensed under the Apache License, Version 2.0 <LICENSE-APACHE or
// https://www.apache.org/licenses/LICENSE-2.0> or the MIT license
// <LICENSE-MIT or https://opensource.org/licenses/MIT>, at your
// option. This file may not be copied, modified, or distributed
// except according to those terms.

/// Initialize a RNG from a `u64` seed using `SplitMix64`.
macro_rules! from_splitmix {
    ($seed:expr) => {{
        let mut rng = crate::SplitMix64::seed_from_u64($seed);
        Self::from_rng(&mut rng)
    }};
}

/// Apply the ** scrambler used by some RNGs from the xoshiro family.
macro_rules! starstar_u64 {
    ($x:expr) => {
        $x.wrapping_mul(5).rotate_left(7).wrapping_mul(9)
    };
}

/// Apply the ** scrambler used by some RNGs from the xoshiro family.
macro_rules! starstar_u32 {
    ($x:expr) => {
        $x.wrapping_mul(0x9E3779BB).rotate_left(5).wrapping_mul(5)
    };
}

/// Apply the ++ scrambler used by some RNGs from the xoshiro family.
macro_rules! plusplus_u64 {
    ($x:expr, $y:expr, $rot:expr) => {
        $x.wrapping_add($y).rotate_left($rot).wrapping_add($x)
    };
}

/// Apply the ++ scrambler used by some RNGs from the xoshiro family.
macro_rules! plusplus_u32 {
    ($x:expr, $y:expr) => {
        $x.wrapping_add($y).rotate_left(7).wrapping_add($x)
    };
}

/// Implement a jump function for an RNG from the xoshiro family.
macro_rules! impl_jump {
    (u32, $self:expr, [$j0:expr, $j1:expr]) => {
        const JUMP: [u32; 2] = [$j0, $j1];
        let mut s0 = 0;
        let mut s1 = 0;
        for j in &JUMP {
            for b in 0..32 {
                if (j & 1 << b) != 0 {
                    s0 ^= $self.s0;
                    s1 ^= $self.s1;
                }
                $self.next_u32();
            }
        }
        $self.s0 = s0;
        $self.s1 = s1;
    };
    (u64, $self:expr, [$j0:expr, $j1:expr]) => {
        const JUMP: [u64; 2] = [$j0, $j1];
        let mut s0 = 0;
        let mut s1 = 0;
        for j in &JUMP {
            for b in 0..64 {
                if (j & 1 << b) != 0 {
                    s0 ^= $self.s0;
                    s1 ^= $self.s1;
                }
                $self.next_u64();
            }
        }
        $self.s0 = s0;
        $self.s1 = s1;
    };
    (u32, $self:expr, [$j0:expr, $j1:expr, $j2:expr, $j3:expr]) => {
        const JUMP: [u32; 4] = [$j0, $j1, $j2, $j3];
        let mut s0 = 0;
        let mut s1 = 0;
        let mut s2 = 0;
        let mut s3 = 0;
        for j in &JUMP {
            for b in 0..32 {
                if (j & 1 << b) != 0 {
                    s0 ^= $self.s[0];
                    s1 ^= $self.s[1];
                    s2 ^= $self.s[2];
                    s3 ^= $self.s[3];
                }
                $self.next_u32();
            }
        }
        $self.s[0] = s0;
        $self.s[1] = s1;
        $self.s[2] = s2;
        $self.s[3] = s3;
    };
    (u64, $self:expr, [$j0:expr, $j1:expr, $j2:expr, $j3:expr]) => {
        const JUMP: [u64; 4] = [$j0, $j1, $j2, $j3];
        let mut s0 = 0;
        let mut s1 = 0;
        let mut s2 = 0;
        let mut s3 = 0;
        for j in &JUMP {
            for b in 0..64 {
                if (j & 1 << b) != 0 {
                    s0 ^= $self.s[0];
                    s1 ^= $self.s[1];
                    s2 ^= $self.s[2];
                    s3 ^= $self.s[3];
                }
                $self.next_u64();
            }
        }
        $self.s[0] = s0;
        $self.s[1] = s1;
        $self.s[2] = s2;
        $self.s[3] = s3;
    };
    (u64, $self:expr, [$j0:expr, $j1:expr, $j2:expr, $j3:expr,
                       $j4:expr, $j5:expr, $j6:expr, $j7:expr]) => {
        const JUMP: [u64; 8] = [$j0, $j1, $j2, $j3, $j4, $j5, $j6, $j7];
        let mut s = [0; 8];
        for j in &JUMP {
            for b in 0..64 {
                if (j & 1 << b) != 0 {
                    s[0] ^= $self.s[0];
                    s[1] ^= $self.s[1];
                    s[2] ^= $self.s[2];
                    s[3] ^= $self.s[3];
                    s[4] ^= $self.s[4];
                    s[5] ^= $self.s[5];
                    s[6] ^= $self.s[6];
                    s[7] ^= $self.s[7];
                }
                $self.next_u64();
            }
        }
        $self.s = s;
    };
}

/// Implement the xoroshiro iteration.
macro_rules! impl_xoroshiro_u32 {
    ($self:expr) => {
        $self.s1 ^= $self.s0;
        $self.s0 = $self.s0.rotate_left(26) ^ $self.s1 ^ ($self.s1 << 9);
        $self.s1 = $self.s1.rotate_left(13);
    };
}

/// Implement the xoroshiro iteration.
macro_rules! impl_xoroshiro_u64 {
    ($self:expr) => {
        $self.s1 ^= $self.s0;
        $self.s0 = $self.s0.rotate_left(24) ^ $self.s1 ^ ($self.s1 << 16);
        $self.s1 = $self.s1.rotate_left(37);
    };
}

/// Implement the xoroshiro iteration for the ++ scrambler.
macro_rules! impl_xoroshiro_u64_plusplus {
    ($self:expr) => {
        $self.s1 ^= $self.s0;
        $self.s0 = $self.s0.rotate_left(49) ^ $self.s1 ^ ($self.s1 << 21);
        $self.s1 = $self.s1.rotate_left(28);
    };
}

/// Implement the xoshiro iteration for `u32` output.
macro_rules! impl_xoshiro_u32 {
    ($self:expr) => {
        let t = $self.s[1] << 9;

        $self.s[2] ^= $self.s[0];
        $self.s[3] ^= $self.s[1];
        $self.s[1] ^= $self.s[2];
        $self.s[0] ^= $self.s[3];

        $self.s[2] ^= t;

        $self.s[3] = $self.s[3].rotate_left(11);
    };
}

/// Implement the xoshiro iteration for `u64` output.
macro_rules! impl_xoshiro_u64 {
    ($self:expr) => {
        let t = $self.s[1] << 17;

        $self.s[2] ^= $self.s[0];
        $self.s[3] ^= $self.s[1];
        $self.s[1] ^= $self.s[2];
        $self.s[0] ^= $self.s[3];

        $self.s[2] ^= t;

        $self.s[3] = $self.s[3].rotate_left(45);
    };
}

/// Implement the large-state xoshiro iteration.
macro_rules! impl_xoshiro_large {
    ($self:expr) => {
        let t = $self.s[1] << 11;

        $self.s[2] ^= $self.s[0];
        $self.s[5] ^= $self.s[1];
        $self.s[1] ^= $self.s[2];
        $self.s[7] ^= $self.s[3];
        $self.s[3] ^= $self.s[4];
        $self.s[4] ^= $self.s[5];
        $self.s[0] ^= $self.s[6];
        $self.s[6] ^= $self.s[7];

        $self.s[6] ^= t;

        $self.s[7] = $self.s[7].rotate_left(21);
    };
}

/// Map an all-zero seed to a different one.
macro_rules! deal_with_zero_seed {
    ($seed:expr, $Self:ident, $bytes:expr) => {
        if $seed == [0; $bytes] {
            return $Self::seed_from_u64(0);
        }
    };

    ($seed:expr, $Self:ident) => {
        if $seed.iter().all(|&x| x == 0) {
            return $Self::seed_from_u64(0);
        }
    };
}

/// 512-bit seed for a generator.
///
/// This wrapper is necessary, because some traits required for a seed are not
/// implemented on large arrays.
#[derive(Clone)]
pub struct Seed512(pub [u8; 64]);

impl Seed512 {
    /// Return an iterator over the seed.
    pub fn iter(&self) -> core::slice::Iter<u8> {
        self.0.iter()
    }
}

impl core::fmt::Debug for Seed512 {
    fn fmt(&self, f: &mut core::fmt::Formatter) -> core::fmt::Result {
        self.0[..].fmt(f)
    }
}

impl Default for Seed512 {
    fn default() -> Seed512 {
        Seed512([0; 64])
    }
}

impl AsRef<[u8]> for Seed512 {
    fn as_ref(&self) -> &[u8] {
        &self.0
    }
}

impl AsMut<[u8]> for Seed512 {
    fn as_mut(&mut self) -> &mut [u8] {
        &mut self.0
    }
}
