// Copyright 2018-2023 Developers of the Rand project.
//
// Licensed under the Apache License, Version 2.0 <LICENSE-APACHE or
// https://www.apache.org/licenses/LICENSE-2.0> or the MIT license
// <LICENSE-MIT or https://opensource.org/licenses/MIT>, at your
// option. This file may not be copied, modified, or distributed
// except according to those terms.

//! This crate implements the [xoshiro] family of pseudorandom number generators
//! designed by David Blackman and Sebastiano Vigna. They feature high
//! performance and a small state and supersede the previous xorshift-based
//! generators. However, they are not cryptographically secure and their output
//! can be predicted by observing a few samples.
//!
//! The following generators are implemented:
//!
//! # 64-bit generators
//! - [`Xoshiro256StarStar`]: Recommended for all purposes. Excellent speed and
//!   a state space (256 bits) large enough for any parallel application.
//! - [`Xoshiro256PlusPlus`]: Recommended for all purposes. Excellent speed and
//!   a state space (256 bits) large enough for any parallel application.
//! - [`Xoshiro256Plus`]: Recommended for generating 64-bit floating-point
//!   numbers. About 15% faster than `Xoshiro256StarStar`, but has a [low linear
//!   complexity] in the lowest bits (which are discarded when generating
//!   floats), making it fail linearity tests. This is unlikely to have any
//!   impact in practise.
//! - [`Xoroshiro128StarStar`]: An alternative to `Xoshiro256StarStar`, having
//!   the same speed but using half the state. Only suited for low-scale parallel
//!   applications.
//! - [`Xoroshiro128PlusPlus`]: An alternative to `Xoshiro256PlusPlus`, having
//!   the same speed but using half the state. Only suited for low-scale parallel
//!   applications.
//! - [`Xoroshiro128Plus`]: An alternative to `Xoshiro256Plus`, having the same
//!   speed but using half the state. Only suited for low-scale parallel
//!   applications. Has a [low linear complexity] in the lowest bits (which are
//!   discarded when generating floats), making it fail linearity tests. This is
//!   unlikely to have any impact in practise.
//! - [`Xoshiro512StarStar`]: An alternative to `Xoshiro256StarStar` with more
//!   state and the same speed.
//! - [`Xoshiro512PlusPlus`]: An alternative to `Xoshiro256PlusPlus` with more
//!   state and the same speed.
//! - [`Xoshiro512Plus`]: An alternative to `Xoshiro512Plus` with more
//!   state and the same speed. Has a [low linear complexity] in the lowest bits
//!   (which are discarded when generating floats), making it fail linearity
//!   tests. This is unlikely to have any impact in practise.
//! - [`SplitMix64`]: Recommended for initializing generators of the xoshiro
//!   family from a 64-bit seed. Used for implementing `seed_from_u64`.
//!
//! # 32-bit generators
//! - [`Xoshiro128StarStar`]: Recommended for all purposes. Excellent speed.
//! - [`Xoshiro128PlusPlus`]: Recommended for all purposes. Excellent speed.
//! - [`Xoshiro128Plus`]: Recommended for generating 32-bit floating-point
//!   numbers. Faster than `Xoshiro128StarStar`, but has a [low linear
//!   complexity] in the lowest bits (which are discarded when generating
//!   floats), making it fail linearity tests. This is unlikely to have any
//!   impact in practise.
//! - [`Xoroshiro64StarStar`]: An alternative to `Xoshiro128StarStar`, having
//!   the same speed but using half the state.
//! - [`Xoroshiro64Star`]: An alternative to `Xoshiro128Plus`, having the
//!   same speed but using half the state. Has a [low linear complexity] in the
//!   lowest bits (which are discarded when generating floats), making it fail
//!   linearity tests. This is unlikely to have any impact in practise.
//!
//! The `*PlusPlus` generators perform similarly to the `*StarStar` generators.
//! See the [xoshiro paper], where the differences are discussed in detail.
//!
//! # Example
//!
//! To initialize a generator, use the [`SeedableRng`][rand_core::SeedableRng] trait:
//!
//! ```
//! use rand_core::{SeedableRng, RngCore};
//! use rand_xoshiro::Xoshiro256PlusPlus;
//!
//! let mut rng = Xoshiro256PlusPlus::seed_from_u64(0);
//! let x = rng.next_u64();
//! ```
//!
//! [xoshiro]: http://xoshiro.di.unimi.it/
//! [xoshiro paper]: http://vigna.di.unimi.it/ftp/papers/ScrambledLinear.pdf
//! [low linear complexity]: http://xoshiro.di.unimi.it/lowcomp.php

#![doc(
    html_logo_url = "https://www.rust-lang.org/logos/rust-logo-128x128-blk.png",
    html_favicon_url = "https://www.rust-lang.org/favicon.ico",
    html_root_url = "https://docs.rs/rand_xoshiro/0.7.0"
)]
#![forbid(unsafe_code)]
#![deny(missing_docs)]
#![deny(missing_debug_implementations)]
#![allow(clippy::unreadable_literal)]
#![no_std]

#[macro_use]
mod common;
mod splitmix64;
mod xoroshiro128plus;
mod xoroshiro128plusplus;
mod xoroshiro128starstar;
mod xoroshiro64star;
mod xoroshiro64starstar;
mod xoshiro128plus;
mod xoshiro128plusplus;
mod xoshiro128starstar;
mod xoshiro256plus;
mod xoshiro256plusplus;
mod xoshiro256starstar;
mod xoshiro512plus;
mod xoshiro512plusplus;
mod xoshiro512starstar;

pub use common::Seed512;
pub use rand_core;
pub use splitmix64::SplitMix64;
pub use xoroshiro128plus::Xoroshiro128Plus;
pub use xoroshiro128plusplus::Xoroshiro128PlusPlus;
pub use xoroshiro128starstar::Xoroshiro128StarStar;
pub use xoroshiro64star::Xoroshiro64Star;
pub use xoroshiro64starstar::Xoroshiro64StarStar;
pub use xoshiro128plus::Xoshiro128Plus;
pub use xoshiro128plusplus::Xoshiro128PlusPlus;
pub use xoshiro128starstar::Xoshiro128StarStar;
pub use xoshiro256plus::Xoshiro256Plus;
pub use xoshiro256plusplus::Xoshiro256PlusPlus;
pub use xoshiro256starstar::Xoshiro256StarStar;
pub use xoshiro512plus::Xoshiro512Plus;
pub use xoshiro512plusplus::Xoshiro512PlusPlus;
pub use xoshiro512starstar::Xoshiro512StarStar;
