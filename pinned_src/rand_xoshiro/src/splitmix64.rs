// Copyright 2018 Developers of the Rand project.
//
// Licensed under the Apache License, Version 2.0 <LICENSE-APACHE or
// https://www.apache.org/licenses/LICENSE-2.0> or the MIT license
// <LICENSE-MIT or https://opensource.org/licenses/MIT>, at your
// option. This file may not be copied, modified, or distributed
// except according to those terms.

use rand_core::impls::fill_bytes_via_next;
use rand_core::le::read_u64_into;
use rand_core::{RngCore, SeedableRng};
#[cfg(feature = "serde")]
use serde::{Deserialize, Serialize};

/// A splitmix64 random number generator.
///
/// The splitmix algorithm is not suitable for cryptographic purposes, but is
/// very fast and has a 64 bit state.
///
/// The algorithm used here is translated from [the `splitmix64.c`
/// reference source code](http://xoshiro.di.unimi.it/splitmix64.c) by
/// Sebastiano Vigna. For `next_u32`, a more efficient mixing function taken
/// from [`dsiutils`](http://dsiutils.di.unimi.it/) is used.
#[allow(missing_copy_implementations)]
#[derive(Debug, Clone, PartialEq, Eq)]
#[cfg_attr(feature = "serde", derive(Serialize, Deserialize))]
pub struct SplitMix64 {
    x: u64,
}

const PHI: u64 = 0x9e3779b97f4a7c15;

impl RngCore for SplitMix64 {
    #[inline]
    fn next_u32(&mut self) -> u32 {
        self.x = self.x.wrapping_add(PHI);
        let mut z = self.x;
        // David Stafford's
        // (http://zimbry.blogspot.com/2011/09/better-bit-mixing-improving-on.html)
        // "Mix4" variant of the 64-bit finalizer in Austin Appleby's
        // MurmurHash3 algorithm.
        z = (z ^ (z >> 33)).wrapping_mul(0x62A9D9ED799705F5);
        z = (z ^ (z >> 28)).wrapping_mul(0xCB24D0A5C88C35B3);
        (z >> 32) as u32
    }

    #[inline]
    fn next_u64(&mut self) -> u64 {
        self.x = self.x.wrapping_add(PHI);
        let mut z = self.x;
        z = (z ^ (z >> 30)).wrapping_mul(0xbf58476d1ce4e5b9);
        z = (z ^ (z >> 27)).wrapping_mul(0x94d049bb133111eb);
        z ^ (z >> 31)
    }

    #[inline]
    fn fill_bytes(&mut self, dest: &mut [u8]) {
        fill_bytes_via_next(self, dest);
    }
}

impl SeedableRng for SplitMix64 {
    type Seed = [u8; 8];

    /// Create a new `SplitMix64`.
    fn from_seed(seed: [u8; 8]) -> SplitMix64 {
        let mut state = [0; 1];
        read_u64_into(&seed, &mut state);
        SplitMix64 { x: state[0] }
    }

    /// Seed a `SplitMix64` from a `u64`.
    fn seed_from_u64(seed: u64) -> SplitMix64 {
        SplitMix64::from_seed(seed.to_le_bytes())
    }
}

#[cfg(test)]
mod tests {
    use super::*;

    #[test]
    fn reference() {
        let mut rng = SplitMix64::seed_from_u64(1477776061723855037);
        // These values were produced with the reference implementation:
        // http://xoshiro.di.unimi.it/splitmix64.c
        let expected: [u64; 50] = [
            1985237415132408290,
            2979275885539914483,
            13511426838097143398,
            8488337342461049707,
            15141737807933549159,
            17093170987380407015,
            16389528042912955399,
            13177319091862933652,
            10841969400225389492,
            17094824097954834098,
            3336622647361835228,
            9678412372263018368,
            11111587619974030187,
            7882215801036322410,
            5709234165213761869,
            7799681907651786826,
            4616320717312661886,
            4251077652075509767,
            7836757050122171900,
            5054003328188417616,
            12919285918354108358,
            16477564761813870717,
            5124667218451240549,
            18099554314556827626,
            7603784838804469118,
            6358551455431362471,
            3037176434532249502,
            3217550417701719149,
            9958699920490216947,
            5965803675992506258,
            12000828378049868312,
            12720568162811471118,
            245696019213873792,
            8351371993958923852,
            14378754021282935786,
            5655432093647472106,
            5508031680350692005,
            8515198786865082103,
            6287793597487164412,
            14963046237722101617,
            3630795823534910476,
            8422285279403485710,
            10554287778700714153,
            10871906555720704584,
            8659066966120258468,
            9420238805069527062,
            10338115333623340156,
            13514802760105037173,
            14635952304031724449,
            15419692541594102413,
        ];
        for &e in expected.iter() {
            assert_eq!(rng.next_u64(), e);
        }
    }

    #[test]
    fn next_u32() {
        let mut rng = SplitMix64::seed_from_u64(10);
        // These values were produced with the reference implementation:
        // http://dsiutils.di.unimi.it/dsiutils-2.5.1-src.tar.gz
        let expected: [u32; 100] = [
            3930361779, 4016923089, 4113052479, 925926767, 1755287528, 802865554, 954171070,
            3724185978, 173676273, 1414488795, 12664133, 1784889697, 1303817078, 261610523,
            941280008, 2571813643, 2954453492, 378291111, 2546873158, 3923319175, 645257028,
            3881821278, 2681538690, 3037029984, 1999958137, 1853970361, 2989951788, 2126166628,
            839962987, 3989679659, 3656977858, 684284364, 1673258011, 170979192, 3037622326,
            1600748179, 1780764218, 1141430714, 4139736875, 3336905707, 2262051600, 3830850262,
            2430765325, 1073032139, 1668888979, 2716938970, 4102420032, 40305196, 386350562,
            2754480591, 622869439, 2129598760, 2306038241, 4218338739, 412298926, 3453855056,
            3061469690, 4284292697, 994843708, 1591016681, 414726151, 1238182607, 18073498,
            1237631493, 351884714, 2347486264, 2488990876, 802846256, 645670443, 957607012,
            3126589776, 1966356370, 3036485766, 868696717, 2808613630, 2070968151, 1025536863,
            1743949425, 466212687, 2994327271, 209776458, 1246125124, 3344380309, 2203947859,
            968313105, 2805485302, 197484837, 3472483632, 3931823935, 3288490351, 4165666529,
            3671080416, 689542830, 1272555356, 1039141475, 3984640460, 4142959054, 2252788890,
            2459379590, 991872507,
        ];
        for &e in expected.iter() {
            assert_eq!(rng.next_u32(), e);
        }
    }
}
