// Copyright 2018 Developers of the Rand project.
//
// Licensed under the Apache License, Version 2.0 <LICENSE-APACHE or
// https://www.apache.org/licenses/LICENSE-2.0> or the MIT license
// <LICENSE-MIT or https://opensource.org/licenses/MIT>, at your
// option. This file may not be copied, modified, or distributed
// except according to those terms.

use rand_core::impls::fill_bytes_via_next;
use rand_core::le::read_u64_into;
use rand_core::{RngCore, SeedableRng};
#[cfg(feature = "serde")]
use serde::{Deserialize, Serialize};

/// A xoroshiro128+ random number generator.
///
/// The xoroshiro128+ algorithm is not suitable for cryptographic purposes, but
/// is very fast and has good statistical properties, besides a low linear
/// complexity in the lowest bits.
///
/// The algorithm used here is translated from [the `xoroshiro128plus.c`
/// reference source code](http://xoshiro.di.unimi.it/xoroshiro128plus.c) by
/// David Blackman and Sebastiano Vigna.
#[allow(missing_copy_implementations)]
#[derive(Debug, Clone, PartialEq, Eq)]
#[cfg_attr(feature = "serde", derive(Serialize, Deserialize))]
pub struct Xoroshiro128Plus {
    s0: u64,
    s1: u64,
}

impl Xoroshiro128Plus {
    /// Jump forward, equivalently to 2^64 calls to `next_u64()`.
    ///
    /// This can be used to generate 2^64 non-overlapping subsequences for
    /// parallel computations.
    ///
    /// ```
    /// use rand_xoshiro::rand_core::SeedableRng;
    /// use rand_xoshiro::Xoroshiro128Plus;
    ///
    /// let rng1 = Xoroshiro128Plus::seed_from_u64(0);
    /// let mut rng2 = rng1.clone();
    /// rng2.jump();
    /// let mut rng3 = rng2.clone();
    /// rng3.jump();
    /// ```
    pub fn jump(&mut self) {
        impl_jump!(u64, self, [0xdf900294d8f554a5, 0x170865df4b3201fc]);
    }

    /// Jump forward, equivalently to 2^96 calls to `next_u64()`.
    ///
    /// This can be used to generate 2^32 starting points, from each of which
    /// `jump()` will generate 2^32 non-overlapping subsequences for parallel
    /// distributed computations.
    pub fn long_jump(&mut self) {
        impl_jump!(u64, self, [0xd2a98b26625eee7b, 0xdddf9b1090aa7ac1]);
    }
}

impl RngCore for Xoroshiro128Plus {
    #[inline]
    fn next_u32(&mut self) -> u32 {
        // The two lowest bits have some linear dependencies, so we use the
        // upper bits instead.
        (self.next_u64() >> 32) as u32
    }

    #[inline]
    fn next_u64(&mut self) -> u64 {
        let r = self.s0.wrapping_add(self.s1);
        impl_xoroshiro_u64!(self);
        r
    }

    #[inline]
    fn fill_bytes(&mut self, dest: &mut [u8]) {
        fill_bytes_via_next(self, dest);
    }
}
impl SeedableRng for Xoroshiro128Plus {
    type Seed = [u8; 16];

    /// Create a new `Xoroshiro128Plus`.  If `seed` is entirely 0, it will be
    /// mapped to a different seed.
    fn from_seed(seed: [u8; 16]) -> Xoroshiro128Plus {
        deal_with_zero_seed!(seed, Self, 16);
        let mut s = [0; 2];
        read_u64_into(&seed, &mut s);

        Xoroshiro128Plus { s0: s[0], s1: s[1] }
    }

    /// Seed a `Xoroshiro128Plus` from a `u64` using `SplitMix64`.
    fn seed_from_u64(seed: u64) -> Xoroshiro128Plus {
        from_splitmix!(seed)
    }
}

#[cfg(test)]
mod tests {
    use super::*;

    #[test]
    fn reference() {
        let mut rng = Xoroshiro128Plus::from_seed([1, 0, 0, 0, 0, 0, 0, 0, 2, 0, 0, 0, 0, 0, 0, 0]);
        // These values were produced with the reference implementation:
        // http://xoshiro.di.unimi.it/xoshiro128starstar.c
        let expected = [
            3,
            412333834243,
            2360170716294286339,
            9295852285959843169,
            2797080929874688578,
            6019711933173041966,
            3076529664176959358,
            3521761819100106140,
            7493067640054542992,
            920801338098114767,
        ];
        for &e in &expected {
            assert_eq!(rng.next_u64(), e);
        }
    }
}
