// Copyright 2018 Developers of the Rand project.
//
// Licensed under the Apache License, Version 2.0 <LICENSE-APACHE or
// https://www.apache.org/licenses/LICENSE-2.0> or the MIT license
// <LICENSE-MIT or https://opensource.org/licenses/MIT>, at your
// option. This file may not be copied, modified, or distributed
// except according to those terms.

use rand_core::impls::fill_bytes_via_next;
use rand_core::le::read_u64_into;
use rand_core::{RngCore, SeedableRng};
#[cfg(feature = "serde")]
use serde::{Deserialize, Serialize};

/// A xoroshiro128++ random number generator.
///
/// The xoroshiro128++ algorithm is not suitable for cryptographic purposes, but
/// is very fast and has excellent statistical properties.
///
/// The algorithm used here is translated from [the `xoroshiro128plusplus.c`
/// reference source code](http://xoshiro.di.unimi.it/xoroshiro128plusplus.c) by
/// David Blackman and Sebastiano Vigna.
#[allow(missing_copy_implementations)]
#[derive(Debug, Clone, PartialEq, Eq)]
#[cfg_attr(feature = "serde", derive(Serialize, Deserialize))]
pub struct Xoroshiro128PlusPlus {
    s0: u64,
    s1: u64,
}

impl Xoroshiro128PlusPlus {
    /// Jump forward, equivalently to 2^64 calls to `next_u64()`.
    ///
    /// This can be used to generate 2^64 non-overlapping subsequences for
    /// parallel computations.
    ///
    /// ```
    /// use rand_xoshiro::rand_core::SeedableRng;
    /// use rand_xoshiro::Xoroshiro128PlusPlus;
    ///
    /// let rng1 = Xoroshiro128PlusPlus::seed_from_u64(0);
    /// let mut rng2 = rng1.clone();
    /// rng2.jump();
    /// let mut rng3 = rng2.clone();
    /// rng3.jump();
    /// ```
    pub fn jump(&mut self) {
        impl_jump!(u64, self, [0x2bd7a6a6e99c2ddc, 0x0992ccaf6a6fca05]);
    }

    /// Jump forward, equivalently to 2^96 calls to `next_u64()`.
    ///
    /// This can be used to generate 2^32 starting points, from each of which
    /// `jump()` will generate 2^32 non-overlapping subsequences for parallel
    /// distributed computations.
    pub fn long_jump(&mut self) {
        impl_jump!(u64, self, [0x360fd5f2cf8d5d99, 0x9c6e6877736c46e3]);
    }
}

impl RngCore for Xoroshiro128PlusPlus {
    #[inline]
    fn next_u32(&mut self) -> u32 {
        self.next_u64() as u32
    }

    #[inline]
    fn next_u64(&mut self) -> u64 {
        let r = plusplus_u64!(self.s0, self.s1, 17);
        impl_xoroshiro_u64_plusplus!(self);
        r
    }

    #[inline]
    fn fill_bytes(&mut self, dest: &mut [u8]) {
        fill_bytes_via_next(self, dest);
    }
}

impl SeedableRng for Xoroshiro128PlusPlus {
    type Seed = [u8; 16];

    /// Create a new `Xoroshiro128PlusPlus`.  If `seed` is entirely 0, it will be
    /// mapped to a different seed.
    fn from_seed(seed: [u8; 16]) -> Xoroshiro128PlusPlus {
        deal_with_zero_seed!(seed, Self, 16);
        let mut s = [0; 2];
        read_u64_into(&seed, &mut s);

        Xoroshiro128PlusPlus { s0: s[0], s1: s[1] }
    }

    /// Seed a `Xoroshiro128PlusPlus` from a `u64` using `SplitMix64`.
    fn seed_from_u64(seed: u64) -> Xoroshiro128PlusPlus {
        from_splitmix!(seed)
    }
}

#[cfg(test)]
mod tests {
    use super::*;

    #[test]
    fn reference() {
        let mut rng =
            Xoroshiro128PlusPlus::from_seed([1, 0, 0, 0, 0, 0, 0, 0, 2, 0, 0, 0, 0, 0, 0, 0]);
        // These values were produced with the reference implementation:
        // http://xoshiro.di.unimi.it/xoshiro128plusplus.c
        let expected = [
            393217,
            669327710093319,
            1732421326133921491,
            11394790081659126983,
            9555452776773192676,
            3586421180005889563,
            1691397964866707553,
            10735626796753111697,
            15216282715349408991,
            14247243556711267923,
        ];
        for &e in &expected {
            assert_eq!(rng.next_u64(), e);
        }
    }
}
