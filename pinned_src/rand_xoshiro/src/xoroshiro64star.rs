// Copyright 2018 Developers of the Rand project.
//
// Licensed under the Apache License, Version 2.0 <LICENSE-APACHE or
// https://www.apache.org/licenses/LICENSE-2.0> or the MIT license
// <LICENSE-MIT or https://opensource.org/licenses/MIT>, at your
// option. This file may not be copied, modified, or distributed
// except according to those terms.

use rand_core::impls::{fill_bytes_via_next, next_u64_via_u32};
use rand_core::le::read_u32_into;
use rand_core::{RngCore, SeedableRng};
#[cfg(feature = "serde")]
use serde::{Deserialize, Serialize};

/// A xoroshiro64* random number generator.
///
/// The xoroshiro64* algorithm is not suitable for cryptographic purposes, but
/// is very fast and has good statistical properties, besides a low linear
/// complexity in the lowest bits.
///
/// The algorithm used here is translated from [the `xoroshiro64star.c`
/// reference source code](http://xoshiro.di.unimi.it/xoroshiro64star.c) by
/// David Blackman and Sebastiano Vigna.
#[allow(missing_copy_implementations)]
#[derive(Debug, Clone, PartialEq, Eq)]
#[cfg_attr(feature = "serde", derive(Serialize, Deserialize))]
pub struct Xoroshiro64Star {
    s0: u32,
    s1: u32,
}

impl RngCore for Xoroshiro64Star {
    #[inline]
    fn next_u32(&mut self) -> u32 {
        let r = self.s0.wrapping_mul(0x9E3779BB);
        impl_xoroshiro_u32!(self);
        r
    }

    #[inline]
    fn next_u64(&mut self) -> u64 {
        next_u64_via_u32(self)
    }

    #[inline]
    fn fill_bytes(&mut self, dest: &mut [u8]) {
        fill_bytes_via_next(self, dest);
    }
}

impl SeedableRng for Xoroshiro64Star {
    type Seed = [u8; 8];

    /// Create a new `Xoroshiro64Star`.  If `seed` is entirely 0, it will be
    /// mapped to a different seed.
    fn from_seed(seed: [u8; 8]) -> Xoroshiro64Star {
        deal_with_zero_seed!(seed, Self, 8);
        let mut s = [0; 2];
        read_u32_into(&seed, &mut s);

        Xoroshiro64Star { s0: s[0], s1: s[1] }
    }

    /// Seed a `Xoroshiro64Star` from a `u64` using `SplitMix64`.
    fn seed_from_u64(seed: u64) -> Xoroshiro64Star {
        from_splitmix!(seed)
    }
}

#[cfg(test)]
mod tests {
    use super::*;

    #[test]
    fn reference() {
        let mut rng = Xoroshiro64Star::from_seed([1, 0, 0, 0, 2, 0, 0, 0]);
        // These values were produced with the reference implementation:
        // http://xoshiro.di.unimi.it/xoshiro64star.c
        let expected = [
            2654435771, 327208753, 4063491769, 4259754937, 261922412, 168123673, 552743735,
            1672597395, 1031040050, 2755315674,
        ];
        for &e in &expected {
            assert_eq!(rng.next_u32(), e);
        }
    }

    #[test]
    fn zero_seed() {
        let mut rng = Xoroshiro64Star::seed_from_u64(0);
        assert_ne!(rng.next_u64(), 0);
    }
}
