// Copyright 2018 Developers of the Rand project.
//
// Licensed under the Apache License, Version 2.0 <LICENSE-APACHE or
// https://www.apache.org/licenses/LICENSE-2.0> or the MIT license
// <LICENSE-MIT or https://opensource.org/licenses/MIT>, at your
// option. This file may not be copied, modified, or distributed
// except according to those terms.

use rand_core::impls::{fill_bytes_via_next, next_u64_via_u32};
use rand_core::le::read_u32_into;
use rand_core::{RngCore, SeedableRng};
#[cfg(feature = "serde")]
use serde::{Deserialize, Serialize};

/// A xoshiro128++ random number generator.
///
/// The xoshiro128++ algorithm is not suitable for cryptographic purposes, but
/// is very fast and has excellent statistical properties.
///
/// The algorithm used here is translated from [the `xoshiro128plusplus.c`
/// reference source code](http://xoshiro.di.unimi.it/xoshiro128plusplus.c) by
/// David Blackman and Sebastiano Vigna.
#[derive(Debug, Clone, PartialEq, Eq)]
#[cfg_attr(feature = "serde", derive(Serialize, Deserialize))]
pub struct Xoshiro128PlusPlus {
    s: [u32; 4],
}

impl Xoshiro128PlusPlus {
    /// Jump forward, equivalently to 2^64 calls to `next_u32()`.
    ///
    /// This can be used to generate 2^64 non-overlapping subsequences for
    /// parallel computations.
    ///
    /// ```
    /// use rand_xoshiro::rand_core::SeedableRng;
    /// use rand_xoshiro::Xoroshiro128PlusPlus;
    ///
    /// let rng1 = Xoroshiro128PlusPlus::seed_from_u64(0);
    /// let mut rng2 = rng1.clone();
    /// rng2.jump();
    /// let mut rng3 = rng2.clone();
    /// rng3.jump();
    /// ```
    pub fn jump(&mut self) {
        impl_jump!(u32, self, [0x8764000b, 0xf542d2d3, 0x6fa035c3, 0x77f2db5b]);
    }

    /// Jump forward, equivalently to 2^96 calls to `next_u32()`.
    ///
    /// This can be used to generate 2^32 starting points, from each of which
    /// `jump()` will generate 2^32 non-overlapping subsequences for parallel
    /// distributed computations.
    pub fn long_jump(&mut self) {
        impl_jump!(u32, self, [0xb523952e, 0x0b6f099f, 0xccf5a0ef, 0x1c580662]);
    }
}

impl SeedableRng for Xoshiro128PlusPlus {
    type Seed = [u8; 16];

    /// Create a new `Xoshiro128PlusPlus`.  If `seed` is entirely 0, it will be
    /// mapped to a different seed.
    #[inline]
    fn from_seed(seed: [u8; 16]) -> Xoshiro128PlusPlus {
        deal_with_zero_seed!(seed, Self, 16);
        let mut state = [0; 4];
        read_u32_into(&seed, &mut state);
        Xoshiro128PlusPlus { s: state }
    }

    /// Seed a `Xoshiro128PlusPlus` from a `u64` using `SplitMix64`.
    fn seed_from_u64(seed: u64) -> Xoshiro128PlusPlus {
        from_splitmix!(seed)
    }
}

impl RngCore for Xoshiro128PlusPlus {
    #[inline]
    fn next_u32(&mut self) -> u32 {
        let result_starstar = plusplus_u32!(self.s[0], self.s[3]);
        impl_xoshiro_u32!(self);
        result_starstar
    }

    #[inline]
    fn next_u64(&mut self) -> u64 {
        next_u64_via_u32(self)
    }

    #[inline]
    fn fill_bytes(&mut self, dest: &mut [u8]) {
        fill_bytes_via_next(self, dest);
    }
}

#[cfg(test)]
mod tests {
    use super::*;

    #[test]
    fn reference() {
        let mut rng =
            Xoshiro128PlusPlus::from_seed([1, 0, 0, 0, 2, 0, 0, 0, 3, 0, 0, 0, 4, 0, 0, 0]);
        // These values were produced with the reference implementation:
        // http://xoshiro.di.unimi.it/xoshiro128plusplus.c
        let expected = [
            641, 1573767, 3222811527, 3517856514, 836907274, 4247214768, 3867114732, 1355841295,
            495546011, 621204420,
        ];
        for &e in &expected {
            assert_eq!(rng.next_u32(), e);
        }
    }

    #[test]
    fn test_jump() {
        let mut rng =
            Xoshiro128PlusPlus::from_seed([1, 0, 0, 0, 2, 0, 0, 0, 3, 0, 0, 0, 4, 0, 0, 0]);
        rng.jump();
        // These values were produced by instrumenting the reference implementation:
        // http://xoshiro.di.unimi.it/xoshiro128plus.c
        assert_eq!(rng.s[0], 2843103750);
        assert_eq!(rng.s[1], 2038079848);
        assert_eq!(rng.s[2], 1533207345);
        assert_eq!(rng.s[3], 44816753);
    }

    #[test]
    fn test_long_jump() {
        let mut rng =
            Xoshiro128PlusPlus::from_seed([1, 0, 0, 0, 2, 0, 0, 0, 3, 0, 0, 0, 4, 0, 0, 0]);
        rng.long_jump();
        // These values were produced by instrumenting the reference implementation:
        // http://xoshiro.di.unimi.it/xoshiro128plus.c
        assert_eq!(rng.s[0], 1611968294);
        assert_eq!(rng.s[1], 2125834322);
        assert_eq!(rng.s[2], 966769569);
        assert_eq!(rng.s[3], 3193880526);
    }
}
