// Copyright 2018 Developers of the Rand project.
//
// Licensed under the Apache License, Version 2.0 <LICENSE-APACHE or
// https://www.apache.org/licenses/LICENSE-2.0> or the MIT license
// <LICENSE-MIT or https://opensource.org/licenses/MIT>, at your
// option. This file may not be copied, modified, or distributed
// except according to those terms.

use rand_core::impls::fill_bytes_via_next;
use rand_core::le::read_u64_into;
use rand_core::{RngCore, SeedableRng};
#[cfg(feature = "serde")]
use serde::{Deserialize, Serialize};

/// A xoshiro256+ random number generator.
///
/// The xoshiro256+ algorithm is not suitable for cryptographic purposes, but
/// is very fast and has good statistical properties, besides a low linear
/// complexity in the lowest bits.
///
/// The algorithm used here is translated from [the `xoshiro256plus.c`
/// reference source code](http://xoshiro.di.unimi.it/xoshiro256plus.c) by
/// David Blackman and Sebastiano Vigna.
#[derive(Debug, Clone, PartialEq, Eq)]
#[cfg_attr(feature = "serde", derive(Serialize, Deserialize))]
pub struct Xoshiro256Plus {
    s: [u64; 4],
}

impl Xoshiro256Plus {
    /// Jump forward, equivalently to 2^128 calls to `next_u64()`.
    ///
    /// This can be used to generate 2^128 non-overlapping subsequences for
    /// parallel computations.
    ///
    /// ```
    /// use rand_xoshiro::rand_core::SeedableRng;
    /// use rand_xoshiro::Xoshiro256Plus;
    ///
    /// let rng1 = Xoshiro256Plus::seed_from_u64(0);
    /// let mut rng2 = rng1.clone();
    /// rng2.jump();
    /// let mut rng3 = rng2.clone();
    /// rng3.jump();
    /// ```
    pub fn jump(&mut self) {
        impl_jump!(
            u64,
            self,
            [
                0x180ec6d33cfd0aba,
                0xd5a61266f0c9392c,
                0xa9582618e03fc9aa,
                0x39abdc4529b1661c
            ]
        );
    }

    /// Jump forward, equivalently to 2^192 calls to `next_u64()`.
    ///
    /// This can be used to generate 2^64 starting points, from each of which
    /// `jump()` will generate 2^64 non-overlapping subsequences for parallel
    /// distributed computations.
    pub fn long_jump(&mut self) {
        impl_jump!(
            u64,
            self,
            [
                0x76e15d3efefdcbbf,
                0xc5004e441c522fb3,
                0x77710069854ee241,
                0x39109bb02acbe635
            ]
        );
    }
}

impl SeedableRng for Xoshiro256Plus {
    type Seed = [u8; 32];

    /// Create a new `Xoshiro256Plus`.  If `seed` is entirely 0, it will be
    /// mapped to a different seed.
    #[inline]
    fn from_seed(seed: [u8; 32]) -> Xoshiro256Plus {
        deal_with_zero_seed!(seed, Self);
        let mut state = [0; 4];
        read_u64_into(&seed, &mut state);
        Xoshiro256Plus { s: state }
    }

    /// Seed a `Xoshiro256Plus` from a `u64` using `SplitMix64`.
    fn seed_from_u64(seed: u64) -> Xoshiro256Plus {
        from_splitmix!(seed)
    }
}

impl RngCore for Xoshiro256Plus {
    #[inline]
    fn next_u32(&mut self) -> u32 {
        // The lowest bits have some linear dependencies, so we use the
        // upper bits instead.
        (self.next_u64() >> 32) as u32
    }

    #[inline]
    fn next_u64(&mut self) -> u64 {
        let result_plus = self.s[0].wrapping_add(self.s[3]);
        impl_xoshiro_u64!(self);
        result_plus
    }

    #[inline]
    fn fill_bytes(&mut self, dest: &mut [u8]) {
        fill_bytes_via_next(self, dest);
    }
}

#[cfg(test)]
mod tests {
    use super::*;

    #[test]
    fn reference() {
        let mut rng = Xoshiro256Plus::from_seed([
            1, 0, 0, 0, 0, 0, 0, 0, 2, 0, 0, 0, 0, 0, 0, 0, 3, 0, 0, 0, 0, 0, 0, 0, 4, 0, 0, 0, 0,
            0, 0, 0,
        ]);
        // These values were produced with the reference implementation:
        // http://xoshiro.di.unimi.it/xoshiro256plus.c
        let expected = [
            5,
            211106232532999,
            211106635186183,
            9223759065350669058,
            9250833439874351877,
            13862484359527728515,
            2346507365006083650,
            1168864526675804870,
            34095955243042024,
            3466914240207415127,
        ];
        for &e in &expected {
            assert_eq!(rng.next_u64(), e);
        }
    }
}
