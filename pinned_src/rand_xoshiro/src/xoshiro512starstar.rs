// Copyright 2018 Developers of the Rand project.
//
// Licensed under the Apache License, Version 2.0 <LICENSE-APACHE or
// https://www.apache.org/licenses/LICENSE-2.0> or the MIT license
// <LICENSE-MIT or https://opensource.org/licenses/MIT>, at your
// option. This file may not be copied, modified, or distributed
// except according to those terms.

use rand_core::impls::fill_bytes_via_next;
use rand_core::le::read_u64_into;
use rand_core::{RngCore, SeedableRng};
#[cfg(feature = "serde")]
use serde::{Deserialize, Serialize};

use crate::Seed512;

/// A xoshiro512** random number generator.
///
/// The xoshiro512** algorithm is not suitable for cryptographic purposes, but
/// is very fast and has excellent statistical properties.
///
/// The algorithm used here is translated from [the `xoshiro512starstar.c`
/// reference source code](http://xoshiro.di.unimi.it/xoshiro512starstar.c) by
/// David Blackman and Sebastiano Vigna.
#[derive(Debug, Clone, PartialEq, Eq)]
#[cfg_attr(feature = "serde", derive(Serialize, Deserialize))]
pub struct Xoshiro512StarStar {
    s: [u64; 8],
}

impl Xoshiro512StarStar {
    /// Jump forward, equivalently to 2^256 calls to `next_u64()`.
    ///
    /// This can be used to generate 2^256 non-overlapping subsequences for
    /// parallel computations.
    ///
    /// ```
    /// use rand_xoshiro::rand_core::SeedableRng;
    /// use rand_xoshiro::Xoshiro512StarStar;
    ///
    /// let rng1 = Xoshiro512StarStar::seed_from_u64(0);
    /// let mut rng2 = rng1.clone();
    /// rng2.jump();
    /// let mut rng3 = rng2.clone();
    /// rng3.jump();
    /// ```
    pub fn jump(&mut self) {
        impl_jump!(
            u64,
            self,
            [
                0x33ed89b6e7a353f9,
                0x760083d7955323be,
                0x2837f2fbb5f22fae,
                0x4b8c5674d309511c,
                0xb11ac47a7ba28c25,
                0xf1be7667092bcc1c,
                0x53851efdb6df0aaf,
                0x1ebbc8b23eaf25db
            ]
        );
    }

    /// Jump forward, equivalently to 2^384 calls to `next_u64()`.
    ///
    /// This can be used to generate 2^128 starting points, from each of which
    /// `jump()` will generate 2^128 non-overlapping subsequences for parallel
    /// distributed computations.
    pub fn long_jump(&mut self) {
        impl_jump!(
            u64,
            self,
            [
                0x11467fef8f921d28,
                0xa2a819f2e79c8ea8,
                0xa8299fc284b3959a,
                0xb4d347340ca63ee1,
                0x1cb0940bedbff6ce,
                0xd956c5c4fa1f8e17,
                0x915e38fd4eda93bc,
                0x5b3ccdfa5d7daca5
            ]
        );
    }
}

impl SeedableRng for Xoshiro512StarStar {
    type Seed = Seed512;

    /// Create a new `Xoshiro512StarStar`.  If `seed` is entirely 0, it will be
    /// mapped to a different seed.
    #[inline]
    fn from_seed(seed: Seed512) -> Xoshiro512StarStar {
        deal_with_zero_seed!(seed, Self);
        let mut state = [0; 8];
        read_u64_into(&seed.0, &mut state);
        Xoshiro512StarStar { s: state }
    }

    /// Seed a `Xoshiro512StarStar` from a `u64` using `SplitMix64`.
    fn seed_from_u64(seed: u64) -> Xoshiro512StarStar {
        from_splitmix!(seed)
    }
}

impl RngCore for Xoshiro512StarStar {
    #[inline]
    fn next_u32(&mut self) -> u32 {
        // The lowest bits have some linear dependencies, so we use the
        // upper bits instead.
        (self.next_u64() >> 32) as u32
    }

    #[inline]
    fn next_u64(&mut self) -> u64 {
        let result_starstar = starstar_u64!(self.s[1]);
        impl_xoshiro_large!(self);
        result_starstar
    }

    #[inline]
    fn fill_bytes(&mut self, dest: &mut [u8]) {
        fill_bytes_via_next(self, dest);
    }
}

#[cfg(test)]
mod tests {
    use super::*;

    #[test]
    #[rustfmt::skip]
    fn reference() {
        let mut rng = Xoshiro512StarStar::from_seed(Seed512(
            [1, 0, 0, 0, 0, 0, 0, 0, 2, 0, 0, 0, 0, 0, 0, 0,
             3, 0, 0, 0, 0, 0, 0, 0, 4, 0, 0, 0, 0, 0, 0, 0,
             5, 0, 0, 0, 0, 0, 0, 0, 6, 0, 0, 0, 0, 0, 0, 0,
             7, 0, 0, 0, 0, 0, 0, 0, 8, 0, 0, 0, 0, 0, 0, 0]));
        // These values were produced with the reference implementation:
        // http://xoshiro.di.unimi.it/xoshiro512starstar.c
        let expected = [
            11520,
            0,
            23040,
            23667840,
            144955163520,
            303992986974289920,
            25332796375735680,
            296904390158016,
            13911081092387501979,
            15304787717237593024,
        ];
        for &e in &expected {
            assert_eq!(rng.next_u64(), e);
        }
    }
}
