import Rngs.Model.Hc128
set_option maxRecDepth 4096
namespace Rngs
namespace Hc128
def stepPC (c : Core) (i i511 i3 i10 i12 : Nat) : U32 × Core :=
  ((stepP c.t i i511 i3 i10 i12).1, { c with t := (stepP c.t i i511 i3 i10 i12).2 })
def stepQC (c : Core) (i i511 i3 i10 i12 : Nat) : U32 × Core :=
  ((stepQ c.t i i511 i3 i10 i12).1, { c with t := (stepQ c.t i i511 i3 i10 i12).2 })

abbrev StepFn := Core → Nat → Nat → Nat → Nat → Nat → U32 × Core

def blockWith (step : StepFn) (b : Nat × Nat × Nat) (c : Core) (results : Array U32) : Array U32 × Core :=
  let (results, c, _) :=
    TABLE.foldl
      (fun (acc : Array U32 × Core × Nat) row =>
        let (results, c, k) := acc
        let (r0, r1, r2, r3, r4) := row
        let r := step c (idx b r0) (idx b r1) (idx b r2) (idx b r3) (idx b r4)
        (wr results k r.1, r.2, k + 1))
      (results, c, 0)
  (results, c)

theorem blockWith_unrolled (step : StepFn) (cc dd ee : Nat) (st : Core) (results : Array U32) :
    blockWith step (cc, dd, ee) st results =
      (let r_1 := step st (cc + 0) (cc + 1) (ee + 13) (ee + 6) (ee + 4); let st := r_1.2; let results := wr results 0 r_1.1; let r_2 := step st (cc + 1) (cc + 2) (ee + 14) (ee + 7) (ee + 5); let st := r_2.2; let results := wr results 1 r_2.1; let r_3 := step st (cc + 2) (cc + 3) (ee + 15) (ee + 8) (ee + 6); let st := r_3.2; let results := wr results 2 r_3.1; let r_4 := step st (cc + 3) (cc + 4) (cc + 0) (ee + 9) (ee + 7); let st := r_4.2; let results := wr results 3 r_4.1; let r_5 := step st (cc + 4) (cc + 5) (cc + 1) (ee + 10) (ee + 8); let st := r_5.2; let results := wr results 4 r_5.1; let r_6 := step st (cc + 5) (cc + 6) (cc + 2) (ee + 11) (ee + 9); let st := r_6.2; let results := wr results 5 r_6.1; let r_7 := step st (cc + 6) (cc + 7) (cc + 3) (ee + 12) (ee + 10); let st := r_7.2; let results := wr results 6 r_7.1; let r_8 := step st (cc + 7) (cc + 8) (cc + 4) (ee + 13) (ee + 11); let st := r_8.2; let results := wr results 7 r_8.1; let r_9 := step st (cc + 8) (cc + 9) (cc + 5) (ee + 14) (ee + 12); let st := r_9.2; let results := wr results 8 r_9.1; let r_10 := step st (cc + 9) (cc + 10) (cc + 6) (ee + 15) (ee + 13); let st := r_10.2; let results := wr results 9 r_10.1; let r_11 := step st (cc + 10) (cc + 11) (cc + 7) (cc + 0) (ee + 14); let st := r_11.2; let results := wr results 10 r_11.1; let r_12 := step st (cc + 11) (cc + 12) (cc + 8) (cc + 1) (ee + 15); let st := r_12.2; let results := wr results 11 r_12.1; let r_13 := step st (cc + 12) (cc + 13) (cc + 9) (cc + 2) (cc + 0); let st := r_13.2; let results := wr results 12 r_13.1; let r_14 := step st (cc + 13) (cc + 14) (cc + 10) (cc + 3) (cc + 1); let st := r_14.2; let results := wr results 13 r_14.1; let r_15 := step st (cc + 14) (cc + 15) (cc + 11) (cc + 4) (cc + 2); let st := r_15.2; let results := wr results 14 r_15.1; let r_16 := step st (cc + 15) (dd + 0) (cc + 12) (cc + 5) (cc + 3); let st := r_16.2; let results := wr results 15 r_16.1; (results, st)) := by
  rfl

/-- feedback variant (sixteen_steps): the output of step k is written to `t[base + k]` -/
def feedWith (step : StepFn) (b : Nat × Nat × Nat) (base : Nat) (c : Core) : Core :=
  (TABLE.foldl
      (fun (acc : Core × Nat) row =>
        let (c, k) := acc
        let (r0, r1, r2, r3, r4) := row
        let r := step c (idx b r0) (idx b r1) (idx b r2) (idx b r3) (idx b r4)
        ({ r.2 with t := wr r.2.t (base + k) r.1 }, k + 1))
      (c, 0)).1

theorem feedWith_unrolled (step : StepFn) (cc dd ee base : Nat) (st : Core) :
    feedWith step (cc, dd, ee) base st =
      (let r_1 := step st (cc + 0) (cc + 1) (ee + 13) (ee + 6) (ee + 4); let st := r_1.2; let st : Hc128.Core := { st with t := wr st.t (base + 0) r_1.1 }; let r_2 := step st (cc + 1) (cc + 2) (ee + 14) (ee + 7) (ee + 5); let st := r_2.2; let st : Hc128.Core := { st with t := wr st.t (base + 1) r_2.1 }; let r_3 := step st (cc + 2) (cc + 3) (ee + 15) (ee + 8) (ee + 6); let st := r_3.2; let st : Hc128.Core := { st with t := wr st.t (base + 2) r_3.1 }; let r_4 := step st (cc + 3) (cc + 4) (cc + 0) (ee + 9) (ee + 7); let st := r_4.2; let st : Hc128.Core := { st with t := wr st.t (base + 3) r_4.1 }; let r_5 := step st (cc + 4) (cc + 5) (cc + 1) (ee + 10) (ee + 8); let st := r_5.2; let st : Hc128.Core := { st with t := wr st.t (base + 4) r_5.1 }; let r_6 := step st (cc + 5) (cc + 6) (cc + 2) (ee + 11) (ee + 9); let st := r_6.2; let st : Hc128.Core := { st with t := wr st.t (base + 5) r_6.1 }; let r_7 := step st (cc + 6) (cc + 7) (cc + 3) (ee + 12) (ee + 10); let st := r_7.2; let st : Hc128.Core := { st with t := wr st.t (base + 6) r_7.1 }; let r_8 := step st (cc + 7) (cc + 8) (cc + 4) (ee + 13) (ee + 11); let st := r_8.2; let st : Hc128.Core := { st with t := wr st.t (base + 7) r_8.1 }; let r_9 := step st (cc + 8) (cc + 9) (cc + 5) (ee + 14) (ee + 12); let st := r_9.2; let st : Hc128.Core := { st with t := wr st.t (base + 8) r_9.1 }; let r_10 := step st (cc + 9) (cc + 10) (cc + 6) (ee + 15) (ee + 13); let st := r_10.2; let st : Hc128.Core := { st with t := wr st.t (base + 9) r_10.1 }; let r_11 := step st (cc + 10) (cc + 11) (cc + 7) (cc + 0) (ee + 14); let st := r_11.2; let st : Hc128.Core := { st with t := wr st.t (base + 10) r_11.1 }; let r_12 := step st (cc + 11) (cc + 12) (cc + 8) (cc + 1) (ee + 15); let st := r_12.2; let st : Hc128.Core := { st with t := wr st.t (base + 11) r_12.1 }; let r_13 := step st (cc + 12) (cc + 13) (cc + 9) (cc + 2) (cc + 0); let st := r_13.2; let st : Hc128.Core := { st with t := wr st.t (base + 12) r_13.1 }; let r_14 := step st (cc + 13) (cc + 14) (cc + 10) (cc + 3) (cc + 1); let st := r_14.2; let st : Hc128.Core := { st with t := wr st.t (base + 13) r_14.1 }; let r_15 := step st (cc + 14) (cc + 15) (cc + 11) (cc + 4) (cc + 2); let st := r_15.2; let st : Hc128.Core := { st with t := wr st.t (base + 14) r_15.1 }; let r_16 := step st (cc + 15) (dd + 0) (cc + 12) (cc + 5) (cc + 3); let st := r_16.2; let st : Hc128.Core := { st with t := wr st.t (base + 15) r_16.1 }; st) := by
  simp only [feedWith, TABLE, List.foldl, idx]
end Hc128
end Rngs
