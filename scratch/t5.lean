import Rngs.Lib.ExtTieBlock
set_option maxRecDepth 4096
namespace Rngs
namespace Isaac
variable {w : Nat}
def generateT (p : Params w) (st : Core w) (results : Array (BitVec w)) : Array (BitVec w) × Core w :=
  let st : Core w := { st with c := st.c + 1 }
  let a := st.a
  let b := st.b + st.c
  let MIDPOINT := 256 / 2
  let m := 0
  let m2 := MIDPOINT
  let (st, results, a, b) :=
    List.foldl (halfBodyT p m m2) (st, results, a, b) (List.map (fun i => i * 4) (List.range (MIDPOINT / 4)))
  let m := MIDPOINT
  let m2 := 0
  let (st, results, a, b) :=
    List.foldl (halfBodyT p m m2) (st, results, a, b) (List.map (fun i => i * 4) (List.range (MIDPOINT / 4)))
  let st : Core w := { st with a := a }
  let st : Core w := { st with b := b }
  (results, st)

theorem generateT_eq (p : Params w) (st : Core w) (results : Array (BitVec w)) :
    generateT p st results = generate p st results := by
  unfold generateT generate
  simp only [halfT_eq, halfLoop_eq, MIDPOINT, Nat.reduceDiv]
  generalize List.foldl (halfStep p 0 128) _ _ = s1
  trace_state
  rfl
end Isaac
end Rngs
