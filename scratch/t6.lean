import Rngs.Lib.ExtTieBlock
set_option maxRecDepth 4096
namespace Rngs
namespace Isaac
variable {w : Nat}
/-- accumulator of the translated loops of `init`: `(a, …, h, mem)` -/
abbrev InitAcc (w : Nat) :=
  BitVec w × BitVec w × BitVec w × BitVec w × BitVec w × BitVec w × BitVec w × BitVec w × Array (BitVec w)

def initBodyT (p : Params w) (acc : InitAcc w) (i : Nat) : InitAcc w :=
  let (a, b, c, d, e, f, g, h, mem) := acc
  let a := a + rd mem i; let b := b + rd mem (i + 1); let c := c + rd mem (i + 2); let d := d + rd mem (i + 3)
  let e := e + rd mem (i + 4); let f := f + rd mem (i + 5); let g := g + rd mem (i + 6); let h := h + rd mem (i + 7)
  let r_1 := mixT p a b c d e f g h
  let a := r_1.1; let b := r_1.2.1; let c := r_1.2.2.1; let d := r_1.2.2.2.1; let e := r_1.2.2.2.2.1
  let f := r_1.2.2.2.2.2.1; let g := r_1.2.2.2.2.2.2.1; let h := r_1.2.2.2.2.2.2.2
  let mem := wr mem i a; let mem := wr mem (i + 1) b; let mem := wr mem (i + 2) c; let mem := wr mem (i + 3) d
  let mem := wr mem (i + 4) e; let mem := wr mem (i + 5) f; let mem := wr mem (i + 6) g; let mem := wr mem (i + 7) h
  (a, b, c, d, e, f, g, h, mem)

/-- the model's inner loop body of `init` -/
def initStep (p : Params w) (acc : Array (BitVec w) × Oct w) (j : Nat) : Array (BitVec w) × Oct w :=
  let (mem, o) := acc
  let i := j * 8
  let o : Oct w :=
    ⟨o.a + rd mem i, o.b + rd mem (i+1), o.c + rd mem (i+2), o.d + rd mem (i+3),
     o.e + rd mem (i+4), o.f + rd mem (i+5), o.g + rd mem (i+6), o.h + rd mem (i+7)⟩
  let o := p.mix o
  let mem := wr mem i o.a
  let mem := wr mem (i+1) o.b
  let mem := wr mem (i+2) o.c
  let mem := wr mem (i+3) o.d
  let mem := wr mem (i+4) o.e
  let mem := wr mem (i+5) o.f
  let mem := wr mem (i+6) o.g
  let mem := wr mem (i+7) o.h
  (mem, o)

def initφ (acc : InitAcc w) : Array (BitVec w) × Oct w :=
  (acc.2.2.2.2.2.2.2.2, ⟨acc.1, acc.2.1, acc.2.2.1, acc.2.2.2.1, acc.2.2.2.2.1, acc.2.2.2.2.2.1, acc.2.2.2.2.2.2.1, acc.2.2.2.2.2.2.2.1⟩)
def initψ (q : Array (BitVec w) × Oct w) : InitAcc w :=
  (q.2.a, q.2.b, q.2.c, q.2.d, q.2.e, q.2.f, q.2.g, q.2.h, q.1)

theorem initInnerT_eq (p : Params w) (l : List Nat) (acc : InitAcc w) :
    List.foldl (initBodyT p) acc (List.map (fun i => i * 8) l) = initψ (List.foldl (initStep p) (initφ acc) l) := by
  rw [List.foldl_map]
  refine foldl_conj initφ initψ (fun _ => rfl) _ _ (fun ⟨a, b, c, d, e, f, g, h, mem⟩ x => ?_) l acc
  simp only [initφ, initBodyT, initStep, mixT]

theorem initOuterT_eq (p : Params w) (l : List Nat) (ls : List Nat) (acc : InitAcc w) :
    List.foldl (fun (acc : InitAcc w) (_ : Nat) => List.foldl (initBodyT p) acc (List.map (fun i => i * 8) l)) acc ls =
      initψ (List.foldl (fun acc _ => List.foldl (initStep p) acc l) (initφ acc) ls) := by
  refine foldl_conj initφ initψ (fun _ => rfl) _ _ (fun a _ => ?_) ls acc
  rw [initInnerT_eq]
  rfl

/-- `init` in the translator's style -/
def initT (p : Params w) (mem : Array (BitVec w)) (rounds : Nat) : Core w :=
  let a := p.golden.a; let b := p.golden.b; let c := p.golden.c; let d := p.golden.d
  let e := p.golden.e; let f := p.golden.f; let g := p.golden.g; let h := p.golden.h
  let (_a, _b, _c, _d, _e, _f, _g, _h, mem) :=
    List.foldl (fun (acc : InitAcc w) (_ : Nat) => List.foldl (initBodyT p) acc (List.map (fun i => i * 8) (List.range (256 / 8))))
      (a, b, c, d, e, f, g, h, mem) (List.range rounds)
  { mem := mem, a := 0, b := 0, c := 0 }

theorem initT_eq (p : Params w) (mem : Array (BitVec w)) (rounds : Nat) : initT p mem rounds = init p mem rounds := by
  unfold initT init
  simp only [initOuterT_eq]
  rfl

end Isaac
end Rngs
