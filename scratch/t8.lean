import Rngs.Model.Isaac
namespace Rngs
namespace Isaac
variable {w : Nat}
set_option maxRecDepth 8192
theorem extend_writes2 (x0 x1 : BitVec w) :
    wr (wr (Array.replicate 256 (0 : BitVec w)) 0 x0) 1 x1 = extend [x0, x1] := by
  apply Array.ext'
  simp [extend, wr, RAND_SIZE, List.replicate]
theorem extend_writes8 (x0 x1 x2 x3 x4 x5 x6 x7 : BitVec w) :
    wr (wr (wr (wr (wr (wr (wr (wr (Array.replicate 256 (0 : BitVec w)) 0 x0) 1 x1) 2 x2) 3 x3) 4 x4) 5 x5) 6 x6) 7 x7 =
      extend [x0, x1, x2, x3, x4, x5, x6, x7] := by
  apply Array.ext'
  simp [extend, wr, RAND_SIZE, List.replicate]
end Isaac
end Rngs
