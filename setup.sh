#!/bin/sh
# Build the framework from files on disk only (offline): Lean library + proofs + model driver,
# the Rust harness against /repo's current working tree (two feature sets), and the translator tie
# (definitions regenerated from /repo's sources, checked against the model; the verdict is cached by content).
set -e
cd "$(dirname "$0")"
export CARGO_NET_OFFLINE=true
(cd lean && lake build Rngs modeldriver)
(cd harness && RUSTFLAGS="--cfg rngs_verif --check-cfg cfg(rngs_verif)" cargo build --offline --profile tie)
(cd harness && RUSTFLAGS="--cfg rngs_verif --check-cfg cfg(rngs_verif)" CARGO_TARGET_DIR="$(pwd)/target-jlog" cargo build --offline --profile tie --features jlog)
(cd harness && RUSTFLAGS="--cfg rngs_verif --check-cfg cfg(rngs_verif)" cargo build --offline --profile release)
(cd harness && RUSTFLAGS="--cfg rngs_verif --check-cfg cfg(rngs_verif)" CARGO_TARGET_DIR="$(pwd)/target-noserde" cargo build --offline --profile release --no-default-features)
python3 tools/exttie.py /repo | head -3
python3 tools/audit_extra.py
echo setup-ok
