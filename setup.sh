#!/bin/sh
# Build the framework from files on disk only (offline): Lean library + proofs + model driver,
# then the Rust harness against /repo's current working tree.
set -e
cd "$(dirname "$0")"
export CARGO_NET_OFFLINE=true
(cd lean && lake build Rngs modeldriver)
(cd harness && RUSTFLAGS="--cfg rngs_verif --check-cfg cfg(rngs_verif)" cargo build --offline --profile tie)
echo setup-ok
