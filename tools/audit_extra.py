#!/usr/bin/env python3
"""audit_extra.py — the theorems beyond the property list (lean/Rngs/Extra/*.lean): build, forbidden-token scan of the files and
their Lib imports, `#print axioms` of every theorem ⊆ {propext, Classical.choice, Quot.sound}.  Prints one summary line; exit 1
when anything is off.  Run by setup.sh; the result is written to evidence/EXTRA.json (informational, not a property)."""
import glob, json, os, re, sys
sys.path.insert(0, os.path.dirname(os.path.abspath(__file__)))
import common
from common import LEAN, sh, strip_comments, FORBIDDEN_TOKENS, ALLOWED_AXIOMS

def main():
    files = sorted(glob.glob(os.path.join(LEAN, "Rngs", "Extra", "*.lean")))
    mods, thms, bad = [], [], []
    for f in files:
        mod = "Rngs.Extra." + os.path.basename(f)[:-5]
        mods.append(mod)
        src = strip_comments(open(f).read())
        ns = re.findall(r"^namespace\s+(\S+)", src, re.M)
        prefix = ns[0] if ns else "Rngs"
        # namespaces may be nested / reopened: resolve by asking Lean with the full names we can form
        cur = []
        for line in src.split("\n"):
            m = re.match(r"^namespace\s+(\S+)", line)
            if m:
                cur.append(m.group(1)); continue
            m = re.match(r"^end\s+(\S+)", line)
            if m and cur and cur[-1].split(".")[-1] == m.group(1).split(".")[-1]:
                cur.pop(); continue
            m = re.match(r"^theorem\s+(\S+)", line)
            if m:
                thms.append((mod, ".".join(cur + [m.group(1)])))
        for tok in FORBIDDEN_TOKENS:
            if tok in src:
                bad.append(f"{mod}: forbidden token {tok.strip()}")
        if re.search(r"^\s*axiom\s", src, re.M):
            bad.append(f"{mod}: axiom declaration")
        for imp in re.findall(r"^import\s+(Rngs\.Lib\.\S+)", src, re.M):
            p = os.path.join(LEAN, *imp.split(".")) + ".lean"
            s2 = strip_comments(open(p).read())
            for tok in FORBIDDEN_TOKENS:
                if tok in s2:
                    bad.append(f"{imp}: forbidden token {tok.strip()}")
    ok, log = common.lake_build(mods)
    if not ok:
        print("EXTRA: build failed\n" + log[-1500:]); return 1
    audit = os.path.join(LEAN, ".lake", f"audit_extra_{os.getpid()}.lean")
    with open(audit, "w") as f:
        for m in mods:
            f.write(f"import {m}\n")
        for _, t in thms:
            f.write(f"#print axioms {t}\n")
    rc, out, err = sh(["lake", "env", "lean", audit], cwd=LEAN, timeout=1800)
    os.remove(audit)
    txt = (out + err).replace("\n", " ")
    found = {}
    for m in re.finditer(r"'(\S+)' depends on axioms: \[([^\]]*)\]", txt):
        found[m.group(1)] = {a.strip() for a in m.group(2).split(",") if a.strip()}
    for m in re.finditer(r"'(\S+)' does not depend on any axioms", txt):
        found[m.group(1)] = set()
    okc = 0
    for mod, t in thms:
        ax = found.get(t)
        if ax is None:
            bad.append(f"{t}: no #print axioms output")
        elif ax - ALLOWED_AXIOMS:
            bad.append(f"{t}: axioms {sorted(ax - ALLOWED_AXIOMS)}")
        else:
            okc += 1
    res = dict(modules=mods, theorems=[t for _, t in thms], checked=okc, problems=bad)
    os.makedirs(os.path.join(common.VERIF, "evidence"), exist_ok=True)
    json.dump(res, open(os.path.join(common.VERIF, "evidence", "EXTRA.json"), "w"), indent=1)
    print(f"EXTRA: {okc}/{len(thms)} theorems of {len(mods)} modules kernel-checked with standard axioms only; problems: {bad[:5]}")
    return 1 if bad or rc != 0 else 0

sys.exit(main())
