#!/usr/bin/env python3
"""Entry point of every MANIFEST command:  tools/check.py <Cxx> [--tier quick|thorough]
                                           tools/check.py <Cxx> --replay <file>
1. proof obligations of Props/<Cxx>.lean (lake build, token grep, #print axioms)
2. rebuild the harness from /repo's current working tree (hooks on) and run the tie
3. decide: failing input on the real code -> VIOLATION (or KNOWN-FINDING); broken obligation /
   correspondence without failing input -> VIOLATION ... no-failing-input-found
4. write evidence/<Cxx>.json
"""
import argparse, collections, hashlib, json, os, random, re, sys, time, traceback
sys.path.insert(0, os.path.dirname(os.path.abspath(__file__)))
import common
from common import *

class Ctx:
    def __init__(self, pid, tier, seed):
        self.pid, self.tier, self.seed = pid, tier, seed
        self.rng = random.Random((seed << 8) ^ int(pid[1:]))
        self.thorough = tier == "thorough"
        self.hexe = None
        self.evaluations = 0
        self.distinct = set()
        self.samples = []
        self.dist = collections.Counter()
        self.disagreements = []      # model vs implementation
        self.failures = []           # property fails on the real code (implementation vs oracle)
        self.families = collections.Counter()
        self.notes = []
        self.traces_validated = 0

    def scale(self, quick, thorough):
        return thorough if self.thorough else quick

    def count_case(self, family, case, nontrivial=True):
        self.evaluations += 1
        self.families[family] += 1
        if nontrivial:
            self.distinct.add(hashlib.md5(("\n".join(case)).encode()).digest())
        if len(self.samples) < 6 and self.families[family] <= 1:
            self.samples.append(dict(family=family, script=[l if len(l) < 200 else l[:200] + "…" for l in case[:12]]))

    def absolute(self, family, cases, mask=None, nontrivial=None, stop_at_blocked=False, equal=None):
        """run the same cases through the real crates and the Lean model and compare.
        mask(cmd) -> True for lines that are executed but not compared."""
        if not cases:
            return [], []
        h = run_chunks(self.hexe, cases)
        m = run_chunks(DRIVER, cases)
        for idx, (c, ho, mo) in enumerate(zip(cases, h, m)):
            self.count_case(family, c, True if nontrivial is None else nontrivial(c))
            self.traces_validated += 1
            for i, (cmd, x, y) in enumerate(zip(c, ho, mo)):
                if mask and mask(cmd):
                    continue
                if stop_at_blocked and x == "blocked" and y == "blocked":
                    break
                if not (equal(x, y) if equal else x == y):
                    self.disagreements.append(dict(family=family, case=c, line=i, cmd=cmd, impl=x, model=y))
                    break
        return h, m

    def absolute_from_state(self, family, cases, mask=None, stop_at_blocked=False, equal=None):
        """Like `absolute`, but the model starts from the state the REAL constructor produced (read back through the
        serde image) instead of from the model's own `from_seed`: the tie of a property that is not about seeding is
        then insensitive to seeding changes.  A `new <d> <G> seed|u64 …` line is followed by `ser <d>` on the real
        side; on the model side it becomes `de <d> <G> <that image>`.  Falls back to the plain line when the type has
        no serde image (Hc128Rng) or construction failed."""
        if not cases:
            return [], []
        aug, marks = [], []
        for c in cases:
            a, m = [], []
            for l in c:
                a.append(l)
                t = l.split()
                if t[0] == "new" and t[3] in ("seed", "u64") and GENS.get(t[2], {}).get("ser"):
                    a.append(f"ser {t[1]}")
                    m.append(len(a) - 2)
            aug.append(a); marks.append(set(m))
        h = run_chunks(self.hexe, aug)
        mcases = []
        for a, m, ho in zip(aug, marks, h):
            mc = list(a)
            for i in m:
                img = ho[i + 1]
                if ho[i] == "ok" and img not in ("unsupported", "panic", "-"):
                    t = a[i].split()
                    mc[i] = f"de {t[1]} {t[2]} {img}"
            mcases.append(mc)
        mo_all = run_chunks(DRIVER, mcases)
        hs, ms = [], []
        for c, a, m, ho, mo in zip(cases, aug, marks, h, mo_all):
            self.count_case(family, c)
            self.traces_validated += 1
            keep = [i for i in range(len(a)) if (i - 1) not in m]      # drop the inserted ser lines
            ho2, mo2 = [ho[i] for i in keep], [mo[i] for i in keep]
            hs.append(ho2); ms.append(mo2)
            for i, (cmd, x, y) in enumerate(zip(c, ho2, mo2)):
                if cmd.startswith("new ") and cmd.split()[3] in ("seed", "u64"):
                    continue
                if mask and mask(cmd):
                    continue
                if stop_at_blocked and x == "blocked" and y == "blocked":
                    break
                if (equal(x, y) if equal else x == y):
                    continue
                self.disagreements.append(dict(family=family, case=c, line=i, cmd=cmd, impl=x, model=y))
                break
        return hs, ms

    def real(self, family, cases, nontrivial=None):
        """run cases on the real crates only"""
        if not cases:
            return []
        h = run_chunks(self.hexe, cases)
        for c in cases:
            self.count_case(family, c, True if nontrivial is None else nontrivial(c))
        return h

    def fail(self, family, what, case, expected=None, actual=None, key=None):
        self.failures.append(dict(family=family, what=what, case=case, expected=expected, actual=actual, key=key))


# ------------------------------------------------------------------ the proved tie (translator) and its falsifier
EXT_PIDS = {"C01", "C02", "C03", "C04", "C05", "C06", "C07", "C08", "C09", "C10", "C12", "C13", "C14", "C15", "C16", "C18"}
TOOLPY = "/opt/veriftools/pyvenv/bin/python"

CONFIG_DEP = re.compile(r"#\[cfg\]|conditionally compiled|depends on the\s+build configuration|build configuration")

UNIT_CRATE = {"XorShiftRng": "rand_xorshift", "JitterRng": "rand_jitter", "JitterLfsr": "rand_jitter", "EcState": "rand_jitter",
              "Hc128Fns": "rand_hc", "Hc128Core": "rand_hc", "IsaacCore": "rand_isaac", "Isaac64Core": "rand_isaac"}

def ext_case(r):
    """operation script that replays a srcdiff counterexample on the real crates and on the model"""
    g, fn, rp = r["unit"], r["fn"], r["replay"]
    if rp["kind"] == "stir":
        return ["timer 0 1", "jit 1 0", f"setpool 1 {rp['hex']}", "stir 1", "pool 1"]
    if rp["kind"] == "lfsr":
        return [f"timer 0 {rp['time']},{rp['time']}", "jit 1 0", f"setpool 1 {rp['hex']}", "stats 1 0", "pool 1"]
    g = rp.get("gen", g)          # block cores (Hc128Core, IsaacCore …) are replayed through their generator type
    nat = "u32" if common.GENS.get(g, {}).get("w") == 32 else "u64"
    tail = rp.get("ops") or ["ser 0", f"{nat} 0", "ser 0"]
    if rp["kind"] == "seed":
        return [f"new 0 {g} seed {rp['hex']}"] + tail
    if rp["kind"] == "u64":
        return [f"new 0 {g} u64 {rp['hex']}"] + tail
    if rp["kind"] == "image":     # a whole serde image (results buffer, index, core state) found by z3 for a block function
        return [f"de 0 {g} {rp['hex']}"] + tail
    if rp["kind"] == "source":    # bytes of a scripted source: from_rng / try_from_rng (= init on a chosen array)
        return [f"src 1 {rp['hex']}", f"new 0 {g} {rp.get('how', 'rng')} 1"] + tail
    op = {"next_u32": "u32 0", "next_u64": "u64 0", "jump": "jump 0", "long_jump": "ljump 0"}.get(fn)
    if fn.startswith("fill_bytes"):
        op = f"fill 0 {fn.split(':')[1]}"
    return [f"de 0 {g} {rp['hex']}", op, "ser 0", f"{nat} 0", "ser 0"]

def ext_stage(ctx, ob, pid):
    """correspondence theorems regenerated from the current source; on a broken / missing one: z3 search for an input on which
    the current source differs from the pinned source (srcdiff), replayed on the real crates and on the model."""
    import exttie, subprocess
    info = dict(ran=False)
    if pid not in EXT_PIDS:
        return info
    try:
        res = exttie.run(common.REPO)
    except Exception as e:
        ctx.notes.append("translator tie could not run: " + repr(e)[:300])
        return info
    mine = {k: v for k, v in res["theorems"].items() if pid in v["props"]}
    try:
        exp = json.load(open(os.path.join(common.VERIF, "pinned_src", "EXPECTED.json")))["theorems"]
    except Exception:
        exp = {}
    missing = sorted(k for k, v in exp.items() if pid in v["props"] and k not in res["theorems"])
    if pid in ("C12", "C14", "C18"):
        # functions (of any property) that left the fragment because their behaviour depends on the build configuration
        def _why(k):
            return str(((res["report"].get(k.split(".")[0]) or {}).get("skipped") or {}).get(k.split(".", 1)[1], ""))
        missing = sorted(set(missing) | {k for k in exp if k not in res["theorems"] and CONFIG_DEP.search(_why(k))})
    # root causes only: a theorem that fails because a theorem it uses failed is listed in a note (unless its root cause is an
    # obligation of another property: then it is what this property has to report)
    all_th = res["theorems"]
    dependents = {k: v["depends_on_broken"] for k, v in mine.items() if not v["ok"] and v.get("depends_on_broken")
                  and any(r in mine for r in v["depends_on_broken"])}
    broken = sorted(k for k, v in mine.items() if not v["ok"] and k not in dependents)
    if dependents:
        ctx.notes.append("ExtTie theorems not re-proved only because a theorem they use is broken: " +
                         "; ".join(f"{k} <- {', '.join(v)}" for k, v in sorted(dependents.items())))
    info.update(ran=True, key=res["key"], cached=res.get("cached"), theorems=len(mine), proved=len(mine) - len(broken) - len(dependents),
                broken=broken, depends_on_broken=dependents, left_fragment=missing,
                untranslated={u: r.get("skipped") or r.get("error") for u, r in res["report"].items() if r.get("skipped") or r.get("error")},
                rand_core={k: v for k, v in (res["report"].get("rand_core") or {}).items() if k in ("version", "sha256", "error")})
    pinned_rc = (json.load(open(os.path.join(common.VERIF, "pinned_src", "EXPECTED.json"))).get("rand_core") or {}) \
        if os.path.exists(os.path.join(common.VERIF, "pinned_src", "EXPECTED.json")) else {}
    if pinned_rc.get("sha256") and info["rand_core"].get("sha256") and pinned_rc["sha256"] != info["rand_core"]["sha256"]:
        ctx.notes.append("rand_core: the registry source differs from the pinned one (sha256 " + info["rand_core"]["sha256"][:16] + "…): "
                         "the ExtTie.RandCore* theorems of this run are about the current registry source")
    for k, v in mine.items():
        ob["obligations"].append("ExtTie." + k)
        if v["ok"]:
            ob["discharged"].append("ExtTie." + k)
            ob["axioms"].update(v.get("axioms") or [])
    if pid == "C10":
        # a hand-written Clone / PartialEq of a type under the tie that no theorem speaks about (extract_units.unmodelled_impls)
        unmod = {f"{u}.{fn}": msg for u, r in res["report"].items() if isinstance(r, dict) for fn, msg in (r.get("unmodelled") or {}).items()}
        info["unmodelled"] = unmod
        for k, msg in sorted(unmod.items()):
            ob["obligations"].append("ExtTie." + k)
            ob["broken"].append(("ExtTie." + k, msg))
    suspects = broken + missing
    if not suspects:
        return info
    # falsifier: compare the current source with the pinned source of these functions
    only = ",".join(sorted(set(suspects)))
    sd = dict(results=[])
    try:
        p = subprocess.run([TOOLPY, os.path.join(common.VERIF, "tools", "srcdiff.py"), common.REPO, "--only", only, "--timeout", "30000"],
                           capture_output=True, text=True, timeout=1800, stdin=subprocess.DEVNULL)
        sd = json.loads(p.stdout)
    except Exception as e:
        ctx.notes.append("srcdiff could not run: " + repr(e)[:300])
    by = {}
    for r in sd.get("results", []):
        by.setdefault(f"{r['unit']}.{r['fn'].split(':')[0]}", []).append(r)
    info["srcdiff"] = {k: sorted({r["status"] for r in v}) for k, v in by.items()}
    directed = []
    for name in suspects:
        rs = by.get(name, [])
        st = {r["status"] for r in rs}
        for r in rs:
            if r["status"] == "different" and r.get("replay"):
                directed.append(ext_case(r))
        if name in broken:
            if st and st <= {"same", "equivalent"}:
                # the Lean proof script does not go through for the rewritten source, but z3 shows the rewrite equivalent to
                # the source for which the theorem was proved: reported as an SMT result, not as a discharged theorem
                ctx.notes.append(f"ExtTie.{name}: not re-proved in Lean for the current source; z3: current source equivalent to the "
                                 f"pinned source (for which it is proved) — accepted as behaviour-preserving rewrite")
                ob["smt_equivalent"] = ob.get("smt_equivalent", []) + ["ExtTie." + name]
            else:
                ob["broken"].append(("ExtTie." + name, (mine[name].get("error") or "")[:300]))
        else:
            unit = name.split(".")[0]
            why = str(((res["report"].get(unit) or {}).get("skipped") or {}).get(name.split(".", 1)[1], ""))
            if CONFIG_DEP.search(why) and pid in ("C12", "C14", "C18"):
                # the function left the fragment because what it does depends on the build configuration (a #[cfg] inside its
                # body / above it, an effectful argument of a log macro or debug assertion): the model has ONE meaning for it,
                # so "same behaviour in every profile / feature set" (C18), "the documented procedure" (C12) and "no panic in
                # any configuration" (C14) are no longer shown for it — the configurations built by the sampled tie still run
                ob["broken"].append(("ExtTie." + name, "left the translatable fragment because its behaviour depends on the build "
                                     "configuration: " + why[:220]))
                continue
            ufile = (res["report"].get(unit) or {}).get("file") or UNIT_CRATE.get(unit, "")
            stat = [d for c, n, d in common.new_mutable_statics() if ufile.startswith(c) or (not ufile and c in ("rand_xoshiro", "rand_xorshift"))]
            if stat and not (st and st <= {"same", "equivalent"}):
                # not a mere rewrite: the function can no longer be read as a function of its arguments AND its crate gained
                # process-wide mutable state — what it returns may depend on earlier calls on other instances, which neither the
                # translated definition nor a sampled history can bound
                ob["broken"].append(("ExtTie." + name, f"left the translatable fragment, and {ufile.split('/')[0] or 'its crate'} now declares "
                                     f"process-wide mutable state ({'; '.join(stat)[:200]}): not shown to be a function of its arguments"))
            else:
                ctx.notes.append(f"{name} left the translatable fragment ({'; '.join(sorted(st)) or 'no srcdiff result'}): "
                                 f"only the sampled correspondence covers it in this run")
    if directed:
        ctx.absolute("inputs on which the current source differs from the pinned source (found by z3 on the translated functions), "
                     "replayed on the real crates and on the model", directed)
        ctx.dist["srcdiff-directed"] += len(directed)
    return info

def decide(ctx, ob, falsifier, absolute=False):
    """returns exit code; prints VIOLATION / KNOWN-FINDING lines"""
    pid = ctx.pid
    # "model = reference" rests on the theorems of Props/<Cxx>.lean; a broken correspondence theorem of the translator tie
    # (ExtTie.*) says the CODE moved away from the model, which is exactly when a disagreement is a failing input
    props_broken = [b for b in ob["broken"] if not str(b[0]).startswith("ExtTie.")]
    proved = ob["obligations"] and not props_broken and not all(t.endswith(".placeholder") for t in ob["obligations"])
    if absolute and proved and ctx.disagreements and not ctx.failures:
        # The property says "the code equals the reference"; the theorems (all discharged) say the model equals
        # the reference on every input, so an input on which code and model differ is a failing input of the property.
        for d in ctx.disagreements[:20]:
            if d["family"] in ("build", "tie-crash", "hooks"):
                continue
            ctx.fail(d["family"], f"`{d['cmd'][:60]}`: the real code returns a value different from the reference "
                     f"(the Lean model, proved equal to the reference for every input)", d["case"],
                     expected=d["model"][:200], actual=d["impl"][:200])
    if proved and ctx.disagreements and not ctx.failures:
        # the real code panicked where the model (whose operations are proved total: C14 `Checked = Model`) returns a value:
        # whatever the property says about the value returned by that call, no value was returned — a failing input
        for d in ctx.disagreements[:20]:
            if str(d.get("impl")) == "panic" and str(d.get("model")) != "panic" and d["family"] not in ("build", "tie-crash", "hooks"):
                ctx.fail(d["family"], f"`{d['cmd'][:60]}` panicked on the real code; the operation is total in the model and the "
                         f"property speaks about the value it returns", d["case"], expected=str(d["model"])[:200], actual="panic")
                break
    known = [k for k in known_findings() if k.get("property") == pid and k.get("status") == "known"]
    broken = ob["broken"]
    if (broken or ctx.disagreements) and falsifier and not ctx.failures:
        try:
            falsifier(ctx)
        except Exception as e:
            ctx.notes.append("falsifier crashed: " + repr(e) + traceback.format_exc()[-600:])
    new_failures, known_hits = [], collections.Counter()
    for f in ctx.failures:
        hit = None
        for k in known:
            if f.get("key") and f["key"] == k.get("key"):
                hit = k
        if hit:
            known_hits[hit["key"]] += 1
        else:
            new_failures.append(f)
    for k in known:
        # a known finding is reported on every run (it is part of the unchanged tree)
        print(f"KNOWN-FINDING: property={pid} {k['what']} (observed {known_hits.get(k['key'], 0)}x this run)")
    rc = 0
    if new_failures:
        f = new_failures[0]
        path = write_replay(pid, dict(property=pid, kind="failing-input", family=f["family"], what=f["what"],
                                      script=f["case"], expected=f["expected"], actual=f["actual"],
                                      how_to_replay=f"tools/check.py {pid} --replay <this file>",
                                      other_failures=len(new_failures) - 1))
        print(f"VIOLATION property={pid} replay={path}")
        rc = 1
    elif broken or ctx.disagreements:
        d = ctx.disagreements[0] if ctx.disagreements else None
        path = write_replay(pid, dict(property=pid, kind="unchecked-obligation",
                                      broken_obligations=[list(b) for b in broken],
                                      disagreeing_family=d and d["family"], script=d and d["case"],
                                      line=d and d["line"], impl=d and d["impl"], model=d and d["model"],
                                      disagreements=len(ctx.disagreements), notes=ctx.notes,
                                      how_to_replay=f"tools/check.py {pid} --replay <this file>"))
        print(f"VIOLATION property={pid} replay={path} no-failing-input-found")
        rc = 1
    return rc, len(new_failures), known_hits

def replay(pid, path):
    """re-run the script of a replay file on the current tree and on the model"""
    r = json.load(open(path))
    ok, log, hexe = harness_build()
    if not ok:
        print(log[-2000:]); return 2
    script = r.get("script")
    if not script:
        print(json.dumps(r, indent=1)); return 1
    cases = script if script and isinstance(script[0], list) else [script]
    h = run_exe(hexe, cases)
    m = run_exe(DRIVER, cases)
    for c, ho, mo in zip(cases, h, m):
        for cmd, x, y in zip(c, ho, mo):
            flag = "" if x == y else "   <-- differs from model"
            print(f"{cmd[:100]:<100} impl={x[:80]} model={y[:80]}{flag}")
    print("recorded:", r.get("what"), "expected:", r.get("expected"), "actual:", r.get("actual"))
    return 1

def main():
    ap = argparse.ArgumentParser()
    ap.add_argument("pid")
    ap.add_argument("--tier", default=os.environ.get("VERIF_TIER", "quick"))
    ap.add_argument("--replay")
    a = ap.parse_args()
    pid = a.pid
    if a.replay:
        sys.exit(replay(pid, a.replay))
    tier = a.tier if a.tier in ("quick", "thorough") else "quick"
    seed = int(os.environ.get("VERIF_SEED", "1"))
    t0 = time.time()
    import ties
    spec = ties.PROPS[pid]
    ctx = Ctx(pid, tier, seed)

    # 1. proof obligations
    ob = check_obligations(pid, thorough=ctx.thorough)

    # 2. tie against the current tree
    ext_info = dict(ran=False)
    ok, log = lake_build(["modeldriver"])
    if not ok:
        ob["broken"].append(("modeldriver", "model driver does not build: " + log[-800:]))
    okh, logh, hexe = harness_build()
    ctx.hexe = hexe
    if not okh:
        # the tree does not build with the harness: nothing can be shown
        ctx.notes.append("harness build failed: " + logh[-1500:])
        ctx.disagreements.append(dict(family="build", case=["cargo build (harness against /repo)"], line=0,
                                      cmd="build", impl="build failed", model="-"))
    elif ok:
        try:
            ext_info = ext_stage(ctx, ob, pid)
        except Exception as e:
            ext_info = dict(ran=False, error=repr(e))
            ctx.notes.append("ext stage crashed: " + repr(e) + traceback.format_exc()[-800:])
        try:
            spec["tie"](ctx)
        except Exception as e:
            ctx.notes.append("tie crashed: " + repr(e) + traceback.format_exc()[-1500:])
            ctx.disagreements.append(dict(family="tie-crash", case=[repr(e)], line=0, cmd="-", impl="-", model="-"))

    # 3. decision
    rc, nviol, known_hits = decide(ctx, ob, spec.get("falsifier"), spec.get("absolute", False))

    # 4. evidence
    cov = dict(
        obligations=len(ob["obligations"]), discharged=len(ob["discharged"]),
        obligation_names=ob["obligations"], broken=[list(b) for b in ob["broken"]],
        checker_cmd=ob["checker_cmd"] or "lake build",
        trusted_base=sorted(ob["axioms"]) + spec.get("trusted", []) + [
            "Lean 4.33.0 kernel", "correspondence check (rngs_harness, modeldriver, tools/*.py): sampled differential testing",
            "rand_core 0.9.5, serde/bincode, core::fmt: modelled, not verified"],
        evaluations=ctx.evaluations, distinct_nontrivial=len(ctx.distinct),
        rule=spec.get("rule", "one case = one reset-delimited operation script; distinct by script text; non-trivial = "
                              "exercises at least one generator operation on a non-degenerate input"),
        samples=ctx.samples or [dict(note="no tie cases ran")],
        traces_validated_against_impl=ctx.traces_validated,
        families=dict(ctx.families), distribution={k: v for k, v in ctx.dist.most_common(60)},
        model_vs_impl_disagreements=len(ctx.disagreements), impl_vs_oracle_failures=len(ctx.failures),
        known_finding_hits=dict(known_hits), notes=ctx.notes[:10],
        translator_tie=ext_info, smt_equivalent=ob.get("smt_equivalent", []))
    common.LEVEL = "exploration" if all(t.endswith(".placeholder") for t in ob["obligations"]) else "proof"
    write_evidence(pid, tier, seed, cov, time.time() - t0, nviol + (1 if rc and not nviol else 0),
                   spec.get("assumptions", []) + ["little-endian 64-bit host", "model-code tie is sampled"])
    print(f"{pid} {tier}: obligations {len(ob['discharged'])}/{len(ob['obligations'])} discharged, "
          f"{ctx.evaluations} cases ({len(ctx.distinct)} distinct), {len(ctx.disagreements)} disagreements, "
          f"{len(ctx.failures)} failures, {time.time()-t0:.1f}s -> {'FAIL' if rc else 'ok'}")
    sys.exit(rc)

if __name__ == "__main__":
    main()
