"""Shared machinery of the /verif checks: builds (lake, cargo), running operation scripts
through the real crates (rngs_harness) and through the Lean model (modeldriver), comparing
them case by case, proof-obligation audit, evidence and replay files."""
import fcntl, hashlib, json, os, random, re, subprocess, sys, time

VERIF = os.path.dirname(os.path.dirname(os.path.abspath(__file__)))
LEAN = os.path.join(VERIF, "lean")
HARNESS = os.path.join(VERIF, "harness")
REPO = os.environ.get("VERIF_REPO", "/repo")        # a scratch worktree when evaluating seeded changes
DRIVER = os.path.join(LEAN, ".lake/build/bin/modeldriver")
OUT = os.environ.get("VERIF_OUT", VERIF)              # where evidence/ and replays/ are written
EVIDENCE = os.path.join(OUT, "evidence")
REPLAYS = os.path.join(OUT, "replays")
RUSTFLAGS = "--cfg rngs_verif --check-cfg cfg(rngs_verif)"

LEVEL = "proof"
ALLOWED_AXIOMS = {"propext", "Classical.choice", "Quot.sound"}
FORBIDDEN_TOKENS = ["sorry", "admit", "native_decide", "bv_decide", "implemented_by", "unsafe ",
                    "maxHeartbeats 0"]

# ------------------------------------------------------------------ generator table
def _g(seed, w, cls, **kw):
    d = dict(seed=seed, w=w, cls=cls, linear=False, jump=False, ser=True, hiding=False,
             half=None, n=None, engine=None, eq=True)
    d.update(kw)
    return d

GENS = {
    "SplitMix64": _g(8, 64, "direct64", half="own"),
    "Xoroshiro64Star": _g(8, 32, "direct32", linear=True, n=64, engine="xoroshiro64"),
    "Xoroshiro64StarStar": _g(8, 32, "direct32", linear=True, n=64, engine="xoroshiro64"),
    "Xoroshiro128Plus": _g(16, 64, "direct64", half="upper", linear=True, n=128, jump=True, engine="xoroshiro128"),
    "Xoroshiro128PlusPlus": _g(16, 64, "direct64", half="lower", linear=True, n=128, jump=True, engine="xoroshiro128pp"),
    "Xoroshiro128StarStar": _g(16, 64, "direct64", half="lower", linear=True, n=128, jump=True, engine="xoroshiro128"),
    "Xoshiro128Plus": _g(16, 32, "direct32", linear=True, n=128, jump=True, engine="xoshiro128"),
    "Xoshiro128PlusPlus": _g(16, 32, "direct32", linear=True, n=128, jump=True, engine="xoshiro128"),
    "Xoshiro128StarStar": _g(16, 32, "direct32", linear=True, n=128, jump=True, engine="xoshiro128"),
    "Xoshiro256Plus": _g(32, 64, "direct64", half="upper", linear=True, n=256, jump=True, engine="xoshiro256"),
    "Xoshiro256PlusPlus": _g(32, 64, "direct64", half="upper", linear=True, n=256, jump=True, engine="xoshiro256"),
    "Xoshiro256StarStar": _g(32, 64, "direct64", half="upper", linear=True, n=256, jump=True, engine="xoshiro256"),
    "Xoshiro512Plus": _g(64, 64, "direct64", half="upper", linear=True, n=512, jump=True, engine="xoshiro512"),
    "Xoshiro512PlusPlus": _g(64, 64, "direct64", half="upper", linear=True, n=512, jump=True, engine="xoshiro512"),
    "Xoshiro512StarStar": _g(64, 64, "direct64", half="upper", linear=True, n=512, jump=True, engine="xoshiro512"),
    "XorShiftRng": _g(16, 32, "direct32", linear=True, n=128, engine="xorshift128", hiding=True),
    "Hc128Rng": _g(32, 32, "block32", ser=False, hiding=True, blk=16),
    "IsaacRng": _g(32, 32, "block32", hiding=True, blk=256),
    "Isaac64Rng": _g(32, 64, "block64", hiding=True, blk=256),
}
XOSHIRO_FAMILY = [g for g in GENS if g.startswith("Xo") and g != "XorShiftRng"] + ["SplitMix64"]
LINEAR = [g for g in GENS if GENS[g]["linear"]]
JUMPERS = [g for g in GENS if GENS[g]["jump"]]

def native(g):
    return "u32" if GENS[g]["w"] == 32 else "u64"

# ------------------------------------------------------------------ locking / builds
class Lock:
    def __init__(self, name):
        self.path = os.path.join(VERIF, name)
    def __enter__(self):
        self.f = open(self.path, "w")
        fcntl.flock(self.f, fcntl.LOCK_EX)
    def __exit__(self, *a):
        fcntl.flock(self.f, fcntl.LOCK_UN)
        self.f.close()

def sh(cmd, cwd=None, env=None, timeout=None, inp=None):
    e = dict(os.environ)
    if env:
        e.update(env)
    kw = dict(input=inp) if inp is not None else dict(stdin=subprocess.DEVNULL)
    p = subprocess.run(cmd, cwd=cwd, env=e, capture_output=True, timeout=timeout, **kw)
    return p.returncode, p.stdout.decode(errors="replace"), p.stderr.decode(errors="replace")

def lake_build(targets):
    """lake build (content-hashed: a no-op when nothing changed). Returns (ok, log)."""
    with Lock(".lock-lake"):
        rc, out, err = sh(["lake", "build"] + targets, cwd=LEAN, timeout=7200)
    return rc == 0, out + err

def harness_dir():
    """the harness crate; for a scratch repository (VERIF_REPO) a copy whose path dependencies point there"""
    if REPO == "/repo":
        return HARNESS
    d = os.path.join(REPO, ".verif_harness")
    os.makedirs(os.path.join(d, "src"), exist_ok=True)
    os.makedirs(os.path.join(d, ".cargo"), exist_ok=True)
    rels = ["src/" + f for f in sorted(os.listdir(os.path.join(HARNESS, "src"))) if f.endswith(".rs")] + ["Cargo.lock", ".cargo/config.toml"]
    for rel in rels:
        src = open(os.path.join(HARNESS, rel)).read()
        dst = os.path.join(d, rel)
        if not os.path.exists(dst) or open(dst).read() != src:
            open(dst, "w").write(src)
    toml = open(os.path.join(HARNESS, "Cargo.toml")).read().replace('path = "/repo/', f'path = "{REPO}/')
    if not os.path.exists(os.path.join(d, "Cargo.toml")) or open(os.path.join(d, "Cargo.toml")).read() != toml:
        open(os.path.join(d, "Cargo.toml"), "w").write(toml)
    return d

def harness_build(profile="tie", serde=True, target_dir=None, features=None):
    """cargo build of the harness against the repository's *current* working tree, hooks on."""
    cmd = ["cargo", "build", "--offline", "--profile", profile]
    if not serde:
        cmd += ["--no-default-features"]
    if features:
        cmd += ["--features", features]
    hd = harness_dir()
    if target_dir and REPO != "/repo":
        target_dir = os.path.join(hd, os.path.basename(target_dir))
    td = target_dir or os.path.join(hd, "target")
    env = {"RUSTFLAGS": RUSTFLAGS, "CARGO_NET_OFFLINE": "true", "CARGO_TARGET_DIR": td}
    # a fresh target directory re-runs cargo's `rustc -` target probe; under many concurrent cold builds that probe has
    # been seen to read another process's diagnostics from stdin.  Seed the probe cache from the main harness build.
    cache = os.path.join(td, ".rustc_info.json")
    main_cache = os.path.join(HARNESS, "target", ".rustc_info.json")
    if not os.path.exists(cache) and os.path.exists(main_cache):
        os.makedirs(td, exist_ok=True)
        try:
            import shutil
            shutil.copy(main_cache, cache)
        except OSError:
            pass
    with Lock(".lock-cargo-" + hashlib.md5(td.encode()).hexdigest()[:8]):
        for attempt in range(3):
            rc, out, err = sh(cmd, cwd=hd, env=env, timeout=3600)
            if rc == 0:
                break
            try:
                open(f"/tmp/cargo-fail-{os.getpid()}-{attempt}.log", "w").write(out + err)
            except OSError:
                pass
            # build scripts of dependencies occasionally fail spuriously when several cargo builds run at once
            time.sleep(2 + attempt)
    pdir = "debug" if profile == "dev" else profile
    return rc == 0, out + err, os.path.join(td, pdir, "rngs_harness")

# ------------------------------------------------------------------ running scripts
def place_destination(line):
    """`fill s n` -> `fill s n off`: where the destination buffer starts relative to a 16-byte aligned address is chosen from
    the length (a third of the fills aligned, the rest at odd / even offsets); the model ignores the token.  Applied to every
    script at the lowest level, so that every family of every check also varies the alignment of the caller's buffer, and a
    replay reproduces it."""
    t = line.split(" ")
    k = 1 if t and t[0].startswith("@") else 0
    if len(t) == k + 3 and t[k] == "fill" and t[k + 2].isdigit():
        n = int(t[k + 2])
        off = 0 if n % 3 == 0 else (n * 7 + 3) % 16
        if off:
            return line + f" {off}"
    return line

def run_exe(exe, cases, timeout=3600):
    """cases: list of lists of command lines. Each case is run after a `reset`.
    Returns list of lists of output lines (one per command)."""
    lines = []
    for c in cases:
        lines.append("reset")
        lines.extend(place_destination(l) for l in c)
    data = ("\n".join(lines) + "\n").encode()
    p = subprocess.run([exe], input=data, capture_output=True, timeout=timeout)
    out = p.stdout.decode(errors="replace").split("\n")
    if out and out[-1] == "":
        out.pop()
    if len(out) != len(lines):
        raise RuntimeError(f"{exe}: {len(out)} output lines for {len(lines)} commands (rc={p.returncode}) "
                           f"stderr={p.stderr.decode(errors='replace')[-500:]}")
    res, i = [], 0
    for c in cases:
        i += 1
        res.append(out[i:i + len(c)])
        i += len(c)
    return res

def run_chunks(exe, cases, chunk=2000, jobs=8):
    """run cases in parallel chunks (the executables are single-threaded)"""
    from concurrent.futures import ThreadPoolExecutor
    chunks = [cases[i:i + chunk] for i in range(0, len(cases), chunk)]
    if not chunks:
        return []
    with ThreadPoolExecutor(max_workers=jobs) as ex:
        parts = list(ex.map(lambda c: run_exe(exe, c), chunks))
    return [o for p in parts for o in p]

def run_isolated(exe, cases, jobs=12):
    """every case in its own fresh process (no state can leak between cases)"""
    from concurrent.futures import ThreadPoolExecutor
    if not cases:
        return []
    with ThreadPoolExecutor(max_workers=jobs) as ex:
        return [r[0] for r in ex.map(lambda c: run_exe(exe, [c]), cases)]

def first_diff(a, b):
    for i, (x, y) in enumerate(zip(a, b)):
        if x != y:
            return i
    return None

def shrink_case(case, differs):
    """drop trailing, then single, lines while `differs(case)` stays true"""
    cur = list(case)
    changed = True
    while changed:
        changed = False
        for i in range(len(cur) - 1, 0, -1):
            cand = cur[:i] + cur[i + 1:]
            try:
                if differs(cand):
                    cur = cand
                    changed = True
            except Exception:
                pass
    return cur

# ------------------------------------------------------------------ proof obligations
def prop_theorems(pid):
    """the theorems of Rngs/Props/<pid>.lean — each is one proof obligation"""
    path = os.path.join(LEAN, "Rngs", "Props", pid + ".lean")
    if not os.path.exists(path):
        return [], path
    src = open(path).read()
    ns = re.findall(r"^namespace\s+(\S+)", src, re.M)
    prefix = (ns[0] + ".") if ns else ""
    names = re.findall(r"^theorem\s+(\S+)", src, re.M)
    return [prefix + n for n in names], path

def strip_comments(src):
    src = re.sub(r"/-.*?-/", "", src, flags=re.S)
    src = re.sub(r"--.*", "", src)
    return src

def module_closure(pid):
    """source files (within the project) that Props/<pid>.lean depends on"""
    seen, todo = set(), ["Rngs.Props." + pid]
    while todo:
        m = todo.pop()
        if m in seen:
            continue
        p = os.path.join(LEAN, *m.split(".")) + ".lean"
        if not os.path.exists(p):
            continue
        seen.add(m)
        for imp in re.findall(r"^import\s+(\S+)", open(p).read(), re.M):
            if imp.startswith("Rngs."):
                todo.append(imp)
    return sorted(seen)

def check_obligations(pid, thorough=False):
    """Build Props/<pid>, grep for forbidden tokens, `#print axioms` every theorem.
    Returns dict(obligations=[...], discharged=[...], broken=[(name, why)], axioms=set, log)."""
    thms, path = prop_theorems(pid)
    res = dict(obligations=thms, discharged=[], broken=[], axioms=set(), log="", checker_cmd="")
    if not thms:
        res["broken"].append(("Rngs.Props." + pid, "no theorems found"))
        return res
    ok, log = lake_build(["Rngs.Props." + pid])
    res["checker_cmd"] = f"cd {LEAN} && lake build Rngs.Props.{pid} && lake env lean <audit: #print axioms of each theorem>"
    if not ok:
        res["log"] = log[-4000:]
        # find which theorem broke, if the log names one
        bad = re.findall(r"error: (\S+\.lean:\d+:\d+): (.*)", log)
        res["broken"] = [(t, "lake build failed: " + "; ".join(f"{a} {b}" for a, b in bad[:3])) for t in thms]
        return res
    for m in module_closure(pid):
        p = os.path.join(LEAN, *m.split(".")) + ".lean"
        src = strip_comments(open(p).read())
        for tok in FORBIDDEN_TOKENS:
            if tok in src:
                res["broken"].append((m, f"forbidden token `{tok.strip()}` in {p}"))
        if re.search(r"^\s*axiom\s", src, re.M):
            res["broken"].append((m, f"`axiom` declaration in {p}"))
    audit_dir = os.path.join(LEAN, ".lake", "audit")
    os.makedirs(audit_dir, exist_ok=True)
    audit = os.path.join(audit_dir, f"{pid}_{os.getpid()}.lean")
    with open(audit, "w") as f:
        f.write(f"import Rngs.Props.{pid}\n")
        for t in thms:
            f.write(f"#print axioms {t}\n")
    rc, out, err = sh(["lake", "env", "lean", audit], cwd=LEAN, timeout=1800)
    try:
        os.remove(audit)
    except OSError:
        pass
    txt = out + err
    if rc != 0:
        res["broken"].append(("audit", "audit file failed: " + txt[-500:]))
        return res
    # parse: "'name' depends on axioms: [a, b]" or "'name' does not depend on any axioms"
    found = {}
    for m in re.finditer(r"'(\S+)' depends on axioms: \[([^\]]*)\]", txt.replace("\n", " ")):
        found[m.group(1)] = {a.strip() for a in m.group(2).split(",") if a.strip()}
    for m in re.finditer(r"'(\S+)' does not depend on any axioms", txt):
        found[m.group(1)] = set()
    for t in thms:
        ax = found.get(t)
        if ax is None:
            res["broken"].append((t, "no #print axioms output"))
            continue
        res["axioms"] |= ax
        extra = ax - ALLOWED_AXIOMS
        if extra:
            res["broken"].append((t, "depends on non-standard axioms: " + ", ".join(sorted(extra))))
        else:
            res["discharged"].append(t)
    if thorough:
        rc, out, err = sh(["lake", "env", "leanchecker", "Rngs.Props." + pid], cwd=LEAN, timeout=7200)
        res["leanchecker_rc"] = rc
        if rc != 0:
            res["broken"].append(("leanchecker", (out + err)[-500:]))
    bad_names = {b[0] for b in res["broken"]}
    res["discharged"] = [t for t in res["discharged"] if t not in bad_names]
    return res

# ------------------------------------------------------------------ known findings
def known_findings():
    p = os.path.join(VERIF, "known_findings.json")
    if not os.path.exists(p):
        return []
    return json.load(open(p)).get("findings", [])

# ------------------------------------------------------------------ evidence / replay
def write_replay(pid, payload):
    os.makedirs(REPLAYS, exist_ok=True)
    blob = json.dumps(payload, indent=1, sort_keys=True)
    h = hashlib.sha1(blob.encode()).hexdigest()[:10]
    path = os.path.join(REPLAYS, f"{pid}-{h}.json")
    with open(path, "w") as f:
        f.write(blob)
    return path

def write_evidence(pid, tier, seed, coverage, wall, violations, assumptions):
    os.makedirs(EVIDENCE, exist_ok=True)
    ev = dict(property_id=pid, tier=tier, seed=seed, level=LEVEL, coverage=coverage,
              assumptions=assumptions, wall_s=round(wall, 2), violations=violations)
    with open(os.path.join(EVIDENCE, pid + ".json"), "w") as f:
        json.dump(ev, f, indent=1)

def rand_bytes(rng, n):
    return bytes(rng.getrandbits(8) for _ in range(n))

def hexs(b):
    return b.hex() if b else "-"


# ------------------------------------------------------------------ structural correspondence: process-wide mutable state
def mutable_statics(root):
    """process-wide / thread-wide mutable state declared in the crates' sources (unit-test modules excluded):
    `static mut X`, `static X: T` whose type has interior mutability (Atomic*, Mutex, RwLock, Once*, Lazy*, *Cell), and
    `thread_local!` blocks.  The Lean model represents every generator as a value and every operation as a function of its
    arguments; this list is what the code has beyond that.  Returns {(crate, name, declaration)}."""
    import glob, re
    out = set()
    for f in sorted(glob.glob(os.path.join(root, "rand_*", "src", "**", "*.rs"), recursive=True)):
        try:
            txt = open(f).read()
        except OSError:
            continue
        txt = re.sub(r"//[^\n]*", "", txt)
        txt = re.sub(r"/\*.*?\*/", "", txt, flags=re.S)
        txt = re.split(r"#\[cfg\(test\)\]\s*mod\s+\w+\s*\{", txt)[0]
        crate = os.path.relpath(f, root).split(os.sep)[0]
        for m in re.finditer(r"\bstatic\s+(mut\s+)?([A-Za-z_]\w*)\s*:\s*([^=;]+)", txt):
            mut, name, ty = m.group(1), m.group(2), " ".join(m.group(3).split())
            if mut or re.search(r"Atomic|Mutex|RwLock|Once|Lazy|Cell|Condvar", ty):
                out.add((crate, name, f"static {'mut ' if mut else ''}{name}: {ty}"))
        for m in re.finditer(r"\bthread_local!\s*[\({\[]", txt):
            body = txt[m.end():m.end() + 400]
            mm = re.search(r"static\s+([A-Za-z_]\w*)\s*:\s*([^=;]+)", body)
            name = mm.group(1) if mm else "?"
            out.add((crate, name, f"thread_local! static {name}: {' '.join(mm.group(2).split()) if mm else '?'}"))
    return out

def new_mutable_statics():
    """mutable statics of the current tree that the pinned sources (the tree the model was written and proved for) do not have"""
    pin = os.path.join(VERIF, "pinned_src")
    if not os.path.isdir(pin):
        return []
    have = {(c, n) for c, n, _ in mutable_statics(pin)}
    return sorted(x for x in mutable_statics(REPO) if (x[0], x[1]) not in have)
