#!/usr/bin/env python3
"""confirm_mutant.py <out_dir/X> <seeded_id> — in a scratch worktree of /repo: demo passes on the clean tree,
fails with the patch, full baseline suite passes with the patch.  Then store it under /verif/seeded/<seeded_id>/."""
import json, os, re, shutil, subprocess, sys, tempfile
src, sid = sys.argv[1], sys.argv[2]
demo = open(os.path.join(src, "demo_mutant.rs")).read()
meta = json.load(open(os.path.join(src, "meta.json")))
m = re.search(r"(rand_\w+)/tests", demo) or re.search(r"-p (rand_\w+)", demo)
crate = m.group(1)
mf = re.search(r"--features[ =]([\w,]+)", demo)
feat = ["--features", mf.group(1)] if mf else []
wt = tempfile.mkdtemp(prefix="confirm_", dir="/tmp")
os.rmdir(wt)
def sh(cmd, cwd=None):
    p = subprocess.run(cmd, cwd=cwd, capture_output=True, text=True, stdin=subprocess.DEVNULL)
    return p.returncode, (p.stdout + p.stderr)
sh(["git", "-C", "/repo", "worktree", "add", "-q", "--detach", wt, "HEAD"])
try:
    os.makedirs(os.path.join(wt, crate, "tests"), exist_ok=True)
    shutil.copy(os.path.join(src, "demo_mutant.rs"), os.path.join(wt, crate, "tests", "demo_mutant.rs"))
    cmd = ["cargo", "test", "-p", crate, "--test", "demo_mutant", "--offline"] + feat
    rc_clean, out_clean = sh(cmd, wt)
    rc_apply, out_apply = sh(["git", "apply", os.path.abspath(os.path.join(src, "patch.diff"))], wt)
    rc_mut, out_mut = sh(cmd, wt)
    os.remove(os.path.join(wt, crate, "tests", "demo_mutant.rs"))
    rc_suite, out_suite = sh(["cargo", "test", "--workspace", "--no-fail-fast", "--offline"], wt)
    ok = rc_clean == 0 and rc_apply == 0 and rc_mut != 0 and rc_suite == 0
    res = dict(demo_on_clean_tree="pass" if rc_clean == 0 else "FAIL", patch_applies=rc_apply == 0,
               demo_with_patch="fails (as required)" if rc_mut != 0 else "PASSES (mutant not demonstrated)",
               baseline_suite_with_patch="pass" if rc_suite == 0 else "FAIL",
               demo_cmd=" ".join(cmd), confirmed=ok)
    print(sid, json.dumps(res))
    if ok:
        dst = os.path.join("/verif/seeded", sid)
        os.makedirs(dst, exist_ok=True)
        shutil.copy(os.path.join(src, "patch.diff"), dst)
        shutil.copy(os.path.join(src, "demo_mutant.rs"), dst)
        meta["confirmed_by_builder"] = res
        meta["origin"] = "independent sub-agent given only the property text and a scratch worktree"
        json.dump(meta, open(os.path.join(dst, "meta.json"), "w"), indent=1)
    else:
        print(out_clean[-600:], out_mut[-600:], out_suite[-600:])
finally:
    sh(["git", "-C", "/repo", "worktree", "remove", "--force", wt])
