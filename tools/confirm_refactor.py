#!/usr/bin/env python3
"""confirm_refactor.py <out_dir> <id> — behaviour-preserving rewrite delivered by a sub-agent: in a scratch worktree of /repo the
equivalence test passes on the clean tree AND with the patch, and the baseline suite passes with the patch.  Stored under
/verif/refactors/<id>/ when confirmed."""
import json, os, re, shutil, subprocess, sys, tempfile
src, rid = sys.argv[1], sys.argv[2]
test = open(os.path.join(src, "equiv_test.rs")).read()
patch = open(os.path.join(src, "patch.diff")).read()
crates = sorted(set(re.findall(r"^\+\+\+ b/(rand_\w+)/", patch, re.M)))
m = re.search(r"cargo test -p (rand_\w+)", test)
crate = os.environ.get("CRATE") or (m.group(1) if m else crates[0])
feat = ["--features", "serde"] if "serde" in test and crate in ("rand_xoshiro", "rand_xorshift", "rand_isaac") else []
wt = tempfile.mkdtemp(prefix="confirmrf_", dir="/tmp"); os.rmdir(wt)
def sh(cmd, cwd=None):
    p = subprocess.run(cmd, cwd=cwd, capture_output=True, text=True, stdin=subprocess.DEVNULL)
    return p.returncode, p.stdout + p.stderr
sh(["git", "-C", "/repo", "worktree", "add", "-q", "--detach", wt, "HEAD"])
try:
    os.makedirs(os.path.join(wt, crate, "tests"), exist_ok=True)
    shutil.copy(os.path.join(src, "equiv_test.rs"), os.path.join(wt, crate, "tests", "equiv_test.rs"))
    cmd = ["cargo", "test", "-p", crate, "--test", "equiv_test", "--offline"] + feat
    rc0, o0 = sh(cmd, wt)
    rca, oa = sh(["git", "apply", os.path.abspath(os.path.join(src, "patch.diff"))], wt)
    rc1, o1 = sh(cmd, wt)
    os.remove(os.path.join(wt, crate, "tests", "equiv_test.rs"))
    rcs, os_ = sh(["cargo", "test", "--workspace", "--no-fail-fast", "--offline"], wt)
    ok = rc0 == 0 and rca == 0 and rc1 == 0 and rcs == 0
    res = dict(equiv_on_clean_tree=rc0 == 0, patch_applies=rca == 0, equiv_with_patch=rc1 == 0, baseline_suite_with_patch=rcs == 0,
               cmd=" ".join(cmd), confirmed=ok)
    print(rid, json.dumps(res))
    if ok:
        dst = os.path.join("/verif/refactors", rid)
        os.makedirs(dst, exist_ok=True)
        for f in ("patch.diff", "equiv_test.rs"):
            shutil.copy(os.path.join(src, f), dst)
        meta = json.load(open(os.path.join(src, "meta.json")))
        meta["confirmed_by_builder"] = res
        json.dump(meta, open(os.path.join(dst, "meta.json"), "w"), indent=1)
    else:
        print(o0[-500:], oa[-300:], o1[-500:], os_[-500:])
finally:
    sh(["git", "-C", "/repo", "worktree", "remove", "--force", wt])
