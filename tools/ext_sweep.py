#!/usr/bin/env python3
"""ext_sweep.py — apply every seeded change / refactoring that touches a file to a scratch worktree of /repo and record what the
translator tie says: which ExtTie theorems break, which functions leave the translatable fragment, or nothing.
    python3 tools/ext_sweep.py rand_jitter/src/lib.rs [--only ID,ID] > table.json"""
import json, os, subprocess, sys, glob
sys.path.insert(0, os.path.dirname(os.path.abspath(__file__)))
import exttie
V = os.path.dirname(os.path.dirname(os.path.abspath(__file__)))

def sweep(path_filter, only=None):
    base = exttie.run("/repo")
    base_th = set(base["theorems"])
    rows = []
    dirs = sorted(glob.glob(os.path.join(V, "seeded", "*")) + glob.glob(os.path.join(V, "refactors", "*")))
    for d in dirs:
        pid = os.path.basename(d)
        patch = os.path.join(d, "patch.diff")
        if not os.path.exists(patch) or path_filter not in open(patch).read():
            continue
        if only and pid not in only:
            continue
        wt = os.environ.get("SWEEP_PREFIX", "/tmp/t2sweep_") + pid
        subprocess.run(["git", "-C", "/repo", "worktree", "remove", "--force", wt], capture_output=True)
        subprocess.run(["git", "-C", "/repo", "worktree", "add", "--detach", wt, "HEAD"], capture_output=True, check=True)
        try:
            a = subprocess.run(["git", "-C", wt, "apply", patch], capture_output=True, text=True)
            if a.returncode:
                rows.append(dict(id=pid, error="patch does not apply: " + a.stderr[:200]))
                continue
            r = exttie.run(wt)
            broken = sorted(k for k, v in r["theorems"].items() if not v["ok"])
            roots = sorted(k for k in broken if not r["theorems"][k].get("depends_on_broken"))
            left = sorted(base_th - set(r["theorems"]))
            why = {}
            for u, rep in r["report"].items():
                for fn, msg in (rep.get("skipped") or {}).items():
                    if f"{u}.{fn}" in left:
                        why[f"{u}.{fn}"] = msg
                if rep.get("error"):
                    why[u] = rep["error"]
            unmod = {f"{u}.{fn}": msg for u, rep in r["report"].items() if isinstance(rep, dict)
                     for fn, msg in (rep.get("unmodelled") or {}).items()}
            touched = sorted({l[4:].split("(")[0].strip() for l in open(patch) if l.startswith("@@")})
            rows.append(dict(id=pid, kind="refactor" if "/refactors/" in d else "seeded", broken=broken, roots=roots, left_fragment=left, unmodelled=unmod, why=why,
                             errors={k: (r["theorems"][k]["error"] or "")[:160] for k in broken},
                             unchanged=not broken and not left and not unmod, key=r["key"], same_text=r["key"] == base["key"]))
        finally:
            subprocess.run(["git", "-C", "/repo", "worktree", "remove", "--force", wt], capture_output=True)
        print(json.dumps(rows[-1])[:400], file=sys.stderr, flush=True)
    return rows

if __name__ == "__main__":
    only = None
    if "--only" in sys.argv:
        only = set(sys.argv[sys.argv.index("--only") + 1].split(","))
    print(json.dumps(sweep(sys.argv[1], only), indent=1))
