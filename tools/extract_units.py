"""extract_units.py — which functions of /repo are translated by rs2lean.py, how their state is represented, and which
definition of the hand-written model each must equal.  `generate(repo)` returns the text of the generated Lean file
(definitions regenerated from the current source + the correspondence theorems) and a report."""
import os, re, json, hashlib
import rsfront
from rsfront import Unsupported
from rs2lean import (Unit, StructInfo, FnTr, Val, Var, translate_fn, parse_ty, ty_of_tokens, lit_lean, lname, INT, const_eval,
                     is_arr, TYCTX)
import rs2lean

XOSHIRO_FILES = ["splitmix64", "xoroshiro64star", "xoroshiro64starstar", "xoroshiro128plus", "xoroshiro128plusplus",
                 "xoroshiro128starstar", "xoshiro128plus", "xoshiro128plusplus", "xoshiro128starstar",
                 "xoshiro256plus", "xoshiro256plusplus", "xoshiro256starstar", "xoshiro512plus",
                 "xoshiro512plusplus", "xoshiro512starstar"]

# ------------------------------------------------------------------ primitives (rand_core helpers -> their models)
def prim_next_u64_via_u32(tr, args, want):
    r = tr.fresh("r")
    tr.emit(f"let {r} := nextU64ViaU32 {tr.u.namespace}.next_u32 st;")
    tr.emit(f"let st := {r}.2;")
    return Val(f"{r}.1", "u64")

def prim_read_into(width):
    def f(tr, args, want):
        src = tr.expr(args[0])
        dst = args[1]
        while dst[0] in ("ref", "paren"):
            dst = dst[2] if dst[0] == "ref" else dst[1]
        if dst[0] != "path" or len(dst[1]) != 1:
            raise Unsupported("read_*_into destination")
        v = tr.scope.get(dst[1][0])
        ety = "u32" if width == 32 else "u64"
        if v is not None and v.elems is None and v.view is None and is_arr(v.ty if v.ty is not None else tr.inferred.get(v.key)):
            # a large (non-flattened) destination: all its elements are overwritten
            ty = v.ty if v.ty is not None else tr.inferred.get(v.key)
            if ty[1] is None:
                tr.infer(v.key, ("arr", ety, ty[2]))
            elif rs2lean.unwrap_ty(ty[1]) != ety:
                raise Unsupported("read_*_into into an array of another element type")
            tr.emit(f"let {v.lean} := ({'readU32s' if width == 32 else 'readU64s'} {src.atom()} {ty[2]}).toArray;")
            return Val("()", "unit")
        if v is None or v.elems is None:
            raise Unsupported("read_*_into into a non-flattened array")
        tr.infer(v.key, ("arr", ety, len(v.elems)))
        for i, x in enumerate(v.elems):
            tr.emit(f"let {x.lean} := {'le32At' if width == 32 else 'le64At'} {src.atom()} {i};")
            x.ty = ety
        return Val("()", "unit")
    return f

def prim_splitmix_seed(tr, args, want):
    a = tr.expr(args[0], "u64")
    return Val(f"SplitMix64.seedFromU64 {a.atom()}", ("lean", "U64"))

def prim_self_from_rng(tr, args, want):
    """`Self::from_rng(&mut rng)` (rand_core default): seed = Seed::default(); rng.fill_bytes(seed); from_seed(seed).
    The source here is always the SplitMix64 bound by `from_splitmix!`; the recursive `from_seed` is the parameter
    `rec_from_seed` (the call cycle from_seed -> seed_from_u64 -> from_rng -> from_seed is cut there)."""
    a = tr.expr(args[0])
    n = tr.u.seed_len
    return Val(f"rec_from_seed (SplitMix64.fill {n} {a.atom()}).1", ("named", "Self"))

def prim_self_seed_from_u64(tr, args, want):
    a = tr.expr(args[0], "u64")
    return Val(f"rec_seed_from_u64 {a.atom()}", ("named", "Self"))

XOSHIRO_PRIMS = {
    "Self::seed_from_u64": prim_self_seed_from_u64,
    "next_u64_via_u32": prim_next_u64_via_u32, "impls::next_u64_via_u32": prim_next_u64_via_u32,
    "read_u32_into": prim_read_into(32), "read_u64_into": prim_read_into(64),
    "le::read_u32_into": prim_read_into(32), "le::read_u64_into": prim_read_into(64),
    "crate::SplitMix64::seed_from_u64": prim_splitmix_seed,
    "Self::from_rng": prim_self_from_rng,
    "@bytes_types": ("Seed512", "Self::Seed"),
}

# ------------------------------------------------------------------ state shapes
def shape_of(struct_fields):
    """returns (lean type, {field: (rust type, projection(s))}, shape tag)"""
    fs = [(n, ty_of_tokens(t)) for n, t in struct_fields]
    names = [n for n, _ in fs]
    if names == ["s0", "s1"] and fs[0][1] == fs[1][1] and fs[0][1] in INT:
        w = INT[fs[0][1]]
        return f"S2 {w}", {"s0": (fs[0][1], "s0"), "s1": (fs[1][1], "s1")}, ("S2", w)
    if names == ["s"] and fs[0][1][0] == "arr" and fs[0][1][2] == 4:
        w = INT[fs[0][1][1]]
        return f"S4 {w}", {"s": (fs[0][1], ["s0", "s1", "s2", "s3"])}, ("S4", w)
    if names == ["s"] and fs[0][1] == ("arr", "u64", 8):
        return "S8", {"s": (fs[0][1], [f"s{i}" for i in range(8)])}, ("S8", 64)
    if names == ["x", "y", "z", "w"] and all(t in ("u32", "w32") for _, t in fs):
        return "S4 32", {n: (t, f"s{i}") for i, (n, t) in enumerate(fs)}, ("S4", 32)
    if names == ["x"] and fs[0][1] == "u64":
        return "BitVec 64", {"x": ("u64", None)}, ("SM", 64)
    raise Unsupported(f"state shape {names}")

def seed_len_of(impls, consts_file):
    for trait, ty, fns, consts in impls:
        pass
    return None

def find_seed_len(src_text):
    m = re.search(r"type\s+Seed\s*=\s*\[u8;\s*(\d+)\]", src_text)
    if m:
        return int(m.group(1))
    if re.search(r"type\s+Seed\s*=\s*Seed512", src_text):
        return 64
    return None

def translate_fill_bytes(unit, fn):
    """`fn fill_bytes(&mut self, dest: &mut [u8])` whose body is one call of fill_bytes_via_next(self, dest)"""
    stmts, tail = rsfront.parse_body(fn.body, unit.macros)
    e = tail if tail is not None else (stmts[0][1] if len(stmts) == 1 and stmts[0][0] == "expr" else None)
    if (stmts and tail is not None) or e is None or e[0] != "call" or e[1][0] != "path" or \
            e[1][1][-1] != "fill_bytes_via_next" or len(e[2]) != 2 or e[2][0] != ("path", ["self"]) or e[2][1] != ("path", ["dest"]):
        raise Unsupported("fill_bytes is not a single fill_bytes_via_next(self, dest)")
    ns = unit.namespace
    return (f"def fill_bytes (st : {unit.sinfo.lean}) (n : Nat) : List U8 × {unit.sinfo.lean} :=\n"
            f"  fillBytesViaNext ⟨{ns}.next_u32, {ns}.next_u64⟩ n st")

def build_unit(repo, crate, fname, common_macros, prims):
    path = os.path.join(repo, crate, "src", fname + ".rs")
    text = open(path).read()
    f = rsfront.load(path)
    if len(f.structs) != 1:
        raise Unsupported(f"{fname}.rs: expected one struct, found {list(f.structs)}")
    sname = next(iter(f.structs))
    lean, fields, shape = shape_of(f.structs[sname])
    methods = {}
    for trait, ty, fns, consts in f.impls:
        if ty == sname:
            for k, v in fns.items():
                if v.body is not None:
                    methods[k] = v
    consts = {}
    for n, (tt, et) in f.consts.items():
        cty = ty_of_tokens(tt)
        p = rsfront.Parser(et, {})
        e = p.parse_expr_all()
        if e[0] == "lit" and cty in INT:
            consts[n] = (cty, lit_lean(e[1], cty))
    macros = dict(common_macros); macros.update(f.macros)
    u = Unit(sname, StructInfo(sname, lean, fields), methods, consts, macros, prims, f"Rngs.Ext.{sname}")
    u.shape = shape
    u.seed_len = find_seed_len(text)
    u.file = os.path.join(crate, "src", fname + ".rs")
    return u

def emit_unit(u, order, exclude=(), helpers=False, predone=()):
    """returns (lean text, translated fn names, {fn: reason} for the untranslatable ones).  Definitions are emitted in
    dependency order (a function whose callee is translated later is retried); with `helpers`, methods of the unit that are
    not listed are translated too when a listed function calls them."""
    out, done, skipped = [], [], {}
    out.append(f"namespace {u.namespace.split('Rngs.')[1]}")
    listed = [n for n in order if n not in exclude]
    for n in exclude:
        if n in u.methods:
            skipped[n] = exclude[n] if isinstance(exclude, dict) else "excluded"
    pending = [n for n in listed if n in u.methods]
    texts, waiting = {}, {}
    def attempt(name):
        try:
            if hasattr(u, "translate_fn"):
                d = u.translate_fn(name)
            elif name == "fill_bytes" and not helpers:
                d = translate_fill_bytes(u, u.methods[name])
            elif name == "from_seed":
                d = translate_fn(u, name)
                if "rec_seed_from_u64" in d:
                    d = d.replace("def from_seed ", "def from_seed (rec_seed_from_u64 : U64 → " + u.sinfo.lean + ") ", 1)
            elif name == "seed_from_u64":
                d = translate_fn(u, name)
                if "rec_from_seed" in d:
                    d = d.replace("def seed_from_u64 ", "def seed_from_u64 (rec_from_seed : List U8 → " + u.sinfo.lean + ") ", 1)
            elif hasattr(u, "translate_fn"):
                d = u.translate_fn(name)
            else:
                d = translate_fn(u, name)
            ia = rs2lean.LAST.get((u.name, name), {}).get("ignored_asserts")
            if ia:
                ASSERTS.setdefault(u.name, {})[name] = ia
            texts[name] = d
            DEFTEXT[(u.name, name)] = d
            return None
        except Unsupported as e:
            return str(e)
        except Exception as e:
            return f"translator error: {e!r}"
    for name in pending:
        err = attempt(name)
        if err is not None:
            skipped[name] = err
    # unlisted helper methods that a translated function calls
    if helpers:
        grew = True
        while grew:
            grew = False
            for d in list(texts.values()):
                for m in re.findall(re.escape(u.namespace) + r"\.(\w+)", d):
                    if m not in texts and m not in skipped and m in u.methods and m not in exclude and m not in predone:
                        err = attempt(m)
                        if err is not None:
                            skipped[m] = err
                        grew = True
    # emission in dependency order
    remaining = dict(texts)
    progress = True
    while remaining and progress:
        progress = False
        for name in list(dict.fromkeys(n for n in (listed + sorted(remaining)) if n in remaining)):
            if name not in remaining:
                continue
            d = remaining[name]
            deps = [m for m in re.findall(re.escape(u.namespace) + r"\.(\w+)", d) if m != name]
            deps += [n for n, full in getattr(u, "extern", {}).items() if n in exclude and re.search(re.escape(full) + r"\b", d)]
            bad = [m for m in deps if m not in done and m not in remaining and m not in predone]
            if bad:
                skipped[name] = f"depends on {bad[0]}, which is not translated"
                del remaining[name]
                progress = True
            elif all(m in done for m in deps):
                out.append(d)
                done.append(name)
                del remaining[name]
                progress = True
    for name in remaining:
        skipped[name] = "call cycle among the translated functions"
    out.append(f"end {u.namespace.split('Rngs.')[1]}")
    return "\n".join(out), done, skipped

ORDER = ["next_u32", "next_u64", "fill_bytes", "jump", "long_jump", "from_seed", "seed_from_u64"]
DEFTEXT = {}      # (unit, fn) -> text of the translated definition
def shape_is_pinned(G, fn):
    """is the current translation of G.fn textually the one the shape lemma of Rngs/Lib/ExtTieShapes.lean was generated from?
    (then `Ext.G.fn … = ExtShape.G.fn …` is closed by `rfl` at once; otherwise the generic proof path is emitted instead)"""
    try:
        pinned = json.load(open(os.path.join(os.path.dirname(os.path.dirname(os.path.abspath(__file__))), "lean", "Rngs", "Lib", "ExtTieShapes.json")))
    except Exception:
        return False
    d = DEFTEXT.get((G, fn))
    return d is not None and pinned.get(f"{G}.{fn}") == hashlib.sha256(d.encode()).hexdigest()

HELPERS = {}      # unit -> translated functions that have no correspondence statement (helpers extracted by a refactoring)
ASSERTS = {}      # unit -> fn -> assert!/debug_assert! statements that were skipped (panics are C14's subject)

def generate_defs(repo, exclude=None):
    exclude = exclude or {}
    try:
        cm = rsfront.load(os.path.join(repo, "rand_xoshiro/src/common.rs")).macros
    except Exception as e:
        return [], {"rand_xoshiro/src/common.rs": dict(error=repr(e))}, []
    parts, report = [], {}
    units = []
    for fn in XOSHIRO_FILES:
        try:
            u = build_unit(repo, "rand_xoshiro", fn, cm, XOSHIRO_PRIMS)
            order = ORDER if u.sigs.get("next_u32") and "next_u64" in str(rsfront.parse_body(u.methods["next_u32"].body, u.macros)) and \
                "next_u64" in u.methods and "self" in str(u.methods["next_u32"].body) and \
                any(t[1] == "next_u64" for t in u.methods["next_u32"].body) else ORDER
            # definitions must precede their uses: next_u64 first when next_u32 calls it
            if any(t[1] == "next_u64" for t in u.methods["next_u32"].body):
                order = ["next_u64", "next_u32"] + ORDER[2:]
            text, done, skipped = emit_unit(u, order, exclude.get(u.name, {}))
            parts.append(text)
            report[u.name] = dict(file=u.file, translated=done, skipped=skipped, shape=u.shape, seed_len=u.seed_len)
            units.append(u)
        except Exception as e:
            report[fn] = dict(error=repr(e))
    return parts, report, units

# ------------------------------------------------------------------ correspondence theorems
def xo_theorems(u, done):
    """(name, statement, property ids it serves) for one xoshiro-family unit; M = the hand-written model's namespace"""
    G, M, E = u.name, f"Rngs.{u.name}", f"Ext.{u.name}"
    th = []
    if G == "SplitMix64":
        pairs = [("next_u32", f"{E}.next_u32 = SplitMix64.nextU32", ["C01", "C05"]),
                 ("next_u64", f"{E}.next_u64 = SplitMix64.nextU64", ["C01", "C05"]),
                 ("fill_bytes", f"∀ st n, {E}.fill_bytes st n = SplitMix64.fill n st", ["C05"]),
                 ("from_seed", f"{E}.from_seed = SplitMix64.fromSeed", ["C01", "C09"]),
                 ("seed_from_u64", f"{E}.seed_from_u64 = SplitMix64.seedFromU64", ["C09"])]
    else:
        pairs = [("next_u32", f"{E}.next_u32 = {M}.gen.nextU32", ["C01", "C05", "C07"]),
                 ("next_u64", f"{E}.next_u64 = {M}.gen.nextU64", ["C01", "C05", "C07"]),
                 ("fill_bytes", f"∀ st n, {E}.fill_bytes st n = {M}.gen.fill n st", ["C05", "C07"]),
                 ("jump", f"{E}.jump = {M}.jump", ["C06"]),
                 ("long_jump", f"{E}.long_jump = {M}.longJump", ["C06"]),
                 ("from_seed", f"∀ k seed, {E}.from_seed k seed = if isAllZero seed then k 0 else {M}.gen.decode seed", ["C01", "C08"]),
                 ("seed_from_u64", f"∀ k x, {E}.seed_from_u64 k x = k (SplitMix64.fill {M}.gen.seedLen (SplitMix64.seedFromU64 x)).1", ["C08", "C09"])]
    # C05 is self-relative (the outputs are projections of the generator's OWN native stream): the definition of the native
    # operation is not its subject, only how the other operations are derived from it
    native = None if G == "SplitMix64" else ("next_u32" if u.shape[1] == 32 else "next_u64")
    for fn, stmt, props in pairs:
        if fn in done:
            if fn == native:
                props = [p for p in props if p != "C05"]
            th.append((f"{G}.{fn}", stmt, props, fn))
    return th

def xorshift_theorems(u, done):
    E = "Ext.XorShiftRng"
    pairs = [("next_u32", f"{E}.next_u32 = XorShift.nextU32", ["C04", "C07"]),          # native operation: not C05's subject
             ("next_u64", f"{E}.next_u64 = XorShift.nextU64", ["C05", "C07"]),
             ("fill_bytes", f"∀ st n, {E}.fill_bytes st n = XorShift.fill n st", ["C05", "C07"]),
             ("from_seed", f"{E}.from_seed = XorShift.fromSeed", ["C04", "C08"])]
    return [(f"XorShiftRng.{fn}", stmt, props, fn) for fn, stmt, props in pairs if fn in done]

PROOFS = {
    "f1": "ext_tie_hc_fn", "f2": "ext_tie_hc_fn",
    "stir_pool": "ext_tie_stir", "lfsr": "ext_tie_lfsr", "stuck": "ext_tie_step",
    # tactic scripts tried in order (first | …); `rfl` is by far the common case: the translation unfolds to the model
    "next_u32": "ext_tie_step", "next_u64": "ext_tie_step", "fill_bytes": "ext_tie_fill", "jump": "ext_tie_jump",
    "long_jump": "ext_tie_jump", "from_seed": "ext_tie_seed", "seed_from_u64": "ext_tie_seed",
    # rand_hc / rand_isaac: see the proof scripts below (bridge lemmas: Rngs/Lib/ExtTieBlock.lean, ExtTieShapes.lean)
    "hc_step_p": "ext_tie_hc_step", "hc_step_q": "ext_tie_hc_step",
    "core_eq": "ext_tie_core_eq", "isaac_ind": "ext_tie_isaac_ind", "isaac_mix": "ext_tie_isaac_step",
}

# ---- proof scripts of the block generators.  Each is `first | fast path | generic path`: the fast path rewrites the model side
# with the shape lemma of the pinned translation (ExtTieShapes.lean) and closes syntactically; the generic path unfolds both
# sides (`simp only`) and is what survives harmless rewrites of the source.
def _unf(G):
    """simp arguments that unfold the helper functions of unit G"""
    return "".join(f", Ext.{G}.{h}" for h in HELPERS.get(G, []))

def _unfold_helpers(G):
    """tactics that unfold the extracted helpers of unit G where they occur (lets are kept: no zeta)"""
    return "".join(f"; try unfold Ext.{G}.{h}" for h in HELPERS.get(G, []))

def _hc_helpers():
    return ("\n  have hp : Ext.Hc128Core.step_p = Hc128.stepPC := by\n    funext st i i511 i3 i10 i12; exact ExtTie.Hc128Core.step_p st i i511 i3 i10 i12"
            "\n  have hq : Ext.Hc128Core.step_q = Hc128.stepQC := by\n    funext st i i511 i3 i10 i12; exact ExtTie.Hc128Core.step_q st i i511 i3 i10 i12")

def proof_hc_generate(name):
    if shape_is_pinned("Hc128Core", "generate"):
        return ("\n  intro st results" + _hc_helpers() +
                "\n  exact (show Ext.Hc128Core.generate st results = ExtShape.Hc128Core.generate Ext.Hc128Core.step_p Ext.Hc128Core.step_q st results"
                "\n           from rfl).trans (by rw [hp, hq]; exact ExtShape.Hc128Core.generate_eq st results)")
    return ("\n  intro st results" + _hc_helpers() +
            "\n  rw [Hc128.generate_hoisted]"
            "\n  simp only [Ext.Hc128Core.generate" + _unf("Hc128Core") + ", hp, hq, Hc128.blockWith, Hc128.TABLE, List.foldl, Hc128.idx, Hc128.bases, Hc128.USIZE, and_15, and_511, and_1023]"
            "\n  split <;> simp only [Hc128.stepPC_counter, Hc128.stepQC_counter, Nat.add_zero]")

def proof_hc_sixteen(name):
    if shape_is_pinned("Hc128Core", "sixteen_steps"):
        return ("\n  intro st" + _hc_helpers() +
                "\n  exact (show Ext.Hc128Core.sixteen_steps st = ExtShape.Hc128Core.sixteen_steps Ext.Hc128Core.step_p Ext.Hc128Core.step_q st"
                "\n           from rfl).trans (by rw [hp, hq]; exact ExtShape.Hc128Core.sixteen_steps_eq st)")
    return ("\n  intro st" + _hc_helpers() +
            "\n  rw [Hc128.sixteenSteps_hoisted]"
            "\n  simp only [Ext.Hc128Core.sixteen_steps" + _unf("Hc128Core") + ", hp, hq, Hc128.feedWith, Hc128.TABLE, List.foldl, Hc128.idx, Hc128.bases, Hc128.USIZE, and_15, and_511, and_1023]"
            "\n  split <;> simp only [Hc128.stepPC_counter, Hc128.stepQC_counter, Nat.add_zero]")

def proof_hc_init(name):
    return ("\n  intros"
            "\n  have h16 : Ext.Hc128Core.sixteen_steps = Hc128.sixteenSteps := funext ExtTie.Hc128Core.sixteen_steps"
            "\n  simp only [Ext.Hc128Core.init" + _unf("Hc128Core") + ", ExtTie.Hc128Fns.f1, ExtTie.Hc128Fns.f2, h16, Hc128.init, foldl_range'_add, ← BitVec.ofNat_add,"
            "\n    Hc128.expandAt, Nat.reduceAdd, Nat.reduceSub, List.take, List.drop, List.cons_append, List.nil_append, List.foldl_cons,"
            "\n    List.foldl_nil, BitVec.ofNat_eq_ofNat, wr_wr_sort, wr_wr_same, Nat.reduceLT]"
            "\n  first | done | bounded 100 => rfl | (ac_nf; first | done | bounded 100 => rfl)")

def proof_hc_from_seed(name):
    return ("\n  intro seed"
            "\n  simp only [Ext.Hc128Core.from_seed" + _unf("Hc128Core") + ", ExtTie.Hc128Core.init]"
            "\n  rfl")

def proof_isaac(fn):
    def f(name):
        G = name.split(".")[0]
        w = 64 if "64" in G else 32
        if fn == "generate":
            return (f"\n  intro st results"
                    f"\n  have hr : Ext.{G}.rngstep = Isaac.rngstepT Isaac.params{w} := by"
                    f"\n    funext mem results mix a b base m m2; exact ExtTie.{G}.rngstep mem results mix a b base m m2"
                    f"\n  have e : Ext.{G}.generate st results = ExtShape.{G}.generate Ext.{G}.rngstep st results := by"
                    f"\n    first"
                    f"\n    | bounded 100 => rfl"
                    f"\n    | bounded 400 => (unfold Ext.{G}.generate ExtShape.{G}.generate{_unfold_helpers(G)}; ac_nf; first | done | bounded 100 => rfl)"
                    f"\n    | (simp only [Ext.{G}.generate{_unf(G)}, ExtShape.{G}.generate]; ac_nf; first | done | bounded 100 => rfl)"
                    f"\n  exact e.trans (by rw [hr]; exact ExtShape.{G}.generate_eq st results)")
        if fn == "init":
            return (f"\n  intro mem rounds"
                    f"\n  have hm : Ext.{G}.mix = Isaac.mixT Isaac.params{w} := by"
                    f"\n    funext a b c d e f g h; exact ExtTie.{G}.mix a b c d e f g h"
                    f"\n  have e : Ext.{G}.init mem rounds = ExtShape.{G}.init Ext.{G}.mix mem rounds := by"
                    f"\n    first"
                    f"\n    | bounded 100 => rfl"
                    f"\n    | bounded 400 => (unfold Ext.{G}.init ExtShape.{G}.init{_unfold_helpers(G)}; ac_nf; first | done | bounded 100 => rfl)"
                    f"\n    | bounded 1000 => (simp only [Ext.{G}.init{_unf(G)}, ExtShape.{G}.init, wr_wr_sort, wr_wr_same, Nat.add_lt_add_iff_left,"
                    f"\n        Nat.lt_add_right_iff_pos, Nat.reduceLT]; ac_nf; first | done | bounded 100 => rfl)"
                    f"\n  exact e.trans (by rw [hm]; exact ExtShape.{G}.init_eq mem rounds)")
        if fn in ("from_rng", "try_from_rng"):
            return (f"\n  intro ρ fill src"
                    f"\n  simp only [Ext.{G}.{fn}{_unf(G)}, ExtTie.{G}.init, Isaac.coreFromRng{w}, foldl_wr_rd_self]"
                    f"\n  rfl")
        # from_seed / seed_from_u64: the translated `init` is replaced by the model's; the key array (`[w(0); RAND_SIZE]` with
        # the first words stored one by one) is the model's zero-extension `extend` (lemmas Isaac.extend_writes*)
        return (f"\n  intro x"
                f"\n  simp only [Ext.{G}.{fn}{_unf(G)}, ExtTie.{G}.init]"
                f"\n  first | rw [Isaac.extend_writes8] | rw [Isaac.extend_writes4] | rw [Isaac.extend_writes2] | rw [Isaac.extend_writes1] | skip"
                f"\n  rfl")
    return f

# the generic paths of the two unrolled 16-step blocks need more than the default budget (only used when the fast path fails)
HEAVY = {"hc_generate": 2000000, "hc_sixteen_steps": 2000000}
PROOFS.update({"hc_generate": proof_hc_generate, "hc_sixteen_steps": proof_hc_sixteen, "hc_init": proof_hc_init,
               "hc_from_seed": proof_hc_from_seed, "isaac_generate": proof_isaac("generate"), "isaac_init": proof_isaac("init"),
               "isaac_from_seed": proof_isaac("from_seed"), "isaac_seed_from_u64": proof_isaac("seed_from_u64")})
def proof_isaac_rngstep(name):
    """`rngstep`: the two lookups go through the correspondence theorem of `ind` (its side condition `amount < w` is
    discharged on the literal amounts), then both sides are the same term up to the association of `+`"""
    G = name.split(".")[0]
    w = 64 if "64" in G else 32
    return (f"\n  intros"
            f"\n  simp only [Ext.{G}.rngstep{_unf(G)}, ExtTie.{G}.ind, Isaac.rngstep, Isaac.params{w}, Isaac.RAND_SIZE, Isaac.RAND_SIZE_LEN,"
            f"\n    Nat.reduceAdd, Nat.reduceLT, Nat.reduceSub, BitVec.add_assoc, Nat.sub_sub]"
            f"\n  first | done | bounded 100 => rfl | ac_rfl")
PROOFS["isaac_rngstep"] = proof_isaac_rngstep

def _proof_from_rng(name):
    return proof_isaac(name.split(".")[1])(name)
PROOFS["isaac_from_rng"] = _proof_from_rng


HEADER = """/-
  GENERATED by tools/rs2lean.py from the current sources of the repository — do not edit.
  source digest: {digest}
  Part 1: definitions translated from the Rust source (namespace Rngs.Ext).
  Part 2: for each, the theorem that it equals the hand-written model (namespace Rngs.ExtTie).
-/
import Rngs.Lib.ExtTie
import Rngs.Lib.ExtTieJitter
set_option linter.unusedVariables false
set_option maxRecDepth 4096
namespace Rngs
"""

def generate(repo, exclude=None):
    exclude = exclude or {}
    parts, report, units = generate_defs(repo, exclude)
    theorems = []
    for u in units:
        theorems += xo_theorems(u, report[u.name]["translated"])
        trait_impls(u, parts, report, theorems, exclude)
    # rand_xorshift
    try:
        u = build_unit_xorshift(repo)
        text, done, skipped = emit_unit(u, ["next_u32", "next_u64", "fill_bytes", "from_seed", "from_rng", "try_from_rng"],
                                        exclude.get(u.name, {}))
        parts.append(text)
        report[u.name] = dict(file=u.file, translated=done, skipped=skipped, shape=u.shape, seed_len=u.seed_len)
        theorems += xorshift_theorems(u, done)
        trait_impls(u, parts, report, theorems, exclude)
    except Exception as e:
        report["XorShiftRng"] = dict(error=repr(e))
    # rand_jitter: the pure mixing core
    try:
        done_by = {}
        for u, order in build_units_jitter(repo):
            if hasattr(u, "ext_done"):
                u.ext_done = {k: set(done_by.get(k, ())) for k in u.ext_done}
            text, done, skipped = emit_unit(u, order, exclude.get(u.name, {}))
            done_by[u.name] = done
            parts.append(text)
            report[u.name] = dict(file=u.file, translated=done, skipped=skipped, shape=u.shape, seed_len=u.seed_len)
            if getattr(u, "notes", None):
                report[u.name]["notes"] = {k: v for k, v in u.notes.items() if k in done}
            theorems += jitter_theorems(u, done)
    except Exception as e:
        report["rand_jitter"] = dict(error=repr(e))
    avail = set()
    for crate, builder, thms in (("rand_hc", build_units_hc, hc_theorems), ("rand_isaac", build_units_isaac, isaac_theorems)):
        try:
            for u, order in builder(repo):
                if u is None:
                    report[order[0]] = dict(error=order[1])
                    continue
                ex = dict(exclude.get(u.name, {}))
                for n, full in getattr(u, "extern", {}).items():
                    if full not in avail:
                        ex[n] = "defined in another unit, where it is not translated"
                text, done, skipped = emit_unit(u, order, ex, helpers=True)
                avail |= {f"{u.namespace}.{n}" for n in done}
                parts.append(text)
                report[u.name] = dict(file=u.file, translated=done, skipped=skipped, shape=u.shape, seed_len=u.seed_len)
                if ASSERTS.get(u.name):
                    report[u.name]["ignored_asserts"] = ASSERTS[u.name]
                ths = thms(u, done, report[u.name]["skipped"])
                theorems += ths
                # translated functions without a statement of their own (extracted helpers): unfolded by the callers' proofs
                HELPERS[u.name] = [n for n in done if f"{u.name}.{n}" not in {t[0] for t in ths}]
                trait_impls(u, parts, report, theorems, exclude)
        except Exception as e:
            report[crate + (":Hc128Core" if crate == "rand_hc" and "Hc128Fns" in report else "")] = dict(error=repr(e))
    # rand_core 0.9.5 (registry source) and the wrapper types built on it
    try:
        import rs2lean_rc
        for u, order in rs2lean_rc.build_units(report):
            text, done, skipped = emit_unit(u, order, dict(exclude.get(u.name, {})))
            parts.append(text)
            report[u.name] = dict(file=u.file, translated=done, skipped=skipped, shape=u.shape, seed_len=u.seed_len)
            if ASSERTS.get(u.name):
                report[u.name]["ignored_asserts"] = ASSERTS[u.name]
            ths, proofs = rs2lean_rc.theorems(u, done)
            theorems += ths
            CUSTOM_PROOFS.update(proofs)
        # XorShiftRng::from_rng / try_from_rng (the redraw loop around the byte source)
        try:
            u, order = rs2lean_rc.build_unit_xorshift_src(repo, report)
            text, done, skipped = emit_unit(u, order, dict(exclude.get(u.name, {})))
            parts.append(text)
            old = report.get("XorShiftRng") or {}
            sk = {k: v for k, v in (old.get("skipped") or {}).items() if k not in done}
            sk.update(skipped)
            report["XorShiftRng"] = dict(old, translated=list(old.get("translated") or []) + done, skipped=sk)
            for fn, m in (("from_rng", "fromRngFuel"), ("try_from_rng", "tryFromRngFuel")):
                if fn in done:
                    theorems.append((f"XorShiftRng.{fn}", f"∀ {{ρ : Type}} (fill : TryFill ρ) (fuel : Nat) (src : ρ), "
                                     f"Ext.XorShiftRng.{fn} fuel fill src = XorShift.{m} fill fuel src", ["C08", "C09"], fn))
                    CUSTOM_PROOFS[f"XorShiftRng.{fn}"] = (
                        "intro ρ fill fuel src\n" + ("  rw [XorShift.tryFromRngFuel_eq]\n" if fn == "try_from_rng" else "") +
                        f"  exact loopF_redraw fill _ (by intro b r; rfl) fuel (List.replicate 16 (0#8)) src")
        except Exception as e:
            report["XorShiftRng"] = dict(report.get("XorShiftRng") or {}, src_error=repr(e))
        # the wrapper types Hc128Rng / IsaacRng / Isaac64Rng (newtypes of BlockRng / BlockRng64 of the translated cores)
        avail = set()
        for part in parts:
            for ns, body in re.findall(r"^namespace Ext\.(\w+)\n(.*?)^end Ext\.", part, re.S | re.M):
                avail |= {f"Rngs.Ext.{ns}.{m}" for m in re.findall(r"^def (\w+)", body, re.M)}
        for u, order in rs2lean_rc.build_wrapper_units(repo, report, avail):
            text, done, skipped = emit_unit(u, order, dict(exclude.get(u.name, {})))
            parts.append(text)
            report[u.name] = dict(file=u.file, translated=done, skipped=skipped, shape=u.shape, seed_len=u.seed_len)
            ths, proofs = rs2lean_rc.wrapper_theorems(u, done)
            theorems += ths
            CUSTOM_PROOFS.update(proofs)
            trait_impls(u, parts, report, theorems, exclude)
    except Exception as e:
        report["rand_core"] = dict(report.get("rand_core") or {}, error=repr(e))
    unmodelled_impls(repo, report, {t[0] for t in theorems})
    digest = hashlib.sha256("\n".join(parts).encode()).hexdigest()[:16]
    out = [HEADER.format(digest=digest)] + parts + ["\nnamespace ExtTie"]
    for name, stmt, props, fn in theorems:
        pr = PROOFS.get(fn)
        if name in CUSTOM_PROOFS:
            out.append(f"theorem {name} : {stmt} := by\n  {CUSTOM_PROOFS[name]}")
            continue
        if fn in HEAVY:
            out.append(f"set_option maxHeartbeats {HEAVY[fn]} in")
        out.append(f"theorem {name} : {stmt} := by" + (pr(name) if callable(pr) else f" {pr} Ext.{name}"))
    out.append("end ExtTie\nend Rngs\n")
    return "\n".join(out), report, theorems

TRAIT_FNS = ("clone", "clone_from", "eq", "ne")

def trait_impls(u, parts, report, theorems, exclude):
    """hand-written `Clone` / `PartialEq` methods of unit `u` that its own order does not list: translated (with the helpers
    they call) in a second block of the unit's namespace, and stated against what a derived impl does —
    `clone st = st`, `clone_from st src = src`, `eq a b = decide (a = b)` (unless the unit states `eq` against the model's `beq`),
    `ne a b = !(eq a b)`.  Property C10.  What cannot be translated stays for `unmodelled_impls`."""
    r = report.get(u.name)
    if not isinstance(r, dict) or "translated" not in r:
        return
    done = list(r["translated"])
    extra = [n for n in TRAIT_FNS if n in getattr(u, "methods", {}) and n not in done and n not in (r.get("skipped") or {})]
    if extra:
        try:
            text, done2, skipped2 = emit_unit(u, extra, dict(exclude.get(u.name, {})), helpers=True, predone=done)
        except Exception as e:
            text, done2, skipped2 = "", [], {n: f"translator error: {e!r}" for n in extra}
        if done2:
            parts.append(text)
            r["translated"] = done + done2
            done = r["translated"]
        if skipped2:
            r["trait_skipped"] = {k: v for k, v in skipped2.items() if k in TRAIT_FNS}
    stated = {t[0] for t in theorems}
    E = f"Ext.{u.name}"
    defs = ", ".join(f"{E}.{n}" for n in done)
    def script(intro, alts):
        return intro + "\n  first\n" + "\n".join("  | bounded 400 => (" + a + "; done)" for a in alts)
    for n in TRAIT_FNS:
        if n not in done or f"{u.name}.{n}" in stated:
            continue
        sig = (getattr(u, "sigs", {}) or {}).get(n) or {}
        if n == "clone":
            stmt = f"∀ st, {E}.clone st = st"
            pr = script("intro st", ["rfl", "cases st; rfl", f"cases st; simp [{defs}, rd, wr]"])
        elif n == "clone_from":
            stmt = f"∀ st src, {E}.clone_from st src = src"
            pr = script("intro st src", ["rfl", "cases st; cases src; rfl", f"cases st; cases src; simp [{defs}, rd, wr]"])
        elif n == "eq":
            stmt = f"∀ a b, {E}.eq a b = decide (a = b)"
            pr = script("intro a b", ["rfl", f"cases a; cases b; simp [{defs}, rd, wr]",
                                      f"cases a; cases b; simp [{defs}, rd, wr]; first | done | simp [← beq_iff_eq] | (constructor <;> intro h <;> simp_all)"])
        else:
            if "eq" not in done:
                continue
            stmt = f"∀ a b, {E}.ne a b = !({E}.eq a b)"
            pr = script("intro a b", ["rfl", f"simp only [{E}.ne, {E}.eq, Bool.not_and, Bool.not_or, bne, Bool.not_not]",
                                      f"cases a; cases b; simp [{defs}, rd, wr]"])
        theorems.append((f"{u.name}.{n}", stmt, ["C10"], "trait_" + n))
        CUSTOM_PROOFS[f"{u.name}.{n}"] = pr

def unmodelled_impls(repo, report, stated):
    """hand-written `Clone` / `PartialEq` of a type under the tie that no theorem speaks about (the source derives them, or has
    none: a patch ADDED the impl).  What `clone()` returns and what `==` says is C10's subject, and a derived impl is the identity /
    the field-wise comparison by construction; a hand-written one is a function like any other, and here it has neither a
    translation nor a model counterpart: recorded as `unmodelled` (check.py: a broken obligation of C10; the sweep: not silent)."""
    try:        # a function that has a theorem on the pinned tree and none now has LEFT the fragment: reported as such, not here
        pinned = set(json.load(open(os.path.join(os.path.dirname(os.path.dirname(os.path.abspath(__file__))), "pinned_src",
                                                 "EXPECTED.json")))["theorems"])
    except Exception:
        pinned = set()
    stated = set(stated) | pinned
    files = {}
    for u, r in list(report.items()):
        if isinstance(r, dict) and r.get("file") and str(r["file"]).endswith(".rs"):
            files.setdefault(r["file"], set()).add(u)
    for rel, names in files.items():
        try:
            f = rsfront.load(os.path.join(repo, rel))
        except Exception:
            continue
        for trait, ty, fns, consts in f.impls:
            t = (trait or "").split("::")[-1].split("<")[0]
            if ty not in names or t not in ("Clone", "PartialEq"):
                continue
            r = report[ty]
            for k, v in fns.items():
                if v.body is None or f"{ty}.{k}" in stated or k in (r.get("skipped") or {}):
                    continue
                why = (r.get("trait_skipped") or {}).get(k)
                r.setdefault("unmodelled", {})[k] = (f"hand-written impl {t} for {ty}: " + (f"not translated ({why}) " if why else
                                                     "no model counterpart, no theorem ") +
                                                     f"(the pinned source {'derives it' if t == 'Clone' else 'has no such impl'})")

def nested_fn(fn, name, macros):
    """a `fn name(..)` item declared inside the body of `fn`"""
    stmts, tail = rsfront.parse_body(fn.body, macros)
    for st in stmts:
        if st[0] == "fn" and st[1].name == name:
            return st[1]
    raise Unsupported(f"nested fn {name} not found")

def build_units_jitter(repo):
    """rand_jitter: the pure mixing core — JitterRng::stir_pool, the LFSR fold `lfsr` (nested in lfsr_time), EcState::stuck"""
    path = os.path.join(repo, "rand_jitter/src/lib.rs")
    f = rsfront.load(path)
    macros = dict(f.macros)
    jm, em = {}, {}
    for trait, ty, fns, consts in f.impls:
        if ty == "JitterRng" and trait is None:
            jm.update({k: v for k, v in fns.items() if v.body is not None})
        if ty == "EcState" and trait is None:
            em.update({k: v for k, v in fns.items() if v.body is not None})
    units = []
    # JitterRng: state = the model's Jitter.Rng (fields data, rounds, memPrevIndex, halfUsed); `stir_pool` (pure) is translated
    # by the plain translator, everything else by the monadic one (rs2lean_tm.py), which emits this unit LAST (it calls the others)
    ju = Unit("JitterRng", StructInfo("JitterRng", "Jitter.Rng", {"data": ("u64", "data")}),
              {k: v for k, v in jm.items() if k in ("stir_pool",)}, {}, macros, {}, "Rngs.Ext.JitterRng")
    ju.shape, ju.seed_len, ju.file = ("Jitter", 64), None, "rand_jitter/src/lib.rs"
    # the nested fn lfsr(data, time) as a unit without state
    if "lfsr_time" in jm:
        try:
            lf = nested_fn(jm["lfsr_time"], "lfsr", macros)
            lu = Unit("JitterLfsr", StructInfo("JitterLfsr", "Unit", {}), {"lfsr": lf}, {}, macros, {}, "Rngs.Ext.JitterLfsr")
            lu.shape, lu.seed_len, lu.file = ("fn", 64), None, "rand_jitter/src/lib.rs"
            units.append((lu, ["lfsr"]))
        except Unsupported:
            pass
    eu = Unit("EcState", StructInfo("EcState", "Jitter.Ec", {"prev_time": ("u64", "prevTime"), "last_delta": ("i32", "lastDelta"),
                                                               "last_delta2": ("i32", "lastDelta2")}),
              {k: v for k, v in em.items() if k == "stuck"}, {}, macros, {}, "Rngs.Ext.EcState")
    eu.shape, eu.seed_len, eu.file = ("Ec", 32), None, "rand_jitter/src/lib.rs"
    units.append((eu, ["stuck"]))
    import rs2lean_tm
    tu = rs2lean_tm.TmUnit(repo)
    tu.name, tu.shape, tu.seed_len, tu.file, tu.plain = "JitterRng", ("Jitter", 64), None, "rand_jitter/src/lib.rs", ju
    tu.methods = {k[1]: v for k, v in tu.jf.methods.items() if k[0] == "JitterRng"}
    units.append((tu, JITTER_ORDER))
    return units

JITTER_ORDER = ["stir_pool", "random_loop_cnt", "lfsr_time", "memaccess", "measure_jitter", "gen_entropy", "test_timer", "timer_stats",
                "set_rounds", "new_with_timer", "clone", "next_u64", "next_u32", "fill_bytes"]

def file_consts(f, extra=None):
    """the integer constants of a file that are constant expressions over literals and earlier constants:
    ({name: (type, Lean literal)}, {name: value})"""
    vals, consts = dict(extra or {}), {}
    for n, (tt, et) in f.consts.items():
        try:
            cty = ty_of_tokens(tt)
            e = rsfront.Parser(et, {}).parse_expr_all()
        except Exception:
            continue
        v = const_eval(e, vals)
        if v is not None and (cty in INT or cty == "nat"):
            vals[n] = v
            consts[n] = (cty, lit_lean(v, cty))
    return consts, vals

def methods_of(f, sname, skip_traits=("fmt::Debug", "Eq", "::core::cmp::Eq")):
    ms, aliases = {}, {}
    for (trait, ty, fns, consts), types in zip(f.impls, f.impl_types):
        if ty != sname or trait in skip_traits:
            continue
        for k, v in fns.items():
            if v.body is not None:
                if k in ms:
                    raise Unsupported(f"two functions named {k} for {sname}")
                ms[k] = v
        for k, toks in types.items():
            aliases["Self::" + k] = "".join(t[1] for t in toks)
    return ms, aliases

def add_nested(methods, parent, names, macros, skip=()):
    """nested `fn` items of `parent` become functions of the unit (called by their bare name); names=None: all of them"""
    if parent not in methods:
        return
    if names is None:
        try:
            stmts, tail = rsfront.parse_body(methods[parent].body, macros)
        except Exception:
            return
        names = [st[1].name for st in stmts if st[0] == "fn" and st[1].name not in skip]
    for n in names:
        try:
            fn = nested_fn(methods[parent], n, macros)
        except Unsupported:
            continue
        if n in methods:
            raise Unsupported(f"nested fn {n} clashes with another function of the unit")
        methods[n] = fn

def build_units_hc(repo):
    """rand_hc: f1, f2 (nested in Hc128Core::init; unit Hc128Fns) and Hc128Core: step_p, step_q, generate, sixteen_steps,
    init, from_seed.  State = the model's Hc128.Core (t : Array U32, counter : Nat).  Yields (unit, order) or (None, reason)."""
    path = os.path.join(repo, "rand_hc/src/hc128.rs")
    f = rsfront.load(path)
    consts, vals = file_consts(f)
    TYCTX["aliases"], TYCTX["consts"] = {}, vals
    macros = dict(f.macros)
    methods, aliases = methods_of(f, "Hc128Core")
    for k, toks in f.types.items():
        aliases[k] = "".join(t[1] for t in toks)
    if "init" not in methods:
        raise Unsupported("Hc128Core::init not found")
    ms = {}
    for n in ("f1", "f2"):
        try:
            ms[n] = nested_fn(methods["init"], n, macros)
        except Unsupported:
            pass
    fu = Unit("Hc128Fns", StructInfo("Hc128Fns", "Unit", {}), ms, {}, macros, {}, "Rngs.Ext.Hc128Fns")
    fu.shape, fu.seed_len, fu.file = ("fn", 32), None, "rand_hc/src/hc128.rs"
    yield fu, ["f1", "f2"]
    # the core
    TYCTX["aliases"], TYCTX["consts"] = aliases, vals
    fields = {n: ty_of_tokens(t) for n, t in f.structs.get("Hc128Core", [])}
    if fields != {"t": ("arr", "u32", 1024), "counter1024": "nat"}:
        raise Unsupported(f"the state of Hc128Core is not (t: [u32; 1024], counter1024: usize): {fields}")
    sinfo = StructInfo("Hc128Core", "Hc128.Core", {"t": (("arr", "u32", 1024), "t"), "counter1024": ("nat", "counter")})
    prims = {"read_u32_into": prim_read_into(32), "le::read_u32_into": prim_read_into(32), "@bytes_types": ()}
    cm = dict(methods)
    for parent in list(methods):
        add_nested(cm, parent, None, macros, skip=tuple(ms))      # other nested helpers (none on the pinned source)
    cm.update(ms)              # f1, f2 are called by init; their definitions are those of the unit Hc128Fns
    u = Unit("Hc128Core", sinfo, cm, consts, macros, prims, "Rngs.Ext.Hc128Core", aliases, vals)
    u.extern = {n: "Rngs.Ext.Hc128Fns." + n for n in ms}
    u.sort_acc = True
    u.shape, u.seed_len, u.file = ("Hc128Core", 32), 32, "rand_hc/src/hc128.rs"
    yield u, ["step_p", "step_q", "generate", "sixteen_steps", "init", "from_seed", "eq"]

def sig_is(u, fn, selfkind, params, ret):
    """does the translated function still have the signature the correspondence statement is written for?
    params: [(type, is `&mut`)] with Wrapping / plain integers identified; ret: type or None"""
    sg = u.sigs.get(fn)
    if sg is None:
        return False
    norm = lambda t: ("arr", rs2lean.unwrap_ty(t[1]), t[2]) if isinstance(t, tuple) and t[0] == "arr" else rs2lean.unwrap_ty(t)
    have = [(norm(t), n in sg["mutref"]) for n, t in sg["params"]]
    r = sg["ret"]
    if r == ("named", u.name):
        r = ("named", "Self")
    return (sg["selfkind"] or None) == selfkind and have == [(norm(t), m) for t, m in params] and norm(r) == norm(ret)

def guard(u, done, report_skipped, wanted):
    """functions of `done` whose signature is the expected one; the others keep their translation (callers may use it) but
    get no correspondence theorem: the function the statement was about no longer exists in that form"""
    ok = []
    for fn in done:
        if fn not in wanted:
            continue
        if sig_is(u, fn, *wanted[fn]):
            ok.append(fn)
        else:
            report_skipped[fn] = "signature changed: the correspondence statement does not apply (translated as a helper only)"
    return ok

def hc_theorems(u, done, skipped=None):
    skipped = skipped if skipped is not None else {}
    N, U32, SELF = "nat", "u32", ("named", "Self")
    if u.name == "Hc128Core":
        done = guard(u, done, skipped, {
            "step_p": ("mut", [(N, False)] * 5, U32), "step_q": ("mut", [(N, False)] * 5, U32),
            "generate": ("mut", [(("arr", U32, 16), True)], None), "sixteen_steps": ("mut", [], None),
            "init": (None, [(("arr", U32, 8), False)], SELF), "from_seed": (None, [(("arr", "u8", 32), False)], SELF),
            "eq": ("ref", [(SELF, False)], "bool")})
    if u.name == "Hc128Fns":
        return [(f"Hc128Fns.{n}", f"Ext.Hc128Fns.{n} = Hc128.{n}", ["C02"], n) for n in ("f1", "f2") if n in done]
    E, th = "Ext.Hc128Core", []
    ix = "i i511 i3 i10 i12"
    for n, m in (("step_p", "stepP"), ("step_q", "stepQ")):
        if n in done:
            th.append((f"Hc128Core.{n}", f"∀ st {ix}, {E}.{n} st {ix} = ((Hc128.{m} st.t {ix}).1, {{ st with t := (Hc128.{m} st.t {ix}).2 }})",
                       ["C02"], "hc_" + n))
    if "generate" in done:
        th.append(("Hc128Core.generate", f"∀ st results, {E}.generate st results = Hc128.generate st results", ["C02"], "hc_generate"))
    if "sixteen_steps" in done:
        th.append(("Hc128Core.sixteen_steps", f"∀ st, {E}.sixteen_steps st = Hc128.sixteenSteps st", ["C02"], "hc_sixteen_steps"))
    if "init" in done:
        n = next((p[1][2] for p in u.sigs["init"]["params"] if is_arr(p[1])), None)
        if n is not None and len(u.sigs["init"]["params"]) == 1 and is_arr(u.sigs["init"]["params"][0][1], flat=True):
            xs = " ".join(f"s{i}" for i in range(n))
            th.append(("Hc128Core.init", f"∀ {xs}, {E}.init {xs} = Hc128.init [{', '.join(f's{i}' for i in range(n))}]", ["C02"], "hc_init"))
    if "eq" in done:
        th.append(("Hc128Core.eq", f"∀ a b, {E}.eq a b = Hc128.Core.beq a b", ["C10"], "core_eq"))
    if "from_seed" in done:
        th.append(("Hc128Core.from_seed", f"∀ seed, {E}.from_seed seed = Hc128.fromSeedCore seed", ["C02", "C09"], "hc_from_seed"))
    return th

def isaac_array_alias(repo):
    """`IsaacArray<T>` (isaac_array.rs) is a wrapper of `[T; RAND_SIZE]` with Deref/DerefMut to that array: translated as the
    array itself.  Checked here: the struct has the single field `inner: [T; RAND_SIZE]` and deref / deref_mut return it."""
    f = rsfront.load(os.path.join(repo, "rand_isaac/src/isaac_array.rs"))
    st = f.structs.get("IsaacArray")
    if st is None or [(n, "".join(t[1] for t in ty)) for n, ty in st] != [("inner", "[T;RAND_SIZE]")]:
        raise Unsupported("IsaacArray is not a wrapper of [T; RAND_SIZE]")
    want = {"deref": "&self.inner", "deref_mut": "&mutself.inner"}
    seen = {}
    for trait, ty, fns, consts in f.impls:
        if ty == "IsaacArray":
            for k, v in fns.items():
                if k in want:
                    seen[k] = "".join(t[1] for t in v.body)
    if seen != want:
        raise Unsupported("IsaacArray's Deref / DerefMut are not the field projections")
    _, vals = file_consts(f)
    return vals.get("RAND_SIZE")

def build_units_isaac(repo):
    """rand_isaac: IsaacCore (isaac.rs) and Isaac64Core (isaac64.rs): the nested fns ind, rngstep (in generate), mix (in init),
    generate, init, from_seed, seed_from_u64.  State = the model's Isaac.Core w.  Yields (unit, order) / (None, (name, reason))."""
    arr_n = isaac_array_alias(repo)
    for fname, sname, w in (("isaac", "IsaacCore", 32), ("isaac64", "Isaac64Core", 64)):
        try:
            path = os.path.join(repo, "rand_isaac/src", fname + ".rs")
            f = rsfront.load(path)
            consts, vals = file_consts(f)
            if vals.get("RAND_SIZE") != arr_n:
                raise Unsupported("RAND_SIZE of isaac_array.rs differs")
            macros = dict(f.macros)
            aliases = {k: "".join(t[1] for t in toks) for k, toks in f.types.items()}
            TYCTX["aliases"], TYCTX["consts"] = aliases, vals
            methods, ali = methods_of(f, sname)
            aliases.update(ali)
            for T in (f"u{w}", "Self::Item"):
                aliases[f"IsaacArray<{T}>"] = f"[{T};RAND_SIZE]"
            wt, ut = f"w{w}", f"u{w}"
            fields = {n: ty_of_tokens(t) for n, t in f.structs.get(sname, [])}
            # Wrapping<uN> or plain uN words (plain + - * are translated as wrapping: overflow panics are C14's subject)
            ok = list(fields) == ["mem", "a", "b", "c"] and fields["mem"] in (("arr", wt, 256), ("arr", ut, 256)) and \
                all(fields[k] in (wt, ut) for k in "abc")
            if not ok:
                raise Unsupported(f"the state of {sname} is not (mem: [w{w}; 256], a, b, c: w{w}): {fields}")
            sinfo = StructInfo(sname, f"Isaac.Core {w}", {"mem": (fields["mem"], "mem"), "a": (fields["a"], "a"),
                                                           "b": (fields["b"], "b"), "c": (fields["c"], "c")})
            for parent in list(methods):
                add_nested(methods, parent, None, macros)      # on the pinned source: ind, rngstep (generate), mix (init)
            prims = {"read_u32_into": prim_read_into(32), "le::read_u32_into": prim_read_into(32),
                     "read_u64_into": prim_read_into(64), "le::read_u64_into": prim_read_into(64), "@bytes_types": ()}
            u = Unit(sname, sinfo, methods, consts, macros, prims, f"Rngs.Ext.{sname}", aliases, vals)
            u.shape, u.seed_len, u.file, u.width = (sname, w), 32, f"rand_isaac/src/{fname}.rs", w
            u.sort_acc = True
            yield u, ["ind", "rngstep", "generate", "mix", "init", "from_seed", "seed_from_u64", "from_rng", "try_from_rng", "eq"]
        except Exception as e:
            yield None, (sname, repr(e))

def isaac_theorems(u, done, skipped=None):
    skipped = skipped if skipped is not None else {}
    w, E, G = u.width, f"Ext.{u.name}", u.name
    P = f"Isaac.params{w}"
    W, N, SELF = f"u{w}", "nat", ("named", "Self")
    A = ("arr", W, 256)
    done = guard(u, done, skipped, {
        "ind": (None, [(A, False), (W, False), (N, False)], W),
        "rngstep": (None, [(A, True), (A, True), (W, False), (W, True), (W, True), (N, False), (N, False), (N, False)], None),
        "mix": (None, [(W, True)] * 8, None), "generate": ("mut", [(A, True)], None),
        "init": (None, [(A, False), ("u32", False)], SELF), "from_seed": (None, [(("arr", "u8", 32), False)], SELF),
        "seed_from_u64": (None, [("u64", False)], SELF),
        "eq": ("ref", [(("named", u.name), False)], "bool"),
        "from_rng": (None, [(("named", "implRngCore"), True)], SELF),
        "try_from_rng": (None, [(("named", "R"), True)], ("named", "Result<Self,R::Error>"))})
    th = []
    def add(fn, stmt, props, key=None):
        if fn in done:
            th.append((f"{G}.{fn}", stmt, props, key or "isaac_" + fn))
    add("ind", f"∀ mem v amount, amount < {w} → {E}.ind mem v amount = Isaac.ind mem v amount", ["C03"])
    add("rngstep", f"∀ mem results mix a b base m m2, {E}.rngstep mem results mix a b base m m2 = "
                   f"(let s := Isaac.rngstep {P} ⟨mem, results, a, b⟩ mix base m m2; (s.mem, s.results, s.a, s.b))", ["C03"])
    add("mix", f"∀ a b c d e f g h, {E}.mix a b c d e f g h = "
               f"(let o := {P}.mix ⟨a, b, c, d, e, f, g, h⟩; (o.a, o.b, o.c, o.d, o.e, o.f, o.g, o.h))", ["C03"])
    add("generate", f"∀ st results, {E}.generate st results = Isaac.generate {P} st results", ["C03"])
    add("init", f"∀ mem rounds, {E}.init mem rounds = Isaac.init {P} mem rounds.toNat", ["C03"])
    if "eq" in done:
        th.append((f"{G}.eq", f"∀ a b, {E}.eq a b = Isaac.Core.beq a b", ["C10"], "core_eq"))
    add("from_seed", f"∀ seed, {E}.from_seed seed = Isaac.fromSeedCore{w} seed", ["C03", "C09"])
    add("seed_from_u64", f"∀ x, {E}.seed_from_u64 x = Isaac.seedFromU64Core{w} x", ["C03", "C09"])
    # the cores' from_rng / try_from_rng (the `unsafe` byte view of the seed array is the primitive rs2lean.FnTr.unsafe_fill);
    # Isaac.fromRng32_eq_core … (ExtTieBlock) relate coreFromRng to the model's constructors of the wrappers
    add("from_rng", f"∀ {{ρ : Type}} (fill : TryFill ρ) (src : ρ), {E}.from_rng fill src = Isaac.coreFromRng{w} fill src", ["C03", "C09"], "isaac_from_rng")
    add("try_from_rng", f"∀ {{ρ : Type}} (fill : TryFill ρ) (src : ρ), {E}.try_from_rng fill src = Isaac.coreFromRng{w} fill src", ["C03", "C09"], "isaac_from_rng")
    return th

# rand_jitter, timer monad: (statement, property ids, proof script).  E = Ext.JitterRng, J = Jitter (the model), T = Jitter.TM (Lib/ExtTieJitter)
_MONAD = "bind_assoc, pure_bind"
JITTER_TM = {
    "random_loop_cnt": ("∀ (st : Jitter.Rng) (n : BitVec 32), n.toNat < 64 → Ext.JitterRng.random_loop_cnt st n = "
                        "(do let r ← Jitter.randomLoopCnt st n.toNat; pure (r, st))", ["C12"],
                        "intro st n h\n  unfold Ext.JitterRng.random_loop_cnt Jitter.randomLoopCnt\n"
                        "  simp only [Nat.mod_eq_of_lt h, bind_assoc, pure_bind, Jitter.TM.rlc_folds n h]\n  rfl"),
    "lfsr_time": ("∀ st time b, Ext.JitterRng.lfsr_time st time b = Jitter.lfsrTime st time b", ["C12"],
                  "intro st time b\n  unfold Ext.JitterRng.lfsr_time Jitter.lfsrTime\n"
                  "  simp only [JitterRng.random_loop_cnt st 4#32 (by decide), JitterLfsr.lfsr, bind_assoc, pure_bind]\n  first | done | (cases b <;> simp)"),
    "memaccess": ("∀ st b, Ext.JitterRng.memaccess st b = Jitter.memaccess st b", ["C12"],
                  "intro st b\n  exact Jitter.TM.memaccess_tie Ext.JitterRng.random_loop_cnt (fun st => JitterRng.random_loop_cnt st 4#32 (by decide)) st b"),
    "measure_jitter": ("∀ st ec, Ext.JitterRng.measure_jitter st ec = "
                       "(do let r ← Jitter.measureJitter st ec; pure (if r.1 then some () else none, r.2.1, r.2.2))", ["C12"],
                       "intro st ec\n  unfold Ext.JitterRng.measure_jitter Jitter.measureJitter\n"
                       "  simp only [JitterRng.memaccess, JitterRng.lfsr_time, EcState.stuck, bind_assoc, pure_bind]\n"
                       "  first | done | (congr 1; funext a; congr 1; funext t; congr 1; funext b; split <;> simp) | (split <;> simp) | simp"),
    "gen_entropy": ("∀ st, Ext.JitterRng.gen_entropy st = Jitter.genEntropy st", ["C12"],
                    "intro st\n  exact Jitter.TM.gen_entropy_tie Ext.JitterRng.measure_jitter JitterRng.measure_jitter "
                    "Ext.JitterRng.stir_pool JitterRng.stir_pool st"),
    "test_timer": ("∀ st, (do let r ← Ext.JitterRng.test_timer st; pure (r.1.map BitVec.toNat, r.2)) = Jitter.testTimer st", ["C12", "C13"],
                   "intro st\n  exact Jitter.TM.test_timer_tie Ext.JitterRng.memaccess JitterRng.memaccess Ext.JitterRng.lfsr_time "
                   "JitterRng.lfsr_time Ext.EcState.stuck EcState.stuck st"),
    "timer_stats": ("∀ st b, Ext.JitterRng.timer_stats st b = Jitter.timerStats st b", ["C12"],
                    "intro st b\n  unfold Ext.JitterRng.timer_stats Jitter.timerStats\n"
                    "  simp only [JitterRng.memaccess, JitterRng.lfsr_time, bind_assoc, pure_bind]\n  first | done | rfl | simp"),
    "set_rounds": ("∀ st (r : BitVec 8), Ext.JitterRng.set_rounds st r = Jitter.setRounds st r.toNat", ["C12"],
                   "intro st r\n  simp only [Ext.JitterRng.set_rounds, Jitter.setRounds, gt_iff_lt, BitVec.lt_def, decide_eq_true_eq, "
                   "BitVec.toNat_ofNat, Nat.zero_mod]\n  rfl"),
    "new_with_timer": ("Ext.JitterRng.new_with_timer = Jitter.newWithTimer", ["C12"], "first | rfl | decide"),
    "clone": ("Ext.JitterRng.clone = Jitter.clone", ["C12", "C05", "C16"], "first | rfl | (funext st; rfl)"),
    "next_u64": ("∀ st, Ext.JitterRng.next_u64 st = Jitter.nextU64 st", ["C12", "C05", "C16"],
                 "intro st\n  unfold Ext.JitterRng.next_u64 Jitter.nextU64\n  simp only [JitterRng.gen_entropy, bind_assoc, pure_bind]\n"
                 "  first | done | rfl | simp"),
    "next_u32": ("∀ st, Ext.JitterRng.next_u32 st = Jitter.nextU32 st", ["C12", "C05", "C16"],
                 "intro st\n  unfold Ext.JitterRng.next_u32 Jitter.nextU32\n  simp only [JitterRng.next_u64, bind_assoc, pure_bind]\n"
                 "  first | done | rfl | (split <;> simp; done) | (simp; done) |\n"
                 "    (cases h : st.halfUsed\n"
                 "     · simp only [h, Bool.not_false, Bool.false_eq_true, if_true, if_false, ite_true, ite_false]\n"
                 "       rw [Jitter.nextU64_value_is_data st]\n"
                 "       simp only [map_eq_pure_bind, bind_assoc, pure_bind]\n"
                 "     · simp [h])"),
    "fill_bytes": ("∀ st n, Ext.JitterRng.fill_bytes st n = Jitter.fill n st", ["C12", "C05", "C16"],
                   "intro st n\n  exact Jitter.TM.fill_tie Ext.JitterRng.next_u32 JitterRng.next_u32 Ext.JitterRng.next_u64 JitterRng.next_u64 st n"),
}
CUSTOM_PROOFS = {
    # XorShiftRng: definitional unfolding first; then — for a source that inlines next_u64_via_u32 as two next_u32 calls and
    # combines the halves in either order — rewrite with the already proved sibling theorems and the projection form of the model
    "XorShiftRng.next_u64": ("first\n  | bounded 100 => ext_tie_step Ext.XorShiftRng.next_u64\n"
                             "  | (funext st\n     simp only [Ext.XorShiftRng.next_u64, XorShiftRng.next_u32]\n"
                             "     show _ = nextU64ViaU32 XorShift.nextU32 st\n"
                             "     first | (rw [nextU64ViaU32_eq]; done) | (rw [nextU64ViaU32_eq, BitVec.or_comm]))"),
    "XorShiftRng.fill_bytes": ("first\n  | bounded 100 => ext_tie_fill Ext.XorShiftRng.fill_bytes\n"
                               "  | (intro st n\n     simp only [Ext.XorShiftRng.fill_bytes, XorShiftRng.next_u32, XorShiftRng.next_u64]\n"
                               "     first | done | bounded 100 => rfl)"),
}

def jitter_theorems(u, done):
    th = []
    if u.name == "JitterRng" and "stir_pool" in done:
        th.append(("JitterRng.stir_pool", "∀ st, Ext.JitterRng.stir_pool st = { st with data := Jitter.stir st.data }", ["C12", "C15"], "stir_pool"))
    if u.name == "JitterRng":
        for fn in done:
            if fn in JITTER_TM:
                stmt, props, proof = JITTER_TM[fn]
                th.append((f"JitterRng.{fn}", stmt, props, fn))
                CUSTOM_PROOFS[f"JitterRng.{fn}"] = proof
                if fn != "fill_bytes":
                    # the partial operations (C14's subject) found in the source are the ones Checked.Jitter accounts for
                    th.append((f"JitterRng.{fn}_partial_ops", f"Ext.JitterRng.{fn}_partial_ops = Jitter.TM.partialOps \"{fn}\"", ["C14"], fn))
                    CUSTOM_PROOFS[f"JitterRng.{fn}_partial_ops"] = "first | rfl | decide"
    if u.name == "JitterLfsr" and "lfsr" in done:
        th.append(("JitterLfsr.lfsr", "Ext.JitterLfsr.lfsr = Jitter.lfsr", ["C12", "C15"], "lfsr"))
    if u.name == "EcState" and "stuck" in done:
        th.append(("EcState.stuck", "Ext.EcState.stuck = Jitter.stuck", ["C12", "C13"], "stuck"))
    return th

def build_unit_xorshift(repo):
    path = os.path.join(repo, "rand_xorshift/src/lib.rs")
    text = open(path).read()
    f = rsfront.load(path)
    sname = "XorShiftRng"
    lean, fields, shape = shape_of(f.structs[sname])
    methods = {}
    for trait, ty, fns, consts in f.impls:
        if ty == sname and trait != "fmt::Debug":
            for k, v in fns.items():
                if v.body is not None:
                    methods[k] = v
    prims = dict(XOSHIRO_PRIMS)
    u = Unit(sname, StructInfo(sname, lean, fields), methods, {}, dict(f.macros), prims, f"Rngs.Ext.{sname}")
    u.shape, u.seed_len, u.file = shape, find_seed_len(text), "rand_xorshift/src/lib.rs"
    return u

if __name__ == "__main__":
    import sys
    text, report, theorems = generate(sys.argv[1] if len(sys.argv) > 1 else "/repo")
    sys.stdout.write(text)
    sys.stderr.write(json.dumps(report, indent=1, default=str) + "\n")
