"""extract_units.py — which functions of /repo are translated by rs2lean.py, how their state is represented, and which
definition of the hand-written model each must equal.  `generate(repo)` returns the text of the generated Lean file
(definitions regenerated from the current source + the correspondence theorems) and a report."""
import os, re, json, hashlib
import rsfront
from rsfront import Unsupported
from rs2lean import (Unit, StructInfo, FnTr, Val, Var, translate_fn, parse_ty, ty_of_tokens, lit_lean, lname, INT)

XOSHIRO_FILES = ["splitmix64", "xoroshiro64star", "xoroshiro64starstar", "xoroshiro128plus", "xoroshiro128plusplus",
                 "xoroshiro128starstar", "xoshiro128plus", "xoshiro128plusplus", "xoshiro128starstar",
                 "xoshiro256plus", "xoshiro256plusplus", "xoshiro256starstar", "xoshiro512plus",
                 "xoshiro512plusplus", "xoshiro512starstar"]

# ------------------------------------------------------------------ primitives (rand_core helpers -> their models)
def prim_next_u64_via_u32(tr, args, want):
    r = tr.fresh("r")
    tr.emit(f"let {r} := nextU64ViaU32 {tr.u.namespace}.next_u32 st;")
    tr.emit(f"let st := {r}.2;")
    return Val(f"{r}.1", "u64")

def prim_read_into(width):
    def f(tr, args, want):
        src = tr.expr(args[0])
        dst = args[1]
        while dst[0] in ("ref", "paren"):
            dst = dst[2] if dst[0] == "ref" else dst[1]
        if dst[0] != "path" or len(dst[1]) != 1:
            raise Unsupported("read_*_into destination")
        v = tr.scope.get(dst[1][0])
        if v is None or v.elems is None:
            raise Unsupported("read_*_into into a non-flattened array")
        ety = "u32" if width == 32 else "u64"
        tr.infer(v.key, ("arr", ety, len(v.elems)))
        for i, x in enumerate(v.elems):
            tr.emit(f"let {x.lean} := {'le32At' if width == 32 else 'le64At'} {src.atom()} {i};")
            x.ty = ety
        return Val("()", "unit")
    return f

def prim_splitmix_seed(tr, args, want):
    a = tr.expr(args[0], "u64")
    return Val(f"SplitMix64.seedFromU64 {a.atom()}", ("lean", "U64"))

def prim_self_from_rng(tr, args, want):
    """`Self::from_rng(&mut rng)` (rand_core default): seed = Seed::default(); rng.fill_bytes(seed); from_seed(seed).
    The source here is always the SplitMix64 bound by `from_splitmix!`; the recursive `from_seed` is the parameter
    `rec_from_seed` (the call cycle from_seed -> seed_from_u64 -> from_rng -> from_seed is cut there)."""
    a = tr.expr(args[0])
    n = tr.u.seed_len
    return Val(f"rec_from_seed (SplitMix64.fill {n} {a.atom()}).1", ("named", "Self"))

def prim_self_seed_from_u64(tr, args, want):
    a = tr.expr(args[0], "u64")
    return Val(f"rec_seed_from_u64 {a.atom()}", ("named", "Self"))

XOSHIRO_PRIMS = {
    "Self::seed_from_u64": prim_self_seed_from_u64,
    "next_u64_via_u32": prim_next_u64_via_u32, "impls::next_u64_via_u32": prim_next_u64_via_u32,
    "read_u32_into": prim_read_into(32), "read_u64_into": prim_read_into(64),
    "le::read_u32_into": prim_read_into(32), "le::read_u64_into": prim_read_into(64),
    "crate::SplitMix64::seed_from_u64": prim_splitmix_seed,
    "Self::from_rng": prim_self_from_rng,
    "@bytes_types": ("Seed512", "Self::Seed"),
}

# ------------------------------------------------------------------ state shapes
def shape_of(struct_fields):
    """returns (lean type, {field: (rust type, projection(s))}, shape tag)"""
    fs = [(n, ty_of_tokens(t)) for n, t in struct_fields]
    names = [n for n, _ in fs]
    if names == ["s0", "s1"] and fs[0][1] == fs[1][1] and fs[0][1] in INT:
        w = INT[fs[0][1]]
        return f"S2 {w}", {"s0": (fs[0][1], "s0"), "s1": (fs[1][1], "s1")}, ("S2", w)
    if names == ["s"] and fs[0][1][0] == "arr" and fs[0][1][2] == 4:
        w = INT[fs[0][1][1]]
        return f"S4 {w}", {"s": (fs[0][1], ["s0", "s1", "s2", "s3"])}, ("S4", w)
    if names == ["s"] and fs[0][1] == ("arr", "u64", 8):
        return "S8", {"s": (fs[0][1], [f"s{i}" for i in range(8)])}, ("S8", 64)
    if names == ["x", "y", "z", "w"] and all(t == "u32" for _, t in fs):
        return "S4 32", {"x": ("u32", "s0"), "y": ("u32", "s1"), "z": ("u32", "s2"), "w": ("u32", "s3")}, ("S4", 32)
    if names == ["x"] and fs[0][1] == "u64":
        return "BitVec 64", {"x": ("u64", None)}, ("SM", 64)
    raise Unsupported(f"state shape {names}")

def seed_len_of(impls, consts_file):
    for trait, ty, fns, consts in impls:
        pass
    return None

def find_seed_len(src_text):
    m = re.search(r"type\s+Seed\s*=\s*\[u8;\s*(\d+)\]", src_text)
    if m:
        return int(m.group(1))
    if re.search(r"type\s+Seed\s*=\s*Seed512", src_text):
        return 64
    return None

def translate_fill_bytes(unit, fn):
    """`fn fill_bytes(&mut self, dest: &mut [u8])` whose body is one call of fill_bytes_via_next(self, dest)"""
    stmts, tail = rsfront.parse_body(fn.body, unit.macros)
    e = tail if tail is not None else (stmts[0][1] if len(stmts) == 1 and stmts[0][0] == "expr" else None)
    if (stmts and tail is not None) or e is None or e[0] != "call" or e[1][0] != "path" or \
            e[1][1][-1] != "fill_bytes_via_next" or len(e[2]) != 2 or e[2][0] != ("path", ["self"]) or e[2][1] != ("path", ["dest"]):
        raise Unsupported("fill_bytes is not a single fill_bytes_via_next(self, dest)")
    ns = unit.namespace
    return (f"def fill_bytes (st : {unit.sinfo.lean}) (n : Nat) : List U8 × {unit.sinfo.lean} :=\n"
            f"  fillBytesViaNext ⟨{ns}.next_u32, {ns}.next_u64⟩ n st")

def build_unit(repo, crate, fname, common_macros, prims):
    path = os.path.join(repo, crate, "src", fname + ".rs")
    text = open(path).read()
    f = rsfront.load(path)
    if len(f.structs) != 1:
        raise Unsupported(f"{fname}.rs: expected one struct, found {list(f.structs)}")
    sname = next(iter(f.structs))
    lean, fields, shape = shape_of(f.structs[sname])
    methods = {}
    for trait, ty, fns, consts in f.impls:
        if ty == sname:
            for k, v in fns.items():
                if v.body is not None:
                    methods[k] = v
    consts = {}
    for n, (tt, et) in f.consts.items():
        cty = ty_of_tokens(tt)
        p = rsfront.Parser(et, {})
        e = p.parse_expr_all()
        if e[0] == "lit" and cty in INT:
            consts[n] = (cty, lit_lean(e[1], cty))
    macros = dict(common_macros); macros.update(f.macros)
    u = Unit(sname, StructInfo(sname, lean, fields), methods, consts, macros, prims, f"Rngs.Ext.{sname}")
    u.shape = shape
    u.seed_len = find_seed_len(text)
    u.file = os.path.join(crate, "src", fname + ".rs")
    return u

def emit_unit(u, order, exclude=()):
    """returns (lean text, translated fn names, {fn: reason} for the untranslatable ones)"""
    out, done, skipped = [], [], {}
    out.append(f"namespace {u.namespace.split('Rngs.')[1]}")
    order = [n for n in order if n not in exclude]
    for n in exclude:
        if n in u.methods:
            skipped[n] = exclude[n] if isinstance(exclude, dict) else "excluded"
    for name in order:
        if name not in u.methods:
            continue
        try:
            if name == "fill_bytes" and not hasattr(u, "translate_fn"):
                d = translate_fill_bytes(u, u.methods[name])
            elif name == "from_seed":
                d = translate_fn(u, name)
                if "rec_seed_from_u64" in d:
                    d = d.replace("def from_seed ", "def from_seed (rec_seed_from_u64 : U64 → " + u.sinfo.lean + ") ", 1)
            elif name == "seed_from_u64":
                d = translate_fn(u, name)
                if "rec_from_seed" in d:
                    d = d.replace("def seed_from_u64 ", "def seed_from_u64 (rec_from_seed : List U8 → " + u.sinfo.lean + ") ", 1)
            elif hasattr(u, "translate_fn"):
                d = u.translate_fn(name)
            else:
                d = translate_fn(u, name)
            missing = [m for m in re.findall(re.escape(u.namespace) + r"\.(\w+)", d) if m not in done and m != name]
            if missing:
                skipped[name] = f"depends on {missing[0]}, which is not translated"
                continue
            out.append(d)
            done.append(name)
        except Unsupported as e:
            skipped[name] = str(e)
        except Exception as e:
            skipped[name] = f"translator error: {e!r}"
    out.append(f"end {u.namespace.split('Rngs.')[1]}")
    return "\n".join(out), done, skipped

ORDER = ["next_u32", "next_u64", "fill_bytes", "jump", "long_jump", "from_seed", "seed_from_u64"]

def generate_defs(repo, exclude=None):
    exclude = exclude or {}
    try:
        cm = rsfront.load(os.path.join(repo, "rand_xoshiro/src/common.rs")).macros
    except Exception as e:
        return [], {"rand_xoshiro/src/common.rs": dict(error=repr(e))}, []
    parts, report = [], {}
    units = []
    for fn in XOSHIRO_FILES:
        try:
            u = build_unit(repo, "rand_xoshiro", fn, cm, XOSHIRO_PRIMS)
            order = ORDER if u.sigs.get("next_u32") and "next_u64" in str(rsfront.parse_body(u.methods["next_u32"].body, u.macros)) and \
                "next_u64" in u.methods and "self" in str(u.methods["next_u32"].body) and \
                any(t[1] == "next_u64" for t in u.methods["next_u32"].body) else ORDER
            # definitions must precede their uses: next_u64 first when next_u32 calls it
            if any(t[1] == "next_u64" for t in u.methods["next_u32"].body):
                order = ["next_u64", "next_u32"] + ORDER[2:]
            text, done, skipped = emit_unit(u, order, exclude.get(u.name, {}))
            parts.append(text)
            report[u.name] = dict(file=u.file, translated=done, skipped=skipped, shape=u.shape, seed_len=u.seed_len)
            units.append(u)
        except Exception as e:
            report[fn] = dict(error=repr(e))
    return parts, report, units

# ------------------------------------------------------------------ correspondence theorems
def xo_theorems(u, done):
    """(name, statement, property ids it serves) for one xoshiro-family unit; M = the hand-written model's namespace"""
    G, M, E = u.name, f"Rngs.{u.name}", f"Ext.{u.name}"
    th = []
    if G == "SplitMix64":
        pairs = [("next_u32", f"{E}.next_u32 = SplitMix64.nextU32", ["C01", "C05"]),
                 ("next_u64", f"{E}.next_u64 = SplitMix64.nextU64", ["C01", "C05"]),
                 ("fill_bytes", f"∀ st n, {E}.fill_bytes st n = SplitMix64.fill n st", ["C05"]),
                 ("from_seed", f"{E}.from_seed = SplitMix64.fromSeed", ["C01", "C09"]),
                 ("seed_from_u64", f"{E}.seed_from_u64 = SplitMix64.seedFromU64", ["C09"])]
    else:
        pairs = [("next_u32", f"{E}.next_u32 = {M}.gen.nextU32", ["C01", "C05", "C07"]),
                 ("next_u64", f"{E}.next_u64 = {M}.gen.nextU64", ["C01", "C05", "C07"]),
                 ("fill_bytes", f"∀ st n, {E}.fill_bytes st n = {M}.gen.fill n st", ["C05", "C07"]),
                 ("jump", f"{E}.jump = {M}.jump", ["C06"]),
                 ("long_jump", f"{E}.long_jump = {M}.longJump", ["C06"]),
                 ("from_seed", f"∀ k seed, {E}.from_seed k seed = if isAllZero seed then k 0 else {M}.gen.decode seed", ["C01", "C08"]),
                 ("seed_from_u64", f"∀ k x, {E}.seed_from_u64 k x = k (SplitMix64.fill {M}.gen.seedLen (SplitMix64.seedFromU64 x)).1", ["C08", "C09"])]
    for fn, stmt, props in pairs:
        if fn in done:
            th.append((f"{G}.{fn}", stmt, props, fn))
    return th

def xorshift_theorems(u, done):
    E = "Ext.XorShiftRng"
    pairs = [("next_u32", f"{E}.next_u32 = XorShift.nextU32", ["C04", "C05", "C07"]),
             ("next_u64", f"{E}.next_u64 = XorShift.nextU64", ["C05", "C07"]),
             ("fill_bytes", f"∀ st n, {E}.fill_bytes st n = XorShift.fill n st", ["C05", "C07"]),
             ("from_seed", f"{E}.from_seed = XorShift.fromSeed", ["C04", "C08"])]
    return [(f"XorShiftRng.{fn}", stmt, props, fn) for fn, stmt, props in pairs if fn in done]

PROOFS = {
    "f1": "ext_tie_step", "f2": "ext_tie_step",
    "stir_pool": "ext_tie_stir", "lfsr": "ext_tie_lfsr", "stuck": "ext_tie_step",
    # tactic scripts tried in order (first | …); `rfl` is by far the common case: the translation unfolds to the model
    "next_u32": "ext_tie_step", "next_u64": "ext_tie_step", "fill_bytes": "ext_tie_fill", "jump": "ext_tie_jump",
    "long_jump": "ext_tie_jump", "from_seed": "ext_tie_seed", "seed_from_u64": "ext_tie_seed",
}

HEADER = """/-
  GENERATED by tools/rs2lean.py from the current sources of the repository — do not edit.
  source digest: {digest}
  Part 1: definitions translated from the Rust source (namespace Rngs.Ext).
  Part 2: for each, the theorem that it equals the hand-written model (namespace Rngs.ExtTie).
-/
import Rngs.Lib.ExtTie
import Rngs.Lib.ExtTieJitter
set_option linter.unusedVariables false
set_option maxRecDepth 4096
namespace Rngs
"""

def generate(repo, exclude=None):
    exclude = exclude or {}
    parts, report, units = generate_defs(repo, exclude)
    theorems = []
    for u in units:
        theorems += xo_theorems(u, report[u.name]["translated"])
    # rand_xorshift
    try:
        u = build_unit_xorshift(repo)
        text, done, skipped = emit_unit(u, ["next_u32", "next_u64", "fill_bytes", "from_seed", "from_rng", "try_from_rng"],
                                        exclude.get(u.name, {}))
        parts.append(text)
        report[u.name] = dict(file=u.file, translated=done, skipped=skipped, shape=u.shape, seed_len=u.seed_len)
        theorems += xorshift_theorems(u, done)
    except Exception as e:
        report["XorShiftRng"] = dict(error=repr(e))
    # rand_jitter: the pure mixing core
    try:
        done_by = {}
        for u, order in build_units_jitter(repo):
            if hasattr(u, "ext_done"):
                u.ext_done = {k: set(done_by.get(k, ())) for k in u.ext_done}
            text, done, skipped = emit_unit(u, order, exclude.get(u.name, {}))
            done_by[u.name] = done
            parts.append(text)
            report[u.name] = dict(file=u.file, translated=done, skipped=skipped, shape=u.shape, seed_len=u.seed_len)
            if getattr(u, "notes", None):
                report[u.name]["notes"] = {k: v for k, v in u.notes.items() if k in done}
            theorems += jitter_theorems(u, done)
    except Exception as e:
        report["rand_jitter"] = dict(error=repr(e))
    try:
        for u, order in build_units_hc(repo):
            text, done, skipped = emit_unit(u, order, exclude.get(u.name, {}))
            parts.append(text)
            report[u.name] = dict(file=u.file, translated=done, skipped=skipped, shape=u.shape, seed_len=u.seed_len)
            theorems += hc_theorems(u, done)
    except Exception as e:
        report["rand_hc"] = dict(error=repr(e))
    digest = hashlib.sha256("\n".join(parts).encode()).hexdigest()[:16]
    out = [HEADER.format(digest=digest)] + parts + ["\nnamespace ExtTie"]
    for name, stmt, props, fn in theorems:
        if name in CUSTOM_PROOFS:
            out.append(f"theorem {name} : {stmt} := by\n  {CUSTOM_PROOFS[name]}")
        else:
            out.append(f"theorem {name} : {stmt} := by {PROOFS[fn]} Ext.{name}")
    out.append("end ExtTie\nend Rngs\n")
    return "\n".join(out), report, theorems

def nested_fn(fn, name, macros):
    """a `fn name(..)` item declared inside the body of `fn`"""
    stmts, tail = rsfront.parse_body(fn.body, macros)
    for st in stmts:
        if st[0] == "fn" and st[1].name == name:
            return st[1]
    raise Unsupported(f"nested fn {name} not found")

def build_units_jitter(repo):
    """rand_jitter: the pure mixing core — JitterRng::stir_pool, the LFSR fold `lfsr` (nested in lfsr_time), EcState::stuck"""
    path = os.path.join(repo, "rand_jitter/src/lib.rs")
    f = rsfront.load(path)
    macros = dict(f.macros)
    jm, em = {}, {}
    for trait, ty, fns, consts in f.impls:
        if ty == "JitterRng" and trait is None:
            jm.update({k: v for k, v in fns.items() if v.body is not None})
        if ty == "EcState" and trait is None:
            em.update({k: v for k, v in fns.items() if v.body is not None})
    units = []
    # JitterRng: state = the model's Jitter.Rng (fields data, rounds, memPrevIndex, halfUsed); `stir_pool` (pure) is translated
    # by the plain translator, everything else by the monadic one (rs2lean_tm.py), which emits this unit LAST (it calls the others)
    ju = Unit("JitterRng", StructInfo("JitterRng", "Jitter.Rng", {"data": ("u64", "data")}),
              {k: v for k, v in jm.items() if k in ("stir_pool",)}, {}, macros, {}, "Rngs.Ext.JitterRng")
    ju.shape, ju.seed_len, ju.file = ("Jitter", 64), None, "rand_jitter/src/lib.rs"
    # the nested fn lfsr(data, time) as a unit without state
    if "lfsr_time" in jm:
        try:
            lf = nested_fn(jm["lfsr_time"], "lfsr", macros)
            lu = Unit("JitterLfsr", StructInfo("JitterLfsr", "Unit", {}), {"lfsr": lf}, {}, macros, {}, "Rngs.Ext.JitterLfsr")
            lu.shape, lu.seed_len, lu.file = ("fn", 64), None, "rand_jitter/src/lib.rs"
            units.append((lu, ["lfsr"]))
        except Unsupported:
            pass
    eu = Unit("EcState", StructInfo("EcState", "Jitter.Ec", {"prev_time": ("u64", "prevTime"), "last_delta": ("i32", "lastDelta"),
                                                               "last_delta2": ("i32", "lastDelta2")}),
              {k: v for k, v in em.items() if k == "stuck"}, {}, macros, {}, "Rngs.Ext.EcState")
    eu.shape, eu.seed_len, eu.file = ("Ec", 32), None, "rand_jitter/src/lib.rs"
    units.append((eu, ["stuck"]))
    import rs2lean_tm
    tu = rs2lean_tm.TmUnit(repo)
    tu.name, tu.shape, tu.seed_len, tu.file, tu.plain = "JitterRng", ("Jitter", 64), None, "rand_jitter/src/lib.rs", ju
    tu.methods = {k[1]: v for k, v in tu.jf.methods.items() if k[0] == "JitterRng"}
    units.append((tu, JITTER_ORDER))
    return units

JITTER_ORDER = ["stir_pool", "random_loop_cnt", "lfsr_time", "memaccess", "measure_jitter", "gen_entropy", "test_timer", "timer_stats",
                "set_rounds", "new_with_timer", "clone", "next_u64", "next_u32", "fill_bytes"]

def build_units_hc(repo):
    """rand_hc: the message-schedule functions f1, f2 (nested in Hc128Core::init)"""
    path = os.path.join(repo, "rand_hc/src/hc128.rs")
    f = rsfront.load(path)
    init = None
    for trait, ty, fns, consts in f.impls:
        if ty == "Hc128Core" and "init" in fns:
            init = fns["init"]
    if init is None:
        raise Unsupported("Hc128Core::init not found")
    ms = {}
    for n in ("f1", "f2"):
        try:
            ms[n] = nested_fn(init, n, dict(f.macros))
        except Unsupported:
            pass
    u = Unit("Hc128Fns", StructInfo("Hc128Fns", "Unit", {}), ms, {}, dict(f.macros), {}, "Rngs.Ext.Hc128Fns")
    u.shape, u.seed_len, u.file = ("fn", 32), None, "rand_hc/src/hc128.rs"
    return [(u, ["f1", "f2"])]

def hc_theorems(u, done):
    return [(f"Hc128Fns.{n}", f"Ext.Hc128Fns.{n} = Hc128.{n}", ["C02"], n) for n in ("f1", "f2") if n in done]

# rand_jitter, timer monad: (statement, property ids, proof script).  E = Ext.JitterRng, J = Jitter (the model), T = Jitter.TM (Lib/ExtTieJitter)
_MONAD = "bind_assoc, pure_bind"
JITTER_TM = {
    "random_loop_cnt": ("∀ (st : Jitter.Rng) (n : BitVec 32), n.toNat < 64 → Ext.JitterRng.random_loop_cnt st n = "
                        "(do let r ← Jitter.randomLoopCnt st n.toNat; pure (r, st))", ["C12"],
                        "intro st n h\n  unfold Ext.JitterRng.random_loop_cnt Jitter.randomLoopCnt\n"
                        "  simp only [Nat.mod_eq_of_lt h, bind_assoc, pure_bind, Jitter.TM.rlc_folds n h]\n  rfl"),
    "lfsr_time": ("∀ st time b, Ext.JitterRng.lfsr_time st time b = Jitter.lfsrTime st time b", ["C12"],
                  "intro st time b\n  unfold Ext.JitterRng.lfsr_time Jitter.lfsrTime\n"
                  "  simp only [JitterRng.random_loop_cnt st 4#32 (by decide), JitterLfsr.lfsr, bind_assoc, pure_bind]\n  first | done | (cases b <;> simp)"),
    "memaccess": ("∀ st b, Ext.JitterRng.memaccess st b = Jitter.memaccess st b", ["C12"],
                  "intro st b\n  exact Jitter.TM.memaccess_tie Ext.JitterRng.random_loop_cnt (fun st => JitterRng.random_loop_cnt st 4#32 (by decide)) st b"),
    "measure_jitter": ("∀ st ec, Ext.JitterRng.measure_jitter st ec = "
                       "(do let r ← Jitter.measureJitter st ec; pure (if r.1 then some () else none, r.2.1, r.2.2))", ["C12"],
                       "intro st ec\n  unfold Ext.JitterRng.measure_jitter Jitter.measureJitter\n"
                       "  simp only [JitterRng.memaccess, JitterRng.lfsr_time, EcState.stuck, bind_assoc, pure_bind]\n"
                       "  first | done | (congr 1; funext a; congr 1; funext t; congr 1; funext b; split <;> simp) | (split <;> simp) | simp"),
    "gen_entropy": ("∀ st, Ext.JitterRng.gen_entropy st = Jitter.genEntropy st", ["C12"],
                    "intro st\n  exact Jitter.TM.gen_entropy_tie Ext.JitterRng.measure_jitter JitterRng.measure_jitter "
                    "Ext.JitterRng.stir_pool JitterRng.stir_pool st"),
    "test_timer": ("∀ st, (do let r ← Ext.JitterRng.test_timer st; pure (r.1.map BitVec.toNat, r.2)) = Jitter.testTimer st", ["C12", "C13"],
                   "intro st\n  exact Jitter.TM.test_timer_tie Ext.JitterRng.memaccess JitterRng.memaccess Ext.JitterRng.lfsr_time "
                   "JitterRng.lfsr_time Ext.EcState.stuck EcState.stuck st"),
    "timer_stats": ("∀ st b, Ext.JitterRng.timer_stats st b = Jitter.timerStats st b", ["C12"],
                    "intro st b\n  unfold Ext.JitterRng.timer_stats Jitter.timerStats\n"
                    "  simp only [JitterRng.memaccess, JitterRng.lfsr_time, bind_assoc, pure_bind]\n  first | done | rfl | simp"),
    "set_rounds": ("∀ st (r : BitVec 8), Ext.JitterRng.set_rounds st r = Jitter.setRounds st r.toNat", ["C12"],
                   "intro st r\n  simp only [Ext.JitterRng.set_rounds, Jitter.setRounds, gt_iff_lt, BitVec.lt_def, decide_eq_true_eq, "
                   "BitVec.toNat_ofNat, Nat.zero_mod]\n  rfl"),
    "new_with_timer": ("Ext.JitterRng.new_with_timer = Jitter.newWithTimer", ["C12"], "first | rfl | decide"),
    "clone": ("Ext.JitterRng.clone = Jitter.clone", ["C12", "C05", "C16"], "first | rfl | (funext st; rfl)"),
    "next_u64": ("∀ st, Ext.JitterRng.next_u64 st = Jitter.nextU64 st", ["C12", "C05", "C16"],
                 "intro st\n  unfold Ext.JitterRng.next_u64 Jitter.nextU64\n  simp only [JitterRng.gen_entropy, bind_assoc, pure_bind]\n"
                 "  first | done | rfl | simp"),
    "next_u32": ("∀ st, Ext.JitterRng.next_u32 st = Jitter.nextU32 st", ["C12", "C05", "C16"],
                 "intro st\n  unfold Ext.JitterRng.next_u32 Jitter.nextU32\n  simp only [JitterRng.next_u64, bind_assoc, pure_bind]\n"
                 "  first | done | rfl | (split <;> simp) | simp"),
    "fill_bytes": ("∀ st n, Ext.JitterRng.fill_bytes st n = Jitter.fill n st", ["C12", "C05", "C16"],
                   "intro st n\n  exact Jitter.TM.fill_tie Ext.JitterRng.next_u32 JitterRng.next_u32 Ext.JitterRng.next_u64 JitterRng.next_u64 st n"),
}
CUSTOM_PROOFS = {}

def jitter_theorems(u, done):
    th = []
    if u.name == "JitterRng" and "stir_pool" in done:
        th.append(("JitterRng.stir_pool", "∀ st, Ext.JitterRng.stir_pool st = { st with data := Jitter.stir st.data }", ["C12", "C15"], "stir_pool"))
    if u.name == "JitterRng":
        for fn in done:
            if fn in JITTER_TM:
                stmt, props, proof = JITTER_TM[fn]
                th.append((f"JitterRng.{fn}", stmt, props, fn))
                CUSTOM_PROOFS[f"JitterRng.{fn}"] = proof
                if fn != "fill_bytes":
                    # the partial operations (C14's subject) found in the source are the ones Checked.Jitter accounts for
                    th.append((f"JitterRng.{fn}_partial_ops", f"Ext.JitterRng.{fn}_partial_ops = Jitter.TM.partialOps \"{fn}\"", ["C14"], fn))
                    CUSTOM_PROOFS[f"JitterRng.{fn}_partial_ops"] = "first | rfl | decide"
    if u.name == "JitterLfsr" and "lfsr" in done:
        th.append(("JitterLfsr.lfsr", "Ext.JitterLfsr.lfsr = Jitter.lfsr", ["C12", "C15"], "lfsr"))
    if u.name == "EcState" and "stuck" in done:
        th.append(("EcState.stuck", "Ext.EcState.stuck = Jitter.stuck", ["C12", "C13"], "stuck"))
    return th

def build_unit_xorshift(repo):
    path = os.path.join(repo, "rand_xorshift/src/lib.rs")
    text = open(path).read()
    f = rsfront.load(path)
    sname = "XorShiftRng"
    lean, fields, shape = shape_of(f.structs[sname])
    methods = {}
    for trait, ty, fns, consts in f.impls:
        if ty == sname and trait != "fmt::Debug":
            for k, v in fns.items():
                if v.body is not None:
                    methods[k] = v
    prims = dict(XOSHIRO_PRIMS)
    u = Unit(sname, StructInfo(sname, lean, fields), methods, {}, dict(f.macros), prims, f"Rngs.Ext.{sname}")
    u.shape, u.seed_len, u.file = shape, find_seed_len(text), "rand_xorshift/src/lib.rs"
    return u

if __name__ == "__main__":
    import sys
    text, report, theorems = generate(sys.argv[1] if len(sys.argv) > 1 else "/repo")
    sys.stdout.write(text)
    sys.stderr.write(json.dumps(report, indent=1, default=str) + "\n")
