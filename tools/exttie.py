#!/usr/bin/env python3
"""exttie.py — the *proved* tie: regenerate Lean definitions from /repo's current sources (rs2lean.py), check in Lean
that each equals the hand-written model, cache the verdict by content.

    result = exttie.run(repo)   ->  dict(theorems={name: dict(ok, props, fn, error)}, report=…, key=…, seconds=…)

The generated file is checked with `lake env lean` (it imports the built `Rngs` library; it is not a module of the
package, so concurrent runs against different source trees do not disturb each other).  Verdicts are cached under
lean/.lake/exttie/<key>.json where key = hash(generated text, model + tactic sources)."""
import hashlib, json, os, re, subprocess, sys, time, fcntl
sys.path.insert(0, os.path.dirname(os.path.abspath(__file__)))
import extract_units

VERIF = os.path.dirname(os.path.dirname(os.path.abspath(__file__)))
LEAN = os.path.join(VERIF, "lean")
CACHE = os.path.join(LEAN, ".lake", "exttie")
DEPS = ["Rngs/Model/Words.lean", "Rngs/Model/RandCore.lean", "Rngs/Model/Xoshiro.lean", "Rngs/Model/XorShift.lean", "Rngs/Model/Jitter.lean", "Rngs/Model/Hc128.lean",
        "Rngs/Model/Isaac.lean", "Rngs/Lib/XorLinear.lean", "Rngs/Lib/ExtTie.lean", "Rngs/Lib/ExtTieBlock.lean", "Rngs/Lib/ExtTieShapes.lean",
        "Rngs/Lib/ExtTieJitter.lean", "Rngs/Lib/ExtTieRc.lean"]
ALLOWED_AXIOMS = {"propext", "Classical.choice", "Quot.sound"}

def dep_hash():
    h = hashlib.sha256()
    for d in DEPS:
        p = os.path.join(LEAN, d)
        if os.path.exists(p):
            h.update(open(p, "rb").read())
    return h.hexdigest()

def run(repo, force=False):
    """definitions that do not elaborate are dropped (with their dependents) and the rest is checked again"""
    exclude = {}
    for _ in range(4):
        res = run_once(repo, force, exclude)
        if not res.get("def_errors"):
            break
        added = False
        for unit, fn, msg in res["def_errors_at"]:
            if fn not in exclude.setdefault(unit, {}):
                exclude[unit][fn] = "translation does not elaborate: " + msg[:200]
                added = True
        if not added:
            break
    return res

def run_once(repo, force, exclude):
    t0 = time.time()
    text, report, theorems = extract_units.generate(repo, exclude)
    names = [t[0] for t in theorems]
    text += "\n" + "\n".join(f"#print axioms Rngs.ExtTie.{n}" for n in names) + "\n"
    skipped = json.dumps({u: r.get("skipped") or r.get("error") for u, r in report.items()}, sort_keys=True, default=str)
    key = hashlib.sha256((text + dep_hash() + skipped + "v3").encode()).hexdigest()[:24]
    os.makedirs(CACHE, exist_ok=True)
    cpath = os.path.join(CACHE, key + ".json")
    lock = open(os.path.join(CACHE, ".lock"), "w")
    fcntl.flock(lock, fcntl.LOCK_EX)
    try:
        if os.path.exists(cpath) and not force:
            res = json.load(open(cpath))
            res["cached"] = True
            for name, stmt, props, fn in theorems:          # which properties a theorem serves is not part of the key
                if name in res["theorems"]:
                    res["theorems"][name]["props"] = props
            res["report"] = json.loads(json.dumps(report, default=str))     # verdicts are cached by text; the reasons are this run's
            res["seconds"] = round(time.time() - t0, 2)
            return res
        src = os.path.join(CACHE, f"Gen_{key}.lean")
        open(src, "w").write(text)
        # the library must be built (Rngs.Lib.ExtTie and what it imports)
        b = subprocess.run(["lake", "build", "Rngs.Lib.ExtTie", "Rngs.Lib.ExtTieJitter"], cwd=LEAN, capture_output=True, text=True, stdin=subprocess.DEVNULL)
        p = subprocess.run(["lake", "env", "lean", src], cwd=LEAN, capture_output=True, text=True, stdin=subprocess.DEVNULL,
                           timeout=3600)
        out = p.stdout + p.stderr
        lines = text.split("\n")
        # line ranges of the theorems and of the definitions
        th_line, cur_th = {}, None
        for i, l in enumerate(lines, 1):
            m = re.match(r"^theorem (\S+) :", l)
            if m:
                cur_th = m.group(1)
            elif cur_th and not l.startswith(" "):
                cur_th = None           # a proof script continues on indented lines only
            if cur_th:
                th_line[i] = cur_th
        # which definition a line belongs to
        def_at, cur_ns = {}, None
        for i, l in enumerate(lines, 1):
            m = re.match(r"^namespace Ext\.(\w+)", l)
            if m:
                cur_ns = m.group(1)
            m = re.match(r"^def (\w+)", l)
            if m and cur_ns:
                cur_def = (cur_ns, m.group(1))
            if l.startswith("end Ext."):
                cur_ns = None
            if cur_ns and re.match(r"^(def |  )", l):
                def_at[i] = cur_def if 'cur_def' in dir() else None
        errors = {}
        def_errors = []
        def_errors_at = []
        for m in re.finditer(r"^[^\n:]*:(\d+):(\d+): error: (.*?)(?=^\S[^\n]*:\d+:\d+: (?:error|warning)|\Z)", out, re.S | re.M):
            ln, msg = int(m.group(1)), m.group(3).strip()
            if th_line and ln >= min(th_line):
                # a proof may span several lines: the error belongs to the last theorem that starts at or before it
                errors.setdefault(th_line[max(k for k in th_line if k <= ln)], msg[:600])
            else:
                def_errors.append((ln, msg[:300]))
                if def_at.get(ln):
                    def_errors_at.append((def_at[ln][0], def_at[ln][1], msg))
        axioms = {}
        for m in re.finditer(r"'Rngs\.ExtTie\.([^']+)' (depends on axioms: \[([^\]]*)\]|does not depend on any axioms)", out):
            axioms[m.group(1)] = [a.strip() for a in (m.group(3) or "").split(",") if a.strip()]
        forbidden = [t for t in ("sorry", "admit", "native_decide", "bv_decide", "implemented_by", "unsafe ") if t in
                     re.sub(r"/-.*?-/", "", text, flags=re.S)]
        res_th = {}
        for name, stmt, props, fn in theorems:
            ax = axioms.get(name)
            ok = name not in errors and ax is not None and set(ax) <= ALLOWED_AXIOMS and not def_errors and not forbidden
            err = errors.get(name)
            if not ok and err is None:
                err = ("definitions do not elaborate: " + str(def_errors[:2])) if def_errors else \
                      (f"axioms {ax}" if ax is not None else "no #print axioms output (file did not elaborate to the end)")
            res_th[name] = dict(ok=ok, props=props, fn=fn, statement=stmt, axioms=ax, error=err)
        # cascades: a theorem whose own script went through but which rests on a theorem that failed (`sorryAx` among its axioms,
        # or the failed theorem does not exist and its user could not be elaborated) is not a finding of its own: it is marked
        # `depends_on_broken: [root causes]`, found through the theorem names its proof script mentions
        proof_text = {}
        for i, l in enumerate(lines, 1):
            if i in th_line:
                proof_text[th_line[i]] = proof_text.get(th_line[i], "") + "\n" + l.split(":= by", 1)[-1]
        names_all = sorted(res_th, key=len, reverse=True)
        uses = {n: {m for m in names_all if m != n and re.search(r"(?<![\w.])(?:ExtTie\.)?" + re.escape(m) + r"(?![\w])", proof_text.get(n, ""))}
                for n in res_th}
        memo = {}
        def roots(n, stack=()):
            if n in memo:
                return memo[n]
            out = set()
            for m in uses.get(n, ()):
                if m in stack or res_th[m]["ok"]:
                    continue
                out |= roots(m, stack + (n,)) if is_dependent(m) else {m}
            memo[n] = out
            return out
        def is_dependent(n):
            v = res_th[n]
            e = v["error"] or ""
            return (not v["ok"]) and (e.startswith("axioms ") or "unknown constant" in e or "Unknown constant" in e or "unknown identifier" in e.lower())
        for n, v in res_th.items():
            if is_dependent(n):
                r = roots(n)
                if r:
                    v["depends_on_broken"] = sorted(r)
        res = dict(key=key, theorems=res_th, report=report, def_errors=def_errors, def_errors_at=def_errors_at, forbidden=forbidden,
                   lean_rc=p.returncode, build_rc=b.returncode, cached=False, file=src,
                   lean_seconds=round(time.time() - t0, 1))
        json.dump(res, open(cpath, "w"), indent=1, default=str)
        res["seconds"] = round(time.time() - t0, 2)
        return res
    finally:
        fcntl.flock(lock, fcntl.LOCK_UN)
        lock.close()

if __name__ == "__main__":
    repo = sys.argv[1] if len(sys.argv) > 1 and not sys.argv[1].startswith("-") else os.environ.get("VERIF_REPO", "/repo")
    r = run(repo, force="--force" in sys.argv)
    bad = {k: v["error"] for k, v in r["theorems"].items() if not v["ok"]}
    sk = {u: v.get("skipped") or v.get("error") for u, v in r["report"].items() if v.get("skipped") or v.get("error")}
    print(f"exttie: {len(r['theorems']) - len(bad)}/{len(r['theorems'])} correspondence theorems hold "
          f"(key {r['key']}, {'cached' if r['cached'] else 'checked'} in {r['seconds']}s); untranslated: {json.dumps(sk)[:600]}")
    for u, v in r["report"].items():
        for fn, msg in ((v.get("unmodelled") or {}) if isinstance(v, dict) else {}).items():
            print(f"  UNMODELLED {u}.{fn} :: {msg}")
    dep = {k: r["theorems"][k].get("depends_on_broken") for k in bad if r["theorems"][k].get("depends_on_broken")}
    for k, v in [(k, v) for k, v in bad.items() if k not in dep][:8]:
        print("  BROKEN", k, "::", (v or "")[:300].replace("\n", " "))
    for k, v in list(dep.items())[:12]:
        print("  (depends on a broken theorem)", k, "<-", ", ".join(v))
    unmod = any(isinstance(v, dict) and v.get("unmodelled") for v in r["report"].values())
    sys.exit(1 if bad or unmod else 0)
