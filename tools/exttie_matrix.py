#!/usr/bin/env python3
"""exttie_matrix.py seeded|refactors [ids…] — (maintainer tool) apply each patch of seeded/ or refactors/ that touches rand_hc /
rand_isaac to a scratch worktree of /repo, run the translator tie there (exttie.py) and tabulate which correspondence theorems
break / which functions leave the fragment.  Result: seeded/EXTTIE_MATRIX_<kind>.json (tables of DESIGN.md §3b, Extension)."""
import json, os, subprocess, sys, glob, re
V = os.path.dirname(os.path.dirname(os.path.abspath(__file__)))
sys.path.insert(0, os.path.join(V, "tools"))
import exttie
kind = sys.argv[1]   # seeded | refactors
ids = sys.argv[2:]
base = json.load(open(os.path.join(V, "pinned_src", "EXPECTED.json")))["theorems"]
out = {}
pats = sorted(glob.glob(os.path.join(V, kind, "*", "patch.diff")))
for p in pats:
    pid = os.path.basename(os.path.dirname(p))
    if ids and pid not in ids:
        continue
    txt = open(p).read()
    if "rand_hc" not in txt and "rand_isaac" not in txt:
        continue
    wt = f"/tmp/exttie_matrix_{pid}"
    subprocess.run(["git", "-C", "/repo", "worktree", "remove", "--force", wt], capture_output=True)
    subprocess.run(["git", "-C", "/repo", "worktree", "add", "--detach", wt, "HEAD"], capture_output=True, check=True)
    try:
        a = subprocess.run(["git", "-C", wt, "apply", p], capture_output=True, text=True)
        if a.returncode != 0:
            out[pid] = dict(error="patch does not apply: " + a.stderr[:200]); continue
        r = exttie.run(wt)
        broken = sorted(k for k, v in r["theorems"].items() if not v["ok"])
        missing = sorted(k for k in base if k not in r["theorems"])
        files = sorted(set(re.findall(r"^\+\+\+ b/(\S+)", txt, re.M)))
        funcs = sorted(set(re.findall(r"^@@.*@@.*?fn (\w+)", txt, re.M)))
        why = {}
        for u, v in r["report"].items():
            for f, reason in (v.get("skipped") or {}).items():
                if f"{u}.{f}" in missing:
                    why[f"{u}.{f}"] = reason
        out[pid] = dict(files=files, broken=broken, left_fragment=missing, why=why, seconds=r.get("lean_seconds") or r.get("seconds"),
                        errors={k: (r["theorems"][k]["error"] or "")[:160] for k in broken})
    finally:
        subprocess.run(["git", "-C", "/repo", "worktree", "remove", "--force", wt], capture_output=True)
    print(pid, json.dumps(out[pid])[:700], flush=True)
json.dump(out, open(os.path.join(V, "seeded", f"EXTTIE_MATRIX_{kind}.json"), "w"), indent=1)
