#!/usr/bin/env python3
"""One-time search (numpy) for HC-128 seeds on which the small-constant addition `… + i` of the key/IV
expansion carries out of 32 bits — inputs that distinguish wrapping from saturating/checked addition at
each position.  Output: corpus/hc128_carry_seeds.json.  Not run by any check."""
import json, sys, numpy as np
def rotr(x, k): return (x >> np.uint32(k)) | (x << np.uint32(32 - k))
def f1(x): return rotr(x, 7) ^ rotr(x, 18) ^ (x >> np.uint32(3))
def f2(x): return rotr(x, 17) ^ rotr(x, 19) ^ (x >> np.uint32(10))
def main(total=24_000_000, chunk=1_000_000, seed=12345):
    rng = np.random.default_rng(seed)
    found = {}          # position -> list of seeds (hex)
    for c in range(total // chunk):
        S = rng.integers(0, 2**32, size=(chunk, 8), dtype=np.uint32)
        W = [None] * 1280
        for i in range(4):
            W[i] = S[:, i]; W[4 + i] = S[:, i]; W[8 + i] = S[:, 4 + i]; W[12 + i] = S[:, 4 + i]
        for i in range(16, 1280):
            part = f2(W[i - 2]) + W[i - 7] + f1(W[i - 15]) + W[i - 16]
            wi = part + np.uint32(i)
            hit = np.nonzero(wi < part)[0]           # the `+ i` wrapped
            for h in hit[:3]:
                if len(found.setdefault(i, [])) < 2:
                    found[i].append(S[h].astype("<u4").tobytes().hex())
            W[i] = wi
            if i >= 32:
                W[i - 17] = None
        cov = sum(1 for i in range(256, 272) if i in found)
        print(f"chunk {c}: positions covered {len(found)}, of 256..271: {cov}", file=sys.stderr, flush=True)
        if cov == 16 and len(found) > 900:
            break
    json.dump({str(k): v for k, v in sorted(found.items())}, open(sys.argv[1], "w"), indent=0)
main()
