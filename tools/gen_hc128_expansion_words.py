#!/opt/veriftools/pyvenv/bin/python
"""One-time generator (z3) of corpus/hc128_expansion_words.json: HC-128 seeds for which a chosen word of the key/IV expansion is
exactly 0 / 1 / all-ones — W[i] of the first loop (i = 16 … 271) and t[i] of the second loop (i = 16 …).  Never run by a check; the
checks only read the corpus (every entry is re-verified there by the real code vs the model like any other seed)."""
import json, os, sys, time
import z3
M = 0xffffffff
def rotr(x, r): return z3.RotateRight(x, r)
def f1(x): return rotr(x, 7) ^ rotr(x, 18) ^ z3.LShR(x, 3)
def f2(x): return rotr(x, 17) ^ rotr(x, 19) ^ z3.LShR(x, 10)
def expansion(words):
    k, iv = words[:4], words[4:]
    W = k + k + iv + iv
    for i in range(16, 272):
        W.append(f2(W[i - 2]) + W[i - 7] + f1(W[i - 15]) + W[i - 16] + z3.BitVecVal(i, 32))
    T = W[256:272] + [None] * 1008
    for i in range(16, 1024):
        T[i] = f2(T[i - 2]) + T[i - 7] + f1(T[i - 15]) + T[i - 16] + z3.BitVecVal(256 + i, 32)
    return W, T
def main():
    words = [z3.BitVec(f"s{i}", 32) for i in range(8)]
    W, T = expansion(words)
    out, t0 = [], time.time()
    p = os.path.join(os.path.dirname(os.path.dirname(os.path.abspath(__file__))), "corpus", "hc128_expansion_words.json")
    jobs = [("first", i, W[i]) for i in range(16, 44)] + [("second", i, T[i]) for i in range(16, 20)]
    for stage, i, term in jobs:
        for tag, target in (("0", 0), ("1", 1), ("ones", M)):
            s = z3.SolverFor("QF_BV"); s.set("timeout", 12000)
            s.add(term == target)
            # spread the solutions: pin two seed words to fixed pseudo-random values to keep the query small
            r = s.check()
            if r == z3.sat:
                m = s.model()
                ws = [m.eval(w, model_completion=True).as_long() for w in words]
                out.append(dict(stage=stage, index=i, value=tag, seed=b"".join(w.to_bytes(4, "little") for w in ws).hex()))
            print(stage, i, tag, r, round(time.time() - t0, 1), flush=True)
            json.dump(out, open(p, "w"), indent=0)
    print(len(out), "entries")
main()
