#!/usr/bin/env python3
"""One-time search (numpy) for HC-128 seeds on which adding the small constant of the key/IV expansion (`i`, `256 + i`)
to ONE operand or to a partial sum of W[j] = f2(W[j-2]) + W[j-7] + f1(W[j-15]) + W[j-16] + j overflows 32 bits — inputs
that expose an unchecked `+` wherever a rewrite of the expression puts the constant.  For each (kind of partial sum, loop)
a few seeds are kept.  Output: corpus/hc128_subsum_seeds.json.  Not run by any check."""
import json, sys, numpy as np
def rotr(x, k): return (x >> np.uint32(k)) | (x << np.uint32(32 - k))
def f1(x): return rotr(x, 7) ^ rotr(x, 18) ^ (x >> np.uint32(3))
def f2(x): return rotr(x, 17) ^ rotr(x, 19) ^ (x >> np.uint32(10))
def main(total=4_000_000, chunk=500_000, seed=777):
    rng = np.random.default_rng(seed)
    found = {}
    for c in range(total // chunk):
        S = rng.integers(0, 2**32, size=(chunk, 8), dtype=np.uint32)
        W = [None] * 1280
        for i in range(4):
            W[i] = S[:, i]; W[4 + i] = S[:, i]; W[8 + i] = S[:, 4 + i]; W[12 + i] = S[:, 4 + i]
        for j in range(16, 1280):
            A, B, C, D = f2(W[j - 2]), W[j - 7], f1(W[j - 15]), W[j - 16]
            kinds = {"A": A, "B": B, "C": C, "D": D, "A+B": A + B, "A+B+C": A + B + C, "C+D": C + D, "B+C+D": B + C + D,
                     "A+D": A + D, "B+D": B + D, "total": A + B + C + D}
            loop = "loop1" if j < 272 else "loop2"
            cj = np.uint32(j)
            for name, X in kinds.items():
                key = f"{name}:{loop}"
                lst = found.setdefault(key, [])
                if len(lst) >= 8:
                    continue
                hit = np.nonzero((X + cj) < X)[0]
                for h in hit[:2]:
                    if len(lst) < 8 and all(e["pos"] != j for e in lst):
                        lst.append(dict(pos=j, seed=S[h].astype("<u4").tobytes().hex()))
            W[j] = A + B + C + D + cj
            if j >= 32:
                W[j - 17] = None
        print(f"chunk {c}: " + " ".join(f"{k}={len(v)}" for k, v in sorted(found.items())), file=sys.stderr, flush=True)
        if all(len(v) >= 6 for v in found.values()) and len(found) == 22:
            break
    json.dump(found, open(sys.argv[1], "w"), indent=0, sort_keys=True)
main()
