#!/usr/bin/env python3
"""One-time search (numpy) for 32-byte IsaacRng seeds whose state right after initialisation (randinit(TRUE), two passes)
contains a numeric coincidence: two equal neighbouring words, a zero word, an all-ones word — inputs on which a guard keyed
on such a coincidence ("weak state hardening", early exits) fires.  Each event has probability ~2^-24 per seed.
Output: corpus/isaac_state_coincidence.json.  Not run by any check."""
import json, sys, time, numpy as np
U = np.uint32
def mix(v):
    a, b, c, d, e, f, g, h = v
    a = a ^ (b << U(11)); d = d + a; b = b + c
    b = b ^ (c >> U(2));  e = e + b; c = c + d
    c = c ^ (d << U(8));  f = f + c; d = d + e
    d = d ^ (e >> U(16)); g = g + d; e = e + f
    e = e ^ (f << U(10)); h = h + e; f = f + g
    f = f ^ (g >> U(4));  a = a + f; g = g + h
    g = g ^ (h << U(8));  b = b + g; h = h + a
    h = h ^ (a >> U(9));  c = c + h; a = a + b
    return [a, b, c, d, e, f, g, h]
GOLD = [0x1367df5a, 0x95d90059, 0xc3163e4b, 0x0f421ad8, 0xd92a4a78, 0xa51a3c49, 0xc4efea1b, 0x30609119]
def init(S):
    n = S.shape[0]
    mem = [S[:, i] for i in range(8)] + [np.zeros(n, dtype=U) for _ in range(248)]
    v = [np.full(n, x, dtype=U) for x in GOLD]
    for _ in range(2):
        for i in range(0, 256, 8):
            v = [v[k] + mem[i + k] for k in range(8)]
            v = mix(v)
            for k in range(8):
                mem[i + k] = v[k]
    return mem
def main(budget_s=int(sys.argv[3]) if len(sys.argv) > 3 else 420, chunk=400_000, seed=int(sys.argv[2]) if len(sys.argv) > 2 else 4242):
    rng = np.random.default_rng(seed)
    found = {"adjacent-equal": [], "zero-word": [], "ones-word": [], "equal-at-128": []}
    t0 = time.time(); tried = 0
    while time.time() - t0 < budget_s and not all(len(v) >= 3 for v in found.values()):
        S = rng.integers(0, 2**32, size=(chunk, 8), dtype=U)
        if tried % (4 * chunk) == 0:
            S[:, 1:] = 0            # some sparse seeds too (one word only)
        mem = init(S)
        M = np.stack(mem, axis=1)
        ev = {"adjacent-equal": (M[:, 1:] == M[:, :-1]), "zero-word": (M == 0), "ones-word": (M == 0xFFFFFFFF),
              "equal-at-128": (M[:, :128] == M[:, 128:])}
        for k, mask in ev.items():
            rows = np.nonzero(mask.any(axis=1))[0]
            for r in rows[:3]:
                if len(found[k]) < 6:
                    found[k].append(dict(seed=S[r].astype("<u4").tobytes().hex(), index=int(np.nonzero(mask[r])[0][0])))
        tried += chunk
        print(f"{tried} seeds, {time.time()-t0:.0f}s: " + " ".join(f"{k}={len(v)}" for k, v in found.items()), file=sys.stderr, flush=True)
    json.dump(found, open(sys.argv[1], "w"), indent=0, sort_keys=True)
main()
