"""GF(2)[x] helpers on Python ints (bit i = coefficient of x^i): used by the falsifiers of
C06/C07/C15 to analyse the *real* code as a black box (Berlekamp–Massey, x^e mod P,
primitivity, kernel vectors).  Not part of any proof."""

F64 = [3, 5, 17, 257, 641, 65537, 6700417]
F128 = F64 + [274177, 67280421310721]
F256 = F128 + [59649589127497217, 5704689200685129054721]
F512 = F256 + [1238926361552897, 93461639715357977769163558199606896584051237541638188580280321]
FACTORS = {64: F64, 128: F128, 256: F256, 512: F512}

def _check_factors():
    for n, fs in FACTORS.items():
        p = 1
        for f in fs:
            p *= f
        assert p == (1 << n) - 1, n
_check_factors()

def deg(a):
    return a.bit_length() - 1

def polymod(a, P):
    dp = deg(P)
    while a.bit_length() - 1 >= dp and a:
        a ^= P << (a.bit_length() - 1 - dp)
    return a

def polysq(a):
    if a == 0:
        return 0
    return int("0".join(bin(a)[2:]), 2)

def polymul(a, b):
    r = 0
    while b:
        if b & 1:
            r ^= a
        a <<= 1
        b >>= 1
    return r

def powx(e, P):
    """x^e mod P"""
    r = 1
    for bit in bin(e)[2:]:
        r = polymod(polysq(r), P)
        if bit == "1":
            r = polymod(r << 1, P)
    return r

def berlekamp_massey(bits):
    """minimal connection polynomial C (C[0]=1) of the bit sequence; returns (C as int, L).
    s[i] = sum_{j=1..L} C[j] s[i-j]."""
    n = len(bits)
    C, B = 1, 1
    L, m = 0, 1
    for i in range(n):
        d = bits[i]
        c = C >> 1
        j = 1
        # discrepancy
        t = C
        acc = 0
        for j in range(1, L + 1):
            if (C >> j) & 1:
                acc ^= bits[i - j]
        d ^= acc
        if d == 0:
            m += 1
        elif 2 * L <= i:
            T = C
            C ^= B << m
            L = i + 1 - L
            B = T
            m = 1
        else:
            C ^= B << m
            m += 1
    return C, L

def min_poly_from_bits(bits):
    """characteristic (minimal) polynomial P(x) of the linear recurrence generating bits,
    as int with bit i = coeff of x^i, degree L (reciprocal of the connection polynomial)."""
    C, L = berlekamp_massey(bits)
    P = 0
    for j in range(L + 1):
        if (C >> j) & 1:
            P |= 1 << (L - j)
    return P, L

def is_primitive(P, n):
    """(ok, reason): P of degree n is primitive over GF(2) (n in FACTORS)"""
    if deg(P) != n:
        return False, f"degree {deg(P)} != {n}"
    if not (P & 1):
        return False, "x divides P (singular transition)"
    full = (1 << n) - 1
    if powx(full, P) != 1:
        return False, "x^(2^n-1) != 1 mod P"
    for p in FACTORS[n]:
        if powx(full // p, P) == 1:
            return False, f"x^((2^n-1)/{p}) == 1 mod P: period divides (2^n-1)/{p}"
    return True, "primitive"

def small_factors(P, maxdeg=22):
    """distinct-degree factorisation up to maxdeg: list of (d, product of irreducible factors of degree d)"""
    out = []
    f = P
    h = 2  # x
    for d in range(1, maxdeg + 1):
        if deg(f) < 2 * d and deg(f) < d:
            break
        h = polymod(polysq(h), f)      # x^(2^d) mod f
        g = polygcd(h ^ 2, f)
        if g != 1:
            out.append((d, g))
            f = polydiv(f, g)
            h = polymod(h, f) if deg(f) > 0 else 0
        if deg(f) <= 0:
            break
    return out

def polygcd(a, b):
    while b:
        a, b = b, polymod(a, b)
    return a

def polydiv(a, b):
    q = 0
    db = deg(b)
    while a and deg(a) >= db:
        s = deg(a) - db
        q |= 1 << s
        a ^= b << s
    return q

def rank_and_kernel(cols, n):
    """cols[j] = image of basis vector e_j (ints, n bits). Returns (rank, kernel vector or None):
    a non-zero v with M v = 0."""
    basis = {}   # pivot bit -> (vector, combination)
    for j, c in enumerate(cols):
        v, comb = c, 1 << j
        while v:
            p = v.bit_length() - 1
            if p in basis:
                bv, bc = basis[p]
                v ^= bv
                comb ^= bc
            else:
                basis[p] = (v, comb)
                break
        if v == 0:
            return len(basis), comb
    return len(basis), None

def apply_cols(cols, v):
    r = 0
    j = 0
    while v:
        if v & 1:
            r ^= cols[j]
        v >>= 1
        j += 1
    return r


def polyinv(a, P):
    """inverse of a modulo P (extended Euclid over GF(2)); None if not invertible"""
    r0, r1 = P, polymod(a, P)
    t0, t1 = 0, 1
    while r1:
        q = polydiv(r0, r1)
        r0, r1 = r1, r0 ^ polymul(q, r1)
        t0, t1 = t1, t0 ^ polymul(q, t1)
    if r0 != 1:
        return None
    return polymod(t0, P)
