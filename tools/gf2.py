# GF(2) polynomial helpers (filled in below)
