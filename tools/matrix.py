#!/usr/bin/env python3
"""matrix.py [ids…] — for every seeded change under /verif/seeded: scratch worktree of /repo, apply the patch,
run all 19 quick checks against it (VERIF_REPO), record which checks report what.  Writes seeded/MATRIX.json."""
import json, os, re, subprocess, sys, shutil
from concurrent.futures import ThreadPoolExecutor
V = os.path.dirname(os.path.dirname(os.path.abspath(__file__)))
PIDS = os.environ.get("MATRIX_PIDS", "").split() or [f"C{i:02d}" for i in range(1, 20)]

def sh(cmd, cwd=None, env=None):
    e = dict(os.environ); e.update(env or {})
    p = subprocess.run(cmd, cwd=cwd, env=e, capture_output=True, text=True, stdin=subprocess.DEVNULL)
    return p.returncode, p.stdout + p.stderr

import threading
GITLOCK = threading.Lock()

def one(sid):
    wt = f"/tmp/mx{os.getpid()}_{sid}"          # unique per matrix process: two runs must not share scratch worktrees
    out = f"/tmp/mx{os.getpid()}_{sid}_out"
    shutil.rmtree(out, ignore_errors=True)
    os.makedirs(out, exist_ok=True)
    res = {}
    with GITLOCK:
        sh(["git", "-C", "/repo", "worktree", "remove", "--force", wt])
        rc, log = sh(["git", "-C", "/repo", "worktree", "add", "-q", "--detach", wt, "HEAD"])
    if rc != 0 or not os.path.isdir(wt):
        return sid, {"error": "worktree add failed: " + log[-300:]}
    try:
        if sid != "BASE":
            pd = os.path.join(V, "seeded", sid, "patch.diff")
            if not os.path.exists(pd):
                pd = os.path.join(V, "refactors", sid, "patch.diff")
            rc, log = sh(["git", "apply", pd], cwd=wt)
            if rc != 0:
                return sid, {"error": "patch does not apply: " + log[-300:]}
        for pid in ([sid.split("_")[0]] if os.environ.get("MATRIX_OWN") and re.match(r"^C\d\d_", sid) else PIDS):
            rc, log = sh(["python3", os.path.join(V, "tools/check.py"), pid, "--tier", "quick"], cwd=V,
                         env={"VERIF_REPO": wt, "VERIF_OUT": out})
            v = [l for l in log.splitlines() if l.startswith("VIOLATION")]
            summ = [l for l in log.splitlines() if re.match(r"^C\d\d quick", l)]
            kind = "ok"
            if v:
                kind = "no-failing-input-found" if v[0].endswith("no-failing-input-found") else "failing-input"
            res[pid] = dict(rc=rc, kind=kind, summary=(summ[-1] if summ else log[-200:]))
            if v and kind != "failing-input":
                try:
                    rp = json.load(open(v[0].split("replay=")[1].split()[0]))
                    res[pid]["why"] = dict(broken=rp.get("broken_obligations"), family=rp.get("disagreeing_family"),
                                           cmd=(rp.get("script") or ["?"])[rp.get("line") or 0][:80] if rp.get("script") else None,
                                           impl=str(rp.get("impl"))[:60], model=str(rp.get("model"))[:60], notes=str(rp.get("notes"))[:300])
                except Exception as e:
                    res[pid]["why"] = repr(e)
    finally:
        with GITLOCK:
            sh(["git", "-C", "/repo", "worktree", "remove", "--force", wt])
        shutil.rmtree(out, ignore_errors=True)
    return sid, res

def main():
    ids = sys.argv[1:] or (["BASE"] + sorted(d for d in os.listdir(os.path.join(V, "seeded")) if os.path.isdir(os.path.join(V, "seeded", d))))
    path = os.path.join(V, "seeded", "MATRIX.json") if not (os.environ.get("MATRIX_PIDS") or os.environ.get("MATRIX_OWN")) else "/tmp/MATRIX_partial.json"
    M = json.load(open(path)) if os.path.exists(path) else {}
    with ThreadPoolExecutor(max_workers=int(os.environ.get("MATRIX_WORKERS", "5"))) as ex:
        for sid, res in ex.map(one, ids):
            M[sid] = res
            flagged = {p: r["kind"] for p, r in res.items() if isinstance(r, dict) and r.get("kind") != "ok"} if "error" not in res else res
            print(sid, flagged, flush=True)
            json.dump(M, open(path, "w"), indent=1, sort_keys=True)
main()
