#!/usr/bin/env python3
"""regenerates MANIFEST.json from the table below (kept in one place so it stays valid)"""
import json, os, re
V = os.path.dirname(os.path.dirname(os.path.abspath(__file__)))
NOTE = ("Lean 4.33 kernel; axioms ⊆ {propext, Classical.choice, Quot.sound} checked by #print axioms on every run; no sorry/"
        "native_decide/bv_decide; the model is hand-written and tied to /repo's current tree by the correspondence check "
        "(differential execution, sampled); rand_core 0.9.5, serde/bincode, core::fmt modelled not verified")
T = {
 "C01": ("theorems: every model step of the 15 generators equals the Blackman–Vigna reference step for every state; tie: absolute, all basis seeds + structured + random seeds, outputs and state images", "Lean proof (model = reference, all states) + model/code correspondence"),
 "C02": ("tie: absolute keystream comparison of the real Hc128Rng with the model on single-byte, random and extreme seeds, 4 table cycles; theorems relate the model to Wu's specification", "Lean proof + model/code correspondence"),
 "C03": ("tie: absolute stream comparison of IsaacRng/Isaac64Rng with the model; theorems relate the model to Jenkins' reference", "Lean proof + model/code correspondence"),
 "C04": ("theorems: for every state the model's next_u32 returns the xor128 word and successor state, lifted to every stream position by induction; non-zero seeds used verbatim; tie: all 128 basis states, structured and random seeds", "Lean proof (model = Marsaglia xor128 over ℕ) + model/code correspondence"),
 "C05": ("theorems: for every history the model's outputs are the documented projections of its own native stream (refinement to the abstract cursor machine Spec.Stream); tie: self-relative — the executable Lean spec projects the real native stream of a twin and is compared with the real generator under random histories", "Lean refinement proof to an abstract stream machine + self-relative correspondence"),
 "C06": ("theorems: jump/long_jump = act of the jump polynomial = 2^(n/2) / 2^(3n/4) steps for every state (GF(2)[x] action, kernel-evaluated certificates); tie: jump states vs model on basis/random states, commutation, and (thorough/falsifier) Berlekamp–Massey on the real engine", "Lean proof via GF(2)[x] polynomial action + certificates + correspondence"),
 "C07": ("theorems: step is a bijection, non-zero states form one cycle of length 2^n−1 (primitive characteristic polynomial, Pratt certificates); tie: real step on all n basis states + linearity; falsifier: matrix rank / minimal polynomial / short cycles of the real engine", "Lean proof (order of x mod P, Lucas/Pratt certificates) + correspondence"),
 "C08": ("theorems: no constructor yields the zero state, zero seed remapped as documented, other seeds verbatim, fuel-3 termination of from_seed↔seed_from_u64; tie: every constructor on zero seeds/zero blocks/specials", "Lean proof + model/code correspondence"),
 "C09": ("theorems: seed_from_u64 = from_seed∘expansion, from_rng consumes exactly the seed bytes, try_from_rng = from_rng or the source's error; tie: constructors with scripted (failing) sources and consumption counters", "Lean proof + model/code correspondence"),
 "C10": ("theorems: clone is the identity, == implies identical futures for every operation sequence (incl. Hc128Rng's partial ==); tie: clone/clone_from/eq pairs with continuations, the whole PartialEq surface (==, !=, symmetric, through references), near misses", "Lean proof (congruence by induction over op lists) + correspondence"),
 "C11": ("theorems: de(ser s) = s for every serialisable state; tie: bincode image vs model at random points of random histories, restored twins", "Lean round-trip proof + model/code correspondence"),
 "C12": ("theorems: model of JitterRng = documented collection procedure on the readings; tie: absolute on scripted timers incl. number of readings consumed", "Lean proof + model/code correspondence"),
 "C13": ("theorems: testTimer = ok r → 1 ≤ r ≤ 128 ∧ r·bitlen(mean) ≥ 128 ∧ no failure condition; error e → condition e holds; tie: scripted timers for every table row/threshold/error class + independent property oracle on the real result", "Lean proof (case analysis of the verdict) + correspondence + implementation oracle"),
 "C14": ("theorems: every checked operation of the model succeeds (Checked = Model); tie: all operations under catch_unwind in an overflow-checked build with hostile inputs", "Lean proof (checked arithmetic never fails) + correspondence in overflow-checked build"),
 "C15": ("theorems: lfsr bijective in the pool and injective in the time value, rotation and stir bijective, for all 2^64 values; tie: hooks on basis vectors/random pairs, rank and special points of the real maps, and the whole collection (next_u64 on a fixed timer script) as a map of the pool", "Lean proof (GF(2)-linearity + explicit inverses) + correspondence through hooks"),
 "C16": ("theorems: halves of one collected value, fresh collections, clone never reuses a half; full statement false for fill_bytes(1..4) (known finding, negation proved); tie: twins on identical timers with call counts", "Lean proof (_partial + negation witness) + correspondence"),
 "C17": ("theorem (thin): Debug text is a function of type and read position; tie: real {:?}/{:#?} vs template, two seeds same history, no state words in text", "Lean structural theorem + correspondence"),
 "C18": ("theorem: checked = unchecked semantics (C14) so profiles cannot differ in meaning; tie: same corpus in 2 (quick) / 8 (thorough) build configurations vs model; other targets not covered (partial)", "Lean proof + multi-configuration correspondence"),
 "C19": ("theorem: frame property of a product of model instances under any schedule; tie: interleaved multi-instance runs on 1–8 OS threads vs solo runs in fresh processes, JitterRng instances on stuck-test boundaries sharing a thread, overlapping constructions; structural correspondence: no process-wide / thread-local mutable state beyond the pinned source's; real scheduler nondeterminism sampled (partial)", "Lean frame theorem + interleaving correspondence"),
}
EXT = {"C01", "C04", "C05", "C06", "C07", "C08", "C09"}
EXT_TEXT = (" In addition the translated functions of rand_xoshiro / rand_xorshift (next_u32, next_u64, fill_bytes, jump, long_jump, "
            "from_seed, seed_from_u64) are regenerated from /repo's current source as Lean definitions on every run (tools/rs2lean.py) "
            "and proved equal to the model for all inputs (ExtTie.* obligations); when one no longer checks, z3 compares the current "
            "with the pinned source (tools/srcdiff.py) to produce a failing input.")
EXT_NOTE = ("; for the translated functions the tie is a kernel-checked theorem about definitions generated by the translator "
            "tools/rs2lean.py (trusted, cross-checked by an independent interpreter tools/symexec.py); z3 is used only to search for "
            "failing inputs and to recognise behaviour-preserving rewrites, never as a proof obligation")
EXT_BLOCK = {"C02", "C03"}
EXT_BLOCK_TEXT = (" In addition the block cores (rand_hc: Hc128Core::step_p, step_q, generate, sixteen_steps, init, from_seed; rand_isaac: "
                  "ind, rngstep, mix, generate, init, from_seed, seed_from_u64, from_rng, try_from_rng of IsaacCore and Isaac64Core) are "
                  "regenerated from /repo's current source as Lean definitions on every run (tools/rs2lean.py) and proved equal to the "
                  "model for all inputs (ExtTie.* obligations, DESIGN.md §3b Extension); a broken one goes to the property's falsifier "
                  "on the real code.")
EXT_JITTER = {"C05", "C12", "C13", "C14", "C16"}
EXT_JITTER_TEXT = (" For rand_jitter all of JitterRng's logic (random_loop_cnt … test_timer, Clone, next_u32/next_u64/fill_bytes) is regenerated "
                   "from /repo's current source as definitions in the timer monad (tools/rs2lean_tm.py) and proved equal to the model for all "
                   "inputs and all timer scripts (ExtTie.JitterRng.*; C14: the census of partial operations equals what Checked.Jitter accounts for); "
                   "abstractions (black_box, dead-code elimination, scratch-memory check, skipped log macros) in DESIGN.md §3b Extension.")
EXT_RC = {"C02", "C03", "C05", "C08", "C09", "C10", "C14"}
EXT_RC_TEXT = (" The functions of rand_core 0.9.5 that the crates delegate to (impls::next_u64_via_u32 / fill_bytes_via_next / fill_via_chunks, "
               "le::read_u32_into / read_u64_into, BlockRng and BlockRng64 with their SeedableRng impl, the SeedableRng defaults seed_from_u64 / "
               "from_rng / try_from_rng) are translated from the cargo registry source (tools/rs2lean_rc.py; version and sha256 in the evidence) and "
               "proved equal to the model (ExtTie.RandCore*), and so are the wrapper types Hc128Rng / IsaacRng / Isaac64Rng, the hand-written "
               "PartialEq impls and XorShiftRng::from_rng (DESIGN.md §3b, Extension: rand_core and the wrapper types).")
def main():
    checks = []
    for pid, (text, tech) in sorted(T.items()):
        src = open(os.path.join(V, "lean/Rngs/Props", pid + ".lean")).read() if os.path.exists(os.path.join(V, "lean/Rngs/Props", pid + ".lean")) else ""
        names = re.findall(r"^theorem\s+(\S+)", src, re.M)
        real = [n for n in names if n != "placeholder"]
        cat = "proof" if real else "exploration"
        if not real:
            text = "[theorems not landed yet: only the correspondence check runs] " + text
            tech = "model/code correspondence check (Lean theorems pending)"
        note = NOTE
        if pid in EXT_RC:
            text += EXT_RC_TEXT
            if pid == "C10":
                text += (" A hand-written Clone / PartialEq method of a type under the tie that no correspondence theorem speaks about is a "
                         "broken obligation (unmodelled); a broken obligation with no failing pair among the quick cases runs the thorough "
                         "grid of clone / == pairs.")
            if "translator-regenerated" not in tech:
                tech += " + translator-regenerated correspondence theorems (rs2lean)"
            note = NOTE + EXT_NOTE
        if pid in EXT_BLOCK:
            text += EXT_BLOCK_TEXT
            tech += " + translator-regenerated correspondence theorems (rs2lean)"
            note = NOTE + EXT_NOTE
        if pid in EXT:
            text += EXT_TEXT
            tech += " + translator-regenerated correspondence theorems (rs2lean)"
            note = NOTE + EXT_NOTE
        if pid in EXT_JITTER:
            text += EXT_JITTER_TEXT
            if pid not in EXT:
                tech += " + translator-regenerated correspondence theorems (rs2lean_tm)"
                note = NOTE + EXT_NOTE
        checks.append(dict(property_id=pid, quick_cmd=f"python3 tools/check.py {pid} --tier quick",
            thorough_cmd=f"python3 tools/check.py {pid} --tier thorough", evidence_file=f"evidence/{pid}.json",
            replay_cmd_template=f"python3 tools/check.py {pid} --replay {{path}}", engine="lean-proof+tie",
            level_claimed=dict(category=cat, text=text, design_ref=f"DESIGN.md §7 {pid}"), level_note=note, technique=tech))
    m = dict(version=1, setup_cmd="./setup.sh",
        hooks=dict(guard="rngs_verif", enable='RUSTFLAGS="--cfg rngs_verif --check-cfg cfg(rngs_verif)" cargo build --offline (harness crate, path deps on /repo crates)',
                   baseline_off_cmd="cd /repo && cargo test --workspace --no-fail-fast --offline", source_commits=["d9042f5"], add_only=True),
        engines=[dict(name="lean-proof+tie", path="tools/check.py", serves_properties=sorted(T),
                      kind_free_text="Lean 4 theorems about a hand-written executable model (lean/Rngs) + two ties of the model to /repo's current tree on every run: (1) differential correspondence check of the model (lean modeldriver) and the real crates (harness); (2) for all five crates and the rand_core 0.9.5 functions they use a translator (tools/rs2lean.py, rs2lean_tm.py, rs2lean_rc.py) regenerates Lean definitions from the source and Lean proves them equal to the model (tools/exttie.py)")],
        checks=checks, not_applicable=[],
        notes="fix commits in /repo: 5da9a78 (C14), abe6ce0 (C13); known finding: C16 (known_findings.json)")
    json.dump(m, open(os.path.join(V, "MANIFEST.json"), "w"), indent=1)
main()
