#!/usr/bin/env python3
"""pin_sources.py — copy the translated crates' sources from /repo to /verif/pinned_src, check the correspondence theorems
for exactly these sources (exttie) and record which theorems exist: the reference point for `srcdiff.py` (z3 comparison
of the current source with the source the theorems were proved for) and for noticing that a function left the
translatable fragment.  Run by the maintainer of /verif when /repo's pinned commit changes; never by a check."""
import json, os, shutil, sys
sys.path.insert(0, os.path.dirname(os.path.abspath(__file__)))
import exttie
V = os.path.dirname(os.path.dirname(os.path.abspath(__file__)))
P = os.path.join(V, "pinned_src")
for crate, files in (("rand_xoshiro", None), ("rand_xorshift", ["lib.rs"]), ("rand_jitter", ["lib.rs"]), ("rand_hc", ["hc128.rs"]),
                     ("rand_isaac", ["isaac.rs", "isaac64.rs", "isaac_array.rs"])):
    src = os.path.join("/repo", crate, "src")
    dst = os.path.join(P, crate, "src")
    os.makedirs(dst, exist_ok=True)
    for f in (files or sorted(os.listdir(src))):
        if f.endswith(".rs"):
            shutil.copy(os.path.join(src, f), os.path.join(dst, f))
# all sources of the five crates (reference for "which numeric literals are new", tools/ties.py new_literals)
import glob
for f in glob.glob("/repo/rand_*/src/*.rs"):
    dst = os.path.join(P, os.path.relpath(f, "/repo"))
    os.makedirs(os.path.dirname(dst), exist_ok=True)
    shutil.copy(f, dst)
# rand_core 0.9.5 as the registry holds it: the source the ExtTie.RandCore* theorems are about (copied for reference; the
# translator always reads the registry copy and records its sha256)
import rs2lean_rc
rc_dir, rc_ver, rc_sha = rs2lean_rc.find_source()
if rc_dir:
    dst = os.path.join(P, "rand_core-0.9.5", "src")
    os.makedirs(dst, exist_ok=True)
    for f in rs2lean_rc.FILES:
        shutil.copy(os.path.join(rc_dir, f), os.path.join(dst, f))
# the bridge lemmas that restate the pinned translation of the block generators (rand_hc, rand_isaac) — regenerated from
# exactly these sources and compiled by lake before the theorems are checked
import subprocess
import gen_exttie_shapes
gen_exttie_shapes.main(P)
b = subprocess.run(["lake", "build", "Rngs.Lib.ExtTie"], cwd=os.path.join(V, "lean"), capture_output=True, text=True, stdin=subprocess.DEVNULL)
if b.returncode != 0:
    print("NOT PINNED: Rngs/Lib/ExtTieShapes.lean (generated from the pinned sources) does not build:\n" + (b.stdout + b.stderr)[-2000:])
    sys.exit(1)
r = exttie.run(P)
bad = [k for k, v in r["theorems"].items() if not v["ok"]]
if bad:
    print("NOT PINNED: theorems fail on the pinned sources:", bad)
    sys.exit(1)
exp = {k: dict(props=v["props"], fn=v["fn"], statement=v["statement"]) for k, v in r["theorems"].items()}
json.dump(dict(theorems=exp, key=r["key"], rand_core=dict(version=rc_ver, sha256=rc_sha)), open(os.path.join(P, "EXPECTED.json"), "w"),
          indent=1, sort_keys=True)
print(f"pinned {len(exp)} theorems, key {r['key']}")
