"""rs2lean.py — translator from the Rust subset of the generator crates to Lean 4 definitions.

Every run of a check re-reads /repo's *current* sources, re-translates the functions listed in `extract_units.py`
and re-checks, in Lean, that each translated function equals the corresponding function of the hand-written
model (`lean/Rngs/Model`) for all inputs.  This is the second tie between model and code (DESIGN.md §3b): it is a
theorem, not a sample — but it trusts this translator.

Translation scheme (imperative -> pure):
  * `&mut self` methods become `St -> (result ×) St`; `self.f = e` becomes `let st := { st with f := e }`;
  * `let` / assignment / op-assignment become shadowing `let`s; small arrays that are only indexed by literals are
    flattened to one variable per element;
  * `if` without value: the variables assigned in either branch are returned as a tuple;
    `if c { …; return e }` followed by the rest becomes `if c then e else rest`;
  * `for x in a..b` / `for x in &CONST`: `List.foldl` over `List.range' a (b-a)` / the constant list, the accumulator
    being the tuple of variables assigned in the body;
  * `macro_rules!` invocations are expanded (rsfront.expand, with hygiene for the macro's own `let`s);
  * calls to other methods of the same type call their translations; a small table of primitives maps the rand_core
    helpers (`fill_bytes_via_next`, `next_u64_via_u32`, `read_u32_into`, …) to their models in `Rngs/Model/RandCore`.
Integer semantics: `wrapping_*`, `^ | & << >>`, `rotate_*`, `as` follow Rust; plain `+ - *` are translated as wrapping
(the overflow checks of debug builds are the subject of C14, not of this tie).  Shifts must be by literals or loop
counters smaller than the width, else `Unsupported`."""
import re
from rsfront import Unsupported, parse_body, split_top
import rsfront

INT = {"u8": 8, "u16": 16, "u32": 32, "u64": 64, "u128": 128, "i8": 8, "i16": 16, "i32": 32, "i64": 64, "i128": 128,
       # core::num::Wrapping<u32> / <u64>: same representation and arithmetic as the plain type in this translation (plain
       # + - * are translated as wrapping anyway); the one semantic difference is `<<` / `>>`, whose amount is taken
       # modulo the width instead of being a debug-profile panic (see FnTr.binop)
       "w32": 32, "w64": 64}
WRAP = {"w32": "u32", "w64": "u64"}
FLATTEN_MAX = 8        # arrays (other than byte strings) of at most this static length are flattened to one variable per element
LEAN_KW = {"end", "from", "at", "have", "show", "then", "fun", "in", "do", "by", "open", "variable", "example", "st",
           "instance", "local", "where", "with", "structure", "class", "def", "theorem", "using", "calc", "this",
           "match", "if", "else", "let", "mut", "return", "for", "Type", "Prop", "Sort", "prefix", "infix", "max", "min"}

def lname(x):
    x = x.replace("__m", "_m")
    return x + "_" if x in LEAN_KW else x

def unwrap_ty(t):
    return WRAP.get(t, t)

def same_int(a, b):
    return a == b or (a in INT and b in INT and unwrap_ty(a) == unwrap_ty(b))

# per-translation context for types: `type` aliases of the file / unit and the values of the integer constants (array
# lengths such as `[u32; SEED_WORDS]`); set by Unit / translate_fn
TYCTX = dict(aliases={}, consts={})

def ty_of_tokens(toks):
    s = "".join(t[1] for t in toks) if not isinstance(toks, str) else toks
    return parse_ty(s)

def const_int(s):
    """value of a constant integer expression over literals and the known integer constants, or None"""
    s = s.strip()
    if re.match(r"^[0-9][0-9xa-fA-F_]*(?:usize|u32|u64)?$", s):
        return rsfront.parse_int(s)[0]
    try:
        e = rsfront.Parser(rsfront.lex(s), {}).parse_expr_all()
    except Exception:
        return None
    return const_eval(e, TYCTX["consts"])

def const_eval(e, consts):
    import operator
    k = e[0]
    if k == "lit":
        return e[1]
    if k == "paren":
        return const_eval(e[1], consts)
    if k == "cast":
        return const_eval(e[1], consts)
    if k == "path" and len(e[1]) == 1 and e[1][0] in consts:
        return consts[e[1][0]]
    if k == "bin":
        a, b = const_eval(e[2], consts), const_eval(e[3], consts)
        if a is None or b is None:
            return None
        f = {"+": operator.add, "-": operator.sub, "*": operator.mul, "/": operator.floordiv, "%": operator.mod,
             "<<": operator.lshift, ">>": operator.rshift, "&": operator.and_, "|": operator.or_, "^": operator.xor}.get(e[1])
        if f is None or (e[1] in ("/", "%") and b == 0) or (e[1] == "-" and a < b) or (e[1] in ("<<", ">>") and b > 63):
            return None
        return f(a, b)
    return None

def parse_ty(s):
    s = s.strip()
    if s.startswith("&mut"):
        return parse_ty(s[4:])
    if s.startswith("&"):
        return parse_ty(s[1:])
    if s.startswith("mut ") :
        return parse_ty(s[4:])
    if s in TYCTX["aliases"]:
        return parse_ty(TYCTX["aliases"][s])
    if s in INT:
        return s
    if s in ("usize", "isize"):
        return "nat"
    if s == "bool":
        return "bool"
    m = re.match(r"^\[(.+);([^;\[\]]+)\]$", s)
    if m:
        n = m.group(2)
        v = const_int(n)
        return ("arr", parse_ty(m.group(1)), v if v is not None else n)
    m = re.match(r"^\[(.+)\]$", s)
    if m:
        return ("slice", parse_ty(m.group(1)))
    m = re.match(r"^(?:w|Wrapping|core::num::Wrapping)<(.+)>$", s)
    if m:
        inner = parse_ty(m.group(1))
        if inner == "u32":
            return "w32"
        if inner == "u64":
            return "w64"
        return inner
    return ("named", s)

def is_arr(t, flat=None):
    """array type with a static length other than a byte string; flat=True/False additionally asks for (non-)flattened"""
    if not (isinstance(t, tuple) and t[0] == "arr" and t[1] != "u8" and isinstance(t[2], int)):
        return False
    if flat is None:
        return True
    return (t[2] <= FLATTEN_MAX) == flat

def lean_ty(t):
    if t in INT:
        return f"BitVec {INT[t]}"
    if t == "nat":
        return "Nat"
    if t == "bool":
        return "Bool"
    if isinstance(t, tuple) and t[0] in ("arr", "slice") and t[1] == "u8":
        return "List U8"
    if isinstance(t, tuple) and t[0] == "arr" and t[1] in INT:
        return f"Array (BitVec {INT[t[1]]})"
    if isinstance(t, tuple) and t[0] == "lean":
        return t[1]
    raise Unsupported(f"no Lean type for {t}")

class Val:
    """a translated expression: Lean text + Rust type (+ elements when it is a flattened array)"""
    def __init__(self, lean, ty, elems=None, lit=None, place=None):
        self.lean, self.ty, self.elems, self.lit, self.place = lean, ty, elems, lit, place
    def atom(self):
        s = self.lean
        if re.match(r"^[\w.']+$", s) or (s.startswith("(") and s.endswith(")") and _balanced(s[1:-1])):
            return s
        return f"({s})"

def _balanced(s):
    d = 0
    for ch in s:
        if ch == "(":
            d += 1
        elif ch == ")":
            d -= 1
            if d < 0:
                return False
    return d == 0

def lit_lean(v, ty):
    if ty in INT:
        w = INT[ty]
        if ty.startswith("i") and v < 0:
            v += 1 << w
        return f"0x{v:x}#{w}" if v > 9 else f"{v}#{w}"
    if ty == "nat":
        return str(v)
    raise Unsupported(f"literal of type {ty}")

class StructInfo:
    """how a Rust struct is represented in Lean: `lean` type name and for each Rust place its Lean field"""
    def __init__(self, name, lean, fields, ctor=None):
        self.name, self.lean, self.fields, self.ctor = name, lean, fields, ctor
        # fields: { rust field name: (rust type, lean projection or [lean projections] for flattened arrays) }

class Unit:
    """one translated impl: the struct, its methods, constants and macros in scope.
    `aliases`: type aliases (file-level `type X = …`, associated types as `Self::X`); `const_vals`: integer constants by value."""
    def __init__(self, name, sinfo, methods, consts, macros, prims, namespace, aliases=None, const_vals=None):
        self.name, self.sinfo, self.methods, self.consts, self.macros = name, sinfo, methods, consts, macros
        self.prims, self.namespace = prims, namespace
        self.aliases, self.const_vals = dict(aliases or {}), dict(const_vals or {})
        self.sigs = {}
        self.enter()
        for m, fn in methods.items():
            selfk = next((p[1] for p in fn.params if p[0] == "self"), None)
            self.sigs[m] = dict(selfkind=selfk, ret=ty_of_tokens(fn.ret) if fn.ret else None,
                                params=[(p[0], ty_of_tokens(p[1])) for p in fn.params if p[0] != "self"],
                                mutref={p[0] for p in fn.params if p[0] != "self" and [t[1] for t in p[1][:2]] == ["&", "mut"]})

    def enter(self):
        TYCTX["aliases"], TYCTX["consts"] = self.aliases, self.const_vals

    def struct_lean(self):
        return self.sinfo.lean

class Scope:
    def __init__(self, parent=None):
        self.vars, self.parent = {}, parent
    def get(self, n):
        s = self
        while s:
            if n in s.vars:
                return s.vars[n]
            s = s.parent
        return None
    def declare(self, n, var):
        if re.match(r"^[abcejrt]_\d+$", n):
            # the translator's own temporaries are called r_1, e_2, …: a source variable of that form could be captured
            raise Unsupported(f"variable name {n} clashes with the translator's temporaries")
        self.vars[n] = var

class Var:
    """a Rust variable.  `elems`: flattened array (one Lean variable per element); `view`: (base place AST, offset) for a slice
    view obtained from split_at(_mut) — reads and writes go to the base at index + offset; `alias`: (owner variable name,
    field) for `let t = &mut owner.field` — the field is moved out into the Lean variable and written back at the next use of
    the owner (the borrow checker guarantees the owner is not used while the alias is live); `mutref`: a `&mut` parameter,
    returned as part of the function's result."""
    def __init__(self, name, ty, lean, elems=None, key=None, const=False, view=None, alias=None, mutref=False):
        self.name, self.ty, self.lean, self.elems, self.key, self.const = name, ty, lean, elems, key, const
        self.view, self.alias, self.mutref, self.dead = view, alias, mutref, False

class FnTr:
    """translates one function"""
    def __init__(self, unit, fname, inferred=None):
        self.u, self.fname = unit, fname
        self.fn = unit.methods[fname]
        self.inferred = inferred if inferred is not None else {}
        self.changed = False
        self.tmp = 0
        self.scope = Scope()
        self.lines = None
        self.aliases = []            # live `let t = &mut owner.field` aliases (Var objects)
        self.ignored_asserts = []    # assert!/debug_assert! statements skipped (panics are C14's subject, not this tie's)

    # ---------- helpers
    def fresh(self, base="t"):
        self.tmp += 1
        return f"{base}_{self.tmp}"

    def emit(self, line):
        self.lines.append(line)

    def infer(self, key, ty):
        if key is not None and ty is not None and self.inferred.get(key) != ty:
            self.inferred[key] = ty
            self.changed = True

    @staticmethod
    def place_root(e):
        while e[0] in ("index", "field", "paren", "deref", "ref"):
            e = e[2] if e[0] == "ref" else e[1]
        if e[0] == "path" and len(e[1]) == 1:
            return e[1][0]
        return None

    @staticmethod
    def mentions(x, name):
        """does the AST fragment mention the variable `name`"""
        if isinstance(x, tuple):
            if len(x) == 2 and x[0] == "path" and x[1] == [name]:
                return True
            return any(FnTr.mentions(y, name) for y in x)
        if isinstance(x, list):
            return any(FnTr.mentions(y, name) for y in x)
        return False

    # ---------- analysis: variables assigned in a block (outer variables only)
    def assigned(self, stmts, tail, declared=None):
        declared = set(declared or ())
        out = []
        local_views = {}      # view / alias declared inside the analysed block -> root variable of its base
        place_root = self.place_root
        def add(n, depth=0):
            if n is None or depth > 8:
                return
            if n in local_views:
                return add(local_views[n], depth + 1)
            if n in declared:
                return
            v = self.scope.get(n) if n != "self" else None
            if v is not None and v.view is not None:
                return add(place_root(v.view[0]), depth + 1)
            if n not in out:
                out.append(n)
        def callee_sig(f):
            if f[0] == "path" and f[1][-1] in self.u.sigs and (len(f[1]) == 1 or f[1][0] in ("Self", self.u.name)):
                return self.u.sigs[f[1][-1]]
            return None
        def visit_e(e):
            if not isinstance(e, tuple):
                return
            k = e[0]
            if k == "mcall":
                recv = e[1]
                msig = self.u.sigs.get(e[2])
                if recv[0] == "path" and len(recv[1]) == 1 and msig and msig.get("selfkind") == "mut":
                    add(recv[1][0])
                if e[2] in ("copy_from_slice", "iter_mut", "split_at_mut"):
                    add(place_root(recv))
                if msig:
                    for a, (pn, _) in zip(e[3], msig["params"]):
                        if pn in msig["mutref"]:
                            add(place_root(a))
                visit_e(recv)
                for a in e[3]:
                    visit_e(a)
            elif k == "call":
                sig = callee_sig(e[1])
                for i, a in enumerate(e[2]):
                    if a[0] == "ref" and a[1]:
                        r = place_root(a[2])
                        if r:
                            add(r)
                    elif sig and i < len(sig["params"]) and sig["params"][i][0] in sig["mutref"]:
                        add(place_root(a))
                    if a[0] == "path" and a[1] == ["self"]:
                        add("self")
                    visit_e(a)
            elif k in ("if",):
                visit_e(e[1]); visit_b(e[2]);
                if e[3]:
                    visit_b(e[3])
            elif k == "block":
                visit_b((e[1], e[2]))
            elif k in ("bin",):
                visit_e(e[2]); visit_e(e[3])
            elif k in ("un",):
                visit_e(e[2])
            elif k in ("cast", "paren", "deref", "field", "try"):
                visit_e(e[1])
            elif k == "ref":
                visit_e(e[2])
            elif k == "index":
                visit_e(e[1]); visit_e(e[2])
            elif k == "range":
                visit_e(e[1]); visit_e(e[2])
            elif k == "closure":
                visit_e(e[2])
            elif k in ("array", "tuple"):
                for a in e[1]:
                    visit_e(a)
            elif k == "repeat":
                visit_e(e[1]); visit_e(e[2])
            elif k == "struct":
                for _, a in e[2]:
                    visit_e(a)
        def visit_b(b):
            saved = set(declared)
            st, tl = b
            for s in st:
                visit_s(s)
            if tl is not None:
                visit_e(tl)
            declared.clear(); declared.update(saved)
        def pat_names(p):
            return [p[1]] if p[0] == "name" else list(p[1])
        def visit_s(s):
            k = s[0]
            if k == "let":
                init = s[4]
                if init is not None:
                    visit_e(init)
                    i0 = init
                    while i0[0] == "paren":
                        i0 = i0[1]
                    if i0[0] == "ref" or (i0[0] == "mcall" and i0[2] in ("split_at_mut", "split_at", "iter_mut")):
                        r = place_root(i0[2] if i0[0] == "ref" else i0[1])
                        if r is not None:
                            for n in pat_names(s[1]):
                                local_views[n] = r
                for n in pat_names(s[1]):
                    if n not in local_views:
                        declared.add(n)
            elif k == "assign":
                r = place_root(s[1])
                if r:
                    add(r)
                visit_e(s[1])
                visit_e(s[3])
            elif k == "expr":
                visit_e(s[1])
            elif k == "for":
                visit_e(s[2])
                saved = set(declared)
                for n in pat_names(s[1]):
                    declared.add(n)
                visit_b(s[3])
                declared.clear(); declared.update(saved)
            elif k in ("while",):
                visit_e(s[1]); visit_b(s[2])
            elif k == "loop":
                visit_b(s[1])
            elif k == "return" and s[1] is not None:
                visit_e(s[1])
            elif k == "const":
                declared.add(s[1])
        visit_b((stmts, tail))
        if getattr(self.u, "sort_acc", False):
            # canonical order of the tuple of assigned variables (self first, then by name): reordering independent statements
            # of a loop body / branch does not change the shape of the translation
            out.sort(key=lambda n: (n != "self", n))
        return out

    def literal_indexed_only(self, name, stmts, tail):
        """True when every `name[...]` in the block has a literal index (then the array can be flattened)"""
        ok = [True]
        def ve(e):
            if not isinstance(e, tuple):
                return
            if e[0] == "index":
                base = e[1]
                while base[0] == "paren":
                    base = base[1]
                if base[0] == "path" and base[1] == [name] and e[2][0] != "lit":
                    ok[0] = False
            for x in e[1:]:
                if isinstance(x, tuple):
                    ve(x)
                elif isinstance(x, list):
                    for y in x:
                        if isinstance(y, tuple):
                            ve(y)
                            if len(y) == 2 and isinstance(y[1], tuple):
                                ve(y[1])
                        elif isinstance(y, list):
                            for z in y:
                                ve(z) if isinstance(z, tuple) else None
        for s in stmts:
            ve(s)
        if tail is not None:
            ve(tail)
        return ok[0]

    # ---------- places
    def self_field(self, fname):
        f = self.u.sinfo.fields.get(fname)
        if f is None:
            raise Unsupported(f"unknown field self.{fname}")
        return f

    def lookup(self, n):
        v = self.scope.get(n)
        if v is not None and v.dead:
            raise Unsupported(f"use of `{n}` after the value it borrows from was used again")
        return v

    def struct_var(self, e):
        """Lean name of `self` / of a local variable that holds a value of the unit's struct; None otherwise"""
        while e[0] in ("paren", "deref"):
            e = e[1]
        if e[0] == "path" and len(e[1]) == 1:
            n = e[1][0]
            v = self.lookup(n)
            if v is not None and v.ty == ("named", "Self") and v.elems is None and v.view is None:
                self.touch(n)
                return v.lean
        return None

    # -- `let t = &mut owner.field`: moved out, written back when the owner is used again
    def touch(self, name):
        for a in list(self.aliases):
            if a.alias[0] == name:
                self.flush(a)

    def flush(self, a):
        owner = self.scope.get(a.alias[0])
        rty, proj = self.self_field(a.alias[1])
        if owner is None or isinstance(proj, list) or proj is None:
            raise Unsupported("write-back of a borrowed field")
        self.emit(f"let {owner.lean} : {self.u.sinfo.lean} := {{ {owner.lean} with {proj} := {a.lean} }};")
        a.dead = True
        self.aliases.remove(a)

    def preflush(self, ast):
        """before a compound statement: write back the aliases whose owner the statement mentions"""
        for a in list(self.aliases):
            if self.mentions(ast, a.alias[0]):
                self.flush(a)

    def end_scope(self):
        """aliases declared in the innermost scope end with it"""
        for a in list(self.aliases):
            if self.scope.vars.get(a.name) is a:
                self.flush(a)

    # -- array elements
    @staticmethod
    def nat_sum(off, idx):
        """Lean text of `off + idx` (Nat), re-associated to the left: `512 + (256 + x)` is written `512 + 256 + x`"""
        if off == 0:
            return idx
        if idx.lit is not None:
            return Val(str(off + idx.lit), "nat", lit=off + idx.lit)
        add = getattr(idx, "addends", None) or [idx.atom()]
        v = Val(" + ".join([str(off)] + add), "nat")
        v.addends = [str(off)] + add
        return v

    def resolve_base(self, b, off=0):
        """base of an indexing expression -> (kind, payload, static offset); follows slice views to their base"""
        while b[0] in ("paren", "deref") or (b[0] == "ref"):
            b = b[2] if b[0] == "ref" else b[1]
        if b[0] == "mcall" and b[2] in ("as_mut", "as_ref") and not b[3]:
            return self.resolve_base(b[1], off)
        if b[0] == "path" and len(b[1]) == 1:
            v = self.lookup(b[1][0])
            if v is None:
                raise Unsupported(f"unknown name {b[1][0]}")
            if v.view is not None:
                return self.resolve_base(v.view[0], off + v.view[1])
            return ("var", v, off)
        if b[0] == "field":
            sv = self.struct_var(b[1])
            if sv is not None:
                rty, proj = self.self_field(b[2])
                return ("field", (sv, rty, proj), off)
            if b[2] == "0":
                return self.resolve_base(b[1], off)
        if b[0] == "index" and b[2][0] == "range":
            sl = self.slice_of(b)
            return self.resolve_base(sl[0], off + sl[1])
        raise Unsupported(f"indexing into {b[0]}")

    def read_elem(self, base, idx_ast):
        kind, pl, off = self.resolve_base(base)
        idx = self.expr(idx_ast, "nat")
        if kind == "var":
            v = pl
            ty = v.ty if v.ty is not None else self.inferred.get(v.key)
            if v.elems is not None:
                if idx.lit is None:
                    raise Unsupported("variable index into a flattened array")
                i = off + idx.lit
                if i >= len(v.elems):
                    raise Unsupported("literal index out of bounds")
                return v.elems[i]
            lean = v.lean
        else:
            sv, ty, proj = pl
            if isinstance(proj, list):
                if idx.lit is None:
                    raise Unsupported("variable index into a flattened array")
                i = off + idx.lit
                if i >= len(proj):
                    raise Unsupported("literal index out of bounds")
                return Val(f"{sv}.{proj[i]}", ty[1])
            lean = f"{sv}.{proj}" if proj is not None else sv
        if not (isinstance(ty, tuple) and ty[0] in ("arr", "slice")):
            raise Unsupported("index into non-array")
        i = self.nat_sum(off, idx)
        if ty[1] == "u8":
            return Val(f"byteAt {lean} {i.atom()}", "u8")
        return Val(f"rd {lean} {i.atom()}", ty[1])

    def write_elem(self, base, idx_ast, val, idx_val=None):
        kind, pl, off = self.resolve_base(base)
        idx = idx_val if idx_val is not None else self.expr(idx_ast, "nat")
        if kind == "var":
            v = pl
            if v.const:
                raise Unsupported("assignment to an element of a constant")
            if v.elems is not None:
                if idx.lit is None:
                    raise Unsupported("variable index into a flattened array")
                i = off + idx.lit
                if i >= len(v.elems):
                    raise Unsupported("literal index out of bounds")
                if v.elems[i].ty is None and val.ty is not None:
                    v.elems[i].ty = val.ty
                    self.infer(v.key, ("arr", val.ty, len(v.elems)))
                self.emit(f"let {v.elems[i].lean} := {val.lean};")
                return
            ty = v.ty if v.ty is not None else self.inferred.get(v.key)
            if not (isinstance(ty, tuple) and ty[0] in ("arr", "slice") and ty[1] != "u8"):
                raise Unsupported("element assignment into this type")
            if ty[1] is None and val.ty is not None:
                self.infer(v.key, ("arr", val.ty, ty[2]))
            i = self.nat_sum(off, idx)
            self.emit(f"let {v.lean} := wr {v.lean} {i.atom()} {val.atom()};")
            return
        sv, ty, proj = pl
        if isinstance(proj, list):
            if idx.lit is None:
                raise Unsupported("variable index into a flattened array")
            i = off + idx.lit
            if i >= len(proj):
                raise Unsupported("literal index out of bounds")
            self.emit(f"let {sv} : {self.u.sinfo.lean} := {{ {sv} with {proj[i]} := {val.lean} }};")
            return
        if proj is None or not (isinstance(ty, tuple) and ty[0] == "arr" and ty[1] != "u8"):
            raise Unsupported("element assignment into this field")
        i = self.nat_sum(off, idx)
        self.emit(f"let {sv} : {self.u.sinfo.lean} := {{ {sv} with {proj} := wr {sv}.{proj} {i.atom()} {val.atom()} }};")

    def static_len(self, base):
        """static length of an array place (after following views: the remaining length), or None"""
        kind, pl, off = self.resolve_base(base)
        if kind == "var":
            if pl.elems is not None:
                return len(pl.elems) - off
            ty = pl.ty if pl.ty is not None else self.inferred.get(pl.key)
        else:
            ty = pl[1]
        if isinstance(ty, tuple) and ty[0] == "arr" and isinstance(ty[2], int):
            return ty[2] - off
        return None

    def slice_of(self, e):
        """a slice expression (`a`, `&a[..]`, `a[lo..hi]`, `&mut a[lo..]`, a view variable) -> (base place AST, offset, length)"""
        while e[0] in ("paren", "ref", "deref"):
            e = e[2] if e[0] == "ref" else e[1]
        if e[0] == "mcall" and e[2] in ("iter", "iter_mut", "as_ref", "as_mut") and not e[3]:
            return self.slice_of(e[1])
        if e[0] == "index" and e[2][0] == "range":
            base, off0, len0 = self.slice_of(e[1])
            r = e[2]
            lo = 0 if r[1] is None else self.expr(r[1], "nat").lit
            hi = len0 if r[2] is None else self.expr(r[2], "nat").lit
            if lo is None or (r[2] is not None and hi is None):
                raise Unsupported("slice bounds that are not constants")
            if hi is not None and r[3]:
                hi += 1
            if hi is not None and (lo > hi or (len0 is not None and hi > len0)):
                raise Unsupported("slice bounds out of range")
            return (base, off0 + lo, None if hi is None else hi - lo)
        if e[0] in ("path", "field"):
            if e[0] == "path" and len(e[1]) == 1:
                v = self.lookup(e[1][0])
                if v is not None and v.view is not None:
                    return (v.view[0], v.view[1], v.view[2])
            return (e, 0, self.static_len(e))
        raise Unsupported(f"slice expression {e[0]}")

    def read_place(self, e, want=None):
        """value of a place expression (variable, self.f, x[i], self.f[i])"""
        k = e[0]
        if k == "paren":
            return self.read_place(e[1], want)
        if k == "path":
            if len(e[1]) == 1:
                n = e[1][0]
                v = self.lookup(n)
                if n == "self" and v is None:
                    return Val("st", ("named", "Self"))
                if v is not None:
                    if v.view is not None:
                        raise Unsupported("a slice view used as a value")
                    self.touch(n)
                    ty = v.ty if v.ty is not None else self.inferred.get(v.key)
                    if ty is None and want is not None:
                        self.infer(v.key, want); ty = want
                    if isinstance(ty, tuple) and ty[0] == "arr" and ty[1] is None and isinstance(want, tuple) and want[0] == "arr" \
                            and want[1] is not None:
                        ty = ("arr", want[1], ty[2])
                        self.infer(v.key, ty)
                    return Val(v.lean, ty, elems=v.elems, place=v, lit=getattr(v, "lit", None))
                if n in self.u.consts:
                    cty, cl = self.u.consts[n]
                    return Val(cl, cty, lit=self.u.const_vals.get(n))
                raise Unsupported(f"unknown name {n}")
            if e[1][0] in ("u32", "u64", "i32", "u8", "u16", "i64", "usize") and e[1][1] in ("MAX", "MIN", "BITS"):
                ty = "nat" if e[1][0] == "usize" else e[1][0]
                w = INT.get(ty, 64)
                v = {"MAX": (1 << w) - 1 if not ty.startswith("i") else (1 << (w - 1)) - 1,
                     "MIN": 0 if not ty.startswith("i") else -(1 << (w - 1)), "BITS": w}[e[1][1]]
                if e[1][1] == "BITS":
                    return Val(str(v), "u32", lit=v)
                return Val(lit_lean(v, ty), ty, lit=v)
            if e[1][0] == "Self" and e[1][1] in self.u.consts:
                cty, cl = self.u.consts[e[1][1]]
                return Val(cl, cty, lit=self.u.const_vals.get(e[1][1]))
            raise Unsupported(f"path {'::'.join(e[1])}")
        if k == "field":
            sv = self.struct_var(e[1])
            if sv is not None:
                rty, proj = self.self_field(e[2])
                if isinstance(proj, list):
                    elems = [Val(f"{sv}.{p}", rty[1]) for p in proj]
                    return Val(None, rty, elems=elems)
                if proj is None:
                    return Val(sv, rty)
                return Val(f"{sv}.{proj}", rty)
            b = self.expr(e[1])
            if e[2] == "0":       # Wrapping(x).0, Seed512.0
                return Val(b.lean, unwrap_ty(b.ty), elems=b.elems, lit=b.lit, place=b.place)
            raise Unsupported(f"field .{e[2]}")
        if k == "index":
            if e[2][0] == "range":
                if e[2][1] is None and e[2][2] is None:
                    v = self.expr(e[1])            # `a[..]`: the whole array as a slice
                    if isinstance(v.ty, tuple) and v.ty[0] in ("arr", "slice"):
                        return v
                raise Unsupported("a slice used as a value")
            return self.read_elem(e[1], e[2])
        if k == "deref":
            return self.read_place(e[1], want)
        raise Unsupported(f"place {k}")

    def write_place(self, e, val):
        """emit the binding(s) that store `val` into place `e`"""
        k = e[0]
        if k == "paren" or k == "deref":
            return self.write_place(e[1], val)
        if k == "path" and len(e[1]) == 1:
            v = self.lookup(e[1][0])
            if v is None:
                raise Unsupported(f"assignment to unknown {e[1][0]}")
            if v.const or v.view is not None:
                raise Unsupported(f"assignment to {e[1][0]}")
            self.touch(e[1][0])
            if v.elems is not None:
                if val.elems is None or len(val.elems) != len(v.elems):
                    raise Unsupported("whole-array assignment of different shape")
                tmp = [self.fresh("a") for _ in v.elems]
                for t, x in zip(tmp, val.elems):
                    self.emit(f"let {t} := {x.lean};")
                for d, t in zip(v.elems, tmp):
                    self.emit(f"let {d.lean} := {t};")
                return
            if val.elems is not None:
                raise Unsupported("assignment of a flattened array to a variable")
            if v.ty is None:
                self.infer(v.key, val.ty)
            self.emit(f"let {v.lean} := {val.lean};")
            return
        if k == "field":
            sv = self.struct_var(e[1])
            if sv is None:
                raise Unsupported("assignment to a field of this expression")
            rty, proj = self.self_field(e[2])
            T = self.u.sinfo.lean
            if isinstance(proj, list):
                if val.elems is None or len(val.elems) != len(proj):
                    raise Unsupported("self.array = value of different shape")
                upd = ", ".join(f"{p} := {x.lean}" for p, x in zip(proj, val.elems))
                self.emit(f"let {sv} : {T} := {{ {sv} with {upd} }};")
            elif val.elems is not None:
                raise Unsupported("assignment of a flattened array to a field")
            elif proj is None:
                self.emit(f"let {sv} : {T} := {val.lean};")
            else:
                self.emit(f"let {sv} : {T} := {{ {sv} with {proj} := {val.lean} }};")
            return
        if k == "index":
            if e[2][0] == "range":
                raise Unsupported("assignment to a slice")
            return self.write_elem(e[1], e[2], val)
        raise Unsupported(f"assignment to {k}")

    # ---------- expressions
    def unify_int(self, a, b):
        """result type of an integer binary operation"""
        if a.ty is None and b.ty is None:
            return None
        return a.ty if a.ty is not None else b.ty

    def coerce(self, v, ty):
        if v.ty == ty or ty is None:
            return v
        if v.ty in INT and ty in INT and same_int(v.ty, ty):
            return Val(v.lean, ty, elems=v.elems, lit=v.lit, place=v.place)
        if isinstance(v.ty, tuple) and v.ty[0] == "arr" and v.ty[1] is None and isinstance(ty, tuple) and ty[0] == "arr" \
                and ty[1] is not None and v.ty[2] == ty[2]:
            if v.place is not None:
                self.infer(v.place.key, ty)
            if v.elems is not None:
                return Val(v.lean, ty, elems=[self.fix(x, ty[1]) for x in v.elems], place=v.place)
            return Val(v.lean.replace("@@ELEM@@", lit_lean(0, ty[1])) if v.lean else v.lean, ty, place=v.place)
        if v.lit is not None and (v.ty is None):
            return Val(lit_lean(v.lit, ty), ty, lit=v.lit)
        if v.ty is None:
            if v.place is not None:
                self.infer(v.place.key, ty)
            return Val(v.lean, ty, elems=v.elems, place=v.place)
        if v.ty == "nat" and ty in INT:
            return Val(f"BitVec.ofNat {INT[ty]} {v.atom()}", ty)
        return v

    def expr(self, e, want=None):
        v = self.expr_(e, want)
        if want is not None:
            v = self.coerce(v, want)
        return v

    def expr_(self, e, want=None):
        k = e[0]
        if k == "lit":
            ty = e[2] or (want if (want in INT or want == "nat") else None)
            if e[2] in ("usize", "isize"):
                ty = "nat"
            if ty is None:
                return Val(str(e[1]), None, lit=e[1])
            return Val(lit_lean(e[1], ty), ty, lit=e[1])
        if k == "bool":
            return Val("true" if e[1] else "false", "bool")
        if k == "paren":
            v = self.expr(e[1], want)
            return v
        if k in ("path", "field", "index", "deref"):
            return self.read_place(e, want)
        if k == "ref":
            return self.expr(e[2], want)
        if k == "cast":
            v = self.expr(e[1])
            to = parse_ty(e[2])
            if v.ty is None and v.lit is not None:
                return Val(lit_lean(v.lit % (1 << INT[to]) if to in INT else v.lit, to), to, lit=v.lit)
            if v.ty is None:
                raise Unsupported("cast of a value of unknown type")
            if to in INT and v.ty in INT:
                if INT[to] == INT[v.ty]:
                    return Val(v.lean, to, lit=v.lit)
                if v.ty.startswith("i") and INT[to] > INT[v.ty]:
                    return Val(f"{v.atom()}.signExtend {INT[to]}", to)
                return Val(f"{v.atom()}.setWidth {INT[to]}", to)
            if to == "nat" and v.ty in INT:
                if v.ty.startswith("i"):
                    raise Unsupported("signed to usize cast")
                if INT[v.ty] > 64:
                    raise Unsupported("u128 to usize cast")
                return Val(f"{v.atom()}.toNat", "nat")
            if to in INT and v.ty == "nat":
                return Val(f"BitVec.ofNat {INT[to]} {v.atom()}", to)
            if to == "nat" and v.ty == "nat":
                return v
            if v.ty == "bool" and (to == "nat" or to in INT):
                return Val(f"{v.atom()}.toNat", "nat") if to == "nat" else Val(f"BitVec.ofNat {INT[to]} {v.atom()}.toNat", to)
            raise Unsupported(f"cast {v.ty} as {to}")
        if k == "un":
            v = self.expr(e[2], want)
            if e[1] == "!":
                if v.ty == "bool":
                    return Val(f"!{v.atom()}", "bool")
                return Val(f"~~~{v.atom()}", v.ty)
            if e[1] == "-":
                if v.lit is not None and v.ty is None:
                    return Val(str(-v.lit), None, lit=-v.lit)
                return Val(f"-{v.atom()}", v.ty)
        if k == "bin":
            return self.binop(e[1], e[2], e[3], want)
        if k == "mcall":
            return self.mcall(e, want)
        if k == "call":
            return self.call(e, want)
        if k == "if":
            return self.if_expr(e, want)
        if k == "block":
            return self.block_expr(e[1], e[2], want)
        if k == "array":
            elems = [self.expr(x, want[1] if isinstance(want, tuple) and want[0] == "arr" else None) for x in e[1]]
            ety = next((x.ty for x in elems if x.ty is not None), None)
            elems = [self.coerce(x, ety) for x in elems]
            return Val(None, ("arr", ety, len(elems)), elems=elems)
        if k == "repeat":
            n = self.expr(e[2], "nat")
            if n.lit is None:
                raise Unsupported("array repeat with a non-literal count")
            ety = want[1] if isinstance(want, tuple) and want[0] == "arr" else None
            x = self.expr(e[1], ety)
            if n.lit > FLATTEN_MAX and x.ty != "u8" and ety != "u8":
                # a large array stays an `Array`; the element must be a constant
                if x.lit is None:
                    raise Unsupported("large array repeat of a non-literal element")
                if x.ty is None:
                    if x.lit != 0:
                        raise Unsupported("large array repeat of an untyped non-zero literal")
                    return Val(f"Array.replicate {n.lit} @@ELEM@@", ("arr", None, n.lit))
                return Val(f"Array.replicate {n.lit} {x.atom()}", ("arr", x.ty, n.lit))
            return Val(None, ("arr", x.ty, n.lit), elems=[Val(x.lean, x.ty, lit=x.lit) for _ in range(n.lit)])
        if k == "struct":
            return self.struct_lit(e)
        if k == "tuple":
            vs = [self.expr(x) for x in e[1]]
            return Val("(" + ", ".join(v.lean for v in vs) + ")", ("tuple", tuple(v.ty for v in vs)))
        if k == "unsafe":
            raise Unsupported("unsafe block")
        if k == "macro":
            raise Unsupported(f"macro {e[1]}! in expression position")
        raise Unsupported(f"expression {k}")

    def binop(self, op, l, r, want, pre=None):
        """`pre` = (value of l, value of r) when the caller has evaluated the operands itself (compound assignment)"""
        cmp = op in ("==", "!=", "<", ">", "<=", ">=")
        logic = op in ("&&", "||")
        if logic:
            a = self.expr(l, "bool")
            n0 = len(self.lines)
            b = self.expr(r, "bool")
            if len(self.lines) != n0:
                raise Unsupported("side effects in the right operand of && / ||")
            return Val(f"{a.atom()} {op} {b.atom()}", "bool")
        if op in ("<<", ">>"):
            if pre is not None:
                a, b = pre
            else:
                a = self.expr(l, want if not cmp else None)
                n0 = len(self.lines)
                b = self.expr(r)
                a = self.pin(a, n0)
            if a.ty is None and want is None and a.lit is not None:
                # `1 << b` with the type fixed by the context of the parent
                pass
            if b.lit is not None:
                if a.ty in WRAP:
                    amt = str(b.lit % INT[a.ty])            # Wrapping<T>: the amount is masked to the width
                elif a.ty in INT and b.lit >= INT[a.ty]:
                    raise Unsupported("shift by at least the width")
                else:
                    amt = str(b.lit)
            elif a.ty in WRAP:
                if b.ty != "nat":
                    raise Unsupported("Wrapping shift by a non-usize amount")
                amt = f"({b.atom()} % {INT[a.ty]})"           # `Shl<usize> for Wrapping<T>`: amount & (BITS - 1)
            elif b.ty == "nat":
                amt = b.atom()
            elif b.ty in INT:
                amt = f"{b.atom()}.toNat"
            else:
                raise Unsupported("shift amount of unknown type")
            lop = "<<<" if op == "<<" else (">>>" if not (a.ty or "u").startswith("i") else None)
            if lop is None:
                return Val(f"{a.atom()}.sshiftRight {amt}", a.ty)
            if a.ty is None:
                # untyped literal: keep as a deferred value; the parent coerces
                v = Val(f"@@LIT{a.lit}@@ {lop} {amt}", None)
                v.deferred = (a.lit, lop, amt)
                return v
            return Val(f"{a.atom()} {lop} {amt}", a.ty)
        if pre is not None:
            a, b = pre
        else:
            a = self.expr(l, None if cmp else want)
            n0 = len(self.lines)
            b = self.expr(r, a.ty if a.ty is not None else (None if cmp else want))
            a = self.pin(a, n0)
        if a.ty is None and b.ty is not None:
            a = self.fix(a, b.ty)
        if b.ty is None and a.ty is not None:
            b = self.fix(b, a.ty)
        if a.ty is None and b.ty is None:
            if want is not None and not cmp:
                a, b = self.fix(a, want), self.fix(b, want)
            elif a.lit is not None and b.lit is not None:
                import operator
                f = {"+": operator.add, "-": operator.sub, "*": operator.mul, "/": operator.floordiv,
                     "%": operator.mod, "^": operator.xor, "|": operator.or_, "&": operator.and_}.get(op)
                if f:
                    v = f(a.lit, b.lit)
                    return Val(str(v), None, lit=v)
                raise Unsupported("comparison of two untyped literals")
            else:
                raise Unsupported(f"operands of `{op}` have unknown type")
        def is_bytes(v):
            return isinstance(v.ty, tuple) and v.ty[0] in ("arr", "slice") and v.ty[1] == "u8" and v.elems is None
        if (is_bytes(a) or is_bytes(b)) and op in ("==", "!="):
            x, z = (a, b) if is_bytes(a) else (b, a)
            if z.elems is not None and all(q.lit == 0 for q in z.elems):
                # byte string compared with [0; n] (n is the string's length by the type of the array)
                return Val(f"isAllZero {x.atom()}" if op == "==" else f"!(isAllZero {x.atom()})", "bool")
            raise Unsupported("byte-string comparison")
        if a.elems is not None or b.elems is not None:
            if op in ("==", "!="):
                if a.elems is None or b.elems is None or len(a.elems) != len(b.elems):
                    raise Unsupported("array comparison of different shapes")
                ety = next((x.ty for x in a.elems + b.elems if x.ty is not None), None)
                parts = [f"{self.fix(x, ety).atom()} == {self.fix(y, ety).atom()}" for x, y in zip(a.elems, b.elems)]
                conj = " && ".join(parts)
                return Val(f"({conj})" if op == "==" else f"!({conj})", "bool")
            raise Unsupported("arithmetic on arrays")
        ty = a.ty
        if cmp:
            if ty in INT and ty.startswith("i") and op in ("<", ">", "<=", ">="):
                f = {"<": "slt", "<=": "sle"}
                if op in f:
                    return Val(f"{a.atom()}.{f[op]} {b.atom()}", "bool")
                return Val(f"{b.atom()}.{f['<' if op == '>' else '<=']} {a.atom()}", "bool")
            if op in ("==", "!="):
                return Val(f"{a.atom()} {op} {b.atom()}", "bool")
            return Val(f"decide ({a.atom()} {op} {b.atom()})", "bool")
        lop = {"^": "^^^", "|": "|||", "&": "&&&", "+": "+", "-": "-", "*": "*", "/": "/", "%": "%"}[op]
        v = Val(f"{a.atom()} {lop} {b.atom()}", ty)
        if ty == "nat" and op == "+":
            v.addends = (getattr(a, "addends", None) or [a.atom()]) + [b.atom()]
        return v

    def pin(self, a, n0):
        """Rust evaluates operands left to right: when the evaluation of a later operand emitted bindings (a call that
        rebinds `st`, out-parameters, …) an earlier operand that is not a constant is bound to a name *before* them"""
        if len(self.lines) == n0 or a.lean is None or a.lit is not None or a.elems is not None:
            return a
        if re.match(r"^[A-Za-z_][\w']*(\.[12])*$", a.lean) and re.match(r"^[rb]_\d+", a.lean):
            return a          # a temporary of this translator: never rebound
        t = self.fresh("e")
        self.lines.insert(n0, f"let {t} := {a.lean};")
        out = Val(t, a.ty)
        return out

    def fix(self, v, ty):
        """give an untyped literal / deferred literal shift / unknown variable the type `ty`"""
        if v.ty is not None or ty is None:
            return v
        d = getattr(v, "deferred", None)
        if d is not None:
            lit, lop, amt = d
            return Val(f"{lit_lean(lit, ty)} {lop} {amt}", ty)
        return self.coerce(v, ty)

    def closure_pred(self, c, elem_ty):
        if c[0] != "closure" or len(c[1]) != 1:
            raise Unsupported("closure shape")
        sc = Scope(self.scope)
        n = c[1][0]
        sc.declare(n, Var(n, elem_ty, lname(n)))
        saved = self.scope
        self.scope = sc
        try:
            b = self.expr(c[2], "bool")
        finally:
            self.scope = saved
        return f"(fun {lname(n)} => {b.lean})"

    def mcall(self, e, want):
        _, recv, name, args = e
        # self.method(...) / local_struct_value.method(...)
        if name in self.u.sigs and self.u.sigs[name]["selfkind"]:
            sv = self.struct_var(recv)
            if sv is not None:
                return self.emit_call(name, sv, args)
        if name == "copy_from_slice" and len(args) == 1:
            return self.copy_from_slice(recv, args[0])
        if name == "copy_within" and len(args) == 2:
            return self.copy_within(recv, args[0], args[1])
        # iterator idioms on byte strings
        if name == "all" and recv[0] == "mcall" and recv[2] == "iter":
            base = self.expr(recv[1])
            if isinstance(base.ty, tuple) and base.ty[1] == "u8" and base.elems is None:
                return Val(f"List.all {base.atom()} {self.closure_pred(args[0], 'u8')}", "bool")
            if base.elems is not None:
                sc_elems = []
                for x in base.elems:
                    c = args[0]
                    sc = Scope(self.scope); n = c[1][0]
                    sc.declare(n, Var(n, x.ty, x.atom()))
                    saved = self.scope; self.scope = sc
                    try:
                        sc_elems.append(self.expr(c[2], "bool").atom())
                    finally:
                        self.scope = saved
                return Val("(" + " && ".join(sc_elems) + ")", "bool")
            raise Unsupported(".iter().all on this type")
        v = self.expr(recv, want if name in ("wrapping_add", "wrapping_sub", "wrapping_mul", "rotate_left", "rotate_right") else None)
        if name in ("wrapping_add", "wrapping_sub", "wrapping_mul"):
            n0 = len(self.lines)
            b = self.expr(args[0], v.ty)
            v = self.pin(v, n0)
            if v.ty is None:
                v = self.fix(v, b.ty)
            op = {"wrapping_add": "+", "wrapping_sub": "-", "wrapping_mul": "*"}[name]
            if v.ty == "nat":
                # usize (64-bit target): arithmetic modulo 2^64 on Nat
                if name == "wrapping_sub":
                    return Val(f"({v.atom()} + 2 ^ 64 - {b.atom()}) % 2 ^ 64", "nat")
                return Val(f"({v.atom()} {op} {b.atom()}) % 2 ^ 64", "nat")
            if v.ty not in INT:
                raise Unsupported(f".{name}() on a value of type {v.ty}")
            return Val(f"{v.atom()} {op} {b.atom()}", v.ty)
        if name in ("saturating_add", "saturating_sub") and len(args) == 1:
            n0 = len(self.lines)
            b = self.expr(args[0], v.ty)
            v = self.pin(v, n0)
            if v.ty is None:
                v = self.fix(v, b.ty)
            if v.ty not in INT or v.ty.startswith("i") or v.ty in WRAP:
                raise Unsupported(f".{name}() on a value of type {v.ty}")
            w = INT[v.ty]
            if name == "saturating_add":
                return Val(f"(if {v.atom()}.toNat + {b.atom()}.toNat < 2 ^ {w} then {v.atom()} + {b.atom()} else {lit_lean((1 << w) - 1, v.ty)})", v.ty)
            return Val(f"(if {b.atom()}.toNat ≤ {v.atom()}.toNat then {v.atom()} - {b.atom()} else {lit_lean(0, v.ty)})", v.ty)
        if name in ("rotate_left", "rotate_right"):
            if v.ty not in INT:
                raise Unsupported(f".{name}() on a value of type {v.ty}")
            b = self.expr(args[0])
            if b.lit is None:
                amt = b.atom() if b.ty == "nat" else f"{b.atom()}.toNat"
            else:
                amt = str(b.lit)
            f = "rotateLeft" if name == "rotate_left" else "rotateRight"
            return Val(f"{v.atom()}.{f} {amt}", v.ty)
        if name == "to_le_bytes" and v.ty in ("u32", "u64"):
            return Val(f"{'U32' if v.ty == 'u32' else 'U64'}.toLE {v.atom()}", ("arr", "u8", INT[v.ty] // 8))
        if name in ("as_mut", "as_ref", "clone", "iter") and not args:
            return v
        if name in ("to_le", "from_le") and not args and v.ty in INT:
            return v          # little-endian host (DESIGN §10): the identity
        if name == "len" and not args:
            if v.elems is not None:
                return Val(str(len(v.elems)), "nat", lit=len(v.elems))
            if is_arr(v.ty):
                return Val(str(v.ty[2]), "nat", lit=v.ty[2])
            if not (isinstance(v.ty, tuple) and v.ty[0] in ("arr", "slice") and v.ty[1] == "u8"):
                raise Unsupported(".len() on this type")
            return Val(f"{v.atom()}.length", "nat")
        if name == "wrapping_neg":
            return Val(f"-{v.atom()}", v.ty)
        if name in ("max", "min") and len(args) == 1 and (v.ty in INT or v.ty == "nat"):
            # Ord::max / Ord::min on integers (a clamp such as `.max(1)`): unsigned order on BitVec / Nat, signed order for iN
            b = self.coerce(self.expr(args[0], v.ty), v.ty)
            if v.ty in INT and v.ty.startswith("i"):
                lt = f"{v.atom()}.slt {b.atom()}"
            elif v.ty == "nat":
                lt = f"decide ({v.atom()} < {b.atom()})"
            else:
                lt = f"{v.atom()}.ult {b.atom()}"
            if name == "max":
                return Val(f"(if {lt} then {b.atom()} else {v.atom()})", v.ty)
            return Val(f"(if {lt} then {v.atom()} else {b.atom()})", v.ty)
        if name == "count_ones":
            raise Unsupported("count_ones")
        raise Unsupported(f"method .{name}()")

    @staticmethod
    def proj(t, i, n):
        """i-th component of the n-tuple `t`"""
        if n == 1:
            return t
        return t + ".2" * i + (".1" if i < n - 1 else "")

    def arg_texts(self, v, pty):
        """Lean argument text(s) for a value passed to a parameter of type pty (flattened arrays: one per element)"""
        if is_arr(pty, flat=True):
            if v.elems is not None:
                if len(v.elems) != pty[2]:
                    raise Unsupported("array argument of a different length")
                return [self.fix(x, pty[1]).atom() for x in v.elems]
            if not is_arr(v.ty) or v.ty[2] != pty[2]:
                raise Unsupported("array argument of unknown shape")
            return [f"(rd {v.atom()} {i})" for i in range(pty[2])]
        if is_arr(pty, flat=False):
            if v.elems is not None:
                if len(v.elems) != pty[2]:
                    raise Unsupported("array argument of a different length")
                return ["#[" + ", ".join(self.fix(x, pty[1]).lean for x in v.elems) + "]"]
            if is_arr(v.ty) and v.ty[2] != pty[2]:
                raise Unsupported("array argument of a different length")
            return [v.atom()]
        if v.elems is not None:
            raise Unsupported("flattened array passed to a non-array parameter")
        return [v.atom()]

    def emit_call(self, name, recv, args):
        """call of a translated function of this unit: `recv` is the Lean name of the receiver (methods) or None.
        Result convention of every translated function: (return value?, `&mut` parameters in order…, receiver if `&mut self`)."""
        sig = self.u.sigs[name]
        if len(args) != len(sig["params"]):
            raise Unsupported(f"call of {name} with {len(args)} arguments")
        vals, outs = [], []
        for a, (pn, pty) in zip(args, sig["params"]):
            n0 = len(self.lines)
            if pn in sig["mutref"]:
                place = a
                while place[0] in ("ref", "paren"):
                    place = place[2] if place[0] == "ref" else place[1]
                v = self.read_place(place, pty)
                outs.append((place, pty))
                vals.append([v, pty, True])
            else:
                v = self.expr(a, pty if pty != ("named", "Self") else None)
                vals.append([v, pty, False])
            for prev in vals[:-1]:
                if not prev[2]:
                    prev[0] = self.pin(prev[0], n0)
        texts = []
        for v, pty, _ in vals:
            texts += self.arg_texts(v, pty)
        fn = getattr(self.u, "extern", {}).get(name) or f"{self.u.namespace}.{name}"
        call = fn + (f" {recv}" if recv is not None else "") + "".join(" " + t for t in texts)
        ret = sig["ret"]
        if ret in (("named", self.u.name),):
            ret = ("named", "Self")
        comps = (["ret"] if ret is not None else []) + [("out", o) for o in outs] + \
                ([("recv", recv)] if sig["selfkind"] == "mut" else [])
        n = len(comps)
        if n == 0:
            return Val("()", "unit")
        if comps == ["ret"]:
            return Val(call, ret)
        if n == 1:
            t = call
        else:
            t = self.fresh("r")
            self.emit(f"let {t} := {call};")
        result = Val("()", "unit")
        for i, c in enumerate(comps):
            text = self.proj(t, i, n)
            if c == "ret":
                result = Val(text, ret)
            elif c[0] == "recv":
                self.emit(f"let {recv} := {text};")
            else:
                place, pty = c[1]
                self.write_place(place, Val(text, pty))
        return result

    def copy_from_slice(self, dst, src):
        """`dst[a..b].copy_from_slice(&src[c..d])` as element assignments.  In safe Rust the two slices cannot overlap (one is
        borrowed mutably), so copying element by element in increasing order is the same as the simultaneous copy."""
        dbase, doff, dlen = self.slice_of(dst)
        sv = None
        s0 = src
        while s0[0] in ("ref", "paren"):
            s0 = s0[2] if s0[0] == "ref" else s0[1]
        if s0[0] == "path" and len(s0[1]) == 1:
            v = self.lookup(s0[1][0])
            if v is not None and v.elems is not None and v.view is None:
                sv = v.elems
        if sv is not None:
            sbase, soff, slen = None, 0, len(sv)
        else:
            sbase, soff, slen = self.slice_of(src)
        n = dlen if dlen is not None else slen
        if n is None or (slen is not None and slen != n) or (dlen is not None and dlen != n):
            raise Unsupported("copy_from_slice with lengths that are not equal constants")
        flat = sv is not None
        if not flat:
            for b in (dbase, sbase):
                kind, pl, _ = self.resolve_base(b)
                if (kind == "var" and pl.elems is not None) or (kind == "field" and isinstance(pl[2], list)):
                    flat = True
        if flat:
            if n > 64:
                raise Unsupported("unrolled copy of more than 64 elements")
            for k in range(n):
                x = sv[k] if sv is not None else self.read_elem(sbase, ("lit", soff + k, None))
                self.write_elem(dbase, ("lit", doff + k, None), x)
            return Val("()", "unit")
        j = self.fresh("j") + "'"        # not a Rust identifier: cannot clash with a source variable
        def at(base, off):
            return ("index", base, ("path", [j]) if off == 0 else ("bin", "+", ("lit", off, "usize"), ("path", [j])))
        body = [("assign", at(dbase, doff), None, at(sbase, soff))]
        self.for_stmt(("for", ("name", j), ("range", ("lit", 0, "usize"), ("lit", n, "usize"), False), (body, None)))
        return Val("()", "unit")

    def copy_within(self, recv, src, dest):
        """`a.copy_within(lo..hi, d)`: memmove inside one slice — all source elements are read before the first is written"""
        base, off, ln = self.slice_of(recv)
        s0 = src
        while s0[0] == "paren":
            s0 = s0[1]
        if s0[0] != "range" or s0[1] is None or s0[2] is None:
            raise Unsupported("copy_within with an open range")
        lo, hi, d = self.expr(s0[1], "nat").lit, self.expr(s0[2], "nat").lit, self.expr(dest, "nat").lit
        if lo is None or hi is None or d is None:
            raise Unsupported("copy_within with bounds that are not constants")
        if s0[3]:
            hi += 1
        n = hi - lo
        if n < 0 or n > 64 or (ln is not None and (hi > ln or d + n > ln)):
            raise Unsupported("copy_within out of range / of more than 64 elements")
        tmps = []
        for k in range(n):
            x = self.read_elem(base, ("lit", off + lo + k, "usize"))
            t = self.fresh("c")
            self.emit(f"let {t} := {x.lean};")
            tmps.append(Val(t, x.ty))
        for k in range(n):
            self.write_elem(base, ("lit", off + d + k, "usize"), tmps[k])
        return Val("()", "unit")

    def call(self, e, want):
        f, args = e[1], e[2]
        if f[0] != "path":
            raise Unsupported("call of a non-path")
        name = f[1][-1]
        full = "::".join(f[1])
        if (name == "w" and len(f[1]) == 1 and "w" not in self.u.sigs) or full in ("Wrapping", "core::num::Wrapping"):
            # core::num::Wrapping constructor
            if len(args) != 1:
                raise Unsupported("Wrapping constructor")
            v = self.expr(args[0], unwrap_ty(want) if want in INT else None)
            wt = {"u32": "w32", "u64": "w64"}.get(v.ty, v.ty)
            if v.ty is None and want in WRAP:
                v = self.fix(v, WRAP[want]); wt = want
            return Val(v.lean, wt, lit=v.lit, elems=v.elems)
        if full in self.u.prims or name in self.u.prims:
            return (self.u.prims.get(full) or self.u.prims[name])(self, args, want)
        if name in self.u.sigs and not self.u.sigs[name]["selfkind"] and \
                (len(f[1]) == 1 or (len(f[1]) == 2 and f[1][0] in ("Self", self.u.name))):
            if len(f[1]) == 1 and self.scope.get(name) is not None:
                raise Unsupported(f"call of the local value {name}")
            return self.emit_call(name, None, args)
        if full in ("u32::from", "u64::from", "u16::from", "u128::from") and len(args) == 1:
            v = self.expr(args[0])
            to = f[1][0]
            if v.ty not in INT or v.ty.startswith("i") or v.ty in WRAP or INT[v.ty] > INT[to]:
                raise Unsupported(f"{full} of a value of type {v.ty}")
            return v if INT[v.ty] == INT[to] else Val(f"{v.atom()}.setWidth {INT[to]}", to)
        if full in ("u32::from_le_bytes", "u64::from_le_bytes"):
            a = self.expr(args[0])
            if a.elems is None:
                raise Unsupported("from_le_bytes of a non-literal array")
            return Val(("U32" if name and f[1][0] == "u32" else "U64") + ".ofLE " + " ".join(x.atom() for x in a.elems), f[1][0])
        raise Unsupported(f"call of {full}")

    def struct_lit(self, e):
        si = self.u.sinfo
        if e[1] not in (si.name, "Self"):
            raise Unsupported(f"struct literal {e[1]}")
        parts = {}
        for fname, fe in e[2]:
            rty, proj = self.self_field(fname)
            v = self.expr(fe, rty)
            if isinstance(proj, list):
                if v.elems is None or len(v.elems) != len(proj):
                    raise Unsupported("array field initialised from a non-flattened value")
                for p, x in zip(proj, v.elems):
                    parts[p] = self.coerce(x, rty[1]).lean
            elif v.elems is not None:
                if not is_arr(rty) or len(v.elems) != rty[2]:
                    raise Unsupported("array field initialised from a value of a different shape")
                parts[proj] = "#[" + ", ".join(self.fix(x, rty[1]).lean for x in v.elems) + "]"
            else:
                parts[proj] = v.lean
        missing = [f for f in si.fields if f not in dict(e[2])]
        if missing:
            raise Unsupported(f"struct literal without field {missing[0]}")
        if list(parts) == [None]:
            return Val(parts[None], ("named", "Self"))
        return Val("{ " + ", ".join(f"{p} := {x}" for p, x in parts.items()) + f" : {si.lean} }}", ("named", "Self"))

    # ---------- blocks
    def sub(self, f):
        """run f with a fresh line buffer and child scope; returns (lines, result)"""
        saved_lines, saved_scope = self.lines, self.scope
        self.lines, self.scope = [], Scope(saved_scope)
        try:
            r = f()
            return self.lines, r
        finally:
            self.lines, self.scope = saved_lines, saved_scope

    def tuple_of(self, names):
        parts = []
        for n in names:
            if n == "self":
                parts.append("st")
                continue
            v = self.scope.get(n)
            if v is None:
                raise Unsupported(f"assigned variable {n} not in scope")
            if v.elems is not None:
                parts.extend(x.lean for x in v.elems)
            else:
                parts.append(v.lean)
        if not parts:
            return "()"
        return parts[0] if len(parts) == 1 else "(" + ", ".join(parts) + ")"

    def render(self, lines, final):
        return "(" + " ".join(lines) + " " + final + ")" if lines else final

    def if_expr(self, e, want):
        _, c, th, el = e
        self.preflush(e)
        cv = self.expr(c, "bool")
        if el is None:
            raise Unsupported("if without else in value position")
        # variables assigned inside the branches are returned together with the value
        names = self.assigned(th[0], th[1])
        for n in self.assigned(el[0], el[1]):
            if n not in names:
                names.append(n)
        def br(b):
            def f():
                self.stmts(b[0])
                v = self.expr(b[1], want)
                self.end_scope()
                return v, (self.tuple_of(names) if names else None)
            return self.sub(f)
        l1, (v1, t1) = br(th)
        l2, (v2, t2) = br(el)
        ty = v1.ty if v1.ty is not None else v2.ty
        v1, v2 = self.fix(v1, ty), self.fix(v2, ty)
        if not names:
            return Val(f"if {cv.lean} then {self.render(l1, v1.lean)} else {self.render(l2, v2.lean)}", ty)
        if v1.elems is not None or v2.elems is not None:
            raise Unsupported("array-valued if with assignments in its branches")
        def strip(t):
            return t[1:-1] if t.startswith("(") and t.endswith(")") else t
        r = self.fresh("b")
        pat = f"({r}, {strip(self.tuple_of(names))})"
        self.emit(f"let {pat} := if {cv.lean} then {self.render(l1, '(' + v1.lean + ', ' + strip(t1) + ')')} "
                  f"else {self.render(l2, '(' + v2.lean + ', ' + strip(t2) + ')')};")
        return Val(r, ty)

    def block_expr(self, stmts, tail, want):
        if tail is None:
            raise Unsupported("block without value in expression position")
        # a block expression may assign outer variables: hoist its statements into the current sequence
        saved = self.scope
        self.scope = Scope(saved)
        try:
            self.stmts(stmts)
            v = self.expr(tail, want)
            t = self.fresh("b")
            self.emit(f"let {t} := {v.lean};")
            return Val(t, v.ty)
        finally:
            self.scope = saved

    def declare_let(self, s):
        _, pat, mut, ty, init = s
        if pat[0] != "name":
            return self.declare_split(pat, init)
        n = pat[1]
        self.check_shadow(n)
        key = ("let", self.decl_counter())
        dty = parse_ty(ty) if ty else None
        if dty is None:
            dty = self.inferred.get(key)
        if init is None:
            raise Unsupported("let without initialiser")
        i0 = init
        while i0[0] == "paren":
            i0 = i0[1]
        if i0[0] == "ref" and i0[2][0] == "field" and self.struct_var(i0[2][1]) is not None:
            # `let t = &mut owner.field;` with an array field: moved out, written back when the owner is used again
            owner = self.place_root(i0[2][1])
            rty, proj = self.self_field(i0[2][2])
            if owner is not None and is_arr(rty) and isinstance(proj, str):
                sv = self.struct_var(i0[2][1])
                ln = lname(n)
                self.emit(f"let {ln} := {sv}.{proj};")
                var = Var(n, rty, ln, key=key, alias=(owner, i0[2][2]) if i0[1] else None)
                self.scope.declare(n, var)
                if i0[1]:
                    self.aliases.append(var)
                return
        v = self.expr(init, dty)
        if v.lean is not None and "@@ELEM@@" in v.lean:
            ity = self.inferred.get(key)
            if isinstance(ity, tuple) and ity[0] == "arr" and ity[1] is not None:
                v = Val(v.lean.replace("@@ELEM@@", lit_lean(0, ity[1])), ity)
            elif isinstance(dty, tuple) and dty[0] == "arr" and dty[1] is not None:
                v = Val(v.lean.replace("@@ELEM@@", lit_lean(0, dty[1])), dty)
        vty = dty if dty is not None else v.ty
        ln = lname(n)
        if v.elems is not None:
            # array value: flatten when all uses index with literals
            elems = []
            for i, x in enumerate(v.elems):
                ety = vty[1] if isinstance(vty, tuple) and vty[0] == "arr" and vty[1] is not None else x.ty
                x = self.fix(x, ety)
                en = f"{ln}_{i}"
                if x.ty is None and x.lit is not None:
                    # element type still unknown (e.g. `[0; 8]`): emitted once the type is inferred
                    self.emit(f"let {en} := @@UNTYPED{x.lit}@@;")
                else:
                    self.emit(f"let {en} := {x.lean};")
                elems.append(Val(en, ety))
            self.scope.declare(n, Var(n, vty, None, elems=elems, key=key))
            return
        if vty is None and v.lit is not None:
            self.emit(f"let {ln} := @@UNTYPED{v.lit}@@;")
        else:
            self.emit(f"let {ln} := {v.lean};")
        self.scope.declare(n, Var(n, vty, ln, key=key))

    def check_shadow(self, n):
        """a new binding of a name that is the base of a live slice view / alias would silently redirect it"""
        sc = self.scope
        while sc:
            for v in sc.vars.values():
                if (v.view is not None and self.place_root(v.view[0]) == n) or (v.alias is not None and not v.dead and v.alias[0] == n):
                    raise Unsupported(f"`{n}` re-declared while borrowed")
            sc = sc.parent

    def declare_split(self, pat, init):
        """`let (p, q) = x.split_at_mut(k);` / `x.split_at(k)`: p and q are views of x at offsets 0 and k"""
        i0 = init
        while i0 is not None and i0[0] == "paren":
            i0 = i0[1]
        if pat[0] != "tuple" or len(pat[1]) != 2 or i0 is None or i0[0] != "mcall" or i0[2] not in ("split_at", "split_at_mut") \
                or len(i0[3]) != 1:
            raise Unsupported("tuple pattern")
        k = self.expr(i0[3][0], "nat").lit
        if k is None:
            raise Unsupported("split_at with a non-constant position")
        base, off, ln = self.slice_of(i0[1])
        if ln is not None and k > ln:
            raise Unsupported("split_at beyond the length")
        kind, pl, _ = self.resolve_base(base)
        for n in pat[1]:
            self.check_shadow(n)
        if kind == "var" and pl.elems is not None:
            es = pl.elems[off:] if ln is None else pl.elems[off:off + ln]
            if i0[2] == "split_at_mut":
                raise Unsupported("split_at_mut of a flattened array")
            self.scope.declare(pat[1][0], Var(pat[1][0], ("arr", pl.ty[1] if pl.ty else None, k), None, elems=es[:k], const=True))
            self.scope.declare(pat[1][1], Var(pat[1][1], ("arr", pl.ty[1] if pl.ty else None, len(es) - k), None, elems=es[k:], const=True))
            return
        if kind == "field" and isinstance(pl[2], list):
            raise Unsupported("split_at of a flattened field")
        self.scope.declare(pat[1][0], Var(pat[1][0], None, None, view=(base, off, k)))
        self.scope.declare(pat[1][1], Var(pat[1][1], None, None, view=(base, off + k, None if ln is None else ln - k)))

    def decl_counter(self):
        self._decls = getattr(self, "_decls", 0) + 1
        return self._decls

    def local_consts(self):
        d = dict(self.u.const_vals)
        sc, chain = self.scope, []
        while sc:
            chain.append(sc); sc = sc.parent
        for sc in reversed(chain):
            for n, v in sc.vars.items():
                if v.const and getattr(v, "lit", None) is not None:
                    d[n] = v.lit
                elif n in d:
                    del d[n]
        return d

    def stmts(self, stmts):
        for i, s in enumerate(stmts):
            self.stmt(s, stmts[i + 1:])

    def stmt(self, s, rest):
        k = s[0]
        if k == "let":
            return self.declare_let(s)
        if k == "const":
            v = self.expr(s[3], parse_ty(s[2]))
            ln = lname(s[1])
            cty = parse_ty(s[2])
            if v.elems is not None:
                self.emit(f"let {ln} := [{', '.join(x.lean for x in v.elems)}];")
                self.scope.declare(s[1], Var(s[1], ("list", cty[1]), ln, const=True))
            else:
                self.emit(f"let {ln} := {v.lean};")
                var = Var(s[1], cty, ln, const=True)
                var.lit = v.lit if v.lit is not None else (const_eval(s[3], self.local_consts()) if cty == "nat" else None)
                self.scope.declare(s[1], var)
            return
        if k == "assign":
            _, place, op, rhs = s
            if op is None:
                cur_ty = None
                try:
                    cur = self.read_place(place)
                    cur_ty = cur.ty
                except Unsupported:
                    cur = None
                v = self.expr(rhs, cur_ty)
                self.write_place(place, v)
            else:
                # compound assignment: the right operand is evaluated first, the place is read after it
                hint = None
                try:
                    hint = self.read_place(place).ty
                except Unsupported:
                    pass
                if op in ("<<", ">>"):
                    b = self.expr(rhs)
                else:
                    b = self.expr(rhs, hint)
                a = self.read_place(place)
                v = self.binop(op, None, None, None, pre=(a, b))
                self.write_place(place, v)
            return
        if k == "expr":
            e = s[1]
            if e[0] == "if":
                return self.if_stmt(e)
            if e[0] == "block":
                saved = self.scope
                self.scope = Scope(saved)
                try:
                    self.stmts(e[1])
                    if e[2] is not None:
                        self.expr(e[2])
                finally:
                    self.scope = saved
                return
            if e[0] == "macro":
                if e[1] in ("trace", "debug", "info", "warn", "error"):
                    return
                if e[1] in ("assert", "assert_eq", "assert_ne", "debug_assert", "debug_assert_eq", "debug_assert_ne"):
                    # a failing assertion is a panic: the subject of C14, not of this tie (reported, not translated)
                    self.ignored_asserts.append(e[1] + "!(" + " ".join(t[1] for t in e[2])[:120] + ")")
                    return
                raise Unsupported(f"statement macro {e[1]}!")
            self.expr(e)       # for its effects (self calls emit bindings)
            return
        if k == "for":
            return self.for_stmt(s)
        if k == "fn":
            # a nested fn item: translated separately when it is listed in the unit; a call of one that is not raises
            # Unsupported at the call (`call of <name>`)
            if self.scope.get(s[1].name) is not None:
                raise Unsupported(f"nested fn {s[1].name} shadows a variable")
            m = self.u.methods.get(s[1].name)
            if m is not None and (m.body != s[1].body or m.params != s[1].params or m.ret != s[1].ret):
                raise Unsupported(f"nested fn {s[1].name} is not the translated function of that name")
            return
        raise Unsupported(f"statement {k}")

    def if_stmt(self, e):
        _, c, th, el = e
        self.preflush(e)
        cv = self.expr(c, "bool")
        names = self.assigned(th[0], th[1])
        if el is not None:
            for n in self.assigned(el[0], el[1]):
                if n not in names:
                    names.append(n)
        if not names:
            return
        def br(b):
            def f():
                if b is not None:
                    self.stmts(b[0])
                    if b[1] is not None:
                        self.stmt(("expr", b[1]), [])       # statement context: an `else if` chain, a unit-valued block
                self.end_scope()
                return self.tuple_of(names)
            return self.sub(f)
        l1, t1 = br(th)
        l2, t2 = br(el)
        pat = self.tuple_of(names)
        self.emit(f"let {pat} := if {cv.lean} then {self.render(l1, t1)} else {self.render(l2, t2)};")

    def subst_deref(self, x, m):
        """replace `*name` by m[name] in an AST fragment; any other mention of such a name is not understood"""
        if isinstance(x, tuple):
            if len(x) == 2 and x[0] == "deref" and x[1][0] == "path" and len(x[1][1]) == 1 and x[1][1][0] in m:
                return m[x[1][1][0]]
            if len(x) == 3 and x[0] == "field" and x[1][0] == "path" and len(x[1][1]) == 1 and x[1][1][0] in m:
                return ("field", m[x[1][1][0]], x[2])          # `x.0` through the reference
            if len(x) == 2 and x[0] == "path" and len(x[1]) == 1 and x[1][0] in m:
                raise Unsupported(f"use of the iteration reference `{x[1][0]}` other than through `*{x[1][0]}`")
            return tuple(self.subst_deref(y, m) for y in x)
        if isinstance(x, list):
            return [self.subst_deref(y, m) for y in x]
        return x

    def zip_for(self, var, it0, body):
        """`for (x, y) in a.iter_mut().zip(b.iter()) { … *x … *y … }`: element-wise loop over min(len a, len b) positions.
        A side may also be `b.chunks_exact(c)` (c constant): then its variable is the k-th chunk, a slice view of b."""
        if len(var[1]) != 2 or it0[0] != "mcall" or it0[2] != "zip" or len(it0[3]) != 1:
            raise Unsupported("tuple loop variable")
        sides = []
        for side in (it0[1], it0[3][0]):
            if side[0] == "mcall" and side[2] in ("iter", "iter_mut") and not side[3]:
                b, o, l = self.slice_of(side[1])
                sides.append((b, o, l, 1, False))
            elif side[0] == "mcall" and side[2] == "chunks_exact" and len(side[3]) == 1:
                c = self.expr(side[3][0], "nat").lit
                b, o, l = self.slice_of(side[1])
                if not c:
                    raise Unsupported("chunks_exact with a non-constant size")
                sides.append((b, o, None if l is None else l // c, c, True))
            else:
                raise Unsupported("zip of something other than .iter() / .iter_mut() / .chunks_exact(c)")
        if sides[0][2] is None or sides[1][2] is None:
            raise Unsupported("zip over slices of unknown length")
        n = min(sides[0][2], sides[1][2])
        flat = any(c for _, _, _, _, c in sides)
        for b, _, _, _, _ in sides:
            kind, pl, _ = self.resolve_base(b)
            if (kind == "var" and pl.elems is not None) or (kind == "field" and isinstance(pl[2], list)):
                flat = True
        if body[1] is not None:
            raise Unsupported("loop body with a value")
        if flat:
            if n > 64:
                raise Unsupported("unrolled zip of more than 64 elements")
            for k in range(n):
                saved = self.scope
                self.scope = Scope(saved)
                try:
                    m = {}
                    for name, (b, o, _, c, chunk) in zip(var[1], sides):
                        if chunk:
                            self.scope.declare(name, Var(name, None, None, view=(b, o + c * k, c)))
                        else:
                            m[name] = ("index", b, ("lit", o + k, "usize"))
                    self.stmts(self.subst_deref(body[0], m))
                    self.end_scope()
                finally:
                    self.scope = saved
            return
        j = self.fresh("j") + "'"        # not a Rust identifier: cannot clash with a source variable
        def at(base, off):
            return ("index", base, ("path", [j]) if off == 0 else ("bin", "+", ("lit", off, "usize"), ("path", [j])))
        m = {name: at(b, o) for name, (b, o, _, _, _) in zip(var[1], sides)}
        self.for_stmt(("for", ("name", j), ("range", ("lit", 0, "usize"), ("lit", n, "usize"), False),
                       (self.subst_deref(body[0], m), None)))

    def for_stmt(self, s):
        try:
            return self.for_stmt_(s)
        except Unsupported as e:
            # `for i in 0..8 { a[i] = w(b[i]); }` with a flattened `b`: a loop over a small literal range is unrolled
            if "variable index into a flattened array" not in str(e):
                raise
            _, var, it, body = s
            r = it
            while r[0] in ("paren",):
                r = r[1]
            if var[0] != "name" or r[0] != "range" or r[1] is None or r[2] is None or body[1] is not None:
                raise
            lo, hi = const_eval(r[1], self.u.const_vals), const_eval(r[2], self.u.const_vals)
            if lo is None or hi is None or hi - lo + (1 if r[3] else 0) > 16:
                raise
            if any(st[0] == "assign" and self.place_root(st[1]) == var[1] for st in body[0]):
                raise
            for k in range(lo, hi + (1 if r[3] else 0)):
                saved = self.scope
                self.scope = Scope(saved)
                try:
                    v = Var(var[1], "nat", str(k), const=True)
                    v.lit = k
                    self.scope.declare(var[1], v)
                    self.stmts(body[0])
                    self.end_scope()
                finally:
                    self.scope = saved

    def for_stmt_(self, s):
        _, var, it, body = s
        self.preflush(s)
        # iterable
        it0 = it
        while it0[0] in ("ref", "paren"):
            it0 = it0[2] if it0[0] == "ref" else it0[1]
        if var[0] != "name":
            return self.zip_for(var, it0, body)
        if it0[0] == "mcall" and it0[2] == "iter_mut" and not it0[3] and var[1] != "_":
            # `for x in a.iter_mut() { … *x … }`: element-wise over the whole array
            base, off, ln = self.slice_of(it0[1])
            kind, pl, _ = self.resolve_base(base)
            if ln is None or (kind == "var" and pl.elems is not None) or (kind == "field" and isinstance(pl[2], list)) or body[1] is not None:
                raise Unsupported("iter_mut over this value")
            j = self.fresh("j") + "'"
            at = ("index", base, ("path", [j]) if off == 0 else ("bin", "+", ("lit", off, "usize"), ("path", [j])))
            return self.for_stmt(("for", ("name", j), ("range", ("lit", 0, "usize"), ("lit", ln, "usize"), False),
                                  (self.subst_deref(body[0], {var[1]: at}), None)))
        if it0[0] == "mcall" and it0[2] == "iter":
            it0 = it0[1]
        mapf = None
        if it0[0] == "mcall" and it0[2] == "map" and len(it0[3]) == 1 and it0[3][0][0] == "closure" and len(it0[3][0][1]) == 1:
            # `(a..b).map(|i| e)`: the list of the images
            r0 = it0[1]
            while r0[0] == "paren":
                r0 = r0[1]
            if r0[0] != "range":
                raise Unsupported(".map over something other than a range")
            c = it0[3][0]
            sc = Scope(self.scope)
            sc.declare(c[1][0], Var(c[1][0], "nat", lname(c[1][0])))
            saved, n0 = self.scope, len(self.lines)
            self.scope = sc
            try:
                img = self.expr(c[2], "nat")
            finally:
                self.scope = saved
            if len(self.lines) != n0 or img.ty != "nat":
                raise Unsupported("closure of .map with effects or a non-usize value")
            mapf = f"(fun {lname(c[1][0])} => {img.lean})"
            it0 = r0
        if it0[0] == "range":
            if it0[2] is None:
                raise Unsupported("unbounded range")
            lo = self.expr(it0[1], "nat") if it0[1] is not None else Val("0", "nat", lit=0)
            h0 = it0[2]
            while h0[0] == "paren":
                h0 = h0[1]
            hv = self.lookup(h0[1][0]) if h0[0] == "path" and len(h0[1]) == 1 else None
            hi = self.expr(it0[2]) if hv is not None and hv.ty in INT else self.expr(it0[2], "nat")
            vty = "nat"
            if hi.ty is None:
                hi = self.fix(hi, "nat")
            elif hi.ty in INT and not hi.ty.startswith("i") and INT[hi.ty] <= 64 and lo.lit == 0:
                # `0..n` with n: u32 / u64 …: n.toNat iterations; the counter itself must not be used (it is not a usize)
                if var[1] != "_" and self.mentions(body, var[1]):
                    raise Unsupported("loop counter of a non-usize integer type is used")
                hi = Val(f"{hi.atom()}.toNat", "nat", lit=hi.lit)
            elif hi.ty != "nat":
                raise Unsupported("range bound of this type")
            if it0[3]:
                hi = Val(f"({hi.lean} + 1)", "nat", lit=None if hi.lit is None else hi.lit + 1)
            if lo.lit == 0:
                lst = f"(List.range {hi.atom()})"
            else:
                lst = f"(List.range' {lo.atom()} ({hi.atom()} - {lo.atom()}))"
            if mapf is not None:
                lst = f"(List.map {mapf} {lst})"
        else:
            v = self.expr(it0)
            if isinstance(v.ty, tuple) and v.ty[0] == "list":
                lst, vty = v.atom(), v.ty[1]
            elif v.elems is not None:
                lst, vty = "[" + ", ".join(x.lean for x in v.elems) + "]", v.elems[0].ty
            else:
                raise Unsupported("for over this iterable")
        names = self.assigned(body[0], body[1], declared={var[1]})
        pat = None
        lv = "_" if var[1] == "_" else lname(var[1])
        def f():
            if var[1] != "_":
                self.scope.declare(var[1], Var(var[1], vty, lv, const=True))
            self.stmts(body[0])
            if body[1] is not None:
                self.expr(body[1])
            self.end_scope()
            return self.tuple_of(names)
        lines, t = self.sub(f)
        pat = self.tuple_of(names)
        self.emit(f"let {pat} := List.foldl (fun {pat if pat.startswith('(') or pat == '()' else '(' + pat + ')'} "
                  f"{lv} => {self.render(lines, t)}) {pat} {lst};")

    # ---------- whole function
    def body_to_lean(self, stmts, tail, ret_ty, selfkind):
        """sequence with early-return support; returns a Lean expression string"""
        for i, s in enumerate(stmts):
            if s[0] == "expr" and s[1][0] == "if" and s[1][3] is None:
                th = s[1][2]
                if th[0] and th[0][-1][0] == "return" and th[1] is None:
                    # if c { …; return e; }  rest   ==>   if c then (…; e) else rest
                    self.stmts(stmts[:i])
                    cv = self.expr(s[1][1], "bool")
                    def f():
                        self.stmts(th[0][:-1])
                        return self.final(th[0][-1][1], ret_ty, selfkind)
                    l1, r1 = self.sub(f)
                    def g():
                        return self.body_to_lean(stmts[i + 1:], tail, ret_ty, selfkind)
                    l2, r2 = self.sub(g)
                    return f"if {cv.lean} then {self.render(l1, r1)} else {self.render(l2, r2)}"
            if s[0] == "return":
                self.stmts(stmts[:i])
                return self.final(s[1], ret_ty, selfkind)
            if s[0] == "expr" and s[1][0] == "unsafe":
                self.stmts(stmts[:i])
                arr, nbytes, rdfn = self.unsafe_fill(s[1][1])
                bs, er = self.fresh("bytes"), self.fresh("err")
                def g():
                    self.emit(f"let {arr.lean} := ({rdfn} {bs} {arr.ty[2]}).toArray;")
                    return self.body_to_lean(stmts[i + 1:], tail, ret_ty, selfkind)
                l2, r2 = self.sub(g)
                rng = self.rng.lean
                return (f"match fill {rng} {nbytes} with\n  | (.ok {bs}, {rng}) => {self.render(l2, r2)}"
                        f"\n  | (.error {er}, {rng}) => (.error {er}, {rng})")
        self.stmts(stmts)
        return self.final(tail, ret_ty, selfkind)

    def unsafe_fill(self, toks):
        """The one `unsafe` idiom that is mapped — a PRIMITIVE of the trusted base (DESIGN §3b, Extension):
              let ptr = ARR.as_mut_ptr() as *mut u8;
              let slice = slice::from_raw_parts_mut(ptr, N * size_of(elem));
              RNG.fill_bytes(slice);              or   RNG.try_fill_bytes(slice)?;
        where ARR is a local array of N words that covers exactly these bytes and RNG is the source parameter: the source is
        asked for N * size bytes, and (little-endian host) ARR becomes the little-endian words of these bytes; a failing source
        ends the function with its error."""
        text = " ".join(t[1] for t in toks)
        m = re.match(r"^let ptr = (\w+) \. as_mut_ptr \( \) as \* mut u8 ; let slice = (?:core :: )?slice :: from_raw_parts_mut \( ptr , "
                     r"(.+?) \) ; (\w+) \. (?:fill_bytes \( slice \)|(try_fill_bytes) \( slice \) \?) ;$", text)
        if m is None or self.rng is None or m.group(3) != self.rng.name:
            raise Unsupported("unsafe block")
        if bool(m.group(4)) != self.rng_fallible:
            raise Unsupported("unsafe block (fill / try_fill does not match the function's result type)")
        arr = self.lookup(m.group(1))
        ty = arr.ty if arr is not None and arr.ty is not None else (self.inferred.get(arr.key) if arr is not None else None)
        if arr is None or arr.elems is not None or arr.view is not None or not is_arr(ty) or unwrap_ty(ty[1]) not in ("u32", "u64"):
            raise Unsupported("unsafe block (the array is not a local word array)")
        w = INT[ty[1]]
        try:
            ne = rsfront.Parser(rsfront.lex(m.group(2).replace(" ", "")), {}).parse_expr_all()
        except Exception:
            raise Unsupported("unsafe block (length expression)")
        nbytes = const_eval(ne, self.local_consts())
        if nbytes != ty[2] * (w // 8):
            raise Unsupported("unsafe block (the byte length is not the size of the array)")
        arr.ty = ty
        return arr, nbytes, "readU32s" if w == 32 else "readU64s"

    def final(self, tail, ret_ty, selfkind):
        """the function's result: (return value?, `&mut` parameters in order…, st if `&mut self`)"""
        comps = []
        if ret_ty is None:
            if tail is not None:
                self.stmt(("expr", tail), [])          # a unit-valued tail (`if … { … } else if … { … }`) is a statement
        else:
            if tail is None:
                raise Unsupported("function with a return type but no tail expression")
            if self.rng is not None and self.rng_fallible:
                t0 = tail
                while t0[0] == "paren":
                    t0 = t0[1]
                if not (t0[0] == "call" and t0[1] == ("path", ["Ok"]) and len(t0[2]) == 1):
                    raise Unsupported("result of a fallible constructor that is not Ok(…)")
                tail, ret_ty = t0[2][0], ("named", "Self")
            v = self.expr(tail, ret_ty if ret_ty != ("named", "Self") else None)
            if v.elems is not None:
                if not is_arr(ret_ty) or len(v.elems) != ret_ty[2]:
                    raise Unsupported("array result of a different shape")
                comps.append("#[" + ", ".join(self.fix(x, ret_ty[1]).lean for x in v.elems) + "]")
            else:
                if v.lean is None or "@@" in v.lean and "@@ELEM@@" in v.lean:
                    raise Unsupported("result of unknown element type")
                comps.append(v.lean)
        for a in list(self.aliases):
            self.flush(a)
        for n in self.outs:
            ov = getattr(self, "out_vars", {}).get(n) or self.scope.get(n)      # (the name may have been shadowed by a local)
            if ov is None or ov.elems is not None or ov.view is not None:
                raise Unsupported(f"`&mut` parameter {n} is not a plain variable at the end of the function")
            comps.append(ov.lean)
        if selfkind == "mut":
            comps.append("st")
        if self.rng is not None:
            if len(comps) != 1:
                raise Unsupported("function with a source parameter and other results")
            return f"(.ok {Val(comps[0], None).atom()}, {self.rng.lean})"
        if not comps:
            return "()"
        return comps[0] if len(comps) == 1 else "(" + ", ".join(comps) + ")"

    def translate(self):
        fn = self.fn
        sig = self.u.sigs[self.fname]
        self.sig = sig
        self.u.enter()
        rsfront._expansion_counter[0] = 0
        stmts, tail = parse_body(fn.body, self.u.macros)
        self.lines = []
        self.scope = Scope()
        self.outs = []
        params = []
        if sig["selfkind"]:
            params.append(f"(st : {self.u.sinfo.lean})")
            self.scope.declare("self", Var("self", ("named", "Self"), "st"))
        rparts = []
        self.rng, self.rng_fallible = None, False
        gen = " ".join(t[1] for t in (fn.generics or []))
        for n, ty in sig["params"]:
            mr = n in sig["mutref"]
            if isinstance(ty, tuple) and ty[0] == "named" and mr and (
                    ty[1] in ("implRngCore", "implTryRngCore") or re.search(r"\b" + re.escape(ty[1]) + r" : (Try)?RngCore\b", gen)):
                # a source of bytes: `(fill : TryFill ρ) (rng : ρ)`; the function returns `Except SrcErr result × ρ`
                if self.rng is not None or sig["selfkind"]:
                    raise Unsupported("more than one source parameter / source parameter of a method")
                self.rng = Var(n, ("named", "@rng"), lname(n))
                self.scope.declare(n, self.rng)
                params.append(f"{{ρ : Type}} (fill : TryFill ρ) ({lname(n)} : ρ)")
                continue
            if isinstance(ty, tuple) and ty[0] == "arr" and ty[1] == "u8":
                if mr:
                    raise Unsupported("`&mut` byte-string parameter")
                self.scope.declare(n, Var(n, ty, lname(n)))
                params.append(f"({lname(n)} : List U8)")
            elif isinstance(ty, tuple) and ty[0] == "named" and ty[1] in self.u.prims.get("@bytes_types", ()):
                self.scope.declare(n, Var(n, ("arr", "u8", None), lname(n)))
                params.append(f"({lname(n)} : List U8)")
            elif isinstance(ty, tuple) and ty[0] == "named" and ty[1] == "Self::Seed":
                self.scope.declare(n, Var(n, ("arr", "u8", None), lname(n)))
                params.append(f"({lname(n)} : List U8)")
            elif is_arr(ty, flat=True):
                if mr:
                    raise Unsupported("`&mut` parameter that is a small (flattened) array")
                elems = [Val(f"{lname(n)}_{i}", ty[1]) for i in range(ty[2])]
                self.scope.declare(n, Var(n, ty, None, elems=elems))
                params += [f"({x.lean} : {lean_ty(ty[1])})" for x in elems]
            elif ty in (("named", "Self"), ("named", self.u.sinfo.name)) and not mr:
                # another value of the unit's struct (`rhs: &Self` of PartialEq::eq)
                self.scope.declare(n, Var(n, ("named", "Self"), lname(n)))
                params.append(f"({lname(n)} : {self.u.sinfo.lean})")
            else:
                if isinstance(ty, tuple) and ty[0] == "arr" and not isinstance(ty[2], int):
                    raise Unsupported(f"array parameter of unknown length {ty[2]}")
                self.scope.declare(n, Var(n, ty, lname(n), mutref=mr))
                params.append(f"({lname(n)} : {lean_ty(ty)})")
                if mr:
                    self.outs.append(n)
                    rparts.append(lean_ty(ty))
        ret = sig["ret"]
        if self.rng is not None:
            if isinstance(ret, tuple) and ret[0] == "named" and re.match(r"^Result<Self,\w+::Error>$", ret[1]):
                self.rng_fallible, ret = True, ("named", "Result")
            elif ret not in (("named", "Self"), ("named", self.u.name)):
                raise Unsupported("function with a source parameter that does not construct Self")
        body = self.body_to_lean(stmts, tail, ret, sig["selfkind"])
        if self.rng is not None:
            text = "\n  ".join(self.lines + [body])
            return params, f"Except SrcErr ({self.u.sinfo.lean}) × ρ", text
        if ret is not None:
            rparts.insert(0, self.u.sinfo.lean if ret in (("named", "Self"), ("named", self.u.name)) else lean_ty(ret))
        if sig["selfkind"] == "mut":
            rparts.append(self.u.sinfo.lean)
        rty = " × ".join(rparts) if rparts else "Unit"
        text = "\n  ".join(self.lines + [body])
        return params, rty, text

LAST = {}

def translate_fn(unit, fname):
    """fixpoint over the inference of untyped `let x = 0` declarations"""
    inferred = {}
    unit.enter()
    for _ in range(6):
        tr = FnTr(unit, fname, inferred)
        params, rty, text = tr.translate()
        if not tr.changed:
            break
    LAST[(unit.name, fname)] = dict(ignored_asserts=list(tr.ignored_asserts))
    def untyped(m):
        raise Unsupported(f"type of literal {m.group(1)} could not be inferred")
    if "@@ELEM@@" in text:
        raise Unsupported(f"element type of an array could not be inferred in {fname}")
    if "@@UNTYPED" in text or "@@LIT" in text:
        # last attempt: resolve from the inferred table is done through the re-run; anything left is unsupported
        m = re.search(r"@@(?:UNTYPED|LIT)(-?\d+)@@", text)
        raise Unsupported(f"type of literal {m.group(1)} could not be inferred in {fname}")
    return f"def {fname} {' '.join(params)} : {rty} :=\n  {text}"
