"""rs2lean.py — translator from the Rust subset of the generator crates to Lean 4 definitions.

Every run of a check re-reads /repo's *current* sources, re-translates the functions listed in `extract_units.py`
and re-checks, in Lean, that each translated function equals the corresponding function of the hand-written
model (`lean/Rngs/Model`) for all inputs.  This is the second tie between model and code (DESIGN.md §3b): it is a
theorem, not a sample — but it trusts this translator.

Translation scheme (imperative -> pure):
  * `&mut self` methods become `St -> (result ×) St`; `self.f = e` becomes `let st := { st with f := e }`;
  * `let` / assignment / op-assignment become shadowing `let`s; small arrays that are only indexed by literals are
    flattened to one variable per element;
  * `if` without value: the variables assigned in either branch are returned as a tuple;
    `if c { …; return e }` followed by the rest becomes `if c then e else rest`;
  * `for x in a..b` / `for x in &CONST`: `List.foldl` over `List.range' a (b-a)` / the constant list, the accumulator
    being the tuple of variables assigned in the body;
  * `macro_rules!` invocations are expanded (rsfront.expand, with hygiene for the macro's own `let`s);
  * calls to other methods of the same type call their translations; a small table of primitives maps the rand_core
    helpers (`fill_bytes_via_next`, `next_u64_via_u32`, `read_u32_into`, …) to their models in `Rngs/Model/RandCore`.
Integer semantics: `wrapping_*`, `^ | & << >>`, `rotate_*`, `as` follow Rust; plain `+ - *` are translated as wrapping
(the overflow checks of debug builds are the subject of C14, not of this tie).  Shifts must be by literals or loop
counters smaller than the width, else `Unsupported`."""
import re
from rsfront import Unsupported, parse_body, split_top
import rsfront

INT = {"u8": 8, "u16": 16, "u32": 32, "u64": 64, "u128": 128, "i8": 8, "i16": 16, "i32": 32, "i64": 64, "i128": 128}
LEAN_KW = {"end", "from", "at", "have", "show", "then", "fun", "in", "do", "by", "open", "variable", "example", "st",
           "instance", "local", "where", "with", "structure", "class", "def", "theorem", "using", "calc", "this",
           "match", "if", "else", "let", "mut", "return", "for", "Type", "Prop", "Sort", "prefix", "infix", "max", "min"}

def lname(x):
    x = x.replace("__m", "_m")
    return x + "_" if x in LEAN_KW else x

def ty_of_tokens(toks):
    s = "".join(t[1] for t in toks) if not isinstance(toks, str) else toks
    return parse_ty(s)

def parse_ty(s):
    s = s.strip()
    if s.startswith("&mut"):
        return parse_ty(s[4:])
    if s.startswith("&"):
        return parse_ty(s[1:])
    if s in INT:
        return s
    if s in ("usize", "isize"):
        return "nat"
    if s == "bool":
        return "bool"
    m = re.match(r"^\[(.+);(.+)\]$", s)
    if m:
        n = m.group(2)
        return ("arr", parse_ty(m.group(1)), int(n, 0) if re.match(r"^[0-9xa-fA-F_]+$", n) else n)
    m = re.match(r"^\[(.+)\]$", s)
    if m:
        return ("slice", parse_ty(m.group(1)))
    m = re.match(r"^(?:w|Wrapping)<(.+)>$", s)
    if m:
        return parse_ty(m.group(1))
    return ("named", s)

def lean_ty(t):
    if t in INT:
        return f"BitVec {INT[t]}"
    if t == "nat":
        return "Nat"
    if t == "bool":
        return "Bool"
    if isinstance(t, tuple) and t[0] in ("arr", "slice") and t[1] == "u8":
        return "List U8"
    if isinstance(t, tuple) and t[0] == "lean":
        return t[1]
    raise Unsupported(f"no Lean type for {t}")

class Val:
    """a translated expression: Lean text + Rust type (+ elements when it is a flattened array)"""
    def __init__(self, lean, ty, elems=None, lit=None, place=None):
        self.lean, self.ty, self.elems, self.lit, self.place = lean, ty, elems, lit, place
    def atom(self):
        s = self.lean
        if re.match(r"^[\w.']+$", s) or (s.startswith("(") and s.endswith(")") and _balanced(s[1:-1])):
            return s
        return f"({s})"

def _balanced(s):
    d = 0
    for ch in s:
        if ch == "(":
            d += 1
        elif ch == ")":
            d -= 1
            if d < 0:
                return False
    return d == 0

def lit_lean(v, ty):
    if ty in INT:
        w = INT[ty]
        if ty.startswith("i") and v < 0:
            v += 1 << w
        return f"0x{v:x}#{w}" if v > 9 else f"{v}#{w}"
    if ty == "nat":
        return str(v)
    raise Unsupported(f"literal of type {ty}")

class StructInfo:
    """how a Rust struct is represented in Lean: `lean` type name and for each Rust place its Lean field"""
    def __init__(self, name, lean, fields, ctor=None):
        self.name, self.lean, self.fields, self.ctor = name, lean, fields, ctor
        # fields: { rust field name: (rust type, lean projection or [lean projections] for flattened arrays) }

class Unit:
    """one translated impl: the struct, its methods, constants and macros in scope"""
    def __init__(self, name, sinfo, methods, consts, macros, prims, namespace):
        self.name, self.sinfo, self.methods, self.consts, self.macros = name, sinfo, methods, consts, macros
        self.prims, self.namespace = prims, namespace
        self.sigs = {}
        for m, fn in methods.items():
            selfk = next((p[1] for p in fn.params if p[0] == "self"), None)
            self.sigs[m] = dict(selfkind=selfk, ret=ty_of_tokens(fn.ret) if fn.ret else None,
                                params=[(p[0], ty_of_tokens(p[1])) for p in fn.params if p[0] != "self"])

class Scope:
    def __init__(self, parent=None):
        self.vars, self.parent = {}, parent
    def get(self, n):
        s = self
        while s:
            if n in s.vars:
                return s.vars[n]
            s = s.parent
        return None
    def declare(self, n, var):
        self.vars[n] = var

class Var:
    def __init__(self, name, ty, lean, elems=None, key=None, const=False):
        self.name, self.ty, self.lean, self.elems, self.key, self.const = name, ty, lean, elems, key, const

class FnTr:
    """translates one function"""
    def __init__(self, unit, fname, inferred=None):
        self.u, self.fname = unit, fname
        self.fn = unit.methods[fname]
        self.inferred = inferred if inferred is not None else {}
        self.changed = False
        self.tmp = 0
        self.scope = Scope()
        self.lines = None

    # ---------- helpers
    def fresh(self, base="t"):
        self.tmp += 1
        return f"{base}_{self.tmp}"

    def emit(self, line):
        self.lines.append(line)

    def infer(self, key, ty):
        if key is not None and ty is not None and self.inferred.get(key) != ty:
            self.inferred[key] = ty
            self.changed = True

    # ---------- analysis: variables assigned in a block (outer variables only)
    def assigned(self, stmts, tail, declared=None):
        declared = set(declared or ())
        out = []
        def add(n):
            if n not in declared and n not in out:
                out.append(n)
        def place_root(e):
            while e[0] in ("index", "field", "paren", "deref"):
                e = e[1]
            if e[0] == "path" and len(e[1]) == 1:
                return e[1][0]
            return None
        def visit_e(e):
            if not isinstance(e, tuple):
                return
            k = e[0]
            if k == "mcall":
                recv = e[1]
                if recv[0] == "path" and recv[1] == ["self"] and self.u.sigs.get(e[2], {}).get("selfkind") == "mut":
                    add("self")
                visit_e(recv)
                for a in e[3]:
                    visit_e(a)
            elif k == "call":
                for a in e[2]:
                    if a[0] == "ref" and a[1]:
                        r = place_root(a[2])
                        if r:
                            add(r)
                    if a[0] == "path" and a[1] == ["self"]:
                        add("self")
                    visit_e(a)
            elif k in ("if",):
                visit_e(e[1]); visit_b(e[2]);
                if e[3]:
                    visit_b(e[3])
            elif k == "block":
                visit_b((e[1], e[2]))
            elif k in ("bin",):
                visit_e(e[2]); visit_e(e[3])
            elif k in ("un", "cast", "paren", "deref", "field", "try"):
                visit_e(e[1])
            elif k == "ref":
                visit_e(e[2])
            elif k == "index":
                visit_e(e[1]); visit_e(e[2])
            elif k in ("array", "tuple"):
                for a in e[1]:
                    visit_e(a)
            elif k == "struct":
                for _, a in e[2]:
                    visit_e(a)
        def visit_b(b):
            saved = set(declared)
            st, tl = b
            for s in st:
                visit_s(s)
            if tl is not None:
                visit_e(tl)
            declared.clear(); declared.update(saved)
        def visit_s(s):
            k = s[0]
            if k == "let":
                if s[4] is not None:
                    visit_e(s[4])
                for n in ([s[1][1]] if s[1][0] == "name" else s[1][1]):
                    declared.add(n)
            elif k == "assign":
                r = place_root(s[1])
                if r:
                    add(r)
                visit_e(s[3])
            elif k == "expr":
                visit_e(s[1])
            elif k == "for":
                visit_e(s[2])
                saved = set(declared)
                for n in ([s[1][1]] if s[1][0] == "name" else s[1][1]):
                    declared.add(n)
                visit_b(s[3])
                declared.clear(); declared.update(saved)
            elif k in ("while",):
                visit_e(s[1]); visit_b(s[2])
            elif k == "loop":
                visit_b(s[1])
            elif k == "return" and s[1] is not None:
                visit_e(s[1])
            elif k == "const":
                declared.add(s[1])
        visit_b((stmts, tail))
        return out

    def literal_indexed_only(self, name, stmts, tail):
        """True when every `name[...]` in the block has a literal index (then the array can be flattened)"""
        ok = [True]
        def ve(e):
            if not isinstance(e, tuple):
                return
            if e[0] == "index":
                base = e[1]
                while base[0] == "paren":
                    base = base[1]
                if base[0] == "path" and base[1] == [name] and e[2][0] != "lit":
                    ok[0] = False
            for x in e[1:]:
                if isinstance(x, tuple):
                    ve(x)
                elif isinstance(x, list):
                    for y in x:
                        if isinstance(y, tuple):
                            ve(y)
                            if len(y) == 2 and isinstance(y[1], tuple):
                                ve(y[1])
                        elif isinstance(y, list):
                            for z in y:
                                ve(z) if isinstance(z, tuple) else None
        for s in stmts:
            ve(s)
        if tail is not None:
            ve(tail)
        return ok[0]

    # ---------- places
    def self_field(self, fname):
        f = self.u.sinfo.fields.get(fname)
        if f is None:
            raise Unsupported(f"unknown field self.{fname}")
        return f

    def read_place(self, e, want=None):
        """value of a place expression (variable, self.f, x[i], self.f[i])"""
        k = e[0]
        if k == "paren":
            return self.read_place(e[1], want)
        if k == "path":
            if len(e[1]) == 1:
                n = e[1][0]
                if n == "self":
                    return Val("st", ("named", "Self"))
                v = self.scope.get(n)
                if v is not None:
                    ty = v.ty if v.ty is not None else self.inferred.get(v.key)
                    if ty is None and want is not None:
                        self.infer(v.key, want); ty = want
                    return Val(v.lean, ty, elems=v.elems, place=v)
                if n in self.u.consts:
                    cty, cl = self.u.consts[n]
                    return Val(cl, cty)
                raise Unsupported(f"unknown name {n}")
            if e[1][0] in ("u32", "u64", "i32", "u8", "u16", "i64", "usize") and e[1][1] in ("MAX", "MIN", "BITS"):
                ty = "nat" if e[1][0] == "usize" else e[1][0]
                w = INT.get(ty, 64)
                v = {"MAX": (1 << w) - 1 if not ty.startswith("i") else (1 << (w - 1)) - 1,
                     "MIN": 0 if not ty.startswith("i") else -(1 << (w - 1)), "BITS": w}[e[1][1]]
                if e[1][1] == "BITS":
                    return Val(str(v), "u32", lit=v)
                return Val(lit_lean(v, ty), ty, lit=v)
            if e[1][0] == "Self" and e[1][1] in self.u.consts:
                cty, cl = self.u.consts[e[1][1]]
                return Val(cl, cty)
            raise Unsupported(f"path {'::'.join(e[1])}")
        if k == "field":
            base = e[1]
            if base[0] == "path" and base[1] == ["self"]:
                rty, proj = self.self_field(e[2])
                if isinstance(proj, list):
                    elems = [Val(f"st.{p}", rty[1]) for p in proj]
                    return Val(None, rty, elems=elems)
                if proj is None:
                    return Val("st", rty)
                return Val(f"st.{proj}", rty)
            b = self.read_place(base)
            if e[2] == "0":       # Wrapping(x).0, Seed512.0
                return b
            raise Unsupported(f"field .{e[2]}")
        if k == "index":
            b = self.read_place(e[1])
            if b.elems is not None:
                if e[2][0] != "lit":
                    raise Unsupported("variable index into a flattened array")
                i = e[2][1]
                if i >= len(b.elems):
                    raise Unsupported("literal index out of bounds")
                return b.elems[i]
            idx = self.expr(e[2], "nat")
            if isinstance(b.ty, tuple) and b.ty[0] in ("arr", "slice"):
                if b.ty[1] == "u8":
                    return Val(f"byteAt {b.atom()} {idx.atom()}", "u8")
                return Val(f"rd {b.atom()} {idx.atom()}", b.ty[1])
            raise Unsupported("index into non-array")
        if k == "deref":
            return self.read_place(e[1], want)
        raise Unsupported(f"place {k}")

    def write_place(self, e, val):
        """emit the binding(s) that store `val` into place `e`"""
        k = e[0]
        if k == "paren" or k == "deref":
            return self.write_place(e[1], val)
        if k == "path" and len(e[1]) == 1:
            v = self.scope.get(e[1][0])
            if v is None:
                raise Unsupported(f"assignment to unknown {e[1][0]}")
            if v.elems is not None:
                if val.elems is None or len(val.elems) != len(v.elems):
                    raise Unsupported("whole-array assignment of different shape")
                tmp = [self.fresh("a") for _ in v.elems]
                for t, x in zip(tmp, val.elems):
                    self.emit(f"let {t} := {x.lean};")
                for d, t in zip(v.elems, tmp):
                    self.emit(f"let {d.lean} := {t};")
                return
            if v.ty is None:
                self.infer(v.key, val.ty)
            self.emit(f"let {v.lean} := {val.lean};")
            return
        if k == "field" and e[1][0] == "path" and e[1][1] == ["self"]:
            rty, proj = self.self_field(e[2])
            if isinstance(proj, list):
                if val.elems is None or len(val.elems) != len(proj):
                    raise Unsupported("self.array = value of different shape")
                upd = ", ".join(f"{p} := {x.lean}" for p, x in zip(proj, val.elems))
                self.emit(f"let st : {self.u.sinfo.lean} := {{ st with {upd} }};")
            elif proj is None:
                self.emit(f"let st : {self.u.sinfo.lean} := {val.lean};")
            else:
                self.emit(f"let st : {self.u.sinfo.lean} := {{ st with {proj} := {val.lean} }};")
            return
        if k == "index":
            base = e[1]
            while base[0] == "paren":
                base = base[1]
            if e[2][0] == "lit":
                i = e[2][1]
                if base[0] == "field" and base[1][0] == "path" and base[1][1] == ["self"]:
                    rty, proj = self.self_field(base[2])
                    if isinstance(proj, list):
                        self.emit(f"let st : {self.u.sinfo.lean} := {{ st with {proj[i]} := {val.lean} }};")
                        return
                if base[0] == "path" and len(base[1]) == 1:
                    v = self.scope.get(base[1][0])
                    if v is not None and v.elems is not None:
                        if v.elems[i].ty is None and val.ty is not None:
                            v.elems[i].ty = val.ty
                            self.infer(v.key, ("arr", val.ty, len(v.elems)))
                        self.emit(f"let {v.elems[i].lean} := {val.lean};")
                        return
            # general array element store
            idx = self.expr(e[2], "nat")
            if base[0] == "path" and len(base[1]) == 1:
                v = self.scope.get(base[1][0])
                if v is not None and v.elems is None:
                    self.emit(f"let {v.lean} := wr {v.lean} {idx.atom()} {val.atom()};")
                    return
            if base[0] == "field" and base[1][0] == "path" and base[1][1] == ["self"]:
                rty, proj = self.self_field(base[2])
                self.emit(f"let st : {self.u.sinfo.lean} := {{ st with {proj} := wr st.{proj} {idx.atom()} {val.atom()} }};")
                return
        raise Unsupported(f"assignment to {k}")

    # ---------- expressions
    def unify_int(self, a, b):
        """result type of an integer binary operation"""
        if a.ty is None and b.ty is None:
            return None
        return a.ty if a.ty is not None else b.ty

    def coerce(self, v, ty):
        if v.ty == ty or ty is None:
            return v
        if v.lit is not None and (v.ty is None):
            return Val(lit_lean(v.lit, ty), ty, lit=v.lit)
        if v.ty is None:
            if v.place is not None:
                self.infer(v.place.key, ty)
            return Val(v.lean, ty, elems=v.elems, place=v.place)
        if v.ty == "nat" and ty in INT:
            return Val(f"BitVec.ofNat {INT[ty]} {v.atom()}", ty)
        return v

    def expr(self, e, want=None):
        v = self.expr_(e, want)
        if want is not None:
            v = self.coerce(v, want)
        return v

    def expr_(self, e, want=None):
        k = e[0]
        if k == "lit":
            ty = e[2] or (want if (want in INT or want == "nat") else None)
            if e[2] in ("usize", "isize"):
                ty = "nat"
            if ty is None:
                return Val(str(e[1]), None, lit=e[1])
            return Val(lit_lean(e[1], ty), ty, lit=e[1])
        if k == "bool":
            return Val("true" if e[1] else "false", "bool")
        if k == "paren":
            v = self.expr(e[1], want)
            return v
        if k in ("path", "field", "index", "deref"):
            return self.read_place(e, want)
        if k == "ref":
            return self.expr(e[2], want)
        if k == "cast":
            v = self.expr(e[1])
            to = parse_ty(e[2])
            if v.ty is None and v.lit is not None:
                return Val(lit_lean(v.lit % (1 << INT[to]) if to in INT else v.lit, to), to, lit=v.lit)
            if v.ty is None:
                raise Unsupported("cast of a value of unknown type")
            if to in INT and v.ty in INT:
                if INT[to] == INT[v.ty]:
                    return Val(v.lean, to)
                if v.ty.startswith("i") and INT[to] > INT[v.ty]:
                    return Val(f"{v.atom()}.signExtend {INT[to]}", to)
                return Val(f"{v.atom()}.setWidth {INT[to]}", to)
            if to == "nat" and v.ty in INT:
                if v.ty.startswith("i"):
                    raise Unsupported("signed to usize cast")
                return Val(f"{v.atom()}.toNat", "nat")
            if to in INT and v.ty == "nat":
                return Val(f"BitVec.ofNat {INT[to]} {v.atom()}", to)
            if to == "nat" and v.ty == "nat":
                return v
            raise Unsupported(f"cast {v.ty} as {to}")
        if k == "un":
            v = self.expr(e[2], want)
            if e[1] == "!":
                if v.ty == "bool":
                    return Val(f"!{v.atom()}", "bool")
                return Val(f"~~~{v.atom()}", v.ty)
            if e[1] == "-":
                if v.lit is not None and v.ty is None:
                    return Val(str(-v.lit), None, lit=-v.lit)
                return Val(f"-{v.atom()}", v.ty)
        if k == "bin":
            return self.binop(e[1], e[2], e[3], want)
        if k == "mcall":
            return self.mcall(e, want)
        if k == "call":
            return self.call(e, want)
        if k == "if":
            return self.if_expr(e, want)
        if k == "block":
            return self.block_expr(e[1], e[2], want)
        if k == "array":
            elems = [self.expr(x, want[1] if isinstance(want, tuple) and want[0] == "arr" else None) for x in e[1]]
            ety = next((x.ty for x in elems if x.ty is not None), None)
            elems = [self.coerce(x, ety) for x in elems]
            return Val(None, ("arr", ety, len(elems)), elems=elems)
        if k == "repeat":
            n = self.expr(e[2], "nat")
            if n.lit is None:
                raise Unsupported("array repeat with a non-literal count")
            ety = want[1] if isinstance(want, tuple) and want[0] == "arr" else None
            x = self.expr(e[1], ety)
            return Val(None, ("arr", x.ty, n.lit), elems=[Val(x.lean, x.ty, lit=x.lit) for _ in range(n.lit)])
        if k == "struct":
            return self.struct_lit(e)
        if k == "tuple":
            vs = [self.expr(x) for x in e[1]]
            return Val("(" + ", ".join(v.lean for v in vs) + ")", ("tuple", [v.ty for v in vs]))
        if k == "macro":
            raise Unsupported(f"macro {e[1]}! in expression position")
        raise Unsupported(f"expression {k}")

    def binop(self, op, l, r, want):
        cmp = op in ("==", "!=", "<", ">", "<=", ">=")
        logic = op in ("&&", "||")
        if logic:
            a, b = self.expr(l, "bool"), self.expr(r, "bool")
            return Val(f"{a.atom()} {op} {b.atom()}", "bool")
        if op in ("<<", ">>"):
            a = self.expr(l, want if not cmp else None)
            b = self.expr(r)
            if a.ty is None and want is None and a.lit is not None:
                # `1 << b` with the type fixed by the context of the parent
                pass
            if b.lit is not None:
                if a.ty in INT and b.lit >= INT[a.ty]:
                    raise Unsupported("shift by at least the width")
                amt = str(b.lit)
            elif b.ty == "nat":
                amt = b.atom()
            elif b.ty in INT:
                amt = f"{b.atom()}.toNat"
            else:
                raise Unsupported("shift amount of unknown type")
            lop = "<<<" if op == "<<" else (">>>" if not (a.ty or "u").startswith("i") else None)
            if lop is None:
                return Val(f"{a.atom()}.sshiftRight {amt}", a.ty)
            if a.ty is None:
                # untyped literal: keep as a deferred value; the parent coerces
                v = Val(f"@@LIT{a.lit}@@ {lop} {amt}", None)
                v.deferred = (a.lit, lop, amt)
                return v
            return Val(f"{a.atom()} {lop} {amt}", a.ty)
        a = self.expr(l, None if cmp else want)
        b = self.expr(r, a.ty if a.ty is not None else (None if cmp else want))
        if a.ty is None and b.ty is not None:
            a = self.fix(a, b.ty)
        if b.ty is None and a.ty is not None:
            b = self.fix(b, a.ty)
        if a.ty is None and b.ty is None:
            if want is not None and not cmp:
                a, b = self.fix(a, want), self.fix(b, want)
            elif a.lit is not None and b.lit is not None:
                import operator
                f = {"+": operator.add, "-": operator.sub, "*": operator.mul, "/": operator.floordiv,
                     "%": operator.mod, "^": operator.xor, "|": operator.or_, "&": operator.and_}.get(op)
                if f:
                    v = f(a.lit, b.lit)
                    return Val(str(v), None, lit=v)
                raise Unsupported("comparison of two untyped literals")
            else:
                raise Unsupported(f"operands of `{op}` have unknown type")
        def is_bytes(v):
            return isinstance(v.ty, tuple) and v.ty[0] in ("arr", "slice") and v.ty[1] == "u8" and v.elems is None
        if (is_bytes(a) or is_bytes(b)) and op in ("==", "!="):
            x, z = (a, b) if is_bytes(a) else (b, a)
            if z.elems is not None and all(q.lit == 0 for q in z.elems):
                # byte string compared with [0; n] (n is the string's length by the type of the array)
                return Val(f"isAllZero {x.atom()}" if op == "==" else f"!(isAllZero {x.atom()})", "bool")
            raise Unsupported("byte-string comparison")
        if a.elems is not None or b.elems is not None:
            if op in ("==", "!="):
                if a.elems is None or b.elems is None or len(a.elems) != len(b.elems):
                    raise Unsupported("array comparison of different shapes")
                ety = next((x.ty for x in a.elems + b.elems if x.ty is not None), None)
                parts = [f"{self.fix(x, ety).atom()} == {self.fix(y, ety).atom()}" for x, y in zip(a.elems, b.elems)]
                conj = " && ".join(parts)
                return Val(f"({conj})" if op == "==" else f"!({conj})", "bool")
            raise Unsupported("arithmetic on arrays")
        ty = a.ty
        if cmp:
            if ty in INT and ty.startswith("i") and op in ("<", ">", "<=", ">="):
                f = {"<": "slt", "<=": "sle"}
                if op in f:
                    return Val(f"{a.atom()}.{f[op]} {b.atom()}", "bool")
                return Val(f"{b.atom()}.{f['<' if op == '>' else '<=']} {a.atom()}", "bool")
            if op in ("==", "!="):
                return Val(f"{a.atom()} {op} {b.atom()}", "bool")
            return Val(f"decide ({a.atom()} {op} {b.atom()})", "bool")
        lop = {"^": "^^^", "|": "|||", "&": "&&&", "+": "+", "-": "-", "*": "*", "/": "/", "%": "%"}[op]
        return Val(f"{a.atom()} {lop} {b.atom()}", ty)

    def fix(self, v, ty):
        """give an untyped literal / deferred literal shift / unknown variable the type `ty`"""
        if v.ty is not None or ty is None:
            return v
        d = getattr(v, "deferred", None)
        if d is not None:
            lit, lop, amt = d
            return Val(f"{lit_lean(lit, ty)} {lop} {amt}", ty)
        return self.coerce(v, ty)

    def closure_pred(self, c, elem_ty):
        if c[0] != "closure" or len(c[1]) != 1:
            raise Unsupported("closure shape")
        sc = Scope(self.scope)
        n = c[1][0]
        sc.declare(n, Var(n, elem_ty, lname(n)))
        saved = self.scope
        self.scope = sc
        try:
            b = self.expr(c[2], "bool")
        finally:
            self.scope = saved
        return f"(fun {lname(n)} => {b.lean})"

    def mcall(self, e, want):
        _, recv, name, args = e
        # self.method(...)
        if recv[0] == "path" and recv[1] == ["self"] and name in self.u.sigs:
            return self.self_call(name, args)
        # iterator idioms on byte strings
        if name == "all" and recv[0] == "mcall" and recv[2] == "iter":
            base = self.expr(recv[1])
            if isinstance(base.ty, tuple) and base.ty[1] == "u8" and base.elems is None:
                return Val(f"List.all {base.atom()} {self.closure_pred(args[0], 'u8')}", "bool")
            if base.elems is not None:
                sc_elems = []
                for x in base.elems:
                    c = args[0]
                    sc = Scope(self.scope); n = c[1][0]
                    sc.declare(n, Var(n, x.ty, x.atom()))
                    saved = self.scope; self.scope = sc
                    try:
                        sc_elems.append(self.expr(c[2], "bool").atom())
                    finally:
                        self.scope = saved
                return Val("(" + " && ".join(sc_elems) + ")", "bool")
            raise Unsupported(".iter().all on this type")
        v = self.expr(recv, want if name in ("wrapping_add", "wrapping_sub", "wrapping_mul", "rotate_left", "rotate_right") else None)
        if name in ("wrapping_add", "wrapping_sub", "wrapping_mul"):
            b = self.expr(args[0], v.ty)
            if v.ty is None:
                v = self.fix(v, b.ty)
            op = {"wrapping_add": "+", "wrapping_sub": "-", "wrapping_mul": "*"}[name]
            return Val(f"{v.atom()} {op} {b.atom()}", v.ty)
        if name in ("rotate_left", "rotate_right"):
            b = self.expr(args[0])
            if b.lit is None:
                amt = b.atom() if b.ty == "nat" else f"{b.atom()}.toNat"
            else:
                amt = str(b.lit)
            f = "rotateLeft" if name == "rotate_left" else "rotateRight"
            return Val(f"{v.atom()}.{f} {amt}", v.ty)
        if name == "to_le_bytes" and v.ty in ("u32", "u64"):
            return Val(f"{'U32' if v.ty == 'u32' else 'U64'}.toLE {v.atom()}", ("arr", "u8", INT[v.ty] // 8))
        if name in ("as_mut", "as_ref", "clone", "iter") and not args:
            return v
        if name == "len" and not args:
            if v.elems is not None:
                return Val(str(len(v.elems)), "nat", lit=len(v.elems))
            return Val(f"{v.atom()}.length", "nat")
        if name == "wrapping_neg":
            return Val(f"-{v.atom()}", v.ty)
        if name == "count_ones":
            raise Unsupported("count_ones")
        raise Unsupported(f"method .{name}()")

    def self_call(self, name, args):
        sig = self.u.sigs[name]
        avals = [self.expr(a, p[1] if p[1] != ("named", "Self") else None) for a, p in zip(args, sig["params"])]
        argstr = "".join(" " + a.atom() for a in avals)
        fn = f"{self.u.namespace}.{name}"
        if sig["selfkind"] == "mut":
            if sig["ret"] is None:
                self.emit(f"let st := {fn} st{argstr};")
                return Val("()", "unit")
            t = self.fresh("r")
            self.emit(f"let {t} := {fn} st{argstr};")
            self.emit(f"let st := {t}.2;")
            return Val(f"{t}.1", sig["ret"])
        if sig["selfkind"] in ("ref", "value"):
            return Val(f"{fn} st{argstr}", sig["ret"])
        return Val(f"{fn}{argstr}", sig["ret"])

    def call(self, e, want):
        f, args = e[1], e[2]
        if f[0] != "path":
            raise Unsupported("call of a non-path")
        name = f[1][-1]
        full = "::".join(f[1])
        if name == "w" or full == "Wrapping":        # core::num::Wrapping constructor
            return self.expr(args[0], want)
        if full in self.u.prims or name in self.u.prims:
            return (self.u.prims.get(full) or self.u.prims[name])(self, args, want)
        if f[1][0] in ("Self", self.u.name) and name in self.u.sigs and len(f[1]) == 2:
            sig = self.u.sigs[name]
            avals = [self.expr(a, p[1]) for a, p in zip(args, sig["params"])]
            return Val(f"{self.u.namespace}.{name}" + "".join(" " + a.atom() for a in avals), sig["ret"])
        if full in ("u32::from_le_bytes", "u64::from_le_bytes"):
            a = self.expr(args[0])
            if a.elems is None:
                raise Unsupported("from_le_bytes of a non-literal array")
            return Val(("U32" if name and f[1][0] == "u32" else "U64") + ".ofLE " + " ".join(x.atom() for x in a.elems), f[1][0])
        raise Unsupported(f"call of {full}")

    def struct_lit(self, e):
        si = self.u.sinfo
        if e[1] not in (si.name, "Self"):
            raise Unsupported(f"struct literal {e[1]}")
        parts = {}
        for fname, fe in e[2]:
            rty, proj = self.self_field(fname)
            v = self.expr(fe, rty)
            if isinstance(proj, list):
                if v.elems is None or len(v.elems) != len(proj):
                    raise Unsupported("array field initialised from a non-flattened value")
                for p, x in zip(proj, v.elems):
                    parts[p] = self.coerce(x, rty[1]).lean
            else:
                parts[proj] = v.lean
        if list(parts) == [None]:
            return Val(parts[None], ("named", "Self"))
        return Val("{ " + ", ".join(f"{p} := {x}" for p, x in parts.items()) + f" : {si.lean} }}", ("named", "Self"))

    # ---------- blocks
    def sub(self, f):
        """run f with a fresh line buffer and child scope; returns (lines, result)"""
        saved_lines, saved_scope = self.lines, self.scope
        self.lines, self.scope = [], Scope(saved_scope)
        try:
            r = f()
            return self.lines, r
        finally:
            self.lines, self.scope = saved_lines, saved_scope

    def tuple_of(self, names):
        parts = []
        for n in names:
            if n == "self":
                parts.append("st")
                continue
            v = self.scope.get(n)
            if v is None:
                raise Unsupported(f"assigned variable {n} not in scope")
            if v.elems is not None:
                parts.extend(x.lean for x in v.elems)
            else:
                parts.append(v.lean)
        if not parts:
            return "()"
        return parts[0] if len(parts) == 1 else "(" + ", ".join(parts) + ")"

    def render(self, lines, final):
        return "(" + " ".join(lines) + " " + final + ")" if lines else final

    def if_expr(self, e, want):
        _, c, th, el = e
        cv = self.expr(c, "bool")
        if el is None:
            raise Unsupported("if without else in value position")
        def br(b):
            def f():
                self.stmts(b[0])
                v = self.expr(b[1], want)
                return v
            return self.sub(f)
        l1, v1 = br(th)
        l2, v2 = br(el)
        ty = v1.ty if v1.ty is not None else v2.ty
        v1, v2 = self.fix(v1, ty), self.fix(v2, ty)
        return Val(f"if {cv.lean} then {self.render(l1, v1.lean)} else {self.render(l2, v2.lean)}", ty)

    def block_expr(self, stmts, tail, want):
        if tail is None:
            raise Unsupported("block without value in expression position")
        # a block expression may assign outer variables: hoist its statements into the current sequence
        saved = self.scope
        self.scope = Scope(saved)
        try:
            self.stmts(stmts)
            v = self.expr(tail, want)
            t = self.fresh("b")
            self.emit(f"let {t} := {v.lean};")
            return Val(t, v.ty)
        finally:
            self.scope = saved

    def declare_let(self, s):
        _, pat, mut, ty, init = s
        if pat[0] != "name":
            raise Unsupported("tuple pattern")
        n = pat[1]
        key = ("let", self.decl_counter())
        dty = parse_ty(ty) if ty else None
        if dty is None:
            dty = self.inferred.get(key)
        if init is None:
            raise Unsupported("let without initialiser")
        v = self.expr(init, dty)
        vty = dty if dty is not None else v.ty
        ln = lname(n)
        if v.elems is not None:
            # array value: flatten when all uses index with literals
            elems = []
            for i, x in enumerate(v.elems):
                ety = vty[1] if isinstance(vty, tuple) and vty[0] == "arr" and vty[1] is not None else x.ty
                x = self.fix(x, ety)
                en = f"{ln}_{i}"
                if x.ty is None and x.lit is not None:
                    # element type still unknown (e.g. `[0; 8]`): emitted once the type is inferred
                    self.emit(f"let {en} := @@UNTYPED{x.lit}@@;")
                else:
                    self.emit(f"let {en} := {x.lean};")
                elems.append(Val(en, ety))
            self.scope.declare(n, Var(n, vty, None, elems=elems, key=key))
            return
        if vty is None and v.lit is not None:
            self.emit(f"let {ln} := @@UNTYPED{v.lit}@@;")
        else:
            self.emit(f"let {ln} := {v.lean};")
        self.scope.declare(n, Var(n, vty, ln, key=key))

    def decl_counter(self):
        self._decls = getattr(self, "_decls", 0) + 1
        return self._decls

    def stmts(self, stmts):
        for i, s in enumerate(stmts):
            self.stmt(s, stmts[i + 1:])

    def stmt(self, s, rest):
        k = s[0]
        if k == "let":
            return self.declare_let(s)
        if k == "const":
            v = self.expr(s[3], parse_ty(s[2]))
            ln = lname(s[1])
            cty = parse_ty(s[2])
            if v.elems is not None:
                self.emit(f"let {ln} := [{', '.join(x.lean for x in v.elems)}];")
                self.scope.declare(s[1], Var(s[1], ("list", cty[1]), ln, const=True))
            else:
                self.emit(f"let {ln} := {v.lean};")
                self.scope.declare(s[1], Var(s[1], cty, ln, const=True))
            return
        if k == "assign":
            _, place, op, rhs = s
            if op is None:
                cur_ty = None
                try:
                    cur = self.read_place(place)
                    cur_ty = cur.ty
                except Unsupported:
                    cur = None
                v = self.expr(rhs, cur_ty)
                self.write_place(place, v)
            else:
                v = self.binop(op, place, rhs, None)
                self.write_place(place, v)
            return
        if k == "expr":
            e = s[1]
            if e[0] == "if":
                return self.if_stmt(e)
            if e[0] == "block":
                saved = self.scope
                self.scope = Scope(saved)
                try:
                    self.stmts(e[1])
                    if e[2] is not None:
                        self.expr(e[2])
                finally:
                    self.scope = saved
                return
            if e[0] == "macro":
                if e[1] in ("debug_assert", "debug_assert_eq", "trace", "debug", "info", "warn", "error"):
                    return
                raise Unsupported(f"statement macro {e[1]}!")
            self.expr(e)       # for its effects (self calls emit bindings)
            return
        if k == "for":
            return self.for_stmt(s)
        if k == "fn":
            raise Unsupported(f"nested fn {s[1].name} (translated separately when listed)")
        raise Unsupported(f"statement {k}")

    def if_stmt(self, e):
        _, c, th, el = e
        cv = self.expr(c, "bool")
        names = self.assigned(th[0], th[1])
        if el is not None:
            for n in self.assigned(el[0], el[1]):
                if n not in names:
                    names.append(n)
        if not names:
            return
        def br(b):
            def f():
                if b is not None:
                    self.stmts(b[0])
                    if b[1] is not None:
                        self.expr(b[1])
                return self.tuple_of(names)
            return self.sub(f)
        l1, t1 = br(th)
        l2, t2 = br(el)
        pat = self.tuple_of(names)
        self.emit(f"let {pat} := if {cv.lean} then {self.render(l1, t1)} else {self.render(l2, t2)};")

    def for_stmt(self, s):
        _, var, it, body = s
        if var[0] != "name":
            raise Unsupported("tuple loop variable")
        # iterable
        it0 = it
        while it0[0] in ("ref", "paren"):
            it0 = it0[2] if it0[0] == "ref" else it0[1]
        if it0[0] == "mcall" and it0[2] == "iter":
            it0 = it0[1]
        if it0[0] == "range":
            lo = self.expr(it0[1], "nat") if it0[1] is not None else Val("0", "nat", lit=0)
            hi = self.expr(it0[2], "nat")
            if it0[3]:
                hi = Val(f"({hi.lean} + 1)", "nat", lit=None if hi.lit is None else hi.lit + 1)
            if lo.lit == 0:
                lst = f"(List.range {hi.atom()})"
            else:
                lst = f"(List.range' {lo.atom()} ({hi.atom()} - {lo.atom()}))"
            vty = "nat"
        else:
            v = self.expr(it0)
            if isinstance(v.ty, tuple) and v.ty[0] == "list":
                lst, vty = v.atom(), v.ty[1]
            elif v.elems is not None:
                lst, vty = "[" + ", ".join(x.lean for x in v.elems) + "]", v.elems[0].ty
            else:
                raise Unsupported("for over this iterable")
        names = self.assigned(body[0], body[1], declared={var[1]})
        pat = None
        def f():
            self.scope.declare(var[1], Var(var[1], vty, lname(var[1])))
            self.stmts(body[0])
            if body[1] is not None:
                self.expr(body[1])
            return self.tuple_of(names)
        lines, t = self.sub(f)
        pat = self.tuple_of(names)
        self.emit(f"let {pat} := List.foldl (fun {pat if pat.startswith('(') or pat == '()' else '(' + pat + ')'} "
                  f"{lname(var[1])} => {self.render(lines, t)}) {pat} {lst};")

    # ---------- whole function
    def body_to_lean(self, stmts, tail, ret_ty, selfkind):
        """sequence with early-return support; returns a Lean expression string"""
        for i, s in enumerate(stmts):
            if s[0] == "expr" and s[1][0] == "if" and s[1][3] is None:
                th = s[1][2]
                if th[0] and th[0][-1][0] == "return" and th[1] is None:
                    # if c { …; return e; }  rest   ==>   if c then (…; e) else rest
                    self.stmts(stmts[:i])
                    cv = self.expr(s[1][1], "bool")
                    def f():
                        self.stmts(th[0][:-1])
                        return self.final(th[0][-1][1], ret_ty, selfkind)
                    l1, r1 = self.sub(f)
                    def g():
                        return self.body_to_lean(stmts[i + 1:], tail, ret_ty, selfkind)
                    l2, r2 = self.sub(g)
                    return f"if {cv.lean} then {self.render(l1, r1)} else {self.render(l2, r2)}"
            if s[0] == "return":
                self.stmts(stmts[:i])
                return self.final(s[1], ret_ty, selfkind)
        self.stmts(stmts)
        return self.final(tail, ret_ty, selfkind)

    def final(self, tail, ret_ty, selfkind):
        if ret_ty is None:
            if tail is not None:
                self.expr(tail)
            return "st" if selfkind == "mut" else "()"
        if tail is None:
            raise Unsupported("function with a return type but no tail expression")
        v = self.expr(tail, ret_ty if ret_ty != ("named", "Self") else None)
        if selfkind == "mut":
            return f"({v.lean}, st)"
        return v.lean

    def translate(self):
        fn = self.fn
        sig = self.u.sigs[self.fname]
        rsfront._expansion_counter[0] = 0
        stmts, tail = parse_body(fn.body, self.u.macros)
        self.lines = []
        self.scope = Scope()
        params = []
        if sig["selfkind"]:
            params.append(f"(st : {self.u.sinfo.lean})")
        for n, ty in sig["params"]:
            if isinstance(ty, tuple) and ty[0] == "arr" and ty[1] == "u8":
                self.scope.declare(n, Var(n, ty, lname(n)))
                params.append(f"({lname(n)} : List U8)")
            elif isinstance(ty, tuple) and ty[0] == "named" and ty[1] in self.u.prims.get("@bytes_types", ()):
                self.scope.declare(n, Var(n, ("arr", "u8", None), lname(n)))
                params.append(f"({lname(n)} : List U8)")
            elif isinstance(ty, tuple) and ty[0] == "named" and ty[1] == "Self::Seed":
                self.scope.declare(n, Var(n, ("arr", "u8", None), lname(n)))
                params.append(f"({lname(n)} : List U8)")
            else:
                self.scope.declare(n, Var(n, ty, lname(n)))
                params.append(f"({lname(n)} : {lean_ty(ty)})")
        ret = sig["ret"]
        body = self.body_to_lean(stmts, tail, ret, sig["selfkind"])
        if ret is None:
            rty = self.u.sinfo.lean if sig["selfkind"] == "mut" else "Unit"
        else:
            r = self.u.sinfo.lean if ret in (("named", "Self"), ("named", self.u.name)) else lean_ty(ret)
            rty = f"{r} × {self.u.sinfo.lean}" if sig["selfkind"] == "mut" else r
        text = "\n  ".join(self.lines + [body])
        return params, rty, text

def translate_fn(unit, fname):
    """fixpoint over the inference of untyped `let x = 0` declarations"""
    inferred = {}
    for _ in range(4):
        tr = FnTr(unit, fname, inferred)
        params, rty, text = tr.translate()
        if not tr.changed:
            break
    def untyped(m):
        raise Unsupported(f"type of literal {m.group(1)} could not be inferred")
    if "@@UNTYPED" in text or "@@LIT" in text:
        # last attempt: resolve from the inferred table is done through the re-run; anything left is unsupported
        m = re.search(r"@@(?:UNTYPED|LIT)(-?\d+)@@", text)
        raise Unsupported(f"type of literal {m.group(1)} could not be inferred in {fname}")
    return f"def {fname} {' '.join(params)} : {rty} :=\n  {text}"
